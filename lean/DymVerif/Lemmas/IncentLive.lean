/-
  Lemmas/IncentLive — the streamer EndBlock keeps `LiveS` (every record of an active stream names a gauge
  `getActiveGaugeByID` accepts): a gauge's liveness reads its start, perpetual flag, filled and total epochs; the
  EndBlock (epochEnd = false) writes back cached copies of live gauges with more coins / distributed coins only.
  Hence `LiveAlong s ns` (Lemmas/IncentPagingState) follows from `LiveS s` alone: `liveAlong_of_live`.
-/
import DymVerif.Lemmas.IncentPagingState
import DymVerif.Lemmas.IncentProp
namespace DymVerif.Incent
open DymVerif Coins

theorem isFinished_congr {g g' : Gauge} (h1 : g'.start = g.start) (h2 : g'.perpetual = g.perpetual) (h3 : g'.filled = g.filled)
    (h4 : g'.numEpochs = g.numEpochs) (now : Nat) : g'.isFinished now = g.isFinished now := by
  unfold Gauge.isFinished; rw [h1, h2, h3, h4]

/-- cache invariant: no cached gauge is finished at the block's time -/
def CNF (now : Nat) (c : Caches) : Prop := ∀ g ∈ c.gauges, g.isFinished now = false

theorem mem_upsertGauge : ∀ (l : List Gauge) (x y : Gauge), y ∈ upsertGauge l x → y = x ∨ y ∈ l := by
  intro l
  induction l with
  | nil => intro x y h; simp [upsertGauge] at h; exact Or.inl h
  | cons a rest ih =>
    intro x y h
    unfold upsertGauge at h
    split at h
    · rcases List.mem_cons.1 h with h1 | h1
      · exact Or.inl h1
      · exact Or.inr (List.mem_cons_of_mem _ h1)
    · rcases List.mem_cons.1 h with h1 | h1
      · exact Or.inr (by rw [h1]; exact List.mem_cons_self)
      · rcases ih x y h1 with h2 | h2
        · exact Or.inl h2
        · exact Or.inr (List.mem_cons_of_mem _ h2)

theorem CNF_bump (now : Nat) (gs : List Gauge) (h : ∀ g ∈ gs, g.isFinished now = false) (g : Gauge) (hg : g.isFinished now = false) (rw_ : Coins) :
    ∀ y ∈ upsertGauge gs { g with coins := Coins.add g.coins rw_ }, y.isFinished now = false := by
  intro y hy
  rcases mem_upsertGauge _ _ _ hy with h1 | h1
  · rw [h1]; exact (isFinished_congr (g := g) (g' := { g with coins := Coins.add g.coins rw_ }) rfl rfl rfl rfl now).trans hg
  · exact h y h1

theorem rewardsCb_CNF (s : State) (c : Caches) (v : SView) (r : Rec) (h : CNF s.now c) : CNF s.now (rewardsCb s c v r).1 := by
  unfold rewardsCb
  cases hs : c.getStream v.id with
  | none => exact h
  | some stream =>
    simp only
    cases hg : c.getGauge r.gauge with
    | some g =>
      simp only
      obtain ⟨hm, _⟩ := cacheGet_some hg
      split
      · exact h
      · exact CNF_bump s.now c.gauges h g (h g hm) _
    | none =>
      simp only
      cases hst : getGauge s r.gauge with
      | none => exact h
      | some g =>
        simp only
        by_cases hf : g.isFinished s.now = true
        · simp only [hf, if_true]; exact h
        · rw [if_neg hf]
          simp only
          have hf' : g.isFinished s.now = false := by simpa using hf
          have hins : ∀ y ∈ upsertGauge c.gauges g, y.isFinished s.now = false := by
            intro y hy
            rcases mem_upsertGauge _ _ _ hy with h1 | h1
            · rw [h1]; exact hf'
            · exact h y h1
          split
          · exact hins
          · exact CNF_bump s.now _ hins g hf' _

theorem ptrLoop_CNF (s : State) (maxOps : Nat) :
    ∀ (es : List Nat) (total : Nat) (c : Caches) (ps : List Pointer), CNF s.now c → CNF s.now (ptrLoop s maxOps es total c ps).2.1 := by
  intro es
  induction es with
  | nil => intro total c ps h; exact h
  | cons e rest ih =>
    intro total c ps h
    unfold ptrLoop
    split
    · exact h
    · exact ih _ _ _ (iterate_inv (CNF s.now) _ e _ _ (rewardsCb s) c (fun acc v r hp => rewardsCb_CNF s acc v r hp) h)

/-- live gauges stay live through the gauge loop of x/incentives `Distribute` outside an epoch end -/
def LiveG (now : Nat) (gs gs' : List Gauge) : Prop :=
  ∀ id g, getG gs id = some g → g.isFinished now = false → ∃ g', getG gs' id = some g' ∧ g'.isFinished now = false

theorem LiveG.trans {now : Nat} {a b c : List Gauge} (h1 : LiveG now a b) (h2 : LiveG now b c) : LiveG now a c := by
  intro id g hg hf
  obtain ⟨g1, a1, a2⟩ := h1 id g hg hf
  exact h2 id g1 a1 a2

theorem setGauge_live (now : Nat) (s : State) (gw : Gauge) (hf : gw.isFinished now = false) : LiveG now s.gauges (setGauge s gw).gauges := by
  intro id g0 hg0 hf0
  show ∃ g1, getG (s.gauges.set (gw.id - 1) gw) id = some g1 ∧ _
  by_cases hid : id = gw.id - 1 + 1
  · have h0 : id ≠ 0 := by omega
    have hk : id - 1 < s.gauges.length := by
      unfold getG at hg0
      rw [if_neg h0] at hg0
      exact (List.getElem?_eq_some_iff.1 hg0).1
    have hk2 : gw.id - 1 = id - 1 := by omega
    rw [hk2, getG_set_self _ id _ h0 hk]
    exact ⟨_, rfl, hf⟩
  · rw [getG_set_ne _ _ _ _ hid]
    exact ⟨g0, hg0, hf0⟩

theorem incLoop_live (now : Nat) : ∀ (gs : List Gauge) (s : State) (tr : Tracker) (s' : State) (tr' : Tracker),
    (∀ g ∈ gs, g.isFinished now = false) → incLoop false gs s tr = .ok (s', tr') → LiveG now s.gauges s'.gauges := by
  intro gs
  induction gs with
  | nil =>
    intro s tr s' tr' _ h
    simp only [incLoop, Except.ok.injEq, Prod.mk.injEq] at h
    rw [← h.1]
    intro id g hg hf; exact ⟨g, hg, hf⟩
  | cons g rest ih =>
    intro s tr s' tr' hnf h
    unfold incLoop at h
    cases hc : calcGauge s g tr with
    | err => simp [hc] at h
    | panic => simp [hc] at h
    | ok t2 c =>
      simp only [hc] at h
      have hrest : ∀ x ∈ rest, x.isFinished now = false := fun x hx => hnf x (List.mem_cons_of_mem _ hx)
      split at h
      · exact ih _ _ _ _ hrest h
      · have h2 := ih _ _ _ _ hrest h
        refine LiveG.trans (setGauge_live now s _ ?_) h2
        exact (isFinished_congr (g := g) rfl rfl (by simp) rfl now).trans (hnf g List.mem_cons_self)

/-- the streamer EndBlock keeps every live gauge live -/
theorem endBlock_liveG (s s' : State) (h : streamerEndBlock s = .ok s') : LiveG s.now s.gauges s'.gauges ∧ s'.now = s.now := by
  unfold streamerEndBlock strDistribute at h
  have hcnf := ptrLoop_CNF s s.maxIter (sortByDuration [0, 1, 2]) 0 ⟨sortById (activeStreams s), [], []⟩ s.ptrs
    (by intro g hg; simp at hg)
  generalize ptrLoop s s.maxIter (sortByDuration [0, 1, 2]) 0 ⟨sortById (activeStreams s), [], []⟩ s.ptrs = res at h hcnf
  obtain ⟨tot, c, ps⟩ := res
  dsimp only at h hcnf
  split at h
  · simp at h
  · next b hb =>
    cases hinc : incDistribute { s with ptrs := ps, bank := b } c.gauges false with
    | error x => simp [hinc] at h
    | ok s2 =>
      simp only [hinc] at h
      have hsame := saveStreams_same false _ _ _ h
      have hnow := saveStreams_now false _ _ _ h
      have hfr := incDistribute_frame _ _ _ _ hinc
      have hnow2 : s2.now = s.now := by rw [hfr]
      refine ⟨?_, by rw [hnow, hnow2]⟩
      rw [hsame.1]
      unfold incDistribute at hinc
      cases hl : incLoop false c.gauges { s with ptrs := ps, bank := b } [] with
      | error e => simp [hl] at hinc
      | ok p =>
        obtain ⟨s3, tr⟩ := p
        simp only [hl] at hinc
        cases hp : payAll tr s3.bank with
        | none => simp [hp] at hinc
        | some b2 =>
          simp only [hp, Except.ok.injEq] at hinc
          rw [← hinc]
          have := incLoop_live s.now c.gauges { s with ptrs := ps, bank := b } [] s3 tr hcnf hl
          exact this

/-- **the streamer EndBlock keeps `LiveS`** -/
theorem endBlock_live (s s' : State) (hi : Inv s) (hl : LiveS s) (hp : PtrsOKS s) (h : streamerEndBlock s = .ok s') : LiveS s' := by
  obtain ⟨k1, k2, _, _, _⟩ := endBlock_settled s s' hi hl hp h
  obtain ⟨lg, hnow⟩ := endBlock_liveG s s' h
  have hi' := endBlock_inv s s' hi h
  intro st' hm' r hr
  -- st' is the stored value of a stream that was active before, with the same records
  obtain ⟨hget', hact'⟩ := (activeStreams_good s' hi'.struct).2 st' hm'
  rw [k2] at hact'
  obtain ⟨st0, hg0, hm0⟩ := active_has_stream s hi.struct st'.id hact'
  have hid0 : st0.id = st'.id := (getS_some hi.struct.sid hg0).2.2.2.1
  obtain ⟨st1, a1, a2, _⟩ := k1 st0 (mem_streamsOf hm0) (by rw [hid0]; exact hact')
  rw [hid0, hget'] at a1
  have : st' = st1 := Option.some.inj a1
  have hrecs : st'.recs = st0.recs := by rw [this, a2]
  rw [hrecs] at hr
  obtain ⟨g, g1, g2⟩ := hl st0 hm0 r hr
  obtain ⟨g', b1, b2⟩ := lg r.gauge g g1 g2
  exact ⟨g', b1, by rw [hnow]; exact b2⟩

/-- liveness along a whole schedule follows from liveness at its start -/
theorem liveAlong_of_live : ∀ (ns : List Nat) (s : State), Inv s → PtrsOKS s → LiveS s → LiveAlong s ns := by
  intro ns
  induction ns with
  | nil => intro s _ _ hl; exact hl
  | cons n rest ih =>
    intro s hi hp hl
    refine ⟨hl, ?_⟩
    intro s' hb
    have hi0 := Inv_maxIter s n hi
    obtain ⟨_, _, _, _, k5⟩ := endBlock_settled { s with maxIter := n } s' hi0 hl hp hb
    exact ih s' (endBlock_inv _ s' hi0 hb) k5 (endBlock_live { s with maxIter := n } s' hi0 hl hp hb)

end DymVerif.Incent
