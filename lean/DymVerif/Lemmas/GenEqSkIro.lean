/-
  Lemmas/GenEqSkIro — tie 1 for C13 (M-IRO, Model/Iro.lean): the normalised statement listing (translate/skel.go `listing`:
  every `if` / `for` / `switch` header, call, assignment and `return` in source order; comments, logging,
  events and error-message texts dropped) of EVERY function with a body in the files the property is
  anchored in, regenerated from /repo's working tree on every run (Gen/SkIro.lean), equals the listing
  the model was written and validated against.  A dropped or weakened guard, a reordered effect, a
  changed operand, a new early return, a new or vanished function breaks the corresponding lemma; the
  check then searches for a failing input with the harness' monitors (DESIGN.md §12.2).
-/
import DymVerif.Gen.SkIro
namespace DymVerif.GenEqSk.Iro

/-- `AllInvariants` -/
theorem k_AllInvariants_listing : Gen.SkIro.k_AllInvariants =
  ["func AllInvariants(k Keeper) sdk.Invariant",
   "  return invs.All(types.ModuleName, k)"] := rfl

/-- `InvariantAccounting` -/
theorem k_InvariantAccounting_listing : Gen.SkIro.k_InvariantAccounting =
  ["func InvariantAccounting(k Keeper) uinv.Func",
   "  return uinv.AnyErrorIsBreaking(func#1)",
   "    func#1 (ctx sdk.Context) error",
   "      plans := k.GetAllPlans(ctx, false)",
   "      var errs []error",
   "      for _, plan := range plans",
   "        if plan.IsSettled()",
   "          iroBalance := k.BK.GetBalance(ctx, k.AK.GetModuleAddress(types.ModuleName), plan.GetIRODenom())",
   "          if !iroBalance.IsZero()",
   "            errs = append(errs, fmt.Errorf(plan.Id, iroBalance))",
   "          claimable := plan.SoldAmt.Sub(plan.ClaimedAmt)",
   "          moduleBal := k.BK.GetBalance(ctx, k.AK.GetModuleAddress(types.ModuleName), plan.SettledDenom)",
   "          if moduleBal.Amount.LT(claimable)",
   "            errs = append(errs, fmt.Errorf(plan.Id, claimable, moduleBal.Amount))",
   "          founderFunds := k.BK.GetBalance(ctx, plan.GetAddress(), plan.LiquidityDenom)",
   "          expectedFunds := plan.VestingPlan.Amount.Sub(plan.VestingPlan.Claimed)",
   "          if !founderFunds.Amount.Equal(expectedFunds)",
   "            errs = append(errs, fmt.Errorf(plan.Id, expectedFunds, founderFunds.Amount))",
   "      return errors.Join(errs...)"] := rfl

/-- `InvariantPlan` -/
theorem k_InvariantPlan_listing : Gen.SkIro.k_InvariantPlan =
  ["func InvariantPlan(k Keeper) uinv.Func",
   "  return uinv.AnyErrorIsBreaking(func#1)",
   "    func#1 (ctx sdk.Context) error",
   "      plans := k.GetAllPlans(ctx, false)",
   "      if len(plans) == 0",
   "        return nil",
   "      lastPlanID := k.GetLastPlanId(ctx)",
   "      max_ := plans[0].Id",
   "      for _, plan := range plans",
   "        max_ = max(plan.Id, max_)",
   "      if lastPlanID != max_",
   "        return fmt.Errorf(lastPlanID, max_)",
   "      var errs []error",
   "      for _, plan := range plans",
   "        err := checkPlan(plan)",
   "        errs = append(errs, err)",
   "      err := errors.Join(errs...)",
   "      if err != nil",
   "        return err",
   "      return nil"] := rfl

/-- `Keeper.AfterTransfersEnabled` -/
theorem k_Keeper_AfterTransfersEnabled_listing : Gen.SkIro.k_Keeper_AfterTransfersEnabled =
  ["func (k Keeper) AfterTransfersEnabled(ctx sdk.Context, rollappId, rollappIBCDenom string) error",
   "  return k.Settle(ctx, rollappId, rollappIBCDenom)"] := rfl

/-- `Keeper.ApplyTakerFee` -/
theorem k_Keeper_ApplyTakerFee_listing : Gen.SkIro.k_Keeper_ApplyTakerFee =
  ["func (k Keeper) ApplyTakerFee(amount math.Int, takerFee math.LegacyDec, isAdd bool) (totalAmt, takerFeeAmt math.Int, err error)",
   "  if !amount.IsPositive()",
   "    return math.Int{}, math.Int{}, types.ErrInvalidCost",
   "  feeAmt := math.LegacyNewDecFromInt(amount).Mul(takerFee).TruncateInt()",
   "  var newAmt math.Int",
   "  if isAdd",
   "    newAmt = amount.Add(feeAmt)",
   "  else",
   "    newAmt = amount.Sub(feeAmt)",
   "  if !newAmt.IsPositive() || !feeAmt.IsPositive()",
   "    return math.Int{}, math.Int{}, types.ErrInvalidCost",
   "  return newAmt, feeAmt, nil"] := rfl

/-- `Keeper.Buy` -/
theorem k_Keeper_Buy_listing : Gen.SkIro.k_Keeper_Buy =
  ["func (k Keeper) Buy(ctx sdk.Context, planId string, buyer sdk.AccAddress, amountTokensToBuy, maxCostAmt math.Int) error",
   "  plan, err := k.GetTradeableIRO(ctx, planId, buyer)",
   "  if err != nil",
   "    return err",
   "  if plan.SoldAmt.Add(amountTokensToBuy).GT(plan.MaxAmountToSell)",
   "    return types.ErrInsufficientTokens",
   "  costAmt := plan.BondingCurve.Cost(plan.SoldAmt, plan.SoldAmt.Add(amountTokensToBuy))",
   "  costPlusTakerFeeAmt, takerFeeAmt, err := k.ApplyTakerFee(costAmt, k.GetParams(ctx).TakerFee, true)",
   "  if err != nil",
   "    return err",
   "  if costPlusTakerFeeAmt.GT(maxCostAmt)",
   "    return types.ErrInvalidExpectedOutAmount",
   "  takerFee := sdk.NewCoin(plan.LiquidityDenom, takerFeeAmt)",
   "  owner := k.rk.MustGetRollappOwner(ctx, plan.RollappId)",
   "  err = k.chargeTakerFee(ctx, takerFee, buyer, &owner)",
   "  if err != nil",
   "    return err",
   "  cost := sdk.NewCoin(plan.LiquidityDenom, costAmt)",
   "  err = k.BK.SendCoins(ctx, buyer, plan.GetAddress(), sdk.NewCoins(cost))",
   "  if err != nil",
   "    return err",
   "  err = k.BK.SendCoinsFromModuleToAccount(ctx, types.ModuleName, buyer, sdk.NewCoins(sdk.NewCoin(plan.TotalAllocation.Denom, amountTokensToBuy)))",
   "  if err != nil",
   "    return err",
   "  plan.SoldAmt = plan.SoldAmt.Add(amountTokensToBuy)",
   "  k.SetPlan(ctx, *plan)",
   "  return nil"] := rfl

/-- `Keeper.BuyExactSpend` -/
theorem k_Keeper_BuyExactSpend_listing : Gen.SkIro.k_Keeper_BuyExactSpend =
  ["func (k Keeper) BuyExactSpend(ctx sdk.Context, planId string, buyer sdk.AccAddress, amountToSpend, minTokensAmt math.Int) error",
   "  plan, err := k.GetTradeableIRO(ctx, planId, buyer)",
   "  if err != nil",
   "    return err",
   "  toSpendMinusTakerFeeAmt, takerFeeAmt, err := k.ApplyTakerFee(amountToSpend, k.GetParams(ctx).TakerFee, false)",
   "  if err != nil",
   "    return err",
   "  tokensOutAmt, err := plan.BondingCurve.TokensForExactInAmount(plan.SoldAmt, toSpendMinusTakerFeeAmt)",
   "  if err != nil",
   "    return err",
   "  if tokensOutAmt.LT(minTokensAmt)",
   "    return types.ErrInvalidMinCost",
   "  if plan.SoldAmt.Add(tokensOutAmt).GT(plan.MaxAmountToSell)",
   "    return types.ErrInsufficientTokens",
   "  takerFee := sdk.NewCoin(plan.LiquidityDenom, takerFeeAmt)",
   "  owner := k.rk.MustGetRollappOwner(ctx, plan.RollappId)",
   "  err = k.chargeTakerFee(ctx, takerFee, buyer, &owner)",
   "  if err != nil",
   "    return err",
   "  cost := sdk.NewCoin(plan.LiquidityDenom, toSpendMinusTakerFeeAmt)",
   "  err = k.BK.SendCoins(ctx, buyer, plan.GetAddress(), sdk.NewCoins(cost))",
   "  if err != nil",
   "    return err",
   "  err = k.BK.SendCoinsFromModuleToAccount(ctx, types.ModuleName, buyer, sdk.NewCoins(sdk.NewCoin(plan.TotalAllocation.Denom, tokensOutAmt)))",
   "  if err != nil",
   "    return err",
   "  plan.SoldAmt = plan.SoldAmt.Add(tokensOutAmt)",
   "  k.SetPlan(ctx, *plan)",
   "  return nil"] := rfl

/-- `Keeper.Claim` -/
theorem k_Keeper_Claim_listing : Gen.SkIro.k_Keeper_Claim =
  ["func (k Keeper) Claim(ctx sdk.Context, planId string, claimer sdk.AccAddress) error",
   "  plan, found := k.GetPlan(ctx, planId)",
   "  if !found",
   "    return types.ErrPlanNotFound",
   "  if !plan.IsSettled()",
   "    return types.ErrPlanNotSettled",
   "  availableTokens := k.BK.GetBalance(ctx, claimer, plan.TotalAllocation.Denom)",
   "  if availableTokens.IsZero()",
   "    return types.ErrNoTokensToClaim",
   "  err := k.BK.SendCoinsFromAccountToModule(ctx, claimer, types.ModuleName, sdk.NewCoins(availableTokens))",
   "  if err != nil",
   "    return err",
   "  err = k.BK.BurnCoins(ctx, types.ModuleName, sdk.NewCoins(availableTokens))",
   "  if err != nil",
   "    return err",
   "  err = k.BK.SendCoinsFromModuleToAccount(ctx, types.ModuleName, claimer, sdk.NewCoins(sdk.NewCoin(plan.SettledDenom, availableTokens.Amount)))",
   "  if err != nil",
   "    return err",
   "  plan.ClaimedAmt = plan.ClaimedAmt.Add(availableTokens.Amount)",
   "  k.SetPlan(ctx, plan)",
   "  return nil"] := rfl

/-- `Keeper.ClaimVested` -/
theorem k_Keeper_ClaimVested_listing : Gen.SkIro.k_Keeper_ClaimVested =
  ["func (k Keeper) ClaimVested(ctx sdk.Context, planId string, claimer sdk.AccAddress) error",
   "  plan, found := k.GetPlan(ctx, planId)",
   "  if !found",
   "    return types.ErrPlanNotFound",
   "  if !plan.IsSettled()",
   "    return types.ErrPlanNotSettled",
   "  owner := k.rk.MustGetRollappOwner(ctx, plan.RollappId)",
   "  if !owner.Equals(claimer)",
   "    return gerrc.ErrPermissionDenied",
   "  amt := plan.VestingPlan.VestedAmt(ctx.BlockTime())",
   "  if amt.IsZero()",
   "    return gerrc.ErrFailedPrecondition",
   "  vestedCoins := sdk.NewCoins(sdk.NewCoin(plan.LiquidityDenom, amt))",
   "  err := k.BK.SendCoins(ctx, plan.GetAddress(), claimer, vestedCoins)",
   "  if err != nil",
   "    return err",
   "  plan.VestingPlan.Claimed = plan.VestingPlan.Claimed.Add(amt)",
   "  k.SetPlan(ctx, plan)",
   "  return nil"] := rfl

/-- `Keeper.CreateModuleAccountForPlan` -/
theorem k_Keeper_CreateModuleAccountForPlan_listing : Gen.SkIro.k_Keeper_CreateModuleAccountForPlan =
  ["func (k Keeper) CreateModuleAccountForPlan(ctx sdk.Context, plan types.Plan) (sdk.ModuleAccountI, error)",
   "  moduleAccount := authtypes.NewEmptyModuleAccount(plan.ModuleAccName())",
   "  moduleAccountI, ok := (k.AK.NewAccount(ctx, moduleAccount)).(sdk.ModuleAccountI)",
   "  if !ok",
   "    return nil, gerrc.ErrInternal",
   "  k.AK.SetModuleAccount(ctx, moduleAccountI)",
   "  return moduleAccountI, nil"] := rfl

/-- `Keeper.CreatePlan` -/
theorem k_Keeper_CreatePlan_listing : Gen.SkIro.k_Keeper_CreatePlan =
  ["func (k Keeper) CreatePlan(ctx sdk.Context, liquidityDenom string, allocatedAmount math.Int, planDuration time.Duration, startTime time.Time, tradingEnabled bool, rollapp rollapptypes.Rollapp, curve types.BondingCurve, incentivesParams types.IncentivePlanParams, liquidityPart math.LegacyDec, vestingDuration, vestingStartTimeAfterSettlement time.Duration) (string, error)",
   "  allocation, err := k.MintAllocation(ctx, allocatedAmount, rollapp.RollappId, rollapp.GenesisInfo.NativeDenom.Display, uint64(rollapp.GenesisInfo.NativeDenom.Exponent))",
   "  if err != nil",
   "    return \"\", err",
   "  plan := types.NewPlan(k.GetNextPlanIdAndIncrement(ctx), rollapp.RollappId, liquidityDenom, allocation, curve, planDuration, incentivesParams, liquidityPart, vestingDuration, vestingStartTimeAfterSettlement)",
   "  if tradingEnabled",
   "    if startTime.Before(ctx.BlockTime())",
   "      startTime = ctx.BlockTime()",
   "    plan.EnableTradingWithStartTime(startTime)",
   "  err := plan.ValidateBasic()",
   "  if err != nil",
   "    return \"\", errors.Join(gerrc.ErrInvalidArgument, err)",
   "  err = k.rk.SetIROPlanToRollapp(ctx, &rollapp, plan)",
   "  if err != nil",
   "    return \"\", errors.Join(gerrc.ErrFailedPrecondition, err)",
   "  _, err = k.CreateModuleAccountForPlan(ctx, plan)",
   "  if err != nil",
   "    return \"\", err",
   "  feeAmt := k.GetParams(ctx).CreationFee",
   "  if feeAmt.GT(plan.MaxAmountToSell)",
   "    return \"\", gerrc.ErrInvalidArgument",
   "  cost := plan.BondingCurve.Cost(math.ZeroInt(), feeAmt)",
   "  if !cost.IsPositive()",
   "    return \"\", gerrc.ErrInvalidArgument",
   "  feeCostLiquidlyCoin := sdk.NewCoin(plan.LiquidityDenom, cost)",
   "  err = k.BK.SendCoins(ctx, sdk.MustAccAddressFromBech32(rollapp.Owner), plan.GetAddress(), sdk.NewCoins(feeCostLiquidlyCoin))",
   "  if err != nil",
   "    return \"\", err",
   "  plan.SoldAmt = feeAmt",
   "  plan.ClaimedAmt = feeAmt",
   "  k.SetPlan(ctx, plan)",
   "  return fmt.Sprintf(\"%d\", plan.Id), nil"] := rfl

/-- `Keeper.EnableTrading` -/
theorem k_Keeper_EnableTrading_listing : Gen.SkIro.k_Keeper_EnableTrading =
  ["func (k Keeper) EnableTrading(ctx sdk.Context, planId string, submitter sdk.AccAddress) error",
   "  plan, ok := k.GetPlan(ctx, planId)",
   "  if !ok",
   "    return types.ErrPlanNotFound",
   "  if plan.TradingEnabled",
   "    return gerrc.ErrFailedPrecondition",
   "  rollapp, found := k.rk.GetRollapp(ctx, plan.RollappId)",
   "  if !found",
   "    return gerrc.ErrFailedPrecondition",
   "  owner := sdk.MustAccAddressFromBech32(rollapp.Owner)",
   "  if !owner.Equals(submitter)",
   "    return gerrc.ErrPermissionDenied",
   "  if plan.IsSettled()",
   "    return gerrc.ErrFailedPrecondition",
   "  plan.EnableTradingWithStartTime(ctx.BlockTime())",
   "  k.SetPlan(ctx, plan)",
   "  k.rk.SetPreLaunchTime(ctx, &rollapp, plan.PreLaunchTime)",
   "  return nil"] := rfl

/-- `Keeper.GetTradeableIRO` -/
theorem k_Keeper_GetTradeableIRO_listing : Gen.SkIro.k_Keeper_GetTradeableIRO =
  ["func (k Keeper) GetTradeableIRO(ctx sdk.Context, planId string, trader sdk.AccAddress) (*types.Plan, error)",
   "  plan, found := k.GetPlan(ctx, planId)",
   "  if !found",
   "    return nil, types.ErrPlanNotFound",
   "  if plan.IsSettled()",
   "    return nil, types.ErrPlanSettled",
   "  owner := k.rk.MustGetRollappOwner(ctx, plan.RollappId)",
   "  if owner.Equals(trader)",
   "    return &plan, nil",
   "  if !plan.TradingEnabled",
   "    return nil, gerrc.ErrFailedPrecondition",
   "  if ctx.BlockTime().Before(plan.StartTime)",
   "    return nil, types.ErrPlanNotStarted",
   "  return &plan, nil"] := rfl

/-- `Keeper.MintAllocation` -/
theorem k_Keeper_MintAllocation_listing : Gen.SkIro.k_Keeper_MintAllocation =
  ["func (k Keeper) MintAllocation(ctx sdk.Context, allocatedAmount math.Int, rollappId, rollappTokenSymbol string, exponent uint64) (sdk.Coin, error)",
   "  baseDenom := types.IRODenom(rollappId)",
   "  displayDenom := types.IRODenom(rollappTokenSymbol)",
   "  metadata := banktypes.Metadata{Description: fmt.Sprintf(\"IRO token for %s of rollapp %s\", rollappTokenSymbol, rollappId), DenomUnits: []*banktypes.DenomUnit{{Denom: baseDenom, Exponent: 0, Aliases: []string{}}, {Denom: displayDenom, Exponent: uint32(exponent), Aliases: []string{}}}, Base: baseDenom, Name: displayDenom, Display: displayDenom, Symbol: displayDenom}",
   "  err := metadata.Validate()",
   "  if err != nil",
   "    return sdk.Coin{}, errors.Join(gerrc.ErrInternal, err)",
   "  err := k.dk.CreateDenomMetadata(ctx, metadata)",
   "  if err != nil",
   "    return sdk.Coin{}, err",
   "  minted := sdk.NewCoin(baseDenom, allocatedAmount)",
   "  err = k.BK.MintCoins(ctx, types.ModuleName, sdk.NewCoins(minted))",
   "  if err != nil",
   "    return sdk.Coin{}, err",
   "  return minted, nil"] := rfl

/-- `Keeper.Sell` -/
theorem k_Keeper_Sell_listing : Gen.SkIro.k_Keeper_Sell =
  ["func (k Keeper) Sell(ctx sdk.Context, planId string, seller sdk.AccAddress, amountTokensToSell, minIncomeAmt math.Int) error",
   "  plan, err := k.GetTradeableIRO(ctx, planId, seller)",
   "  if err != nil",
   "    return err",
   "  costAmt := plan.BondingCurve.Cost(plan.SoldAmt.Sub(amountTokensToSell), plan.SoldAmt)",
   "  costMinusTakerFeeAmt, takerFeeAmt, err := k.ApplyTakerFee(costAmt, k.GetParams(ctx).TakerFee, false)",
   "  if err != nil",
   "    return err",
   "  if costMinusTakerFeeAmt.LT(minIncomeAmt)",
   "    return types.ErrInvalidMinCost",
   "  err = k.BK.SendCoinsFromAccountToModule(ctx, seller, types.ModuleName, sdk.NewCoins(sdk.NewCoin(plan.TotalAllocation.Denom, amountTokensToSell)))",
   "  if err != nil",
   "    return err",
   "  cost := sdk.NewCoin(plan.LiquidityDenom, costAmt)",
   "  err = k.BK.SendCoins(ctx, plan.GetAddress(), seller, sdk.NewCoins(cost))",
   "  if err != nil",
   "    return err",
   "  plan.SoldAmt = plan.SoldAmt.Sub(amountTokensToSell)",
   "  k.SetPlan(ctx, *plan)",
   "  takerFee := sdk.NewCoin(plan.LiquidityDenom, takerFeeAmt)",
   "  owner := k.rk.MustGetRollappOwner(ctx, plan.RollappId)",
   "  err = k.chargeTakerFee(ctx, takerFee, seller, &owner)",
   "  if err != nil",
   "    return err",
   "  return nil"] := rfl

/-- `Keeper.Settle` -/
theorem k_Keeper_Settle_listing : Gen.SkIro.k_Keeper_Settle =
  ["func (k Keeper) Settle(ctx sdk.Context, rollappId, rollappIBCDenom string) error",
   "  plan, found := k.GetPlanByRollapp(ctx, rollappId)",
   "  if !found",
   "    return nil",
   "  if plan.IsSettled()",
   "    return errors.Join(gerrc.ErrInternal, types.ErrPlanSettled)",
   "  balance := k.BK.GetBalance(ctx, k.AK.GetModuleAddress(types.ModuleName), rollappIBCDenom)",
   "  if !balance.Amount.Equal(plan.TotalAllocation.Amount)",
   "    return gerrc.ErrInternal",
   "  iroTokenBalance := k.BK.GetBalance(ctx, k.AK.GetModuleAddress(types.ModuleName), plan.TotalAllocation.Denom)",
   "  err := k.BK.BurnCoins(ctx, types.ModuleName, sdk.NewCoins(iroTokenBalance))",
   "  if err != nil",
   "    return err",
   "  raisedLiquidityAmt := k.BK.GetBalance(ctx, plan.GetAddress(), plan.LiquidityDenom).Amount",
   "  poolTokens := raisedLiquidityAmt.ToLegacyDec().Mul(plan.LiquidityPart).TruncateInt()",
   "  ownerTokens := raisedLiquidityAmt.Sub(poolTokens)",
   "  plan.VestingPlan.Amount = ownerTokens",
   "  plan.VestingPlan.StartTime = ctx.BlockHeader().Time.Add(plan.VestingPlan.StartTimeAfterSettlement)",
   "  plan.VestingPlan.EndTime = plan.VestingPlan.StartTime.Add(plan.VestingPlan.VestingDuration)",
   "  plan.SettledDenom = rollappIBCDenom",
   "  k.SetPlan(ctx, plan)",
   "  poolID, gaugeID, err := k.bootstrapLiquidityPool(ctx, plan, poolTokens)",
   "  if err != nil",
   "    return errors.Join(types.ErrFailedBootstrapLiquidityPool, err)",
   "  return nil"] := rfl

/-- `Keeper.bootstrapLiquidityPool` -/
theorem k_Keeper_bootstrapLiquidityPool_listing : Gen.SkIro.k_Keeper_bootstrapLiquidityPool =
  ["func (k Keeper) bootstrapLiquidityPool(ctx sdk.Context, plan types.Plan, poolTokens math.Int) (poolID, gaugeID uint64, err error)",
   "  claimableAmt := plan.SoldAmt.Sub(plan.ClaimedAmt)",
   "  unallocatedTokens := plan.TotalAllocation.Amount.Sub(claimableAmt)",
   "  err = k.BK.SendCoinsFromAccountToModule(ctx, plan.GetAddress(), types.ModuleName, sdk.NewCoins(sdk.NewCoin(plan.LiquidityDenom, poolTokens)))",
   "  if err != nil",
   "    return 0, 0, err",
   "  raTokens, liquidityTokens := types.CalcLiquidityPoolTokens(unallocatedTokens, poolTokens, plan.SpotPrice())",
   "  rollappLiquidityCoin := sdk.NewCoin(plan.SettledDenom, raTokens)",
   "  baseLiquidityCoin := sdk.NewCoin(plan.LiquidityDenom, liquidityTokens)",
   "  gammGlobalParams := k.gk.GetParams(ctx).GlobalFees",
   "  poolParams := balancer.NewPoolParams(gammGlobalParams.SwapFee, gammGlobalParams.ExitFee, nil)",
   "  balancerPool := balancer.NewMsgCreateBalancerPool(k.AK.GetModuleAddress(types.ModuleName), poolParams, []balancer.PoolAsset{{Token: baseLiquidityCoin, Weight: math.OneInt()}, {Token: rollappLiquidityCoin, Weight: math.OneInt()}}, \"\")",
   "  poolId, err := k.pm.CreatePool(ctx, balancerPool)",
   "  if err != nil",
   "    return 0, 0, err",
   "  poolDenom := gammtypes.GetPoolShareDenom(poolId)",
   "  incentives := sdk.NewCoins(sdk.NewCoin(baseLiquidityCoin.Denom, poolTokens.Sub(baseLiquidityCoin.Amount)), sdk.NewCoin(rollappLiquidityCoin.Denom, unallocatedTokens.Sub(rollappLiquidityCoin.Amount)))",
   "  distrTo := lockuptypes.QueryCondition{LockQueryType: lockuptypes.ByDuration, Denom: poolDenom, Duration: k.ik.GetLockableDurations(ctx)[0]}",
   "  gaugeID, err = k.ik.CreateAssetGauge(ctx, false, k.AK.GetModuleAddress(types.ModuleName), incentives, distrTo, ctx.BlockTime().Add(plan.IncentivePlanParams.StartTimeAfterSettlement), plan.IncentivePlanParams.NumEpochsPaidOver)",
   "  if err != nil",
   "    return 0, 0, err",
   "  return poolID, gaugeID, nil"] := rfl

/-- `Keeper.chargeTakerFee` -/
theorem k_Keeper_chargeTakerFee_listing : Gen.SkIro.k_Keeper_chargeTakerFee =
  ["func (k Keeper) chargeTakerFee(ctx sdk.Context, takerFeeCoin sdk.Coin, sender sdk.AccAddress, beneficiary *sdk.AccAddress) error",
   "  err := k.tk.ChargeFeesFromPayer(ctx, sender, takerFeeCoin, beneficiary)",
   "  if err != nil",
   "    return fmt.Errorf(sender, takerFeeCoin, err)",
   "  return nil"] := rfl

/-- `NewMsgServerImpl` -/
theorem k_NewMsgServerImpl_listing : Gen.SkIro.k_NewMsgServerImpl =
  ["func NewMsgServerImpl(keeper Keeper) types.MsgServer",
   "  return &msgServer{Keeper: keeper}"] := rfl

/-- `RegisterInvariants` -/
theorem k_RegisterInvariants_listing : Gen.SkIro.k_RegisterInvariants =
  ["func RegisterInvariants(ir sdk.InvariantRegistry, k Keeper)",
   "  invs.RegisterInvariants(types.ModuleName, ir, k)"] := rfl

/-- `checkPlan` -/
theorem k_checkPlan_listing : Gen.SkIro.k_checkPlan =
  ["func checkPlan(plan types.Plan) error",
   "  err := plan.ValidateBasic()",
   "  if err != nil",
   "    return fmt.Errorf(plan.Id, err)",
   "  if plan.TotalAllocation.Amount.LT(plan.SoldAmt)",
   "    return fmt.Errorf(plan.Id, plan.TotalAllocation.Amount, plan.SoldAmt)",
   "  if plan.TotalAllocation.Amount.LT(plan.ClaimedAmt)",
   "    return fmt.Errorf(plan.Id, plan.TotalAllocation.Amount, plan.ClaimedAmt)",
   "  if plan.ClaimedAmt.GT(plan.SoldAmt)",
   "    return fmt.Errorf(plan.Id, plan.ClaimedAmt, plan.SoldAmt)",
   "  return nil"] := rfl

/-- `msgServer.Buy` -/
theorem k_msgServer_Buy_listing : Gen.SkIro.k_msgServer_Buy =
  ["func (m msgServer) Buy(ctx context.Context, req *types.MsgBuy) (*types.MsgBuyResponse, error)",
   "  buyer, err := sdk.AccAddressFromBech32(req.Buyer)",
   "  if err != nil",
   "    return nil, err",
   "  err = m.Keeper.Buy(<noise>, req.PlanId, buyer, req.Amount, req.MaxCostAmount)",
   "  if err != nil",
   "    return nil, err",
   "  return &types.MsgBuyResponse{}, nil"] := rfl

/-- `msgServer.BuyExactSpend` -/
theorem k_msgServer_BuyExactSpend_listing : Gen.SkIro.k_msgServer_BuyExactSpend =
  ["func (m msgServer) BuyExactSpend(ctx context.Context, req *types.MsgBuyExactSpend) (*types.MsgBuyResponse, error)",
   "  buyer, err := sdk.AccAddressFromBech32(req.Buyer)",
   "  if err != nil",
   "    return nil, err",
   "  err = m.Keeper.BuyExactSpend(<noise>, req.PlanId, buyer, req.Spend, req.MinOutTokensAmount)",
   "  if err != nil",
   "    return nil, err",
   "  return &types.MsgBuyResponse{}, nil"] := rfl

/-- `msgServer.Claim` -/
theorem k_msgServer_Claim_listing : Gen.SkIro.k_msgServer_Claim =
  ["func (m msgServer) Claim(ctx context.Context, req *types.MsgClaim) (*types.MsgClaimResponse, error)",
   "  claimerAddr := sdk.MustAccAddressFromBech32(req.Claimer)",
   "  err := m.Keeper.Claim(<noise>, req.PlanId, claimerAddr)",
   "  if err != nil",
   "    return nil, err",
   "  return &types.MsgClaimResponse{}, nil"] := rfl

/-- `msgServer.ClaimVested` -/
theorem k_msgServer_ClaimVested_listing : Gen.SkIro.k_msgServer_ClaimVested =
  ["func (m msgServer) ClaimVested(ctx context.Context, req *types.MsgClaimVested) (*types.MsgClaimVestedResponse, error)",
   "  claimerAddr := sdk.MustAccAddressFromBech32(req.Claimer)",
   "  err := m.Keeper.ClaimVested(<noise>, req.PlanId, claimerAddr)",
   "  if err != nil",
   "    return nil, err",
   "  return &types.MsgClaimVestedResponse{}, nil"] := rfl

/-- `msgServer.CreatePlan` -/
theorem k_msgServer_CreatePlan_listing : Gen.SkIro.k_msgServer_CreatePlan =
  ["func (m msgServer) CreatePlan(goCtx context.Context, req *types.MsgCreatePlan) (*types.MsgCreatePlanResponse, error)",
   "  rollapp, found := m.Keeper.rk.GetRollapp(ctx, req.RollappId)",
   "  if !found",
   "    return nil, gerrc.ErrNotFound",
   "  if rollapp.Owner != req.Owner",
   "    return nil, sdkerrors.ErrUnauthorized",
   "  params := m.Keeper.GetParams(ctx)",
   "  if req.IroPlanDuration < params.MinPlanDuration",
   "    return nil, errors.Join(gerrc.ErrFailedPrecondition, types.ErrInvalidEndTime)",
   "  if req.LiquidityPart.LT(params.MinLiquidityPart)",
   "    return nil, gerrc.ErrInvalidArgument",
   "  if req.VestingDuration < params.MinVestingDuration",
   "    return nil, gerrc.ErrInvalidArgument",
   "  if req.VestingStartTimeAfterSettlement < params.MinVestingStartTimeAfterSettlement",
   "    return nil, gerrc.ErrInvalidArgument",
   "  if req.IncentivePlanParams.NumEpochsPaidOver < params.IncentivesMinNumEpochsPaidOver",
   "    return nil, errors.Join(gerrc.ErrInvalidArgument, types.ErrInvalidIncentivePlanParams)",
   "  if req.IncentivePlanParams.StartTimeAfterSettlement < params.IncentivesMinStartTimeAfterSettlement",
   "    return nil, errors.Join(gerrc.ErrInvalidArgument, types.ErrInvalidIncentivePlanParams)",
   "  _, found = m.Keeper.GetPlanByRollapp(ctx, rollapp.RollappId)",
   "  if found",
   "    return nil, errors.Join(gerrc.ErrFailedPrecondition, types.ErrPlanExists)",
   "  found = false",
   "  for _, gAcc := range rollapp.GenesisInfo.Accounts()",
   "    if gAcc.Address == m.Keeper.GetModuleAccountAddress()",
   "      if !gAcc.Amount.Equal(req.AllocatedAmount)",
   "        return nil, gerrc.ErrFailedPrecondition",
   "      found = true",
   "      break",
   "  if !found",
   "    return nil, gerrc.ErrFailedPrecondition",
   "  if req.BondingCurve.RollappDenomDecimals != uint64(rollapp.GenesisInfo.NativeDenom.Exponent)",
   "    return nil, gerrc.ErrInvalidArgument",
   "  liqToken, ok := m.BK.GetDenomMetaData(ctx, req.LiquidityDenom)",
   "  if !ok",
   "    return nil, gerrc.ErrInvalidArgument",
   "  exponent := liqToken.DenomUnits[len(liqToken.DenomUnits)-1].Exponent",
   "  if req.BondingCurve.LiquidityDenomDecimals != uint64(exponent)",
   "    return nil, gerrc.ErrInvalidArgument",
   "  if !slices.Contains(m.Keeper.gk.GetParams(ctx).AllowedPoolCreationDenoms, req.LiquidityDenom)",
   "    return nil, gerrc.ErrFailedPrecondition",
   "  planId, err := m.Keeper.CreatePlan(ctx, req.LiquidityDenom, req.AllocatedAmount, req.IroPlanDuration, req.StartTime, req.TradingEnabled, rollapp, req.BondingCurve, req.IncentivePlanParams, req.LiquidityPart, req.VestingDuration, req.VestingStartTimeAfterSettlement)",
   "  if err != nil",
   "    return nil, err",
   "  return &types.MsgCreatePlanResponse{PlanId: planId}, nil"] := rfl

/-- `msgServer.EnableTrading` -/
theorem k_msgServer_EnableTrading_listing : Gen.SkIro.k_msgServer_EnableTrading =
  ["func (m msgServer) EnableTrading(ctx context.Context, req *types.MsgEnableTrading) (*types.MsgEnableTradingResponse, error)",
   "  owner, err := sdk.AccAddressFromBech32(req.Owner)",
   "  if err != nil",
   "    return nil, err",
   "  err = m.Keeper.EnableTrading(<noise>, req.PlanId, owner)",
   "  if err != nil",
   "    return nil, err",
   "  return &types.MsgEnableTradingResponse{}, nil"] := rfl

/-- `msgServer.Sell` -/
theorem k_msgServer_Sell_listing : Gen.SkIro.k_msgServer_Sell =
  ["func (m msgServer) Sell(ctx context.Context, req *types.MsgSell) (*types.MsgSellResponse, error)",
   "  seller, err := sdk.AccAddressFromBech32(req.Seller)",
   "  if err != nil",
   "    return nil, err",
   "  err = m.Keeper.Sell(<noise>, req.PlanId, seller, req.Amount, req.MinIncomeAmount)",
   "  if err != nil",
   "    return nil, err",
   "  return &types.MsgSellResponse{}, nil"] := rfl

/-- `BondingCurve.Cost` -/
theorem t_BondingCurve_Cost_listing : Gen.SkIro.t_BondingCurve_Cost =
  ["func (lbc BondingCurve) Cost(x, x1 math.Int) math.Int",
   "  cost := lbc.integral(ScaleFromBase(x1, lbc.SupplyDecimals())). Sub(lbc.integral(ScaleFromBase(x, lbc.SupplyDecimals())))",
   "  return ScaleToBase(cost, lbc.LiquidityDecimals())"] := rfl

/-- `BondingCurve.LiquidityDecimals` -/
theorem t_BondingCurve_LiquidityDecimals_listing : Gen.SkIro.t_BondingCurve_LiquidityDecimals =
  ["func (lbc BondingCurve) LiquidityDecimals() int64",
   "  return int64(lbc.LiquidityDenomDecimals)"] := rfl

/-- `BondingCurve.SpotPrice` -/
theorem t_BondingCurve_SpotPrice_listing : Gen.SkIro.t_BondingCurve_SpotPrice =
  ["func (lbc BondingCurve) SpotPrice(x math.Int) math.LegacyDec",
   "  return lbc.spotPriceInternal(ScaleFromBase(x, lbc.SupplyDecimals()))"] := rfl

/-- `BondingCurve.Stringify` -/
theorem t_BondingCurve_Stringify_listing : Gen.SkIro.t_BondingCurve_Stringify =
  ["func (lbc BondingCurve) Stringify() string",
   "  return fmt.Sprintf(\"M=%s N=%s C=%s\", lbc.M.String(), lbc.N.String(), lbc.C.String())"] := rfl

/-- `BondingCurve.SupplyDecimals` -/
theorem t_BondingCurve_SupplyDecimals_listing : Gen.SkIro.t_BondingCurve_SupplyDecimals =
  ["func (lbc BondingCurve) SupplyDecimals() int64",
   "  return int64(lbc.RollappDenomDecimals)"] := rfl

/-- `BondingCurve.TokensApproximation` -/
theorem t_BondingCurve_TokensApproximation_listing : Gen.SkIro.t_BondingCurve_TokensApproximation =
  ["func (lbc BondingCurve) TokensApproximation(startingX, spendTokens math.LegacyDec) (math.LegacyDec, int, error)",
   "  f := func#1",
   "    func#1 (x math.LegacyDec) math.LegacyDec",
   "      newX := startingX.Add(x)",
   "      return lbc.integral(newX).Sub(lbc.integral(startingX)).Sub(spendTokens)",
   "  fPrime := func#2",
   "    func#2 (x math.LegacyDec) math.LegacyDec",
   "      newX := startingX.Add(x)",
   "      return lbc.spotPriceInternal(newX)",
   "  x := spendTokens",
   "  epsilonDec := math.LegacyNewDecWithPrec(1, epsilonPrecision)",
   "  for i := 0; i < maxIterations; i++",
   "    fx := f(x)",
   "    if fx.Abs().LT(epsilonDec)",
   "      return x, i, nil",
   "    prevX := x",
   "    fPrimex := fPrime(x)",
   "    if fPrimex.IsZero()",
   "      return math.LegacyDec{}, i, errors.New(\"division by zero\")",
   "    x = x.Sub(fx.Quo(fPrimex))",
   "    if x.Sub(prevX).Abs().LT(epsilonDec.Mul(x.Abs()))",
   "      return x, i, nil",
   "    if startingX.Add(x).LT(math.LegacyOneDec())",
   "      x = math.LegacyOneDec()",
   "  return math.LegacyDec{}, maxIterations, errors.New(\"solution did not converge\")"] := rfl

/-- `BondingCurve.TokensForExactInAmount` -/
theorem t_BondingCurve_TokensForExactInAmount_listing : Gen.SkIro.t_BondingCurve_TokensForExactInAmount =
  ["func (lbc BondingCurve) TokensForExactInAmount(currX, spendAmt math.Int) (math.Int, error)",
   "  startingX := ScaleFromBase(currX, lbc.SupplyDecimals())",
   "  spendTokens := ScaleFromBase(spendAmt, lbc.LiquidityDecimals())",
   "  if startingX.LT(math.LegacyOneDec())",
   "    return math.ZeroInt(), errors.New(\"current supply is less than 1\")",
   "  if !spendAmt.IsPositive()",
   "    return math.ZeroInt(), errors.New(\"spend amount is not positive\")",
   "  tokens, _, err := lbc.TokensApproximation(startingX, spendTokens)",
   "  if err != nil",
   "    return math.ZeroInt(), err",
   "  return ScaleToBase(tokens, lbc.SupplyDecimals()), nil"] := rfl

/-- `BondingCurve.ValidateBasic` -/
theorem t_BondingCurve_ValidateBasic_listing : Gen.SkIro.t_BondingCurve_ValidateBasic =
  ["func (lbc BondingCurve) ValidateBasic() error",
   "  if lbc.M.IsNegative()",
   "    return ErrInvalidBondingCurve",
   "  if !lbc.N.IsPositive()",
   "    return ErrInvalidBondingCurve",
   "  if lbc.N.GT(math.LegacyNewDec(MaxNValue))",
   "    return ErrInvalidBondingCurve",
   "  if lbc.C.IsNegative()",
   "    return ErrInvalidBondingCurve",
   "  if !lbc.C.IsZero() && !lbc.M.IsZero()",
   "    return ErrInvalidBondingCurve",
   "  if !checkPrecision(lbc.N)",
   "    return ErrInvalidBondingCurve",
   "  if lbc.RollappDenomDecimals == 0 || lbc.LiquidityDenomDecimals == 0",
   "    return ErrInvalidBondingCurve",
   "  return nil"] := rfl

/-- `BondingCurve.integral` -/
theorem t_BondingCurve_integral_listing : Gen.SkIro.t_BondingCurve_integral =
  ["func (lbc BondingCurve) integral(x math.LegacyDec) math.LegacyDec",
   "  xDec := osmomath.BigDecFromSDKDec(x)",
   "  mDec := osmomath.BigDecFromSDKDec(lbc.M)",
   "  cDec := osmomath.BigDecFromSDKDec(lbc.C)",
   "  nPlusOne := osmomath.BigDecFromSDKDec(lbc.N.Add(math.LegacyNewDec(1)))",
   "  var xPowNplusOne osmomath.BigDec",
   "  if xDec.LT(osmomath.OneDec())",
   "    xPowNplusOne = osmomath.ZeroDec()",
   "  else",
   "    xPowNplusOne = xDec.Power(nPlusOne)",
   "  mDivNPlusOne := mDec.QuoMut(nPlusOne)",
   "  cx := cDec.Mul(xDec)",
   "  integral := xPowNplusOne.Mul(mDivNPlusOne).Add(cx).SDKDec()",
   "  return integral"] := rfl

/-- `BondingCurve.spotPriceInternal` -/
theorem t_BondingCurve_spotPriceInternal_listing : Gen.SkIro.t_BondingCurve_spotPriceInternal =
  ["func (lbc BondingCurve) spotPriceInternal(x math.LegacyDec) math.LegacyDec",
   "  xDec := osmomath.BigDecFromSDKDec(x)",
   "  nDec := osmomath.BigDecFromSDKDec(lbc.N)",
   "  mDec := osmomath.BigDecFromSDKDec(lbc.M)",
   "  var xPowN osmomath.BigDec",
   "  if xDec.LT(osmomath.OneDec())",
   "    xPowN = osmomath.ZeroDec()",
   "  else",
   "    xPowN = xDec.Power(nDec)",
   "  price := mDec.Mul(xPowN).SDKDec().Add(lbc.C)",
   "  return price"] := rfl

/-- `CalcLiquidityPoolTokens` -/
theorem t_CalcLiquidityPoolTokens_listing : Gen.SkIro.t_CalcLiquidityPoolTokens =
  ["func CalcLiquidityPoolTokens(unsoldRATokens, raisedLiquidity math.Int, settledTokenPrice math.LegacyDec) (RATokens, liquidity math.Int)",
   "  requiredLiquidity := settledTokenPrice.MulInt(unsoldRATokens).TruncateInt()",
   "  if raisedLiquidity.LT(requiredLiquidity)",
   "    liquidity = raisedLiquidity",
   "    RATokens = raisedLiquidity.ToLegacyDec().Quo(settledTokenPrice).TruncateInt()",
   "  else",
   "    RATokens = unsoldRATokens",
   "    liquidity = requiredLiquidity",
   "  if liquidity.IsZero()",
   "    liquidity = raisedLiquidity",
   "  if RATokens.IsZero()",
   "    RATokens = unsoldRATokens",
   "  return"] := rfl

/-- `CalculateM` -/
theorem t_CalculateM_listing : Gen.SkIro.t_CalculateM =
  ["func CalculateM(val, t, n, r math.LegacyDec) math.LegacyDec",
   "  valBig := osmomath.BigDecFromSDKDec(val)",
   "  tBig := osmomath.BigDecFromSDKDec(t)",
   "  nBig := osmomath.BigDecFromSDKDec(n)",
   "  rBig := osmomath.BigDecFromSDKDec(r)",
   "  nPlusOne := nBig.Add(osmomath.OneDec())",
   "  nPlusTwo := nPlusOne.Add(rBig)",
   "  lognum := valBig.LogBase2().Add(nPlusOne.LogBase2()).Add(nPlusOne.Mul(nPlusTwo.LogBase2()))",
   "  logdenom := (nPlusOne.Mul((tBig.Mul(nPlusOne)).LogBase2())).Add(osmomath.OneDec()).Add(rBig.LogBase2())",
   "  logm := lognum.Sub(logdenom)",
   "  m := osmomath.Exp2(logm.Abs())",
   "  if logm.IsNegative()",
   "    m = osmomath.OneDec().Quo(m)",
   "  return m.SDKDec()"] := rfl

/-- `DefaultBondingCurve` -/
theorem t_DefaultBondingCurve_listing : Gen.SkIro.t_DefaultBondingCurve =
  ["func DefaultBondingCurve() BondingCurve",
   "  return BondingCurve{M: math.LegacyMustNewDecFromStr(\"0.005\"), N: math.LegacyOneDec(), C: math.LegacyZeroDec(), RollappDenomDecimals: 18, LiquidityDenomDecimals: 18}"] := rfl

/-- `DefaultIncentivePlanParams` -/
theorem t_DefaultIncentivePlanParams_listing : Gen.SkIro.t_DefaultIncentivePlanParams =
  ["func DefaultIncentivePlanParams() IncentivePlanParams",
   "  return IncentivePlanParams{NumEpochsPaidOver: 43200, StartTimeAfterSettlement: DefaultIncentivePlanMinimumStartTimeAfterSettlement}"] := rfl

/-- `FindEquilibrium` -/
theorem t_FindEquilibrium_listing : Gen.SkIro.t_FindEquilibrium =
  ["func FindEquilibrium(curve BondingCurve, totalAllocation math.Int, r math.LegacyDec) math.Int",
   "  n := curve.N",
   "  if curve.M.IsZero()",
   "    n = math.LegacyZeroDec()",
   "  n1 := n.Add(math.LegacyOneDec())",
   "  n2 := n1.Add(r)",
   "  eq := (n1.Quo(n2)).MulInt(totalAllocation).TruncateInt()",
   "  return eq"] := rfl

/-- `IRODenom` -/
theorem t_IRODenom_listing : Gen.SkIro.t_IRODenom =
  ["func IRODenom(rollappID string) string",
   "  return fmt.Sprintf(\"%s%s\", IROTokenPrefix, rollappID)"] := rfl

/-- `IROVestingPlan.ValidateBasic` -/
theorem t_IROVestingPlan_ValidateBasic_listing : Gen.SkIro.t_IROVestingPlan_ValidateBasic =
  ["func (v IROVestingPlan) ValidateBasic() error",
   "  if v.VestingDuration < 0",
   "    return errors.New(\"vesting duration cannot be negative\")",
   "  if v.StartTime.After(v.EndTime)",
   "    return errors.New(\"start time cannot be after end time\")",
   "  if v.Amount.LT(v.Claimed)",
   "    return errors.New(\"amount cannot be less than claimed\")",
   "  return nil"] := rfl

/-- `IROVestingPlan.VestedAmt` -/
theorem t_IROVestingPlan_VestedAmt_listing : Gen.SkIro.t_IROVestingPlan_VestedAmt =
  ["func (v IROVestingPlan) VestedAmt(currTime time.Time) math.Int",
   "  unclaimed := v.Amount.Sub(v.Claimed)",
   "  if !unclaimed.IsPositive()",
   "    return math.ZeroInt()",
   "  if currTime.Before(v.StartTime)",
   "    return math.ZeroInt()",
   "  if currTime.After(v.EndTime)",
   "    return unclaimed",
   "  x := currTime.Sub(v.StartTime)",
   "  y := v.EndTime.Sub(v.StartTime)",
   "  s := math.LegacyNewDec(x.Nanoseconds()).QuoTruncate(math.LegacyNewDec(y.Nanoseconds()))",
   "  vestedAmt := s.Mul(math.LegacyNewDecFromInt(v.Amount)).TruncateInt()",
   "  claimable := vestedAmt.Sub(v.Claimed)",
   "  return claimable"] := rfl

/-- `IncentivePlanParams.ValidateBasic` -/
theorem t_IncentivePlanParams_ValidateBasic_listing : Gen.SkIro.t_IncentivePlanParams_ValidateBasic =
  ["func (i IncentivePlanParams) ValidateBasic() error",
   "  if i.NumEpochsPaidOver == 0",
   "    return errors.New(\"number of epochs paid over cannot be zero\")",
   "  return nil"] := rfl

/-- `NewBondingCurve` -/
theorem t_NewBondingCurve_listing : Gen.SkIro.t_NewBondingCurve =
  ["func NewBondingCurve(m, n, c math.LegacyDec, rollappDenomDecimals, liquidityDenomDecimals uint64) BondingCurve",
   "  return BondingCurve{M: m, N: n, C: c, RollappDenomDecimals: rollappDenomDecimals, LiquidityDenomDecimals: liquidityDenomDecimals}"] := rfl

/-- `NewPlan` -/
theorem t_NewPlan_listing : Gen.SkIro.t_NewPlan =
  ["func NewPlan(id uint64, rollappId string, liquidityDenom string, allocation sdk.Coin, curve BondingCurve, planDuration time.Duration, incentivesParams IncentivePlanParams, liquidityPart math.LegacyDec, vestingDuration, vestingStartTimeAfterSettlement time.Duration) Plan",
   "  eq := FindEquilibrium(curve, allocation.Amount, liquidityPart)",
   "  plan := Plan{Id: id, RollappId: rollappId, TotalAllocation: allocation, BondingCurve: curve, IroPlanDuration: planDuration, SoldAmt: math.ZeroInt(), ClaimedAmt: math.ZeroInt(), IncentivePlanParams: incentivesParams, MaxAmountToSell: eq, LiquidityPart: liquidityPart, LiquidityDenom: liquidityDenom, VestingPlan: IROVestingPlan{Amount: math.ZeroInt(), Claimed: math.ZeroInt(), VestingDuration: vestingDuration, StartTimeAfterSettlement: vestingStartTimeAfterSettlement}}",
   "  plan.ModuleAccAddress = authtypes.NewModuleAddress(plan.ModuleAccName()).String()",
   "  return plan"] := rfl

/-- `Plan.EnableTradingWithStartTime` -/
theorem t_Plan_EnableTradingWithStartTime_listing : Gen.SkIro.t_Plan_EnableTradingWithStartTime =
  ["func (p *Plan) EnableTradingWithStartTime(startTime time.Time)",
   "  p.TradingEnabled = true",
   "  p.StartTime = startTime",
   "  p.PreLaunchTime = startTime.Add(p.IroPlanDuration)"] := rfl

/-- `Plan.GetAddress` -/
theorem t_Plan_GetAddress_listing : Gen.SkIro.t_Plan_GetAddress =
  ["func (p Plan) GetAddress() sdk.AccAddress",
   "  addr, _ := sdk.AccAddressFromBech32(p.ModuleAccAddress)",
   "  return addr"] := rfl

/-- `Plan.GetIRODenom` -/
theorem t_Plan_GetIRODenom_listing : Gen.SkIro.t_Plan_GetIRODenom =
  ["func (p Plan) GetIRODenom() string",
   "  return IRODenom(p.RollappId)"] := rfl

/-- `Plan.IsSettled` -/
theorem t_Plan_IsSettled_listing : Gen.SkIro.t_Plan_IsSettled =
  ["func (p Plan) IsSettled() bool",
   "  return p.SettledDenom != \"\""] := rfl

/-- `Plan.ModuleAccName` -/
theorem t_Plan_ModuleAccName_listing : Gen.SkIro.t_Plan_ModuleAccName =
  ["func (p Plan) ModuleAccName() string",
   "  return ModuleName + \"-\" + p.RollappId"] := rfl

/-- `Plan.SpotPrice` -/
theorem t_Plan_SpotPrice_listing : Gen.SkIro.t_Plan_SpotPrice =
  ["func (p Plan) SpotPrice() math.LegacyDec",
   "  return p.BondingCurve.SpotPrice(p.SoldAmt)"] := rfl

/-- `Plan.ValidateBasic` -/
theorem t_Plan_ValidateBasic_listing : Gen.SkIro.t_Plan_ValidateBasic =
  ["func (p Plan) ValidateBasic() error",
   "  err := p.BondingCurve.ValidateBasic()",
   "  if err != nil",
   "    return errors.Join(ErrInvalidBondingCurve, err)",
   "  allocationDec := ScaleFromBase(p.TotalAllocation.Amount, p.BondingCurve.SupplyDecimals())",
   "  if !allocationDec.GT(MinTokenAllocation)",
   "    return ErrInvalidAllocation",
   "  if p.PreLaunchTime.Before(p.StartTime)",
   "    return ErrInvalidEndTime",
   "  if p.ModuleAccAddress == \"\"",
   "    return errors.New(\"module account address cannot be empty\")",
   "  if p.SoldAmt.IsNegative()",
   "    return fmt.Errorf(p.SoldAmt.String())",
   "  if p.ClaimedAmt.IsNegative()",
   "    return fmt.Errorf(p.ClaimedAmt.String())",
   "  if !p.MaxAmountToSell.IsPositive()",
   "    return fmt.Errorf(p.MaxAmountToSell.String())",
   "  if p.MaxAmountToSell.GT(p.TotalAllocation.Amount)",
   "    return fmt.Errorf(p.MaxAmountToSell.String(), p.TotalAllocation.Amount.String())",
   "  if p.LiquidityPart.IsNegative() || p.LiquidityPart.GT(math.LegacyOneDec())",
   "    return errors.New(\"liquidity part must be between 0 and 1\")",
   "  err := p.IncentivePlanParams.ValidateBasic()",
   "  if err != nil",
   "    return errors.Join(ErrInvalidIncentivePlanParams, err)",
   "  err := p.VestingPlan.ValidateBasic()",
   "  if err != nil",
   "    return err",
   "  err := sdk.ValidateDenom(p.LiquidityDenom)",
   "  if err != nil",
   "    return err",
   "  return nil"] := rfl

/-- `RollappIDFromIRODenom` -/
theorem t_RollappIDFromIRODenom_listing : Gen.SkIro.t_RollappIDFromIRODenom =
  ["func RollappIDFromIRODenom(denom string) (string, bool)",
   "  return strings.CutPrefix(denom, IROTokenPrefix)"] := rfl

/-- `ScaleFromBase` -/
theorem t_ScaleFromBase_listing : Gen.SkIro.t_ScaleFromBase =
  ["func ScaleFromBase(x math.Int, precision int64) math.LegacyDec",
   "  return math.LegacyNewDecFromIntWithPrec(x, precision)"] := rfl

/-- `ScaleToBase` -/
theorem t_ScaleToBase_listing : Gen.SkIro.t_ScaleToBase =
  ["func ScaleToBase(x math.LegacyDec, precision int64) math.Int",
   "  scaleFactor := math.NewIntWithDecimal(1, int(precision))",
   "  return x.MulInt(scaleFactor).TruncateInt()"] := rfl

/-- `checkPrecision` -/
theorem t_checkPrecision_listing : Gen.SkIro.t_checkPrecision =
  ["func checkPrecision(d math.LegacyDec) bool",
   "  multiplied := d.Mul(math.LegacyNewDec(10).Power(uint64(MaxNPrecision)))",
   "  return multiplied.IsInteger()"] := rfl

/-- `every function with a body in the listed files, sorted per package` -/
theorem inventory_listing : Gen.SkIro.inventory =
  ["k_AllInvariants",
   "k_InvariantAccounting",
   "k_InvariantPlan",
   "k_Keeper_AfterTransfersEnabled",
   "k_Keeper_ApplyTakerFee",
   "k_Keeper_Buy",
   "k_Keeper_BuyExactSpend",
   "k_Keeper_Claim",
   "k_Keeper_ClaimVested",
   "k_Keeper_CreateModuleAccountForPlan",
   "k_Keeper_CreatePlan",
   "k_Keeper_EnableTrading",
   "k_Keeper_GetTradeableIRO",
   "k_Keeper_MintAllocation",
   "k_Keeper_Sell",
   "k_Keeper_Settle",
   "k_Keeper_bootstrapLiquidityPool",
   "k_Keeper_chargeTakerFee",
   "k_NewMsgServerImpl",
   "k_RegisterInvariants",
   "k_checkPlan",
   "k_msgServer_Buy",
   "k_msgServer_BuyExactSpend",
   "k_msgServer_Claim",
   "k_msgServer_ClaimVested",
   "k_msgServer_CreatePlan",
   "k_msgServer_EnableTrading",
   "k_msgServer_Sell",
   "t_BondingCurve_Cost",
   "t_BondingCurve_LiquidityDecimals",
   "t_BondingCurve_SpotPrice",
   "t_BondingCurve_Stringify",
   "t_BondingCurve_SupplyDecimals",
   "t_BondingCurve_TokensApproximation",
   "t_BondingCurve_TokensForExactInAmount",
   "t_BondingCurve_ValidateBasic",
   "t_BondingCurve_integral",
   "t_BondingCurve_spotPriceInternal",
   "t_CalcLiquidityPoolTokens",
   "t_CalculateM",
   "t_DefaultBondingCurve",
   "t_DefaultIncentivePlanParams",
   "t_FindEquilibrium",
   "t_IRODenom",
   "t_IROVestingPlan_ValidateBasic",
   "t_IROVestingPlan_VestedAmt",
   "t_IncentivePlanParams_ValidateBasic",
   "t_NewBondingCurve",
   "t_NewPlan",
   "t_Plan_EnableTradingWithStartTime",
   "t_Plan_GetAddress",
   "t_Plan_GetIRODenom",
   "t_Plan_IsSettled",
   "t_Plan_ModuleAccName",
   "t_Plan_SpotPrice",
   "t_Plan_ValidateBasic",
   "t_RollappIDFromIRODenom",
   "t_ScaleFromBase",
   "t_ScaleToBase",
   "t_checkPrecision"] := rfl

end DymVerif.GenEqSk.Iro
