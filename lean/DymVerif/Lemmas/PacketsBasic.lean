/-
  Lemmas/PacketsBasic — frame lemmas of M-Packets: which model functions leave the delayedack-side
  fields (packet store, by-address index, receipts, commitments, sent packets, sequences, release
  log, rollapp heights, channel table) untouched.
-/
import DymVerif.Model.Packets
namespace DymVerif.Packets
open DymVerif DymVerif.Keys

/-- the delayedack-side fields of two states agree -/
structure DFrame (s s' : St) : Prop where
  packets : s'.packets = s.packets
  byAddr : s'.byAddr = s.byAddr
  receipts : s'.receipts = s.receipts
  commits : s'.commits = s.commits
  sent : s'.sent = s.sent
  nextSeq : s'.nextSeq = s.nextSeq
  log : s'.log = s.log
  ras : s'.ras = s.ras
  chans : s'.chans = s.chans

theorem DFrame.refl (s : St) : DFrame s s := ⟨rfl, rfl, rfl, rfl, rfl, rfl, rfl, rfl, rfl⟩

theorem DFrame.trans {a b c : St} (h1 : DFrame a b) (h2 : DFrame b c) : DFrame a c :=
  ⟨h2.packets.trans h1.packets, h2.byAddr.trans h1.byAddr, h2.receipts.trans h1.receipts, h2.commits.trans h1.commits,
   h2.sent.trans h1.sent, h2.nextSeq.trans h1.nextSeq, h2.log.trans h1.log, h2.ras.trans h1.ras, h2.chans.trans h1.chans⟩

theorem DFrame.symm {a b : St} (h : DFrame a b) : DFrame b a :=
  ⟨h.packets.symm, h.byAddr.symm, h.receipts.symm, h.commits.symm, h.sent.symm, h.nextSeq.symm, h.log.symm, h.ras.symm, h.chans.symm⟩

theorem frame_credit (s : St) (a d v) : DFrame s (credit s a d v) := ⟨rfl, rfl, rfl, rfl, rfl, rfl, rfl, rfl, rfl⟩
theorem frame_debit (s : St) (a d v) : DFrame s (debit s a d v) := ⟨rfl, rfl, rfl, rfl, rfl, rfl, rfl, rfl, rfl⟩
theorem frame_writeAck (s : St) (c q b) : DFrame s (writeAck s c q b) := ⟨rfl, rfl, rfl, rfl, rfl, rfl, rfl, rfl, rfl⟩
theorem frame_setOrder (s : St) (o) : DFrame s (setOrder s o) := ⟨rfl, rfl, rfl, rfl, rfl, rfl, rfl, rfl, rfl⟩
theorem frame_delOrder (s : St) (st id) : DFrame s (delOrder s st id) := ⟨rfl, rfl, rfl, rfl, rfl, rfl, rfl, rfl, rfl⟩
theorem frame_setLp (s : St) (l) : DFrame s (setLp s l) := ⟨rfl, rfl, rfl, rfl, rfl, rfl, rfl, rfl, rfl⟩
theorem frame_delLp (s : St) (i) : DFrame s (delLp s i) := ⟨rfl, rfl, rfl, rfl, rfl, rfl, rfl, rfl, rfl⟩
theorem frame_setGrant (s : St) (g) : DFrame s (setGrant s g) := ⟨rfl, rfl, rfl, rfl, rfl, rfl, rfl, rfl, rfl⟩
theorem frame_delGrant (s : St) (a b) : DFrame s (delGrant s a b) := ⟨rfl, rfl, rfl, rfl, rfl, rfl, rfl, rfl, rfl⟩

theorem frame_sendCoins {s s' : St} {a b d v} (h : sendCoins s a b d v = some s') : DFrame s s' := by
  unfold sendCoins at h
  split at h
  · cases h; exact DFrame.refl s
  · split at h
    · cases h
    · cases h; exact (frame_debit s a d v).trans (frame_credit _ b d v)

theorem frame_icsCredit {s s' : St} {p} (h : icsCredit s p = some s') : DFrame s s' := by
  unfold icsCredit at h
  split at h
  · exact frame_sendCoins h
  · cases h; exact frame_credit s _ _ _

theorem frame_chargeBridgingFee (s : St) (p : Packet) : DFrame s (chargeBridgingFee s p) := by
  unfold chargeBridgingFee
  split
  · exact DFrame.refl s
  · split
    · exact DFrame.refl s
    · exact frame_debit s _ _ _

theorem frame_icsRecv {s s' : St} {p b} (h : icsRecv s p b = some s') : DFrame s s' := by
  unfold icsRecv at h
  split at h
  · cases h
  · split at h
    · cases h
    · rename_i s1 hc
      cases h
      split
      · exact (frame_icsCredit hc).trans (frame_chargeBridgingFee s1 p)
      · exact frame_icsCredit hc

theorem frame_fwdRefundFunds {s s' : St} {p rc} (h : fwdRefundFunds s p rc = some s') : DFrame s s' := by
  unfold fwdRefundFunds at h
  split at h
  · split at h
    · exact frame_sendCoins h
    · split at h
      · cases h
      · cases h; exact frame_debit s _ _ _
  · cases h; exact frame_credit s _ _ _

theorem frame_fwdSettle {s s' : St} {p r} (h : fwdSettle s p r = some s') : DFrame s s' := by
  unfold fwdSettle at h
  split at h
  · cases h
  · rename_i s1 h1
    split at h
    · cases h
    · cases h
      refine DFrame.trans ?_ (frame_writeAck s1 _ _ _)
      split at h1
      · cases h1; exact DFrame.refl s
      · exact frame_fwdRefundFunds h1

theorem sendTransfer_ok' {s s' : St} {a c d amt} (h : sendTransfer s a c d amt = .ok s') : sendOpen s a c d amt = .ok s' := by
  unfold sendTransfer at h; split at h
  · cases h
  · exact h

theorem frame_icsRefund {s s' : St} {p} (h : icsRefund s p = some s') : DFrame s s' := by
  unfold icsRefund at h
  split at h
  · exact frame_icsCredit h
  · exact frame_fwdSettle h

theorem frame_eibcOnRecv {s s' : St} {p m} (h : eibcOnRecv s p m = .ok s') : DFrame s s' := by
  unfold eibcOnRecv at h
  split at h
  · cases h
  · split at h
    · cases h
    · split at h
      · cases h
      · cases h; exact frame_setOrder s _

theorem frame_eibcOnRefund {s s' : St} {p} (h : eibcOnRefund s p = .ok s') : DFrame s s' := by
  unfold eibcOnRefund at h
  split at h
  · cases h; exact DFrame.refl s
  · split at h
    · cases h
    · cases h; exact frame_setOrder s _

theorem eibcRefundHandler_ok {s s' : St} {p} (h : eibcRefundHandler s p = .ok s') : eibcOnRefund s p = .ok s' := by
  unfold eibcRefundHandler at h
  split at h
  · cases h
  · exact h

theorem sendBlk_ok {s s' : St} {a c d amt} (h : sendBlk s a c d amt = .ok s') :
    ∃ s1, sendOpen s a c d amt = .ok s1 ∧ s' = markBlk s1 c (getNextSeq s c) := by
  unfold sendBlk at h
  split at h
  · rename_i s1 hs; cases h; exact ⟨s1, sendTransfer_ok' hs, rfl⟩
  · cases h

theorem frame_afterPacketStatusUpdated (s : St) (a b : Bytes) (st : Status) : DFrame s (afterPacketStatusUpdated s a b st) := by
  unfold afterPacketStatusUpdated
  split
  · exact DFrame.refl s
  · exact (frame_delOrder s _ _).trans (frame_setOrder _ _)

theorem frame_recvRelease (s : St) (p : Packet) : DFrame s (recvRelease s p).1 := by
  unfold recvRelease
  split
  · rename_i s1 h; exact frame_icsRecv h
  · exact DFrame.refl s

theorem frame_writeRecvAck (s : St) (p : Packet) (b : Bool) : DFrame s (writeRecvAck s p b).1 := by
  unfold writeRecvAck
  split
  · exact DFrame.refl s
  · split
    · exact DFrame.refl s
    · exact frame_writeAck _ _ _ _

theorem frame_refundRelease (s : St) (p : Packet) : DFrame s (refundRelease s p).1 := by
  unfold refundRelease
  split
  · rename_i s1 h; exact frame_icsRefund h
  · exact DFrame.refl s

theorem frame_ackRelease (s : St) (p : Packet) : DFrame s (ackRelease s p).1 := by
  unfold ackRelease
  split
  · exact DFrame.refl s
  · exact frame_refundRelease s p

theorem frame_releaseEffect (s : St) (p : Packet) : DFrame s (releaseEffect s p).1 := by
  unfold releaseEffect
  split
  · exact (frame_recvRelease s p).trans (frame_writeRecvAck _ _ _)
  · split
    · exact frame_refundRelease s p
    · exact frame_ackRelease s p
  · exact frame_refundRelease s p
  · exact DFrame.refl s

theorem frame_msgUpdateFee {s s' : St} {a id fee} (h : msgUpdateFee s a id fee = .ok s') : DFrame s s' := by
  unfold msgUpdateFee at h
  split at h
  · cases h
  · split at h
    · cases h
    · split at h
      · cases h
      · split at h
        · cases h
        · split at h
          · cases h
          · cases h; exact frame_setOrder s _

theorem frame_msgCreateLp {s s' : St} {l ok} (h : msgCreateLp s l ok = .ok s') : DFrame s s' := by
  unfold msgCreateLp at h
  split at h
  · cases h
  · split at h
    · cases h
    · cases h; exact ⟨rfl, rfl, rfl, rfl, rfl, rfl, rfl, rfl, rfl⟩

theorem frame_msgDeleteLps {owner : Addr} : ∀ (ids : List Nat) {s s' : St}, msgDeleteLps s owner ids = .ok s' → DFrame s s'
  | [], s, s', h => by unfold msgDeleteLps at h; cases h; exact DFrame.refl s
  | id :: rest, s, s', h => by
    unfold msgDeleteLps at h
    split at h
    · exact frame_msgDeleteLps rest h
    · split at h
      · cases h
      · exact (frame_delLp s id).trans (frame_msgDeleteLps rest h)

theorem frame_msgGrant {s s' : St} {g} (h : msgGrant s g = .ok s') : DFrame s s' := by
  unfold msgGrant at h
  split at h
  · cases h
  · split at h
    · cases h
    · split at h
      · cases h
      · cases h; exact frame_setGrant s g

-- the channel-state guards of ibc-go core in front of the callbacks ------------------------------

theorem recvPacket_cases (s : St) (c seq ph : Nat) (d : RecvData) :
    recvPacket s c seq ph d = (s, .closed) ∨ recvPacket s c seq ph d = recvOpen s c seq ph d := by
  unfold recvPacket; split
  · exact Or.inl rfl
  · exact Or.inr rfl

theorem ackPacket_ok {s : St} {c seq ph : Nat} {t e : Bool} {r : Option St} (h : ackPacket s c seq ph t e = .ok r) :
    ackOpen s c seq ph t e = .ok r := by
  unfold ackPacket at h; split at h
  · cases h
  · exact h

theorem sendTransfer_ok {s s' : St} {a c d amt} (h : sendTransfer s a c d amt = .ok s') : sendOpen s a c d amt = .ok s' := by
  unfold sendTransfer at h; split at h
  · cases h
  · exact h

/-- `MsgTransfer` leaves the packet store, the index, the receipts, the log and the rollapp / channel tables alone -/
theorem frame_sendOpen {s s' : St} {a c d amt} (h : sendOpen s a c d amt = .ok s') :
    s'.packets = s.packets ∧ s'.byAddr = s.byAddr ∧ s'.receipts = s.receipts ∧ s'.log = s.log ∧ s'.ras = s.ras ∧ s'.chans = s.chans ∧
    s'.orders = s.orders ∧ s'.acks = s.acks := by
  unfold sendOpen at h
  split at h
  · cases h
  · split at h
    · cases h
    · split at h
      · cases h
      · cases h
        unfold recordSent lockCoins
        split <;> exact ⟨rfl, rfl, rfl, rfl, rfl, rfl, rfl, rfl⟩

theorem frame_setChanClosed {s s' : St} {c : Nat} {b : Bool} (h : setChanClosed s c b = .ok s') : DFrame s s' := by
  unfold setChanClosed at h; split at h
  · cases h
  · cases h; exact ⟨rfl, rfl, rfl, rfl, rfl, rfl, rfl, rfl, rfl⟩

end DymVerif.Packets
