/-
  Lemmas/CoreXFrame — frame lemmas for the state chain of a rollapp:
    * `cKey`: what the chain clauses of C01 read in a rollapp record (id, latest finalized index,
      revisions, every state-info field but `next`); an op that is finalization-neutral (`FS`) and
      fork-neutral (`Fork.Good`) keeps `cKey` of every rollapp (`kept_of`);
    * one lemma per named quiet handler (`createSeq`, bond increase / decrease, unbond, opt-in,
      begin-block, bridge, fund, create-rollapp);
    * `EndBlock`: `endKey` (everything of a record except states / lastFin / evH) is kept, and the
      states change by finalization flags only (`endBlock_rec`);
    * the height lookup returns nothing below the first recorded height.
-/
import DymVerif.Lemmas.CoreXUpdate
import DymVerif.Lemmas.CoreFinIso
namespace DymVerif.Core.XUpd
open DymVerif.Core

-- ---------------------------------------------------------------- the chain view of a record

/-- what the chain clauses read in a rollapp record: id, latest finalized index, revisions, and the
    recorded states up to `NextProposer` -/
def cKey (r : Rollapp) : Nat × Nat × List (Nat × Nat) × List (Addr × Nat × Nat × Nat × Bool × List BD × Nat × Nat) :=
  (r.id, r.lastFin, r.revs, r.states.map sKey)

theorem cKey_fields {a b : Rollapp} (h : cKey a = cKey b) :
    a.id = b.id ∧ a.lastFin = b.lastFin ∧ a.revs = b.revs ∧ a.states.map sKey = b.states.map sKey := by
  unfold cKey at h
  simp only [Prod.mk.injEq] at h
  exact h

theorem cKey_of {a b : Rollapp} (h1 : rKey a = rKey b) (h2 : a.revs = b.revs) : cKey a = cKey b := by
  obtain ⟨k1, k2, k3⟩ := rKey_fields h1
  unfold cKey; rw [k1, k2, k3, h2]

/-- a step that keeps the finalization keys and is `Fork.Good` keeps the chain view of every rollapp
    (and creates / removes none) -/
theorem kept_of {s s' : St} (hs : s'.ras.map rKey = s.ras.map rKey) (hg : Fork.Good s s') (id : Nat) :
    (getRa s' id).map cKey = (getRa s id).map cKey := by
  cases h : getRa s id with
  | none => rw [getRa_rKey_none hs h]
  | some r =>
    obtain ⟨r', h1, hk⟩ := getRa_rKey_some hs h
    obtain ⟨r'', h2, hv, _⟩ := hg.keep id r h
    rw [h1] at h2; injection h2 with h2; subst h2
    rw [h1]
    simp only [Option.map_some, Option.some.injEq]
    exact cKey_of hk (congrArg Prod.fst hv)

theorem kept_of_fs {s s' : St} (hp : Pre s) (hf : FS s s') (hg : Fork.Good s s') (id : Nat) :
    (getRa s' id).map cKey = (getRa s id).map cKey := kept_of (hf hp).2.ras hg id

-- ---------------------------------------------------------------- the quiet handlers, one by one

theorem createSeq_kept {s s' : St} {a : Addr} {ra bond : Nat} {d : Bool} (hp : Pre s) (hi : Fork.Inv s)
    (e : createSeq s a ra bond d = .ok s') (id : Nat) : (getRa s' id).map cKey = (getRa s id).map cKey :=
  kept_of_fs hp (createSeq_fs e) (Fork.createSeq_good hi.cust.nodup e) id

theorem increaseBond_kept {s s' : St} {a : Addr} {amt : Nat} {d : Bool} (hp : Pre s)
    (e : increaseBond s a amt d = .ok s') (id : Nat) : (getRa s' id).map cKey = (getRa s id).map cKey :=
  kept_of_fs hp (increaseBond_fs e) (Fork.increaseBond_good e) id

theorem decreaseBond_kept {s s' : St} {a : Addr} {amt : Nat} (hp : Pre s)
    (e : decreaseBond s a amt = .ok s') (id : Nat) : (getRa s' id).map cKey = (getRa s id).map cKey :=
  kept_of_fs hp (decreaseBond_fs e) (Fork.decreaseBond_good e) id

theorem unbond_kept {s s' : St} {a : Addr} (hp : Pre s)
    (e : unbond s a = .ok s') (id : Nat) : (getRa s' id).map cKey = (getRa s id).map cKey :=
  kept_of_fs hp (unbond_fs e) (Fork.unbond_good e) id

theorem optIn_kept {s s' : St} {a : Addr} {v : Bool} (hp : Pre s) (hi : Fork.Inv s)
    (e : optIn s a v = .ok s') (id : Nat) : (getRa s' id).map cKey = (getRa s id).map cKey :=
  kept_of_fs hp (optIn_fs e) (Fork.optIn_good hi.cust.nodup e) id

theorem beginBlock_kept {s : St} (dt : Nat) (hp : Pre s) (hi : Fork.Inv s) (id : Nat) :
    (getRa (beginBlock s dt) id).map cKey = (getRa s id).map cKey := by
  have hp1 : Pre { s with h := s.h + 1, t := s.t + dt } := ⟨hp.nodup, hp.chain, hp.qb⟩
  have hs : (beginBlock s dt).ras.map rKey = s.ras.map rKey := (beginBlock_fs s dt hp1).2.ras
  exact kept_of hs (Fork.beginBlock_good hi.cust.nodup) id

/-- writing back a record with the same chain view -/
theorem setRa_kept {s : St} {r r1 : Rollapp} {ra : Nat} (hg : getRa s ra = some r) (hk : cKey r1 = cKey r) (id : Nat) :
    (getRa (setRa s r1) id).map cKey = (getRa s id).map cKey := by
  have hid : r1.id = ra := (cKey_fields hk).1.trans (getRa_id hg)
  by_cases hx : r1.id = id
  · subst hx
    rw [getRa_setRa_same s r1 (by rw [hid, hg]; rfl), hid, hg]
    simp [hk]
  · rw [getRa_setRa_other s r1 id hx]

/-- the completed-genesis-bridge op only writes `TransferProofHeight` -/
theorem bridge_kept {s s' : St} {ra h : Nat} (e : apply s (.bridge ra h) = .ok s') (id : Nat) :
    (getRa s' id).map cKey = (getRa s id).map cKey := by
  simp only [apply] at e
  split at e
  · cases e
  · rename_i r hg
    split at e
    · cases e
    · split at e
      · cases e
      · injection e with e; subst e
        exact setRa_kept (r1 := { r with tph := h }) hg rfl id

theorem fund_kept {s s' : St} {a : Addr} {amt : Nat} (e : apply s (.fund a amt) = .ok s') (id : Nat) :
    getRa s' id = getRa s id := by
  simp only [apply] at e
  injection e with e; subst e
  rfl

/-- creating a rollapp leaves every existing record as it is and adds the fresh one -/
theorem createRollapp_kept {s s' : St} {nid : Nat} {owner : Addr} {mb : Nat}
    (e : apply s (.createRollapp nid owner mb) = .ok s') :
    getRa s nid = none ∧ getRa s' nid = some (newRollapp nid owner mb) ∧ ∀ id, id ≠ nid → getRa s' id = getRa s id := by
  simp only [apply] at e
  split at e
  · cases e
  · rename_i hn
    injection e with e; subst e
    have hnone : getRa s nid = none := by
      cases hx : getRa s nid with
      | none => rfl
      | some _ => simp [hx] at hn
    have hfresh : ∀ y ∈ s.ras, y.id ≠ (newRollapp nid owner mb).id := Fork.getRa_none hnone
    refine ⟨hnone, ?_, ?_⟩
    · unfold getRa
      exact Fork.find_insertSorted_same _ _ hfresh
    · intro id hne
      unfold getRa
      exact Fork.find_insertSorted_id _ _ _ (fun hc => hne hc.symm) hfresh

-- ---------------------------------------------------------------- EndBlock

/-- everything of a rollapp record that `EndBlock` never writes: all of it except the states, the
    latest finalized index and the liveness event height -/
def endKey (r : Rollapp) : Nat × Addr × Nat × Bool × List (Nat × Nat) × Nat × Nat × Option Addr × Option Addr :=
  (r.id, r.owner, r.minBond, r.launched, r.revs, r.tph, r.cdStart, r.proposer, r.successor)

theorem endKey_fields {a b : Rollapp} (h : endKey a = endKey b) :
    a.id = b.id ∧ a.owner = b.owner ∧ a.minBond = b.minBond ∧ a.launched = b.launched ∧ a.revs = b.revs ∧
      a.tph = b.tph ∧ a.cdStart = b.cdStart ∧ a.proposer = b.proposer ∧ a.successor = b.successor := by
  unfold endKey at h
  simp only [Prod.mk.injEq] at h
  exact h

theorem endKey_of_livKey {a b : Rollapp} (h : livKey a = livKey b) : endKey a = endKey b := by
  unfold livKey at h
  simp only [Prod.mk.injEq] at h
  obtain ⟨h1, h2, h3, h4, h5, h6, _, h8, h9, h10⟩ := h
  unfold endKey
  rw [h1, h2, h3, h4, h5, h6, h8, h9, h10]

theorem getRa_setRa_endKey (s0 : St) (r0 r1 : Rollapp) (id : Nat) (hg : getRa s0 r0.id = some r1)
    (hk : endKey r0 = endKey r1) : (getRa (setRa s0 r0) id).map endKey = (getRa s0 id).map endKey := by
  by_cases hid : r0.id = id
  · subst hid
    rw [getRa_setRa_same s0 r0 (by rw [hg]; rfl), hg]
    simp [hk]
  · rw [getRa_setRa_other _ _ _ hid]

theorem handleLivenessEvent_endKey (s : St) (ra id : Nat) :
    (getRa (handleLivenessEvent s ra) id).map endKey = (getRa s id).map endKey := by
  unfold handleLivenessEvent
  split
  · rfl
  · split
    · rfl
    · rename_i s1 hs1
      have hf := slashLiveness_frame hs1
      split
      · rfl
      · rename_i r1 hg1
        unfold scheduleEvent
        dsimp only
        refine (getRa_setRa_endKey _ _ r1 id ?_ ?_).trans ?_
        · show getRa s1 r1.id = some r1
          rw [getRa_id hg1]; exact hg1
        · rfl
        · show (getRa s1 id).map endKey = _
          rw [getRa_frame hf.ras]

theorem checkLiveness_endKey (s : St) (id : Nat) : (getRa (checkLiveness s) id).map endKey = (getRa s id).map endKey := by
  unfold checkLiveness
  apply foldl_inv (fun b => (getRa b id).map endKey = (getRa s id).map endKey)
  · rfl
  · intro b e hb
    rw [handleLivenessEvent_endKey]; exact hb

/-- `EndBlock` writes nothing of a rollapp record but its states, `lastFin` and `evH` -/
theorem endBlock_endKey (s : St) (hn : IdsNodup s) (fails : List (Nat × Nat)) (id : Nat) :
    (getRa (endBlock s fails) id).map endKey = (getRa s id).map endKey := by
  unfold endBlock
  rw [checkLiveness_endKey]
  obtain ⟨R, Q, H, h2, hR⟩ := finalizeRollappStates_livEq s fails hn
  have h3 := getRa_livKey (s1 := finalizeRollappStates s fails) (s2 := s) (by rw [h2]; exact hR) id
  cases ha : getRa (finalizeRollappStates s fails) id with
  | none =>
    rw [ha] at h3
    cases hb : getRa s id with
    | none => rfl
    | some b => rw [hb] at h3; cases h3
  | some a =>
    rw [ha] at h3
    cases hb : getRa s id with
    | none => rw [hb] at h3; cases h3
    | some b =>
      rw [hb] at h3
      simp only [Option.map_some, Option.some.injEq] at h3 ⊢
      exact endKey_of_livKey h3

/-- **What `EndBlock` does to one rollapp record** (any failure oracle): the record survives with the
    same number of states; every state is either identical (all fields, `next` included) or was
    unfinalized and differs in the finalization flag and the ghost finalization height only; the
    latest finalized index does not decrease and stays within the states; nothing else but the
    liveness event height is written. -/
theorem endBlock_rec {s : St} (fails : List (Nat × Nat)) (hi : FinInv s) {id : Nat} {r : Rollapp}
    (hg : getRa s id = some r) :
    ∃ r', getRa (endBlock s fails) id = some r' ∧ r'.states.length = r.states.length ∧
      (∀ (i : Nat) (st : SInfo), r.states[i]? = some st → ∃ st', r'.states[i]? = some st' ∧
        (st' = st ∨ (st.finalized = false ∧ st' = { st with finalized := true, finalizedAt := s.h }))) ∧
      r.lastFin ≤ r'.lastFin ∧ r'.lastFin ≤ r'.states.length ∧ endKey r' = endKey r := by
  obtain ⟨hi1, _⟩ := finalizeRollappStates_fin fails hi
  obtain ⟨_, _, _, hrel⟩ := finalizeRollappStates_rel fails hi.nodup
  have hid := getRa_id hg
  obtain ⟨r1, hr1, hid1, hlen1, hs1⟩ := hrel r (getRa_mem hg)
  have hg1 : getRa (finalizeRollappStates s fails) id = some r1 := by
    rw [← hid, ← hid1]; exact getRa_of_mem hi1.nodup hr1
  have hfp := checkLiveness_finPart (finalizeRollappStates s fails) id
  rw [hg1] at hfp
  cases hg2 : getRa (checkLiveness (finalizeRollappStates s fails)) id with
  | none => rw [hg2] at hfp; cases hfp
  | some r2 =>
    rw [hg2] at hfp
    simp only [Option.map_some, Option.some.injEq, finPart, Prod.mk.injEq] at hfp
    have hek := endBlock_endKey s hi.nodup fails id
    unfold endBlock at hek ⊢
    rw [hg2, hg] at hek
    simp only [Option.map_some, Option.some.injEq] at hek
    refine ⟨r2, hg2, by rw [hfp.1]; exact hlen1, ?_, ?_, ?_, hek⟩
    · rw [hfp.1]; exact hs1
    · rw [hfp.2]
      -- the finalized prefix cannot shrink: the state at index lastFin r1 would be finalized in r …
      rcases Nat.lt_or_ge r1.lastFin r.lastFin with hlt | hge
      · exfalso
        have hf0 := hi.ras r (getRa_mem hg)
        have hf1 := hi1.ras r1 hr1
        have hlt2 : r1.lastFin < r.states.length := by have := hf0.le; omega
        have hst : r.states[r1.lastFin]? = some r.states[r1.lastFin] := List.getElem?_eq_getElem hlt2
        have hfin := (hf0.pre _ _ hst).2 hlt
        obtain ⟨st', hst', hc⟩ := hs1 _ _ hst
        have hfin' : st'.finalized = true := by
          rcases hc with hc | ⟨hc, _⟩
          · rw [hc]; exact hfin
          · rw [hfin] at hc; cases hc
        have := (hf1.pre _ _ hst').1 hfin'
        omega
      · exact hge
    · rw [hfp.1, hfp.2]; exact (hi1.ras r1 hr1).le

/-- `EndBlock` creates and removes no rollapp -/
theorem endBlock_ids_eq {s : St} (fails : List (Nat × Nat)) (hc : ChainAll s) (hi : FinInv s) :
    (endBlock s fails).ras.map (·.id) = s.ras.map (·.id) := by
  obtain ⟨hi1, _⟩ := finalizeRollappStates_fin fails hi
  obtain ⟨_, _, hids, _⟩ := finalizeRollappStates_rel fails hi.nodup
  have hc1 := finalizeRollappStates_chain fails hc
  unfold endBlock
  exact ((checkLiveness_fs _ (hi1.pre hc1)).2.ids).trans hids

-- ---------------------------------------------------------------- nothing below the first height

/-- under the chain invariant the height lookup returns nothing below the first recorded height -/
theorem findByHeight_none_below {r : Rollapp} (hc : Chain r.states) {first : SInfo} (hf : r.states[0]? = some first)
    {h : Nat} (hlt : h < first.start) : findByHeight r h = none := by
  cases e : findByHeight r h with
  | none => rfl
  | some i =>
    exfalso
    obtain ⟨st, hst, hcont⟩ := findByHeight_sound r h i e
    have hw := hc.wf st (List.mem_of_getElem? hst)
    have h1 := ((contains_iff st h hw).1 hcont).1
    have h2 := hc.first_le hf (i - 1) st hst
    omega

end DymVerif.Core.XUpd
