/-
  Lemmas/CoreXFork — helper lemmas for Props/C03X:
  * the finalization invariant (`FinInv`, C02) gives the `FinPrefix` hypothesis of the fork theorems;
  * the exact frame of `punish` (the step that precedes the fork inside a fraud proposal): it writes
    the punished sequencer's `tokens` (to 0), bank balances, the module balance and the burned total,
    and nothing else — no rollapp record, queue entry, liability, liveness event, notice-queue entry,
    clock or parameter, and no other field of any sequencer record.
-/
import DymVerif.Lemmas.CoreForkQuiet
import DymVerif.Lemmas.CoreForkFin
import DymVerif.Lemmas.CoreFinInv
import DymVerif.Lemmas.CoreCustody4
namespace DymVerif.Core.XFork
open DymVerif.Core.Fork

-- ---------------------------------------------------------------- FinInv ⇒ FinPrefix

/-- the per-rollapp finalization invariant says "finalized ⇔ index below `lastFin`", hence the
    finalized states form a prefix -/
theorem finPrefix_of_rfin {fl : List Nat} {q : List QEntry} {d : Nat} {r : Rollapp} (h : RFinL fl q d r) :
    FinPrefix r.states := by
  intro i j a b hij ha hb hbf
  have hj := (h.pre j b hb).1 hbf
  exact (h.pre i a ha).2 (by omega)

theorem finPrefix_of_finInv {s : St} (hi : FinInv s) {r : Rollapp} (hr : r ∈ s.ras) : FinPrefix r.states :=
  finPrefix_of_rfin (hi.ras r hr)

-- ---------------------------------------------------------------- the frame of the money movers

/-- everything except sequencer records and money is the same -/
structure NoMoneyEq (s s1 : St) : Prop where
  h : s1.h = s.h
  t : s1.t = s.t
  p : s1.p = s.p
  ras : s1.ras = s.ras
  queue : s1.queue = s.queue
  seqH : s1.seqH = s.seqH
  lev : s1.lev = s.lev
  obsolete : s1.obsolete = s.obsolete
  nq : s1.nq = s.nq

theorem NoMoneyEq.refl (s : St) : NoMoneyEq s s := ⟨rfl, rfl, rfl, rfl, rfl, rfl, rfl, rfl, rfl⟩

theorem NoMoneyEq.trans {a b c : St} (x : NoMoneyEq a b) (y : NoMoneyEq b c) : NoMoneyEq a c :=
  ⟨y.h.trans x.h, y.t.trans x.t, y.p.trans x.p, y.ras.trans x.ras, y.queue.trans x.queue, y.seqH.trans x.seqH,
    y.lev.trans x.lev, y.obsolete.trans x.obsolete, y.nq.trans x.nq⟩

theorem sendFromModule_x {s s1 : St} {q q1 : Seq} {amt : Nat} {to : Addr}
    (e : sendFromModule s q amt to = .ok (s1, q1)) :
    NoMoneyEq s s1 ∧ s1.seqs = s.seqs ∧ q1 = { q with tokens := q.tokens - amt } := by
  unfold sendFromModule at e; split at e
  · cases e
  · split at e
    · cases e
    · split at e
      · cases e
      · injection e with e; injection e with e1 e2; subst e1; subst e2
        exact ⟨⟨rfl, rfl, rfl, rfl, rfl, rfl, rfl, rfl, rfl⟩, rfl, rfl⟩

theorem burn_x {s s1 : St} {q q1 : Seq} {amt : Nat} (e : burn s q amt = .ok (s1, q1)) :
    NoMoneyEq s s1 ∧ s1.seqs = s.seqs ∧ q1 = { q with tokens := q.tokens - amt } := by
  unfold burn at e; split at e
  · cases e
  · split at e
    · cases e
    · injection e with e; injection e with e1 e2; subst e1; subst e2
      exact ⟨⟨rfl, rfl, rfl, rfl, rfl, rfl, rfl, rfl, rfl⟩, rfl, rfl⟩

/-- slashing the whole bond: the record keeps every field and ends with 0 tokens -/
theorem slash_all_x {s s1 : St} {q q1 : Seq} {mul : Dec} {rw : Option Addr}
    (e : slash s q q.tokens mul rw = .ok (s1, q1)) :
    NoMoneyEq s s1 ∧ s1.seqs = s.seqs ∧ q1 = { q with tokens := 0 } := by
  unfold slash at e
  dsimp only at e
  split at e
  · cases e
  · rename_i s0 q0 h0
    obtain ⟨b1, b2, b3⟩ := burn_x e
    split at h0
    · rename_i hz
      injection h0 with h0; injection h0 with h1 h2; subst h1; subst h2
      refine ⟨b1, b2, ?_⟩
      rw [b3, hz]; simp
    · split at h0
      · obtain ⟨a1, a2, a3⟩ := sendFromModule_x h0
        refine ⟨a1.trans b1, b2.trans a2, ?_⟩
        rw [b3, a3]; simp
      · cases h0

/-- **the exact effect of `punish` outside money**: the punished record keeps every field except
    `tokens`, which becomes 0; every other record and everything that is not a sequencer record or money
    is literally the same -/
theorem punish_x {s s' : St} {a : Addr} {rw : Option Addr} (e : punish s a rw = .ok s') :
    NoMoneyEq s s' ∧
    (∃ q, getSeq s a = some q ∧ getSeq s' a = some { q with tokens := 0 }) ∧
    (∀ b, b ≠ a → getSeq s' b = getSeq s b) := by
  unfold punish at e
  split at e
  · cases e
  · rename_i q hg
    dsimp only at e
    split at e
    · cases e
    · rename_i s1 q1 hs
      obtain ⟨x1, x2, x3⟩ := slash_all_x hs
      injection e with e; subst e
      have hqa : q.addr = a := getSeq_addr hg
      have hq1a : q1.addr = a := by rw [x3]; exact hqa
      refine ⟨⟨x1.h, x1.t, x1.p, x1.ras, x1.queue, x1.seqH, x1.lev, x1.obsolete, x1.nq⟩, ⟨q, hg, ?_⟩, ?_⟩
      · have h1 : getSeq s1 q1.addr = some q := by rw [getSeq_congr x2, hq1a]; exact hg
        have := getSeq_setSeq_self h1
        rw [hq1a] at this
        rw [this, x3]
      · intro b hb
        rw [getSeq_setSeq_other (by rw [hq1a]; exact Ne.symm hb), getSeq_congr x2]

theorem punish_ras {s s' : St} {a : Addr} {rw : Option Addr} (e : punish s a rw = .ok s') : s'.ras = s.ras :=
  (punish_x e).1.ras

/-- `punish` preserves the three fork invariants -/
theorem punish_inv {s s' : St} {a : Addr} {rw : Option Addr} (hi : Inv s) (e : punish s a rw = .ok s') : Inv s' :=
  ⟨punish_chain hi.chain e, punish_cust hi.cust e, (punish_good e).J hi.j⟩

/-- the state the fork of a fraud proposal starts from: the input state, punished or not -/
theorem fraud_mid {s s' : St} {au : Bool} {ra h rev : Nat} {pun rw : Option Addr}
    (e : fraud s au ra h rev pun rw = .ok s') :
    au = true ∧ h ≠ 0 ∧ ∃ r s1, getRa s ra = some r ∧ revForHeight r h = rev ∧
      (match pun with | some a => punish s a rw = .ok s1 | none => s1 = s) ∧
      NoMoneyEq s s1 ∧ getRa s1 ra = some r ∧ hardFork s1 ra (h - 1) = .ok s' := by
  obtain ⟨h1, h2, r, s1, h3, h4, h5, h6⟩ := fraud_ok_elim e
  refine ⟨h1, h2, r, s1, h3, h4, h5, ?_⟩
  cases pun with
  | none =>
    have : s1 = s := h5
    subst this
    exact ⟨NoMoneyEq.refl _, h3, h6⟩
  | some a =>
    have hx := (punish_x (show punish s a rw = .ok s1 from h5)).1
    exact ⟨hx, by rw [getRa_congr hx.ras]; exact h3, h6⟩

end DymVerif.Core.XFork
