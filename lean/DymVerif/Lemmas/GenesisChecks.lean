/-
  Lemmas/GenesisChecks — the module invariants from bounded (decidable) checks, so that concrete
  states can be shown to satisfy them by `decide` (used for the non-vacuity examples of C18Modules).
-/
import DymVerif.Lemmas.GenesisStores
import DymVerif.Lemmas.GenesisRefs
import DymVerif.Lemmas.GenesisSpons
namespace DymVerif.Genesis
open DymVerif

theorem unit_entry {κ : Type} (e : κ × Unit) : e = (e.1, ()) := rfl

theorem DaInv.of_checks {s : DaState}
    (sp : Sorted lexLt s.packets) (kp : Keyed DPacket.key s.packets) (sa : Sorted ltBB s.byAddr)
    (bwd : ∀ e ∈ s.byAddr, ∃ x ∈ s.packets, daIdxItem x.2 = some e.1)
    (fwd : ∀ x ∈ s.packets, ∀ k ∈ (daIdxItem x.2).toList, (k, ()) ∈ s.byAddr)
    (typed : ∀ x ∈ s.packets, x.2.status = .pending → x.2.ptype ≠ .undefined) : DaInv s := by
  refine ⟨sp, kp, sa, fun e => ⟨fun he => ?_, ?_⟩, typed⟩
  · obtain ⟨x, hx, hi⟩ := bwd e he
    unfold daIdxItem at hi
    by_cases hst : x.2.status = .pending
    · rw [if_pos hst] at hi
      cases hia : daIndexAddr x.2.ptype x.2.receiver x.2.sender with
      | none => rw [hia] at hi; cases hi
      | some a =>
        rw [hia] at hi
        simp only [Option.map_some, Option.some.injEq] at hi
        refine ⟨x, hx, hst, ?_, ?_⟩
        · rw [← hi]; exact hia
        · rw [← hi, kp x hx]
    · rw [if_neg hst] at hi; cases hi
  · rintro ⟨x, hx, hst, hia, hk⟩
    have hi : daIdxItem x.2 = some e.1 := by
      unfold daIdxItem; rw [if_pos hst, hia, ← kp x hx, ← hk]; rfl
    exact fwd x hx e.1 (by rw [hi]; simp)

theorem LcInv.of_checks {s : LcState}
    (sr : Sorted lexLt s.r2c) (sc : Sorted lexLt s.c2r)
    (i1 : ∀ e ∈ s.c2r, (e.2, e.1) ∈ s.r2c) (i2 : ∀ e ∈ s.r2c, (e.2, e.1) ∈ s.c2r)
    (ne : ∀ e ∈ s.r2c, e.1 ≠ [] ∧ e.2 ≠ []) (ss : Sorted ltSigner s.signers) (sh : Sorted ltCH s.h2s) : LcInv s :=
  ⟨sr, sc, fun c r => ⟨fun h => i1 (c, r) h, fun h => i2 (r, c) h⟩, ne, ss, sh⟩

theorem SignersExact.of_checks {s : LcState}
    (c1 : ∀ e ∈ s.h2s, ((e.2, e.1.1, e.1.2), ()) ∈ s.signers)
    (c2 : ∀ e ∈ s.signers, ((e.1.2.1, e.1.2.2), e.1.1) ∈ s.h2s) : SignersExact s :=
  fun c h q => ⟨fun hm => c1 ((c, h), q) hm, fun hm => c2 ((q, c, h), ()) hm⟩

theorem DymnsInv.of_checks {s : DymnsState}
    (sn : Sorted lexLt s.names) (kn : Keyed (fun d : DName => d.name) s.names)
    (so : Sorted ltBB s.ownIdx) (sc : Sorted ltBB s.cfgIdx) (sf : Sorted ltBB s.fbIdx)
    (o1 : ∀ e ∈ s.ownIdx, ∃ x ∈ s.names, e.1 = (x.2.owner, x.2.name))
    (o2 : ∀ x ∈ s.names, ((x.2.owner, x.2.name), ()) ∈ s.ownIdx)
    (c1 : ∀ e ∈ s.cfgIdx, ∃ x ∈ s.names, ∃ a ∈ x.2.cfgAddrs, e.1 = (a, x.2.name))
    (c2 : ∀ x ∈ s.names, ∀ a ∈ x.2.cfgAddrs, ((a, x.2.name), ()) ∈ s.cfgIdx)
    (f1 : ∀ e ∈ s.fbIdx, ∃ x ∈ s.names, ∃ a ∈ x.2.fbAddrs, e.1 = (a, x.2.name))
    (f2 : ∀ x ∈ s.names, ∀ a ∈ x.2.fbAddrs, ((a, x.2.name), ()) ∈ s.fbIdx) : DymnsInv s := by
  refine ⟨sn, kn, so, sc, sf, fun e => ⟨o1 e, ?_⟩, fun e => ⟨c1 e, ?_⟩, fun e => ⟨f1 e, ?_⟩⟩
  · rintro ⟨x, hx, he⟩; rw [unit_entry e, he]; exact o2 x hx
  · rintro ⟨x, hx, a, ha, he⟩; rw [unit_entry e, he]; exact c2 x hx a ha
  · rintro ⟨x, hx, a, ha, he⟩; rw [unit_entry e, he]; exact f2 x hx a ha

theorem RsInv.of_checks {s : RefStore}
    (si : Sorted ltNat s.items) (ki : Keyed (fun x : Item => x.id) s.items)
    (sr : ∀ c, Sorted ltNat (s.refs c)) (ne : ∀ c, ∀ e ∈ s.refs c, e.2 ≠ [])
    (pts : ∀ c, ∀ e ∈ s.refs c, ∀ id ∈ e.2, ∃ y ∈ s.items, y.1 = id ∧ y.2.start = e.1)
    (cov : ∀ e ∈ s.items, e.1 ∈ refIds s.active ++ refIds s.upcoming ++ refIds s.finished)
    (nd : (refIds s.active ++ refIds s.upcoming ++ refIds s.finished).Nodup) : RsInv s :=
  ⟨si, ki, sr, ne, fun c e he id hid => by
      obtain ⟨y, hy, h1, h2⟩ := pts c e he id hid
      exact ⟨y.2, by rw [← h1]; exact hy, h2⟩,
    fun e he => by
      rcases List.mem_append.1 (cov e he) with h | h
      · rcases List.mem_append.1 h with h | h
        · exact ⟨.active, h⟩
        · exact ⟨.upcoming, h⟩
      · exact ⟨.finished, h⟩, nd⟩

theorem ClsOk.of_checks {s : RefStore} {now : Nat} (si : Sorted ltNat s.items)
    (c1 : ∀ c, ∀ e ∈ s.refs c, ∀ id ∈ e.2, ∀ y ∈ s.items, y.1 = id → y.2.cls now = c) : ClsOk s now :=
  fun c e he id hid x hx => c1 c e he id hid (id, x) hx rfl

theorem SponsInv.of_checks {s : SponsState} (sv : Sorted lexLt s.votes) (sd : Sorted ltBB s.dvp)
    (own : ∀ e ∈ s.dvp, ∃ y ∈ s.votes, y.1 = e.1.1) : SponsInv s :=
  ⟨sv, sd, fun e he => by obtain ⟨y, hy, h⟩ := own e he; exact ⟨y.2, by rw [← h]; exact hy⟩⟩

/-- a statement about all three classes from its three instances -/
theorem forall_cls {P : Cls → Prop} (h1 : P .upcoming) (h2 : P .active) (h3 : P .finished) : ∀ c, P c
  | .upcoming => h1 | .active => h2 | .finished => h3

end DymVerif.Genesis
