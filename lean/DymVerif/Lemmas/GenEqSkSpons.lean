/-
  Lemmas/GenEqSkSpons — tie 1 for C16 (M-Spons, Model/Spons.lean): the normalised statement listing (translate/skel.go `listing`:
  every `if` / `for` / `switch` header, call, assignment and `return` in source order; comments, logging,
  events and error-message texts dropped) of EVERY function with a body in the files the property is
  anchored in, regenerated from /repo's working tree on every run (Gen/SkSpons.lean), equals the listing
  the model was written and validated against.  A dropped or weakened guard, a reordered effect, a
  changed operand, a new early return, a new or vanished function breaks the corresponding lemma; the
  check then searches for a failing input with the harness' monitors (DESIGN.md §12.2).
-/
import DymVerif.Gen.SkSpons
namespace DymVerif.GenEqSk.Spons

/-- `AllInvariants` -/
theorem k_AllInvariants_listing : Gen.SkSpons.k_AllInvariants =
  ["func AllInvariants(k Keeper) sdk.Invariant",
   "  return invs.All(types.ModuleName, k)"] := rfl

/-- `EpochHooks.AfterEpochEnd` -/
theorem k_EpochHooks_AfterEpochEnd_listing : Gen.SkSpons.k_EpochHooks_AfterEpochEnd =
  ["func (h EpochHooks) AfterEpochEnd(ctx sdk.Context, epochIdentifier string, _ int64) error",
   "  if epochIdentifier != h.k.incentivesKeeper.GetParams(ctx).DistrEpochIdentifier",
   "    return nil",
   "  es, err := h.k.GetAllEndorsements(ctx)",
   "  if err != nil",
   "    return fmt.Errorf(err)",
   "  for _, e := range es",
   "    e.EpochShares = e.TotalShares",
   "    err = h.k.SaveEndorsement(ctx, e)",
   "    if err != nil",
   "      return fmt.Errorf(e.RollappId, err)",
   "  err = h.k.RefreshClaimBlacklist(ctx)",
   "  if err != nil",
   "    return fmt.Errorf(err)",
   "  return nil"] := rfl

/-- `EpochHooks.BeforeEpochStart` -/
theorem k_EpochHooks_BeforeEpochStart_listing : Gen.SkSpons.k_EpochHooks_BeforeEpochStart =
  ["func (h EpochHooks) BeforeEpochStart(sdk.Context, string, int64) error",
   "  return nil"] := rfl

/-- `InvariantDelegatorValidatorPower` -/
theorem k_InvariantDelegatorValidatorPower_listing : Gen.SkSpons.k_InvariantDelegatorValidatorPower =
  ["func InvariantDelegatorValidatorPower(k Keeper) uinv.Func",
   "  return uinv.AnyErrorIsBreaking(func#1)",
   "    func#1 (ctx sdk.Context) error",
   "      var errs []error",
   "      err := k.delegatorValidatorPower.Walk(ctx, nil, func#2)",
   "        func#2 (key collections.Pair[sdk.AccAddress, sdk.ValAddress], value math.Int) (stop bool, err error)",
   "          if value.IsNegative()",
   "            errs = append(errs, fmt.Errorf(value))",
   "          return false, nil",
   "      if err != nil",
   "        return fmt.Errorf(err)",
   "      return errors.Join(errs...)"] := rfl

/-- `InvariantDistribution` -/
theorem k_InvariantDistribution_listing : Gen.SkSpons.k_InvariantDistribution =
  ["func InvariantDistribution(k Keeper) uinv.Func",
   "  return uinv.AnyErrorIsBreaking(func#1)",
   "    func#1 (ctx sdk.Context) error",
   "      d, err := k.GetDistribution(ctx)",
   "      if err != nil",
   "        return fmt.Errorf(err)",
   "      return d.Validate()"] := rfl

/-- `InvariantGeneral` -/
theorem k_InvariantGeneral_listing : Gen.SkSpons.k_InvariantGeneral =
  ["func InvariantGeneral(k Keeper) uinv.Func",
   "  return uinv.AnyErrorIsBreaking(func#1)",
   "    func#1 (ctx sdk.Context) error",
   "      totalVP := math.ZeroInt()",
   "      err := k.delegatorValidatorPower.Walk(ctx, nil, func#2)",
   "        func#2 (key collections.Pair[sdk.AccAddress, sdk.ValAddress], value math.Int) (stop bool, err error)",
   "          totalVP = totalVP.Add(value)",
   "          return false, nil",
   "      if err != nil",
   "        return fmt.Errorf(err)",
   "      distribution, err := k.GetDistribution(ctx)",
   "      if err != nil",
   "        return fmt.Errorf(err)",
   "      if !totalVP.Equal(distribution.VotingPower)",
   "        return fmt.Errorf(totalVP, distribution.VotingPower)",
   "      expectedDistribution := types.NewDistribution()",
   "      err = k.IterateVotes(ctx, func#3)",
   "        func#3 (voter sdk.AccAddress, vote types.Vote) (stop bool, err error)",
   "          expectedDistribution = expectedDistribution.Merge(vote.ToDistribution())",
   "          return false, nil",
   "      if err != nil",
   "        return fmt.Errorf(err)",
   "      if !expectedDistribution.Equal(distribution)",
   "        return fmt.Errorf()",
   "      return nil"] := rfl

/-- `InvariantVotes` -/
theorem k_InvariantVotes_listing : Gen.SkSpons.k_InvariantVotes =
  ["func InvariantVotes(k Keeper) uinv.Func",
   "  return uinv.AnyErrorIsBreaking(func#1)",
   "    func#1 (ctx sdk.Context) error",
   "      var errs []error",
   "      err := k.IterateVotes(ctx, func#2)",
   "        func#2 (voter sdk.AccAddress, vote types.Vote) (bool, error)",
   "          errs = append(errs, vote.Validate())",
   "          return false, nil",
   "      errs = append(errs, err)",
   "      return errors.Join(errs...)"] := rfl

/-- `Keeper.BlacklistClaim` -/
theorem k_Keeper_BlacklistClaim_listing : Gen.SkSpons.k_Keeper_BlacklistClaim =
  ["func (k Keeper) BlacklistClaim(ctx sdk.Context, addr sdk.AccAddress) error",
   "  return k.claimBlacklist.Set(ctx, addr)"] := rfl

/-- `Keeper.CanClaim` -/
theorem k_Keeper_CanClaim_listing : Gen.SkSpons.k_Keeper_CanClaim =
  ["func (k Keeper) CanClaim(ctx sdk.Context, addr sdk.AccAddress) (bool, error)",
   "  blacklisted, err := k.claimBlacklist.Has(ctx, addr)",
   "  if err != nil",
   "    return false, fmt.Errorf(err)",
   "  voted, err := k.votes.Has(ctx, addr)",
   "  if err != nil",
   "    return false, fmt.Errorf(err)",
   "  return !blacklisted && voted, err"] := rfl

/-- `Keeper.Claim` -/
theorem k_Keeper_Claim_listing : Gen.SkSpons.k_Keeper_Claim =
  ["func (k Keeper) Claim(ctx sdk.Context, claimer sdk.AccAddress, gaugeId uint64) error",
   "  ok, err := k.CanClaim(ctx, claimer)",
   "  if err != nil",
   "    return fmt.Errorf(err)",
   "  if !ok",
   "    return fmt.Errorf(claimer)",
   "  result, err := k.EstimateClaim(ctx, claimer, gaugeId)",
   "  if err != nil",
   "    return fmt.Errorf(err)",
   "  err = k.incentivesKeeper.DistributeEndorsementRewards(ctx, claimer, gaugeId, result.Rewards)",
   "  if err != nil",
   "    return fmt.Errorf(err)",
   "  err = k.BlacklistClaim(ctx, claimer)",
   "  if err != nil",
   "    return fmt.Errorf(err)",
   "  return nil"] := rfl

/-- `Keeper.DeleteDelegatorPower` -/
theorem k_Keeper_DeleteDelegatorPower_listing : Gen.SkSpons.k_Keeper_DeleteDelegatorPower =
  ["func (k Keeper) DeleteDelegatorPower(ctx sdk.Context, voterAddr sdk.AccAddress) error",
   "  rng := collections.NewPrefixedPairRange[sdk.AccAddress, sdk.ValAddress](voterAddr)",
   "  return k.delegatorValidatorPower.Clear(ctx, rng)"] := rfl

/-- `Keeper.DeleteDelegatorValidatorPower` -/
theorem k_Keeper_DeleteDelegatorValidatorPower_listing : Gen.SkSpons.k_Keeper_DeleteDelegatorValidatorPower =
  ["func (k Keeper) DeleteDelegatorValidatorPower(ctx sdk.Context, voterAddr sdk.AccAddress, valAddr sdk.ValAddress) error",
   "  return k.delegatorValidatorPower.Remove(ctx, collections.Join(voterAddr, valAddr))"] := rfl

/-- `Keeper.DeleteVote` -/
theorem k_Keeper_DeleteVote_listing : Gen.SkSpons.k_Keeper_DeleteVote =
  ["func (k Keeper) DeleteVote(ctx sdk.Context, voterAddr sdk.AccAddress) error",
   "  return k.votes.Remove(ctx, voterAddr)"] := rfl

/-- `Keeper.EpochHooks` -/
theorem k_Keeper_EpochHooks_listing : Gen.SkSpons.k_Keeper_EpochHooks =
  ["func (k Keeper) EpochHooks() EpochHooks",
   "  return EpochHooks{k}"] := rfl

/-- `Keeper.EstimateClaim` -/
theorem k_Keeper_EstimateClaim_listing : Gen.SkSpons.k_Keeper_EstimateClaim =
  ["func (k Keeper) EstimateClaim(ctx sdk.Context, claimer sdk.AccAddress, gaugeId uint64) (EstimateClaimResult, error)",
   "  gauge, err := k.incentivesKeeper.GetGaugeByID(ctx, gaugeId)",
   "  if err != nil",
   "    return EstimateClaimResult{}, fmt.Errorf(err)",
   "  eGauge, ok := gauge.DistributeTo.(*incentivestypes.Gauge_Endorsement)",
   "  if !ok",
   "    return EstimateClaimResult{}, fmt.Errorf(gaugeId)",
   "  endorsement, err := k.GetEndorsement(ctx, eGauge.Endorsement.RollappId)",
   "  if err != nil",
   "    return EstimateClaimResult{}, fmt.Errorf(err)",
   "  vote, err := k.GetVote(ctx, claimer)",
   "  if err != nil",
   "    return EstimateClaimResult{}, fmt.Errorf(err)",
   "  power := vote.GetGaugePower(endorsement.RollappGaugeId)",
   "  if power.IsZero()",
   "    return EstimateClaimResult{}, fmt.Errorf(gaugeId)",
   "  var userRewards sdk.Coins",
   "  for _, reward := range eGauge.Endorsement.EpochRewards",
   "    userRewards = append(userRewards, sdk.Coin{Denom: reward.Denom, Amount: power.Mul(reward.Amount).Quo(endorsement.EpochShares)})",
   "  return EstimateClaimResult{RollappId: eGauge.Endorsement.RollappId, Rewards: userRewards, EndorsedAmount: power}, nil"] := rfl

/-- `Keeper.GetAllEndorsements` -/
theorem k_Keeper_GetAllEndorsements_listing : Gen.SkSpons.k_Keeper_GetAllEndorsements =
  ["func (k Keeper) GetAllEndorsements(ctx sdk.Context) ([]types.Endorsement, error)",
   "  iterator, err := k.raEndorsements.Iterate(ctx, nil)",
   "  if err != nil",
   "    return nil, err",
   "  defer iterator.Close()",
   "  return iterator.Values()"] := rfl

/-- `Keeper.GetDelegatorValidatorPower` -/
theorem k_Keeper_GetDelegatorValidatorPower_listing : Gen.SkSpons.k_Keeper_GetDelegatorValidatorPower =
  ["func (k Keeper) GetDelegatorValidatorPower(ctx sdk.Context, voterAddr sdk.AccAddress, valAddr sdk.ValAddress) (math.Int, error)",
   "  return k.delegatorValidatorPower.Get(ctx, collections.Join(voterAddr, valAddr))"] := rfl

/-- `Keeper.GetDistribution` -/
theorem k_Keeper_GetDistribution_listing : Gen.SkSpons.k_Keeper_GetDistribution =
  ["func (k Keeper) GetDistribution(ctx sdk.Context) (types.Distribution, error)",
   "  return k.distribution.Get(ctx)"] := rfl

/-- `Keeper.GetEndorsement` -/
theorem k_Keeper_GetEndorsement_listing : Gen.SkSpons.k_Keeper_GetEndorsement =
  ["func (k Keeper) GetEndorsement(ctx sdk.Context, rollappID string) (types.Endorsement, error)",
   "  return k.raEndorsements.Get(ctx, rollappID)"] := rfl

/-- `Keeper.GetParams` -/
theorem k_Keeper_GetParams_listing : Gen.SkSpons.k_Keeper_GetParams =
  ["func (k Keeper) GetParams(ctx context.Context) (types.Params, error)",
   "  return k.params.Get(ctx)"] := rfl

/-- `Keeper.GetValidatorBreakdown` -/
theorem k_Keeper_GetValidatorBreakdown_listing : Gen.SkSpons.k_Keeper_GetValidatorBreakdown =
  ["func (k Keeper) GetValidatorBreakdown(ctx sdk.Context, voter sdk.AccAddress) (ValidatorBreakdown, error)",
   "  var err error",
   "  totalPower := math.ZeroInt()",
   "  breakdown := make([]ValidatorPower, 0)",
   "  const Break = true",
   "  const Continue = false",
   "  k.stakingKeeper.IterateDelegatorDelegations(ctx, voter, func#1)",
   "    func#1 (d stakingtypes.Delegation) (stop bool)",
   "      var valAddr sdk.ValAddress",
   "      valAddr, err = sdk.ValAddressFromBech32(d.GetValidatorAddr())",
   "      if err != nil",
   "        err = fmt.Errorf(d.GetValidatorAddr(), err)",
   "        return Break",
   "      var v stakingtypes.Validator",
   "      v, err = k.stakingKeeper.GetValidator(ctx, valAddr)",
   "      if err != nil",
   "        err = fmt.Errorf(valAddr, err)",
   "        return Break",
   "      votingPower := v.TokensFromShares(d.GetShares()).TruncateInt()",
   "      totalPower = totalPower.Add(votingPower)",
   "      breakdown = append(breakdown, ValidatorPower{ValAddr: valAddr, Power: votingPower})",
   "      return Continue",
   "  if err != nil",
   "    return ValidatorBreakdown{}, fmt.Errorf(err)",
   "  return ValidatorBreakdown{TotalPower: totalPower, Breakdown: breakdown}, nil"] := rfl

/-- `Keeper.GetVote` -/
theorem k_Keeper_GetVote_listing : Gen.SkSpons.k_Keeper_GetVote =
  ["func (k Keeper) GetVote(ctx sdk.Context, voterAddr sdk.AccAddress) (types.Vote, error)",
   "  return k.votes.Get(ctx, voterAddr)"] := rfl

/-- `Keeper.HasDelegatorValidatorPower` -/
theorem k_Keeper_HasDelegatorValidatorPower_listing : Gen.SkSpons.k_Keeper_HasDelegatorValidatorPower =
  ["func (k Keeper) HasDelegatorValidatorPower(ctx sdk.Context, voterAddr sdk.AccAddress, valAddr sdk.ValAddress) (bool, error)",
   "  return k.delegatorValidatorPower.Has(ctx, collections.Join(voterAddr, valAddr))"] := rfl

/-- `Keeper.HasEndorsement` -/
theorem k_Keeper_HasEndorsement_listing : Gen.SkSpons.k_Keeper_HasEndorsement =
  ["func (k Keeper) HasEndorsement(ctx sdk.Context, rollappID string) (bool, error)",
   "  return k.raEndorsements.Has(ctx, rollappID)"] := rfl

/-- `Keeper.IterateDelegatorValidatorPower` -/
theorem k_Keeper_IterateDelegatorValidatorPower_listing : Gen.SkSpons.k_Keeper_IterateDelegatorValidatorPower =
  ["func (k Keeper) IterateDelegatorValidatorPower(ctx sdk.Context, voterAddr sdk.AccAddress, fn func(valAddr sdk.ValAddress, power math.Int) (stop bool, err error)) error",
   "  rng := collections.NewPrefixedPairRange[sdk.AccAddress, sdk.ValAddress](voterAddr)",
   "  iterator, err := k.delegatorValidatorPower.Iterate(ctx, rng)",
   "  if err != nil",
   "    return err",
   "  defer iterator.Close()",
   "  for ; iterator.Valid(); iterator.Next()",
   "    kv, err := iterator.KeyValue()",
   "    if err != nil",
   "      return err",
   "    stop, err := fn(kv.Key.K2(), kv.Value)",
   "    if err != nil",
   "      return err",
   "    if stop",
   "      return nil",
   "  return nil"] := rfl

/-- `Keeper.IterateVotes` -/
theorem k_Keeper_IterateVotes_listing : Gen.SkSpons.k_Keeper_IterateVotes =
  ["func (k Keeper) IterateVotes(ctx sdk.Context, fn func(voter sdk.AccAddress, vote types.Vote) (stop bool, err error)) error",
   "  iterator, err := k.votes.Iterate(ctx, nil)",
   "  if err != nil",
   "    return err",
   "  defer iterator.Close()",
   "  for ; iterator.Valid(); iterator.Next()",
   "    kv, err := iterator.KeyValue()",
   "    if err != nil",
   "      return err",
   "    stop, err := fn(kv.Key, kv.Value)",
   "    if err != nil",
   "      return err",
   "    if stop",
   "      return nil",
   "  return nil"] := rfl

/-- `Keeper.RefreshClaimBlacklist` -/
theorem k_Keeper_RefreshClaimBlacklist_listing : Gen.SkSpons.k_Keeper_RefreshClaimBlacklist =
  ["func (k Keeper) RefreshClaimBlacklist(ctx sdk.Context) error",
   "  return k.claimBlacklist.Clear(ctx, nil)"] := rfl

/-- `Keeper.RevokeVote` -/
theorem k_Keeper_RevokeVote_listing : Gen.SkSpons.k_Keeper_RevokeVote =
  ["func (k Keeper) RevokeVote(ctx sdk.Context, voter sdk.AccAddress) (types.Distribution, error)",
   "  vote, err := k.GetVote(ctx, voter)",
   "  if err != nil",
   "    return types.Distribution{}, fmt.Errorf(err)",
   "  return k.revokeVote(ctx, voter, vote)"] := rfl

/-- `Keeper.SaveDelegatorValidatorPower` -/
theorem k_Keeper_SaveDelegatorValidatorPower_listing : Gen.SkSpons.k_Keeper_SaveDelegatorValidatorPower =
  ["func (k Keeper) SaveDelegatorValidatorPower(ctx sdk.Context, voterAddr sdk.AccAddress, valAddr sdk.ValAddress, power math.Int) error",
   "  return k.delegatorValidatorPower.Set(ctx, collections.Join(voterAddr, valAddr), power)"] := rfl

/-- `Keeper.SaveDistribution` -/
theorem k_Keeper_SaveDistribution_listing : Gen.SkSpons.k_Keeper_SaveDistribution =
  ["func (k Keeper) SaveDistribution(ctx sdk.Context, d types.Distribution) error",
   "  return k.distribution.Set(ctx, d)"] := rfl

/-- `Keeper.SaveEndorsement` -/
theorem k_Keeper_SaveEndorsement_listing : Gen.SkSpons.k_Keeper_SaveEndorsement =
  ["func (k Keeper) SaveEndorsement(ctx sdk.Context, e types.Endorsement) error",
   "  return k.raEndorsements.Set(ctx, e.RollappId, e)"] := rfl

/-- `Keeper.SaveVote` -/
theorem k_Keeper_SaveVote_listing : Gen.SkSpons.k_Keeper_SaveVote =
  ["func (k Keeper) SaveVote(ctx sdk.Context, voterAddr sdk.AccAddress, v types.Vote) error",
   "  return k.votes.Set(ctx, voterAddr, v)"] := rfl

/-- `Keeper.SetParams` -/
theorem k_Keeper_SetParams_listing : Gen.SkSpons.k_Keeper_SetParams =
  ["func (k Keeper) SetParams(ctx context.Context, params types.Params) error",
   "  return k.params.Set(ctx, params)"] := rfl

/-- `Keeper.StakingHooks` -/
theorem k_Keeper_StakingHooks_listing : Gen.SkSpons.k_Keeper_StakingHooks =
  ["func (k Keeper) StakingHooks() StakingHooks",
   "  return StakingHooks{k: k}"] := rfl

/-- `Keeper.UpdateDistribution` -/
theorem k_Keeper_UpdateDistribution_listing : Gen.SkSpons.k_Keeper_UpdateDistribution =
  ["func (k Keeper) UpdateDistribution(ctx sdk.Context, fn func(types.Distribution) types.Distribution) (types.Distribution, error)",
   "  current, err := k.GetDistribution(ctx)",
   "  if err != nil",
   "    return types.Distribution{}, fmt.Errorf(err)",
   "  result := fn(current)",
   "  err = k.SaveDistribution(ctx, result)",
   "  if err != nil",
   "    return types.Distribution{}, fmt.Errorf(err)",
   "  return result, nil"] := rfl

/-- `Keeper.UpdateEndorsement` -/
theorem k_Keeper_UpdateEndorsement_listing : Gen.SkSpons.k_Keeper_UpdateEndorsement =
  ["func (k Keeper) UpdateEndorsement(ctx sdk.Context, rollappID string, updates ...types.EndorsementUpdateFn) error",
   "  current, err := k.GetEndorsement(ctx, rollappID)",
   "  if err != nil",
   "    return fmt.Errorf(err)",
   "  for _, update := range updates",
   "    current = update(current)",
   "  err = k.SaveEndorsement(ctx, current)",
   "  if err != nil",
   "    return fmt.Errorf(err)",
   "  return nil"] := rfl

/-- `Keeper.UpdateTotalSharesWithDistribution` -/
theorem k_Keeper_UpdateTotalSharesWithDistribution_listing : Gen.SkSpons.k_Keeper_UpdateTotalSharesWithDistribution =
  ["func (k Keeper) UpdateTotalSharesWithDistribution(ctx sdk.Context, update types.Distribution) error",
   "  for _, weight := range update.Gauges",
   "    gauge, _ := k.incentivesKeeper.GetGaugeByID(ctx, weight.GaugeId)",
   "    raGauge, ok := gauge.DistributeTo.(*incentivestypes.Gauge_Rollapp)",
   "    if !ok",
   "      continue",
   "    err := k.UpdateEndorsement(ctx, raGauge.Rollapp.RollappId, types.AddTotalShares(weight.Power))",
   "    if err != nil",
   "      return fmt.Errorf(raGauge.Rollapp.RollappId, err)",
   "  return nil"] := rfl

/-- `Keeper.Vote` -/
theorem k_Keeper_Vote_listing : Gen.SkSpons.k_Keeper_Vote =
  ["func (k Keeper) Vote(ctx sdk.Context, voter sdk.AccAddress, weights []types.GaugeWeight) (types.Vote, types.Distribution, error)",
   "  params, err := k.GetParams(ctx)",
   "  if err != nil",
   "    return types.Vote{}, types.Distribution{}, fmt.Errorf(err)",
   "  err = k.validateWeights(ctx, weights, params.MinAllocationWeight)",
   "  if err != nil",
   "    return types.Vote{}, types.Distribution{}, fmt.Errorf(err)",
   "  voted, err := k.Voted(ctx, voter)",
   "  if err != nil",
   "    return types.Vote{}, types.Distribution{}, fmt.Errorf(err)",
   "  if voted",
   "    _, err := k.RevokeVote(ctx, voter)",
   "    if err != nil",
   "      return types.Vote{}, types.Distribution{}, fmt.Errorf(err)",
   "  vpBreakdown, err := k.GetValidatorBreakdown(ctx, voter)",
   "  if err != nil",
   "    return types.Vote{}, types.Distribution{}, fmt.Errorf(err)",
   "  if vpBreakdown.TotalPower.LT(params.MinVotingPower)",
   "    return types.Vote{}, types.Distribution{}, fmt.Errorf(vpBreakdown.TotalPower, params.MinVotingPower)",
   "  update := types.ApplyWeights(vpBreakdown.TotalPower, weights)",
   "  distr, err := k.UpdateDistribution(ctx, update.Merge)",
   "  if err != nil",
   "    return types.Vote{}, types.Distribution{}, fmt.Errorf(err)",
   "  err = k.UpdateTotalSharesWithDistribution(ctx, update)",
   "  if err != nil",
   "    return types.Vote{}, types.Distribution{}, fmt.Errorf(err)",
   "  vote := types.Vote{VotingPower: vpBreakdown.TotalPower, Weights: weights}",
   "  err = k.SaveVote(ctx, voter, vote)",
   "  if err != nil",
   "    return types.Vote{}, types.Distribution{}, fmt.Errorf(err)",
   "  err = k.BlacklistClaim(ctx, voter)",
   "  if err != nil",
   "    return types.Vote{}, types.Distribution{}, fmt.Errorf(err)",
   "  for _, valPower := range vpBreakdown.Breakdown",
   "    err = k.SaveDelegatorValidatorPower(ctx, voter, valPower.ValAddr, valPower.Power)",
   "    if err != nil",
   "      return types.Vote{}, types.Distribution{}, fmt.Errorf(err)",
   "  return vote, distr, nil"] := rfl

/-- `Keeper.Voted` -/
theorem k_Keeper_Voted_listing : Gen.SkSpons.k_Keeper_Voted =
  ["func (k Keeper) Voted(ctx sdk.Context, voterAddr sdk.AccAddress) (bool, error)",
   "  return k.votes.Has(ctx, voterAddr)"] := rfl

/-- `Keeper.revokeVote` -/
theorem k_Keeper_revokeVote_listing : Gen.SkSpons.k_Keeper_revokeVote =
  ["func (k Keeper) revokeVote(ctx sdk.Context, voter sdk.AccAddress, vote types.Vote) (types.Distribution, error)",
   "  update := vote.ToDistribution().Negate()",
   "  d, err := k.UpdateDistribution(ctx, update.Merge)",
   "  if err != nil",
   "    return types.Distribution{}, fmt.Errorf(err)",
   "  err = k.UpdateTotalSharesWithDistribution(ctx, update)",
   "  if err != nil",
   "    return types.Distribution{}, fmt.Errorf(err)",
   "  err = k.DeleteVote(ctx, voter)",
   "  if err != nil",
   "    return types.Distribution{}, fmt.Errorf(err)",
   "  err = k.DeleteDelegatorPower(ctx, voter)",
   "  if err != nil",
   "    return types.Distribution{}, fmt.Errorf(err)",
   "  return d, nil"] := rfl

/-- `Keeper.validateWeights` -/
theorem k_Keeper_validateWeights_listing : Gen.SkSpons.k_Keeper_validateWeights =
  ["func (k Keeper) validateWeights(ctx sdk.Context, weights []types.GaugeWeight, minAllocationWeight math.Int) error",
   "  for _, weight := range weights",
   "    if weight.Weight.LT(minAllocationWeight)",
   "      return fmt.Errorf(weight.Weight, minAllocationWeight)",
   "    gauge, err := k.incentivesKeeper.GetGaugeByID(ctx, weight.GaugeId)",
   "    if err != nil",
   "      return fmt.Errorf(weight.GaugeId, err)",
   "    if !gauge.IsPerpetual",
   "      return fmt.Errorf(weight.GaugeId)",
   "  return nil"] := rfl

/-- `MsgServer.ClaimRewards` -/
theorem k_MsgServer_ClaimRewards_listing : Gen.SkSpons.k_MsgServer_ClaimRewards =
  ["func (m MsgServer) ClaimRewards(goCtx context.Context, msg *types.MsgClaimRewards) (*types.MsgClaimRewardsResponse, error)",
   "  err := msg.ValidateBasic()",
   "  if err != nil",
   "    return nil, err",
   "  sender := sdk.MustAccAddressFromBech32(msg.Sender)",
   "  err = m.k.Claim(ctx, sender, msg.GaugeId)",
   "  if err != nil",
   "    return nil, err",
   "  return &types.MsgClaimRewardsResponse{}, nil"] := rfl

/-- `MsgServer.RevokeVote` -/
theorem k_MsgServer_RevokeVote_listing : Gen.SkSpons.k_MsgServer_RevokeVote =
  ["func (m MsgServer) RevokeVote(goCtx context.Context, msg *types.MsgRevokeVote) (*types.MsgRevokeVoteResponse, error)",
   "  err := msg.ValidateBasic()",
   "  if err != nil",
   "    return nil, err",
   "  voter := sdk.MustAccAddressFromBech32(msg.Voter)",
   "  _, err = m.k.RevokeVote(ctx, voter)",
   "  if err != nil",
   "    return nil, err",
   "  return &types.MsgRevokeVoteResponse{}, nil"] := rfl

/-- `MsgServer.UpdateParams` -/
theorem k_MsgServer_UpdateParams_listing : Gen.SkSpons.k_MsgServer_UpdateParams =
  ["func (m MsgServer) UpdateParams(ctx context.Context, msg *types.MsgUpdateParams) (*types.MsgUpdateParamsResponse, error)",
   "  err := msg.ValidateBasic()",
   "  if err != nil",
   "    return nil, err",
   "  if msg.Authority != m.k.authority",
   "    return nil, sdkerrors.ErrorInvalidSigner",
   "  oldParams, err := m.k.GetParams(ctx)",
   "  if err != nil",
   "    return nil, err",
   "  err = m.k.SetParams(ctx, msg.NewParams)",
   "  if err != nil",
   "    return nil, err",
   "  return &types.MsgUpdateParamsResponse{}, nil"] := rfl

/-- `MsgServer.Vote` -/
theorem k_MsgServer_Vote_listing : Gen.SkSpons.k_MsgServer_Vote =
  ["func (m MsgServer) Vote(goCtx context.Context, msg *types.MsgVote) (*types.MsgVoteResponse, error)",
   "  err := msg.ValidateBasic()",
   "  if err != nil",
   "    return nil, err",
   "  voter := sdk.MustAccAddressFromBech32(msg.Voter)",
   "  _, _, err = m.k.Vote(ctx, voter, msg.Weights)",
   "  if err != nil",
   "    return nil, err",
   "  return &types.MsgVoteResponse{}, nil"] := rfl

/-- `NewMsgServer` -/
theorem k_NewMsgServer_listing : Gen.SkSpons.k_NewMsgServer =
  ["func NewMsgServer(k Keeper) MsgServer",
   "  return MsgServer{k: k}"] := rfl

/-- `RegisterInvariants` -/
theorem k_RegisterInvariants_listing : Gen.SkSpons.k_RegisterInvariants =
  ["func RegisterInvariants(ir sdk.InvariantRegistry, k Keeper)",
   "  invs.RegisterInvariants(types.ModuleName, ir, k)"] := rfl

/-- `StakingHooks.AfterDelegationModified` -/
theorem k_StakingHooks_AfterDelegationModified_listing : Gen.SkSpons.k_StakingHooks_AfterDelegationModified =
  ["func (h StakingHooks) AfterDelegationModified(goCtx context.Context, delAddr sdk.AccAddress, valAddr sdk.ValAddress) error",
   "  err := h.afterDelegationModified(ctx, delAddr, valAddr)",
   "  if err != nil",
   "    return fmt.Errorf(delAddr, valAddr, err)",
   "  return nil"] := rfl

/-- `StakingHooks.AfterUnbondingInitiated` -/
theorem k_StakingHooks_AfterUnbondingInitiated_listing : Gen.SkSpons.k_StakingHooks_AfterUnbondingInitiated =
  ["func (StakingHooks) AfterUnbondingInitiated(context.Context, uint64) error",
   "  return nil"] := rfl

/-- `StakingHooks.AfterValidatorBeginUnbonding` -/
theorem k_StakingHooks_AfterValidatorBeginUnbonding_listing : Gen.SkSpons.k_StakingHooks_AfterValidatorBeginUnbonding =
  ["func (h StakingHooks) AfterValidatorBeginUnbonding(context.Context, sdk.ConsAddress, sdk.ValAddress) error",
   "  return nil"] := rfl

/-- `StakingHooks.AfterValidatorBonded` -/
theorem k_StakingHooks_AfterValidatorBonded_listing : Gen.SkSpons.k_StakingHooks_AfterValidatorBonded =
  ["func (h StakingHooks) AfterValidatorBonded(context.Context, sdk.ConsAddress, sdk.ValAddress) error",
   "  return nil"] := rfl

/-- `StakingHooks.AfterValidatorCreated` -/
theorem k_StakingHooks_AfterValidatorCreated_listing : Gen.SkSpons.k_StakingHooks_AfterValidatorCreated =
  ["func (StakingHooks) AfterValidatorCreated(context.Context, sdk.ValAddress) error",
   "  return nil"] := rfl

/-- `StakingHooks.AfterValidatorRemoved` -/
theorem k_StakingHooks_AfterValidatorRemoved_listing : Gen.SkSpons.k_StakingHooks_AfterValidatorRemoved =
  ["func (StakingHooks) AfterValidatorRemoved(context.Context, sdk.ConsAddress, sdk.ValAddress) error",
   "  return nil"] := rfl

/-- `StakingHooks.BeforeDelegationCreated` -/
theorem k_StakingHooks_BeforeDelegationCreated_listing : Gen.SkSpons.k_StakingHooks_BeforeDelegationCreated =
  ["func (StakingHooks) BeforeDelegationCreated(context.Context, sdk.AccAddress, sdk.ValAddress) error",
   "  return nil"] := rfl

/-- `StakingHooks.BeforeDelegationRemoved` -/
theorem k_StakingHooks_BeforeDelegationRemoved_listing : Gen.SkSpons.k_StakingHooks_BeforeDelegationRemoved =
  ["func (h StakingHooks) BeforeDelegationRemoved(goCtx context.Context, delAddr sdk.AccAddress, valAddr sdk.ValAddress) error",
   "  err := h.beforeDelegationRemoved(ctx, delAddr, valAddr)",
   "  if err != nil",
   "    return fmt.Errorf(delAddr, valAddr, err)",
   "  return nil"] := rfl

/-- `StakingHooks.BeforeDelegationSharesModified` -/
theorem k_StakingHooks_BeforeDelegationSharesModified_listing : Gen.SkSpons.k_StakingHooks_BeforeDelegationSharesModified =
  ["func (StakingHooks) BeforeDelegationSharesModified(context.Context, sdk.AccAddress, sdk.ValAddress) error",
   "  return nil"] := rfl

/-- `StakingHooks.BeforeValidatorModified` -/
theorem k_StakingHooks_BeforeValidatorModified_listing : Gen.SkSpons.k_StakingHooks_BeforeValidatorModified =
  ["func (StakingHooks) BeforeValidatorModified(context.Context, sdk.ValAddress) error",
   "  return nil"] := rfl

/-- `StakingHooks.BeforeValidatorSlashed` -/
theorem k_StakingHooks_BeforeValidatorSlashed_listing : Gen.SkSpons.k_StakingHooks_BeforeValidatorSlashed =
  ["func (h StakingHooks) BeforeValidatorSlashed(context.Context, sdk.ValAddress, math.LegacyDec) error",
   "  return nil"] := rfl

/-- `StakingHooks.afterDelegationModified` -/
theorem k_StakingHooks_afterDelegationModified_listing : Gen.SkSpons.k_StakingHooks_afterDelegationModified =
  ["func (h StakingHooks) afterDelegationModified(goCtx context.Context, delAddr sdk.AccAddress, valAddr sdk.ValAddress) error",
   "  voted, err := h.k.Voted(ctx, delAddr)",
   "  if err != nil",
   "    return fmt.Errorf(err)",
   "  if !voted",
   "    return nil",
   "  v, err := h.k.stakingKeeper.GetValidator(ctx, valAddr)",
   "  if err != nil",
   "    return fmt.Errorf(err)",
   "  d, err := h.k.stakingKeeper.GetDelegation(ctx, delAddr, valAddr)",
   "  if err != nil",
   "    return fmt.Errorf(err)",
   "  stakingVP := v.TokensFromShares(d.GetShares()).TruncateInt()",
   "  var sponsorshipVP math.Int",
   "  sponsorshipVP, err = h.k.GetDelegatorValidatorPower(ctx, delAddr, valAddr)",
   "  if err != nil && errors.Is(err, collections.ErrNotFound)",
   "    sponsorshipVP = math.ZeroInt()",
   "  else",
   "    if err != nil",
   "      return fmt.Errorf(err)",
   "  result, err := h.processHook(ctx, delAddr, valAddr, sponsorshipVP, stakingVP)",
   "  if err != nil",
   "    return fmt.Errorf(err)",
   "  return nil"] := rfl

/-- `StakingHooks.beforeDelegationRemoved` -/
theorem k_StakingHooks_beforeDelegationRemoved_listing : Gen.SkSpons.k_StakingHooks_beforeDelegationRemoved =
  ["func (h StakingHooks) beforeDelegationRemoved(goCtx context.Context, delAddr sdk.AccAddress, valAddr sdk.ValAddress) error",
   "  voted, err := h.k.Voted(ctx, delAddr)",
   "  if err != nil",
   "    return fmt.Errorf(err)",
   "  if !voted",
   "    return nil",
   "  sponsorshipVP, err := h.k.GetDelegatorValidatorPower(ctx, delAddr, valAddr)",
   "  if err != nil",
   "    return fmt.Errorf(err)",
   "  result, err := h.processHook(ctx, delAddr, valAddr, sponsorshipVP, math.ZeroInt())",
   "  if err != nil",
   "    return fmt.Errorf(err)",
   "  return nil"] := rfl

/-- `StakingHooks.processHook` -/
theorem k_StakingHooks_processHook_listing : Gen.SkSpons.k_StakingHooks_processHook =
  ["func (h StakingHooks) processHook(ctx sdk.Context, delAddr sdk.AccAddress, valAddr sdk.ValAddress, oldVP, newVP math.Int) (*processHookResult, error)",
   "  vote, err := h.k.GetVote(ctx, delAddr)",
   "  if err != nil",
   "    return nil, fmt.Errorf(delAddr, err)",
   "  params, err := h.k.GetParams(ctx)",
   "  if err != nil",
   "    return nil, fmt.Errorf(err)",
   "  powerDiff := newVP.Sub(oldVP)",
   "  newTotalVP := vote.VotingPower.Add(powerDiff)",
   "  minVP := params.MinVotingPower",
   "  if newTotalVP.LT(minVP)",
   "    distr, errX := h.k.revokeVote(ctx, delAddr, vote)",
   "    if errX != nil",
   "      return nil, fmt.Errorf(errX)",
   "    return &processHookResult{distribution: distr, votePruned: true, vpDiff: powerDiff, newTotal: newTotalVP}, nil",
   "  oldUpdate := vote.ToDistribution().Negate()",
   "  _, err = h.k.UpdateDistribution(ctx, oldUpdate.Merge)",
   "  if err != nil",
   "    return nil, fmt.Errorf(err)",
   "  err = h.k.UpdateTotalSharesWithDistribution(ctx, oldUpdate)",
   "  if err != nil",
   "    return nil, fmt.Errorf(err)",
   "  vote.VotingPower = newTotalVP",
   "  update := vote.ToDistribution()",
   "  distr, err := h.k.UpdateDistribution(ctx, update.Merge)",
   "  if err != nil",
   "    return nil, fmt.Errorf(err)",
   "  err = h.k.UpdateTotalSharesWithDistribution(ctx, update)",
   "  if err != nil",
   "    return nil, fmt.Errorf(err)",
   "  err = h.k.SaveVote(ctx, delAddr, vote)",
   "  if err != nil",
   "    return nil, fmt.Errorf(err)",
   "  if newVP.IsZero()",
   "    err = h.k.DeleteDelegatorValidatorPower(ctx, delAddr, valAddr)",
   "    if err != nil",
   "      return nil, fmt.Errorf(err)",
   "  else",
   "    err = h.k.SaveDelegatorValidatorPower(ctx, delAddr, valAddr, newVP)",
   "    if err != nil",
   "      return nil, fmt.Errorf(err)",
   "  return &processHookResult{distribution: distr, votePruned: false, vpDiff: powerDiff, newTotal: vote.VotingPower}, nil"] := rfl

/-- `AddTotalShares` -/
theorem t_AddTotalShares_listing : Gen.SkSpons.t_AddTotalShares =
  ["func AddTotalShares(update math.Int) EndorsementUpdateFn",
   "  return func#1",
   "    func#1 (e Endorsement) Endorsement",
   "      e.TotalShares = e.TotalShares.Add(update)",
   "      return e"] := rfl

/-- `ApplyWeights` -/
theorem t_ApplyWeights_listing : Gen.SkSpons.t_ApplyWeights =
  ["func ApplyWeights(votingPower math.Int, weights []GaugeWeight) Distribution",
   "  gauges := make(Gauges, 0, len(weights))",
   "  for _, weight := range weights",
   "    gauges = append(gauges, Gauge{GaugeId: weight.GetGaugeId(), Power: votingPower.Mul(weight.Weight).Quo(MaxAllocationWeight)})",
   "  sort.Sort(gauges)",
   "  return Distribution{VotingPower: votingPower, Gauges: gauges}"] := rfl

/-- `Distribution.Equal` -/
theorem t_Distribution_Equal_listing : Gen.SkSpons.t_Distribution_Equal =
  ["func (d Distribution) Equal(d1 Distribution) bool",
   "  return d.VotingPower.Equal(d1.VotingPower) && slices.EqualFunc(d.Gauges, d1.Gauges, func#1)",
   "    func#1 (g1 Gauge, g2 Gauge) bool",
   "      return g1.GaugeId == g2.GaugeId && g1.Power.Equal(g2.Power)"] := rfl

/-- `Distribution.Merge` -/
theorem t_Distribution_Merge_listing : Gen.SkSpons.t_Distribution_Merge =
  ["func (d Distribution) Merge(d1 Distribution) Distribution",
   "  var gauges = make(Gauges, 0, len(d.Gauges)+len(d1.Gauges))",
   "  var i = 0",
   "  var j = 0",
   "  var lhs = d.Gauges",
   "  var rhs = d1.Gauges",
   "  for i < len(lhs) && j < len(rhs)",
   "    var gauge Gauge",
   "    switch",
   "      case lhs[i].GaugeId == rhs[j].GaugeId",
   "        gauge = Gauge{GaugeId: lhs[i].GaugeId, Power: lhs[i].Power.Add(rhs[j].Power)}",
   "        i++",
   "        j++",
   "      case lhs[i].GaugeId < rhs[j].GaugeId",
   "        gauge = lhs[i]",
   "        i++",
   "      case lhs[i].GaugeId > rhs[j].GaugeId",
   "        gauge = rhs[j]",
   "        j++",
   "    if gauge.Power.IsPositive()",
   "      gauges = append(gauges, gauge)",
   "  if i != len(lhs)",
   "    gauges = append(gauges, lhs[i:]...)",
   "  if j != len(rhs)",
   "    gauges = append(gauges, rhs[j:]...)",
   "  return Distribution{VotingPower: d.VotingPower.Add(d1.VotingPower), Gauges: slices.Clip(gauges)}"] := rfl

/-- `Distribution.Negate` -/
theorem t_Distribution_Negate_listing : Gen.SkSpons.t_Distribution_Negate =
  ["func (d Distribution) Negate() Distribution",
   "  gauges := make([]Gauge, len(d.Gauges))",
   "  for i, g := range d.Gauges",
   "    gauges[i] = Gauge{GaugeId: g.GaugeId, Power: g.Power.Neg()}",
   "  return Distribution{VotingPower: d.VotingPower.Neg(), Gauges: gauges}"] := rfl

/-- `Distribution.Validate` -/
theorem t_Distribution_Validate_listing : Gen.SkSpons.t_Distribution_Validate =
  ["func (d Distribution) Validate() error",
   "  total := math.ZeroInt()",
   "  gaugeIDs := make(map[uint64]struct{}, len(d.Gauges))",
   "  for _, g := range d.Gauges",
   "    _, ok := gaugeIDs[g.GaugeId]",
   "    if ok",
   "      return ErrInvalidDistribution",
   "    gaugeIDs[g.GaugeId] = struct{}{}",
   "    if !g.Power.IsPositive()",
   "      return ErrInvalidDistribution",
   "    total = total.Add(g.Power)",
   "  if total.GT(d.VotingPower)",
   "    return ErrInvalidDistribution",
   "  if d.VotingPower.IsNegative()",
   "    return ErrInvalidDistribution",
   "  return nil"] := rfl

/-- `GaugeWeight.Validate` -/
theorem t_GaugeWeight_Validate_listing : Gen.SkSpons.t_GaugeWeight_Validate =
  ["func (g GaugeWeight) Validate() error",
   "  if !g.Weight.IsPositive()",
   "    return ErrInvalidGaugeWeight",
   "  if g.Weight.GT(MaxAllocationWeight)",
   "    return ErrInvalidGaugeWeight",
   "  return nil"] := rfl

/-- `Gauges.Len` -/
theorem t_Gauges_Len_listing : Gen.SkSpons.t_Gauges_Len =
  ["func (m Gauges) Len() int",
   "  return len(m)"] := rfl

/-- `Gauges.Less` -/
theorem t_Gauges_Less_listing : Gen.SkSpons.t_Gauges_Less =
  ["func (m Gauges) Less(i, j int) bool",
   "  return m[i].GetGaugeId() < m[j].GetGaugeId()"] := rfl

/-- `Gauges.Swap` -/
theorem t_Gauges_Swap_listing : Gen.SkSpons.t_Gauges_Swap =
  ["func (m Gauges) Swap(i, j int)",
   "  m[i], m[j] = m[j], m[i]"] := rfl

/-- `NewDistribution` -/
theorem t_NewDistribution_listing : Gen.SkSpons.t_NewDistribution =
  ["func NewDistribution() Distribution",
   "  return Distribution{VotingPower: math.ZeroInt(), Gauges: make([]Gauge, 0)}"] := rfl

/-- `NewEndorsement` -/
theorem t_NewEndorsement_listing : Gen.SkSpons.t_NewEndorsement =
  ["func NewEndorsement(rollappId string, rollappGaugeId uint64) Endorsement",
   "  return Endorsement{RollappId: rollappId, RollappGaugeId: rollappGaugeId, TotalShares: math.ZeroInt(), EpochShares: math.ZeroInt()}"] := rfl

/-- `ValidateGaugeWeights` -/
theorem t_ValidateGaugeWeights_listing : Gen.SkSpons.t_ValidateGaugeWeights =
  ["func ValidateGaugeWeights(w []GaugeWeight) error",
   "  total := math.ZeroInt()",
   "  gaugeIDs := make(map[uint64]struct{}, len(w))",
   "  for _, g := range w",
   "    err := g.Validate()",
   "    if err != nil",
   "      return ErrInvalidGaugeWeight",
   "    _, ok := gaugeIDs[g.GaugeId]",
   "    if ok",
   "      return ErrInvalidGaugeWeight",
   "    gaugeIDs[g.GaugeId] = struct{}{}",
   "    total = total.Add(g.Weight)",
   "  if total.GT(MaxAllocationWeight)",
   "    return ErrInvalidGaugeWeight",
   "  return nil"] := rfl

/-- `Vote.GetGaugePower` -/
theorem t_Vote_GetGaugePower_listing : Gen.SkSpons.t_Vote_GetGaugePower =
  ["func (v Vote) GetGaugePower(gaugeId uint64) math.Int",
   "  for _, w := range v.Weights",
   "    if w.GaugeId == gaugeId",
   "      return v.VotingPower.Mul(w.Weight).Quo(MaxAllocationWeight)",
   "  return math.ZeroInt()"] := rfl

/-- `Vote.ToDistribution` -/
theorem t_Vote_ToDistribution_listing : Gen.SkSpons.t_Vote_ToDistribution =
  ["func (v Vote) ToDistribution() Distribution",
   "  return ApplyWeights(v.VotingPower, v.Weights)"] := rfl

/-- `Vote.Validate` -/
theorem t_Vote_Validate_listing : Gen.SkSpons.t_Vote_Validate =
  ["func (v Vote) Validate() error",
   "  err := ValidateGaugeWeights(v.Weights)",
   "  if err != nil",
   "    return ErrInvalidVote",
   "  if !v.VotingPower.IsPositive()",
   "    return ErrInvalidVote",
   "  return nil"] := rfl

/-- `every function with a body in the listed files, sorted per package` -/
theorem inventory_listing : Gen.SkSpons.inventory =
  ["k_AllInvariants",
   "k_EpochHooks_AfterEpochEnd",
   "k_EpochHooks_BeforeEpochStart",
   "k_InvariantDelegatorValidatorPower",
   "k_InvariantDistribution",
   "k_InvariantGeneral",
   "k_InvariantVotes",
   "k_Keeper_BlacklistClaim",
   "k_Keeper_CanClaim",
   "k_Keeper_Claim",
   "k_Keeper_DeleteDelegatorPower",
   "k_Keeper_DeleteDelegatorValidatorPower",
   "k_Keeper_DeleteVote",
   "k_Keeper_EpochHooks",
   "k_Keeper_EstimateClaim",
   "k_Keeper_GetAllEndorsements",
   "k_Keeper_GetDelegatorValidatorPower",
   "k_Keeper_GetDistribution",
   "k_Keeper_GetEndorsement",
   "k_Keeper_GetParams",
   "k_Keeper_GetValidatorBreakdown",
   "k_Keeper_GetVote",
   "k_Keeper_HasDelegatorValidatorPower",
   "k_Keeper_HasEndorsement",
   "k_Keeper_IterateDelegatorValidatorPower",
   "k_Keeper_IterateVotes",
   "k_Keeper_RefreshClaimBlacklist",
   "k_Keeper_RevokeVote",
   "k_Keeper_SaveDelegatorValidatorPower",
   "k_Keeper_SaveDistribution",
   "k_Keeper_SaveEndorsement",
   "k_Keeper_SaveVote",
   "k_Keeper_SetParams",
   "k_Keeper_StakingHooks",
   "k_Keeper_UpdateDistribution",
   "k_Keeper_UpdateEndorsement",
   "k_Keeper_UpdateTotalSharesWithDistribution",
   "k_Keeper_Vote",
   "k_Keeper_Voted",
   "k_Keeper_revokeVote",
   "k_Keeper_validateWeights",
   "k_MsgServer_ClaimRewards",
   "k_MsgServer_RevokeVote",
   "k_MsgServer_UpdateParams",
   "k_MsgServer_Vote",
   "k_NewMsgServer",
   "k_RegisterInvariants",
   "k_StakingHooks_AfterDelegationModified",
   "k_StakingHooks_AfterUnbondingInitiated",
   "k_StakingHooks_AfterValidatorBeginUnbonding",
   "k_StakingHooks_AfterValidatorBonded",
   "k_StakingHooks_AfterValidatorCreated",
   "k_StakingHooks_AfterValidatorRemoved",
   "k_StakingHooks_BeforeDelegationCreated",
   "k_StakingHooks_BeforeDelegationRemoved",
   "k_StakingHooks_BeforeDelegationSharesModified",
   "k_StakingHooks_BeforeValidatorModified",
   "k_StakingHooks_BeforeValidatorSlashed",
   "k_StakingHooks_afterDelegationModified",
   "k_StakingHooks_beforeDelegationRemoved",
   "k_StakingHooks_processHook",
   "t_AddTotalShares",
   "t_ApplyWeights",
   "t_Distribution_Equal",
   "t_Distribution_Merge",
   "t_Distribution_Negate",
   "t_Distribution_Validate",
   "t_GaugeWeight_Validate",
   "t_Gauges_Len",
   "t_Gauges_Less",
   "t_Gauges_Swap",
   "t_NewDistribution",
   "t_NewEndorsement",
   "t_ValidateGaugeWeights",
   "t_Vote_GetGaugePower",
   "t_Vote_ToDistribution",
   "t_Vote_Validate"] := rfl

end DymVerif.GenEqSk.Spons
