/-
  Lemmas/IncentExactState — the exact accounting carried to the STORE: `strDistribute_core_eq`.
  One pass of x/streamer `Keeper.Distribute` (EndBlock: any budget; epoch end: unlimited) leaves, for every stream
  handed in,   distributed' + pendId(pointer') = distributed + pendId(pointer)   — EQUALITY (Lemmas/IncentBound has ≤),
  provided every record names a live gauge (`LiveRec`) and the three stored pointers are resumable (`PtrsOKe`);
  the pointers it stores are resumable again, and the unlimited pass of the epoch end leaves nothing pending.
-/
import DymVerif.Lemmas.IncentExactId
namespace DymVerif.Incent
open DymVerif Coins

/-- every stored epoch pointer is resumable w.r.t. the iterated list -/
def PtrsOK (E : Nat → Prop) (data : List SView) (ps : List Pointer) : Prop := ∀ e, E e → PtrOK data (ps.getD e Pointer.last)
/-- … of the epoch identifiers in `E` (all three for the EndBlock, the ending one for the epoch-end flush) -/
def PtrsOKe (E : Nat → Prop) (data : List SView) (ps : List Pointer) : Prop := ∀ e, E e → PtrOKe data e (ps.getD e Pointer.last)

theorem PtrsOKe.ok {E : Nat → Prop} {data : List SView} {ps : List Pointer} (h : PtrsOKe E data ps) : PtrsOK E data ps := fun e he => (h e he).ok

theorem getD_set_cases (ps : List Pointer) (e e' : Nat) (p' : Pointer) :
    ((ps.set e p').getD e' Pointer.last = p' ∧ e = e') ∨ (ps.set e p').getD e' Pointer.last = ps.getD e' Pointer.last := by
  by_cases he : e = e'
  · subst he
    by_cases hl : e < ps.length
    · left; simp [List.getD_eq_getElem?_getD, hl]
    · right
      rw [List.getD_eq_getElem?_getD, List.getElem?_eq_none (by rw [List.length_set]; omega),
        List.getD_eq_getElem?_getD, List.getElem?_eq_none (by omega)]
  · right
    simp only [List.getD_eq_getElem?_getD]
    rw [List.getElem?_set_ne he]

/-- the pointer loop only stores pointers it can resume from -/
theorem ptrLoop_ptrsOKe (E : Nat → Prop) (s : State) (maxOps : Nat) : ∀ (es : List Nat) (total : Nat) (c : Caches) (ps : List Pointer), GoodCache c →
    PtrsOKe E (c.streams.map Stream.view) ps → PtrsOKe E (c.streams.map Stream.view) (ptrLoop s maxOps es total c ps).2.2 := by
  intro es
  induction es with
  | nil => intro total c ps _ h; exact h
  | cons e rest ih =>
    intro total c ps hgc hp
    unfold ptrLoop
    by_cases hb : total ≥ maxOps
    · rw [if_pos hb]; exact hp
    · rw [if_neg hb]
      simp only
      have g1 := (iterate_window s e (ps.getD e Pointer.last) (maxOps - total) c hgc).1
      have hpt := iterate_ptr (c.streams.map Stream.view) e (ps.getD e Pointer.last) (maxOps - total) (rewardsCb s) c
      obtain ⟨p', iters, c', hit⟩ : ∃ p' iters c', iterateEpochPointer (c.streams.map Stream.view) e (ps.getD e Pointer.last) (maxOps - total) (rewardsCb s) c = (p', iters, c') := ⟨_, _, _, rfl⟩
      rw [hit] at g1 hpt ⊢
      simp only at g1 hpt ⊢
      have hv := view_of_grown g1
      have hp' : PtrsOKe E (c'.streams.map Stream.view) (ps.set e p') := by
        intro e' hE
        rw [hv]
        rcases getD_set_cases ps e e' p' with ⟨h, he⟩ | h
        · rw [h, hpt, ← he]; exact ptrOKe_ptrOf _ e hgc.sortedData _
        · rw [h]; exact hp e' hE
      have := ih (total + iters) c' (ps.set e p') (hgc.of_grown g1) hp'
      rw [hv] at this
      exact this

theorem Qv_eq_QR (c : Caches) (ps : List Pointer) (hgc : GoodCache c) (k : Nat) (hk : k < c.streams.length)
    (hp : PtrOK (c.streams.map Stream.view) (ps.getD (slot c k).epochId Pointer.last)) (i : Nat) : Qv c ps k i = QR c ps k i := by
  unfold Qv QR
  have hkd : k < (c.streams.map Stream.view).length := by simpa using hk
  rw [pendR_eq_pendId (c.streams.map Stream.view) (slot c k).epochId _ hgc.sortedData hp k hkd (slot c k)
    (by rw [slot_eq c k hk]; simp [Stream.view]) (by rw [slot_eq c k hk]; simp [Stream.view]) (by rw [slot_eq c k hk]; simp [Stream.view]) i]

/-- **the pointer loop, every budget, in terms of the STORED pointers**: distributed + pending after the stream's own
    epoch pointer is the same before and after (equality version of `ptrLoop_window`) -/
theorem ptrLoop_exact_id (s : State) (maxOps : Nat) (es : List Nat) (total : Nat) (c : Caches) (ps : List Pointer) (hgc : GoodCache c)
    (hlive : LiveC s c) (E : Nat → Prop) (hE : ∀ st ∈ c.streams, E st.epochId) (hp : PtrsOK E (c.streams.map Stream.view) ps) :
    Grown c (ptrLoop s maxOps es total c ps).2.1 ∧
    ∀ k, k < c.streams.length → ∀ i, Qv (ptrLoop s maxOps es total c ps).2.1 (ptrLoop s maxOps es total c ps).2.2 k i = Qv c ps k i := by
  obtain ⟨g1, g2⟩ := ptrLoop_exact s maxOps es total c ps hgc hlive
  refine ⟨g1, ?_⟩
  intro k hk i
  have hk' : k < (ptrLoop s maxOps es total c ps).2.1.streams.length := by rw [g1.1]; exact hk
  have hEk : E (slot c k).epochId := by rw [slot_eq c k hk]; exact hE _ (List.getElem_mem hk)
  rw [Qv_eq_QR c ps hgc k hk (hp _ hEk) i, ← g2 k hk i]
  apply Qv_eq_QR _ _ (hgc.of_grown g1) k hk'
  rw [view_of_grown g1]
  have hEk' : E (slot (ptrLoop s maxOps es total c ps).2.1 k).epochId := by rw [slot_static g1 k hk]; exact hEk
  -- the pointers the loop stores are resumable (or untouched)
  have : ∀ (es : List Nat) (total : Nat) (c : Caches) (ps : List Pointer), GoodCache c → PtrsOK E (c.streams.map Stream.view) ps →
      PtrsOK E (c.streams.map Stream.view) (ptrLoop s maxOps es total c ps).2.2 := by
    intro es
    induction es with
    | nil => intro total c ps _ h; exact h
    | cons e rest ih =>
      intro total c ps hgc hp
      unfold ptrLoop
      by_cases hb : total ≥ maxOps
      · rw [if_pos hb]; exact hp
      · rw [if_neg hb]
        simp only
        have g1 := (iterate_window s e (ps.getD e Pointer.last) (maxOps - total) c hgc).1
        have hpt := iterate_ptr (c.streams.map Stream.view) e (ps.getD e Pointer.last) (maxOps - total) (rewardsCb s) c
        obtain ⟨p', iters, c', hit⟩ : ∃ p' iters c', iterateEpochPointer (c.streams.map Stream.view) e (ps.getD e Pointer.last) (maxOps - total) (rewardsCb s) c = (p', iters, c') := ⟨_, _, _, rfl⟩
        rw [hit] at g1 hpt ⊢
        simp only at g1 hpt ⊢
        have hv := view_of_grown g1
        have hp' : PtrsOK E (c'.streams.map Stream.view) (ps.set e p') := by
          intro e' hE'
          rw [hv]
          rcases getD_set_cases ps e e' p' with ⟨h, _⟩ | h
          · rw [h, hpt]; exact ptrOK_ptrOf _ e hgc.sortedData _
          · rw [h]; exact hp e' hE'
        have := ih (total + iters) c' (ps.set e p') (hgc.of_grown g1) hp'
        rw [hv] at this
        exact this
  exact this es total c ps hgc hp _ hEk'

/-- the weight the callback reports for an item: the number of qualifying locks of the gauge (or 1) -/
theorem rewardsCb_weight_le (s : State) (c : Caches) (v : SView) (r : Rec) : (rewardsCb s c v r).2 ≤ s.locks.length + 1 := by
  have hnum : ∀ g, gaugeLockNum s g ≤ s.locks.length + 1 := by
    intro g
    unfold gaugeLockNum
    cases hk : g.kind with
    | asset d du =>
      simp only
      unfold gaugeLocks
      rw [hk]
      simp only
      split
      · simp
      · exact Nat.le_trans (List.length_filter_le _ _) (Nat.le_succ _)
    | rollapp r => simp
  unfold rewardsCb
  repeat' (first | split | dsimp only)
  all_goals first | exact Nat.zero_le _ | exact hnum _

/-- the unlimited pass of the epoch end (budget 2^64-1, one epoch identifier) leaves nothing to be visited -/
theorem ptrLoop_flush_done (s : State) (e : Nat) (c : Caches) (ps : List Pointer) (hgc : GoodCache c)
    (hM : (s.locks.length + 1) * totalRecs (c.streams.map Stream.view) < maxU64) :
    remaining (c.streams.map Stream.view) e ((ptrLoop s maxU64 [e] 0 c ps).2.2.getD e Pointer.last) = [] := by
  have hsd := hgc.sortedData
  have hlast : remaining (c.streams.map Stream.view) e Pointer.last = [] := by
    unfold remaining; exact visits_invalid _ e _ (newIter_last _ e hsd)
  unfold ptrLoop
  have h0 : ¬ (0 ≥ maxU64) := by decide
  rw [if_neg h0]
  simp only
  have hun := (iterate_unlimited (c.streams.map Stream.view) e hsd (ps.getD e Pointer.last) (maxU64 - 0) (s.locks.length + 1)
    (rewardsCb s) c (fun acc sv r => rewardsCb_weight_le s acc sv r) (by simpa using hM)).2
  obtain ⟨p', iters, c', hit⟩ : ∃ p' iters c', iterateEpochPointer (c.streams.map Stream.view) e (ps.getD e Pointer.last) (maxU64 - 0) (rewardsCb s) c = (p', iters, c') := ⟨_, _, _, rfl⟩
  rw [hit] at hun ⊢
  simp only at hun ⊢
  unfold ptrLoop
  simp only
  by_cases hl : e < ps.length
  · have : (ps.set e p').getD e Pointer.last = p' := by simp [List.getD_eq_getElem?_getD, hl]
    rw [this]; exact hun
  · have : (ps.set e p').getD e Pointer.last = Pointer.last := by
      rw [List.getD_eq_getElem?_getD, List.getElem?_eq_none (by rw [List.length_set]; omega)]; rfl
    rw [this]; exact hlast

/-- what `strDistribute_core_eq` establishes: the values written are the cached ones, every stream handed in is
    cached, each cached value is the stored stream with `distributed + pending` unchanged, the stored pointers are
    resumable, the epoch-end pass leaves nothing to visit, the active list loses exactly the finished streams -/
def CoreEq (E : Nat → Prop) (s : State) (es : List Nat) (streams : List Stream) (maxOps : Nat) (ee : Bool) (s' : State) : Prop :=
  ∃ c : Caches,
    (∀ v ∈ c.streams, getS s'.streams v.id = some (finVal ee v)) ∧
    (∀ x ∈ streams.map (·.id), ∃ v ∈ c.streams, v.id = x) ∧
    (∀ v ∈ c.streams, ∃ st0, getS s.streams v.id = some st0 ∧ v = { st0 with distributed := v.distributed } ∧
        ∀ i, amt v.distributed i + pendId (s'.ptrs.getD v.epochId Pointer.last) v i
              = amt st0.distributed i + pendId (s.ptrs.getD st0.epochId Pointer.last) st0 i) ∧
    PtrsOKe E ((sortById streams).map Stream.view) s'.ptrs ∧
    (∀ e, e ≤ 2 → es = [e] → maxOps = maxU64 → (s.locks.length + 1) * totalRecs ((sortById streams).map Stream.view) < maxU64 →
      remaining ((sortById streams).map Stream.view) e (s'.ptrs.getD e Pointer.last) = []) ∧
    (∀ x, x ∈ s'.active.ids ↔ x ∈ s.active.ids ∧ ∀ v ∈ c.streams, v.id = x → ¬ gone ee v) ∧
    s'.streams.length = s.streams.length

theorem strDistribute_core_eq (s : State) (es : List Nat) (streams : List Stream) (maxOps : Nat) (ee : Bool) (s' : State)
    (hg : GInv s) (hs : SStruct s) (hin : GoodInput s streams)
    (hst : ∀ st ∈ streams, StrictInc (st.recs.map (·.gauge)) ∧ st.id < maxU64)
    (hlive : ∀ st ∈ streams, ∀ r ∈ st.recs, LiveRec s r)
    (E : Nat → Prop) (hE : ∀ st ∈ streams, E st.epochId)
    (hptr : PtrsOKe E ((sortById streams).map Stream.view) s.ptrs)
    (h : strDistribute s es streams maxOps ee = .ok s') : CoreEq E s es streams maxOps ee s' := by
  have hin0 := hin
  have hin := sortById_good s streams hin
  unfold strDistribute at h
  have hgc0 : GoodCache ⟨sortById streams, [], []⟩ := by
    refine ⟨hin.1, sorted_sortById streams, ?_, ?_⟩
    · intro st hm; exact (hst st ((mem_sortById streams st).1 hm)).1
    · intro st hm; exact (hst st ((mem_sortById streams st).1 hm)).2
  have hci := ptrLoop_CI s hg.ids maxOps (sortByDuration es) 0 ⟨sortById streams, [], []⟩ s.ptrs
    ⟨by simp, by simp, by intro i; simp [extras]⟩
  have hsci := ptrLoop_SCI2 s s.streams ((sortById streams).map (·.id)) maxOps (sortByDuration es) 0 ⟨sortById streams, [], []⟩ s.ptrs
    ⟨⟨hin.1, fun st hst => ⟨st, (hin.2 st hst).1, rfl, fun _ => Nat.le_refl _⟩, by
        intro i
        unfold sExtras
        apply sum_zero_of_all_zero
        intro x hx
        obtain ⟨st, hst, he⟩ := List.mem_map.1 hx
        rw [← he]; unfold sExtra storedDist; rw [(hin.2 st hst).1]; simp⟩, rfl⟩
  have hlive0 : LiveC s ⟨sortById streams, [], []⟩ := fun st hm r hr => hlive st ((mem_sortById streams st).1 hm) r hr
  have hwin := ptrLoop_exact_id s maxOps (sortByDuration es) 0 ⟨sortById streams, [], []⟩ s.ptrs hgc0 hlive0 E
    (fun st hm => hE st ((mem_sortById streams st).1 hm)) hptr.ok
  have hpk := ptrLoop_ptrsOKe E s maxOps (sortByDuration es) 0 ⟨sortById streams, [], []⟩ s.ptrs hgc0 hptr
  have hfl : ∀ e, e ≤ 2 → es = [e] → maxOps = maxU64 → (s.locks.length + 1) * totalRecs ((sortById streams).map Stream.view) < maxU64 →
      remaining ((sortById streams).map Stream.view) e
        ((ptrLoop s maxOps (sortByDuration es) 0 ⟨sortById streams, [], []⟩ s.ptrs).2.2.getD e Pointer.last) = [] := by
    intro e he h1 h2 h3
    subst h1; subst h2
    have : sortByDuration [e] = [e] := by
      have : e = 0 ∨ e = 1 ∨ e = 2 := by omega
      rcases this with a | a | a <;> (subst a; decide)
    rw [this]; exact ptrLoop_flush_done s e ⟨sortById streams, [], []⟩ s.ptrs hgc0 h3
  have hpo : ∀ e', e' ∉ es → (ptrLoop s maxOps (sortByDuration es) 0 ⟨sortById streams, [], []⟩ s.ptrs).2.2.getD e' Pointer.last = s.ptrs.getD e' Pointer.last :=
    fun e' he' => ptrLoop_ptrs_other s maxOps e' _ _ _ _ (fun hm => he' (mem_sortByDuration es e' hm))
  generalize ptrLoop s maxOps (sortByDuration es) 0 ⟨sortById streams, [], []⟩ s.ptrs = res at h hci hsci hwin hpo hpk hfl
  obtain ⟨tot, c, ps⟩ := res
  dsimp only at h hci hsci hwin hpo hpk hfl
  obtain ⟨ci1, ci2, ci3⟩ := hci
  obtain ⟨⟨sc1, sc2, sc3⟩, sc4⟩ := hsci
  obtain ⟨wg, wq⟩ := hwin
  have hne : streamerAddr ≠ incAddr := by decide
  have hidmem : ∀ x, x ∈ (sortById streams).map (·.id) ↔ x ∈ streams.map (·.id) := by
    intro x
    constructor
    · intro hm; obtain ⟨y, hy, he⟩ := List.mem_map.1 hm; rw [← he]; exact List.mem_map_of_mem (f := (·.id)) ((mem_sortById streams y).1 hy)
    · intro hm; obtain ⟨y, hy, he⟩ := List.mem_map.1 hm; rw [← he]; exact List.mem_map_of_mem (f := (·.id)) ((mem_sortById streams y).2 hy)
  have key : ∀ b : Bank, (∀ i, amt (b.get incAddr) i = amt (s.bank.get incAddr) i + amt c.distributed i) →
      ∀ s2, incDistribute { s with ptrs := ps, bank := b } c.gauges ee = .ok s2 → saveStreams ee c.streams s2 = .ok s' → CoreEq E s es streams maxOps ee s' := by
    intro b hb1 s2 hinc hsave
    obtain ⟨_, _, r3, _, _, _, _⟩ := incDistribute_spec { s with ptrs := ps, bank := b } c.gauges ee s2
      hg.ids hg.bounded ci1 ci2
      (by intro i; simp only; rw [ci3 i, hb1 i]; have := hg.solvent i; omega) hinc
    have e1 : s2.streams = s.streams := by rw [r3]
    have e2 : s2.active = s.active := by rw [r3]
    have e3 : s2.upcoming = s.upcoming := by rw [r3]
    have e4 : s2.ptrs = ps := by rw [r3]
    have e5 : s2.now = s.now := by rw [r3]
    have hs2 : SStruct s2 := SStruct_congr e1 e2 e3 hs
    have hall : ∀ st ∈ c.streams, SCoh s2.streams st ∧ st.id ∈ s2.active.ids := by
      intro st hst
      refine ⟨by rw [e1]; exact sc2 st hst, ?_⟩
      have : st.id ∈ (sortById streams).map (·.id) := by rw [← sc4]; exact List.mem_map_of_mem (f := (·.id)) hst
      obtain ⟨y, hy, he⟩ := List.mem_map.1 this
      rw [e2, ← he]; exact (hin.2 y hy).2
    obtain ⟨q1, q2, q3, q4, q5⟩ := saveStreams_exact ee c.streams s2 s' hs2 sc1 hall hsave
    have qu := (saveStreams_spec ee c.streams s2 s' hs2 sc1 hall hsave).2.2.2.1
    have qn : s'.now = s2.now := by
      have := saveStreams_same ee _ _ _ hsave
      -- `now` is not part of `Same`; it is untouched by construction
      exact saveStreams_now ee _ _ _ hsave
    refine ⟨c, q4, ?_, ?_, by rw [q1, e4]; exact hpk, by rw [q1, e4]; exact hfl, by intro x; rw [q5 x, e2], by rw [q2, e1]⟩
    · intro x hx
      have : x ∈ c.streams.map (·.id) := by rw [sc4]; exact (hidmem x).2 hx
      obtain ⟨v, hv, he⟩ := List.mem_map.1 this
      exact ⟨v, hv, he⟩
    · intro v hv
      obtain ⟨k, hk, hkv⟩ := List.getElem_of_mem hv
      have hk0 : k < (sortById streams).length := by rw [← wg.1]; exact hk
      have hq := wq k hk0
      -- slot k of the initial cache is the stored stream
      have hslot0 : slot ⟨sortById streams, [], []⟩ k = (sortById streams)[k] := slot_eq ⟨sortById streams, [], []⟩ k hk0
      have hslot : slot c k = v := by rw [slot_eq c k hk]; exact hkv
      have hmem0 : (sortById streams)[k] ∈ sortById streams := List.getElem_mem hk0
      obtain ⟨hget0, _⟩ := hin.2 _ hmem0
      have hstat := slot_static wg k hk0
      rw [hslot, hslot0] at hstat
      have hidv : v.id = ((sortById streams)[k]).id := by rw [hstat]
      refine ⟨(sortById streams)[k], by rw [hidv]; exact hget0, hstat, ?_⟩
      intro i
      have := hq i
      unfold Qv distAt at this
      rw [hslot, hslot0] at this
      have hep : v.epochId = ((sortById streams)[k]).epochId := by rw [hstat]
      rw [q1, e4, hep, pendId_static hstat]
      rw [hep, pendId_static hstat] at this
      exact this
  by_cases hz : c.distributed.isZero = true
  · simp only [hz, if_true] at h
    cases hinc : incDistribute { s with ptrs := ps, bank := s.bank } c.gauges ee with
    | error e => simp [hinc] at h
    | ok s2 =>
      simp only [hinc] at h
      exact key s.bank (by intro i; have := (isZero_iff _).1 hz i; omega) s2 hinc h
  · rw [if_neg hz] at h
    cases hsend : s.bank.send streamerAddr incAddr c.distributed with
    | none => simp [hsend] at h
    | some b =>
      simp only [hsend] at h
      obtain ⟨_, sb⟩ := Bank.send_some hsend hne
      cases hinc : incDistribute { s with ptrs := ps, bank := b } c.gauges ee with
      | error e => simp [hinc] at h
      | ok s2 =>
        simp only [hinc] at h
        refine key b ?_ s2 hinc h
        intro i
        have := sb incAddr i
        rw [if_neg (fun x => hne x.symm), if_pos rfl] at this
        exact this

end DymVerif.Incent
