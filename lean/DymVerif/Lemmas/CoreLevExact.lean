/-
  Lemmas/CoreLevExact — with consecutive blocks, every scheduled event sits *exactly* at the next
  slash height of its rollapp: `evH = nextSlashHeight N I h cdStart` between blocks, and inside a
  block either that or `evH = h` (due at this block's end).
-/
import DymVerif.Lemmas.CoreLevEnd
namespace DymVerif.Core.LevNs

/-- `d = 0`: between blocks; `d = 1`: inside a block (events due at its end are still queued) -/
structure Exact (d : Nat) (s : St) : Prop where
  ev : ∀ r ∈ s.ras, r.evH = 0 ∨ r.evH = nextSlashHeight s.p.lsBlocks s.p.lsInterval s.h r.cdStart ∨
        (d = 1 ∧ r.evH = s.h)

theorem exact_closed (d : Nat) : LClosed (Exact d) where
  of_same := by
    intro s s' h hs
    obtain ⟨e1, _, e3, e4⟩ := hs
    exact ⟨by rw [e1, e3, e4]; exact h.ev⟩
  set_same := by
    intro s id r r' h hg _ he hc
    refine ⟨?_⟩
    intro x hx
    rcases mem_setRa_ne hx with h1 | ⟨h1, _⟩
    · subst h1; rw [he, hc]; exact h.ev r (getRa_mem hg)
    · exact h.ev x h1
  indicate := by
    intro s id r h _
    refine ⟨?_⟩
    intro x hx
    rw [indicateLiveness_ras] at hx
    rcases mem_setRa_ne hx with h1 | ⟨h1, _⟩
    · subst h1; exact Or.inr (Or.inl rfl)
    · exact h.ev x h1
  reset := by
    intro s id r r' h _ _ _
    refine ⟨?_⟩
    intro x hx
    rcases mem_setRa_ne hx with h1 | ⟨h1, _⟩
    · subst h1; exact Or.inl rfl
    · exact h.ev x h1
  create := by
    intro s id o mb h _
    refine ⟨?_⟩
    intro x hx
    rcases mem_insertRa _ _ _ hx with h1 | h1
    · subst h1; exact Or.inl rfl
    · exact h.ev x h1

theorem beginBlock_exact {s : St} {dt : Nat} (hf : Fut 0 s) (h : Exact 0 s) : Exact 1 (beginBlock s dt) := by
  apply beginBlock_cl (exact_closed 1)
  refine ⟨?_⟩
  intro r hr
  show r.evH = 0 ∨ r.evH = nextSlashHeight s.p.lsBlocks s.p.lsInterval (s.h + 1) r.cdStart ∨ (1 = 1 ∧ r.evH = s.h + 1)
  have hcd := hf.cd r hr
  have hfut := nextSlashHeight_future s.p.lsBlocks s.p.lsInterval s.h r.cdStart hf.iv hcd
  rcases h.ev r hr with h1 | h1 | ⟨h1, _⟩
  · exact Or.inl h1
  · by_cases hE : r.evH = s.h + 1
    · exact Or.inr (Or.inr ⟨rfl, hE⟩)
    · right; left
      rw [nextSlashHeight_stable _ _ _ _ hf.iv hcd (by omega)]; exact h1
  · cases h1

/-- fold predicate for the block end -/
structure ExactQ (s : St) (rest : List (Nat × Nat)) : Prop where
  cust : Cust s
  ev : ∀ r ∈ s.ras, r.evH = 0 ∨ r.evH = nextSlashHeight s.p.lsBlocks s.p.lsInterval s.h r.cdStart ∨
        (r.evH, r.id) ∈ rest

theorem handle_exactQ (s : St) (e : Nat × Nat) (es : List (Nat × Nat)) (h : Lev s) (he : e ∈ s.lev) (_h1 : e.1 = s.h)
    (_ : ∀ e' ∈ es, e'.2 ≠ e.2) (hq : ExactQ s (e :: es)) : ExactQ (handleLivenessEvent s e.2) es := by
  obtain ⟨r, hg, hev⟩ := h.ev_ra e he
  obtain ⟨s1, hs⟩ := slashLiveness_ok hq.cust r
  have hsame := slashLiveness_same hs
  refine ⟨handleLivenessEvent_cust hq.cust, ?_⟩
  intro x hx
  rw [handleLivenessEvent_h, handleLivenessEvent_p]
  rw [handleLivenessEvent_eq hg hs] at hx
  rcases mem_setRa_ne hx with h2 | ⟨h2, h3⟩
  · subst h2
    right; left
    show nextSlashHeight s1.p.lsBlocks s1.p.lsInterval s1.h r.cdStart = _
    rw [hsame.peq, hsame.2.2.1]
  · have hx' : x ∈ s.ras := by rw [← hsame.1]; exact h2
    have hid : x.id ≠ e.2 := by
      intro hc; apply h3; show x.id = r.id; rw [getRa_id hg]; exact hc
    rcases hq.ev x hx' with h4 | h4 | h4
    · exact Or.inl h4
    · exact Or.inr (Or.inl h4)
    · right; right
      rcases List.mem_cons.1 h4 with h5 | h5
      · exact absurd (by rw [← h5] : x.id = e.2) hid
      · exact h5

theorem checkLiveness_exact {s : St} {d : Nat} (hl : Lev s) (hc : Cust s) (h : Exact d s) : Exact 0 (checkLiveness s) := by
  unfold checkLiveness
  have hq0 : ExactQ s (s.lev.filter (fun e => e.1 == s.h)) := by
    refine ⟨hc, ?_⟩
    intro r hr
    rcases h.ev r hr with h1 | h1 | ⟨_, h1⟩
    · exact Or.inl h1
    · exact Or.inr (Or.inl h1)
    · rcases hl.ra_ev r hr with h3 | h3
      · exact Or.inl h3
      · exact Or.inr (Or.inr (List.mem_filter.2 ⟨h3, by simp [h1]⟩))
  have := (foldl_handle ExactQ handle_exactQ _ s hl due_events (due_nodup hl) hq0).2
  refine ⟨?_⟩
  intro r hr
  rcases this.ev r hr with h1 | h1 | h1
  · exact Or.inl h1
  · exact Or.inr (Or.inl h1)
  · cases h1

theorem endBlock_exact {s : St} {d : Nat} {f : List (Nat × Nat)} (hl : Lev s) (hc : Cust s) (h : Exact d s) :
    Exact 0 (endBlock s f) := by
  unfold endBlock
  exact checkLiveness_exact (finalizeRollappStates_cl lev_closed hl)
    (hc.of_eq (finalizeRollappStates_seqs s f).1 (finalizeRollappStates_seqs s f).2)
    (finalizeRollappStates_cl (exact_closed d) h)

def ExactPh (s : St) : Option Bool → Prop
  | some true => Exact 1 s
  | some false => Exact 0 s
  | none => True

theorem step_exact {s : St} {ph : Option Bool} {o : Op} (h : LCF s ph) (hx : ExactPh s ph) :
    ExactPh (step s o).1 (phaseStep ph o) := by
  cases ph with
  | none => exact trivial
  | some b =>
    cases hm : o.isMsg with
    | true =>
      have hph : phaseStep (some b) o = some b := by
        cases o <;> first | rfl | cases hm
      rw [hph]
      unfold step
      split
      · rename_i s' e
        cases b with
        | true => exact apply_msg_cl (exact_closed 1) hx e hm
        | false => exact apply_msg_cl (exact_closed 0) hx e hm
      · exact hx
    | false =>
      cases o with
      | begin_ dt =>
        cases b with
        | true => exact trivial
        | false =>
          show Exact 1 (beginBlock s dt)
          exact beginBlock_exact h.fut hx
      | end_ f =>
        show Exact 0 (endBlock s f)
        cases b with
        | true => exact endBlock_exact h.lev h.cust hx
        | false => exact endBlock_exact h.lev h.cust hx
      | _ => cases hm

theorem foldl_exact (ops : List Op) : ∀ (s : St) (ph : Option Bool), LCF s ph → ExactPh s ph →
    ExactPh (ops.foldl (fun s o => (step s o).1) s) (ops.foldl phaseStep ph) := by
  induction ops with
  | nil => intro s ph _ h; exact h
  | cons o os ih => intro s ph h hx; exact ih _ _ (step_lcf h) (step_exact h hx)

theorem run_exact (p : Params) (hI : 1 ≤ p.lsInterval) (ops : List Op) :
    ExactPh (run p ops) (ops.foldl phaseStep (some false)) := by
  unfold run
  exact foldl_exact ops _ _ ⟨init_lev p, ⟨List.Pairwise.nil, rfl⟩, init_fut p hI⟩
    ⟨by intro r hr; simp [init] at hr⟩

/-- between blocks every scheduled event is exactly at the next slash height -/
theorem run_exact_between (p : Params) (hI : 1 ≤ p.lsInterval) (ops : List Op)
    (hph : ops.foldl phaseStep (some false) = some false) :
    ∀ r ∈ (run p ops).ras, r.evH = 0 ∨ r.evH = nextSlashHeight p.lsBlocks p.lsInterval (run p ops).h r.cdStart := by
  have := run_exact p hI ops
  rw [hph] at this
  intro r hr
  rcases this.ev r hr with h1 | h1 | ⟨h1, _⟩
  · exact Or.inl h1
  · rw [run_p] at h1; exact Or.inr h1
  · cases h1

end DymVerif.Core.LevNs
