/-
  Lemmas/IroSolvent — the solvency invariant of an unsettled plan and the per-trade potential of a
  trader (round trips), for every curve oracle `I`.

  The Newton contract is POINTWISE (`NewtonUpperAt I T L sold net`): the step lemmas (`solv_step_at`,
  `trade_potential_at`) and the run lemma (`run_potential_at`) ask for it only at the exact-spend
  purchase the step actually EXECUTES (`besPoint`), a history only at its executed purchases
  (`besPoints`).  The global contract `NewtonUpper` (every sold, every net spend — which the real
  Newton iteration does not meet on dust inputs) implies every pointwise one; the lemmas under the
  global contract (`solv_step`, `trade_potential`, `run_potential`) are kept as corollaries.
-/
import DymVerif.Lemmas.IroSteps
import DymVerif.Model.IroNewton
import Mathlib.Tactic.Linarith
namespace DymVerif.Iro
open DymVerif

/-- Newton contract, upper half, in exact (unfloored) terms: the tokens the code grants for a net
    spend cost at most that spend.  A hypothesis about the oracle `T`; monitored at run time. -/
def NewtonUpper (I : Int → Int) (T : Int → Int → Option Int) (L : Nat) : Prop :=
  ∀ sold net t, tokensForExactIn T L sold net = some t →
    pow10 L * (I (sold + t) - I sold) ≤ decP * net

/-- rational-free solvency: `10^L·(I sold − I 0) < 10^18·(balance + trades + 1)` -/
def Solv (I : Int → Int) (st : State) : Prop :=
  (st.plan = none → 0 ≤ st.planLiq) ∧
  ∀ p, st.plan = some p → p.settled = false →
    pow10 p.L * (I p.sold - I 0) < decP * (st.planLiq + st.trades + 1)

def isBes : Op → Bool
  | .bes .. => true
  | _ => false

theorem newtonUpperAtB_iff (I : Int → Int) (T : Int → Int → Option Int) (L : Nat) (sold net : Int) :
    newtonUpperAtB I T L sold net = true ↔ NewtonUpperAt I T L sold net := by
  unfold newtonUpperAtB NewtonUpperAt
  cases h : tokensForExactIn T L sold net with
  | none => simp
  | some t => simp

theorem NewtonUpper.at {I : Int → Int} {T : Int → Int → Option Int} {L : Nat} (h : NewtonUpper I T L)
    (sold net : Int) : NewtonUpperAt I T L sold net := fun t ht => h sold net t ht

/-- the contract at the point of this message (vacuous for everything but an exact-spend purchase) -/
def BesOkAt (I : Int → Int) (T : Int → Int → Option Int) (st : State) (op : Op) : Prop :=
  ∀ pt, besPoint st op = some pt → NewtonUpperAt I T pt.1 pt.2.1 pt.2.2

/-- the contract at every point of a list — the BLAME SET of a history is `besPoints` -/
def NewtonUpperOn (I : Int → Int) (T : Int → Int → Option Int) (pts : List (Nat × Int × Int)) : Prop :=
  ∀ pt ∈ pts, NewtonUpperAt I T pt.1 pt.2.1 pt.2.2

theorem NewtonUpperOn.head {I : Int → Int} {T : Int → Int → Option Int} {st : State} {o : Op} {os : List Op}
    (h : NewtonUpperOn I T (besPoints I T st (o :: os))) : (step I T st o).2 = .ok → BesOkAt I T st o := by
  intro hok pt hpt
  apply h
  simp only [besPoints, hok, if_true, List.mem_append]
  exact Or.inl (by simp [hpt])

theorem NewtonUpperOn.tail {I : Int → Int} {T : Int → Int → Option Int} {st : State} {o : Op} {os : List Op}
    (h : NewtonUpperOn I T (besPoints I T st (o :: os))) : NewtonUpperOn I T (besPoints I T (step I T st o).1 os) := by
  intro pt hpt
  apply h
  simp only [besPoints, List.mem_append]
  exact Or.inr hpt

/-- the global contract covers every history -/
theorem NewtonUpper.on {I : Int → Int} {T : Int → Int → Option Int} (st : State) (ops : List Op)
    (h : ∀ pt ∈ besPoints I T st ops, NewtonUpper I T pt.1) : NewtonUpperOn I T (besPoints I T st ops) :=
  fun pt hpt => (h pt hpt).at _ _

/-- exact bounds of a positive cost -/
theorem cost_pos_bounds {I : Int → Int} {L : Nat} {x x1 : Int} (h : 0 < cost I L x x1) :
    decP * cost I L x x1 ≤ pow10 L * (I x1 - I x) ∧ pow10 L * (I x1 - I x) < decP * (cost I L x x1 + 1) := by
  rw [cost_eq] at h ⊢
  have := tdiv_decP_pos _ h
  rw [Int.mul_comm (pow10 L)]
  exact ⟨this.2.1, this.2.2⟩

theorem solv_step_at {I : Int → Int} {T : Int → Int → Option Int} {st : State} (op : Op)
    (hs : Solv I st) (hN : (step I T st op).2 = .ok → BesOkAt I T st op) :
    Solv I (step I T st op).1 := by
  rcases step_cases I T st op with h | ⟨hact, h⟩
  · rw [h]; exact hs
  · have hB := hN (congrArg Prod.snd (step_of_exec_ok hact h))
    generalize (step I T st op).1 = st' at h
    obtain ⟨hs0, hs1⟩ := hs
    have hd := decP_pos
    cases op with
    | create alloc m n c L en stt pd lp vd vs =>
      obtain ⟨hc, rfl⟩ := doCreate_ok h
      unfold createOk at hc
      obtain ⟨-, -, -, -, -, -, -, -, -, -, hn, -, -, -, -, -, -, hcp, -⟩ := hc
      refine ⟨by simp, ?_⟩
      intro p hp _
      simp only [Option.some.injEq] at hp
      subst hp
      have hb := (cost_pos_bounds hcp).2
      have h0 := hs0 hn
      simp only []
      have ht : (0 : Int) ≤ st.trades := by omega
      nlinarith
    | time dt =>
      simp only [exec] at h
      split at h
      · cases h
      · cases h; exact ⟨hs0, hs1⟩
    | fund a amt =>
      simp only [exec] at h
      split at h
      · cases h
      · cases h; exact ⟨hs0, hs1⟩
    | buy a amt mc =>
      obtain ⟨p, tot, fee, l1, ht, _, _, hf, _, _, _, rfl⟩ := doBuy_ok h
      obtain ⟨hp, hns, _⟩ := tradeable_ok ht
      have hcp := (applyTakerFee_some hf).1
      have hb := (cost_pos_bounds hcp).2
      have ih := hs1 p hp hns
      refine ⟨by simp, ?_⟩
      intro q hq _
      simp only [Option.some.injEq] at hq
      subst hq
      simp only []
      push_cast
      nlinarith
    | bes a sp mt =>
      obtain ⟨p, net, fee, tokens, l1, ht, _, hf, htk, _, _, _, _, _, rfl⟩ := doBes_ok h
      obtain ⟨hp, hns, _⟩ := tradeable_ok ht
      have hc := hB (p.L, p.sold, net) (by simp [besPoint, hp, hf]) tokens htk
      have ih := hs1 p hp hns
      refine ⟨by simp, ?_⟩
      intro q hq _
      simp only [Option.some.injEq] at hq
      subst hq
      simp only []
      push_cast
      nlinarith
    | sell a amt mi =>
      obtain ⟨p, net, fee, l1, ht, _, hf, _, _, _, rfl⟩ := doSell_ok h
      obtain ⟨hp, hns, _⟩ := tradeable_ok ht
      have hcp := (applyTakerFee_some hf).1
      have hb := (cost_pos_bounds hcp).1
      have ih := hs1 p hp hns
      refine ⟨by simp, ?_⟩
      intro q hq _
      simp only [Option.some.injEq] at hq
      subst hq
      simp only []
      push_cast
      nlinarith
    | enable a =>
      obtain ⟨p, hp, _, _, hns, rfl⟩ := doEnable_ok h
      refine ⟨by simp, ?_⟩
      intro q hq _
      simp only [Option.some.injEq] at hq
      subst hq
      exact hs1 p hp hns
    | settle rf ok =>
      rcases doSettle_ok h with ⟨hn, rfl⟩ | ⟨p, hp, _, _, rfl⟩
      · exact ⟨hs0, fun p hp => by simp [hn] at hp⟩
      · refine ⟨by simp, ?_⟩
        intro q hq hqs
        simp only [Option.some.injEq] at hq
        subst hq
        simp at hqs
    | claim a =>
      obtain ⟨p, hp, hset, _, _, rfl⟩ := doClaim_ok h
      refine ⟨by simp, ?_⟩
      intro q hq hqs
      simp only [Option.some.injEq] at hq
      subst hq
      simp [hset] at hqs
    | claimv a =>
      obtain ⟨p, amt, hp, hset, _, _, _, _, rfl⟩ := doClaimVested_ok h
      refine ⟨by simp, ?_⟩
      intro q hq hqs
      simp only [Option.some.injEq] at hq
      subst hq
      simp [hset] at hqs
    | xfer a b amt =>
      obtain ⟨_, _, rfl⟩ := doXfer_ok h
      exact ⟨hs0, hs1⟩
    | chown a b =>
      obtain ⟨_, _, rfl⟩ := doChown_ok h
      exact ⟨hs0, hs1⟩

/-- the same under the global contract for the plan's liquidity decimals -/
theorem solv_step {I : Int → Int} {T : Int → Int → Option Int} {st : State} (op : Op)
    (hs : Solv I st) (hN : isBes op = true → ∀ p, st.plan = some p → NewtonUpper I T p.L) :
    Solv I (step I T st op).1 := by
  apply solv_step_at op hs
  intro _ pt hpt
  cases op with
  | bes a sp mt =>
    simp only [besPoint] at hpt
    split at hpt
    · cases hpt
    · rename_i p hp
      split at hpt
      · cases hpt
        exact (hN rfl p hp).at _ _
      · cases hpt
  | _ => simp [besPoint] at hpt

/-! ### round trips: a trader's potential `10^18·liq a + 10^L·I(sold)` strictly decreases at each of its trades -/

def isTradeBy (a : Nat) : Op → Bool
  | .buy b _ _ | .bes b _ _ | .sell b _ _ => b == a
  | _ => false

def potential (I : Int → Int) (L : Nat) (st : State) (a : Nat) (sold : Int) : Int :=
  decP * st.liq a + pow10 L * I sold

theorem trade_potential_at {I : Int → Int} {T : Int → Int → Option Int} {st : State} {a : Nat} (op : Op)
    (hop : isTradeBy a op = true) {p : Plan} (hN : (step I T st op).2 = .ok → BesOkAt I T st op) (hp : st.plan = some p) :
    (step I T st op).1 = st ∨
    ∃ p', (step I T st op).1.plan = some p' ∧ p'.L = p.L ∧
      potential I p.L (step I T st op).1 a p'.sold < potential I p.L st a p.sold := by
  rcases step_cases I T st op with h | ⟨hact, h⟩
  · exact Or.inl h
  · right
    have hB := hN (congrArg Prod.snd (step_of_exec_ok hact h))
    generalize (step I T st op).1 = st' at h
    have hd := decP_pos
    unfold potential
    cases op with
    | buy b amt mc =>
      have hba : b = a := by simpa [isTradeBy] using hop
      subst hba
      obtain ⟨q, tot, fee, l1, ht, _, _, hf, hl, _, _, rfl⟩ := doBuy_ok h
      obtain ⟨hq, _, _⟩ := tradeable_ok ht
      rw [hp] at hq; cases hq
      obtain ⟨hcp, hfp, _, _⟩ := applyTakerFee_some hf
      have hb := (cost_pos_bounds hcp).2
      have hl1 := (chargeFee_self hl hfp).1
      refine ⟨_, rfl, rfl, ?_⟩
      simp only [upd, if_true]
      nlinarith
    | bes b sp mt =>
      have hba : b = a := by simpa [isTradeBy] using hop
      subst hba
      obtain ⟨q, net, fee, tokens, l1, ht, _, hf, htk, _, _, hl, _, _, rfl⟩ := doBes_ok h
      obtain ⟨hq, _, _⟩ := tradeable_ok ht
      rw [hp] at hq; cases hq
      obtain ⟨_, hfp, _, _⟩ := applyTakerFee_some hf
      have hc := hB (p.L, p.sold, net) (by simp [besPoint, hp, hf]) tokens htk
      have hl1 := (chargeFee_self hl hfp).1
      refine ⟨_, rfl, rfl, ?_⟩
      simp only [upd, if_true]
      nlinarith
    | sell b amt mi =>
      have hba : b = a := by simpa [isTradeBy] using hop
      subst hba
      obtain ⟨q, net, fee, l1, ht, _, hf, _, _, hl, rfl⟩ := doSell_ok h
      obtain ⟨hq, _, _⟩ := tradeable_ok ht
      rw [hp] at hq; cases hq
      obtain ⟨hcp, hfp, _, _⟩ := applyTakerFee_some hf
      have hb := (cost_pos_bounds hcp).1
      have hl1 := (chargeFee_self hl hfp).1
      simp only [upd, if_true] at hl1
      refine ⟨_, rfl, rfl, ?_⟩
      simp only []
      nlinarith
    | create _ _ _ _ _ _ _ _ _ _ _ => simp [isTradeBy] at hop
    | time _ => simp [isTradeBy] at hop
    | fund _ _ => simp [isTradeBy] at hop
    | enable _ => simp [isTradeBy] at hop
    | settle _ _ => simp [isTradeBy] at hop
    | claim _ => simp [isTradeBy] at hop
    | claimv _ => simp [isTradeBy] at hop
    | xfer _ _ _ => simp [isTradeBy] at hop
    | chown _ _ => simp [isTradeBy] at hop

theorem besOkAt_of_global {I : Int → Int} {T : Int → Int → Option Int} {st : State} {p : Plan}
    (hp : st.plan = some p) (op : Op) (hN : isBes op = true → NewtonUpper I T p.L) : BesOkAt I T st op := by
  intro pt hpt
  cases op with
  | bes a sp mt =>
    simp only [besPoint, hp] at hpt
    split at hpt
    · cases hpt
      exact (hN rfl).at _ _
    · cases hpt
  | _ => simp [besPoint] at hpt

theorem trade_potential {I : Int → Int} {T : Int → Int → Option Int} {st : State} {a : Nat} (op : Op)
    (hop : isTradeBy a op = true) {p : Plan} (hN : isBes op = true → NewtonUpper I T p.L) (hp : st.plan = some p) :
    (step I T st op).1 = st ∨
    ∃ p', (step I T st op).1.plan = some p' ∧ p'.L = p.L ∧
      potential I p.L (step I T st op).1 a p'.sold < potential I p.L st a p.sold :=
  trade_potential_at op hop (fun _ => besOkAt_of_global hp op hN) hp

theorem run_cons (I : Int → Int) (T : Int → Int → Option Int) (st : State) (o : Op) (ops : List Op) :
    run I T st (o :: ops) = run I T (step I T st o).1 ops := rfl

/-- trades of one trader, the contract demanded only at the exact-spend purchases the run executes -/
theorem run_potential_at {I : Int → Int} {T : Int → Int → Option Int} {a : Nat} (ops : List Op) :
    ∀ (st : State) (p : Plan), st.plan = some p →
      (∀ o ∈ ops, isTradeBy a o = true) → NewtonUpperOn I T (besPoints I T st ops) →
      run I T st ops = st ∨
      ∃ p', (run I T st ops).plan = some p' ∧ p'.L = p.L ∧
        potential I p.L (run I T st ops) a p'.sold < potential I p.L st a p.sold := by
  induction ops with
  | nil => intro st p _ _ _; exact Or.inl rfl
  | cons o ops ih =>
    intro st p hp hops hN
    rw [run_cons]
    have ho := hops o (by simp)
    have hops' : ∀ o' ∈ ops, isTradeBy a o' = true := fun o' h => hops o' (by simp [h])
    rcases trade_potential_at (T := T) o ho hN.head hp with h1 | ⟨p1, hp1, hL1, hlt1⟩
    · have hN' := hN.tail
      rw [h1] at hN' ⊢
      exact ih st p hp hops' hN'
    · rcases ih _ p1 hp1 hops' hN.tail with h2 | ⟨p2, hp2, hL2, hlt2⟩
      · rw [h2]; exact Or.inr ⟨p1, hp1, hL1, hlt1⟩
      · refine Or.inr ⟨p2, hp2, by rw [hL2, hL1], ?_⟩
        rw [hL1] at hlt2
        exact Int.lt_trans hlt2 hlt1

theorem run_potential {I : Int → Int} {T : Int → Int → Option Int} {a : Nat} (ops : List Op) :
    ∀ (st : State) (p : Plan), st.plan = some p →
      (∀ o ∈ ops, isTradeBy a o = true) → (∀ o ∈ ops, isBes o = true → NewtonUpper I T p.L) →
      run I T st ops = st ∨
      ∃ p', (run I T st ops).plan = some p' ∧ p'.L = p.L ∧
        potential I p.L (run I T st ops) a p'.sold < potential I p.L st a p.sold := by
  induction ops with
  | nil => intro st p _ _ _; exact Or.inl rfl
  | cons o ops ih =>
    intro st p hp hops hN
    rw [run_cons]
    have ho := hops o (by simp)
    have hN' := hN o (by simp)
    have hops' : ∀ o' ∈ ops, isTradeBy a o' = true := fun o' h => hops o' (by simp [h])
    have hNN : ∀ o' ∈ ops, isBes o' = true → NewtonUpper I T p.L := fun o' h => hN o' (by simp [h])
    rcases trade_potential (T := T) o ho hN' hp with h1 | ⟨p1, hp1, hL1, hlt1⟩
    · rw [h1]; exact ih st p hp hops' hNN
    · rcases ih _ p1 hp1 hops' (by rw [hL1]; exact hNN) with h2 | ⟨p2, hp2, hL2, hlt2⟩
      · rw [h2]; exact Or.inr ⟨p1, hp1, hL1, hlt1⟩
      · refine Or.inr ⟨p2, hp2, by rw [hL2, hL1], ?_⟩
        rw [hL1] at hlt2
        exact Int.lt_trans hlt2 hlt1

end DymVerif.Iro
