/-
  Lemmas/CoreFinEnd2 — `FinalizeAllPending` (finalizeAll) keeps the finalization invariant; at its end
  every due entry left in the queue belongs to a rollapp whose next pending index is in the failure
  oracle.  Also the relation between the states before / after (`FinRel`).
-/
import DymVerif.Lemmas.CoreFinEnd
namespace DymVerif.Core

-- ---------------------------------------------------------------- frames of finalizeEntry.go

theorem go_frame (fails : List (Nat × Nat)) (e : QEntry) : ∀ (l : List Nat) (s : St),
    (finalizeEntry.go fails e s l).1.p = s.p ∧ (finalizeEntry.go fails e s l).1.h = s.h := by
  intro l
  induction l with
  | nil => intro s; unfold finalizeEntry.go; exact ⟨rfl, rfl⟩
  | cons i tl ih =>
    intro s
    unfold finalizeEntry.go
    split
    · rename_i s1 h1
      obtain ⟨r, st, s0, _, _, _, _, hfr, rfl⟩ := finalizeOne_some h1
      have := ih (setRa s0 (finRec r i st s.h))
      exact ⟨this.1.trans hfr.p, this.2.trans hfr.h⟩
    · exact ⟨rfl, rfl⟩

theorem go_getRa_other (fails : List (Nat × Nat)) (e : QEntry) (ra : Nat) (hne : e.ra ≠ ra) : ∀ (l : List Nat) (s : St),
    getRa (finalizeEntry.go fails e s l).1 ra = getRa s ra := by
  intro l
  induction l with
  | nil => intro s; unfold finalizeEntry.go; rfl
  | cons i tl ih =>
    intro s
    unfold finalizeEntry.go
    split
    · rename_i s1 h1
      obtain ⟨r, st, s0, hg, _, _, _, hfr, rfl⟩ := finalizeOne_some h1
      rw [ih, getRa_setRa_other _ _ _ (by show r.id ≠ ra; rw [getRa_id hg]; exact hne)]
      unfold getRa; rw [hfr.ras]
    · rfl

-- ---------------------------------------------------------------- filter facts

theorem filter_map_id {α} (p : α → Bool) (f : α → α) (l : List α)
    (h : ∀ x ∈ l, p (f x) = p x ∧ (p x = true → f x = x)) : (l.map f).filter p = l.filter p := by
  induction l with
  | nil => rfl
  | cons x xs ih =>
    obtain ⟨h1, h2⟩ := h x (by simp)
    rw [List.map_cons, List.filter_cons, List.filter_cons, h1, ih (fun y hy => h y (by simp [hy]))]
    cases hp : p x with
    | false => simp
    | true => simp [h2 hp]

theorem filter_comm {α} (p q : α → Bool) (l : List α) : (l.filter p).filter q = (l.filter q).filter p := by
  rw [List.filter_filter, List.filter_filter]
  apply List.filter_congr
  intro x _; exact Bool.and_comm _ _

def dueP (fh : Nat) (failed : List Nat) (e : QEntry) : Bool := decide (e.ch ≤ fh) && !failed.contains e.ra

/-- the rollapps marked failed have their next pending index in the oracle -/
def FailedOK (fails : List (Nat × Nat)) (s : St) (failed : List Nat) : Prop :=
  ∀ ra ∈ failed, ∀ r, getRa s ra = some r → (ra, r.lastFin + 1) ∈ fails

theorem finalizeAll_cons (s : St) (fails : List (Nat × Nat)) (e : QEntry) (es : List QEntry) (failed : List Nat) :
    finalizeAll s fails (e :: es) failed =
      if failed.contains e.ra then finalizeAll s fails es failed else
        finalizeAll (finalizeEntry.go fails e s e.idx).1 fails es
          (if (finalizeEntry.go fails e s e.idx).2 then failed else e.ra :: failed) := by
  rw [finalizeAll]
  rfl

theorem finalizeAll_fin (fails : List (Nat × Nat)) (fh : Nat) : ∀ (es : List QEntry) (failed : List Nat) (s : St),
    FinInv s → fh + s.p.dispute ≤ s.h →
    es.filter (fun e => !failed.contains e.ra) = s.queue.filter (dueP fh failed) → FailedOK fails s failed →
    FinInv (finalizeAll s fails es failed) ∧
      ∃ failed', FailedOK fails (finalizeAll s fails es failed) failed' ∧
        (finalizeAll s fails es failed).queue.filter (dueP fh failed') = [] := by
  intro es
  induction es with
  | nil =>
    intro failed s hi _ heq hok
    unfold finalizeAll
    exact ⟨hi, failed, hok, by rw [← heq]; rfl⟩
  | cons e es ih =>
    intro failed s hi hfh heq hok
    rw [finalizeAll_cons]
    by_cases hc : failed.contains e.ra = true
    · rw [if_pos hc]
      apply ih failed s hi hfh _ hok
      rw [← heq, List.filter_cons, if_neg (by rw [hc]; simp)]
    · rw [if_neg hc]
      have hc' : failed.contains e.ra = false := by simpa using hc
      rw [List.filter_cons, if_pos (by rw [hc']; rfl)] at heq
      -- e is the first due entry of a non-failed rollapp
      have hemem : e ∈ s.queue.filter (dueP fh failed) := by rw [← heq]; simp
      obtain ⟨he, hedue⟩ := List.mem_filter.1 hemem
      have hech : e.ch ≤ fh := by unfold dueP at hedue; simp at hedue; exact hedue.1
      have hsf : QSorted (s.queue.filter (dueP fh failed)) := hi.sorted.filter _
      rw [← heq] at hsf
      have htl : ∀ y ∈ es.filter (fun e => !failed.contains e.ra), keyLt e y = true := hsf.head
      have hfirst : ∀ y ∈ s.queue, y.ra = e.ra → e.ch ≤ y.ch := by
        intro y hy hra
        by_cases hyd : y.ch ≤ fh
        · have : y ∈ s.queue.filter (dueP fh failed) := by
            apply List.mem_filter.2
            refine ⟨hy, ?_⟩
            unfold dueP; rw [hra, hc']; simp [hyd]
          rw [← heq] at this
          rcases List.mem_cons.1 this with h1 | h1
          · rw [h1]; exact Nat.le_refl _
          · have := htl y h1
            rw [keyLt_iff] at this; omega
        · omega
      obtain ⟨rest, h2, h3, hmid⟩ := MidInv.start hi he hfirst (by omega)
      obtain ⟨g1, g2, g3, g4⟩ := go_fin fails e rest e.idx s hmid h2 h3
      obtain ⟨gp, gh⟩ := go_frame fails e e.idx s
      have hKtl : ∀ y ∈ es.filter (fun e => !failed.contains e.ra), ¬ (y.ch = e.ch ∧ y.ra = e.ra) := by
        intro y hy hcc
        have := htl y hy
        rw [keyLt_iff] at this; omega
      have hothers : ∀ failed2, (∀ ra ∈ failed2, ra ∈ failed) → FailedOK fails (finalizeEntry.go fails e s e.idx).1 failed2 := by
        intro failed2 hsub ra hra r hg
        have hne : e.ra ≠ ra := by
          intro hx; subst hx
          have := hsub _ hra
          have : failed.contains e.ra = true := by simpa using this
          rw [hc'] at this; cases this
        rw [go_getRa_other fails e ra hne] at hg
        exact hok ra (hsub ra hra) r hg
      cases hres : (finalizeEntry.go fails e s e.idx).2 with
      | true =>
        simp only [if_true]
        apply ih failed _ g1 (by rw [gp, gh]; exact hfh) _ (hothers failed (fun _ h => h))
        rw [g3 hres]
        show _ = ((s.queue.filter (fun x => !(x.ch == e.ch && x.ra == e.ra))).filter (dueP fh failed))
        rw [filter_comm, ← heq, List.filter_cons, if_neg (by simp)]
        symm
        apply List.filter_eq_self.2
        intro y hy
        have := hKtl y hy
        simp only [Bool.not_eq_true', Bool.and_eq_false_iff, beq_eq_false_iff_ne]
        omega
      | false =>
        simp only [Bool.false_eq_true, if_false]
        obtain ⟨l', hq'⟩ := g4 hres
        have hdp : ∀ x : QEntry, dueP fh (e.ra :: failed) x = (dueP fh failed x && !(x.ra == e.ra)) := by
          intro x
          unfold dueP
          rw [List.contains_cons]
          cases decide (x.ch ≤ fh) <;> cases (x.ra == e.ra) <;> cases failed.contains x.ra <;> rfl
        apply ih (e.ra :: failed) _ g1 (by rw [gp, gh]; exact hfh)
        · rw [hq']
          unfold qRewrite
          rw [filter_map_id]
          · have e1 : s.queue.filter (dueP fh (e.ra :: failed)) =
                (s.queue.filter (dueP fh failed)).filter (fun x => !(x.ra == e.ra)) := by
              rw [List.filter_filter]
              apply List.filter_congr
              intro x _; rw [hdp x, Bool.and_comm]
            have e2 : es.filter (fun x => !(e.ra :: failed).contains x.ra) =
                (es.filter (fun x => !failed.contains x.ra)).filter (fun x => !(x.ra == e.ra)) := by
              rw [List.filter_filter]
              apply List.filter_congr
              intro x _
              rw [List.contains_cons]
              cases (x.ra == e.ra) <;> cases failed.contains x.ra <;> rfl
            rw [e1, e2, ← heq, List.filter_cons, if_neg (by simp)]
          · intro x _
            constructor
            · split
              · rfl
              · rfl
            · intro hp
              rw [hdp x] at hp
              have : ¬ x.ra = e.ra := by
                simp only [Bool.and_eq_true, Bool.not_eq_true', beq_eq_false_iff_ne] at hp
                exact hp.2
              simp [this]
        · intro ra hra r hg
          rcases List.mem_cons.1 hra with h1 | h1
          · subst h1; exact g2 hres r hg
          · exact hothers failed (fun _ h => h) ra h1 r hg

end DymVerif.Core
