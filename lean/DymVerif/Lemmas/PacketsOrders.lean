/-
  Lemmas/PacketsOrders — the C05 invariant of M-Packets, for all operation sequences:
  every demand order refers to an existing packet of the same status whose pending key is the
  order's id (and goes away with it); orders are unique per (status, id); price + fee + bridging fee
  = amount with a positive price; LP records never exceed their spend limit.
-/
import DymVerif.Lemmas.PacketsEibc2
import DymVerif.Lemmas.Keys
namespace DymVerif.Packets
open DymVerif DymVerif.Keys

-- ------------------------------------------------------------------ keys: status prefix and the rest

/-- everything of a packet key after the status bytes -/
def keyRest (p : Packet) : Bytes :=
  [sep] ++ (p.rollappId ++ [sep]) ++ be64 p.proofHeight ++ [sep] ++ ptypeStr p.ptype ++ [sep] ++ p.srcChan ++ [sep] ++ be64 p.seq

theorem pkey_split (p : Packet) : pkey p = statusBytes p.status ++ keyRest p := by
  simp [pkey, rollappPacketKey, byStatusRollappHeightPrefix, byStatusRollappPrefix, byStatusPrefix, keyRest, List.append_assoc]

theorem pendKeyOf_split (p : Packet) : pendKeyOf p = statusBytes .pending ++ keyRest p := by
  unfold pendKeyOf; rw [pkey_split]; rfl

/-- equal keys: equal status and equal pending key -/
theorem pkey_eq_parts {p q : Packet} (h : pkey q = pkey p) : q.status = p.status ∧ pendKeyOf q = pendKeyOf p := by
  rw [pkey_split, pkey_split] at h
  have hl : (statusBytes q.status).length = (statusBytes p.status).length := by
    rw [statusBytes_length, statusBytes_length]
  obtain ⟨h1, h2⟩ := List.append_inj h hl
  exact ⟨statusBytes_inj _ _ h1, by rw [pendKeyOf_split, pendKeyOf_split, h2]⟩

theorem pendKeyOf_of_pending {p : Packet} (h : p.status = .pending) : pendKeyOf p = pkey p := by
  rw [pendKeyOf_split, pkey_split, h]

theorem pendKeyOf_congr {p q : Packet} (h2 : p.rollappId = q.rollappId) (h3 : p.proofHeight = q.proofHeight)
    (h4 : p.ptype = q.ptype) (h5 : p.srcChan = q.srcChan) (h6 : p.seq = q.seq) : pendKeyOf p = pendKeyOf q := by
  rw [pendKeyOf_split, pendKeyOf_split]; unfold keyRest; rw [h2, h3, h4, h5, h6]

theorem pendKeyOf_restoreTarget (p : Packet) : pendKeyOf (restoreTarget p) = pendKeyOf p := by
  obtain ⟨_, b, c, d, e, f, _⟩ := restoreTarget_fields p
  exact pendKeyOf_congr b c d e f

theorem pendKeyOf_finalizedRecord (p : Packet) (b : Option PErr) : pendKeyOf (finalizedRecord p b) = pendKeyOf p :=
  pendKeyOf_congr rfl rfl rfl rfl rfl

-- ------------------------------------------------------------------ the invariant

def OrderLinked (pk : List Packet) (o : Order) : Prop :=
  ∃ p ∈ pk, pkey p = o.trackingKey ∧ p.status = o.status ∧ pendKeyOf p = o.id

/-- price + fee + bridging fee = amount, positive price (`amount` and `withBf` are ghost fields: the
    amount and the kind of packet the price was last computed from) -/
def PriceOk (bf : Dec) (o : Order) : Prop :=
  0 < o.price ∧ 0 ≤ o.fee ∧ o.price + o.fee + (if o.withBf then (bf.mulInt o.amount).truncateInt else 0) = o.amount

def OrdersNodup (l : List Order) : Prop := l.Pairwise (fun a b => ¬ (a.status = b.status ∧ a.id = b.id))

structure InvO (ords : List Order) (pk : List Packet) (lps : List LP) (bf : Dec) : Prop where
  link : ∀ o ∈ ords, OrderLinked pk o
  okeys : OrdersNodup ords
  price : ∀ o ∈ ords, PriceOk bf o
  lps : ∀ l ∈ lps, l.spent ≤ l.spendLimit

def Inv05 (s : St) : Prop := InvO s.orders s.packets s.lps s.bridgingFee

/-- the eIBC-side fields read by the invariant agree -/
structure OFrame (s s' : St) : Prop where
  orders : s'.orders = s.orders
  packets : s'.packets = s.packets
  lps : s'.lps = s.lps
  bf : s'.bridgingFee = s.bridgingFee

theorem OFrame.refl (s : St) : OFrame s s := ⟨rfl, rfl, rfl, rfl⟩
theorem OFrame.trans {a b c : St} (h1 : OFrame a b) (h2 : OFrame b c) : OFrame a c :=
  ⟨h2.orders.trans h1.orders, h2.packets.trans h1.packets, h2.lps.trans h1.lps, h2.bf.trans h1.bf⟩

theorem Inv05.of_frame {s s' : St} (f : OFrame s s') (h : Inv05 s) : Inv05 s' := by
  unfold Inv05 at *
  rw [f.orders, f.packets, f.lps, f.bf]; exact h

theorem oframe_sendCoins {s s' : St} {a b d v} (h : sendCoins s a b d v = some s') : OFrame s s' := by
  unfold sendCoins at h
  split at h
  · cases h; exact OFrame.refl s
  · split at h
    · cases h
    · cases h; exact ⟨rfl, rfl, rfl, rfl⟩

theorem oframe_setChanClosed {s s' : St} {c : Nat} {b : Bool} (h : setChanClosed s c b = .ok s') : OFrame s s' := by
  unfold setChanClosed at h; split at h
  · cases h
  · cases h; exact ⟨rfl, rfl, rfl, rfl⟩

theorem oframe_icsCredit {s s' : St} {p} (h : icsCredit s p = some s') : OFrame s s' := by
  unfold icsCredit at h
  split at h
  · exact oframe_sendCoins h
  · cases h; exact ⟨rfl, rfl, rfl, rfl⟩

theorem oframe_chargeBridgingFee (s : St) (p : Packet) : OFrame s (chargeBridgingFee s p) := by
  unfold chargeBridgingFee
  split
  · exact OFrame.refl s
  · split
    · exact OFrame.refl s
    · exact ⟨rfl, rfl, rfl, rfl⟩

theorem oframe_icsRecv {s s' : St} {p b} (h : icsRecv s p b = some s') : OFrame s s' := by
  unfold icsRecv at h
  split at h
  · cases h
  · split at h
    · cases h
    · rename_i s1 hc
      cases h
      split
      · exact (oframe_icsCredit hc).trans (oframe_chargeBridgingFee s1 p)
      · exact oframe_icsCredit hc

theorem oframe_icsRefund {s s' : St} {p} (h : icsRefund s p = some s') : OFrame s s' := by
  unfold icsRefund at h
  split at h
  · exact oframe_icsCredit h
  · unfold fwdSettle at h
    split at h
    · cases h
    · rename_i s1 h1
      split at h
      · cases h
      · cases h
        refine OFrame.trans ?_ (⟨rfl, rfl, rfl, rfl⟩ : OFrame s1 (writeAck s1 _ _ _))
        split at h1
        · cases h1; exact OFrame.refl s
        · unfold fwdRefundFunds at h1
          split at h1
          · split at h1
            · exact oframe_sendCoins h1
            · split at h1
              · cases h1
              · cases h1; exact ⟨rfl, rfl, rfl, rfl⟩
          · cases h1; exact ⟨rfl, rfl, rfl, rfl⟩

theorem oframe_releaseEffect (s : St) (p : Packet) : OFrame s (releaseEffect s p).1 := by
  have hrefund : OFrame s (refundRelease s p).1 := by
    unfold refundRelease
    split
    · rename_i s1 h; exact oframe_icsRefund h
    · exact OFrame.refl s
  unfold releaseEffect
  split
  · have h1 : OFrame s (recvRelease s p).1 := by
      unfold recvRelease
      split
      · rename_i s1 h; exact oframe_icsRecv h
      · exact OFrame.refl s
    have h2 : ∀ (s1 : St) (b : Bool), OFrame s1 (writeRecvAck s1 p b).1 := by
      intro s1 b; unfold writeRecvAck; split
      · exact OFrame.refl s1
      · split
        · exact OFrame.refl s1
        · exact ⟨rfl, rfl, rfl, rfl⟩
    exact h1.trans (h2 _ _)
  · split
    · exact hrefund
    · unfold ackRelease; split
      · exact OFrame.refl s
      · exact hrefund
  · exact hrefund
  · exact OFrame.refl s

-- ------------------------------------------------------------------ order store lemmas

theorem ordersNodup_insertOrd {o : Order} : ∀ {l : List Order}, OrdersNodup l → (∀ q ∈ l, ¬ (q.status = o.status ∧ q.id = o.id)) →
    OrdersNodup (insertOrd o l)
  | [], _, _ => by simp [insertOrd, OrdersNodup]
  | x :: xs, hk, hn => by
    unfold insertOrd
    rw [OrdersNodup, List.pairwise_cons] at hk
    split
    · rw [OrdersNodup, List.pairwise_cons]
      refine ⟨fun q hq ⟨e1, e2⟩ => hn q hq ⟨e1.symm, e2.symm⟩, ?_⟩
      rw [List.pairwise_cons]; exact hk
    · rw [OrdersNodup, List.pairwise_cons]
      refine ⟨?_, ordersNodup_insertOrd hk.2 (fun q hq => hn q (List.mem_cons_of_mem _ hq))⟩
      intro q hq
      rcases mem_insertOrd.mp hq with rfl | hq'
      · exact hn x List.mem_cons_self
      · exact hk.1 q hq'

theorem mem_setOrder {s : St} {o q : Order} :
    q ∈ (setOrder s o).orders ↔ q = o ∨ (q ∈ s.orders ∧ ¬ (q.status = o.status ∧ q.id = o.id)) := by
  simp only [setOrder, mem_insertOrd, List.mem_filter]
  constructor
  · rintro (h | ⟨h1, h2⟩)
    · exact Or.inl h
    · refine Or.inr ⟨h1, ?_⟩
      rintro ⟨e1, e2⟩
      simp [e1, e2] at h2
  · rintro (h | ⟨h1, h2⟩)
    · exact Or.inl h
    · refine Or.inr ⟨h1, ?_⟩
      cases hb : (q.status == o.status && q.id == o.id) with
      | false => rfl
      | true =>
        simp only [Bool.and_eq_true, beq_iff_eq] at hb
        exact absurd hb h2

theorem mem_delOrder {s : St} {st : Status} {id : Bytes} {q : Order} :
    q ∈ (delOrder s st id).orders ↔ q ∈ s.orders ∧ ¬ (q.status = st ∧ q.id = id) := by
  simp only [delOrder, List.mem_filter]
  constructor
  · rintro ⟨h1, h2⟩
    refine ⟨h1, ?_⟩
    rintro ⟨e1, e2⟩
    simp [e1, e2] at h2
  · rintro ⟨h1, h2⟩
    refine ⟨h1, ?_⟩
    cases hb : (q.status == st && q.id == id) with
    | false => rfl
    | true =>
      simp only [Bool.and_eq_true, beq_iff_eq] at hb
      exact absurd hb h2

/-- `SetDemandOrder` of an order that is linked and priced -/
theorem InvO.setOrder {s : St} (h : Inv05 s) (o : Order) (hl : OrderLinked s.packets o) (hp : PriceOk s.bridgingFee o) :
    Inv05 (setOrder s o) := by
  refine ⟨?_, ?_, ?_, h.lps⟩
  · intro q hq
    rcases mem_setOrder.mp hq with rfl | ⟨hq', _⟩
    · exact hl
    · exact h.link q hq'
  · show OrdersNodup (insertOrd o (s.orders.filter _))
    apply ordersNodup_insertOrd (List.Pairwise.filter _ h.okeys)
    intro q hq
    have := (List.mem_filter.mp hq).2
    rintro ⟨e1, e2⟩
    simp [e1, e2] at this
  · intro q hq
    rcases mem_setOrder.mp hq with rfl | ⟨hq', _⟩
    · exact hp
    · exact h.price q hq'

theorem InvO.delOrder {s : St} (h : Inv05 s) (st : Status) (id : Bytes) : Inv05 (delOrder s st id) :=
  ⟨fun q hq => h.link q (mem_delOrder.mp hq).1, List.Pairwise.filter _ h.okeys,
   fun q hq => h.price q (mem_delOrder.mp hq).1, h.lps⟩

/-- `SetRollappPacket`: every order keeps a packet of its key, status and id -/
theorem InvO.setPacket {s : St} (h : Inv05 s) (p : Packet) : Inv05 (setPacket s p) := by
  refine ⟨?_, h.okeys, h.price, h.lps⟩
  intro o ho
  obtain ⟨q, hq, h1, h2, h3⟩ := h.link o ho
  by_cases hk : pkey q = pkey p
  · obtain ⟨e1, e2⟩ := pkey_eq_parts hk
    exact ⟨p, mem_setPacket.mpr (Or.inl rfl), hk ▸ h1, e1 ▸ h2, e2 ▸ h3⟩
  · exact ⟨q, mem_setPacket.mpr (Or.inr ⟨hq, hk⟩), h1, h2, h3⟩

/-- deleting the key `k` when no remaining order tracks it -/
theorem InvO.delPacket {s : St} (h : Inv05 s) (k : Bytes) (hn : ∀ o ∈ s.orders, o.trackingKey ≠ k) : Inv05 (delPacket s k) := by
  refine ⟨?_, h.okeys, h.price, h.lps⟩
  intro o ho
  obtain ⟨q, hq, h1, h2, h3⟩ := h.link o ho
  refine ⟨q, mem_delPacket.mpr ⟨hq, ?_⟩, h1, h2, h3⟩
  rw [h1]; exact hn o ho

theorem inv05_addByAddr {s : St} (a k) (h : Inv05 s) : Inv05 (addByAddr s a k) := h
theorem inv05_delByAddr {s : St} (a k) (h : Inv05 s) : Inv05 (delByAddr s a k) := h

theorem mem_setLp {s : St} {l x : LP} : x ∈ (setLp s l).lps → x = l ∨ x ∈ s.lps := by
  unfold setLp
  intro hx
  have : ∀ {ls : List LP}, x ∈ insertLp l ls → x = l ∨ x ∈ ls := by
    intro ls
    induction ls with
    | nil => intro h; simp [insertLp] at h; exact Or.inl h
    | cons y ys ih =>
      intro h
      unfold insertLp at h
      split at h
      · rcases List.mem_cons.mp h with h | h
        · exact Or.inl h
        · exact Or.inr h
      · rcases List.mem_cons.mp h with h | h
        · exact Or.inr (h ▸ List.mem_cons_self)
        · rcases ih h with h | h
          · exact Or.inl h
          · exact Or.inr (List.mem_cons_of_mem _ h)
  rcases this hx with h | h
  · exact Or.inl h
  · exact Or.inr (List.mem_filter.mp h).1

theorem InvO.setLp {s : St} (h : Inv05 s) (l : LP) (hl : l.spent ≤ l.spendLimit) : Inv05 (setLp s l) := by
  refine ⟨h.link, h.okeys, h.price, ?_⟩
  intro x hx
  rcases mem_setLp hx with rfl | hx'
  · exact hl
  · exact h.lps x hx'

theorem InvO.delLp {s : St} (h : Inv05 s) (id : Nat) : Inv05 (delLp s id) :=
  ⟨h.link, h.okeys, h.price, fun x hx => h.lps x (List.mem_filter.mp hx).1⟩

-- ------------------------------------------------------------------ operations

theorem newOrder_linked {s : St} {p : Packet} (hp : p ∈ s.packets) (hs : p.status = .pending) (price fee : Int) (r : Addr) :
    OrderLinked s.packets (newOrder s p price fee r) :=
  ⟨p, hp, rfl, hs, pendKeyOf_of_pending hs⟩

theorem inv05_eibcOnRecv {s s' : St} {p : Packet} {m : Memo} (h : Inv05 s) (hp : p ∈ s.packets) (hs : p.status = .pending)
    (hr : p.ptype = .onRecv) (he : eibcOnRecv s p m = .ok s') : Inv05 s' := by
  unfold eibcOnRecv at he
  split at he
  · cases he
  · split at he
    · cases he
    · rename_i fee hfee
      split at he
      · cases he
      · rename_i price hprice
        cases he
        apply InvO.setOrder h _ (newOrder_linked hp hs _ _ _)
        obtain ⟨h1, h2⟩ := calcPrice_ok hprice
        have hf : 0 ≤ fee := by
          unfold memoFee at hfee
          split at hfee
          · cases hfee; exact Int.le_refl 0
          · cases hfee; exact Int.le_refl 0
          · cases hfee
          · cases hfee
          · split at hfee
            · cases hfee
            · rename_i f hf; cases hfee; exact Int.not_lt.mp hf
          · cases hfee; exact Int.le_refl 0
        refine ⟨h2, hf, ?_⟩
        show price + fee + (if (p.ptype == PType.onRecv) = true then _ else 0) = p.amount
        simp only [hr, beq_self_eq_true, if_true]
        exact h1

theorem inv05_eibcOnRefund {s s' : St} {p : Packet} (h : Inv05 s) (hp : p ∈ s.packets) (hs : p.status = .pending)
    (hr : (p.ptype == .onRecv) = false) (he : eibcOnRefund s p = .ok s') : Inv05 s' := by
  unfold eibcOnRefund at he
  split at he
  · cases he; exact h
  · rename_i hf
    split at he
    · cases he
    · rename_i hpz
      cases he
      apply InvO.setOrder h _ (newOrder_linked hp hs _ _ _)
      refine ⟨by show 0 < p.amount - refundFee s p; omega, by show 0 ≤ refundFee s p; omega, ?_⟩
      show p.amount - refundFee s p + refundFee s p + (if (p.ptype == PType.onRecv) = true then _ else 0) = p.amount
      simp only [hr, Bool.false_eq_true, if_false]
      omega

theorem inv05_recvAuth {s0 : St} (c seq ph : Nat) (d : RecvData) (h0 : Inv05 s0) : Inv05 (recvAuth s0 c seq ph d).1 := by
  have hfail : Inv05 (recvFail s0 c seq).1 := h0
  unfold recvAuth
  split
  · exact hfail
  · split
    · exact hfail
    · split
      · exact hfail
      · split
        · unfold recvPass
          split
          · exact hfail
          · rename_i s1 hi
            exact Inv05.of_frame ((oframe_icsRecv hi).trans ⟨rfl, rfl, rfl, rfl⟩) h0
        · unfold recvDelay
          split
          · exact hfail
          · split
            · exact hfail
            · rename_i s2 he
              exact inv05_eibcOnRecv (InvO.setPacket (inv05_addByAddr _ _ h0) _) (mem_setPacket.mpr (Or.inl rfl)) rfl rfl he

theorem inv05_ackOpen {s s' : St} {c seq ph : Nat} {isTimeout isErr : Bool} (h : Inv05 s)
    (ha : ackOpen s c seq ph isTimeout isErr = .ok (some s')) : Inv05 s' := by
  unfold ackOpen at ha
  split at ha
  · cases ha
  · split at ha
    · cases ha
    · rename_i x hx
      generalize hs0 : ({ s with commits := s.commits.filter (· != (c, seq)) } : St) = s0 at ha
      have h0 : Inv05 s0 := by subst hs0; exact h
      unfold ackAuth at ha
      split at ha
      · cases ha
      · split at ha
        · unfold ackPass at ha
          split at ha
          · split at ha
            · cases ha
            · rename_i s1 hi
              cases ha
              exact Inv05.of_frame ((oframe_icsRefund hi).trans ⟨rfl, rfl, rfl, rfl⟩) h0
          · cases ha; exact Inv05.of_frame ⟨rfl, rfl, rfl, rfl⟩ h0
        · unfold ackDelay at ha
          split at ha
          · cases ha
          · split at ha
            · split at ha
              · cases ha
              · rename_i s2 he
                cases ha
                exact inv05_eibcOnRefund (InvO.setPacket (inv05_addByAddr _ _ h0) _) (mem_setPacket.mpr (Or.inl rfl)) rfl
                  (by simp [mkSentPacket, sentType_ne_recv]) (eibcRefundHandler_ok he)
            · cases ha
              exact InvO.setPacket (inv05_addByAddr _ _ h0) _

theorem inv05_sendOpen {s s' : St} {a c d amt} (h : Inv05 s) (hs : sendOpen s a c d amt = .ok s') : Inv05 s' := by
  unfold sendOpen at hs
  split at hs
  · cases hs
  · split at hs
    · cases hs
    · split at hs
      · cases hs
      · cases hs
        have : OFrame s (recordSent (lockCoins s a c d amt) a c d amt (getNextSeq s c)) := by
          unfold recordSent lockCoins
          split <;> exact ⟨rfl, rfl, rfl, rfl⟩
        exact Inv05.of_frame this h


theorem inv05_sendTransfer {s s' : St} {a c d amt} (h : Inv05 s) (hs : sendTransfer s a c d amt = .ok s') : Inv05 s' := by
  unfold sendTransfer at hs; split at hs
  · cases hs
  · exact inv05_sendOpen h hs

theorem inv05_recvForward {s0 : St} (c seq ph : Nat) (d : RecvData) (k : Nat) (h0 : Inv05 s0) :
    Inv05 (recvForward s0 c seq ph d k).1 := by
  have hfail : Inv05 (recvFail s0 c seq).1 := h0
  unfold recvForward
  have ha := inv05_recvAuth c seq ph { d with target := some (pfmAddr c), memo := .none } h0
  split
  · rename_i s1 hr
    rw [hr] at ha
    split
    · rename_i s2 hs
      have h1 : Inv05 { s1 with acks := s0.acks } := ha
      exact (inv05_sendTransfer h1 hs : Inv05 s2)
    · exact hfail
  · exact hfail

theorem inv05_recvOpen {s : St} (c seq ph : Nat) (d : RecvData) (h : Inv05 s) : Inv05 (recvOpen s c seq ph d).1 := by
  unfold recvOpen
  split
  · exact h
  · have h0 : Inv05 { s with receipts := s.receipts ++ [(c, seq)] } := h
    split
    · exact inv05_recvForward c seq ph d _ h0
    · exact inv05_recvAuth c seq ph d h0

theorem keysNodup_eq {s : St} {p q : Packet} (hk : KeysNodup s.packets) (hp : p ∈ s.packets) (hq : q ∈ s.packets)
    (h : pkey q = pkey p) : q = p := by
  have h1 := getPacket_of_mem hk hq
  have h2 := getPacket_of_mem hk hp
  rw [h] at h1
  exact Option.some.inj (h1.symm.trans h2)

/-- `afterPacketStatusUpdated` when the old packet has been replaced by its finalized version -/
theorem inv05_finalizePacket {s s' : St} {k : Bytes} (h : Inv05 s) (hk : KeysNodup s.packets)
    (hf : finalizePacket s k = .ok s') : Inv05 s' := by
  unfold finalizePacket at hf
  split at hf
  · cases hf
  · rename_i p hp
    obtain ⟨hmem, -⟩ := getPacket_some hp
    split at hf
    · cases hf
    · unfold updateAfterFinalization at hf
      split at hf
      · cases hf
      · rename_i hst
        cases hf
        have hpend : p.status = .pending := by
          rw [finalizedRecord_status] at hst
          simpa using hst
        -- names
        generalize hp1 : finalizedRecord p (releaseEffect s p).2 = p1
        have k1 : pkey p1 = pkey p := by rw [← hp1]; exact pkey_finalizedRecord p _
        have pk1 : pendKeyOf p1 = pkey p := by
          rw [← hp1, pendKeyOf_finalizedRecord, pendKeyOf_of_pending hpend]
        have hflip : pendKeyOf (flipped p1) = pkey p := by
          rw [← pk1]; exact pendKeyOf_congr rfl rfl rfl rfl rfl
        -- the state before the order hook: log + balances changed (frame), packet flipped
        have hA : Inv05 (logRelease (releaseEffect s p).1 p (some p.rollappId) true) :=
          Inv05.of_frame ((oframe_releaseEffect s p).trans ⟨rfl, rfl, rfl, rfl⟩) h
        generalize hsA : logRelease (releaseEffect s p).1 p (some p.rollappId) true = sA at hA
        have eA_pk : sA.packets = s.packets := by
          rw [← hsA]; exact (oframe_releaseEffect s p).packets
        have eA_or : sA.orders = s.orders := by
          rw [← hsA]; exact (oframe_releaseEffect s p).orders
        rw [k1]
        unfold afterPacketStatusUpdated
        -- the store after the flip
        generalize hsB : setPacket (delPacket (delByAddr sA p1.target (pkey p)) (pkey p)) (flipped p1) = sB
        have eB_or : sB.orders = sA.orders := by rw [← hsB]; rfl
        have memB : ∀ q, q ∈ sB.packets ↔ q = flipped p1 ∨ (q ∈ s.packets ∧ pkey q ≠ pkey p ∧ pkey q ≠ pkey (flipped p1)) := by
          intro q
          rw [← hsB, mem_setPacket, mem_delPacket]
          simp only [delByAddr_packets, eA_pk]
          constructor
          · rintro (h | ⟨⟨h1, h2⟩, h3⟩)
            · exact Or.inl h
            · exact Or.inr ⟨h1, h2, h3⟩
          · rintro (h | ⟨h1, h2, h3⟩)
            · exact Or.inl h
            · exact Or.inr ⟨⟨h1, h2⟩, h3⟩
        -- orders other than the one of the flipped packet keep their link
        have keep : ∀ o ∈ s.orders, ¬ (o.status = .pending ∧ o.id = pkey p) → OrderLinked sB.packets o := by
          intro o ho hne
          obtain ⟨q, hq, h1, h2, h3⟩ := h.link o ho
          by_cases hqp : pkey q = pkey p
          · exfalso
            have : q = p := keysNodup_eq hk hmem hq hqp
            subst this
            exact hne ⟨h2 ▸ hpend, by rw [← h3, pendKeyOf_of_pending hpend]⟩
          · by_cases hqf : pkey q = pkey (flipped p1)
            · obtain ⟨e1, e2⟩ := pkey_eq_parts hqf
              exact ⟨flipped p1, (memB _).mpr (Or.inl rfl), hqf ▸ h1, e1 ▸ h2, e2 ▸ h3⟩
            · exact ⟨q, (memB q).mpr (Or.inr ⟨hq, hqp, hqf⟩), h1, h2, h3⟩
        have eB_bf : sB.bridgingFee = s.bridgingFee := by
          rw [← hsB, ← hsA]; exact (oframe_releaseEffect s p).bf
        have eB_lps : sB.lps = s.lps := by
          rw [← hsB, ← hsA]; exact (oframe_releaseEffect s p).lps
        have eB_os : sB.orders = s.orders := eB_or.trans eA_or
        split
        · -- no order for this packet
          rename_i hgo
          refine ⟨?_, by rw [eB_os]; exact h.okeys, by rw [eB_os, eB_bf]; exact h.price, by rw [eB_lps]; exact h.lps⟩
          intro o ho
          rw [eB_os] at ho
          apply keep o ho
          rintro ⟨e1, e2⟩
          unfold getOrder at hgo
          rw [eB_os] at hgo
          have := List.find?_eq_none.mp hgo o ho
          simp [e1, e2] at this
        · rename_i o0 hgo
          obtain ⟨ho0, hs0, hi0⟩ := getOrder_some hgo
          rw [eB_os] at ho0
          rw [hi0]
          have hD : Inv05 (delOrder sB .pending (pkey p)) := by
            refine ⟨?_, ?_, ?_, by show ∀ l ∈ sB.lps, _; rw [eB_lps]; exact h.lps⟩
            · intro o ho
              obtain ⟨ho1, ho2⟩ := mem_delOrder.mp ho
              rw [eB_os] at ho1
              exact keep o ho1 ho2
            · show OrdersNodup (sB.orders.filter _)
              rw [eB_os]; exact List.Pairwise.filter _ h.okeys
            · intro o ho
              obtain ⟨ho1, _⟩ := mem_delOrder.mp ho
              rw [eB_os] at ho1
              show PriceOk sB.bridgingFee o
              rw [eB_bf]; exact h.price o ho1
          apply InvO.setOrder hD
          · exact ⟨flipped p1, (memB _).mpr (Or.inl rfl), rfl, rfl, hflip⟩
          · show PriceOk sB.bridgingFee _
            rw [eB_bf]
            exact h.price o0 ho0


theorem msgFinalize_inv05 {s s' : St} {a rid ph t src seq} (h : Inv05 s) (hk : KeysNodup s.packets)
    (hf : msgFinalize s a rid ph t src seq = .ok s') : Inv05 s' := by
  unfold msgFinalize at hf
  split at hf
  · cases hf
  · exact inv05_finalizePacket h hk hf

theorem msgFinalizeByKey_inv05 {s s' : St} {a b} (h : Inv05 s) (hk : KeysNodup s.packets)
    (hf : msgFinalizeByKey s a b = .ok s') : Inv05 s' := by
  unfold msgFinalizeByKey at hf
  split at hf
  · cases hf
  · split at hf
    · cases hf
    · exact inv05_finalizePacket h hk hf

theorem inv05_updateTransferAddress {s s' : St} {k : Bytes} {a : Addr} (h : Inv05 s)
    (hu : updateTransferAddress s k a = .ok s') : Inv05 s' := by
  obtain ⟨p, _, _, rfl⟩ := updateTransferAddress_ok hu
  exact InvO.setPacket (inv05_addByAddr _ _ (inv05_delByAddr _ _ h)) _

theorem inv05_setOrderFulfilled {s s' : St} {o : Order} {f : Addr} {c : Option Addr} (h : Inv05 s) (ho : o ∈ s.orders)
    (hu : setOrderFulfilled s o f c = .ok s') : Inv05 s' := by
  unfold setOrderFulfilled at hu
  refine inv05_updateTransferAddress (InvO.setOrder h _ ?_ ?_) hu
  · exact h.link o ho
  · exact h.price o ho

theorem inv05_fulfillCore {s s' : St} {o : Order} {f : Addr} (h : Inv05 s) (ho : o ∈ s.orders)
    (hu : fulfillCore s o f = .ok s') : Inv05 s' := by
  unfold fulfillCore at hu
  split at hu
  · cases hu
  · split at hu
    · cases hu
    · rename_i s1 hs
      have f1 := oframe_sendCoins hs
      exact inv05_setOrderFulfilled (Inv05.of_frame f1 h) (by rw [f1.orders]; exact ho) hu

theorem outstanding_mem {s : St} {id : Bytes} {o : Order} (h : getOutstanding s id = .ok o) : o ∈ s.orders :=
  (getOrder_some (getOutstanding_ok h).1).1

theorem inv05_msgFulfill {s s' : St} {a id fee} (h : Inv05 s) (hu : msgFulfill s a id fee = .ok s') : Inv05 s' := by
  obtain ⟨o, ho, _, hc⟩ := msgFulfill_ok hu
  exact inv05_fulfillCore h (outstanding_mem ho) hc

theorem inv05_msgUpdateFee {s s' : St} {a id fee} (h : Inv05 s) (hu : msgUpdateFee s a id fee = .ok s') : Inv05 s' := by
  obtain ⟨hf, o, p, price, ho, _, _, hc, rfl⟩ := msgUpdateFee_ok hu
  obtain ⟨h1, h2⟩ := calcPrice_ok hc
  apply InvO.setOrder h
  · exact h.link o (outstanding_mem ho)
  · refine ⟨h2, hf, ?_⟩
    show price + fee + (if (p.ptype == PType.onRecv) = true then _ else 0) = p.amount
    cases hb : (p.ptype == PType.onRecv) with
    | true => simp only [hb, if_true] at h1 ⊢; exact h1
    | false =>
      simp only [hb, Bool.false_eq_true, if_false] at h1 ⊢
      have z : (Dec.zero.mulInt p.amount).truncateInt = 0 := by
        simp [Dec.zero, Dec.mulInt, Dec.truncateInt, chopTrunc]
      omega

theorem inv05_lpDel {s s1 : St} (h : Inv05 s) (hd : LpDel s s1) : Inv05 s1 := by
  rw [hd.eq]
  exact ⟨h.link, h.okeys, h.price, fun l hl => h.lps l (hd.sub l hl)⟩

theorem inv05_msgOnDemand {s s' : St} {id perm} (h : Inv05 s) (hu : msgOnDemand s id perm = .ok s') : Inv05 s' := by
  obtain ⟨o, ho, l0, hl0, s1, s2, hd, hc, rfl⟩ := msgOnDemand_ok hu
  obtain ⟨_, _, _, _, h5, _, _⟩ := compatible_spec hl0
  have h1 : Inv05 s1 := inv05_lpDel h hd
  have ho1 : o ∈ s1.orders := by rw [hd.eq]; exact outstanding_mem ho
  exact InvO.setLp (inv05_fulfillCore h1 ho1 hc) _ (by show l0.spent + o.price ≤ l0.spendLimit; omega)

theorem oframe_payOperator {s s' : St} {a b d v} (h : payOperator s a b d v = some s') : OFrame s s' := by
  unfold payOperator at h
  split at h
  · exact oframe_sendCoins h
  · cases h; exact OFrame.refl s

theorem inv05_fulfillAuthorizedCore {s s' : St} {m : AuthMsg} (h : Inv05 s) (hu : fulfillAuthorizedCore s m = .ok s') : Inv05 s' := by
  obtain ⟨o, ho, _, s1, s2, hs1, hs2, hf⟩ := fulfillAuthorizedCore_ok hu
  have f := (oframe_sendCoins hs1).trans (oframe_payOperator hs2)
  exact inv05_setOrderFulfilled (Inv05.of_frame f h) (by rw [f.orders]; exact outstanding_mem ho) hf

theorem inv05_msgFulfillAuthorized {s s' : St} {g m} (h : Inv05 s) (hu : msgFulfillAuthorized s g m = .ok s') : Inv05 s' := by
  obtain ⟨_, hcase⟩ := msgFulfillAuthorized_ok hu
  rcases hcase with ⟨_, hc⟩ | ⟨_, gr, r, _, _, hc⟩
  · exact inv05_fulfillAuthorizedCore h hc
  · cases r with
    | none => exact inv05_fulfillAuthorizedCore (s := delGrant s m.lp g) h hc
    | some g' => exact inv05_fulfillAuthorizedCore (s := setGrant s g') h hc

theorem inv05_msgCreateLp {s s' : St} {l ok} (h : Inv05 s) (hu : msgCreateLp s l ok = .ok s') : Inv05 s' := by
  unfold msgCreateLp at hu
  split at hu
  · cases hu
  · split at hu
    · cases hu
    · rename_i hv
      cases hu
      simp only [Bool.or_eq_true, decide_eq_true_eq, not_or, Int.not_le, Int.not_lt] at hv
      have := InvO.setLp h { l with id := s.nextLp, spent := 0 } (Int.le_of_lt hv.2)
      exact this

theorem inv05_msgDeleteLps {owner : Addr} : ∀ (ids : List Nat) {s s' : St}, Inv05 s → msgDeleteLps s owner ids = .ok s' → Inv05 s'
  | [], s, s', h, hu => by unfold msgDeleteLps at hu; cases hu; exact h
  | id :: rest, s, s', h, hu => by
    unfold msgDeleteLps at hu
    split at hu
    · exact inv05_msgDeleteLps rest h hu
    · split at hu
      · cases hu
      · exact inv05_msgDeleteLps rest (InvO.delLp h id) hu

theorem inv05_msgGrant {s s' : St} {g} (h : Inv05 s) (hu : msgGrant s g = .ok s') : Inv05 s' := by
  unfold msgGrant at hu
  split at hu
  · cases hu
  · split at hu
    · cases hu
    · split at hu
      · cases hu
      · cases hu; exact h

/-- `DeleteRollappPacket` + `AfterPacketDeleted`: the orders of the packet go with it -/
theorem inv05_deletePacket {s : St} (p : Packet) (h : Inv05 s) : Inv05 (deletePacket s p) := by
  unfold deletePacket
  refine ⟨?_, ?_, ?_, h.lps⟩
  · intro o ho
    obtain ⟨ho1, hf⟩ := mem_delOrder.mp ho
    obtain ⟨ho2, hp⟩ := mem_delOrder.mp ho1
    obtain ⟨q, hq, h1, h2, h3⟩ := h.link o ho2
    refine ⟨q, ?_, h1, h2, h3⟩
    show q ∈ (delPacket s (pkey p)).packets
    refine mem_delPacket.mpr ⟨hq, ?_⟩
    intro hk
    obtain ⟨e1, e2⟩ := pkey_eq_parts hk
    cases hs : p.status with
    | pending => exact hp ⟨by rw [← h2, e1, hs], by rw [← h3, e2]⟩
    | finalized => exact hf ⟨by rw [← h2, e1, hs], by rw [← h3, e2]⟩
  · exact List.Pairwise.filter _ (List.Pairwise.filter _ h.okeys)
  · intro o ho
    exact h.price o (mem_delOrder.mp (mem_delOrder.mp ho).1).1

theorem inv05_foldl_deletePacket : ∀ (l : List Packet) {s : St}, Inv05 s → Inv05 (l.foldl deletePacket s)
  | [], _, h => h
  | p :: rest, _, h => inv05_foldl_deletePacket rest (inv05_deletePacket p h)

theorem inv05_revertPacket {s : St} (p : Packet) (h : Inv05 s) : Inv05 (revertPacket s p) := by
  unfold revertPacket
  apply inv05_deletePacket
  unfold revertIbc
  split <;> exact h

theorem inv05_foldl_revertPacket : ∀ (l : List Packet) {s : St}, Inv05 s → Inv05 (l.foldl revertPacket s)
  | [], _, h => h
  | p :: rest, _, h => inv05_foldl_revertPacket rest (inv05_revertPacket p h)

theorem inv05_setRa {s : St} (r : Rollapp) (h : Inv05 s) : Inv05 (setRa s r) := h

theorem inv05_forkRollapp {s s' : St} {rid lv} (h : Inv05 s) (hf : forkRollapp s rid lv = .ok s') : Inv05 s' := by
  unfold forkRollapp at hf
  split at hf
  · cases hf
  · split at hf
    · cases hf
    · split at hf
      · cases hf
      · split at hf
        · cases hf
        · cases hf
          exact inv05_foldl_revertPacket _ (inv05_setRa _ h)

theorem inv05_addState {s s' : St} {rid n} (h : Inv05 s) (hf : addState s rid n = .ok s') : Inv05 s' := by
  unfold addState at hf
  split at hf
  · cases hf
  · split at hf
    · cases hf
    · cases hf; exact h

theorem inv05_finalizeState {s s' : St} {rid} (h : Inv05 s) (hf : finalizeState s rid = .ok s') : Inv05 s' := by
  unfold finalizeState at hf
  split at hf
  · cases hf
  · split at hf
    · cases hf; exact h
    · cases hf

/-- both invariants together -/
def Inv (s : St) : Prop := Inv04 s ∧ Inv05 s

theorem inv_ofM2 {s : St} {m : M St} (h : Inv s) (hm : ∀ s', m = .ok s' → Inv s') : Inv (ofM s m).1 := by
  cases m with
  | ok s' => exact hm s' rfl
  | error e => exact h

theorem inv_step_both {s : St} (o : Op) (h : Inv s) : Inv (step s o).1 := by
  refine ⟨inv_step o h.1, ?_⟩
  have hk : KeysNodup s.packets := InvF.keys h.1
  have h5 := h.2
  cases o with
  | recv c seq ph d =>
    show Inv05 (recvPacket s c seq ph d).1
    rcases recvPacket_cases s c seq ph d with e | e <;> rw [e]
    · exact h5
    · exact inv05_recvOpen c seq ph d h5
  | send a c d amt =>
    exact (inv_ofM2 (m := sendTransfer s a c d amt) h
      (fun _ e => ⟨inv_sendOpen h.1 (sendTransfer_ok e), inv05_sendOpen h5 (sendTransfer_ok e)⟩)).2
  | ack c seq ph isErr =>
    simp only [step]
    split
    · exact h5
    · rename_i s' e; exact inv05_ackOpen h5 (ackPacket_ok e)
    · exact h5
  | timeout c seq ph =>
    simp only [step]
    split
    · exact h5
    · rename_i s' e; exact inv05_ackOpen h5 (ackPacket_ok e)
    · exact h5
  | chanClose c => exact (inv_ofM2 h (fun _ e => ⟨Inv04.of_frame (frame_setChanClosed e) h.1, Inv05.of_frame (oframe_setChanClosed e) h5⟩)).2
  | chanOpen c => exact (inv_ofM2 h (fun _ e => ⟨Inv04.of_frame (frame_setChanClosed e) h.1, Inv05.of_frame (oframe_setChanClosed e) h5⟩)).2
  | timeoutOnClose c seq => exact (inv_ofM2 h (fun _ e => by unfold timeoutOnClose at e; split at e <;> cases e; exact ⟨h.1, h5⟩)).2
  | sendBlk a c d amt =>
    exact (inv_ofM2 h (fun _ e => by
      obtain ⟨s1, hs, rfl⟩ := sendBlk_ok e
      exact ⟨(inv_sendOpen h.1 hs : Inv04 s1), (inv05_sendOpen h5 hs : Inv05 s1)⟩)).2
  | finalize a rid ph t src seq => exact (inv_ofM2 h (fun _ e => ⟨inv_msgFinalize h.1 e, msgFinalize_inv05 h5 hk e⟩)).2
  | finalizeByKey a b => exact (inv_ofM2 h (fun _ e => ⟨inv_msgFinalizeByKey h.1 e, msgFinalizeByKey_inv05 h5 hk e⟩)).2
  | fulfill a id fee => exact (inv_ofM2 h (fun _ e => ⟨inv_msgFulfill h.1 e, inv05_msgFulfill h5 e⟩)).2
  | fulfillAuth g m => exact (inv_ofM2 h (fun _ e => ⟨inv_msgFulfillAuthorized h.1 e, inv05_msgFulfillAuthorized h5 e⟩)).2
  | onDemand a id perm => exact (inv_ofM2 h (fun _ e => ⟨inv_msgOnDemand h.1 e, inv05_msgOnDemand h5 e⟩)).2
  | updateFee a id fee => exact (inv_ofM2 h (fun _ e => ⟨Inv04.of_frame (frame_msgUpdateFee e) h.1, inv05_msgUpdateFee h5 e⟩)).2
  | createLp l ok => exact (inv_ofM2 h (fun _ e => ⟨Inv04.of_frame (frame_msgCreateLp e) h.1, inv05_msgCreateLp h5 e⟩)).2
  | deleteLps a ids => exact (inv_ofM2 h (fun _ e => ⟨Inv04.of_frame (frame_msgDeleteLps ids e) h.1, inv05_msgDeleteLps ids h5 e⟩)).2
  | grant g => exact (inv_ofM2 h (fun _ e => ⟨Inv04.of_frame (frame_msgGrant e) h.1, inv05_msgGrant h5 e⟩)).2
  | addState rid n => exact (inv_ofM2 h (fun _ e => ⟨inv_addState h.1 e, inv05_addState h5 e⟩)).2
  | finalizeState rid => exact (inv_ofM2 h (fun _ e => ⟨inv_finalizeState h.1 e, inv05_finalizeState h5 e⟩)).2
  | fork rid lv => exact (inv_ofM2 h (fun _ e => ⟨inv_forkRollapp h.1 e, inv05_forkRollapp h5 e⟩)).2
  | epoch => exact inv05_foldl_deletePacket _ h5
  | block => exact h5

theorem inv_run_both : ∀ (ops : List Op) {s : St}, Inv s → Inv (run s ops)
  | [], _, h => h
  | o :: rest, s, h => by
    show Inv (run (step s o).1 rest)
    exact inv_run_both rest (inv_step_both o h)

theorem inv_init_both (n : Nat) (fund : Int) (a b c : Dec) (r0 r1 : Bytes) (ch : List Chan) : Inv (initSt n fund a b c r0 r1 ch) := by
  refine ⟨inv_init n fund a b c r0 r1 ch, ?_⟩
  unfold Inv05
  exact ⟨(by intro o ho; cases ho), List.Pairwise.nil, (by intro o ho; cases ho), (by intro l hl; cases hl)⟩

end DymVerif.Packets
