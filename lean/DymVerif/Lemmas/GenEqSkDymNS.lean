/-
  Lemmas/GenEqSkDymNS — tie 1 for C17 (M-DymNS, Model/DymNS.lean): the normalised statement listing (translate/skel.go `listing`:
  every `if` / `for` / `switch` header, call, assignment and `return` in source order; comments, logging,
  events and error-message texts dropped) of EVERY function with a body in the files the property is
  anchored in, regenerated from /repo's working tree on every run (Gen/SkDymNS.lean), equals the listing
  the model was written and validated against.  A dropped or weakened guard, a reordered effect, a
  changed operand, a new early return, a new or vanished function breaks the corresponding lemma; the
  check then searches for a failing input with the harness' monitors (DESIGN.md §12.2).
-/
import DymVerif.Gen.SkDymNS
namespace DymVerif.GenEqSk.DymNS

/-- `EstimateRegisterAlias` -/
theorem k_EstimateRegisterAlias_listing : Gen.SkDymNS.k_EstimateRegisterAlias =
  ["func EstimateRegisterAlias(alias string, priceParams dymnstypes.PriceParams) dymnstypes.EstimateRegisterAliasResponse",
   "  return dymnstypes.EstimateRegisterAliasResponse{Price: sdk.NewCoin(priceParams.PriceDenom, priceParams.GetAliasPrice(alias))}"] := rfl

/-- `EstimateRegisterName` -/
theorem k_EstimateRegisterName_listing : Gen.SkDymNS.k_EstimateRegisterName =
  ["func EstimateRegisterName(priceParams dymnstypes.PriceParams, name string, existingDymName *dymnstypes.DymName, newOwner string, duration int64) dymnstypes.EstimateRegisterNameResponse",
   "  var newFirstYearPrice, extendsPrice math.Int",
   "  if existingDymName != nil && existingDymName.Owner == newOwner",
   "    newFirstYearPrice = math.ZeroInt()",
   "    extendsPrice = priceParams.PriceExtends.Mul(math.NewInt(duration))",
   "  else",
   "    newFirstYearPrice = priceParams.GetFirstYearDymNamePrice(name)",
   "    if duration > 1",
   "      extendsPrice = priceParams.PriceExtends.Mul(math.NewInt(duration - 1))",
   "    else",
   "      extendsPrice = math.ZeroInt()",
   "  return dymnstypes.EstimateRegisterNameResponse{FirstYearPrice: sdk.NewCoin(priceParams.PriceDenom, newFirstYearPrice), ExtendPrice: sdk.NewCoin(priceParams.PriceDenom, extendsPrice), TotalPrice: sdk.NewCoin(priceParams.PriceDenom, newFirstYearPrice.Add(extendsPrice))}"] := rfl

/-- `Keeper.AddReverseMappingAssetIdToBuyOrder` -/
theorem k_Keeper_AddReverseMappingAssetIdToBuyOrder_listing : Gen.SkDymNS.k_Keeper_AddReverseMappingAssetIdToBuyOrder =
  ["func (k Keeper) AddReverseMappingAssetIdToBuyOrder(ctx sdk.Context, assetId string, assetType dymnstypes.AssetType, orderId string) error",
   "  var key []byte",
   "  switch assetType",
   "    case dymnstypes.TypeName",
   "      if !dymnsutils.IsValidDymName(assetId)",
   "        return gerrc.ErrInvalidArgument",
   "      key = dymnstypes.DymNameToBuyOrderIdsRvlKey(assetId)",
   "    case dymnstypes.TypeAlias",
   "      if !dymnsutils.IsValidAlias(assetId)",
   "        return gerrc.ErrInvalidArgument",
   "      key = dymnstypes.AliasToBuyOrderIdsRvlKey(assetId)",
   "    default",
   "      return gerrc.ErrInvalidArgument",
   "  if !dymnstypes.IsValidBuyOrderId(orderId)",
   "    return gerrc.ErrInvalidArgument",
   "  return k.GenericAddReverseLookupBuyOrderIdsRecord(ctx, key, orderId)"] := rfl

/-- `Keeper.AddReverseMappingBuyerToBuyOrderRecord` -/
theorem k_Keeper_AddReverseMappingBuyerToBuyOrderRecord_listing : Gen.SkDymNS.k_Keeper_AddReverseMappingBuyerToBuyOrderRecord =
  ["func (k Keeper) AddReverseMappingBuyerToBuyOrderRecord(ctx sdk.Context, buyer, orderId string) error",
   "  accAddr, err := sdk.AccAddressFromBech32(buyer)",
   "  if err != nil",
   "    return gerrc.ErrInvalidArgument",
   "  if !dymnstypes.IsValidBuyOrderId(orderId)",
   "    return gerrc.ErrInvalidArgument",
   "  key := dymnstypes.BuyerToOrderIdsRvlKey(accAddr)",
   "  return k.GenericAddReverseLookupBuyOrderIdsRecord(ctx, key, orderId)"] := rfl

/-- `Keeper.AddReverseMappingConfiguredAddressToDymName` -/
theorem k_Keeper_AddReverseMappingConfiguredAddressToDymName_listing : Gen.SkDymNS.k_Keeper_AddReverseMappingConfiguredAddressToDymName =
  ["func (k Keeper) AddReverseMappingConfiguredAddressToDymName(ctx sdk.Context, configuredAddress, name string) error",
   "  configuredAddress = normalizeConfiguredAddressForReverseMapping(configuredAddress)",
   "  err := validateConfiguredAddressForReverseMapping(configuredAddress)",
   "  if err != nil",
   "    return err",
   "  return k.GenericAddReverseLookupDymNamesRecord(ctx, dymnstypes.ConfiguredAddressToDymNamesIncludeRvlKey(configuredAddress), name)"] := rfl

/-- `Keeper.AddReverseMappingFallbackAddressToDymName` -/
theorem k_Keeper_AddReverseMappingFallbackAddressToDymName_listing : Gen.SkDymNS.k_Keeper_AddReverseMappingFallbackAddressToDymName =
  ["func (k Keeper) AddReverseMappingFallbackAddressToDymName(ctx sdk.Context, fallbackAddr dymnstypes.FallbackAddress, name string) error",
   "  err := fallbackAddr.ValidateBasic()",
   "  if err != nil",
   "    return err",
   "  return k.GenericAddReverseLookupDymNamesRecord(ctx, dymnstypes.FallbackAddressToDymNamesIncludeRvlKey(fallbackAddr), name)"] := rfl

/-- `Keeper.AddReverseMappingOwnerToOwnedDymName` -/
theorem k_Keeper_AddReverseMappingOwnerToOwnedDymName_listing : Gen.SkDymNS.k_Keeper_AddReverseMappingOwnerToOwnedDymName =
  ["func (k Keeper) AddReverseMappingOwnerToOwnedDymName(ctx sdk.Context, owner, name string) error",
   "  accAddr, err := sdk.AccAddressFromBech32(owner)",
   "  if err != nil",
   "    return gerrc.ErrInvalidArgument",
   "  dymNamesOwnedByAccountKey := dymnstypes.DymNamesOwnedByAccountRvlKey(accAddr)",
   "  return k.GenericAddReverseLookupDymNamesRecord(ctx, dymNamesOwnedByAccountKey, name)"] := rfl

/-- `Keeper.AfterDymNameConfigChanged` -/
theorem k_Keeper_AfterDymNameConfigChanged_listing : Gen.SkDymNS.k_Keeper_AfterDymNameConfigChanged =
  ["func (k Keeper) AfterDymNameConfigChanged(ctx sdk.Context, name string) error",
   "  dymName := k.GetDymName(ctx, name)",
   "  if dymName == nil",
   "    return gerrc.ErrNotFound",
   "  configuredAddresses, fallbackAddresses := dymName.GetAddressesForReverseMapping()",
   "  for _, configuredAddress := range dymnsutils.GetSortedStringKeys(configuredAddresses)",
   "    err := k.AddReverseMappingConfiguredAddressToDymName(ctx, configuredAddress, name)",
   "    if err != nil",
   "      return err",
   "  for _, fallbackAddrAsHex := range dymnsutils.GetSortedStringKeys(fallbackAddresses)",
   "    bz := dymnsutils.GetBytesFromHexAddress(fallbackAddrAsHex)",
   "    err := k.AddReverseMappingFallbackAddressToDymName(ctx, bz, name)",
   "    if err != nil",
   "      return err",
   "  return nil"] := rfl

/-- `Keeper.AfterDymNameOwnerChanged` -/
theorem k_Keeper_AfterDymNameOwnerChanged_listing : Gen.SkDymNS.k_Keeper_AfterDymNameOwnerChanged =
  ["func (k Keeper) AfterDymNameOwnerChanged(ctx sdk.Context, name string) error",
   "  dymName := k.GetDymName(ctx, name)",
   "  if dymName == nil",
   "    return gerrc.ErrNotFound",
   "  return k.AddReverseMappingOwnerToOwnedDymName(ctx, dymName.Owner, name)"] := rfl

/-- `Keeper.BeforeDymNameConfigChanged` -/
theorem k_Keeper_BeforeDymNameConfigChanged_listing : Gen.SkDymNS.k_Keeper_BeforeDymNameConfigChanged =
  ["func (k Keeper) BeforeDymNameConfigChanged(ctx sdk.Context, name string) error",
   "  dymName := k.GetDymName(ctx, name)",
   "  if dymName == nil",
   "    return nil",
   "  configuredAddresses, fallbackAddresses := dymName.GetAddressesForReverseMapping()",
   "  for _, configuredAddress := range dymnsutils.GetSortedStringKeys(configuredAddresses)",
   "    err := k.RemoveReverseMappingConfiguredAddressToDymName(ctx, configuredAddress, name)",
   "    if err != nil",
   "      return err",
   "  for _, fallbackAddress := range dymnsutils.GetSortedStringKeys(fallbackAddresses)",
   "    bz := dymnsutils.GetBytesFromHexAddress(fallbackAddress)",
   "    err := k.RemoveReverseMappingFallbackAddressToDymName(ctx, bz, name)",
   "    if err != nil",
   "      return err",
   "  return nil"] := rfl

/-- `Keeper.BeforeDymNameOwnerChanged` -/
theorem k_Keeper_BeforeDymNameOwnerChanged_listing : Gen.SkDymNS.k_Keeper_BeforeDymNameOwnerChanged =
  ["func (k Keeper) BeforeDymNameOwnerChanged(ctx sdk.Context, name string) error",
   "  dymName := k.GetDymName(ctx, name)",
   "  if dymName == nil",
   "    return nil",
   "  return k.RemoveReverseMappingOwnerToOwnedDymName(ctx, dymName.Owner, dymName.Name)"] := rfl

/-- `Keeper.CompleteAliasSellOrder` -/
theorem k_Keeper_CompleteAliasSellOrder_listing : Gen.SkDymNS.k_Keeper_CompleteAliasSellOrder =
  ["func (k Keeper) CompleteAliasSellOrder(ctx sdk.Context, name string) error",
   "  so := k.GetSellOrder(ctx, name, dymnstypes.TypeAlias)",
   "  if so == nil",
   "    return gerrc.ErrNotFound",
   "  if !so.HasFinishedAtCtx(ctx)",
   "    return gerrc.ErrFailedPrecondition",
   "  if so.HighestBid == nil",
   "    return gerrc.ErrFailedPrecondition",
   "  existingRollAppIdUsingAlias, found := k.GetRollAppIdByAlias(ctx, so.AssetId)",
   "  if !found",
   "    return gerrc.ErrNotFound",
   "  existingRollAppUsingAlias, found := k.rollappKeeper.GetRollapp(ctx, existingRollAppIdUsingAlias)",
   "  if !found",
   "    return gerrc.ErrNotFound",
   "  destinationRollAppId := so.HighestBid.Params[0]",
   "  if !k.IsRollAppId(ctx, destinationRollAppId)",
   "    return gerrc.ErrInvalidArgument",
   "  err := k.bankKeeper.SendCoinsFromModuleToAccount(ctx, dymnstypes.ModuleName, sdk.MustAccAddressFromBech32(existingRollAppUsingAlias.Owner), sdk.Coins{so.HighestBid.Price})",
   "  if err != nil",
   "    return err",
   "  k.DeleteSellOrder(ctx, so.AssetId, so.AssetType)",
   "  err := k.RemoveAliasFromRollAppId(ctx, existingRollAppIdUsingAlias, so.AssetId)",
   "  if err != nil",
   "    return err",
   "  err := k.SetAliasForRollAppId(ctx, destinationRollAppId, so.AssetId)",
   "  if err != nil",
   "    return err",
   "  return nil"] := rfl

/-- `Keeper.CompleteDymNameSellOrder` -/
theorem k_Keeper_CompleteDymNameSellOrder_listing : Gen.SkDymNS.k_Keeper_CompleteDymNameSellOrder =
  ["func (k Keeper) CompleteDymNameSellOrder(ctx sdk.Context, name string) error",
   "  dymName := k.GetDymName(ctx, name)",
   "  if dymName == nil",
   "    return gerrc.ErrNotFound",
   "  so := k.GetSellOrder(ctx, name, dymnstypes.TypeName)",
   "  if so == nil",
   "    return gerrc.ErrNotFound",
   "  if !so.HasFinishedAtCtx(ctx)",
   "    return gerrc.ErrFailedPrecondition",
   "  if so.HighestBid == nil",
   "    return gerrc.ErrFailedPrecondition",
   "  newOwner := so.HighestBid.Bidder",
   "  previousOwner := dymName.Owner",
   "  err := k.bankKeeper.SendCoinsFromModuleToAccount(ctx, dymnstypes.ModuleName, sdk.MustAccAddressFromBech32(previousOwner), sdk.Coins{so.HighestBid.Price})",
   "  if err != nil",
   "    return err",
   "  k.DeleteSellOrder(ctx, so.AssetId, so.AssetType)",
   "  err := k.BeforeDymNameOwnerChanged(ctx, dymName.Name)",
   "  if err != nil",
   "    return err",
   "  err := k.BeforeDymNameConfigChanged(ctx, dymName.Name)",
   "  if err != nil",
   "    return err",
   "  dymName.Owner = newOwner",
   "  dymName.Controller = newOwner",
   "  dymName.Configs = nil",
   "  dymName.Contact = \"\"",
   "  err := k.SetDymName(ctx, *dymName)",
   "  if err != nil",
   "    return err",
   "  err := k.AfterDymNameOwnerChanged(ctx, dymName.Name)",
   "  if err != nil",
   "    return err",
   "  err := k.AfterDymNameConfigChanged(ctx, dymName.Name)",
   "  if err != nil",
   "    return err",
   "  return nil"] := rfl

/-- `Keeper.DeleteBuyOrder` -/
theorem k_Keeper_DeleteBuyOrder_listing : Gen.SkDymNS.k_Keeper_DeleteBuyOrder =
  ["func (k Keeper) DeleteBuyOrder(ctx sdk.Context, orderId string)",
   "  offer := k.GetBuyOrder(ctx, orderId)",
   "  if offer == nil",
   "    return",
   "  store := ctx.KVStore(k.storeKey)",
   "  offerKey := dymnstypes.BuyOrderKey(orderId)",
   "  store.Delete(offerKey)"] := rfl

/-- `Keeper.DeleteDymName` -/
theorem k_Keeper_DeleteDymName_listing : Gen.SkDymNS.k_Keeper_DeleteDymName =
  ["func (k Keeper) DeleteDymName(ctx sdk.Context, name string) error",
   "  err := k.BeforeDymNameOwnerChanged(ctx, name)",
   "  if err != nil",
   "    return err",
   "  err := k.BeforeDymNameConfigChanged(ctx, name)",
   "  if err != nil",
   "    return err",
   "  store := ctx.KVStore(k.storeKey)",
   "  dymNameKey := dymnstypes.DymNameKey(name)",
   "  store.Delete(dymNameKey)",
   "  return nil"] := rfl

/-- `Keeper.DeleteSellOrder` -/
theorem k_Keeper_DeleteSellOrder_listing : Gen.SkDymNS.k_Keeper_DeleteSellOrder =
  ["func (k Keeper) DeleteSellOrder(ctx sdk.Context, assetId string, assetType dymnstypes.AssetType)",
   "  so := k.GetSellOrder(ctx, assetId, assetType)",
   "  if so == nil",
   "    return",
   "  store := ctx.KVStore(k.storeKey)",
   "  soKey := dymnstypes.SellOrderKey(assetId, assetType)",
   "  store.Delete(soKey)"] := rfl

/-- `Keeper.GenericAddReverseLookupBuyOrderIdsRecord` -/
theorem k_Keeper_GenericAddReverseLookupBuyOrderIdsRecord_listing : Gen.SkDymNS.k_Keeper_GenericAddReverseLookupBuyOrderIdsRecord =
  ["func (k Keeper) GenericAddReverseLookupBuyOrderIdsRecord(ctx sdk.Context, key []byte, orderId string) error",
   "  return k.GenericAddReverseLookupRecord(ctx, key, orderId, func#1, func#2)",
   "    func#1 (list []string) []byte",
   "      record := dymnstypes.ReverseLookupBuyOrderIds{OrderIds: list}",
   "      return k.cdc.MustMarshal(&record)",
   "    func#2 (bz []byte) []string",
   "      var record dymnstypes.ReverseLookupBuyOrderIds",
   "      k.cdc.MustUnmarshal(bz, &record)",
   "      return record.OrderIds"] := rfl

/-- `Keeper.GenericAddReverseLookupDymNamesRecord` -/
theorem k_Keeper_GenericAddReverseLookupDymNamesRecord_listing : Gen.SkDymNS.k_Keeper_GenericAddReverseLookupDymNamesRecord =
  ["func (k Keeper) GenericAddReverseLookupDymNamesRecord(ctx sdk.Context, key []byte, name string) error",
   "  return k.GenericAddReverseLookupRecord(ctx, key, name, func#1, func#2)",
   "    func#1 (list []string) []byte",
   "      record := dymnstypes.ReverseLookupDymNames{DymNames: list}",
   "      return k.cdc.MustMarshal(&record)",
   "    func#2 (bz []byte) []string",
   "      var record dymnstypes.ReverseLookupDymNames",
   "      k.cdc.MustUnmarshal(bz, &record)",
   "      return record.DymNames"] := rfl

/-- `Keeper.GenericAddReverseLookupRecord` -/
theorem k_Keeper_GenericAddReverseLookupRecord_listing : Gen.SkDymNS.k_Keeper_GenericAddReverseLookupRecord =
  ["func (k Keeper) GenericAddReverseLookupRecord(ctx sdk.Context, key []byte, newElement string, marshaller func([]string) []byte, unMarshaller func([]byte) []string) error",
   "  var modifiedRecord []string",
   "  store := ctx.KVStore(k.storeKey)",
   "  bz := store.Get(key)",
   "  if bz != nil",
   "    existingRecord := unMarshaller(bz)",
   "    if slices.Contains(existingRecord, newElement)",
   "      return nil",
   "    modifiedRecord = append(existingRecord, newElement)",
   "  else",
   "    modifiedRecord = []string{newElement}",
   "  bz = marshaller(modifiedRecord)",
   "  store.Set(key, bz)",
   "  return nil"] := rfl

/-- `Keeper.GenericGetReverseLookupBuyOrderIdsRecord` -/
theorem k_Keeper_GenericGetReverseLookupBuyOrderIdsRecord_listing : Gen.SkDymNS.k_Keeper_GenericGetReverseLookupBuyOrderIdsRecord =
  ["func (k Keeper) GenericGetReverseLookupBuyOrderIdsRecord(ctx sdk.Context, key []byte) dymnstypes.ReverseLookupBuyOrderIds",
   "  dymNames := k.GenericGetReverseLookupRecord(ctx, key, func#1)",
   "    func#1 (bz []byte) []string",
   "      var record dymnstypes.ReverseLookupBuyOrderIds",
   "      k.cdc.MustUnmarshal(bz, &record)",
   "      return record.OrderIds",
   "  return dymnstypes.ReverseLookupBuyOrderIds{OrderIds: dymNames}"] := rfl

/-- `Keeper.GenericGetReverseLookupDymNamesRecord` -/
theorem k_Keeper_GenericGetReverseLookupDymNamesRecord_listing : Gen.SkDymNS.k_Keeper_GenericGetReverseLookupDymNamesRecord =
  ["func (k Keeper) GenericGetReverseLookupDymNamesRecord(ctx sdk.Context, key []byte) dymnstypes.ReverseLookupDymNames",
   "  dymNames := k.GenericGetReverseLookupRecord(ctx, key, func#1)",
   "    func#1 (bz []byte) []string",
   "      var record dymnstypes.ReverseLookupDymNames",
   "      k.cdc.MustUnmarshal(bz, &record)",
   "      return record.DymNames",
   "  return dymnstypes.ReverseLookupDymNames{DymNames: dymNames}"] := rfl

/-- `Keeper.GenericGetReverseLookupRecord` -/
theorem k_Keeper_GenericGetReverseLookupRecord_listing : Gen.SkDymNS.k_Keeper_GenericGetReverseLookupRecord =
  ["func (k Keeper) GenericGetReverseLookupRecord(ctx sdk.Context, key []byte, unMarshaller func([]byte) []string) (result []string)",
   "  store := ctx.KVStore(k.storeKey)",
   "  bz := store.Get(key)",
   "  if bz != nil",
   "    result = unMarshaller(bz)",
   "  return"] := rfl

/-- `Keeper.GenericRemoveReverseLookupBuyOrderIdRecord` -/
theorem k_Keeper_GenericRemoveReverseLookupBuyOrderIdRecord_listing : Gen.SkDymNS.k_Keeper_GenericRemoveReverseLookupBuyOrderIdRecord =
  ["func (k Keeper) GenericRemoveReverseLookupBuyOrderIdRecord(ctx sdk.Context, key []byte, orderId string) error",
   "  return k.GenericRemoveReverseLookupRecord(ctx, key, orderId, func#1, func#2)",
   "    func#1 (list []string) []byte",
   "      record := dymnstypes.ReverseLookupBuyOrderIds{OrderIds: list}",
   "      return k.cdc.MustMarshal(&record)",
   "    func#2 (bz []byte) []string",
   "      var record dymnstypes.ReverseLookupBuyOrderIds",
   "      k.cdc.MustUnmarshal(bz, &record)",
   "      return record.OrderIds"] := rfl

/-- `Keeper.GenericRemoveReverseLookupDymNamesRecord` -/
theorem k_Keeper_GenericRemoveReverseLookupDymNamesRecord_listing : Gen.SkDymNS.k_Keeper_GenericRemoveReverseLookupDymNamesRecord =
  ["func (k Keeper) GenericRemoveReverseLookupDymNamesRecord(ctx sdk.Context, key []byte, name string) error",
   "  return k.GenericRemoveReverseLookupRecord(ctx, key, name, func#1, func#2)",
   "    func#1 (list []string) []byte",
   "      record := dymnstypes.ReverseLookupDymNames{DymNames: list}",
   "      return k.cdc.MustMarshal(&record)",
   "    func#2 (bz []byte) []string",
   "      var record dymnstypes.ReverseLookupDymNames",
   "      k.cdc.MustUnmarshal(bz, &record)",
   "      return record.DymNames"] := rfl

/-- `Keeper.GenericRemoveReverseLookupRecord` -/
theorem k_Keeper_GenericRemoveReverseLookupRecord_listing : Gen.SkDymNS.k_Keeper_GenericRemoveReverseLookupRecord =
  ["func (k Keeper) GenericRemoveReverseLookupRecord(ctx sdk.Context, key []byte, elementToRemove string, marshaller func([]string) []byte, unMarshaller func([]byte) []string) error",
   "  store := ctx.KVStore(k.storeKey)",
   "  bz := store.Get(key)",
   "  if bz == nil",
   "    return nil",
   "  existingRecord := unMarshaller(bz)",
   "  modifiedRecord := slices.DeleteFunc(existingRecord, func#1)",
   "    func#1 (r string) bool",
   "      return r == elementToRemove",
   "  if len(existingRecord) == len(modifiedRecord)",
   "    return nil",
   "  if len(modifiedRecord) == 0",
   "    store.Delete(key)",
   "    return nil",
   "  slices.SortFunc(modifiedRecord, func#2)",
   "    func#2 (a, b string) int",
   "      return strings.Compare(a, b)",
   "  bz = marshaller(modifiedRecord)",
   "  store.Set(key, bz)",
   "  return nil"] := rfl

/-- `Keeper.GenesisRefundBid` -/
theorem k_Keeper_GenesisRefundBid_listing : Gen.SkDymNS.k_Keeper_GenesisRefundBid =
  ["func (k Keeper) GenesisRefundBid(ctx sdk.Context, soBid dymnstypes.SellOrderBid) error",
   "  soBid.Params = nil",
   "  return k.refundBid(ctx, soBid, dymnstypes.TypeName, true)"] := rfl

/-- `Keeper.GenesisRefundBuyOrder` -/
theorem k_Keeper_GenesisRefundBuyOrder_listing : Gen.SkDymNS.k_Keeper_GenesisRefundBuyOrder =
  ["func (k Keeper) GenesisRefundBuyOrder(ctx sdk.Context, offer dymnstypes.BuyOrder) error",
   "  return k.refundBuyOrder(ctx, offer, true)"] := rfl

/-- `Keeper.GetAliasByRollAppId` -/
theorem k_Keeper_GetAliasByRollAppId_listing : Gen.SkDymNS.k_Keeper_GetAliasByRollAppId =
  ["func (k Keeper) GetAliasByRollAppId(ctx sdk.Context, rollAppId string) (alias string, found bool)",
   "  if !k.IsRollAppId(ctx, rollAppId)",
   "    return",
   "  defer func#1()",
   "    func#1 ()",
   "      found = alias != \"\"",
   "  store := ctx.KVStore(k.storeKey)",
   "  key := dymnstypes.RollAppIdToAliasesKey(rollAppId)",
   "  bz := store.Get(key)",
   "  if bz != nil",
   "    var multipleAliases dymnstypes.MultipleAliases",
   "    k.cdc.MustUnmarshal(bz, &multipleAliases)",
   "    alias = multipleAliases.Aliases[0]",
   "  return"] := rfl

/-- `Keeper.GetAliasesOfRollAppId` -/
theorem k_Keeper_GetAliasesOfRollAppId_listing : Gen.SkDymNS.k_Keeper_GetAliasesOfRollAppId =
  ["func (k Keeper) GetAliasesOfRollAppId(ctx sdk.Context, rollAppId string) []string",
   "  store := ctx.KVStore(k.storeKey)",
   "  keyR2A := dymnstypes.RollAppIdToAliasesKey(rollAppId)",
   "  var multipleAliases dymnstypes.MultipleAliases",
   "  bz := store.Get(keyR2A)",
   "  if bz != nil",
   "    k.cdc.MustUnmarshal(bz, &multipleAliases)",
   "  return multipleAliases.Aliases"] := rfl

/-- `Keeper.GetAllAliasAndChainIdInParams` -/
theorem k_Keeper_GetAllAliasAndChainIdInParams_listing : Gen.SkDymNS.k_Keeper_GetAllAliasAndChainIdInParams =
  ["func (k Keeper) GetAllAliasAndChainIdInParams(ctx sdk.Context) map[string]struct{}",
   "  result := make(map[string]struct{})",
   "  for _, aliasesOfChainId := range k.ChainsParams(ctx).AliasesOfChainIds",
   "    result[aliasesOfChainId.ChainId] = struct{}{}",
   "    for _, a := range aliasesOfChainId.Aliases",
   "      result[a] = struct{}{}",
   "  return result"] := rfl

/-- `Keeper.GetAllBuyOrders` -/
theorem k_Keeper_GetAllBuyOrders_listing : Gen.SkDymNS.k_Keeper_GetAllBuyOrders =
  ["func (k Keeper) GetAllBuyOrders(ctx sdk.Context) (list []dymnstypes.BuyOrder)",
   "  store := ctx.KVStore(k.storeKey)",
   "  iterator := storetypes.KVStorePrefixIterator(store, dymnstypes.KeyPrefixBuyOrder)",
   "  defer func#1()",
   "    func#1 ()",
   "      _ = iterator.Close()",
   "  for ; iterator.Valid(); iterator.Next()",
   "    var offer dymnstypes.BuyOrder",
   "    k.cdc.MustUnmarshal(iterator.Value(), &offer)",
   "    list = append(list, offer)",
   "  return"] := rfl

/-- `Keeper.GetAllDymNames` -/
theorem k_Keeper_GetAllDymNames_listing : Gen.SkDymNS.k_Keeper_GetAllDymNames =
  ["func (k Keeper) GetAllDymNames(ctx sdk.Context) (list []dymnstypes.DymName)",
   "  store := ctx.KVStore(k.storeKey)",
   "  iterator := storetypes.KVStorePrefixIterator(store, dymnstypes.KeyPrefixDymName)",
   "  defer func#1()",
   "    func#1 ()",
   "      _ = iterator.Close()",
   "  for ; iterator.Valid(); iterator.Next()",
   "    var dymName dymnstypes.DymName",
   "    k.cdc.MustUnmarshal(iterator.Value(), &dymName)",
   "    list = append(list, dymName)",
   "  return list"] := rfl

/-- `Keeper.GetAllNonExpiredDymNames` -/
theorem k_Keeper_GetAllNonExpiredDymNames_listing : Gen.SkDymNS.k_Keeper_GetAllNonExpiredDymNames =
  ["func (k Keeper) GetAllNonExpiredDymNames(ctx sdk.Context) (list []dymnstypes.DymName)",
   "  store := ctx.KVStore(k.storeKey)",
   "  iterator := storetypes.KVStorePrefixIterator(store, dymnstypes.KeyPrefixDymName)",
   "  defer func#1()",
   "    func#1 ()",
   "      _ = iterator.Close()",
   "  for ; iterator.Valid(); iterator.Next()",
   "    var dymName dymnstypes.DymName",
   "    k.cdc.MustUnmarshal(iterator.Value(), &dymName)",
   "    if dymName.IsExpiredAtCtx(ctx)",
   "      continue",
   "    list = append(list, dymName)",
   "  return"] := rfl

/-- `Keeper.GetAllRollAppsWithAliases` -/
theorem k_Keeper_GetAllRollAppsWithAliases_listing : Gen.SkDymNS.k_Keeper_GetAllRollAppsWithAliases =
  ["func (k Keeper) GetAllRollAppsWithAliases(ctx sdk.Context) (list []dymnstypes.AliasesOfChainId)",
   "  store := ctx.KVStore(k.storeKey)",
   "  iterator := storetypes.KVStorePrefixIterator(store, dymnstypes.KeyPrefixRollAppIdToAliases)",
   "  defer func#1()",
   "    func#1 ()",
   "      _ = iterator.Close()",
   "  for ; iterator.Valid(); iterator.Next()",
   "    var multipleAliases dymnstypes.MultipleAliases",
   "    k.cdc.MustUnmarshal(iterator.Value(), &multipleAliases)",
   "    list = append(list, dymnstypes.AliasesOfChainId{ChainId: string(iterator.Key()[len(dymnstypes.KeyPrefixRollAppIdToAliases):]), Aliases: multipleAliases.Aliases})",
   "  return list"] := rfl

/-- `Keeper.GetAllSellOrders` -/
theorem k_Keeper_GetAllSellOrders_listing : Gen.SkDymNS.k_Keeper_GetAllSellOrders =
  ["func (k Keeper) GetAllSellOrders(ctx sdk.Context) (list []dymnstypes.SellOrder)",
   "  store := ctx.KVStore(k.storeKey)",
   "  iterator := storetypes.KVStorePrefixIterator(store, dymnstypes.KeyPrefixSellOrder)",
   "  defer func#1()",
   "    func#1 ()",
   "      _ = iterator.Close()",
   "  for ; iterator.Valid(); iterator.Next()",
   "    var so dymnstypes.SellOrder",
   "    k.cdc.MustUnmarshal(iterator.Value(), &so)",
   "    list = append(list, so)",
   "  return list"] := rfl

/-- `Keeper.GetBuyOrder` -/
theorem k_Keeper_GetBuyOrder_listing : Gen.SkDymNS.k_Keeper_GetBuyOrder =
  ["func (k Keeper) GetBuyOrder(ctx sdk.Context, orderId string) *dymnstypes.BuyOrder",
   "  if !dymnstypes.IsValidBuyOrderId(orderId)",
   "    panic()",
   "  store := ctx.KVStore(k.storeKey)",
   "  offerKey := dymnstypes.BuyOrderKey(orderId)",
   "  bz := store.Get(offerKey)",
   "  if bz == nil",
   "    return nil",
   "  var offer dymnstypes.BuyOrder",
   "  k.cdc.MustUnmarshal(bz, &offer)",
   "  return &offer"] := rfl

/-- `Keeper.GetBuyOrdersByBuyer` -/
theorem k_Keeper_GetBuyOrdersByBuyer_listing : Gen.SkDymNS.k_Keeper_GetBuyOrdersByBuyer =
  ["func (k Keeper) GetBuyOrdersByBuyer(ctx sdk.Context, buyer string) ([]dymnstypes.BuyOrder, error)",
   "  accAddr, err := sdk.AccAddressFromBech32(buyer)",
   "  if err != nil",
   "    return nil, gerrc.ErrInvalidArgument",
   "  key := dymnstypes.BuyerToOrderIdsRvlKey(accAddr)",
   "  existingOrderIds := k.GenericGetReverseLookupBuyOrderIdsRecord(ctx, key)",
   "  var buyOrders []dymnstypes.BuyOrder",
   "  for _, orderId := range existingOrderIds.OrderIds",
   "    buyOrder := k.GetBuyOrder(ctx, orderId)",
   "    if buyOrder == nil",
   "      continue",
   "    if buyOrder.Buyer != buyer",
   "      continue",
   "    buyOrders = append(buyOrders, *buyOrder)",
   "  return buyOrders, nil"] := rfl

/-- `Keeper.GetBuyOrdersOfAlias` -/
theorem k_Keeper_GetBuyOrdersOfAlias_listing : Gen.SkDymNS.k_Keeper_GetBuyOrdersOfAlias =
  ["func (k Keeper) GetBuyOrdersOfAlias(ctx sdk.Context, alias string) ([]dymnstypes.BuyOrder, error)",
   "  if !dymnsutils.IsValidAlias(alias)",
   "    return nil, gerrc.ErrInvalidArgument",
   "  key := dymnstypes.AliasToBuyOrderIdsRvlKey(alias)",
   "  orderIds := k.GenericGetReverseLookupBuyOrderIdsRecord(ctx, key)",
   "  var buyOrders []dymnstypes.BuyOrder",
   "  for _, orderId := range orderIds.OrderIds",
   "    buyOrder := k.GetBuyOrder(ctx, orderId)",
   "    if buyOrder == nil",
   "      continue",
   "    buyOrders = append(buyOrders, *buyOrder)",
   "  return buyOrders, nil"] := rfl

/-- `Keeper.GetBuyOrdersOfDymName` -/
theorem k_Keeper_GetBuyOrdersOfDymName_listing : Gen.SkDymNS.k_Keeper_GetBuyOrdersOfDymName =
  ["func (k Keeper) GetBuyOrdersOfDymName(ctx sdk.Context, name string) ([]dymnstypes.BuyOrder, error)",
   "  if !dymnsutils.IsValidDymName(name)",
   "    return nil, gerrc.ErrInvalidArgument",
   "  key := dymnstypes.DymNameToBuyOrderIdsRvlKey(name)",
   "  orderIds := k.GenericGetReverseLookupBuyOrderIdsRecord(ctx, key)",
   "  var buyOrders []dymnstypes.BuyOrder",
   "  for _, orderId := range orderIds.OrderIds",
   "    bo := k.GetBuyOrder(ctx, orderId)",
   "    if bo == nil",
   "      continue",
   "    buyOrders = append(buyOrders, *bo)",
   "  return buyOrders, nil"] := rfl

/-- `Keeper.GetCountBuyOrders` -/
theorem k_Keeper_GetCountBuyOrders_listing : Gen.SkDymNS.k_Keeper_GetCountBuyOrders =
  ["func (k Keeper) GetCountBuyOrders(ctx sdk.Context) uint64",
   "  store := ctx.KVStore(k.storeKey)",
   "  bz := store.Get(dymnstypes.KeyCountBuyOrders)",
   "  return sdk.BigEndianToUint64(bz)"] := rfl

/-- `Keeper.GetDymName` -/
theorem k_Keeper_GetDymName_listing : Gen.SkDymNS.k_Keeper_GetDymName =
  ["func (k Keeper) GetDymName(ctx sdk.Context, name string) *dymnstypes.DymName",
   "  store := ctx.KVStore(k.storeKey)",
   "  dymNameKey := dymnstypes.DymNameKey(name)",
   "  bz := store.Get(dymNameKey)",
   "  if bz == nil",
   "    return nil",
   "  var dymName dymnstypes.DymName",
   "  k.cdc.MustUnmarshal(bz, &dymName)",
   "  return &dymName"] := rfl

/-- `Keeper.GetDymNameWithExpirationCheck` -/
theorem k_Keeper_GetDymNameWithExpirationCheck_listing : Gen.SkDymNS.k_Keeper_GetDymNameWithExpirationCheck =
  ["func (k Keeper) GetDymNameWithExpirationCheck(ctx sdk.Context, name string) *dymnstypes.DymName",
   "  dymName := k.GetDymName(ctx, name)",
   "  if dymName == nil",
   "    return nil",
   "  if dymName.IsExpiredAtCtx(ctx)",
   "    return nil",
   "  return dymName"] := rfl

/-- `Keeper.GetDymNamesContainsConfiguredAddress` -/
theorem k_Keeper_GetDymNamesContainsConfiguredAddress_listing : Gen.SkDymNS.k_Keeper_GetDymNamesContainsConfiguredAddress =
  ["func (k Keeper) GetDymNamesContainsConfiguredAddress(ctx sdk.Context, configuredAddress string) ([]dymnstypes.DymName, error)",
   "  configuredAddress = normalizeConfiguredAddressForReverseMapping(configuredAddress)",
   "  err := validateConfiguredAddressForReverseMapping(configuredAddress)",
   "  if err != nil",
   "    return nil, err",
   "  key := dymnstypes.ConfiguredAddressToDymNamesIncludeRvlKey(configuredAddress)",
   "  currentDymNamesContainsConfiguredAddress := k.GenericGetReverseLookupDymNamesRecord(ctx, key)",
   "  var dymNames []dymnstypes.DymName",
   "  for _, name := range currentDymNamesContainsConfiguredAddress.DymNames",
   "    dymName := k.GetDymNameWithExpirationCheck(ctx, name)",
   "    if dymName == nil",
   "      continue",
   "    dymNames = append(dymNames, *dymName)",
   "  return dymNames, nil"] := rfl

/-- `Keeper.GetDymNamesContainsFallbackAddress` -/
theorem k_Keeper_GetDymNamesContainsFallbackAddress_listing : Gen.SkDymNS.k_Keeper_GetDymNamesContainsFallbackAddress =
  ["func (k Keeper) GetDymNamesContainsFallbackAddress(ctx sdk.Context, fallbackAddr dymnstypes.FallbackAddress) ([]dymnstypes.DymName, error)",
   "  err := fallbackAddr.ValidateBasic()",
   "  if err != nil",
   "    return nil, err",
   "  key := dymnstypes.FallbackAddressToDymNamesIncludeRvlKey(fallbackAddr)",
   "  currentDymNamesContainsFallbackAddress := k.GenericGetReverseLookupDymNamesRecord(ctx, key)",
   "  var dymNames []dymnstypes.DymName",
   "  for _, name := range currentDymNamesContainsFallbackAddress.DymNames",
   "    dymName := k.GetDymNameWithExpirationCheck(ctx, name)",
   "    if dymName == nil",
   "      continue",
   "    dymNames = append(dymNames, *dymName)",
   "  return dymNames, nil"] := rfl

/-- `Keeper.GetDymNamesOwnedBy` -/
theorem k_Keeper_GetDymNamesOwnedBy_listing : Gen.SkDymNS.k_Keeper_GetDymNamesOwnedBy =
  ["func (k Keeper) GetDymNamesOwnedBy(ctx sdk.Context, owner string) ([]dymnstypes.DymName, error)",
   "  accAddr, err := sdk.AccAddressFromBech32(owner)",
   "  if err != nil",
   "    return nil, gerrc.ErrInvalidArgument",
   "  dymNamesOwnedByAccountKey := dymnstypes.DymNamesOwnedByAccountRvlKey(accAddr)",
   "  existingOwnedDymNames := k.GenericGetReverseLookupDymNamesRecord(ctx, dymNamesOwnedByAccountKey)",
   "  var dymNames []dymnstypes.DymName",
   "  for _, owned := range existingOwnedDymNames.DymNames",
   "    dymName := k.GetDymNameWithExpirationCheck(ctx, owned)",
   "    if dymName == nil",
   "      continue",
   "    if dymName.Owner != owner",
   "      continue",
   "    dymNames = append(dymNames, *dymName)",
   "  return dymNames, nil"] := rfl

/-- `Keeper.GetEffectiveAliasesByChainId` -/
theorem k_Keeper_GetEffectiveAliasesByChainId_listing : Gen.SkDymNS.k_Keeper_GetEffectiveAliasesByChainId =
  ["func (k Keeper) GetEffectiveAliasesByChainId(ctx sdk.Context, chainId string) []string",
   "  var effectiveAliases []string",
   "  for _, aliasesOfChainId := range k.ChainsParams(ctx).AliasesOfChainIds",
   "    if aliasesOfChainId.ChainId != chainId",
   "      continue",
   "    effectiveAliases = aliasesOfChainId.Aliases",
   "    break",
   "  if k.IsRollAppId(ctx, chainId)",
   "    aliasesOfRollApp := k.GetAliasesOfRollAppId(ctx, chainId)",
   "    reservedAliases := k.GetAllAliasAndChainIdInParams(ctx)",
   "    aliasesOfRollApp = slices.DeleteFunc(aliasesOfRollApp, func#1)",
   "      func#1 (a string) bool",
   "        _, found := reservedAliases[a]",
   "        return found",
   "    effectiveAliases = append(effectiveAliases, aliasesOfRollApp...)",
   "  return effectiveAliases"] := rfl

/-- `Keeper.GetFutureRollAppHooks` -/
theorem k_Keeper_GetFutureRollAppHooks_listing : Gen.SkDymNS.k_Keeper_GetFutureRollAppHooks =
  ["func (k Keeper) GetFutureRollAppHooks() FutureRollappHooks",
   "  return rollappHooks{Keeper: k}"] := rfl

/-- `Keeper.GetRollAppHooks` -/
theorem k_Keeper_GetRollAppHooks_listing : Gen.SkDymNS.k_Keeper_GetRollAppHooks =
  ["func (k Keeper) GetRollAppHooks() rollapptypes.RollappHooks",
   "  return rollappHooks{Keeper: k}"] := rfl

/-- `Keeper.GetRollAppIdByAlias` -/
theorem k_Keeper_GetRollAppIdByAlias_listing : Gen.SkDymNS.k_Keeper_GetRollAppIdByAlias =
  ["func (k Keeper) GetRollAppIdByAlias(ctx sdk.Context, alias string) (rollAppId string, found bool)",
   "  defer func#1()",
   "    func#1 ()",
   "      found = rollAppId != \"\"",
   "  store := ctx.KVStore(k.storeKey)",
   "  key := dymnstypes.AliasToRollAppIdRvlKey(alias)",
   "  bz := store.Get(key)",
   "  if bz != nil",
   "    rollAppId = string(bz)",
   "  return"] := rfl

/-- `Keeper.GetSellOrder` -/
theorem k_Keeper_GetSellOrder_listing : Gen.SkDymNS.k_Keeper_GetSellOrder =
  ["func (k Keeper) GetSellOrder(ctx sdk.Context, assetId string, assetType dymnstypes.AssetType) *dymnstypes.SellOrder",
   "  store := ctx.KVStore(k.storeKey)",
   "  soKey := dymnstypes.SellOrderKey(assetId, assetType)",
   "  bz := store.Get(soKey)",
   "  if bz == nil",
   "    return nil",
   "  var so dymnstypes.SellOrder",
   "  k.cdc.MustUnmarshal(bz, &so)",
   "  return &so"] := rfl

/-- `Keeper.IncreaseBuyOrdersCountAndGet` -/
theorem k_Keeper_IncreaseBuyOrdersCountAndGet_listing : Gen.SkDymNS.k_Keeper_IncreaseBuyOrdersCountAndGet =
  ["func (k Keeper) IncreaseBuyOrdersCountAndGet(ctx sdk.Context) uint64",
   "  countFromStore := k.GetCountBuyOrders(ctx)",
   "  newCount := countFromStore + 1",
   "  if newCount < countFromStore",
   "    panic()",
   "  k.SetCountBuyOrders(ctx, newCount)",
   "  return newCount"] := rfl

/-- `Keeper.InsertNewBuyOrder` -/
theorem k_Keeper_InsertNewBuyOrder_listing : Gen.SkDymNS.k_Keeper_InsertNewBuyOrder =
  ["func (k Keeper) InsertNewBuyOrder(ctx sdk.Context, buyOrder dymnstypes.BuyOrder) (dymnstypes.BuyOrder, error)",
   "  if buyOrder.Id != \"\"",
   "    panic()",
   "  count := k.IncreaseBuyOrdersCountAndGet(ctx)",
   "  newOrderId := dymnstypes.CreateBuyOrderId(buyOrder.AssetType, count)",
   "  existingRecord := k.GetBuyOrder(ctx, newOrderId)",
   "  if existingRecord != nil",
   "    return buyOrder, gerrc.ErrAlreadyExists",
   "  buyOrder.Id = newOrderId",
   "  err := k.SetBuyOrder(ctx, buyOrder)",
   "  if err != nil",
   "    return buyOrder, err",
   "  return buyOrder, nil"] := rfl

/-- `Keeper.IsAliasPresentsInParamsAsAliasOrChainId` -/
theorem k_Keeper_IsAliasPresentsInParamsAsAliasOrChainId_listing : Gen.SkDymNS.k_Keeper_IsAliasPresentsInParamsAsAliasOrChainId =
  ["func (k Keeper) IsAliasPresentsInParamsAsAliasOrChainId(ctx sdk.Context, alias string) bool",
   "  _, found := k.GetAllAliasAndChainIdInParams(ctx)[alias]",
   "  return found"] := rfl

/-- `Keeper.MoveAliasToRollAppId` -/
theorem k_Keeper_MoveAliasToRollAppId_listing : Gen.SkDymNS.k_Keeper_MoveAliasToRollAppId =
  ["func (k Keeper) MoveAliasToRollAppId(ctx sdk.Context, srcRollAppId, alias, dstRollAppId string) error",
   "  if !dymnsutils.IsValidAlias(alias)",
   "    return gerrc.ErrInvalidArgument",
   "  if !k.IsRollAppId(ctx, srcRollAppId)",
   "    return gerrc.ErrInvalidArgument",
   "  if !k.IsRollAppId(ctx, dstRollAppId)",
   "    return gerrc.ErrInvalidArgument",
   "  inUsedByRollApp, found := k.GetRollAppIdByAlias(ctx, alias)",
   "  if !found",
   "    return gerrc.ErrNotFound",
   "  if inUsedByRollApp != srcRollAppId",
   "    return gerrc.ErrPermissionDenied",
   "  err := k.RemoveAliasFromRollAppId(ctx, srcRollAppId, alias)",
   "  if err != nil",
   "    return err",
   "  return k.SetAliasForRollAppId(ctx, dstRollAppId, alias)"] := rfl

/-- `Keeper.PruneDymName` -/
theorem k_Keeper_PruneDymName_listing : Gen.SkDymNS.k_Keeper_PruneDymName =
  ["func (k Keeper) PruneDymName(ctx sdk.Context, name string) error",
   "  so := k.GetSellOrder(ctx, name, dymnstypes.TypeName)",
   "  if so != nil",
   "    if so.HighestBid != nil",
   "      err := k.RefundBid(ctx, *so.HighestBid, dymnstypes.TypeName)",
   "      if err != nil",
   "        return err",
   "    k.DeleteSellOrder(ctx, name, dymnstypes.TypeName)",
   "  dymName := k.GetDymName(ctx, name)",
   "  if dymName == nil",
   "    return nil",
   "  dymName.Configs = nil",
   "  dymName.Owner = \"\"",
   "  dymName.Controller = \"\"",
   "  return k.DeleteDymName(ctx, name)"] := rfl

/-- `Keeper.RefundBid` -/
theorem k_Keeper_RefundBid_listing : Gen.SkDymNS.k_Keeper_RefundBid =
  ["func (k Keeper) RefundBid(ctx sdk.Context, soBid dymnstypes.SellOrderBid, assetType dymnstypes.AssetType) error",
   "  return k.refundBid(ctx, soBid, assetType, false)"] := rfl

/-- `Keeper.RefundBuyOrder` -/
theorem k_Keeper_RefundBuyOrder_listing : Gen.SkDymNS.k_Keeper_RefundBuyOrder =
  ["func (k Keeper) RefundBuyOrder(ctx sdk.Context, offer dymnstypes.BuyOrder) error",
   "  return k.refundBuyOrder(ctx, offer, false)"] := rfl

/-- `Keeper.RemoveAliasFromRollAppId` -/
theorem k_Keeper_RemoveAliasFromRollAppId_listing : Gen.SkDymNS.k_Keeper_RemoveAliasFromRollAppId =
  ["func (k Keeper) RemoveAliasFromRollAppId(ctx sdk.Context, rollAppId, alias string) error",
   "  if !dymnsutils.IsValidAlias(alias)",
   "    return gerrc.ErrInvalidArgument",
   "  if !k.IsRollAppId(ctx, rollAppId)",
   "    return gerrc.ErrInvalidArgument",
   "  store := ctx.KVStore(k.storeKey)",
   "  keyR2A := dymnstypes.RollAppIdToAliasesKey(rollAppId)",
   "  keyA2R := dymnstypes.AliasToRollAppIdRvlKey(alias)",
   "  bzRollAppId := store.Get(keyA2R)",
   "  if bzRollAppId == nil",
   "    return gerrc.ErrNotFound",
   "  else",
   "    if string(bzRollAppId) != rollAppId",
   "      return gerrc.ErrPermissionDenied",
   "  var multipleAliases dymnstypes.MultipleAliases",
   "  bz := store.Get(keyR2A)",
   "  if bz != nil",
   "    k.cdc.MustUnmarshal(bz, &multipleAliases)",
   "  originalAliasesCount := len(multipleAliases.Aliases)",
   "  multipleAliases.Aliases = slices.DeleteFunc(multipleAliases.Aliases, func#1)",
   "    func#1 (a string) bool",
   "      return a == alias",
   "  if len(multipleAliases.Aliases) == originalAliasesCount",
   "    return gerrc.ErrNotFound",
   "  if len(multipleAliases.Aliases) == 0",
   "    store.Delete(keyR2A)",
   "  else",
   "    store.Set(keyR2A, k.cdc.MustMarshal(&multipleAliases))",
   "  store.Delete(keyA2R)",
   "  return nil"] := rfl

/-- `Keeper.RemoveReverseMappingAssetIdToBuyOrder` -/
theorem k_Keeper_RemoveReverseMappingAssetIdToBuyOrder_listing : Gen.SkDymNS.k_Keeper_RemoveReverseMappingAssetIdToBuyOrder =
  ["func (k Keeper) RemoveReverseMappingAssetIdToBuyOrder(ctx sdk.Context, assetId string, assetType dymnstypes.AssetType, orderId string) error",
   "  var key []byte",
   "  if !dymnstypes.IsValidBuyOrderId(orderId)",
   "    return gerrc.ErrInvalidArgument",
   "  switch assetType",
   "    case dymnstypes.TypeName",
   "      if !dymnsutils.IsValidDymName(assetId)",
   "        return gerrc.ErrInvalidArgument",
   "      key = dymnstypes.DymNameToBuyOrderIdsRvlKey(assetId)",
   "    case dymnstypes.TypeAlias",
   "      if !dymnsutils.IsValidAlias(assetId)",
   "        return gerrc.ErrInvalidArgument",
   "      key = dymnstypes.AliasToBuyOrderIdsRvlKey(assetId)",
   "    default",
   "      return gerrc.ErrInvalidArgument",
   "  return k.GenericRemoveReverseLookupBuyOrderIdRecord(ctx, key, orderId)"] := rfl

/-- `Keeper.RemoveReverseMappingBuyerToBuyOrder` -/
theorem k_Keeper_RemoveReverseMappingBuyerToBuyOrder_listing : Gen.SkDymNS.k_Keeper_RemoveReverseMappingBuyerToBuyOrder =
  ["func (k Keeper) RemoveReverseMappingBuyerToBuyOrder(ctx sdk.Context, buyer, orderId string) error",
   "  accAddr, err := sdk.AccAddressFromBech32(buyer)",
   "  if err != nil",
   "    return gerrc.ErrInvalidArgument",
   "  if !dymnstypes.IsValidBuyOrderId(orderId)",
   "    return gerrc.ErrInvalidArgument",
   "  key := dymnstypes.BuyerToOrderIdsRvlKey(accAddr)",
   "  return k.GenericRemoveReverseLookupBuyOrderIdRecord(ctx, key, orderId)"] := rfl

/-- `Keeper.RemoveReverseMappingConfiguredAddressToDymName` -/
theorem k_Keeper_RemoveReverseMappingConfiguredAddressToDymName_listing : Gen.SkDymNS.k_Keeper_RemoveReverseMappingConfiguredAddressToDymName =
  ["func (k Keeper) RemoveReverseMappingConfiguredAddressToDymName(ctx sdk.Context, configuredAddress, name string) error",
   "  configuredAddress = normalizeConfiguredAddressForReverseMapping(configuredAddress)",
   "  err := validateConfiguredAddressForReverseMapping(configuredAddress)",
   "  if err != nil",
   "    return err",
   "  return k.GenericRemoveReverseLookupDymNamesRecord(ctx, dymnstypes.ConfiguredAddressToDymNamesIncludeRvlKey(configuredAddress), name)"] := rfl

/-- `Keeper.RemoveReverseMappingFallbackAddressToDymName` -/
theorem k_Keeper_RemoveReverseMappingFallbackAddressToDymName_listing : Gen.SkDymNS.k_Keeper_RemoveReverseMappingFallbackAddressToDymName =
  ["func (k Keeper) RemoveReverseMappingFallbackAddressToDymName(ctx sdk.Context, fallbackAddr dymnstypes.FallbackAddress, name string) error",
   "  err := fallbackAddr.ValidateBasic()",
   "  if err != nil",
   "    return err",
   "  return k.GenericRemoveReverseLookupDymNamesRecord(ctx, dymnstypes.FallbackAddressToDymNamesIncludeRvlKey(fallbackAddr), name)"] := rfl

/-- `Keeper.RemoveReverseMappingOwnerToOwnedDymName` -/
theorem k_Keeper_RemoveReverseMappingOwnerToOwnedDymName_listing : Gen.SkDymNS.k_Keeper_RemoveReverseMappingOwnerToOwnedDymName =
  ["func (k Keeper) RemoveReverseMappingOwnerToOwnedDymName(ctx sdk.Context, owner, name string) error",
   "  accAddr, err := sdk.AccAddressFromBech32(owner)",
   "  if err != nil",
   "    return gerrc.ErrInvalidArgument",
   "  dymNamesOwnedByAccountKey := dymnstypes.DymNamesOwnedByAccountRvlKey(accAddr)",
   "  return k.GenericRemoveReverseLookupDymNamesRecord(ctx, dymNamesOwnedByAccountKey, name)"] := rfl

/-- `Keeper.ReplaceChainIdWithAliasIfPossible` -/
theorem k_Keeper_ReplaceChainIdWithAliasIfPossible_listing : Gen.SkDymNS.k_Keeper_ReplaceChainIdWithAliasIfPossible =
  ["func (k Keeper) ReplaceChainIdWithAliasIfPossible(ctx sdk.Context, reverseResolvedRecords dymnstypes.ReverseResolvedDymNameAddresses) []dymnstypes.ReverseResolvedDymNameAddress",
   "  if len(reverseResolvedRecords) < 1",
   "    return reverseResolvedRecords",
   "  resolvedCache := make(map[string]string)",
   "  for i, reverseResolvedRecord := range reverseResolvedRecords",
   "    chainIdOrAlias := reverseResolvedRecord.ChainIdOrAlias",
   "    if chainIdOrAlias == \"\"",
   "      chainIdOrAlias = ctx.ChainID()",
   "      reverseResolvedRecords[i].ChainIdOrAlias = chainIdOrAlias",
   "    resolvedTo, found := resolvedCache[chainIdOrAlias]",
   "    if found",
   "      if resolvedTo != chainIdOrAlias",
   "        reverseResolvedRecords[i].ChainIdOrAlias = resolvedTo",
   "      continue",
   "    aliases := k.GetEffectiveAliasesByChainId(ctx, chainIdOrAlias)",
   "    if len(aliases) < 1",
   "      resolvedCache[chainIdOrAlias] = chainIdOrAlias",
   "      continue",
   "    defaultAlias := aliases[0]",
   "    reverseResolvedRecords[i].ChainIdOrAlias = defaultAlias",
   "    resolvedCache[chainIdOrAlias] = defaultAlias",
   "  return reverseResolvedRecords"] := rfl

/-- `Keeper.ResolveByDymNameAddress` -/
theorem k_Keeper_ResolveByDymNameAddress_listing : Gen.SkDymNS.k_Keeper_ResolveByDymNameAddress =
  ["func (k Keeper) ResolveByDymNameAddress(ctx sdk.Context, dymNameAddress string) (outputAddress string, err error)",
   "  subName, name, chainIdOrAlias, parseErr := ParseDymNameAddress(dymNameAddress)",
   "  if parseErr != nil",
   "    err = parseErr",
   "    return",
   "  dymName := k.GetDymNameWithExpirationCheck(ctx, name)",
   "  if dymName == nil",
   "    err = gerrc.ErrNotFound",
   "    if subName != \"\"",
   "      return",
   "    outputAddressFromExtraFormat, success := k.resolveByDymNameAddressInExtraFormat(ctx, name, chainIdOrAlias)",
   "    if !success",
   "      return",
   "    outputAddress = outputAddressFromExtraFormat",
   "    err = nil",
   "    return",
   "  defer func#1()",
   "    func#1 ()",
   "      if outputAddress == \"\"",
   "        err = gerrc.ErrNotFound",
   "        return",
   "  tryResolveFromConfig := func#2",
   "    func#2 (lookupChainIdConfig string) (value string, found bool)",
   "      if lookupChainIdConfig == ctx.ChainID()",
   "        lookupChainIdConfig = \"\"",
   "      for _, config := range dymName.Configs",
   "        if config.Type != dymnstypes.DymNameConfigType_DCT_NAME",
   "          continue",
   "        if config.ChainId != lookupChainIdConfig",
   "          continue",
   "        if config.Path != subName",
   "          continue",
   "        return config.Value, true",
   "      return \"\", false",
   "  var found bool",
   "  outputAddress, found = tryResolveFromConfig(chainIdOrAlias)",
   "  if found",
   "    return",
   "  var resolvedToChainId string",
   "  chainId, success := k.tryResolveChainIdOrAliasToChainId(ctx, chainIdOrAlias)",
   "  if success",
   "    resolvedToChainId = chainId",
   "  else",
   "    resolvedToChainId = chainIdOrAlias",
   "  outputAddress, found = tryResolveFromConfig(resolvedToChainId)",
   "  if found",
   "    return",
   "  if subName != \"\"",
   "    return",
   "  if resolvedToChainId == ctx.ChainID()",
   "    outputAddress = dymName.Owner",
   "    return",
   "  isRollAppId := k.IsRollAppId(ctx, resolvedToChainId)",
   "  if !isRollAppId",
   "    return",
   "  rollAppBech32Prefix, found := k.GetRollAppBech32Prefix(ctx, resolvedToChainId)",
   "  if !found",
   "    return",
   "  resolveToAddress := dymName.Owner",
   "  for _, config := range dymnstypes.DymNameConfigs(dymName.Configs).DefaultNameConfigs(true)",
   "    resolveToAddress = config.Value",
   "    break",
   "  accAddr := sdk.MustAccAddressFromBech32(resolveToAddress)",
   "  rollAppBasedBech32Addr, convertErr := bech32.ConvertAndEncode(rollAppBech32Prefix, accAddr)",
   "  if convertErr != nil",
   "    err = gerrc.ErrUnknown",
   "    return",
   "  outputAddress = rollAppBasedBech32Addr",
   "  return"] := rfl

/-- `Keeper.ReverseResolveDymNameAddress` -/
theorem k_Keeper_ReverseResolveDymNameAddress_listing : Gen.SkDymNS.k_Keeper_ReverseResolveDymNameAddress =
  ["func (k Keeper) ReverseResolveDymNameAddress(ctx sdk.Context, inputAddress, workingChainId string) (outputDymNameAddresses dymnstypes.ReverseResolvedDymNameAddresses, err error)",
   "  if !dymnsutils.PossibleAccountRegardlessChain(inputAddress)",
   "    return nil, gerrc.ErrInvalidArgument",
   "  if !dymnsutils.IsValidChainIdFormat(workingChainId)",
   "    return nil, gerrc.ErrInvalidArgument",
   "  isBech32Addr := dymnsutils.IsValidBech32AccountAddress(inputAddress, false)",
   "  is0xAddr := dymnsutils.IsValidHexAddress(inputAddress)",
   "  workingChainIdIsHostChain := workingChainId == ctx.ChainID()",
   "  workingChainIdIsRollApp := !workingChainIdIsHostChain && k.IsRollAppId(ctx, workingChainId)",
   "  if workingChainIdIsHostChain || workingChainIdIsRollApp",
   "    if !isBech32Addr && !is0xAddr",
   "      return nil, gerrc.ErrInvalidArgument",
   "    inputAddress = strings.ToLower(inputAddress)",
   "  else",
   "    if dymnsutils.IsValidHexAddress(inputAddress)",
   "      inputAddress = strings.ToLower(inputAddress)",
   "  defer func#1()",
   "    func#1 ()",
   "      outputDymNameAddresses = outputDymNameAddresses.Distinct()",
   "      outputDymNameAddresses = k.ReplaceChainIdWithAliasIfPossible(ctx, outputDymNameAddresses)",
   "      outputDymNameAddresses.Sort()",
   "  if is0xAddr",
   "    hexAddr := inputAddress",
   "    outputDymNameAddresses, err = k.reverseResolveDymNameAddressUsingHexAddress(ctx, hexAddr, workingChainId, workingChainIdIsHostChain, workingChainIdIsRollApp)",
   "    if err != nil",
   "      return nil, err",
   "    if len(outputDymNameAddresses) > 0",
   "      return",
   "    return k.fallbackReverseResolveDymNameAddress(ctx, dymnsutils.GetBytesFromHexAddress(hexAddr), workingChainId, workingChainIdIsHostChain, workingChainIdIsRollApp)",
   "  outputDymNameAddresses, err = k.reverseResolveDymNameAddressUsingConfiguredAddress(ctx, inputAddress, workingChainId)",
   "  if err != nil",
   "    return nil, err",
   "  if len(outputDymNameAddresses) > 0",
   "    return",
   "  if !workingChainIdIsHostChain && !workingChainIdIsRollApp",
   "    return",
   "  if !isBech32Addr",
   "    return",
   "  bech32Addr := inputAddress",
   "  _, bz, err2 := bech32.DecodeAndConvert(bech32Addr)",
   "  if err2 != nil",
   "    panic()",
   "  return k.fallbackReverseResolveDymNameAddress(ctx, bz, workingChainId, workingChainIdIsHostChain, workingChainIdIsRollApp)"] := rfl

/-- `Keeper.SetAliasForRollAppId` -/
theorem k_Keeper_SetAliasForRollAppId_listing : Gen.SkDymNS.k_Keeper_SetAliasForRollAppId =
  ["func (k Keeper) SetAliasForRollAppId(ctx sdk.Context, rollAppId, alias string) error",
   "  if !dymnsutils.IsValidAlias(alias)",
   "    return gerrc.ErrInvalidArgument",
   "  if !k.IsRollAppId(ctx, rollAppId)",
   "    return gerrc.ErrInvalidArgument",
   "  store := ctx.KVStore(k.storeKey)",
   "  keyR2A := dymnstypes.RollAppIdToAliasesKey(rollAppId)",
   "  keyA2R := dymnstypes.AliasToRollAppIdRvlKey(alias)",
   "  bz := store.Get(keyA2R)",
   "  if bz != nil",
   "    return gerrc.ErrAlreadyExists",
   "  var multipleAliases dymnstypes.MultipleAliases",
   "  bz := store.Get(keyR2A)",
   "  if bz != nil",
   "    k.cdc.MustUnmarshal(bz, &multipleAliases)",
   "  multipleAliases.Aliases = append(multipleAliases.Aliases, alias)",
   "  store.Set(keyR2A, k.cdc.MustMarshal(&multipleAliases))",
   "  store.Set(keyA2R, []byte(rollAppId))",
   "  return nil"] := rfl

/-- `Keeper.SetBuyOrder` -/
theorem k_Keeper_SetBuyOrder_listing : Gen.SkDymNS.k_Keeper_SetBuyOrder =
  ["func (k Keeper) SetBuyOrder(ctx sdk.Context, offer dymnstypes.BuyOrder) error",
   "  err := offer.Validate()",
   "  if err != nil",
   "    return err",
   "  if len(offer.Params) == 0",
   "    offer.Params = nil",
   "  store := ctx.KVStore(k.storeKey)",
   "  offerKey := dymnstypes.BuyOrderKey(offer.Id)",
   "  bz := k.cdc.MustMarshal(&offer)",
   "  store.Set(offerKey, bz)",
   "  return nil"] := rfl

/-- `Keeper.SetCountBuyOrders` -/
theorem k_Keeper_SetCountBuyOrders_listing : Gen.SkDymNS.k_Keeper_SetCountBuyOrders =
  ["func (k Keeper) SetCountBuyOrders(ctx sdk.Context, value uint64)",
   "  store := ctx.KVStore(k.storeKey)",
   "  store.Set(dymnstypes.KeyCountBuyOrders, sdk.Uint64ToBigEndian(value))"] := rfl

/-- `Keeper.SetDefaultAliasForRollApp` -/
theorem k_Keeper_SetDefaultAliasForRollApp_listing : Gen.SkDymNS.k_Keeper_SetDefaultAliasForRollApp =
  ["func (k Keeper) SetDefaultAliasForRollApp(ctx sdk.Context, rollAppId, alias string) error",
   "  existingAliases := k.GetAliasesOfRollAppId(ctx, rollAppId)",
   "  existingIndex := -1",
   "  for i, existingAlias := range existingAliases",
   "    if alias == existingAlias",
   "      existingIndex = i",
   "      break",
   "  if existingIndex < 0",
   "    return gerrc.ErrNotFound",
   "  if existingIndex == 0",
   "    return nil",
   "  existingAliases[0], existingAliases[existingIndex] = existingAliases[existingIndex], existingAliases[0]",
   "  store := ctx.KVStore(k.storeKey)",
   "  keyR2A := dymnstypes.RollAppIdToAliasesKey(rollAppId)",
   "  store.Set(keyR2A, k.cdc.MustMarshal(&dymnstypes.MultipleAliases{Aliases: existingAliases}))",
   "  return nil"] := rfl

/-- `Keeper.SetDymName` -/
theorem k_Keeper_SetDymName_listing : Gen.SkDymNS.k_Keeper_SetDymName =
  ["func (k Keeper) SetDymName(ctx sdk.Context, dymName dymnstypes.DymName) error",
   "  err := dymName.Validate()",
   "  if err != nil",
   "    return err",
   "  store := ctx.KVStore(k.storeKey)",
   "  dymNameKey := dymnstypes.DymNameKey(dymName.Name)",
   "  bz := k.cdc.MustMarshal(&dymName)",
   "  store.Set(dymNameKey, bz)",
   "  return nil"] := rfl

/-- `Keeper.SetSellOrder` -/
theorem k_Keeper_SetSellOrder_listing : Gen.SkDymNS.k_Keeper_SetSellOrder =
  ["func (k Keeper) SetSellOrder(ctx sdk.Context, so dymnstypes.SellOrder) error",
   "  err := so.Validate()",
   "  if err != nil",
   "    return err",
   "  if !so.HasSetSellPrice()",
   "    so.SellPrice = nil",
   "  if so.HighestBid != nil && len(so.HighestBid.Params) == 0",
   "    so.HighestBid.Params = nil",
   "  store := ctx.KVStore(k.storeKey)",
   "  soKey := dymnstypes.SellOrderKey(so.AssetId, so.AssetType)",
   "  bz := k.cdc.MustMarshal(&so)",
   "  store.Set(soKey, bz)",
   "  return nil"] := rfl

/-- `Keeper.fallbackReverseResolveDymNameAddress` -/
theorem k_Keeper_fallbackReverseResolveDymNameAddress_listing : Gen.SkDymNS.k_Keeper_fallbackReverseResolveDymNameAddress =
  ["func (k Keeper) fallbackReverseResolveDymNameAddress(ctx sdk.Context, bzAddr []byte, workingChainId string, workingChainIdIsHostChain, workingChainIdIsRollApp bool) (outputDymNameAddresses dymnstypes.ReverseResolvedDymNameAddresses, err error)",
   "  if !workingChainIdIsHostChain && !workingChainIdIsRollApp",
   "    return",
   "  fallbackAddr := dymnstypes.FallbackAddress(bzAddr)",
   "  dymNames, err2 := k.GetDymNamesContainsFallbackAddress(ctx, fallbackAddr)",
   "  if err2 != nil",
   "    return nil, err2",
   "  for _, dymName := range dymNames",
   "    _, fallbackAddresses := dymName.GetAddressesForReverseMapping()",
   "    configs := fallbackAddresses[fallbackAddr.String()]",
   "    for range dymnstypes.DymNameConfigs(configs).DefaultNameConfigs(true)",
   "      outputDymNameAddresses = append(outputDymNameAddresses, dymnstypes.ReverseResolvedDymNameAddress{SubName: \"\", Name: dymName.Name, ChainIdOrAlias: workingChainId})",
   "      break",
   "  return"] := rfl

/-- `Keeper.refundBid` -/
theorem k_Keeper_refundBid_listing : Gen.SkDymNS.k_Keeper_refundBid =
  ["func (k Keeper) refundBid(ctx sdk.Context, soBid dymnstypes.SellOrderBid, assetType dymnstypes.AssetType, genesis bool) error",
   "  err := soBid.Validate(assetType)",
   "  if err != nil",
   "    return err",
   "  if genesis",
   "    err := k.bankKeeper.MintCoins(ctx, dymnstypes.ModuleName, sdk.Coins{soBid.Price})",
   "    if err != nil",
   "      return err",
   "  err := k.bankKeeper.SendCoinsFromModuleToAccount(ctx, dymnstypes.ModuleName, sdk.MustAccAddressFromBech32(soBid.Bidder), sdk.Coins{soBid.Price})",
   "  if err != nil",
   "    return err",
   "  return nil"] := rfl

/-- `Keeper.refundBuyOrder` -/
theorem k_Keeper_refundBuyOrder_listing : Gen.SkDymNS.k_Keeper_refundBuyOrder =
  ["func (k Keeper) refundBuyOrder(ctx sdk.Context, offer dymnstypes.BuyOrder, genesis bool) error",
   "  err := offer.Validate()",
   "  if err != nil",
   "    return err",
   "  if genesis",
   "    err := k.bankKeeper.MintCoins(ctx, dymnstypes.ModuleName, sdk.Coins{offer.OfferPrice})",
   "    if err != nil",
   "      return err",
   "  err := k.bankKeeper.SendCoinsFromModuleToAccount(ctx, dymnstypes.ModuleName, sdk.MustAccAddressFromBech32(offer.Buyer), sdk.Coins{offer.OfferPrice})",
   "  if err != nil",
   "    return err",
   "  return nil"] := rfl

/-- `Keeper.registerAliasForRollApp` -/
theorem k_Keeper_registerAliasForRollApp_listing : Gen.SkDymNS.k_Keeper_registerAliasForRollApp =
  ["func (k Keeper) registerAliasForRollApp(ctx sdk.Context, rollAppId string, owner sdk.AccAddress, alias string, registrationFee sdk.Coins) error",
   "  err := k.bankKeeper.SendCoinsFromAccountToModule(ctx, owner, dymnstypes.ModuleName, registrationFee)",
   "  if err != nil",
   "    return err",
   "  err := k.bankKeeper.BurnCoins(ctx, dymnstypes.ModuleName, registrationFee)",
   "  if err != nil",
   "    return err",
   "  err := k.SetAliasForRollAppId(ctx, rollAppId, alias)",
   "  if err != nil",
   "    return gerrc.ErrUnknown",
   "  return nil"] := rfl

/-- `Keeper.resolveByDymNameAddressInExtraFormat` -/
theorem k_Keeper_resolveByDymNameAddressInExtraFormat_listing : Gen.SkDymNS.k_Keeper_resolveByDymNameAddressInExtraFormat =
  ["func (k Keeper) resolveByDymNameAddressInExtraFormat(ctx sdk.Context, anyAddress, chainIdOrAlias string) (outputAddress string, success bool)",
   "  var accAddr sdk.AccAddress",
   "  if dymnsutils.IsValidHexAddress(anyAddress)",
   "    accAddr = dymnsutils.GetBytesFromHexAddress(anyAddress)",
   "  else",
   "    if dymnsutils.IsValidBech32AccountAddress(anyAddress, false)",
   "      _, bz, errDecode := bech32.DecodeAndConvert(anyAddress)",
   "      if errDecode != nil",
   "        return",
   "      accAddr = bz",
   "    else",
   "      return",
   "  chainId, resolveSuccess := k.tryResolveChainIdOrAliasToChainId(ctx, chainIdOrAlias)",
   "  if !resolveSuccess",
   "    return",
   "  if chainId == ctx.ChainID()",
   "    outputAddress = accAddr.String()",
   "    success = true",
   "    return",
   "  if !k.IsRollAppId(ctx, chainId)",
   "    return",
   "  bech32Prefix, found := k.GetRollAppBech32Prefix(ctx, chainId)",
   "  if !found",
   "    return",
   "  rollAppBasedBech32Addr, convertErr := bech32.ConvertAndEncode(bech32Prefix, accAddr)",
   "  if convertErr != nil",
   "    return",
   "  outputAddress = rollAppBasedBech32Addr",
   "  success = true",
   "  return"] := rfl

/-- `Keeper.reverseResolveDymNameAddressUsingConfiguredAddress` -/
theorem k_Keeper_reverseResolveDymNameAddressUsingConfiguredAddress_listing : Gen.SkDymNS.k_Keeper_reverseResolveDymNameAddressUsingConfiguredAddress =
  ["func (k Keeper) reverseResolveDymNameAddressUsingConfiguredAddress(ctx sdk.Context, inputAddress, workingChainId string) (outputDymNameAddresses dymnstypes.ReverseResolvedDymNameAddresses, err error)",
   "  dymNames, err1 := k.GetDymNamesContainsConfiguredAddress(ctx, inputAddress)",
   "  if err1 != nil",
   "    return nil, err1",
   "  for _, dymName := range dymNames",
   "    configuredAddresses, _ := dymName.GetAddressesForReverseMapping()",
   "    configs := configuredAddresses[inputAddress]",
   "    outputDymNameAddresses = outputDymNameAddresses.AppendConfigs(ctx, dymName, configs, func#1)",
   "      func#1 (address dymnstypes.ReverseResolvedDymNameAddress) bool",
   "        return address.ChainIdOrAlias == workingChainId",
   "  return"] := rfl

/-- `Keeper.reverseResolveDymNameAddressUsingHexAddress` -/
theorem k_Keeper_reverseResolveDymNameAddressUsingHexAddress_listing : Gen.SkDymNS.k_Keeper_reverseResolveDymNameAddressUsingHexAddress =
  ["func (k Keeper) reverseResolveDymNameAddressUsingHexAddress(ctx sdk.Context, hexAddr, workingChainId string, workingChainIdIsHostChain, workingChainIdIsRollApp bool) (outputDymNameAddresses dymnstypes.ReverseResolvedDymNameAddresses, err error)",
   "  if !dymnsutils.IsValidHexAddress(hexAddr)",
   "    return nil, gerrc.ErrInvalidArgument",
   "  bzAddr := dymnsutils.GetBytesFromHexAddress(hexAddr)",
   "  var bech32Hrp string",
   "  if workingChainIdIsHostChain",
   "    bech32Hrp = sdk.GetConfig().GetBech32AccountAddrPrefix()",
   "  else",
   "    rollappBech32Hrp, found := k.GetRollAppBech32Prefix(ctx, workingChainId)",
   "    if found",
   "      bech32Hrp = rollappBech32Hrp",
   "  lookupKey := hexAddr",
   "  if bech32Hrp != \"\"",
   "    lookupKey = sdk.MustBech32ifyAddressBytes(bech32Hrp, bzAddr)",
   "  dymNames, err1 := k.GetDymNamesContainsConfiguredAddress(ctx, lookupKey)",
   "  if err1 != nil",
   "    return nil, err1",
   "  for _, dymName := range dymNames",
   "    configuredAddresses, _ := dymName.GetAddressesForReverseMapping()",
   "    configs := configuredAddresses[lookupKey]",
   "    outputDymNameAddresses = outputDymNameAddresses.AppendConfigs(ctx, dymName, configs, func#1)",
   "      func#1 (address dymnstypes.ReverseResolvedDymNameAddress) bool",
   "        return address.ChainIdOrAlias == workingChainId",
   "  if len(outputDymNameAddresses) > 0",
   "    return",
   "  return k.fallbackReverseResolveDymNameAddress(ctx, bzAddr, workingChainId, workingChainIdIsHostChain, workingChainIdIsRollApp)"] := rfl

/-- `Keeper.transferDymNameOwnership` -/
theorem k_Keeper_transferDymNameOwnership_listing : Gen.SkDymNS.k_Keeper_transferDymNameOwnership =
  ["func (k Keeper) transferDymNameOwnership(ctx sdk.Context, dymName dymnstypes.DymName, newOwner string) error",
   "  err := k.PruneDymName(ctx, dymName.Name)",
   "  if err != nil",
   "    return err",
   "  newDymNameRecord := dymnstypes.DymName{Name: dymName.Name, Owner: newOwner, Controller: newOwner, ExpireAt: dymName.ExpireAt, Configs: nil, Contact: \"\"}",
   "  err := k.SetDymName(ctx, newDymNameRecord)",
   "  if err != nil",
   "    return err",
   "  err := k.AfterDymNameOwnerChanged(ctx, newDymNameRecord.Name)",
   "  if err != nil",
   "    return err",
   "  err := k.AfterDymNameConfigChanged(ctx, newDymNameRecord.Name)",
   "  if err != nil",
   "    return err",
   "  return nil"] := rfl

/-- `Keeper.tryResolveChainIdOrAliasToChainId` -/
theorem k_Keeper_tryResolveChainIdOrAliasToChainId_listing : Gen.SkDymNS.k_Keeper_tryResolveChainIdOrAliasToChainId =
  ["func (k Keeper) tryResolveChainIdOrAliasToChainId(ctx sdk.Context, chainIdOrAlias string) (resolvedToChainId string, success bool)",
   "  if chainIdOrAlias == ctx.ChainID()",
   "    return chainIdOrAlias, true",
   "  chainsParams := k.ChainsParams(ctx)",
   "  if len(chainsParams.AliasesOfChainIds) > 0",
   "    for _, record := range chainsParams.AliasesOfChainIds",
   "      if chainIdOrAlias == record.ChainId",
   "        return record.ChainId, true",
   "      for _, alias := range record.Aliases",
   "        if alias == chainIdOrAlias",
   "          return record.ChainId, true",
   "  isRollAppId := k.IsRollAppId(ctx, chainIdOrAlias)",
   "  if isRollAppId",
   "    return chainIdOrAlias, true",
   "  rollAppId, found := k.GetRollAppIdByAlias(ctx, chainIdOrAlias)",
   "  if found",
   "    return rollAppId, true",
   "  return"] := rfl

/-- `ParseDymNameAddress` -/
theorem k_ParseDymNameAddress_listing : Gen.SkDymNS.k_ParseDymNameAddress =
  ["func ParseDymNameAddress(dymNameAddress string) (subName string, dymName string, chainIdOrAlias string, err error)",
   "  dymNameAddress = strings.ToLower(strings.TrimSpace(dymNameAddress))",
   "  lastDotIndex := strings.LastIndex(dymNameAddress, \".\")",
   "  lastAtIndex := strings.LastIndex(dymNameAddress, \"@\")",
   "  if lastAtIndex > -1 && lastDotIndex > -1",
   "    if lastDotIndex > lastAtIndex",
   "      err = dymnstypes.ErrBadDymNameAddress",
   "      return",
   "  firstAtIndex := strings.IndexRune(dymNameAddress, '@')",
   "  if firstAtIndex > -1",
   "    if firstAtIndex != lastAtIndex",
   "      err = dymnstypes.ErrBadDymNameAddress",
   "      return",
   "  firstDotIndex := strings.IndexRune(dymNameAddress, '.')",
   "  if firstDotIndex == 0 || firstAtIndex == 0",
   "    err = dymnstypes.ErrBadDymNameAddress",
   "    return",
   "  lastCharIdx := len(dymNameAddress) - 1",
   "  if firstDotIndex == lastCharIdx || firstAtIndex == lastCharIdx || lastDotIndex == lastCharIdx || lastAtIndex == lastCharIdx",
   "    err = dymnstypes.ErrBadDymNameAddress",
   "    return",
   "  if strings.Contains(strings.ReplaceAll(strings.ReplaceAll(dymNameAddress, \".\", \"|\"), \"@\", \"|\"), \"||\")",
   "    err = dymnstypes.ErrBadDymNameAddress",
   "    return",
   "  chunks := strings.FieldsFunc(dymNameAddress, func#1)",
   "    func#1 (r rune) bool",
   "      return r == '.' || r == '@'",
   "  for i, chunk := range chunks",
   "    normalizedChunk := strings.TrimSpace(chunk)",
   "    if normalizedChunk != chunk",
   "      err = dymnstypes.ErrBadDymNameAddress",
   "      return",
   "    chunks[i] = normalizedChunk",
   "  if len(chunks) == 1",
   "    err = dymnstypes.ErrBadDymNameAddress",
   "    return",
   "  chainIdOrAlias = chunks[len(chunks)-1]",
   "  dymName = chunks[len(chunks)-2]",
   "  if len(chunks) > 2",
   "    subNameParts := chunks[:len(chunks)-2]",
   "    for _, subNamePart := range subNameParts",
   "      if !dymnsutils.IsValidDymName(subNamePart)",
   "        err = dymnstypes.ErrBadDymNameAddress",
   "        return",
   "    subName = strings.Join(subNameParts, \".\")",
   "  if !dymnsutils.IsValidChainIdFormat(chainIdOrAlias) && !dymnsutils.IsValidAlias(chainIdOrAlias)",
   "    err = dymnstypes.ErrBadDymNameAddress",
   "    return",
   "  if subName == \"\"",
   "    if dymnsutils.IsValidHexAddress(dymName)",
   "      return",
   "    if dymnsutils.IsValidBech32AccountAddress(dymName, false)",
   "      return",
   "  if !dymnsutils.IsValidDymName(dymName)",
   "    err = dymnstypes.ErrBadDymNameAddress",
   "    return",
   "  return"] := rfl

/-- `msgServer.AcceptBuyOrder` -/
theorem k_msgServer_AcceptBuyOrder_listing : Gen.SkDymNS.k_msgServer_AcceptBuyOrder =
  ["func (k msgServer) AcceptBuyOrder(goCtx context.Context, msg *dymnstypes.MsgAcceptBuyOrder) (*dymnstypes.MsgAcceptBuyOrderResponse, error)",
   "  originalConsumedGas := ctx.GasMeter().GasConsumed()",
   "  err := msg.ValidateBasic()",
   "  if err != nil",
   "    return nil, err",
   "  bo := k.GetBuyOrder(ctx, msg.OrderId)",
   "  if bo == nil",
   "    return nil, gerrc.ErrNotFound",
   "  miscParams := k.MiscParams(ctx)",
   "  var resp *dymnstypes.MsgAcceptBuyOrderResponse",
   "  var err error",
   "  if bo.AssetType == dymnstypes.TypeName",
   "    resp, err = k.processAcceptBuyOrderWithAssetTypeDymName(ctx, msg, *bo, miscParams)",
   "  else",
   "    if bo.AssetType == dymnstypes.TypeAlias",
   "      resp, err = k.processAcceptBuyOrderWithAssetTypeAlias(ctx, msg, *bo, miscParams)",
   "    else",
   "      err = gerrc.ErrInvalidArgument",
   "  if err != nil",
   "    return nil, err",
   "  consumeMinimumGas(ctx, dymnstypes.OpGasUpdateBuyOrder, originalConsumedGas, \"AcceptBuyOrder\")",
   "  return resp, nil"] := rfl

/-- `msgServer.CancelBuyOrder` -/
theorem k_msgServer_CancelBuyOrder_listing : Gen.SkDymNS.k_msgServer_CancelBuyOrder =
  ["func (k msgServer) CancelBuyOrder(goCtx context.Context, msg *dymnstypes.MsgCancelBuyOrder) (*dymnstypes.MsgCancelBuyOrderResponse, error)",
   "  originalConsumedGas := ctx.GasMeter().GasConsumed()",
   "  err := msg.ValidateBasic()",
   "  if err != nil",
   "    return nil, err",
   "  bo := k.GetBuyOrder(ctx, msg.OrderId)",
   "  if bo == nil",
   "    return nil, gerrc.ErrNotFound",
   "  var resp *dymnstypes.MsgCancelBuyOrderResponse",
   "  var err error",
   "  if bo.AssetType == dymnstypes.TypeName || bo.AssetType == dymnstypes.TypeAlias",
   "    resp, err = k.processCancelBuyOrder(ctx, msg, *bo)",
   "  else",
   "    err = gerrc.ErrInvalidArgument",
   "  if err != nil",
   "    return nil, err",
   "  consumeMinimumGas(ctx, dymnstypes.OpGasCloseBuyOrder, originalConsumedGas, \"CancelBuyOrder\")",
   "  return resp, nil"] := rfl

/-- `msgServer.CancelSellOrder` -/
theorem k_msgServer_CancelSellOrder_listing : Gen.SkDymNS.k_msgServer_CancelSellOrder =
  ["func (k msgServer) CancelSellOrder(goCtx context.Context, msg *dymnstypes.MsgCancelSellOrder) (*dymnstypes.MsgCancelSellOrderResponse, error)",
   "  originalConsumedGas := ctx.GasMeter().GasConsumed()",
   "  err := msg.ValidateBasic()",
   "  if err != nil",
   "    return nil, err",
   "  var resp *dymnstypes.MsgCancelSellOrderResponse",
   "  var err error",
   "  if msg.AssetType == dymnstypes.TypeName",
   "    resp, err = k.processCancelSellOrderWithAssetTypeDymName(ctx, msg)",
   "  else",
   "    if msg.AssetType == dymnstypes.TypeAlias",
   "      resp, err = k.processCancelSellOrderWithAssetTypeAlias(ctx, msg)",
   "    else",
   "      err = gerrc.ErrInvalidArgument",
   "  if err != nil",
   "    return nil, err",
   "  consumeMinimumGas(ctx, dymnstypes.OpGasCloseSellOrder, originalConsumedGas, \"CancelSellOrder\")",
   "  return resp, nil"] := rfl

/-- `msgServer.CompleteSellOrder` -/
theorem k_msgServer_CompleteSellOrder_listing : Gen.SkDymNS.k_msgServer_CompleteSellOrder =
  ["func (k msgServer) CompleteSellOrder(goCtx context.Context, msg *dymnstypes.MsgCompleteSellOrder) (*dymnstypes.MsgCompleteSellOrderResponse, error)",
   "  originalConsumedGas := ctx.GasMeter().GasConsumed()",
   "  err := msg.ValidateBasic()",
   "  if err != nil",
   "    return nil, err",
   "  var resp *dymnstypes.MsgCompleteSellOrderResponse",
   "  var err error",
   "  if msg.AssetType == dymnstypes.TypeName",
   "    resp, err = k.processCompleteSellOrderWithAssetTypeDymName(ctx, msg)",
   "  else",
   "    if msg.AssetType == dymnstypes.TypeAlias",
   "      resp, err = k.processCompleteSellOrderWithAssetTypeAlias(ctx, msg)",
   "    else",
   "      err = gerrc.ErrInvalidArgument",
   "  if err != nil",
   "    return nil, err",
   "  consumeMinimumGas(ctx, dymnstypes.OpGasCompleteSellOrder, originalConsumedGas, \"CompleteSellOrder\")",
   "  return resp, nil"] := rfl

/-- `msgServer.PlaceBuyOrder` -/
theorem k_msgServer_PlaceBuyOrder_listing : Gen.SkDymNS.k_msgServer_PlaceBuyOrder =
  ["func (k msgServer) PlaceBuyOrder(goCtx context.Context, msg *dymnstypes.MsgPlaceBuyOrder) (*dymnstypes.MsgPlaceBuyOrderResponse, error)",
   "  originalConsumedGas := ctx.GasMeter().GasConsumed()",
   "  err := msg.ValidateBasic()",
   "  if err != nil",
   "    return nil, err",
   "  priceParams := k.PriceParams(ctx)",
   "  miscParams := k.MiscParams(ctx)",
   "  var resp *dymnstypes.MsgPlaceBuyOrderResponse",
   "  var err error",
   "  if msg.AssetType == dymnstypes.TypeName",
   "    resp, err = k.placeBuyOrderWithAssetTypeDymName(ctx, msg, priceParams, miscParams)",
   "  else",
   "    if msg.AssetType == dymnstypes.TypeAlias",
   "      resp, err = k.placeBuyOrderWithAssetTypeAlias(ctx, msg, priceParams, miscParams)",
   "    else",
   "      err = gerrc.ErrInvalidArgument",
   "  if err != nil",
   "    return nil, err",
   "  var minimumTxGasRequired storetypes.Gas",
   "  if msg.ContinueOrderId != \"\"",
   "    minimumTxGasRequired = dymnstypes.OpGasUpdateBuyOrder",
   "  else",
   "    minimumTxGasRequired = dymnstypes.OpGasPutBuyOrder",
   "  consumeMinimumGas(ctx, minimumTxGasRequired, originalConsumedGas, \"PlaceBuyOrder\")",
   "  return resp, nil"] := rfl

/-- `msgServer.PlaceSellOrder` -/
theorem k_msgServer_PlaceSellOrder_listing : Gen.SkDymNS.k_msgServer_PlaceSellOrder =
  ["func (k msgServer) PlaceSellOrder(goCtx context.Context, msg *dymnstypes.MsgPlaceSellOrder) (*dymnstypes.MsgPlaceSellOrderResponse, error)",
   "  originalConsumedGas := ctx.GasMeter().GasConsumed()",
   "  err := msg.ValidateBasic()",
   "  if err != nil",
   "    return nil, err",
   "  priceParams := k.PriceParams(ctx)",
   "  miscParams := k.MiscParams(ctx)",
   "  var resp *dymnstypes.MsgPlaceSellOrderResponse",
   "  var err error",
   "  if msg.AssetType == dymnstypes.TypeName",
   "    resp, err = k.processPlaceSellOrderWithAssetTypeDymName(ctx, msg, priceParams, miscParams)",
   "  else",
   "    if msg.AssetType == dymnstypes.TypeAlias",
   "      resp, err = k.processPlaceSellOrderWithAssetTypeAlias(ctx, msg, priceParams, miscParams)",
   "    else",
   "      err = gerrc.ErrInvalidArgument",
   "  if err != nil",
   "    return nil, err",
   "  consumeMinimumGas(ctx, dymnstypes.OpGasPlaceSellOrder, originalConsumedGas, \"PlaceSellOrder\")",
   "  return resp, nil"] := rfl

/-- `msgServer.PurchaseOrder` -/
theorem k_msgServer_PurchaseOrder_listing : Gen.SkDymNS.k_msgServer_PurchaseOrder =
  ["func (k msgServer) PurchaseOrder(goCtx context.Context, msg *dymnstypes.MsgPurchaseOrder) (*dymnstypes.MsgPurchaseOrderResponse, error)",
   "  originalConsumedGas := ctx.GasMeter().GasConsumed()",
   "  err := msg.ValidateBasic()",
   "  if err != nil",
   "    return nil, err",
   "  priceParams := k.PriceParams(ctx)",
   "  miscParams := k.MiscParams(ctx)",
   "  var resp *dymnstypes.MsgPurchaseOrderResponse",
   "  var err error",
   "  if msg.AssetType == dymnstypes.TypeName",
   "    resp, err = k.processPurchaseOrderWithAssetTypeDymName(ctx, msg, priceParams, miscParams)",
   "  else",
   "    if msg.AssetType == dymnstypes.TypeAlias",
   "      resp, err = k.processPurchaseOrderWithAssetTypeAlias(ctx, msg, priceParams, miscParams)",
   "    else",
   "      err = gerrc.ErrInvalidArgument",
   "  if err != nil",
   "    return nil, err",
   "  consumeMinimumGas(ctx, dymnstypes.OpGasPlaceBidOnSellOrder, originalConsumedGas, \"PurchaseOrder\")",
   "  return resp, nil"] := rfl

/-- `msgServer.RegisterAlias` -/
theorem k_msgServer_RegisterAlias_listing : Gen.SkDymNS.k_msgServer_RegisterAlias =
  ["func (k msgServer) RegisterAlias(goCtx context.Context, msg *dymnstypes.MsgRegisterAlias) (*dymnstypes.MsgRegisterAliasResponse, error)",
   "  err := k.validateRegisterAlias(ctx, msg)",
   "  if err != nil",
   "    return nil, err",
   "  priceParams := k.PriceParams(ctx)",
   "  registrationCost := sdk.NewCoin(priceParams.PriceDenom, priceParams.GetAliasPrice(msg.Alias))",
   "  if !registrationCost.Equal(msg.ConfirmPayment)",
   "    return nil, gerrc.ErrInvalidArgument",
   "  err := k.registerAliasForRollApp(ctx, msg.RollappId, sdk.MustAccAddressFromBech32(msg.Owner), msg.Alias, sdk.NewCoins(registrationCost))",
   "  if err != nil",
   "    return nil, errors.Join(gerrc.ErrUnknown, err)",
   "  return &dymnstypes.MsgRegisterAliasResponse{}, nil"] := rfl

/-- `msgServer.RegisterName` -/
theorem k_msgServer_RegisterName_listing : Gen.SkDymNS.k_msgServer_RegisterName =
  ["func (k msgServer) RegisterName(goCtx context.Context, msg *dymnstypes.MsgRegisterName) (*dymnstypes.MsgRegisterNameResponse, error)",
   "  dymName, err := k.validateRegisterName(ctx, msg)",
   "  if err != nil",
   "    return nil, err",
   "  priceParams := k.PriceParams(ctx)",
   "  addDurationInSeconds := 86400 * 365 * msg.Duration",
   "  firstYearPrice := priceParams.GetFirstYearDymNamePrice(msg.Name)",
   "  var prunePreviousDymNameRecord bool",
   "  var ownershipChanged, configChanged bool",
   "  var totalCost sdk.Coin",
   "  if dymName == nil",
   "    prunePreviousDymNameRecord = true",
   "    ownershipChanged = true",
   "    configChanged = true",
   "    dymName = &dymnstypes.DymName{Name: msg.Name, Owner: msg.Owner, Controller: msg.Owner, ExpireAt: ctx.BlockTime().Unix() + addDurationInSeconds, Configs: nil, Contact: msg.Contact}",
   "    totalCost = sdk.NewCoin(priceParams.PriceDenom, firstYearPrice.Add(priceParams.PriceExtends.Mul(math.NewInt(msg.Duration-1))))",
   "  else",
   "    if dymName.Owner == msg.Owner",
   "      if dymName.IsExpiredAtCtx(ctx)",
   "        prunePreviousDymNameRecord = true",
   "        dymName = &dymnstypes.DymName{Name: msg.Name, Owner: msg.Owner, Controller: msg.Owner, ExpireAt: ctx.BlockTime().Unix() + addDurationInSeconds, Configs: nil, Contact: msg.Contact}",
   "      else",
   "        prunePreviousDymNameRecord = false",
   "        ownershipChanged = false",
   "        configChanged = false",
   "        dymName.ExpireAt += addDurationInSeconds",
   "        if msg.Contact != \"\"",
   "          dymName.Contact = msg.Contact",
   "      totalCost = sdk.NewCoin(priceParams.PriceDenom, priceParams.PriceExtends.Mul(math.NewInt(msg.Duration)))",
   "    else",
   "      prunePreviousDymNameRecord = true",
   "      ownershipChanged = true",
   "      configChanged = true",
   "      dymName = &dymnstypes.DymName{Name: msg.Name, Owner: msg.Owner, Controller: msg.Owner, ExpireAt: ctx.BlockTime().Unix() + addDurationInSeconds, Configs: nil, Contact: msg.Contact}",
   "      totalCost = sdk.NewCoin(priceParams.PriceDenom, firstYearPrice.Add(priceParams.PriceExtends.Mul(math.NewInt(msg.Duration-1))))",
   "  if !totalCost.IsPositive()",
   "    panic()",
   "  if !totalCost.Equal(msg.ConfirmPayment)",
   "    return nil, gerrc.ErrInvalidArgument",
   "  err := k.bankKeeper.SendCoinsFromAccountToModule(ctx, sdk.MustAccAddressFromBech32(msg.Owner), dymnstypes.ModuleName, sdk.NewCoins(totalCost))",
   "  if err != nil",
   "    return nil, err",
   "  err := k.bankKeeper.BurnCoins(ctx, dymnstypes.ModuleName, sdk.NewCoins(totalCost))",
   "  if err != nil",
   "    return nil, err",
   "  if prunePreviousDymNameRecord",
   "    err := k.PruneDymName(ctx, msg.Name)",
   "    if err != nil",
   "      return nil, err",
   "  err := k.SetDymName(ctx, *dymName)",
   "  if err != nil",
   "    return nil, err",
   "  if ownershipChanged || prunePreviousDymNameRecord",
   "    err := k.AfterDymNameOwnerChanged(ctx, dymName.Name)",
   "    if err != nil",
   "      return nil, err",
   "  if configChanged || prunePreviousDymNameRecord",
   "    err := k.AfterDymNameConfigChanged(ctx, dymName.Name)",
   "    if err != nil",
   "      return nil, err",
   "  return &dymnstypes.MsgRegisterNameResponse{}, nil"] := rfl

/-- `msgServer.SetController` -/
theorem k_msgServer_SetController_listing : Gen.SkDymNS.k_msgServer_SetController =
  ["func (k msgServer) SetController(goCtx context.Context, msg *dymnstypes.MsgSetController) (*dymnstypes.MsgSetControllerResponse, error)",
   "  dymName, err := k.validateSetController(ctx, msg)",
   "  if err != nil",
   "    return nil, err",
   "  dymName.Controller = msg.Controller",
   "  err := k.SetDymName(ctx, *dymName)",
   "  if err != nil",
   "    return nil, err",
   "  return &dymnstypes.MsgSetControllerResponse{}, nil"] := rfl

/-- `msgServer.TransferDymNameOwnership` -/
theorem k_msgServer_TransferDymNameOwnership_listing : Gen.SkDymNS.k_msgServer_TransferDymNameOwnership =
  ["func (k msgServer) TransferDymNameOwnership(goCtx context.Context, msg *dymnstypes.MsgTransferDymNameOwnership) (*dymnstypes.MsgTransferDymNameOwnershipResponse, error)",
   "  dymName, err := k.validateTransferDymNameOwnership(ctx, msg)",
   "  if err != nil",
   "    return nil, err",
   "  err := k.transferDymNameOwnership(ctx, *dymName, msg.NewOwner)",
   "  if err != nil",
   "    return nil, err",
   "  return &dymnstypes.MsgTransferDymNameOwnershipResponse{}, nil"] := rfl

/-- `msgServer.UpdateDetails` -/
theorem k_msgServer_UpdateDetails_listing : Gen.SkDymNS.k_msgServer_UpdateDetails =
  ["func (k msgServer) UpdateDetails(goCtx context.Context, msg *dymnstypes.MsgUpdateDetails) (*dymnstypes.MsgUpdateDetailsResponse, error)",
   "  originalConsumedGas := ctx.GasMeter().GasConsumed()",
   "  dymName, err := k.validateUpdateDetails(ctx, msg)",
   "  if err != nil",
   "    return nil, err",
   "  var minimumTxGasRequired storetypes.Gas",
   "  if msg.Contact == dymnstypes.DoNotModifyDesc",
   "    minimumTxGasRequired = 0",
   "  else",
   "    if msg.Contact != \"\"",
   "      minimumTxGasRequired = dymnstypes.OpGasUpdateContact",
   "      dymName.Contact = msg.Contact",
   "    else",
   "      minimumTxGasRequired = 0",
   "      dymName.Contact = \"\"",
   "  shouldClearConfigs := msg.ClearConfigs && len(dymName.Configs) > 0",
   "  if shouldClearConfigs",
   "    dymName.Configs = nil",
   "    err := k.BeforeDymNameConfigChanged(ctx, dymName.Name)",
   "    if err != nil",
   "      return nil, err",
   "    err := k.SetDymName(ctx, *dymName)",
   "    if err != nil",
   "      return nil, err",
   "    err := k.AfterDymNameConfigChanged(ctx, dymName.Name)",
   "    if err != nil",
   "      return nil, err",
   "  else",
   "    err := k.SetDymName(ctx, *dymName)",
   "    if err != nil",
   "      return nil, err",
   "  consumeMinimumGas(ctx, minimumTxGasRequired, originalConsumedGas, \"UpdateDetails\")",
   "  return &dymnstypes.MsgUpdateDetailsResponse{}, nil"] := rfl

/-- `msgServer.UpdateResolveAddress` -/
theorem k_msgServer_UpdateResolveAddress_listing : Gen.SkDymNS.k_msgServer_UpdateResolveAddress =
  ["func (k msgServer) UpdateResolveAddress(goCtx context.Context, msg *dymnstypes.MsgUpdateResolveAddress) (*dymnstypes.MsgUpdateResolveAddressResponse, error)",
   "  originalConsumedGas := ctx.GasMeter().GasConsumed()",
   "  dymName, err := k.validateUpdateResolveAddress(ctx, msg)",
   "  if err != nil",
   "    return nil, err",
   "  _, newConfig := msg.GetDymNameConfig()",
   "  if newConfig.ChainId == ctx.ChainID()",
   "    newConfig.ChainId = \"\"",
   "  newConfigIdentity := newConfig.GetIdentity()",
   "  if newConfig.ChainId == \"\" || k.IsRollAppId(ctx, newConfig.ChainId)",
   "    newConfig.Value = strings.ToLower(newConfig.Value)",
   "  else",
   "    if dymnsutils.IsValidHexAddress(newConfig.Value)",
   "      newConfig.Value = strings.ToLower(newConfig.Value)",
   "  var minimumTxGasRequired storetypes.Gas",
   "  existingConfigCount := len(dymName.Configs)",
   "  if newConfig.IsDelete()",
   "    minimumTxGasRequired = 0",
   "    foundSameConfigIdAtIdx := -1",
   "    for i, config := range dymName.Configs",
   "      if config.GetIdentity() == newConfigIdentity",
   "        foundSameConfigIdAtIdx = i",
   "        break",
   "    if foundSameConfigIdAtIdx < 0",
   "      return nil, gerrc.ErrNotFound",
   "    dymName.Configs = append(dymName.Configs[:foundSameConfigIdAtIdx], dymName.Configs[foundSameConfigIdAtIdx+1:]...)",
   "  else",
   "    minimumTxGasRequired = dymnstypes.OpGasConfig",
   "    if existingConfigCount > 0",
   "      var foundSameConfigId bool",
   "      for i, config := range dymName.Configs",
   "        if config.GetIdentity() == newConfigIdentity",
   "          dymName.Configs[i] = newConfig",
   "          foundSameConfigId = true",
   "          break",
   "      if !foundSameConfigId",
   "        dymName.Configs = append(dymName.Configs, newConfig)",
   "    else",
   "      dymName.Configs = []dymnstypes.DymNameConfig{newConfig}",
   "  err := k.BeforeDymNameConfigChanged(ctx, dymName.Name)",
   "  if err != nil",
   "    return nil, err",
   "  err := k.SetDymName(ctx, *dymName)",
   "  if err != nil",
   "    return nil, err",
   "  err := k.AfterDymNameConfigChanged(ctx, dymName.Name)",
   "  if err != nil",
   "    return nil, err",
   "  consumeMinimumGas(ctx, minimumTxGasRequired, originalConsumedGas, \"UpdateResolveAddress\")",
   "  return &dymnstypes.MsgUpdateResolveAddressResponse{}, nil"] := rfl

/-- `msgServer.genericValidateSellOrderOfPurchaseOrder` -/
theorem k_msgServer_genericValidateSellOrderOfPurchaseOrder_listing : Gen.SkDymNS.k_msgServer_genericValidateSellOrderOfPurchaseOrder =
  ["func (k msgServer) genericValidateSellOrderOfPurchaseOrder(ctx sdk.Context, msg *dymnstypes.MsgPurchaseOrder, so dymnstypes.SellOrder, priceParams dymnstypes.PriceParams) error",
   "  if so.HasExpiredAtCtx(ctx)",
   "    return gerrc.ErrFailedPrecondition",
   "  if so.HasFinishedAtCtx(ctx)",
   "    return gerrc.ErrFailedPrecondition",
   "  if msg.Offer.Denom != so.MinPrice.Denom",
   "    return gerrc.ErrInvalidArgument",
   "  if msg.Offer.IsLT(so.MinPrice)",
   "    return gerrc.ErrInvalidArgument",
   "  if so.HasSetSellPrice()",
   "    if !msg.Offer.IsLTE(*so.SellPrice)",
   "      return gerrc.ErrInvalidArgument",
   "  if so.HighestBid != nil",
   "    if msg.Offer.IsLTE(so.HighestBid.Price)",
   "      return gerrc.ErrInvalidArgument",
   "    if priceParams.MinBidIncrementPercent > 0",
   "      minimumIncrement := so.HighestBid.Price.Amount.MulRaw(int64(priceParams.MinBidIncrementPercent)).QuoRaw(100)",
   "      if minimumIncrement.IsPositive()",
   "        wantMinimumBid := so.HighestBid.Price.AddAmount(minimumIncrement)",
   "        if so.HasSetSellPrice() && so.SellPrice.IsLT(wantMinimumBid)",
   "        else",
   "          if msg.Offer.IsLT(wantMinimumBid)",
   "            return gerrc.ErrInvalidArgument",
   "  return nil"] := rfl

/-- `msgServer.placeBuyOrderWithAssetTypeAlias` -/
theorem k_msgServer_placeBuyOrderWithAssetTypeAlias_listing : Gen.SkDymNS.k_msgServer_placeBuyOrderWithAssetTypeAlias =
  ["func (k msgServer) placeBuyOrderWithAssetTypeAlias(ctx sdk.Context, msg *dymnstypes.MsgPlaceBuyOrder, priceParams dymnstypes.PriceParams, miscParams dymnstypes.MiscParams) (*dymnstypes.MsgPlaceBuyOrderResponse, error)",
   "  if !miscParams.EnableTradingAlias",
   "    return nil, gerrc.ErrFailedPrecondition",
   "  existingOffer, err := k.validatePlaceBuyOrderWithAssetTypeAlias(ctx, msg, priceParams)",
   "  if err != nil",
   "    return nil, err",
   "  var offer dymnstypes.BuyOrder",
   "  var deposit sdk.Coin",
   "  if existingOffer != nil",
   "    deposit = msg.Offer.Sub(existingOffer.OfferPrice)",
   "    offer = *existingOffer",
   "    offer.OfferPrice = msg.Offer",
   "    err := k.SetBuyOrder(ctx, offer)",
   "    if err != nil",
   "      return nil, err",
   "  else",
   "    deposit = msg.Offer",
   "    offer = dymnstypes.BuyOrder{Id: \"\", AssetId: msg.AssetId, AssetType: dymnstypes.TypeAlias, Params: msg.Params, Buyer: msg.Buyer, OfferPrice: msg.Offer}",
   "    offer, err = k.InsertNewBuyOrder(ctx, offer)",
   "    if err != nil",
   "      return nil, err",
   "    err = k.AddReverseMappingBuyerToBuyOrderRecord(ctx, msg.Buyer, offer.Id)",
   "    if err != nil",
   "      return nil, err",
   "    err = k.AddReverseMappingAssetIdToBuyOrder(ctx, msg.AssetId, offer.AssetType, offer.Id)",
   "    if err != nil",
   "      return nil, err",
   "  err := k.bankKeeper.SendCoinsFromAccountToModule(ctx, sdk.MustAccAddressFromBech32(msg.Buyer), dymnstypes.ModuleName, sdk.NewCoins(deposit))",
   "  if err != nil",
   "    return nil, err",
   "  return &dymnstypes.MsgPlaceBuyOrderResponse{OrderId: offer.Id}, nil"] := rfl

/-- `msgServer.placeBuyOrderWithAssetTypeDymName` -/
theorem k_msgServer_placeBuyOrderWithAssetTypeDymName_listing : Gen.SkDymNS.k_msgServer_placeBuyOrderWithAssetTypeDymName =
  ["func (k msgServer) placeBuyOrderWithAssetTypeDymName(ctx sdk.Context, msg *dymnstypes.MsgPlaceBuyOrder, priceParams dymnstypes.PriceParams, miscParams dymnstypes.MiscParams) (*dymnstypes.MsgPlaceBuyOrderResponse, error)",
   "  if !miscParams.EnableTradingName",
   "    return nil, gerrc.ErrFailedPrecondition",
   "  existingOffer, err := k.validatePlaceBuyOrderWithAssetTypeDymName(ctx, msg, priceParams)",
   "  if err != nil",
   "    return nil, err",
   "  var offer dymnstypes.BuyOrder",
   "  var deposit sdk.Coin",
   "  if existingOffer != nil",
   "    deposit = msg.Offer.Sub(existingOffer.OfferPrice)",
   "    offer = *existingOffer",
   "    offer.OfferPrice = msg.Offer",
   "    err := k.SetBuyOrder(ctx, offer)",
   "    if err != nil",
   "      return nil, err",
   "  else",
   "    deposit = msg.Offer",
   "    offer = dymnstypes.BuyOrder{Id: \"\", AssetId: msg.AssetId, AssetType: dymnstypes.TypeName, Params: msg.Params, Buyer: msg.Buyer, OfferPrice: msg.Offer}",
   "    offer, err = k.InsertNewBuyOrder(ctx, offer)",
   "    if err != nil",
   "      return nil, err",
   "    err = k.AddReverseMappingBuyerToBuyOrderRecord(ctx, msg.Buyer, offer.Id)",
   "    if err != nil",
   "      return nil, err",
   "    err = k.AddReverseMappingAssetIdToBuyOrder(ctx, msg.AssetId, offer.AssetType, offer.Id)",
   "    if err != nil",
   "      return nil, err",
   "  err := k.bankKeeper.SendCoinsFromAccountToModule(ctx, sdk.MustAccAddressFromBech32(msg.Buyer), dymnstypes.ModuleName, sdk.NewCoins(deposit))",
   "  if err != nil",
   "    return nil, err",
   "  return &dymnstypes.MsgPlaceBuyOrderResponse{OrderId: offer.Id}, nil"] := rfl

/-- `msgServer.processAcceptBuyOrderWithAssetTypeAlias` -/
theorem k_msgServer_processAcceptBuyOrderWithAssetTypeAlias_listing : Gen.SkDymNS.k_msgServer_processAcceptBuyOrderWithAssetTypeAlias =
  ["func (k msgServer) processAcceptBuyOrderWithAssetTypeAlias(ctx sdk.Context, msg *dymnstypes.MsgAcceptBuyOrder, offer dymnstypes.BuyOrder, miscParams dymnstypes.MiscParams) (*dymnstypes.MsgAcceptBuyOrderResponse, error)",
   "  if !miscParams.EnableTradingAlias",
   "    return nil, gerrc.ErrPermissionDenied",
   "  if k.IsAliasPresentsInParamsAsAliasOrChainId(ctx, offer.AssetId)",
   "    return nil, gerrc.ErrPermissionDenied",
   "  existingRollAppUsingAlias, err := k.validateAcceptBuyOrderWithAssetTypeAlias(ctx, msg, offer)",
   "  if err != nil",
   "    return nil, err",
   "  destinationRollAppId := offer.Params[0]",
   "  if !k.IsRollAppId(ctx, destinationRollAppId)",
   "    return nil, gerrc.ErrInvalidArgument",
   "  var accepted bool",
   "  if msg.MinAccept.IsLT(offer.OfferPrice)",
   "    panic()",
   "  else",
   "    if msg.MinAccept.IsEqual(offer.OfferPrice)",
   "      accepted = true",
   "      sellOrder := k.GetSellOrder(ctx, offer.AssetId, offer.AssetType)",
   "      if sellOrder != nil",
   "        return nil, gerrc.ErrPermissionDenied",
   "      err := k.bankKeeper.SendCoinsFromModuleToAccount(ctx, dymnstypes.ModuleName, sdk.MustAccAddressFromBech32(existingRollAppUsingAlias.Owner), sdk.Coins{offer.OfferPrice})",
   "      if err != nil",
   "        return nil, err",
   "      err := k.removeBuyOrder(ctx, offer)",
   "      if err != nil",
   "        return nil, err",
   "      err := k.MoveAliasToRollAppId(ctx, existingRollAppUsingAlias.RollappId, offer.AssetId, destinationRollAppId)",
   "      if err != nil",
   "        return nil, err",
   "    else",
   "      accepted = false",
   "      offer.CounterpartyOfferPrice = &msg.MinAccept",
   "      err := k.SetBuyOrder(ctx, offer)",
   "      if err != nil",
   "        return nil, err",
   "  return &dymnstypes.MsgAcceptBuyOrderResponse{Accepted: accepted}, nil"] := rfl

/-- `msgServer.processAcceptBuyOrderWithAssetTypeDymName` -/
theorem k_msgServer_processAcceptBuyOrderWithAssetTypeDymName_listing : Gen.SkDymNS.k_msgServer_processAcceptBuyOrderWithAssetTypeDymName =
  ["func (k msgServer) processAcceptBuyOrderWithAssetTypeDymName(ctx sdk.Context, msg *dymnstypes.MsgAcceptBuyOrder, offer dymnstypes.BuyOrder, miscParams dymnstypes.MiscParams) (*dymnstypes.MsgAcceptBuyOrderResponse, error)",
   "  if !miscParams.EnableTradingName",
   "    return nil, gerrc.ErrFailedPrecondition",
   "  dymName, err := k.validateAcceptBuyOrderWithAssetTypeDymName(ctx, msg, offer)",
   "  if err != nil",
   "    return nil, err",
   "  var accepted bool",
   "  if msg.MinAccept.IsLT(offer.OfferPrice)",
   "    panic()",
   "  else",
   "    if msg.MinAccept.IsEqual(offer.OfferPrice)",
   "      accepted = true",
   "      sellOrder := k.GetSellOrder(ctx, offer.AssetId, offer.AssetType)",
   "      if sellOrder != nil",
   "        return nil, gerrc.ErrPermissionDenied",
   "      err := k.bankKeeper.SendCoinsFromModuleToAccount(ctx, dymnstypes.ModuleName, sdk.MustAccAddressFromBech32(dymName.Owner), sdk.Coins{offer.OfferPrice})",
   "      if err != nil",
   "        return nil, err",
   "      err := k.removeBuyOrder(ctx, offer)",
   "      if err != nil",
   "        return nil, err",
   "      err := k.transferDymNameOwnership(ctx, *dymName, offer.Buyer)",
   "      if err != nil",
   "        return nil, err",
   "    else",
   "      accepted = false",
   "      offer.CounterpartyOfferPrice = &msg.MinAccept",
   "      err := k.SetBuyOrder(ctx, offer)",
   "      if err != nil",
   "        return nil, err",
   "  return &dymnstypes.MsgAcceptBuyOrderResponse{Accepted: accepted}, nil"] := rfl

/-- `msgServer.processCancelBuyOrder` -/
theorem k_msgServer_processCancelBuyOrder_listing : Gen.SkDymNS.k_msgServer_processCancelBuyOrder =
  ["func (k msgServer) processCancelBuyOrder(ctx sdk.Context, msg *dymnstypes.MsgCancelBuyOrder, offer dymnstypes.BuyOrder) (*dymnstypes.MsgCancelBuyOrderResponse, error)",
   "  err := k.validateCancelBuyOrder(ctx, msg, offer)",
   "  if err != nil",
   "    return nil, err",
   "  err := k.RefundBuyOrder(ctx, offer)",
   "  if err != nil",
   "    return nil, err",
   "  err := k.removeBuyOrder(ctx, offer)",
   "  if err != nil",
   "    return nil, err",
   "  return &dymnstypes.MsgCancelBuyOrderResponse{}, nil"] := rfl

/-- `msgServer.processCancelSellOrderWithAssetTypeAlias` -/
theorem k_msgServer_processCancelSellOrderWithAssetTypeAlias_listing : Gen.SkDymNS.k_msgServer_processCancelSellOrderWithAssetTypeAlias =
  ["func (k msgServer) processCancelSellOrderWithAssetTypeAlias(ctx sdk.Context, msg *dymnstypes.MsgCancelSellOrder) (*dymnstypes.MsgCancelSellOrderResponse, error)",
   "  err := k.validateCancelSellOrderWithAssetTypeAlias(ctx, msg)",
   "  if err != nil",
   "    return nil, err",
   "  k.DeleteSellOrder(ctx, msg.AssetId, msg.AssetType)",
   "  return &dymnstypes.MsgCancelSellOrderResponse{}, nil"] := rfl

/-- `msgServer.processCancelSellOrderWithAssetTypeDymName` -/
theorem k_msgServer_processCancelSellOrderWithAssetTypeDymName_listing : Gen.SkDymNS.k_msgServer_processCancelSellOrderWithAssetTypeDymName =
  ["func (k msgServer) processCancelSellOrderWithAssetTypeDymName(ctx sdk.Context, msg *dymnstypes.MsgCancelSellOrder) (*dymnstypes.MsgCancelSellOrderResponse, error)",
   "  err := k.validateCancelSellOrderWithAssetTypeDymName(ctx, msg)",
   "  if err != nil",
   "    return nil, err",
   "  k.DeleteSellOrder(ctx, msg.AssetId, msg.AssetType)",
   "  return &dymnstypes.MsgCancelSellOrderResponse{}, nil"] := rfl

/-- `msgServer.processCompleteSellOrderWithAssetTypeAlias` -/
theorem k_msgServer_processCompleteSellOrderWithAssetTypeAlias_listing : Gen.SkDymNS.k_msgServer_processCompleteSellOrderWithAssetTypeAlias =
  ["func (k msgServer) processCompleteSellOrderWithAssetTypeAlias(ctx sdk.Context, msg *dymnstypes.MsgCompleteSellOrder) (*dymnstypes.MsgCompleteSellOrderResponse, error)",
   "  so, err := k.validateCompleteSellOrderWithAssetTypeAlias(ctx, msg)",
   "  if err != nil",
   "    return nil, err",
   "  miscParams := k.MiscParams(ctx)",
   "  var refund bool",
   "  forceCancel := k.IsAliasPresentsInParamsAsAliasOrChainId(ctx, so.AssetId)",
   "  if forceCancel",
   "    refund = true",
   "  else",
   "    if !miscParams.EnableTradingAlias",
   "      refund = true",
   "  if refund",
   "    err := k.RefundBid(ctx, *so.HighestBid, so.AssetType)",
   "    if err != nil",
   "      return nil, err",
   "    k.DeleteSellOrder(ctx, so.AssetId, so.AssetType)",
   "    return &dymnstypes.MsgCompleteSellOrderResponse{}, nil",
   "  err := k.CompleteAliasSellOrder(ctx, msg.AssetId)",
   "  if err != nil",
   "    return nil, err",
   "  return &dymnstypes.MsgCompleteSellOrderResponse{}, nil"] := rfl

/-- `msgServer.processCompleteSellOrderWithAssetTypeDymName` -/
theorem k_msgServer_processCompleteSellOrderWithAssetTypeDymName_listing : Gen.SkDymNS.k_msgServer_processCompleteSellOrderWithAssetTypeDymName =
  ["func (k msgServer) processCompleteSellOrderWithAssetTypeDymName(ctx sdk.Context, msg *dymnstypes.MsgCompleteSellOrder) (*dymnstypes.MsgCompleteSellOrderResponse, error)",
   "  so, dymName, err := k.validateCompleteSellOrderWithAssetTypeDymName(ctx, msg)",
   "  if err != nil",
   "    return nil, err",
   "  miscParams := k.MiscParams(ctx)",
   "  var refund bool",
   "  if !miscParams.EnableTradingName",
   "    refund = true",
   "  else",
   "    if dymName.IsExpiredAtCtx(ctx)",
   "      refund = true",
   "  if refund",
   "    err := k.RefundBid(ctx, *so.HighestBid, so.AssetType)",
   "    if err != nil",
   "      return nil, err",
   "    k.DeleteSellOrder(ctx, so.AssetId, so.AssetType)",
   "    return &dymnstypes.MsgCompleteSellOrderResponse{}, nil",
   "  err := k.CompleteDymNameSellOrder(ctx, so.AssetId)",
   "  if err != nil",
   "    return nil, err",
   "  return &dymnstypes.MsgCompleteSellOrderResponse{}, nil"] := rfl

/-- `msgServer.processPlaceSellOrderWithAssetTypeAlias` -/
theorem k_msgServer_processPlaceSellOrderWithAssetTypeAlias_listing : Gen.SkDymNS.k_msgServer_processPlaceSellOrderWithAssetTypeAlias =
  ["func (k msgServer) processPlaceSellOrderWithAssetTypeAlias(ctx sdk.Context, msg *dymnstypes.MsgPlaceSellOrder, priceParams dymnstypes.PriceParams, miscParams dymnstypes.MiscParams) (*dymnstypes.MsgPlaceSellOrderResponse, error)",
   "  if !miscParams.EnableTradingAlias",
   "    return nil, gerrc.ErrFailedPrecondition",
   "  err := k.validatePlaceSellOrderWithAssetTypeAlias(ctx, msg, priceParams)",
   "  if err != nil",
   "    return nil, err",
   "  so := msg.ToSellOrder()",
   "  so.ExpireAt = ctx.BlockTime().Add(miscParams.SellOrderDuration).Unix()",
   "  err := so.Validate()",
   "  if err != nil",
   "    panic()",
   "  err := k.SetSellOrder(ctx, so)",
   "  if err != nil",
   "    return nil, err",
   "  return &dymnstypes.MsgPlaceSellOrderResponse{}, nil"] := rfl

/-- `msgServer.processPlaceSellOrderWithAssetTypeDymName` -/
theorem k_msgServer_processPlaceSellOrderWithAssetTypeDymName_listing : Gen.SkDymNS.k_msgServer_processPlaceSellOrderWithAssetTypeDymName =
  ["func (k msgServer) processPlaceSellOrderWithAssetTypeDymName(ctx sdk.Context, msg *dymnstypes.MsgPlaceSellOrder, priceParams dymnstypes.PriceParams, miscParams dymnstypes.MiscParams) (*dymnstypes.MsgPlaceSellOrderResponse, error)",
   "  if !miscParams.EnableTradingName",
   "    return nil, gerrc.ErrFailedPrecondition",
   "  dymName, err := k.validatePlaceSellOrderWithAssetTypeDymName(ctx, msg, priceParams)",
   "  if err != nil",
   "    return nil, err",
   "  so := msg.ToSellOrder()",
   "  so.ExpireAt = ctx.BlockTime().Add(miscParams.SellOrderDuration).Unix()",
   "  if so.ExpireAt >= dymName.ExpireAt",
   "    return nil, gerrc.ErrPermissionDenied",
   "  err := so.Validate()",
   "  if err != nil",
   "    panic()",
   "  err := k.SetSellOrder(ctx, so)",
   "  if err != nil",
   "    return nil, err",
   "  return &dymnstypes.MsgPlaceSellOrderResponse{}, nil"] := rfl

/-- `msgServer.processPurchaseOrderWithAssetTypeAlias` -/
theorem k_msgServer_processPurchaseOrderWithAssetTypeAlias_listing : Gen.SkDymNS.k_msgServer_processPurchaseOrderWithAssetTypeAlias =
  ["func (k msgServer) processPurchaseOrderWithAssetTypeAlias(ctx sdk.Context, msg *dymnstypes.MsgPurchaseOrder, priceParams dymnstypes.PriceParams, miscParams dymnstypes.MiscParams) (*dymnstypes.MsgPurchaseOrderResponse, error)",
   "  if !miscParams.EnableTradingAlias",
   "    return nil, gerrc.ErrFailedPrecondition",
   "  so, err := k.validatePurchaseOrderWithAssetTypeAlias(ctx, msg, priceParams)",
   "  if err != nil",
   "    return nil, err",
   "  if so.HighestBid != nil",
   "    err := k.RefundBid(ctx, *so.HighestBid, so.AssetType)",
   "    if err != nil",
   "      return nil, err",
   "  err := k.bankKeeper.SendCoinsFromAccountToModule(ctx, sdk.MustAccAddressFromBech32(msg.Buyer), dymnstypes.ModuleName, sdk.Coins{msg.Offer})",
   "  if err != nil",
   "    return nil, err",
   "  so.HighestBid = &dymnstypes.SellOrderBid{Bidder: msg.Buyer, Price: msg.Offer, Params: msg.Params}",
   "  err := k.SetSellOrder(ctx, *so)",
   "  if err != nil",
   "    return nil, err",
   "  if so.HasFinishedAtCtx(ctx)",
   "    err := k.CompleteAliasSellOrder(ctx, so.AssetId)",
   "    if err != nil",
   "      return nil, err",
   "  return &dymnstypes.MsgPurchaseOrderResponse{}, nil"] := rfl

/-- `msgServer.processPurchaseOrderWithAssetTypeDymName` -/
theorem k_msgServer_processPurchaseOrderWithAssetTypeDymName_listing : Gen.SkDymNS.k_msgServer_processPurchaseOrderWithAssetTypeDymName =
  ["func (k msgServer) processPurchaseOrderWithAssetTypeDymName(ctx sdk.Context, msg *dymnstypes.MsgPurchaseOrder, priceParams dymnstypes.PriceParams, miscParams dymnstypes.MiscParams) (*dymnstypes.MsgPurchaseOrderResponse, error)",
   "  if !miscParams.EnableTradingName",
   "    return nil, gerrc.ErrFailedPrecondition",
   "  dymName, so, err := k.validatePurchaseOrderWithAssetTypeDymName(ctx, msg, priceParams)",
   "  if err != nil",
   "    return nil, err",
   "  if so.HighestBid != nil",
   "    err := k.RefundBid(ctx, *so.HighestBid, so.AssetType)",
   "    if err != nil",
   "      return nil, err",
   "  err := k.bankKeeper.SendCoinsFromAccountToModule(ctx, sdk.MustAccAddressFromBech32(msg.Buyer), dymnstypes.ModuleName, sdk.Coins{msg.Offer})",
   "  if err != nil",
   "    return nil, err",
   "  so.HighestBid = &dymnstypes.SellOrderBid{Bidder: msg.Buyer, Price: msg.Offer, Params: msg.Params}",
   "  err := k.SetSellOrder(ctx, *so)",
   "  if err != nil",
   "    return nil, err",
   "  if so.HasFinishedAtCtx(ctx)",
   "    err := k.CompleteDymNameSellOrder(ctx, dymName.Name)",
   "    if err != nil",
   "      return nil, err",
   "  return &dymnstypes.MsgPurchaseOrderResponse{}, nil"] := rfl

/-- `msgServer.removeBuyOrder` -/
theorem k_msgServer_removeBuyOrder_listing : Gen.SkDymNS.k_msgServer_removeBuyOrder =
  ["func (k msgServer) removeBuyOrder(ctx sdk.Context, offer dymnstypes.BuyOrder) error",
   "  k.DeleteBuyOrder(ctx, offer.Id)",
   "  err := k.RemoveReverseMappingBuyerToBuyOrder(ctx, offer.Buyer, offer.Id)",
   "  if err != nil",
   "    return err",
   "  err = k.RemoveReverseMappingAssetIdToBuyOrder(ctx, offer.AssetId, offer.AssetType, offer.Id)",
   "  if err != nil",
   "    return err",
   "  return nil"] := rfl

/-- `msgServer.validateAcceptBuyOrderWithAssetTypeAlias` -/
theorem k_msgServer_validateAcceptBuyOrderWithAssetTypeAlias_listing : Gen.SkDymNS.k_msgServer_validateAcceptBuyOrderWithAssetTypeAlias =
  ["func (k msgServer) validateAcceptBuyOrderWithAssetTypeAlias(ctx sdk.Context, msg *dymnstypes.MsgAcceptBuyOrder, bo dymnstypes.BuyOrder) (*rollapptypes.Rollapp, error)",
   "  existingRollAppIdUsingAlias, found := k.GetRollAppIdByAlias(ctx, bo.AssetId)",
   "  if !found",
   "    return nil, gerrc.ErrNotFound",
   "  if !k.IsRollAppCreator(ctx, existingRollAppIdUsingAlias, msg.Owner)",
   "    return nil, gerrc.ErrPermissionDenied",
   "  existingRollAppUsingAlias, found := k.rollappKeeper.GetRollapp(ctx, existingRollAppIdUsingAlias)",
   "  if !found",
   "    panic()",
   "  if bo.Buyer == msg.Owner",
   "    return nil, gerrc.ErrPermissionDenied",
   "  if msg.MinAccept.Denom != bo.OfferPrice.Denom",
   "    return nil, gerrc.ErrInvalidArgument",
   "  if msg.MinAccept.IsLT(bo.OfferPrice)",
   "    return nil, gerrc.ErrInvalidArgument",
   "  return &existingRollAppUsingAlias, nil"] := rfl

/-- `msgServer.validateAcceptBuyOrderWithAssetTypeDymName` -/
theorem k_msgServer_validateAcceptBuyOrderWithAssetTypeDymName_listing : Gen.SkDymNS.k_msgServer_validateAcceptBuyOrderWithAssetTypeDymName =
  ["func (k msgServer) validateAcceptBuyOrderWithAssetTypeDymName(ctx sdk.Context, msg *dymnstypes.MsgAcceptBuyOrder, bo dymnstypes.BuyOrder) (*dymnstypes.DymName, error)",
   "  dymName := k.GetDymNameWithExpirationCheck(ctx, bo.AssetId)",
   "  if dymName == nil",
   "    return nil, gerrc.ErrNotFound",
   "  if dymName.Owner != msg.Owner",
   "    return nil, gerrc.ErrPermissionDenied",
   "  if bo.Buyer == msg.Owner",
   "    return nil, gerrc.ErrPermissionDenied",
   "  if msg.MinAccept.Denom != bo.OfferPrice.Denom",
   "    return nil, gerrc.ErrInvalidArgument",
   "  if msg.MinAccept.IsLT(bo.OfferPrice)",
   "    return nil, gerrc.ErrInvalidArgument",
   "  return dymName, nil"] := rfl

/-- `msgServer.validateCancelBuyOrder` -/
theorem k_msgServer_validateCancelBuyOrder_listing : Gen.SkDymNS.k_msgServer_validateCancelBuyOrder =
  ["func (k msgServer) validateCancelBuyOrder(_ sdk.Context, msg *dymnstypes.MsgCancelBuyOrder, offer dymnstypes.BuyOrder) error",
   "  if offer.Buyer != msg.Buyer",
   "    return gerrc.ErrPermissionDenied",
   "  return nil"] := rfl

/-- `msgServer.validateCancelSellOrderWithAssetTypeAlias` -/
theorem k_msgServer_validateCancelSellOrderWithAssetTypeAlias_listing : Gen.SkDymNS.k_msgServer_validateCancelSellOrderWithAssetTypeAlias =
  ["func (k msgServer) validateCancelSellOrderWithAssetTypeAlias(ctx sdk.Context, msg *dymnstypes.MsgCancelSellOrder) error",
   "  existingRollAppIdUsingAlias, found := k.GetRollAppIdByAlias(ctx, msg.AssetId)",
   "  if !found",
   "    return gerrc.ErrNotFound",
   "  if !k.IsRollAppCreator(ctx, existingRollAppIdUsingAlias, msg.Owner)",
   "    return gerrc.ErrPermissionDenied",
   "  so := k.GetSellOrder(ctx, msg.AssetId, msg.AssetType)",
   "  if so == nil",
   "    return gerrc.ErrNotFound",
   "  if so.HighestBid != nil",
   "    return gerrc.ErrFailedPrecondition",
   "  return nil"] := rfl

/-- `msgServer.validateCancelSellOrderWithAssetTypeDymName` -/
theorem k_msgServer_validateCancelSellOrderWithAssetTypeDymName_listing : Gen.SkDymNS.k_msgServer_validateCancelSellOrderWithAssetTypeDymName =
  ["func (k msgServer) validateCancelSellOrderWithAssetTypeDymName(ctx sdk.Context, msg *dymnstypes.MsgCancelSellOrder) error",
   "  dymName := k.GetDymName(ctx, msg.AssetId)",
   "  if dymName == nil",
   "    return gerrc.ErrNotFound",
   "  if dymName.Owner != msg.Owner",
   "    return gerrc.ErrPermissionDenied",
   "  so := k.GetSellOrder(ctx, msg.AssetId, msg.AssetType)",
   "  if so == nil",
   "    return gerrc.ErrNotFound",
   "  if so.HighestBid != nil",
   "    return gerrc.ErrFailedPrecondition",
   "  return nil"] := rfl

/-- `msgServer.validateCompleteSellOrderWithAssetTypeAlias` -/
theorem k_msgServer_validateCompleteSellOrderWithAssetTypeAlias_listing : Gen.SkDymNS.k_msgServer_validateCompleteSellOrderWithAssetTypeAlias =
  ["func (k msgServer) validateCompleteSellOrderWithAssetTypeAlias(ctx sdk.Context, msg *dymnstypes.MsgCompleteSellOrder) (*dymnstypes.SellOrder, error)",
   "  so := k.GetSellOrder(ctx, msg.AssetId, msg.AssetType)",
   "  if so == nil",
   "    return nil, gerrc.ErrNotFound",
   "  if so.HighestBid == nil",
   "    return nil, gerrc.ErrFailedPrecondition",
   "  if !so.HasFinishedAtCtx(ctx)",
   "    return nil, gerrc.ErrFailedPrecondition",
   "  existingRollAppIdUsingAlias, found := k.GetRollAppIdByAlias(ctx, msg.AssetId)",
   "  if !found",
   "    return nil, gerrc.ErrNotFound",
   "  if !k.IsRollAppCreator(ctx, existingRollAppIdUsingAlias, msg.Participant) && so.HighestBid.Bidder != msg.Participant",
   "    return nil, gerrc.ErrPermissionDenied",
   "  return so, nil"] := rfl

/-- `msgServer.validateCompleteSellOrderWithAssetTypeDymName` -/
theorem k_msgServer_validateCompleteSellOrderWithAssetTypeDymName_listing : Gen.SkDymNS.k_msgServer_validateCompleteSellOrderWithAssetTypeDymName =
  ["func (k msgServer) validateCompleteSellOrderWithAssetTypeDymName(ctx sdk.Context, msg *dymnstypes.MsgCompleteSellOrder) (*dymnstypes.SellOrder, *dymnstypes.DymName, error)",
   "  so := k.GetSellOrder(ctx, msg.AssetId, msg.AssetType)",
   "  if so == nil",
   "    return nil, nil, gerrc.ErrNotFound",
   "  if so.HighestBid == nil",
   "    return nil, nil, gerrc.ErrFailedPrecondition",
   "  if !so.HasFinishedAtCtx(ctx)",
   "    return nil, nil, gerrc.ErrFailedPrecondition",
   "  dymName := k.GetDymName(ctx, msg.AssetId)",
   "  if dymName == nil",
   "    return nil, nil, gerrc.ErrNotFound",
   "  if dymName.Owner != msg.Participant && so.HighestBid.Bidder != msg.Participant",
   "    return nil, nil, gerrc.ErrPermissionDenied",
   "  return so, dymName, nil"] := rfl

/-- `msgServer.validatePlaceBuyOrderWithAssetTypeAlias` -/
theorem k_msgServer_validatePlaceBuyOrderWithAssetTypeAlias_listing : Gen.SkDymNS.k_msgServer_validatePlaceBuyOrderWithAssetTypeAlias =
  ["func (k msgServer) validatePlaceBuyOrderWithAssetTypeAlias(ctx sdk.Context, msg *dymnstypes.MsgPlaceBuyOrder, priceParams dymnstypes.PriceParams) (existingOffer *dymnstypes.BuyOrder, err error)",
   "  destinationRollAppId := msg.Params[0]",
   "  if !k.IsRollAppId(ctx, destinationRollAppId)",
   "    err = gerrc.ErrInvalidArgument",
   "    return",
   "  if !k.IsRollAppCreator(ctx, destinationRollAppId, msg.Buyer)",
   "    err = gerrc.ErrPermissionDenied",
   "    return",
   "  existingRollAppIdUsingAlias, found := k.GetRollAppIdByAlias(ctx, msg.AssetId)",
   "  if !found",
   "    err = gerrc.ErrNotFound",
   "    return",
   "  if destinationRollAppId == existingRollAppIdUsingAlias",
   "    err = gerrc.ErrInvalidArgument",
   "    return",
   "  if k.IsAliasPresentsInParamsAsAliasOrChainId(ctx, msg.AssetId)",
   "    err = gerrc.ErrPermissionDenied",
   "    return",
   "  if msg.Offer.Denom != priceParams.PriceDenom",
   "    err = gerrc.ErrInvalidArgument",
   "    return",
   "  if msg.Offer.Amount.LT(priceParams.MinOfferPrice)",
   "    err = gerrc.ErrInvalidArgument",
   "    return",
   "  if msg.ContinueOrderId != \"\"",
   "    existingOffer = k.GetBuyOrder(ctx, msg.ContinueOrderId)",
   "    if existingOffer == nil",
   "      err = gerrc.ErrNotFound",
   "      return",
   "    if existingOffer.Buyer != msg.Buyer",
   "      err = gerrc.ErrPermissionDenied",
   "      return",
   "    if existingOffer.AssetId != msg.AssetId",
   "      err = gerrc.ErrInvalidArgument",
   "      return",
   "    if existingOffer.AssetType != msg.AssetType",
   "      err = gerrc.ErrInvalidArgument",
   "      return",
   "    if existingOffer.OfferPrice.Denom != msg.Offer.Denom",
   "      err = gerrc.ErrInvalidArgument",
   "      return",
   "    if msg.Offer.IsLTE(existingOffer.OfferPrice)",
   "      err = gerrc.ErrInvalidArgument",
   "      return",
   "  return"] := rfl

/-- `msgServer.validatePlaceBuyOrderWithAssetTypeDymName` -/
theorem k_msgServer_validatePlaceBuyOrderWithAssetTypeDymName_listing : Gen.SkDymNS.k_msgServer_validatePlaceBuyOrderWithAssetTypeDymName =
  ["func (k msgServer) validatePlaceBuyOrderWithAssetTypeDymName(ctx sdk.Context, msg *dymnstypes.MsgPlaceBuyOrder, priceParams dymnstypes.PriceParams) (existingOffer *dymnstypes.BuyOrder, err error)",
   "  dymName := k.GetDymNameWithExpirationCheck(ctx, msg.AssetId)",
   "  if dymName == nil",
   "    err = gerrc.ErrNotFound",
   "    return",
   "  if dymName.Owner == msg.Buyer",
   "    err = gerrc.ErrInvalidArgument",
   "    return",
   "  if msg.Offer.Denom != priceParams.PriceDenom",
   "    err = gerrc.ErrInvalidArgument",
   "    return",
   "  if msg.Offer.Amount.LT(priceParams.MinOfferPrice)",
   "    err = gerrc.ErrInvalidArgument",
   "    return",
   "  if msg.ContinueOrderId != \"\"",
   "    existingOffer = k.GetBuyOrder(ctx, msg.ContinueOrderId)",
   "    if existingOffer == nil",
   "      err = gerrc.ErrNotFound",
   "      return",
   "    if existingOffer.Buyer != msg.Buyer",
   "      err = gerrc.ErrPermissionDenied",
   "      return",
   "    if existingOffer.AssetId != msg.AssetId",
   "      err = gerrc.ErrInvalidArgument",
   "      return",
   "    if existingOffer.AssetType != msg.AssetType",
   "      err = gerrc.ErrInvalidArgument",
   "      return",
   "    if existingOffer.OfferPrice.Denom != msg.Offer.Denom",
   "      err = gerrc.ErrInvalidArgument",
   "      return",
   "    if msg.Offer.IsLTE(existingOffer.OfferPrice)",
   "      err = gerrc.ErrInvalidArgument",
   "      return",
   "  return"] := rfl

/-- `msgServer.validatePlaceSellOrderWithAssetTypeAlias` -/
theorem k_msgServer_validatePlaceSellOrderWithAssetTypeAlias_listing : Gen.SkDymNS.k_msgServer_validatePlaceSellOrderWithAssetTypeAlias =
  ["func (k msgServer) validatePlaceSellOrderWithAssetTypeAlias(ctx sdk.Context, msg *dymnstypes.MsgPlaceSellOrder, priceParams dymnstypes.PriceParams) error",
   "  alias := msg.AssetId",
   "  if k.IsAliasPresentsInParamsAsAliasOrChainId(ctx, msg.AssetId)",
   "    return gerrc.ErrPermissionDenied",
   "  sourceRollAppId, found := k.GetRollAppIdByAlias(ctx, alias)",
   "  if !found",
   "    return gerrc.ErrNotFound",
   "  if !k.IsRollAppCreator(ctx, sourceRollAppId, msg.Owner)",
   "    return gerrc.ErrPermissionDenied",
   "  existingActiveSo := k.GetSellOrder(ctx, alias, msg.AssetType)",
   "  if existingActiveSo != nil",
   "    if existingActiveSo.HasFinishedAtCtx(ctx)",
   "      return gerrc.ErrAlreadyExists",
   "    return gerrc.ErrAlreadyExists",
   "  if msg.MinPrice.Denom != priceParams.PriceDenom",
   "    return gerrc.ErrInvalidArgument",
   "  return nil"] := rfl

/-- `msgServer.validatePlaceSellOrderWithAssetTypeDymName` -/
theorem k_msgServer_validatePlaceSellOrderWithAssetTypeDymName_listing : Gen.SkDymNS.k_msgServer_validatePlaceSellOrderWithAssetTypeDymName =
  ["func (k msgServer) validatePlaceSellOrderWithAssetTypeDymName(ctx sdk.Context, msg *dymnstypes.MsgPlaceSellOrder, priceParams dymnstypes.PriceParams) (*dymnstypes.DymName, error)",
   "  dymName := k.GetDymName(ctx, msg.AssetId)",
   "  if dymName == nil",
   "    return nil, gerrc.ErrNotFound",
   "  if dymName.Owner != msg.Owner",
   "    return nil, gerrc.ErrPermissionDenied",
   "  if dymName.IsExpiredAtCtx(ctx)",
   "    return nil, gerrc.ErrUnauthenticated",
   "  existingActiveSo := k.GetSellOrder(ctx, dymName.Name, msg.AssetType)",
   "  if existingActiveSo != nil",
   "    if existingActiveSo.HasFinishedAtCtx(ctx)",
   "      return nil, gerrc.ErrAlreadyExists",
   "    return nil, gerrc.ErrAlreadyExists",
   "  if msg.MinPrice.Denom != priceParams.PriceDenom",
   "    return nil, gerrc.ErrInvalidArgument",
   "  return dymName, nil"] := rfl

/-- `msgServer.validatePurchaseOrderWithAssetTypeAlias` -/
theorem k_msgServer_validatePurchaseOrderWithAssetTypeAlias_listing : Gen.SkDymNS.k_msgServer_validatePurchaseOrderWithAssetTypeAlias =
  ["func (k msgServer) validatePurchaseOrderWithAssetTypeAlias(ctx sdk.Context, msg *dymnstypes.MsgPurchaseOrder, priceParams dymnstypes.PriceParams) (*dymnstypes.SellOrder, error)",
   "  destinationRollAppId := msg.Params[0]",
   "  if !k.IsRollAppId(ctx, destinationRollAppId)",
   "    return nil, gerrc.ErrInvalidArgument",
   "  if !k.IsRollAppCreator(ctx, destinationRollAppId, msg.Buyer)",
   "    return nil, gerrc.ErrPermissionDenied",
   "  existingRollAppIdUsingAlias, found := k.GetRollAppIdByAlias(ctx, msg.AssetId)",
   "  if !found",
   "    return nil, gerrc.ErrNotFound",
   "  if destinationRollAppId == existingRollAppIdUsingAlias",
   "    return nil, gerrc.ErrInvalidArgument",
   "  if k.IsAliasPresentsInParamsAsAliasOrChainId(ctx, msg.AssetId)",
   "    return nil, gerrc.ErrPermissionDenied",
   "  so := k.GetSellOrder(ctx, msg.AssetId, msg.AssetType)",
   "  if so == nil",
   "    return nil, gerrc.ErrNotFound",
   "  err := k.genericValidateSellOrderOfPurchaseOrder(ctx, msg, *so, priceParams)",
   "  if err != nil",
   "    return nil, err",
   "  return so, nil"] := rfl

/-- `msgServer.validatePurchaseOrderWithAssetTypeDymName` -/
theorem k_msgServer_validatePurchaseOrderWithAssetTypeDymName_listing : Gen.SkDymNS.k_msgServer_validatePurchaseOrderWithAssetTypeDymName =
  ["func (k msgServer) validatePurchaseOrderWithAssetTypeDymName(ctx sdk.Context, msg *dymnstypes.MsgPurchaseOrder, priceParams dymnstypes.PriceParams) (*dymnstypes.DymName, *dymnstypes.SellOrder, error)",
   "  dymName := k.GetDymName(ctx, msg.AssetId)",
   "  if dymName == nil",
   "    return nil, nil, gerrc.ErrNotFound",
   "  if dymName.Owner == msg.Buyer",
   "    return nil, nil, gerrc.ErrPermissionDenied",
   "  so := k.GetSellOrder(ctx, msg.AssetId, msg.AssetType)",
   "  if so == nil",
   "    return nil, nil, gerrc.ErrNotFound",
   "  err := k.genericValidateSellOrderOfPurchaseOrder(ctx, msg, *so, priceParams)",
   "  if err != nil",
   "    return nil, nil, err",
   "  return dymName, so, nil"] := rfl

/-- `msgServer.validateRegisterAlias` -/
theorem k_msgServer_validateRegisterAlias_listing : Gen.SkDymNS.k_msgServer_validateRegisterAlias =
  ["func (k msgServer) validateRegisterAlias(ctx sdk.Context, msg *dymnstypes.MsgRegisterAlias) error",
   "  err := msg.ValidateBasic()",
   "  if err != nil",
   "    return err",
   "  rollApp, found := k.rollappKeeper.GetRollapp(ctx, msg.RollappId)",
   "  if !found",
   "    return gerrc.ErrNotFound",
   "  if rollApp.Owner != msg.Owner",
   "    return gerrc.ErrPermissionDenied",
   "  if !k.CanUseAliasForNewRegistration(ctx, msg.Alias)",
   "    return gerrc.ErrAlreadyExists",
   "  return nil"] := rfl

/-- `msgServer.validateRegisterName` -/
theorem k_msgServer_validateRegisterName_listing : Gen.SkDymNS.k_msgServer_validateRegisterName =
  ["func (k msgServer) validateRegisterName(ctx sdk.Context, msg *dymnstypes.MsgRegisterName) (*dymnstypes.DymName, error)",
   "  err := msg.ValidateBasic()",
   "  if err != nil",
   "    return nil, err",
   "  miscParams := k.MiscParams(ctx)",
   "  dymName := k.GetDymName(ctx, msg.Name)",
   "  if dymName != nil",
   "    if dymName.Owner == msg.Owner",
   "    else",
   "      if !dymName.IsExpiredAtCtx(ctx)",
   "        return nil, gerrc.ErrUnauthenticated",
   "      dymNameCanBeTakeOverAfterEpoch := dymName.ExpireAt + int64(miscParams.GracePeriodDuration.Seconds())",
   "      if ctx.BlockTime().Unix() < dymNameCanBeTakeOverAfterEpoch",
   "        return nil, gerrc.ErrFailedPrecondition",
   "  return dymName, nil"] := rfl

/-- `msgServer.validateSetController` -/
theorem k_msgServer_validateSetController_listing : Gen.SkDymNS.k_msgServer_validateSetController =
  ["func (k msgServer) validateSetController(ctx sdk.Context, msg *dymnstypes.MsgSetController) (*dymnstypes.DymName, error)",
   "  err := msg.ValidateBasic()",
   "  if err != nil",
   "    return nil, err",
   "  dymName := k.GetDymName(ctx, msg.Name)",
   "  if dymName == nil",
   "    return nil, gerrc.ErrNotFound",
   "  if dymName.Owner != msg.Owner",
   "    return nil, gerrc.ErrPermissionDenied",
   "  if dymName.IsExpiredAtCtx(ctx)",
   "    return nil, gerrc.ErrUnauthenticated",
   "  if dymName.Controller == msg.Controller",
   "    return nil, gerrc.ErrInvalidArgument",
   "  return dymName, nil"] := rfl

/-- `msgServer.validateTransferDymNameOwnership` -/
theorem k_msgServer_validateTransferDymNameOwnership_listing : Gen.SkDymNS.k_msgServer_validateTransferDymNameOwnership =
  ["func (k msgServer) validateTransferDymNameOwnership(ctx sdk.Context, msg *dymnstypes.MsgTransferDymNameOwnership) (*dymnstypes.DymName, error)",
   "  err := msg.ValidateBasic()",
   "  if err != nil",
   "    return nil, err",
   "  dymName := k.GetDymName(ctx, msg.Name)",
   "  if dymName == nil",
   "    return nil, gerrc.ErrNotFound",
   "  if dymName.Owner != msg.Owner",
   "    return nil, gerrc.ErrPermissionDenied",
   "  if dymName.IsExpiredAtCtx(ctx)",
   "    return nil, gerrc.ErrUnauthenticated",
   "  so := k.GetSellOrder(ctx, msg.Name, dymnstypes.TypeName)",
   "  if so != nil",
   "    return nil, gerrc.ErrFailedPrecondition",
   "  return dymName, nil"] := rfl

/-- `msgServer.validateUpdateDetails` -/
theorem k_msgServer_validateUpdateDetails_listing : Gen.SkDymNS.k_msgServer_validateUpdateDetails =
  ["func (k msgServer) validateUpdateDetails(ctx sdk.Context, msg *dymnstypes.MsgUpdateDetails) (*dymnstypes.DymName, error)",
   "  err := msg.ValidateBasic()",
   "  if err != nil",
   "    return nil, err",
   "  dymName := k.GetDymName(ctx, msg.Name)",
   "  if dymName == nil",
   "    return nil, gerrc.ErrNotFound",
   "  if dymName.IsExpiredAtCtx(ctx)",
   "    return nil, gerrc.ErrUnauthenticated",
   "  if dymName.Controller != msg.Controller",
   "    if dymName.Owner == msg.Controller",
   "      return nil, gerrc.ErrPermissionDenied",
   "    return nil, gerrc.ErrPermissionDenied",
   "  if msg.Contact == dymnstypes.DoNotModifyDesc && msg.ClearConfigs && len(dymName.Configs) == 0",
   "    return nil, gerrc.ErrInvalidArgument",
   "  return dymName, nil"] := rfl

/-- `msgServer.validateUpdateResolveAddress` -/
theorem k_msgServer_validateUpdateResolveAddress_listing : Gen.SkDymNS.k_msgServer_validateUpdateResolveAddress =
  ["func (k msgServer) validateUpdateResolveAddress(ctx sdk.Context, msg *dymnstypes.MsgUpdateResolveAddress) (*dymnstypes.DymName, error)",
   "  err := msg.ValidateBasic()",
   "  if err != nil",
   "    return nil, err",
   "  dymName := k.GetDymName(ctx, msg.Name)",
   "  if dymName == nil",
   "    return nil, gerrc.ErrNotFound",
   "  if dymName.IsExpiredAtCtx(ctx)",
   "    return nil, gerrc.ErrUnauthenticated",
   "  if dymName.Controller != msg.Controller",
   "    if dymName.Owner == msg.Controller",
   "      return nil, gerrc.ErrPermissionDenied",
   "    return nil, gerrc.ErrPermissionDenied",
   "  if msg.ResolveTo != \"\"",
   "    if msg.ChainId == \"\" || msg.ChainId == ctx.ChainID()",
   "      if !dymnsutils.IsValidBech32AccountAddress(msg.ResolveTo, true)",
   "        return nil, gerrc.ErrInvalidArgument",
   "    else",
   "      if k.IsRollAppId(ctx, msg.ChainId)",
   "        if !dymnsutils.IsValidBech32AccountAddress(msg.ResolveTo, false)",
   "          return nil, gerrc.ErrInvalidArgument",
   "        bech32Prefix, found := k.GetRollAppBech32Prefix(ctx, msg.ChainId)",
   "        if found",
   "          hrp, _, err := bech32.DecodeAndConvert(msg.ResolveTo)",
   "          if err != nil",
   "            panic()",
   "          if hrp != bech32Prefix",
   "            return nil, gerrc.ErrInvalidArgument",
   "  return dymName, nil"] := rfl

/-- `normalizeConfiguredAddressForReverseMapping` -/
theorem k_normalizeConfiguredAddressForReverseMapping_listing : Gen.SkDymNS.k_normalizeConfiguredAddressForReverseMapping =
  ["func normalizeConfiguredAddressForReverseMapping(configuredAddress string) string",
   "  configuredAddress = strings.TrimSpace(configuredAddress)",
   "  if dymnsutils.IsValidHexAddress(configuredAddress)",
   "    configuredAddress = strings.ToLower(configuredAddress)",
   "  return configuredAddress"] := rfl

/-- `rollappHooks.AfterStateFinalized` -/
theorem k_rollappHooks_AfterStateFinalized_listing : Gen.SkDymNS.k_rollappHooks_AfterStateFinalized =
  ["func (h rollappHooks) AfterStateFinalized(_ sdk.Context, _ string, _ *rollapptypes.StateInfo) error",
   "  return nil"] := rfl

/-- `rollappHooks.AfterTransfersEnabled` -/
theorem k_rollappHooks_AfterTransfersEnabled_listing : Gen.SkDymNS.k_rollappHooks_AfterTransfersEnabled =
  ["func (h rollappHooks) AfterTransfersEnabled(_ sdk.Context, _, _ string) error",
   "  return nil"] := rfl

/-- `rollappHooks.AfterUpdateState` -/
theorem k_rollappHooks_AfterUpdateState_listing : Gen.SkDymNS.k_rollappHooks_AfterUpdateState =
  ["func (h rollappHooks) AfterUpdateState(ctx sdk.Context, stateInfo *rollapptypes.StateInfoMeta) error",
   "  return nil"] := rfl

/-- `rollappHooks.BeforeUpdateState` -/
theorem k_rollappHooks_BeforeUpdateState_listing : Gen.SkDymNS.k_rollappHooks_BeforeUpdateState =
  ["func (h rollappHooks) BeforeUpdateState(_ sdk.Context, _ string, _ string, _ bool) error",
   "  return nil"] := rfl

/-- `rollappHooks.OnHardFork` -/
theorem k_rollappHooks_OnHardFork_listing : Gen.SkDymNS.k_rollappHooks_OnHardFork =
  ["func (h rollappHooks) OnHardFork(_ sdk.Context, _ string, _ uint64) error",
   "  return nil"] := rfl

/-- `rollappHooks.OnRollAppIdChanged` -/
theorem k_rollappHooks_OnRollAppIdChanged_listing : Gen.SkDymNS.k_rollappHooks_OnRollAppIdChanged =
  ["func (h rollappHooks) OnRollAppIdChanged(ctx sdk.Context, previousRollAppId, newRollAppId string)",
   "  err := osmoutils.ApplyFuncIfNoError(ctx, func#1)",
   "    func#1 (ctx sdk.Context) error",
   "      aliasesLinkedToPreviousRollApp := h.GetAliasesOfRollAppId(ctx, previousRollAppId)",
   "      if len(aliasesLinkedToPreviousRollApp) == 0",
   "        return nil",
   "      for _, alias := range aliasesLinkedToPreviousRollApp",
   "        err := h.MoveAliasToRollAppId(ctx, previousRollAppId, alias, newRollAppId)",
   "        if err != nil",
   "          return errors.Join(gerrc.ErrUnknown, err)",
   "      return h.SetDefaultAliasForRollApp(ctx, newRollAppId, aliasesLinkedToPreviousRollApp[0])",
   "  if err != nil",
   "    return",
   "  err := osmoutils.ApplyFuncIfNoError(ctx, func#2)",
   "    func#2 (ctx sdk.Context) error",
   "      previousChainIdsToNewChainId := map[string]string{previousRollAppId: newRollAppId}",
   "      err := h.migrateChainIdsInDymNames(ctx, previousChainIdsToNewChainId)",
   "      if err != nil",
   "        return errors.Join(gerrc.ErrUnknown, err)",
   "      return nil",
   "  if err != nil",
   "    return"] := rfl

/-- `rollappHooks.RollappCreated` -/
theorem k_rollappHooks_RollappCreated_listing : Gen.SkDymNS.k_rollappHooks_RollappCreated =
  ["func (h rollappHooks) RollappCreated(ctx sdk.Context, rollappID, alias string, creatorAddr sdk.AccAddress) error",
   "  if alias == \"\"",
   "    return nil",
   "  if !h.Keeper.IsRollAppId(ctx, rollappID)",
   "    return gerrc.ErrInvalidArgument",
   "  if !dymnsutils.IsValidAlias(alias)",
   "    return gerrc.ErrInvalidArgument",
   "  if !h.Keeper.CanUseAliasForNewRegistration(ctx, alias)",
   "    return gerrc.ErrAlreadyExists",
   "  priceParams := h.Keeper.PriceParams(ctx)",
   "  aliasCost := sdk.NewCoins(sdk.NewCoin(priceParams.PriceDenom, priceParams.GetAliasPrice(alias)))",
   "  err := h.Keeper.registerAliasForRollApp(ctx, rollappID, creatorAddr, alias, aliasCost)",
   "  if err != nil",
   "    return errors.Join(gerrc.ErrUnknown, err)",
   "  return nil"] := rfl

/-- `validateConfiguredAddressForReverseMapping` -/
theorem k_validateConfiguredAddressForReverseMapping_listing : Gen.SkDymNS.k_validateConfiguredAddressForReverseMapping =
  ["func validateConfiguredAddressForReverseMapping(configuredAddress string) error",
   "  if configuredAddress == \"\"",
   "    return gerrc.ErrInvalidArgument",
   "  return nil"] := rfl

/-- `DymName.GetAddressesForReverseMapping` -/
theorem t_DymName_GetAddressesForReverseMapping_listing : Gen.SkDymNS.t_DymName_GetAddressesForReverseMapping =
  ["func (m *DymName) GetAddressesForReverseMapping() (configuredAddressesToConfigs map[string][]DymNameConfig, fallbackAddressesToConfigs map[string][]DymNameConfig)",
   "  err := m.Validate()",
   "  if err != nil",
   "    panic(err)",
   "  configuredAddressesToConfigs = make(map[string][]DymNameConfig)",
   "  fallbackAddressesToConfigs = make(map[string][]DymNameConfig)",
   "  addConfiguredAddress := func#1",
   "    func#1 (address string, config DymNameConfig)",
   "      configuredAddressesToConfigs[address] = append(configuredAddressesToConfigs[address], config)",
   "  addFallbackAddress := func#2",
   "    func#2 (fallbackAddr FallbackAddress, config DymNameConfig)",
   "      strAddr := fallbackAddr.String()",
   "      fallbackAddressesToConfigs[strAddr] = append(fallbackAddressesToConfigs[strAddr], config)",
   "  var nameConfigs []DymNameConfig",
   "  for _, config := range m.Configs",
   "    if config.Type == DymNameConfigType_DCT_NAME",
   "      nameConfigs = append(nameConfigs, config)",
   "  var defaultConfig *DymNameConfig",
   "  for i, config := range nameConfigs",
   "    if config.IsDefaultNameConfig()",
   "      if config.Value == \"\"",
   "        config.Value = m.Owner",
   "        nameConfigs[i] = config",
   "      defaultConfig = &config",
   "      break",
   "  if defaultConfig == nil",
   "    nameConfigs = append(nameConfigs, DymNameConfig{Type: DymNameConfigType_DCT_NAME, ChainId: \"\", Path: \"\", Value: m.Owner})",
   "  for _, config := range nameConfigs",
   "    if config.Value == \"\"",
   "      continue",
   "    if config.IsDefaultNameConfig()",
   "      accAddr, err := sdk.AccAddressFromBech32(config.Value)",
   "      if err != nil",
   "        panic(err)",
   "      addConfiguredAddress(config.Value, config)",
   "      addFallbackAddress(FallbackAddress(accAddr), config)",
   "      continue",
   "    addConfiguredAddress(config.Value, config)",
   "  return"] := rfl

/-- `DymName.GetSdkEvent` -/
theorem t_DymName_GetSdkEvent_listing : Gen.SkDymNS.t_DymName_GetSdkEvent =
  ["func (m DymName) GetSdkEvent() sdk.Event",
   "  return sdk.NewEvent(EventTypeSetDymName, sdk.NewAttribute(AttributeKeyDymName, m.Name), sdk.NewAttribute(AttributeKeyDymNameOwner, m.Owner), sdk.NewAttribute(AttributeKeyDymNameController, m.Controller), sdk.NewAttribute(AttributeKeyDymNameExpiryEpoch, fmt.Sprintf(\"%d\", m.ExpireAt)), sdk.NewAttribute(AttributeKeyDymNameConfigCount, fmt.Sprintf(\"%d\", len(m.Configs))), sdk.NewAttribute(AttributeKeyDymNameHasContactDetails, fmt.Sprintf(\"%t\", m.Contact != \"\")))"] := rfl

/-- `DymName.IsExpiredAtCtx` -/
theorem t_DymName_IsExpiredAtCtx_listing : Gen.SkDymNS.t_DymName_IsExpiredAtCtx =
  ["func (m DymName) IsExpiredAtCtx(ctx sdk.Context) bool",
   "  return m.ExpireAt < ctx.BlockTime().Unix()"] := rfl

/-- `DymName.Validate` -/
theorem t_DymName_Validate_listing : Gen.SkDymNS.t_DymName_Validate =
  ["func (m *DymName) Validate() error",
   "  if m == nil",
   "    return gerrc.ErrInvalidArgument",
   "  if m.Name == \"\"",
   "    return gerrc.ErrInvalidArgument",
   "  if !dymnsutils.IsValidDymName(m.Name)",
   "    return gerrc.ErrInvalidArgument",
   "  if m.Owner == \"\"",
   "    return gerrc.ErrInvalidArgument",
   "  if !dymnsutils.IsValidBech32AccountAddress(m.Owner, true)",
   "    return gerrc.ErrInvalidArgument",
   "  if m.Controller == \"\"",
   "    return gerrc.ErrInvalidArgument",
   "  if !dymnsutils.IsValidBech32AccountAddress(m.Controller, true)",
   "    return gerrc.ErrInvalidArgument",
   "  if m.ExpireAt == 0",
   "    return gerrc.ErrInvalidArgument",
   "  if len(m.Configs) > MaxConfigSize",
   "    return gerrc.ErrResourceExhausted",
   "  uniqueConfig := make(map[string]bool)",
   "  for _, config := range m.Configs",
   "    err := config.Validate()",
   "    if err != nil",
   "      return err",
   "    configIdentity := config.GetIdentity()",
   "    _, duplicated := uniqueConfig[configIdentity]",
   "    if duplicated",
   "      return gerrc.ErrInvalidArgument",
   "    uniqueConfig[configIdentity] = true",
   "  if len(m.Contact) > MaxDymNameContactLength",
   "    return gerrc.ErrInvalidArgument",
   "  return nil"] := rfl

/-- `DymNameConfig.GetIdentity` -/
theorem t_DymNameConfig_GetIdentity_listing : Gen.SkDymNS.t_DymNameConfig_GetIdentity =
  ["func (m DymNameConfig) GetIdentity() string",
   "  return strings.ToLower(fmt.Sprintf(\"%s|%s|%s\", m.Type, m.ChainId, m.Path))"] := rfl

/-- `DymNameConfig.IsDefaultNameConfig` -/
theorem t_DymNameConfig_IsDefaultNameConfig_listing : Gen.SkDymNS.t_DymNameConfig_IsDefaultNameConfig =
  ["func (m DymNameConfig) IsDefaultNameConfig() bool",
   "  return m.Type == DymNameConfigType_DCT_NAME && m.ChainId == \"\" && m.Path == \"\""] := rfl

/-- `DymNameConfig.IsDelete` -/
theorem t_DymNameConfig_IsDelete_listing : Gen.SkDymNS.t_DymNameConfig_IsDelete =
  ["func (m DymNameConfig) IsDelete() bool",
   "  return m.Value == \"\""] := rfl

/-- `DymNameConfig.Validate` -/
theorem t_DymNameConfig_Validate_listing : Gen.SkDymNS.t_DymNameConfig_Validate =
  ["func (m *DymNameConfig) Validate() error",
   "  if m == nil",
   "    return gerrc.ErrInvalidArgument",
   "  if m.ChainId == \"\"",
   "  else",
   "    if !dymnsutils.IsValidChainIdFormat(m.ChainId)",
   "      return gerrc.ErrInvalidArgument",
   "  if m.Path == \"\"",
   "  else",
   "    if !dymnsutils.IsValidSubDymName(m.Path)",
   "      return gerrc.ErrInvalidArgument",
   "  if m.Type == DymNameConfigType_DCT_NAME",
   "    if m.ChainId == \"\"",
   "      if m.Value != strings.ToLower(m.Value)",
   "        return gerrc.ErrInvalidArgument",
   "    if !m.IsDelete()",
   "      if m.ChainId == \"\"",
   "        if !dymnsutils.IsValidBech32AccountAddress(m.Value, false)",
   "          return gerrc.ErrInvalidArgument",
   "      else",
   "        if !dymnsutils.PossibleAccountRegardlessChain(m.Value)",
   "          return gerrc.ErrInvalidArgument",
   "  else",
   "    return gerrc.ErrInvalidArgument",
   "  return nil"] := rfl

/-- `DymNameConfigs.DefaultNameConfigs` -/
theorem t_DymNameConfigs_DefaultNameConfigs_listing : Gen.SkDymNS.t_DymNameConfigs_DefaultNameConfigs =
  ["func (m DymNameConfigs) DefaultNameConfigs(dropEmptyValueConfigs bool) DymNameConfigs",
   "  var defaultConfigs DymNameConfigs",
   "  for _, config := range m",
   "    if config.IsDefaultNameConfig()",
   "      if dropEmptyValueConfigs",
   "        if config.Value == \"\"",
   "          continue",
   "      defaultConfigs = append(defaultConfigs, config)",
   "  return defaultConfigs"] := rfl

/-- `every function with a body in the listed files, sorted per package` -/
theorem inventory_listing : Gen.SkDymNS.inventory =
  ["k_EstimateRegisterAlias",
   "k_EstimateRegisterName",
   "k_Keeper_AddReverseMappingAssetIdToBuyOrder",
   "k_Keeper_AddReverseMappingBuyerToBuyOrderRecord",
   "k_Keeper_AddReverseMappingConfiguredAddressToDymName",
   "k_Keeper_AddReverseMappingFallbackAddressToDymName",
   "k_Keeper_AddReverseMappingOwnerToOwnedDymName",
   "k_Keeper_AfterDymNameConfigChanged",
   "k_Keeper_AfterDymNameOwnerChanged",
   "k_Keeper_BeforeDymNameConfigChanged",
   "k_Keeper_BeforeDymNameOwnerChanged",
   "k_Keeper_CompleteAliasSellOrder",
   "k_Keeper_CompleteDymNameSellOrder",
   "k_Keeper_DeleteBuyOrder",
   "k_Keeper_DeleteDymName",
   "k_Keeper_DeleteSellOrder",
   "k_Keeper_GenericAddReverseLookupBuyOrderIdsRecord",
   "k_Keeper_GenericAddReverseLookupDymNamesRecord",
   "k_Keeper_GenericAddReverseLookupRecord",
   "k_Keeper_GenericGetReverseLookupBuyOrderIdsRecord",
   "k_Keeper_GenericGetReverseLookupDymNamesRecord",
   "k_Keeper_GenericGetReverseLookupRecord",
   "k_Keeper_GenericRemoveReverseLookupBuyOrderIdRecord",
   "k_Keeper_GenericRemoveReverseLookupDymNamesRecord",
   "k_Keeper_GenericRemoveReverseLookupRecord",
   "k_Keeper_GenesisRefundBid",
   "k_Keeper_GenesisRefundBuyOrder",
   "k_Keeper_GetAliasByRollAppId",
   "k_Keeper_GetAliasesOfRollAppId",
   "k_Keeper_GetAllAliasAndChainIdInParams",
   "k_Keeper_GetAllBuyOrders",
   "k_Keeper_GetAllDymNames",
   "k_Keeper_GetAllNonExpiredDymNames",
   "k_Keeper_GetAllRollAppsWithAliases",
   "k_Keeper_GetAllSellOrders",
   "k_Keeper_GetBuyOrder",
   "k_Keeper_GetBuyOrdersByBuyer",
   "k_Keeper_GetBuyOrdersOfAlias",
   "k_Keeper_GetBuyOrdersOfDymName",
   "k_Keeper_GetCountBuyOrders",
   "k_Keeper_GetDymName",
   "k_Keeper_GetDymNameWithExpirationCheck",
   "k_Keeper_GetDymNamesContainsConfiguredAddress",
   "k_Keeper_GetDymNamesContainsFallbackAddress",
   "k_Keeper_GetDymNamesOwnedBy",
   "k_Keeper_GetEffectiveAliasesByChainId",
   "k_Keeper_GetFutureRollAppHooks",
   "k_Keeper_GetRollAppHooks",
   "k_Keeper_GetRollAppIdByAlias",
   "k_Keeper_GetSellOrder",
   "k_Keeper_IncreaseBuyOrdersCountAndGet",
   "k_Keeper_InsertNewBuyOrder",
   "k_Keeper_IsAliasPresentsInParamsAsAliasOrChainId",
   "k_Keeper_MoveAliasToRollAppId",
   "k_Keeper_PruneDymName",
   "k_Keeper_RefundBid",
   "k_Keeper_RefundBuyOrder",
   "k_Keeper_RemoveAliasFromRollAppId",
   "k_Keeper_RemoveReverseMappingAssetIdToBuyOrder",
   "k_Keeper_RemoveReverseMappingBuyerToBuyOrder",
   "k_Keeper_RemoveReverseMappingConfiguredAddressToDymName",
   "k_Keeper_RemoveReverseMappingFallbackAddressToDymName",
   "k_Keeper_RemoveReverseMappingOwnerToOwnedDymName",
   "k_Keeper_ReplaceChainIdWithAliasIfPossible",
   "k_Keeper_ResolveByDymNameAddress",
   "k_Keeper_ReverseResolveDymNameAddress",
   "k_Keeper_SetAliasForRollAppId",
   "k_Keeper_SetBuyOrder",
   "k_Keeper_SetCountBuyOrders",
   "k_Keeper_SetDefaultAliasForRollApp",
   "k_Keeper_SetDymName",
   "k_Keeper_SetSellOrder",
   "k_Keeper_fallbackReverseResolveDymNameAddress",
   "k_Keeper_refundBid",
   "k_Keeper_refundBuyOrder",
   "k_Keeper_registerAliasForRollApp",
   "k_Keeper_resolveByDymNameAddressInExtraFormat",
   "k_Keeper_reverseResolveDymNameAddressUsingConfiguredAddress",
   "k_Keeper_reverseResolveDymNameAddressUsingHexAddress",
   "k_Keeper_transferDymNameOwnership",
   "k_Keeper_tryResolveChainIdOrAliasToChainId",
   "k_ParseDymNameAddress",
   "k_msgServer_AcceptBuyOrder",
   "k_msgServer_CancelBuyOrder",
   "k_msgServer_CancelSellOrder",
   "k_msgServer_CompleteSellOrder",
   "k_msgServer_PlaceBuyOrder",
   "k_msgServer_PlaceSellOrder",
   "k_msgServer_PurchaseOrder",
   "k_msgServer_RegisterAlias",
   "k_msgServer_RegisterName",
   "k_msgServer_SetController",
   "k_msgServer_TransferDymNameOwnership",
   "k_msgServer_UpdateDetails",
   "k_msgServer_UpdateResolveAddress",
   "k_msgServer_genericValidateSellOrderOfPurchaseOrder",
   "k_msgServer_placeBuyOrderWithAssetTypeAlias",
   "k_msgServer_placeBuyOrderWithAssetTypeDymName",
   "k_msgServer_processAcceptBuyOrderWithAssetTypeAlias",
   "k_msgServer_processAcceptBuyOrderWithAssetTypeDymName",
   "k_msgServer_processCancelBuyOrder",
   "k_msgServer_processCancelSellOrderWithAssetTypeAlias",
   "k_msgServer_processCancelSellOrderWithAssetTypeDymName",
   "k_msgServer_processCompleteSellOrderWithAssetTypeAlias",
   "k_msgServer_processCompleteSellOrderWithAssetTypeDymName",
   "k_msgServer_processPlaceSellOrderWithAssetTypeAlias",
   "k_msgServer_processPlaceSellOrderWithAssetTypeDymName",
   "k_msgServer_processPurchaseOrderWithAssetTypeAlias",
   "k_msgServer_processPurchaseOrderWithAssetTypeDymName",
   "k_msgServer_removeBuyOrder",
   "k_msgServer_validateAcceptBuyOrderWithAssetTypeAlias",
   "k_msgServer_validateAcceptBuyOrderWithAssetTypeDymName",
   "k_msgServer_validateCancelBuyOrder",
   "k_msgServer_validateCancelSellOrderWithAssetTypeAlias",
   "k_msgServer_validateCancelSellOrderWithAssetTypeDymName",
   "k_msgServer_validateCompleteSellOrderWithAssetTypeAlias",
   "k_msgServer_validateCompleteSellOrderWithAssetTypeDymName",
   "k_msgServer_validatePlaceBuyOrderWithAssetTypeAlias",
   "k_msgServer_validatePlaceBuyOrderWithAssetTypeDymName",
   "k_msgServer_validatePlaceSellOrderWithAssetTypeAlias",
   "k_msgServer_validatePlaceSellOrderWithAssetTypeDymName",
   "k_msgServer_validatePurchaseOrderWithAssetTypeAlias",
   "k_msgServer_validatePurchaseOrderWithAssetTypeDymName",
   "k_msgServer_validateRegisterAlias",
   "k_msgServer_validateRegisterName",
   "k_msgServer_validateSetController",
   "k_msgServer_validateTransferDymNameOwnership",
   "k_msgServer_validateUpdateDetails",
   "k_msgServer_validateUpdateResolveAddress",
   "k_normalizeConfiguredAddressForReverseMapping",
   "k_rollappHooks_AfterStateFinalized",
   "k_rollappHooks_AfterTransfersEnabled",
   "k_rollappHooks_AfterUpdateState",
   "k_rollappHooks_BeforeUpdateState",
   "k_rollappHooks_OnHardFork",
   "k_rollappHooks_OnRollAppIdChanged",
   "k_rollappHooks_RollappCreated",
   "k_validateConfiguredAddressForReverseMapping",
   "t_DymName_GetAddressesForReverseMapping",
   "t_DymName_GetSdkEvent",
   "t_DymName_IsExpiredAtCtx",
   "t_DymName_Validate",
   "t_DymNameConfig_GetIdentity",
   "t_DymNameConfig_IsDefaultNameConfig",
   "t_DymNameConfig_IsDelete",
   "t_DymNameConfig_Validate",
   "t_DymNameConfigs_DefaultNameConfigs"] := rfl

end DymVerif.GenEqSk.DymNS
