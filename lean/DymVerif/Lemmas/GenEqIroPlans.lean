/-
  Lemmas/GenEqIroPlans — tie 1 for the store part of M-IRO-PLANS (C13 over many plans and restarts):
  what `MOp.restart` and the id counter of `Model/IroPlans` mirror — x/iro `InitGenesis` (plans re-set
  one by one, `LastPlanId` = the MAXIMUM id of the list), `ExportGenesis` (`GetAllPlans`, i.e. the plan
  section in key order), `Keeper.SetPlan` (two `store.Set`s: the record under its id, the by-rollapp
  entry) and `GetNextPlanIdAndIncrement` — regenerated from /repo's working tree on every check
  (`Gen/Genesis.lean`) must be exactly what the model was written against.  The same pins are part of
  C18's `Lemmas/GenEqGenesis` (with the other eight modules); they are restated here so that C13's own
  check audits them and does not depend on the other modules' genesis code.  The seeded change "take the
  id of the last plan" breaks `iroInitLastPlanId_eq` and `iroInitSkeleton_eq`.
-/
import DymVerif.Gen.Genesis
namespace DymVerif.GenEq.IroPlans
open DymVerif DymVerif.Genesis

/-- the id-counter loop of x/iro InitGenesis is the model's (`Genesis.iroInitLastPlanId`, which
    computes the maximum: `iroInitLastPlanId_eq_maxId`) -/
theorem iroInitLastPlanId_eq : Gen.Genesis.iroInitLastPlanId = Genesis.iroInitLastPlanId := rfl

/-- `x/iro InitGenesis` as mirrored by `Genesis.importIro` -/
theorem iroInitSkeleton_eq : Gen.Genesis.iroInitSkeleton =
  ["moduleAcc := k.AK.GetModuleAccount(ctx, types.ModuleName)",
   "if moduleAcc == nil {",
   "panic",
   "}",
   "call k.SetParams(ctx, genState.Params)",
   "lastPlanId := uint64(0)",
   "range genState.Plans as _, plan {",
   "call k.SetPlan(ctx, plan)",
   "if plan.Id > lastPlanId {",
   "lastPlanId = plan.Id",
   "}",
   "}",
   "call k.SetLastPlanId(ctx, lastPlanId)"] := rfl

/-- `x/iro ExportGenesis` as mirrored by `Genesis.exportIro` -/
theorem iroExportSkeleton_eq : Gen.Genesis.iroExportSkeleton =
  ["genesis := types.GenesisState{}",
   "genesis.Params = k.GetParams(ctx)",
   "genesis.Plans = append(genesis.Plans, k.GetAllPlans(ctx, false))",
   "return &genesis"] := rfl

/-- `x/iro Keeper.SetPlan` as mirrored by `Genesis.setPlan` -/
theorem iroSetPlanSkeleton_eq : Gen.Genesis.iroSetPlanSkeleton =
  ["store := ctx.KVStore(k.storeKey)",
   "b := k.cdc.MustMarshal(&plan)",
   "call store.Set(types.PlanKey(fmt.Sprintf(…)), b)",
   "planByRollappKey := types.PlansByRollappKey(plan.RollappId)",
   "call store.Set(planByRollappKey, []byte(fmt.Sprintf(…)))"] := rfl

/-- `x/iro Keeper.GetNextPlanIdAndIncrement` as mirrored by `Genesis.nextPlanId` -/
theorem iroNextPlanIdSkeleton_eq : Gen.Genesis.iroNextPlanIdSkeleton =
  ["lastPlanId := k.GetLastPlanId(ctx)",
   "call k.SetLastPlanId(ctx, lastPlanId + 1)",
   "return lastPlanId + 1"] := rfl

end DymVerif.GenEq.IroPlans
