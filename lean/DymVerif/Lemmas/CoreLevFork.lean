/-
  Lemmas/CoreLevFork — the other two events the liveness countdown is counted from: a proposer
  change (`afterSetRealProposer` restarts the clock and schedules the event) and a hard fork
  (`ResetLivenessClock`: countdown start := now, no event); and: every accepted update — also the
  proposer's last one, which hands over or forks — lowers the proposer's dishonor.
-/
import DymVerif.Lemmas.CoreLevOwn
namespace DymVerif.Core.LevNs

-- ---------------------------------------------------------------- generic field frames

/-- field `g` of every sequencer record is unchanged -/
def SeqFrame {β : Type} (g : Seq → β) (s s' : St) : Prop := ∀ a, (getSeq s' a).map g = (getSeq s a).map g

theorem SeqFrame.refl {β : Type} (g : Seq → β) (s : St) : SeqFrame g s s := fun _ => rfl
theorem SeqFrame.trans {β : Type} {g : Seq → β} {a b c : St} (h1 : SeqFrame g a b) (h2 : SeqFrame g b c) :
    SeqFrame g a c := fun x => (h2 x).trans (h1 x)
theorem SeqFrame.of_seqs {β : Type} (g : Seq → β) {s s' : St} (e : s'.seqs = s.seqs) : SeqFrame g s s' := by
  intro a; rw [getSeq_congr e]

theorem SeqFrame.map {β : Type} {g : Seq → β} {s : St} (f : Seq → Seq) (hf : ∀ x, (f x).addr = x.addr)
    (hg : ∀ x, g (f x) = g x) : SeqFrame g s { s with seqs := s.seqs.map f } := by
  intro a
  unfold getSeq
  dsimp only
  rw [find_map_addr _ f hf]
  cases s.seqs.find? (·.addr == a) with
  | none => rfl
  | some x => simp [hg]

theorem SeqFrame.setSeq {β : Type} {g : Seq → β} {s : St} {q0 q : Seq} (hq : getSeq s q.addr = some q0)
    (hg : g q = g q0) : SeqFrame g s (setSeq s q) := by
  intro a
  by_cases ha : q.addr = a
  · subst ha; rw [getSeq_setSeq_same hq, hq]; simp [hg]
  · rw [getSeq_setSeq_other ha]

/-- field `g` of every rollapp record is unchanged -/
def RaFrame {β : Type} (g : Rollapp → β) (s s' : St) : Prop := ∀ id, (getRa s' id).map g = (getRa s id).map g

theorem RaFrame.refl {β : Type} (g : Rollapp → β) (s : St) : RaFrame g s s := fun _ => rfl
theorem RaFrame.trans {β : Type} {g : Rollapp → β} {a b c : St} (h1 : RaFrame g a b) (h2 : RaFrame g b c) :
    RaFrame g a c := fun x => (h2 x).trans (h1 x)
theorem RaFrame.of_ras {β : Type} (g : Rollapp → β) {s s' : St} (e : s'.ras = s.ras) : RaFrame g s s' := by
  intro id; rw [getRa_congr e]

theorem RaFrame.setRa {β : Type} {g : Rollapp → β} {s : St} {id : Nat} {r r' : Rollapp} (hg : getRa s id = some r)
    (hid : r'.id = r.id) (hl : g r' = g r) : RaFrame g s (setRa s r') := by
  have hid' : r'.id = id := hid.trans (getRa_id hg)
  intro id'
  by_cases hc : id' = id
  · subst hc; rw [getRa_setRa_same_id hg hid', hg]; simp [hl]
  · rw [getRa_setRa_other (by rw [hid']; exact fun e => hc e.symm)]

/-- the clock of a rollapp record -/
def clk (r : Rollapp) : Nat × Nat := (r.evH, r.cdStart)

-- ---------------------------------------------------------------- sequencer hook OnHardFork

theorem setProposer_clk (s : St) (ra : Nat) (a : Option Addr) :
    RaFrame clk s (setProposer s ra a) ∧ (setProposer s ra a).lev = s.lev := by
  unfold setProposer
  split
  · exact ⟨RaFrame.refl _ _, rfl⟩
  · rename_i r hg; exact ⟨RaFrame.setRa hg rfl rfl, rfl⟩

theorem setSuccessor_clk (s : St) (ra : Nat) (a : Option Addr) :
    RaFrame clk s (setSuccessor s ra a) ∧ (setSuccessor s ra a).lev = s.lev := by
  unfold setSuccessor
  split
  · exact ⟨RaFrame.refl _ _, rfl⟩
  · rename_i r hg; exact ⟨RaFrame.setRa hg rfl rfl, rfl⟩

theorem abruptRemoveProposer_frames (s : St) (ra : Nat) :
    RaFrame clk s (abruptRemoveProposer s ra) ∧ (abruptRemoveProposer s ra).lev = s.lev ∧
    SeqFrame (·.dishonor) s (abruptRemoveProposer s ra) := by
  unfold abruptRemoveProposer
  split
  · exact ⟨RaFrame.refl _ _, rfl, SeqFrame.refl _ _⟩
  · split
    · exact ⟨RaFrame.refl _ _, rfl, SeqFrame.refl _ _⟩
    · split
      · exact ⟨RaFrame.refl _ _, rfl, SeqFrame.refl _ _⟩
      · rename_i q hq
        have hsame := removeFromNoticeQueue_same s q
        have hq1 : getSeq (removeFromNoticeQueue s q) q.addr = some q := by
          rw [getSeq_congr (removeFromNoticeQueue_seqs s q).1, getSeq_addr hq]; exact hq
        have f1 : RaFrame clk s (setSeq (removeFromNoticeQueue s q) { q with bonded := false }) :=
          RaFrame.of_ras clk (by rw [setSeq_ras]; exact hsame.1)
        have c := setProposer_clk (setSeq (removeFromNoticeQueue s q) { q with bonded := false }) ra none
        refine ⟨f1.trans c.1, c.2.trans hsame.2.1, ?_⟩
        exact ((SeqFrame.of_seqs _ (removeFromNoticeQueue_seqs s q).1).trans
          (SeqFrame.setSeq (q := { q with bonded := false }) hq1 rfl)).trans
          (SeqFrame.of_seqs _ (setProposer_seqs _ _ _).1)

theorem seqOnHardFork_frames (s : St) (ra : Nat) :
    RaFrame clk s (seqOnHardFork s ra) ∧ (seqOnHardFork s ra).lev = s.lev ∧
    SeqFrame (·.dishonor) s (seqOnHardFork s ra) := by
  unfold seqOnHardFork
  have f0 : SeqFrame (·.dishonor) s (optOutAll s ra) := by
    unfold optOutAll
    exact SeqFrame.map _ (by intro x; split <;> rfl) (by intro x; split <;> rfl)
  have a := abruptRemoveProposer_frames (optOutAll s ra) ra
  have b := setSuccessor_clk (abruptRemoveProposer (optOutAll s ra) ra) ra none
  exact ⟨((RaFrame.of_ras clk rfl).trans a.1).trans b.1, b.2.trans a.2.1,
    (f0.trans a.2.2).trans (SeqFrame.of_seqs _ (setSuccessor_seqs _ _ _).1)⟩

/-- a hard fork sets the countdown start to the current height and leaves the rollapp without a
    liveness event; nobody's dishonor changes -/
theorem hardFork_clock {s s' : St} {ra lv : Nat} (hl : Lev s) (e : hardFork s ra lv = .ok s') :
    (∃ r', getRa s' ra = some r' ∧ r'.evH = 0 ∧ r'.cdStart = s.h) ∧ (∀ h, (h, ra) ∉ s'.lev) ∧
    SeqFrame (·.dishonor) s s' := by
  unfold hardFork at e
  split at e
  · cases e
  · rename_i r hg
    split at e
    · cases e
    · split at e
      · cases e
      · split at e
        · cases e
        · rename_i keep kst hplan
          dsimp only at e
          injection e with e; subst e
          have hid : r.id = ra := getRa_id hg
          have key : ∀ X : St, X.ras = (setRa s { forkedRollapp r keep kst with evH := 0, cdStart := s.h }).ras →
              X.lev = delEvent s.lev r.evH r.id → X.seqs = s.seqs →
              (∃ r', getRa (seqOnHardFork X ra) ra = some r' ∧ r'.evH = 0 ∧ r'.cdStart = s.h) ∧
              (∀ h, (h, ra) ∉ (seqOnHardFork X ra).lev) ∧ SeqFrame (·.dishonor) s (seqOnHardFork X ra) := by
            intro X e1 e2 e3
            have fr := seqOnHardFork_frames X ra
            have hgX : getRa X ra = some { forkedRollapp r keep kst with evH := 0, cdStart := s.h } := by
              rw [getRa_congr e1]; exact getRa_setRa_same_id hg hid
            have h1 := fr.1 ra
            rw [hgX] at h1
            refine ⟨?_, ?_, (SeqFrame.of_seqs _ e3).trans fr.2.2⟩
            · cases hx : getRa (seqOnHardFork X ra) ra with
              | none => rw [hx] at h1; cases h1
              | some r' =>
                rw [hx] at h1
                have : some (clk r') = some ((0 : Nat), s.h) := h1
                injection this with this
                exact ⟨r', rfl, congrArg Prod.fst this, congrArg Prod.snd this⟩
            · intro h hm
              rw [fr.2.1, e2] at hm
              obtain ⟨hm1, hm2⟩ := mem_delEvent.1 hm
              exact hm2 ⟨hl.ev_height hg hm1 rfl, hid.symm⟩
          exact key _ rfl rfl rfl

theorem hardForkToLatest_clock {s s' : St} {ra : Nat} (hl : Lev s) (e : hardForkToLatest s ra = .ok s') :
    (∃ r', getRa s' ra = some r' ∧ r'.evH = 0 ∧ r'.cdStart = s.h) ∧ (∀ h, (h, ra) ∉ s'.lev) ∧
    SeqFrame (·.dishonor) s s' := by
  unfold hardForkToLatest at e
  split at e
  · cases e
  · split at e
    · cases e
    · exact hardFork_clock hl e

-- ---------------------------------------------------------------- proposer change

/-- the rollapp hook `AfterSetRealProposer` restarts the countdown and schedules the event -/
theorem afterSetRealProposer_clock {s : St} {ra : Nat} {a : Addr} {r : Rollapp} (hg : getRa s ra = some r) :
    (∃ r', getRa (afterSetRealProposer s ra a) ra = some r' ∧ r'.cdStart = s.h ∧
      r'.evH = nextSlashHeight s.p.lsBlocks s.p.lsInterval s.h s.h ∧ r'.proposer = r.proposer) ∧
    (nextSlashHeight s.p.lsBlocks s.p.lsInterval s.h s.h, ra) ∈ (afterSetRealProposer s ra a).lev ∧
    (afterSetRealProposer s ra a).seqs = s.seqs := by
  have sp := indicateLiveness_spec hg
  unfold afterSetRealProposer
  rw [hg]; dsimp only
  rw [sp.1]; dsimp only
  refine ⟨⟨_, getRa_setRa_same_id sp.1 (show r.id = ra from getRa_id hg), rfl, rfl, rfl⟩, sp.2, rfl⟩

/-- a rollapp leaving the sentinel state gets a real proposer, a fresh countdown and its event -/
theorem recoverFromSentinel_clock {s s' : St} {ra : Nat} (e : recoverFromSentinel s ra = .ok s') :
    ∃ r' a, getRa s' ra = some r' ∧ r'.proposer = some a ∧ r'.cdStart = s.h ∧
      r'.evH = nextSlashHeight s.p.lsBlocks s.p.lsInterval s.h s.h ∧ (r'.evH, ra) ∈ s'.lev := by
  unfold recoverFromSentinel at e
  split at e
  · cases e
  · rename_i r hg
    split at e
    · cases e
    · split at e
      · cases e
      · rename_i a hch
        injection e with e; subst e
        have hg1 : getRa (setRa s { r with proposer := some a }) ra = some { r with proposer := some a } :=
          getRa_setRa_same_id hg (show r.id = ra from getRa_id hg)
        obtain ⟨⟨r', h1, h2, h3, h4⟩, h5, _⟩ := afterSetRealProposer_clock (a := a) hg1
        exact ⟨r', a, h1, h4, h2, h3, by rw [h3]; exact h5⟩

-- ---------------------------------------------------------------- every accepted update honours the proposer

theorem onProposerLastBlock_dishonor {s s' : St} {q : Seq} (hl : Lev s) (e : onProposerLastBlock s q = .ok s') :
    SeqFrame (·.dishonor) s s' := by
  unfold onProposerLastBlock at e
  split at e
  · cases e
  · split at e
    · cases e
    · rename_i r hg
      dsimp only at e
      have l1 : Lev (setRa s { r with successor := none, proposer := r.successor }) := hl.setRa_same hg rfl rfl
      split at e
      · exact (SeqFrame.of_seqs _ rfl).trans (hardForkToLatest_clock l1 e).2.2
      · injection e with e; subst e
        exact SeqFrame.of_seqs _ (afterSetRealProposer_seqs _ _ _).1

/-- every accepted update — also the proposer's last one — lowers the sender's dishonor by
    `min(DishonorStateUpdate, dishonor)` -/
theorem updateState_honors {s s' : St} {m : UpdMsg} {q : Seq} (hl : Lev s) (hq : getSeq s m.sender = some q)
    (e : updateState s m = .ok s') :
    (getSeq s' m.sender).map (·.dishonor) = some (q.dishonor - min s.sqp.dishonorSU q.dishonor) := by
  unfold updateState at e
  split at e
  · cases e
  · split at e
    · cases e
    · rename_i r hg
      split at e
      · cases e
      · split at e
        · cases e
        · split at e
          · cases e
          · split at e
            · cases e
            · split at e
              · cases e
              · split at e
                · cases e
                · rename_i s3 h3
                  dsimp only at e
                  split at e
                  · cases e
                  · rename_i r4 hg4
                    injection e with e; subst e
                    have l1 : Lev (setRa s { r with states := r.states ++ [newSInfo s m (updSucc r m)] }) :=
                      hl.setRa_same hg rfl rfl
                    have key : (getSeq s3 m.sender).map (·.dishonor) = some (q.dishonor - min s.sqp.dishonorSU q.dishonor) := by
                      unfold seqAfterUpdate at h3
                      have hqX : getSeq (setRa s { r with states := r.states ++ [newSInfo s m (updSucc r m)] }) m.sender = some q := hq
                      rw [hqX] at h3
                      dsimp only at h3
                      simp only [setRa_sqp] at h3
                      have hset : getSeq (setSeq (setRa s { r with states := r.states ++ [newSInfo s m (updSucc r m)] })
                          { q with dishonor := q.dishonor - min s.sqp.dishonorSU q.dishonor }) m.sender =
                          some { q with dishonor := q.dishonor - min s.sqp.dishonorSU q.dishonor } := by
                        rw [← getSeq_addr hq]
                        exact getSeq_setSeq_same (q := { q with dishonor := q.dishonor - min s.sqp.dishonorSU q.dishonor }) (q0 := q)
                          (by show getSeq (setRa s _) q.addr = some q; rw [getSeq_addr hq]; exact hq)
                      split at h3
                      · have fr := onProposerLastBlock_dishonor
                          (show Lev (setSeq (setRa s { r with states := r.states ++ [newSInfo s m (updSucc r m)] })
                            { q with dishonor := q.dishonor - min s.sqp.dishonorSU q.dishonor }) from l1.of_eq rfl rfl) h3
                        rw [fr m.sender, hset]; rfl
                      · injection h3 with h3; subst h3
                        rw [hset]; rfl
                    rw [getSeq_congr (indicateLiveness_seqs _ r4).1]
                    exact key

end DymVerif.Core.LevNs
