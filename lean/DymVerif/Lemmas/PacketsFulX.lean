/-
  Lemmas/PacketsFulX — a fulfilled pending order is frozen: one step of M-Packets either keeps a
  pending order as it is, removes it (finalization turns it FINALIZED; epoch clean-up / hard fork
  delete it), or writes a pending order on an id on which no fulfilled pending order sat.
-/
import DymVerif.Lemmas.PacketsLinkX
namespace DymVerif.Packets
open DymVerif DymVerif.Keys

/-- every pending order of `s'` is an order of `s`, or sits on an id that carried no fulfilled pending
    order in `s` -/
def FulStep (s s' : St) : Prop :=
  ∀ o' ∈ s'.orders, o'.status = .pending →
    o' ∈ s.orders ∨ (∀ o ∈ s.orders, o.status = .pending → o.id = o'.id → o.fulfiller = none)

theorem FulStep.of_eq {s s' : St} (h : s'.orders = s.orders) : FulStep s s' := fun _ ho' _ => Or.inl (h ▸ ho')

theorem FulStep.of_sub {s s' : St} (h : ∀ o ∈ s'.orders, o.status = .pending → o ∈ s.orders) : FulStep s s' :=
  fun o ho hs => Or.inl (h o ho hs)

theorem FulStep.congr {s0 s s' s1 : St} (hl : s.orders = s0.orders) (hr : s1.orders = s'.orders) (f : FulStep s s') :
    FulStep s0 s1 := by
  unfold FulStep at *
  rw [hr, ← hl]; exact f

theorem ordersNodup_eq : ∀ {l : List Order}, OrdersNodup l → ∀ {a b : Order}, a ∈ l → b ∈ l → a.status = b.status → a.id = b.id → a = b
  | [], _, _, _, ha, _, _, _ => by cases ha
  | x :: xs, h, a, b, ha, hb, h1, h2 => by
    rw [OrdersNodup, List.pairwise_cons] at h
    rcases List.mem_cons.mp ha with e | ha'
    · rcases List.mem_cons.mp hb with e' | hb'
      · rw [e, e']
      · exact absurd ⟨e ▸ h1, e ▸ h2⟩ (h.1 b hb')
    · rcases List.mem_cons.mp hb with e' | hb'
      · exact absurd ⟨e' ▸ h1.symm, e' ▸ h2.symm⟩ (h.1 a ha')
      · exact ordersNodup_eq h.2 ha' hb' h1 h2

theorem fulStep_record_order {s : St} (h : InvX s) (p : Packet) (fresh : ∀ q ∈ s.packets, pkey q ≠ pkey p)
    (a : Addr) (k : Bytes) (s1 : St) (price fee : Int) (r : Addr) :
    FulStep s (setOrder (setPacket (addByAddr s a k) p) (newOrder s1 p price fee r)) := by
  intro o' ho' _
  rcases mem_setOrder.mp ho' with rfl | ⟨h1, _⟩
  · right
    intro o ho hs hid
    obtain ⟨q, hq, hl⟩ := h o ho hs
    exact absurd (hl.id.trans hid) (fresh q hq)
  · exact Or.inl h1

theorem fulStep_eibcOnRecv {s s' : St} {p : Packet} {m : Memo} {a : Addr} {k : Bytes} (h : InvX s)
    (fresh : ∀ q ∈ s.packets, pkey q ≠ pkey p)
    (he : eibcOnRecv (setPacket (addByAddr s a k) p) p m = .ok s') : FulStep s s' := by
  unfold eibcOnRecv at he
  split at he
  · cases he
  · split at he
    · cases he
    · split at he
      · cases he
      · cases he
        exact fulStep_record_order h p fresh a k _ _ _ _

theorem fulStep_eibcOnRefund {s s' : St} {p : Packet} {a : Addr} {k : Bytes} (h : InvX s)
    (fresh : ∀ q ∈ s.packets, pkey q ≠ pkey p)
    (he : eibcOnRefund (setPacket (addByAddr s a k) p) p = .ok s') : FulStep s s' := by
  unfold eibcOnRefund at he
  split at he
  · cases he; exact FulStep.of_eq rfl
  · split at he
    · cases he
    · cases he
      exact fulStep_record_order h p fresh a k _ _ _ _

theorem fulStep_recvAuth {s0 : St} (c seq ph : Nat) (d : RecvData) (i0 : IdxInv s0) (h0 : InvX s0)
    (hnp : ¬ pendL s0.packets (true, c, seq)) (hph : ph < 2 ^ 64) (hseq : seq < 2 ^ 64) :
    FulStep s0 (recvAuth s0 c seq ph d).1 := by
  have hfail : FulStep s0 (recvFail s0 c seq).1 := FulStep.of_eq rfl
  unfold recvAuth
  split
  · exact hfail
  · rename_i ra hra
    split
    · exact hfail
    · split
      · exact hfail
      · rename_i tgt htgt
        split
        · unfold recvPass
          split
          · exact hfail
          · rename_i s1 hi
            exact FulStep.of_eq (oframe_icsRecv hi).orders
        · rename_i hdel
          unfold recvDelay
          split
          · exact hfail
          · split
            · exact hfail
            · rename_i s2 he
              obtain ⟨rid, hrid⟩ : ∃ rid, ra = some rid := by
                cases ra with
                | none => simp at hdel
                | some r => exact ⟨r, rfl⟩
              subst hrid
              have hP : PktOk s0 (mkRecvPacket s0 c seq ph ((some rid).getD []) d tgt) := by
                refine ⟨hra, ?_, hph, hseq, by simp [mkRecvPacket]⟩
                simp [mkRecvPacket]
              have fresh : ∀ q ∈ s0.packets, pkey q ≠ pkey (mkRecvPacket s0 c seq ph ((some rid).getD []) d tgt) := by
                intro q hq hk
                obtain ⟨hu, hst⟩ := key_determines_uid i0.cfg hP (i0.pk q hq) hk
                exact hnp ⟨q, hq, hst, hu⟩
              exact fulStep_eibcOnRecv h0 fresh he

theorem fulStep_recvForward {s0 : St} (c seq ph : Nat) (d : RecvData) (k : Nat) (i0 : IdxInv s0) (h0 : InvX s0)
    (hnp : ¬ pendL s0.packets (true, c, seq)) (hph : ph < 2 ^ 64) (hseq : seq < 2 ^ 64) :
    FulStep s0 (recvForward s0 c seq ph d k).1 := by
  have hfail : FulStep s0 (recvFail s0 c seq).1 := FulStep.of_eq rfl
  unfold recvForward
  have ha := fulStep_recvAuth c seq ph { d with target := some (pfmAddr c), memo := .none } i0 h0 hnp hph hseq
  split
  · rename_i s1 hr
    rw [hr] at ha
    split
    · rename_i s2 hs
      have e : s2.orders = s1.orders := (oframe_sendOpen (sendTransfer_ok hs)).orders
      exact FulStep.congr (s := s0) (s' := s1) rfl e ha
    · exact hfail
  · exact hfail

theorem fulStep_recvOpen {s : St} (c seq ph : Nat) (d : RecvData) (h4 : Inv04 s) (hi : IdxInv s) (h : InvX s)
    (hph : ph < 2 ^ 64) (hseq : seq < 2 ^ 64) : FulStep s (recvOpen s c seq ph d).1 := by
  unfold recvOpen
  split
  · exact FulStep.of_eq rfl
  · rename_i hc
    have hnr : (c, seq) ∉ s.receipts := by simpa using hc
    have hnp : ¬ pendL s.packets (true, c, seq) := fun hp => hnr (InvF.rcv h4 c seq (Or.inr hp))
    have i0 : IdxInv { s with receipts := s.receipts ++ [(c, seq)] } := IdxInv.of_frame (iframe_receipts s (c, seq)) hi
    have h0 : InvX { s with receipts := s.receipts ++ [(c, seq)] } := h
    split
    · exact FulStep.congr (s0 := s) rfl rfl (fulStep_recvForward c seq ph d _ i0 h0 hnp hph hseq)
    · exact FulStep.congr (s0 := s) rfl rfl (fulStep_recvAuth c seq ph d i0 h0 hnp hph hseq)

theorem fulStep_ackOpen {s s' : St} {c seq ph : Nat} {isTimeout isErr : Bool} (h4 : Inv04 s) (hi : IdxInv s) (h : InvX s)
    (hph : ph < 2 ^ 64) (hseq : seq < 2 ^ 64) (ha : ackOpen s c seq ph isTimeout isErr = .ok (some s')) : FulStep s s' := by
  unfold ackOpen at ha
  split at ha
  · cases ha
  · rename_i hc
    have hmem : (c, seq) ∈ s.commits := by simpa using hc
    have hnp : ¬ pendL s.packets (false, c, seq) := fun hp => (InvF.snt h4 c seq (Or.inr hp)).1 hmem
    split at ha
    · cases ha
    · rename_i x hx
      obtain ⟨rfl, rfl⟩ := getSent_some hx
      generalize hs0 : ({ s with commits := s.commits.filter (· != (x.chan, x.seq)) } : St) = s0 at ha
      have f0 : IFrame s s0 := by subst hs0; exact ⟨rfl, rfl, rfl, rfl⟩
      have i0 : IdxInv s0 := IdxInv.of_frame f0 hi
      have h0 : InvX s0 := by subst hs0; exact h
      have e0 : s0.orders = s.orders := by subst hs0; rfl
      refine FulStep.congr (s := s0) (s' := s') e0 rfl ?_
      unfold ackAuth at ha
      split at ha
      · cases ha
      · rename_i ra hra
        split at ha
        · unfold ackPass at ha
          split at ha
          · split at ha
            · cases ha
            · rename_i s1 hi1
              cases ha
              exact FulStep.of_eq (oframe_icsRefund hi1).orders
          · cases ha; exact FulStep.of_eq rfl
        · rename_i hdel
          obtain ⟨rid, hrid⟩ : ∃ rid, ra = some rid := by
            cases ra with
            | none => simp at hdel
            | some r => exact ⟨r, rfl⟩
          subst hrid
          have hP : PktOk s0 (mkSentPacket s0 x (sentType isTimeout) ph ((some rid).getD []) (!isTimeout && isErr)) := by
            refine ⟨hra, ?_, hph, hseq, by cases isTimeout <;> simp [mkSentPacket, sentType]⟩
            simp [mkSentPacket, sentType_ne_recv]
          have fresh : ∀ q ∈ s0.packets,
              pkey q ≠ pkey (mkSentPacket s0 x (sentType isTimeout) ph ((some rid).getD []) (!isTimeout && isErr)) := by
            intro q hq hk
            obtain ⟨hu, hst⟩ := key_determines_uid i0.cfg hP (i0.pk q hq) hk
            rw [f0.packets] at hq
            rw [mkSentPacket_uid] at hu
            exact hnp ⟨q, hq, hst, hu⟩
          unfold ackDelay at ha
          split at ha
          · cases ha
          · split at ha
            · split at ha
              · cases ha
              · rename_i s2 he
                cases ha
                exact fulStep_eibcOnRefund h0 fresh (eibcRefundHandler_ok he)
            · cases ha
              exact FulStep.of_eq rfl

theorem afterPacketStatusUpdated_pending_sub (s : St) (a b : Bytes) :
    ∀ o ∈ (afterPacketStatusUpdated s a b .finalized).orders, o.status = .pending → o ∈ s.orders := by
  intro o ho hs
  unfold afterPacketStatusUpdated at ho
  split at ho
  · exact ho
  · rcases mem_setOrder.mp ho with rfl | ⟨ho1, _⟩
    · simp at hs
    · exact (mem_delOrder.mp ho1).1

theorem fulStep_finalizePacket {s s' : St} {k : Bytes} (hf : finalizePacket s k = .ok s') : FulStep s s' := by
  unfold finalizePacket at hf
  split at hf
  · cases hf
  · rename_i p hp
    split at hf
    · cases hf
    · unfold updateAfterFinalization at hf
      split at hf
      · cases hf
      · cases hf
        apply FulStep.of_sub
        intro o ho hs
        have := afterPacketStatusUpdated_pending_sub _ _ _ o ho hs
        have e : (releaseEffect s p).1.orders = s.orders := (oframe_releaseEffect s p).orders
        rw [← e]
        exact this

theorem fulStep_setOrderFulfilled {s s' : St} {o : Order} {f : Addr} {c : Option Addr} (hn : OrdersNodup s.orders)
    (ho : o ∈ s.orders) (hs : o.status = .pending) (hf : o.fulfiller = none)
    (hu : setOrderFulfilled s o f c = .ok s') : FulStep s s' := by
  unfold setOrderFulfilled at hu
  obtain ⟨p, _, _, rfl⟩ := updateTransferAddress_ok hu
  intro o' ho' _
  have ho'' : o' ∈ (setOrder s { o with fulfiller := some f }).orders := ho'
  rcases mem_setOrder.mp ho'' with rfl | ⟨h1, _⟩
  · right
    intro o2 ho2 hs2 hid
    have : o2 = o := ordersNodup_eq hn ho2 ho (hs2.trans hs.symm) hid
    rw [this]; exact hf
  · exact Or.inl h1

theorem fulStep_fulfillCore {s s' : St} {o : Order} {f : Addr} (hn : OrdersNodup s.orders)
    (ho : o ∈ s.orders) (hs : o.status = .pending) (hf : o.fulfiller = none)
    (hu : fulfillCore s o f = .ok s') : FulStep s s' := by
  unfold fulfillCore at hu
  split at hu
  · cases hu
  · split at hu
    · cases hu
    · rename_i s1 hsc
      have f1 := oframe_sendCoins hsc
      exact FulStep.congr (s := s1) (s' := s') f1.orders rfl
        (fulStep_setOrderFulfilled (by rw [f1.orders]; exact hn) (by rw [f1.orders]; exact ho) hs hf hu)

theorem fulStep_fulfillAuthorizedCore {s s' : St} {m : AuthMsg} (hn : OrdersNodup s.orders)
    (hu : fulfillAuthorizedCore s m = .ok s') : FulStep s s' := by
  obtain ⟨o, ho, _, s1, s2, hs1, hs2, hfu⟩ := fulfillAuthorizedCore_ok hu
  obtain ⟨hm, hs, hf⟩ := outstanding_pending ho
  have f := (oframe_sendCoins hs1).trans (oframe_payOperator hs2)
  exact FulStep.congr (s := s2) (s' := s') f.orders rfl
    (fulStep_setOrderFulfilled (by rw [f.orders]; exact hn) (by rw [f.orders]; exact hm) hs hf hfu)

theorem fulStep_msgDeleteLps {owner : Addr} : ∀ (ids : List Nat) {s s' : St}, msgDeleteLps s owner ids = .ok s' → s'.orders = s.orders
  | [], s, s', hu => by unfold msgDeleteLps at hu; cases hu; rfl
  | id :: rest, s, s', hu => by
    unfold msgDeleteLps at hu
    split at hu
    · exact fulStep_msgDeleteLps rest hu
    · split at hu
      · cases hu
      · exact fulStep_msgDeleteLps rest (s := delLp s id) hu

theorem deletePacket_orders_sub (s : St) (p : Packet) : ∀ o ∈ (deletePacket s p).orders, o ∈ s.orders := by
  intro o ho
  unfold deletePacket at ho
  exact (mem_delOrder.mp (mem_delOrder.mp ho).1).1

theorem foldl_deletePacket_orders_sub : ∀ (l : List Packet) (s : St), ∀ o ∈ (l.foldl deletePacket s).orders, o ∈ s.orders
  | [], _, _, ho => ho
  | p :: rest, s, o, ho => deletePacket_orders_sub s p o (foldl_deletePacket_orders_sub rest (deletePacket s p) o ho)

theorem revertPacket_orders_sub (s : St) (p : Packet) : ∀ o ∈ (revertPacket s p).orders, o ∈ s.orders := by
  intro o ho
  unfold revertPacket at ho
  have := deletePacket_orders_sub _ p o ho
  unfold revertIbc at this
  split at this <;> exact this

theorem foldl_revertPacket_orders_sub : ∀ (l : List Packet) (s : St), ∀ o ∈ (l.foldl revertPacket s).orders, o ∈ s.orders
  | [], _, _, ho => ho
  | p :: rest, s, o, ho => revertPacket_orders_sub s p o (foldl_revertPacket_orders_sub rest (revertPacket s p) o ho)

theorem fulStep_ofM {s : St} {m : M St} (hm : ∀ s', m = .ok s' → FulStep s s') : FulStep s (ofM s m).1 := by
  cases m with
  | ok s' => exact hm s' rfl
  | error e => exact FulStep.of_eq rfl

theorem fulStep_step {s : St} (o : Op) (hb : BoundedOp o) (h : InvAll s) : FulStep s (step s o).1 := by
  have hn : OrdersNodup s.orders := h.i5.okeys
  cases o with
  | recv c seq ph d =>
    show FulStep s (recvPacket s c seq ph d).1
    rcases recvPacket_cases s c seq ph d with e | e <;> rw [e]
    · exact FulStep.of_eq rfl
    · exact fulStep_recvOpen c seq ph d h.i4 h.idx h.x hb.1 hb.2
  | send a c d amt => exact fulStep_ofM (fun _ e => FulStep.of_eq (oframe_sendOpen (sendTransfer_ok e)).orders)
  | ack c seq ph isErr =>
    simp only [step]
    split
    · exact FulStep.of_eq rfl
    · rename_i s' e; exact fulStep_ackOpen h.i4 h.idx h.x hb.1 hb.2 (ackPacket_ok e)
    · exact FulStep.of_eq rfl
  | timeout c seq ph =>
    simp only [step]
    split
    · exact FulStep.of_eq rfl
    · rename_i s' e; exact fulStep_ackOpen h.i4 h.idx h.x hb.1 hb.2 (ackPacket_ok e)
    · exact FulStep.of_eq rfl
  | chanClose c => exact fulStep_ofM (fun _ e => FulStep.of_eq (oframe_setChanClosed e).orders)
  | chanOpen c => exact fulStep_ofM (fun _ e => FulStep.of_eq (oframe_setChanClosed e).orders)
  | timeoutOnClose c seq =>
    exact fulStep_ofM (fun _ e => by unfold timeoutOnClose at e; split at e <;> cases e; exact FulStep.of_eq rfl)
  | sendBlk a c d amt =>
    exact fulStep_ofM (fun _ e => by
      obtain ⟨s1, hs, rfl⟩ := sendBlk_ok e
      exact FulStep.of_eq (oframe_sendOpen hs).orders)
  | finalize a rid ph t src seq =>
    apply fulStep_ofM
    intro s' e
    unfold msgFinalize at e
    split at e
    · cases e
    · exact fulStep_finalizePacket e
  | finalizeByKey a b =>
    apply fulStep_ofM
    intro s' e
    unfold msgFinalizeByKey at e
    split at e
    · cases e
    · split at e
      · cases e
      · exact fulStep_finalizePacket e
  | fulfill a id fee =>
    apply fulStep_ofM
    intro s' e
    obtain ⟨o, ho, _, hc⟩ := msgFulfill_ok e
    obtain ⟨hm, hs, hf⟩ := outstanding_pending ho
    exact fulStep_fulfillCore hn hm hs hf hc
  | fulfillAuth g m =>
    apply fulStep_ofM
    intro s' e
    obtain ⟨_, hcase⟩ := msgFulfillAuthorized_ok e
    rcases hcase with ⟨_, hc⟩ | ⟨_, gr, r, _, _, hc⟩
    · exact fulStep_fulfillAuthorizedCore hn hc
    · cases r with
      | none => exact fulStep_fulfillAuthorizedCore (s := delGrant s m.lp g) hn hc
      | some g' => exact fulStep_fulfillAuthorizedCore (s := setGrant s g') hn hc
  | onDemand a id perm =>
    apply fulStep_ofM
    intro s' e
    obtain ⟨o, ho, l0, _, s1, s2, hd, hc, rfl⟩ := msgOnDemand_ok e
    obtain ⟨hm, hs, hf⟩ := outstanding_pending ho
    have e1 : s1.orders = s.orders := by rw [hd.eq]
    exact FulStep.congr (s := s1) (s' := s2) e1 rfl
      (fulStep_fulfillCore (by rw [e1]; exact hn) (by rw [e1]; exact hm) hs hf hc)
  | updateFee a id fee =>
    apply fulStep_ofM
    intro s' e
    obtain ⟨_, o, p, price, ho, _, _, _, rfl⟩ := msgUpdateFee_ok e
    obtain ⟨hm, hs, hf⟩ := outstanding_pending ho
    intro o' ho' _
    rcases mem_setOrder.mp ho' with rfl | ⟨h1, _⟩
    · right
      intro o2 ho2 hs2 hid
      have : o2 = o := ordersNodup_eq hn ho2 hm (hs2.trans hs.symm) hid
      rw [this]; exact hf
    · exact Or.inl h1
  | createLp l ok =>
    apply fulStep_ofM
    intro s' e
    unfold msgCreateLp at e
    split at e
    · cases e
    · split at e
      · cases e
      · cases e; exact FulStep.of_eq rfl
  | deleteLps a ids => exact fulStep_ofM (fun _ e => FulStep.of_eq (fulStep_msgDeleteLps ids e))
  | grant g =>
    apply fulStep_ofM
    intro s' e
    unfold msgGrant at e
    split at e
    · cases e
    · split at e
      · cases e
      · split at e
        · cases e
        · cases e; exact FulStep.of_eq rfl
  | addState rid n =>
    apply fulStep_ofM
    intro s' e
    unfold addState at e
    split at e
    · cases e
    · split at e
      · cases e
      · cases e; exact FulStep.of_eq rfl
  | finalizeState rid =>
    apply fulStep_ofM
    intro s' e
    unfold finalizeState at e
    split at e
    · cases e
    · split at e
      · cases e; exact FulStep.of_eq rfl
      · cases e
  | fork rid lv =>
    apply fulStep_ofM
    intro s' e
    unfold forkRollapp at e
    split at e
    · cases e
    · split at e
      · cases e
      · split at e
        · cases e
        · split at e
          · cases e
          · cases e
            exact FulStep.of_sub (fun o ho _ => foldl_revertPacket_orders_sub _ (setRa s _) o ho)
  | epoch => exact FulStep.of_sub (fun o ho _ => foldl_deletePacket_orders_sub _ _ o ho)
  | block => exact FulStep.of_eq rfl

/-- a fulfilled pending order that is still pending (under its id) after a step is unchanged -/
theorem fulfilled_frozen_step {s : St} (op : Op) (hb : BoundedOp op) (h : InvAll s) {o o' : Order}
    (ho : o ∈ s.orders) (hs : o.status = .pending) (hf : o.fulfiller.isSome = true)
    (ho' : o' ∈ (step s op).1.orders) (hs' : o'.status = .pending) (hid : o'.id = o.id) : o' = o := by
  rcases fulStep_step op hb h o' ho' hs' with h1 | h2
  · exact ordersNodup_eq h.i5.okeys h1 ho (hs'.trans hs.symm) hid
  · have := h2 o ho hs hid.symm
    rw [this] at hf; cases hf

end DymVerif.Packets
