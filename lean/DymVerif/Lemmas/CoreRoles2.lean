/-
  Lemmas/CoreRoles2 — the roles invariant through the primitive writes (rollapp record, sequencer
  record, opt-out of a whole rollapp, insertion of a new sequencer / rollapp, notice-queue removal).
-/
import DymVerif.Lemmas.CoreRolesChoose
namespace DymVerif.Core.Roles

theorem BondedOf.of_seqs {s s' : St} {id : Nat} {a : Addr} (h : BondedOf s id a) (e : s'.seqs = s.seqs) :
    BondedOf s' id a := by
  obtain ⟨q, hq, hb⟩ := h
  exact ⟨q, by rw [getSeq_congr e]; exact hq, hb⟩

/-- same rollapps and sequencers, possibly fewer notice-queue entries, any valid sequencer parameters -/
theorem RolesCore.of_sub' {s s' : St} (h : RolesCore s) (e1 : s'.ras = s.ras) (e2 : s'.seqs = s.seqs)
    (e3 : ∀ e ∈ s'.nq, e ∈ s.nq) (e4 : s'.t = s.t) (e5 : 0 < s'.sqp.noticePeriod) : RolesCore s' := by
  constructor
  · exact h.uniq.of_eq e1 e2
  · intro r hr a ha; rw [e1] at hr; exact (h.prop r hr a ha).of_seqs e2
  · intro r hr a ha; rw [e1] at hr; exact (h.succ r hr a ha).of_seqs e2
  · intro r hr a ha q hq; rw [e1] at hr; rw [getSeq_congr e2] at hq; exact h.succFresh r hr a ha q hq
  · intro r hr a ha; rw [e1] at hr; exact h.ne r hr a ha
  · intro q hq; rw [e2] at hq; exact h.optOut q hq
  · intro t a hta
    obtain ⟨q, r, hq, hn, hr, hp⟩ := h.nq t a (e3 _ hta)
    exact ⟨q, r, by rw [getSeq_congr e2]; exact hq, hn, by rw [getRa_congr e1]; exact hr, hp⟩
  · intro e he; rw [e4]; exact h.fut e (e3 e he)
  · exact e5

/-- same rollapps and sequencers, possibly fewer notice-queue entries -/
theorem RolesCore.of_sub {s s' : St} (h : RolesCore s) (e1 : s'.ras = s.ras) (e2 : s'.seqs = s.seqs)
    (e3 : ∀ e ∈ s'.nq, e ∈ s.nq) (e4 : s'.t = s.t) (e5 : s'.sqp = s.sqp) : RolesCore s' := by
  constructor
  · exact h.uniq.of_eq e1 e2
  · intro r hr a ha; rw [e1] at hr; exact (h.prop r hr a ha).of_seqs e2
  · intro r hr a ha; rw [e1] at hr; exact (h.succ r hr a ha).of_seqs e2
  · intro r hr a ha q hq; rw [e1] at hr; rw [getSeq_congr e2] at hq; exact h.succFresh r hr a ha q hq
  · intro r hr a ha; rw [e1] at hr; exact h.ne r hr a ha
  · intro q hq; rw [e2] at hq; exact h.optOut q hq
  · intro t a hta
    obtain ⟨q, r, hq, hn, hr, hp⟩ := h.nq t a (e3 _ hta)
    exact ⟨q, r, by rw [getSeq_congr e2]; exact hq, hn, by rw [getRa_congr e1]; exact hr, hp⟩
  · intro e he; rw [e4]; exact h.fut e (e3 e he)
  · rw [e5]; exact h.np

theorem SuccProp.of_ras {s s' : St} (h : SuccProp s) (e : s'.ras = s.ras) : SuccProp s' := by
  intro r hr; rw [e] at hr; exact h r hr

/-- writing a rollapp record -/
theorem RolesCore.of_setRa {s : St} {id : Nat} {r r0 : Rollapp} (h : RolesCore s) (hg0 : getRa s id = some r0) (hid : r.id = r0.id)
    (hp : ∀ a, r.proposer = some a → BondedOf s r.id a) (hs : ∀ a, r.successor = some a → BondedOf s r.id a)
    (hsf : ∀ a, r.successor = some a → ∀ q, getSeq s a = some q → q.notice = none)
    (hne : ∀ a, r.proposer = some a → r.successor ≠ some a)
    (hnq : ∀ t a, (t, a) ∈ s.nq → r0.proposer = some a → r.proposer = some a) : RolesCore (setRa s r) := by
  have hg : getRa s r.id = some r0 := by rw [hid, getRa_id hg0]; exact hg0
  constructor
  · exact h.uniq.of_setRa r
  · intro x hx a ha
    rcases mem_setRa hx with h1 | h1
    · exact (h.prop x h1 a ha).of_seqs rfl
    · subst h1; exact (hp a ha).of_seqs rfl
  · intro x hx a ha
    rcases mem_setRa hx with h1 | h1
    · exact (h.succ x h1 a ha).of_seqs rfl
    · subst h1; exact (hs a ha).of_seqs rfl
  · intro x hx a ha
    rcases mem_setRa hx with h1 | h1
    · exact h.succFresh x h1 a ha
    · subst h1; exact hsf a ha
  · intro x hx a ha
    rcases mem_setRa hx with h1 | h1
    · exact h.ne x h1 a ha
    · subst h1; exact hne a ha
  · exact h.optOut
  · intro t a hta
    obtain ⟨q, r1, hq, hn, hr, hp1⟩ := h.nq t a hta
    by_cases hc : r.id = q.rollapp
    · refine ⟨q, r, hq, hn, ?_, ?_⟩
      · rw [← hc]; exact getRa_setRa_same hg
      · rw [← hc, hg] at hr; injection hr with hr; subst hr; exact hnq t a hta hp1
    · exact ⟨q, r1, hq, hn, by rw [getRa_setRa_other hc]; exact hr, hp1⟩
  · exact h.fut
  · exact h.np

theorem SuccProp.of_setRa {s : St} {r : Rollapp} (h : SuccProp s) (hr : r.proposer = none → r.successor = none) :
    SuccProp (setRa s r) := by
  intro x hx
  rcases mem_setRa hx with h1 | h1
  · exact h x h1
  · subst h1; exact hr

theorem BondedOf.of_setSeq {s : St} {q q0 : Seq} {id : Nat} {a : Addr} (h : BondedOf s id a)
    (hg : getSeq s q.addr = some q0) (hr : q.rollapp = q0.rollapp) (hb : q0.bonded = true → q.bonded = true ∨ a ≠ q.addr) :
    BondedOf (setSeq s q) id a := by
  obtain ⟨q1, hq1, hb1, hr1⟩ := h
  by_cases hc : a = q.addr
  · subst hc
    rw [hg] at hq1; injection hq1 with hq1; subst hq1
    refine ⟨q, getSeq_setSeq_same hg, ?_, hr.trans hr1⟩
    rcases hb hb1 with hb | hb
    · exact hb
    · exact absurd rfl hb
  · exact ⟨q1, by rw [getSeq_setSeq_other (Ne.symm hc)]; exact hq1, hb1, hr1⟩

/-- writing a sequencer record: the rollapp is unchanged; it may be unbonded only when it holds no
    role; a started notice implies opted out; its notice-queue entry matches its notice time -/
theorem RolesCore.of_setSeq {s : St} {a0 : Addr} {q q0 : Seq} (h : RolesCore s) (hg0 : getSeq s a0 = some q0) (ha0 : q.addr = q0.addr)
    (hr : q.rollapp = q0.rollapp)
    (hb : q0.bonded = true → q.bonded = true ∨ ∀ r ∈ s.ras, r.proposer ≠ some q.addr ∧ r.successor ≠ some q.addr)
    (hsn : q.notice = q0.notice ∨ ∀ r ∈ s.ras, r.successor ≠ some q.addr)
    (ho : q.notice.isSome = true → q.optedIn = false)
    (hn : ∀ t, (t, q.addr) ∈ s.nq → q.notice = some t) : RolesCore (setSeq s q) := by
  have hg : getSeq s q.addr = some q0 := by rw [ha0, getSeq_addr hg0]; exact hg0
  constructor
  · exact h.uniq.of_setSeq q
  · intro r hr' a ha
    apply (h.prop r hr' a ha).of_setSeq hg hr
    intro hb0
    rcases hb hb0 with hb | hb
    · exact Or.inl hb
    · right; intro e; subst e; exact (hb r hr').1 ha
  · intro r hr' a ha
    apply (h.succ r hr' a ha).of_setSeq hg hr
    intro hb0
    rcases hb hb0 with hb | hb
    · exact Or.inl hb
    · right; intro e; subst e; exact (hb r hr').2 ha
  · intro r hr' a ha x hx
    by_cases hc : a = q.addr
    · subst hc
      rw [getSeq_setSeq_same hg] at hx; injection hx with hx; subst hx
      rcases hsn with hsn | hsn
      · rw [hsn]; exact h.succFresh r hr' _ ha q0 hg
      · exact absurd ha (hsn r hr')
    · rw [getSeq_setSeq_other (Ne.symm hc)] at hx
      exact h.succFresh r hr' a ha x hx
  · exact h.ne
  · intro x hx
    rcases mem_setSeq hx with h1 | h1
    · exact h.optOut x h1
    · subst h1; exact ho
  · intro t a hta
    obtain ⟨q1, r1, hq1, hn1, hr1, hp1⟩ := h.nq t a hta
    by_cases hc : a = q.addr
    · subst hc
      rw [hg] at hq1; injection hq1 with hq1; subst hq1
      exact ⟨q, r1, getSeq_setSeq_same hg, hn t hta, by rw [hr]; exact hr1, hp1⟩
    · exact ⟨q1, r1, by rw [getSeq_setSeq_other (Ne.symm hc)]; exact hq1, hn1, hr1, hp1⟩
  · exact h.fut
  · exact h.np

theorem getSeq_mapSeqs (s : St) (f : Seq → Seq) (hf : ∀ x, (f x).addr = x.addr) (a : Addr) :
    getSeq { s with seqs := s.seqs.map f } a = (getSeq s a).map f := by
  unfold getSeq; exact find_map_addr _ f hf a

/-- rewriting every sequencer record without touching address, rollapp, bond status and notice, and
    without opting anybody in -/
theorem RolesCore.of_mapSeqs {s : St} (h : RolesCore s) (f : Seq → Seq) (ha : ∀ x, (f x).addr = x.addr)
    (hr : ∀ x, (f x).rollapp = x.rollapp) (hb : ∀ x, (f x).bonded = x.bonded) (hn : ∀ x, (f x).notice = x.notice)
    (ho : ∀ x, (f x).optedIn = true → x.optedIn = true) : RolesCore { s with seqs := s.seqs.map f } := by
  have hbo : ∀ id a, BondedOf s id a → BondedOf { s with seqs := s.seqs.map f } id a := by
    intro id a ⟨q, hq, hb1, hr1⟩
    exact ⟨f q, by rw [getSeq_mapSeqs s f ha, hq]; rfl, (hb q).trans hb1, (hr q).trans hr1⟩
  constructor
  · have hm : (s.seqs.map f).map (·.addr) = s.seqs.map (·.addr) := by
      rw [List.map_map]; apply List.map_congr_left; intro x _; exact ha x
    exact ⟨h.uniq.ids, h.uniq.addrs.of_addrs_eq hm, h.uniq.sorted.of_addrs_eq hm⟩
  · intro r hr' a hp; exact hbo _ _ (h.prop r hr' a hp)
  · intro r hr' a hp; exact hbo _ _ (h.succ r hr' a hp)
  · intro r hr' a hp x hx
    rw [getSeq_mapSeqs s f ha] at hx
    cases hq : getSeq s a with
    | none => rw [hq] at hx; cases hx
    | some y =>
      rw [hq] at hx; injection hx with hx; subst hx
      rw [hn]; exact h.succFresh r hr' a hp y hq
  · exact h.ne
  · intro x hx hnx
    obtain ⟨y, hy, rfl⟩ := List.mem_map.1 hx
    rw [hn] at hnx
    have := h.optOut y hy hnx
    cases hfo : (f y).optedIn with
    | false => rfl
    | true => rw [ho y hfo] at this; cases this
  · intro t a hta
    obtain ⟨q1, r1, hq1, hn1, hr1, hp1⟩ := h.nq t a hta
    exact ⟨f q1, r1, by rw [getSeq_mapSeqs s f ha, hq1]; rfl, (hn q1).trans hn1, by rw [hr]; exact hr1, hp1⟩
  · exact h.fut
  · exact h.np

theorem optOutAll_core {s : St} (h : RolesCore s) (ra : Nat) : RolesCore (optOutAll s ra) := by
  unfold optOutAll
  apply h.of_mapSeqs
  · intro x; split <;> rfl
  · intro x; split <;> rfl
  · intro x; split <;> rfl
  · intro x; split <;> rfl
  · intro x; split
    · intro hc; cases hc
    · exact id

-- ---------------------------------------------------------------- insertion of new records

theorem find_insertSorted_other {α} (key : α → Nat) (x : α) (k : Nat) (hne : key x ≠ k) : ∀ l : List α,
    (insertSorted (fun a b => decide (key a < key b)) x l).find? (fun y => key y == k) = l.find? (fun y => key y == k) := by
  intro l
  have hx : (key x == k) = false := by simp [hne]
  induction l with
  | nil => simp [insertSorted, hne]
  | cons y ys ih =>
    unfold insertSorted
    by_cases h1 : key x < key y
    · simp only [h1, decide_true, if_true]
      rw [List.find?_cons, hx]
    · by_cases h2 : key y < key x
      · simp only [h1, h2, decide_false, decide_true, Bool.false_eq_true, if_false, if_true]
        rw [List.find?_cons, List.find?_cons, ih]
      · simp only [h1, h2, decide_false, Bool.false_eq_true, if_false]
        have hy : (key y == k) = false := by
          have : key y = key x := by omega
          simp [this, hne]
        rw [List.find?_cons, List.find?_cons, hx, hy]

theorem getSeq_insert_other {s : St} {q : Seq} {a : Addr} (hne : q.addr ≠ a) :
    getSeq { s with seqs := insertSorted (fun x y => decide (x.addr < y.addr)) q s.seqs } a = getSeq s a :=
  find_insertSorted_other (fun x : Seq => x.addr) q a hne s.seqs

theorem getRa_insert_other {s : St} {r : Rollapp} {id : Nat} (hne : r.id ≠ id) :
    getRa { s with ras := insertSorted (fun x y => decide (x.id < y.id)) r s.ras } id = getRa s id :=
  find_insertSorted_other (fun x : Rollapp => x.id) r id hne s.ras

theorem getRa_none {s : St} {id : Nat} (h : getRa s id = none) : ∀ y ∈ s.ras, y.id ≠ id := by
  unfold getRa at h
  intro y hy e
  have := List.find?_eq_none.1 h y hy
  simp [e] at this

theorem ids_nodup_insert (l : List Rollapp) (x : Rollapp) (hn : l.Pairwise (fun a b => a.id ≠ b.id))
    (h : ∀ y ∈ l, y.id ≠ x.id) :
    (insertSorted (fun a b => decide (a.id < b.id)) x l).Pairwise (fun a b => a.id ≠ b.id) := by
  induction l with
  | nil => simp [insertSorted]
  | cons a as ih =>
    have hp := List.pairwise_cons.1 hn
    have ha : a.id ≠ x.id := h a (by simp)
    unfold insertSorted
    by_cases h1 : x.id < a.id
    · simp only [h1, decide_true, if_true]
      apply List.pairwise_cons.2
      refine ⟨?_, hn⟩
      intro y hy; exact fun e => h y hy e.symm
    · have h2 : a.id < x.id := Nat.lt_of_le_of_ne (Nat.le_of_not_lt h1) ha
      simp only [h1, h2, decide_false, decide_true, Bool.false_eq_true, if_false, if_true]
      apply List.pairwise_cons.2
      refine ⟨?_, ih hp.2 (fun y hy => h y (by simp [hy]))⟩
      intro y hy
      rcases insertSorted_mem _ _ _ _ hy with h3 | h3
      · subst h3; exact ha
      · exact hp.1 y h3

/-- a new rollapp without proposer and successor -/
theorem RolesCore.of_insertRa {s : St} {r : Rollapp} (h : RolesCore s) (hf : getRa s r.id = none)
    (hp : r.proposer = none) (hs : r.successor = none) :
    RolesCore { s with ras := insertSorted (fun x y => decide (x.id < y.id)) r s.ras } := by
  have hmem : ∀ x, x ∈ insertSorted (fun x y => decide (x.id < y.id)) r s.ras → x = r ∨ x ∈ s.ras :=
    fun x hx => insertSorted_mem _ _ _ _ hx
  constructor
  · exact ⟨ids_nodup_insert s.ras r h.uniq.ids (getRa_none hf), h.uniq.addrs, h.uniq.sorted⟩
  · intro x hx a ha
    rcases hmem x hx with h1 | h1
    · subst h1; rw [hp] at ha; cases ha
    · exact (h.prop x h1 a ha).of_seqs rfl
  · intro x hx a ha
    rcases hmem x hx with h1 | h1
    · subst h1; rw [hs] at ha; cases ha
    · exact (h.succ x h1 a ha).of_seqs rfl
  · intro x hx a ha
    rcases hmem x hx with h1 | h1
    · subst h1; rw [hs] at ha; cases ha
    · exact h.succFresh x h1 a ha
  · intro x hx a ha
    rcases hmem x hx with h1 | h1
    · subst h1; rw [hp] at ha; cases ha
    · exact h.ne x h1 a ha
  · exact h.optOut
  · intro t a hta
    obtain ⟨q1, r1, hq1, hn1, hr1, hp1⟩ := h.nq t a hta
    refine ⟨q1, r1, hq1, hn1, ?_, hp1⟩
    rw [getRa_insert_other]; exact hr1
    intro e; rw [e, hr1] at hf; cases hf
  · exact h.fut
  · exact h.np

theorem SuccProp.of_insertRa {s : St} {r : Rollapp} (h : SuccProp s) (hs : r.successor = none) :
    SuccProp { s with ras := insertSorted (fun x y => decide (x.id < y.id)) r s.ras } := by
  intro x hx _
  rcases insertSorted_mem _ _ _ _ hx with h1 | h1
  · subst h1; exact hs
  · exact h x h1 ‹_›

/-- a new sequencer that has not started a notice -/
theorem RolesCore.of_insertSeq {s : St} {q : Seq} (h : RolesCore s) (hf : getSeq s q.addr = none)
    (hn : q.notice = none) :
    RolesCore { s with seqs := insertSorted (fun x y => decide (x.addr < y.addr)) q s.seqs } := by
  have hbo : ∀ id a, BondedOf s id a →
      BondedOf { s with seqs := insertSorted (fun x y => decide (x.addr < y.addr)) q s.seqs } id a := by
    intro id a ⟨q1, hq1, hb1, hr1⟩
    refine ⟨q1, ?_, hb1, hr1⟩
    rw [getSeq_insert_other]; exact hq1
    intro e; rw [e, hq1] at hf; cases hf
  constructor
  · exact ⟨h.uniq.ids, nodup_insert s.seqs q h.uniq.addrs (getSeq_none hf), sorted_insert s.seqs q h.uniq.sorted (getSeq_none hf)⟩
  · intro r hr a ha; exact hbo _ _ (h.prop r hr a ha)
  · intro r hr a ha; exact hbo _ _ (h.succ r hr a ha)
  · intro r hr a ha x hx
    obtain ⟨q1, hq1, _⟩ := h.succ r hr a ha
    rw [getSeq_insert_other (by intro e; rw [e, hq1] at hf; cases hf)] at hx
    exact h.succFresh r hr a ha x hx
  · exact h.ne
  · intro x hx hnx
    rcases insertSorted_mem _ _ _ _ hx with h1 | h1
    · subst h1; rw [hn] at hnx; cases hnx
    · exact h.optOut x h1 hnx
  · intro t a hta
    obtain ⟨q1, r1, hq1, hn1, hr1, hp1⟩ := h.nq t a hta
    refine ⟨q1, r1, ?_, hn1, hr1, hp1⟩
    rw [getSeq_insert_other]; exact hq1
    intro e; rw [e, hq1] at hf; cases hf
  · exact h.fut
  · exact h.np

end DymVerif.Core.Roles
