/-
  Lemmas/PacketsOnce — the C04 invariant of M-Packets over the delayedack-side fields:
  every release in the ghost log happened at or below the rollapp's finalized height, no packet is
  released twice, pending packets are not yet released, and the redelivery guards of ibc-go core
  (receipts, commitments, send sequences) cover everything released or pending.
-/
import DymVerif.Lemmas.PacketsStore
namespace DymVerif.Packets
open DymVerif DymVerif.Keys

/-- identity of an IBC packet on the hub: received / sent, hub channel, sequence -/
abbrev UID := Bool × Nat × Nat

def Packet.uid (p : Packet) : UID := (p.ptype == .onRecv, p.chan, p.seq)
def LogE.uid (e : LogE) : UID := (e.ptype == .onRecv, e.chan, e.seq)

/-- a release of a rollapp packet happened at or below the latest finalized height of that time -/
def EOk (e : LogE) : Prop := ∀ r, e.delayedRa = some r → ∃ f, e.finAt = some f ∧ e.proofHeight ≤ f

def nextOf (ns : List (Nat × Nat)) (c : Nat) : Nat :=
  match ns.find? (·.1 == c) with
  | some x => x.2
  | none => 1

theorem getNextSeq_eq (s : St) (c : Nat) : getNextSeq s c = nextOf s.nextSeq c := rfl

def loggedL (lg : List LogE) (u : UID) : Prop := u ∈ lg.map LogE.uid
def pendL (pk : List Packet) (u : UID) : Prop := ∃ p ∈ pk, p.status = .pending ∧ p.uid = u

structure InvF (pk : List Packet) (rc cm ns : List (Nat × Nat)) (lg : List LogE) : Prop where
  final : ∀ e ∈ lg, EOk e
  nodup : (lg.map LogE.uid).Nodup
  excl : ∀ u, loggedL lg u → ¬ pendL pk u
  rcv : ∀ c q, (loggedL lg (true, c, q) ∨ pendL pk (true, c, q)) → (c, q) ∈ rc
  snt : ∀ c q, (loggedL lg (false, c, q) ∨ pendL pk (false, c, q)) → (c, q) ∉ cm ∧ q < nextOf ns c
  bound : ∀ c q, (c, q) ∈ cm → q < nextOf ns c
  keys : KeysNodup pk
  uniq : ∀ p ∈ pk, ∀ q ∈ pk, p.status = .pending → q.status = .pending → p.uid = q.uid → p = q

def Inv04 (s : St) : Prop := InvF s.packets s.receipts s.commits s.nextSeq s.log

theorem Inv04.of_frame {s s' : St} (f : DFrame s s') (h : Inv04 s) : Inv04 s' := by
  unfold Inv04 at *
  rw [f.packets, f.receipts, f.commits, f.nextSeq, f.log]; exact h

theorem pendL_mono {pk pk' : List Packet} (hs : ∀ q ∈ pk', q ∈ pk) {u : UID} (h : pendL pk' u) : pendL pk u := by
  obtain ⟨p, hp, h1, h2⟩ := h
  exact ⟨p, hs p hp, h1, h2⟩

/-- removing packets preserves the invariant -/
theorem InvF.sub {pk pk' rc cm ns lg} (h : InvF pk rc cm ns lg) (hs : ∀ q ∈ pk', q ∈ pk) (hk : KeysNodup pk') :
    InvF pk' rc cm ns lg where
  final := h.final
  nodup := h.nodup
  excl := fun u hl hp => h.excl u hl (pendL_mono hs hp)
  rcv := fun c q hh => h.rcv c q (hh.imp id (pendL_mono hs))
  snt := fun c q hh => h.snt c q (hh.imp id (pendL_mono hs))
  bound := h.bound
  keys := hk
  uniq := fun p hp q hq => h.uniq p (hs p hp) q (hs q hq)

theorem InvF.filter {pk rc cm ns lg} (h : InvF pk rc cm ns lg) (f : Packet → Bool) : InvF (pk.filter f) rc cm ns lg :=
  h.sub (fun _ hq => (List.mem_filter.mp hq).1) (keysNodup_filter f h.keys)

/-- a new receipt -/
theorem InvF.addReceipt {pk rc cm ns lg} (h : InvF pk rc cm ns lg) (x : Nat × Nat) : InvF pk (rc ++ [x]) cm ns lg :=
  { h with rcv := fun c q hh => List.mem_append_left _ (h.rcv c q hh) }

/-- the store after `setPacket p` -/
def storeSet (pk : List Packet) (p : Packet) : List Packet := insertPkt p (pk.filter (fun q => pkey q != pkey p))

theorem setPacket_packets (s : St) (p : Packet) : (setPacket s p).packets = storeSet s.packets p := rfl

theorem mem_storeSet {pk : List Packet} {p q : Packet} : q ∈ storeSet pk p ↔ q = p ∨ (q ∈ pk ∧ pkey q ≠ pkey p) := by
  simp [storeSet, mem_insertPkt, List.mem_filter]

theorem keysNodup_storeSet {pk : List Packet} (p : Packet) (h : KeysNodup pk) : KeysNodup (storeSet pk p) := by
  apply keysNodup_insertPkt (keysNodup_filter _ h)
  intro q hq
  simpa using (List.mem_filter.mp hq).2

/-- storing a packet that is not pending -/
theorem InvF.setNonPending {pk rc cm ns lg} (h : InvF pk rc cm ns lg) (p : Packet) (hp : p.status ≠ .pending) :
    InvF (storeSet pk p) rc cm ns lg := by
  have sub : ∀ {u}, pendL (storeSet pk p) u → pendL pk u := by
    rintro u ⟨q, hq, h1, h2⟩
    rcases mem_storeSet.mp hq with rfl | ⟨hq', _⟩
    · exact absurd h1 hp
    · exact ⟨q, hq', h1, h2⟩
  exact {
    final := h.final, nodup := h.nodup, bound := h.bound
    excl := fun u hl hpd => h.excl u hl (sub hpd)
    rcv := fun c q hh => h.rcv c q (hh.imp id sub)
    snt := fun c q hh => h.snt c q (hh.imp id sub)
    keys := keysNodup_storeSet p h.keys
    uniq := by
      intro a ha b hb sa sb e
      rcases mem_storeSet.mp ha with rfl | ⟨ha', _⟩
      · exact absurd sa hp
      · rcases mem_storeSet.mp hb with rfl | ⟨hb', _⟩
        · exact absurd sb hp
        · exact h.uniq a ha' b hb' sa sb e }

/-- storing a pending packet whose identity is neither released nor pending yet, under its guard -/
theorem InvF.setPending {pk rc cm ns lg} (h : InvF pk rc cm ns lg) (p : Packet)
    (hnl : ¬ loggedL lg p.uid) (hnp : ¬ pendL pk p.uid)
    (hr : ∀ c q, p.uid = (true, c, q) → (c, q) ∈ rc)
    (hs : ∀ c q, p.uid = (false, c, q) → (c, q) ∉ cm ∧ q < nextOf ns c) :
    InvF (storeSet pk p) rc cm ns lg := by
  have sub : ∀ {u}, pendL (storeSet pk p) u → u = p.uid ∨ pendL pk u := by
    rintro u ⟨q, hq, h1, h2⟩
    rcases mem_storeSet.mp hq with rfl | ⟨hq', _⟩
    · exact Or.inl h2.symm
    · exact Or.inr ⟨q, hq', h1, h2⟩
  exact {
    final := h.final, nodup := h.nodup, bound := h.bound
    excl := by
      intro u hl hpd
      rcases sub hpd with rfl | hpd'
      · exact hnl hl
      · exact h.excl u hl hpd'
    rcv := by
      intro c q hh
      rcases hh with hl | hpd
      · exact h.rcv c q (Or.inl hl)
      · rcases sub hpd with e | hpd'
        · exact hr c q e.symm
        · exact h.rcv c q (Or.inr hpd')
    snt := by
      intro c q hh
      rcases hh with hl | hpd
      · exact h.snt c q (Or.inl hl)
      · rcases sub hpd with e | hpd'
        · exact hs c q e.symm
        · exact h.snt c q (Or.inr hpd')
    keys := keysNodup_storeSet p h.keys
    uniq := by
      intro a ha b hb sa sb e
      rcases mem_storeSet.mp ha with rfl | ⟨ha', _⟩
      · rcases mem_storeSet.mp hb with rfl | ⟨hb', _⟩
        · rfl
        · exact absurd ⟨b, hb', sb, e.symm⟩ hnp
      · rcases mem_storeSet.mp hb with rfl | ⟨hb', _⟩
        · exact absurd ⟨a, ha', sa, e⟩ hnp
        · exact h.uniq a ha' b hb' sa sb e }

/-- replacing a packet by one with the same key, status and identity (`UpdateRollappPacketTransferAddress`) -/
theorem InvF.replace {pk rc cm ns lg} (h : InvF pk rc cm ns lg) (p p' : Packet) (hp : p ∈ pk)
    (hk : pkey p' = pkey p) (hst : p'.status = p.status) (hu : p'.uid = p.uid) :
    InvF (storeSet pk p') rc cm ns lg := by
  have sub : ∀ {u}, pendL (storeSet pk p') u → pendL pk u := by
    rintro u ⟨q, hq, h1, h2⟩
    rcases mem_storeSet.mp hq with rfl | ⟨hq', _⟩
    · exact ⟨p, hp, hst ▸ h1, hu ▸ h2⟩
    · exact ⟨q, hq', h1, h2⟩
  exact {
    final := h.final, nodup := h.nodup, bound := h.bound
    excl := fun u hl hpd => h.excl u hl (sub hpd)
    rcv := fun c q hh => h.rcv c q (hh.imp id sub)
    snt := fun c q hh => h.snt c q (hh.imp id sub)
    keys := keysNodup_storeSet p' h.keys
    uniq := by
      intro a ha b hb sa sb e
      rcases mem_storeSet.mp ha with rfl | ⟨ha', hka⟩
      · rcases mem_storeSet.mp hb with rfl | ⟨hb', hkb⟩
        · rfl
        · have : p = b := h.uniq p hp b hb' (hst ▸ sa) sb (hu ▸ e)
          exact absurd (this ▸ hk.symm) hkb
      · rcases mem_storeSet.mp hb with rfl | ⟨hb', hkb⟩
        · have : a = p := h.uniq a ha' p hp sa (hst ▸ sb) (hu ▸ e)
          exact absurd (this ▸ hk.symm) hka
        · exact h.uniq a ha' b hb' sa sb e }

theorem loggedL_append {lg : List LogE} {e : LogE} {u : UID} : loggedL (lg ++ [e]) u ↔ loggedL lg u ∨ u = e.uid := by
  simp only [loggedL, List.map_append, List.mem_append, List.map_cons, List.map_nil, List.mem_singleton]

/-- a release is logged for an identity that is neither released nor pending, under its guard -/
theorem InvF.logAppend {pk rc cm ns lg} (h : InvF pk rc cm ns lg) (e : LogE) (he : EOk e)
    (hnl : ¬ loggedL lg e.uid) (hnp : ¬ pendL pk e.uid)
    (hr : ∀ c q, e.uid = (true, c, q) → (c, q) ∈ rc)
    (hs : ∀ c q, e.uid = (false, c, q) → (c, q) ∉ cm ∧ q < nextOf ns c) :
    InvF pk rc cm ns (lg ++ [e]) where
  final := by
    intro x hx
    rcases List.mem_append.mp hx with hx | hx
    · exact h.final x hx
    · simp at hx; subst hx; exact he
  nodup := by
    rw [List.map_append, List.nodup_append]
    refine ⟨h.nodup, by simp, ?_⟩
    intro a ha b hb
    simp at hb; subst hb
    intro e'; exact hnl (e' ▸ ha)
  excl := by
    intro u hl hpd
    rcases loggedL_append.mp hl with hl' | rfl
    · exact h.excl u hl' hpd
    · exact hnp hpd
  rcv := by
    intro c q hh
    rcases hh with hl | hpd
    · rcases loggedL_append.mp hl with hl' | e'
      · exact h.rcv c q (Or.inl hl')
      · exact hr c q e'.symm
    · exact h.rcv c q (Or.inr hpd)
  snt := by
    intro c q hh
    rcases hh with hl | hpd
    · rcases loggedL_append.mp hl with hl' | e'
      · exact h.snt c q (Or.inl hl')
      · exact hs c q e'.symm
    · exact h.snt c q (Or.inr hpd)
  bound := h.bound
  keys := h.keys
  uniq := h.uniq

/-- removing a commitment -/
theorem InvF.delCommit {pk rc cm ns lg} (h : InvF pk rc cm ns lg) (x : Nat × Nat) :
    InvF pk rc (cm.filter (· != x)) ns lg :=
  { h with
    snt := fun c q hh => ⟨fun hm => (h.snt c q hh).1 (List.mem_filter.mp hm).1, (h.snt c q hh).2⟩
    bound := fun c q hm => h.bound c q (List.mem_filter.mp hm).1 }

theorem nextOf_bump_self (ns : List (Nat × Nat)) (c n : Nat) : nextOf ((c, n) :: ns.filter (·.1 != c)) c = n := by
  simp [nextOf, List.find?]

theorem nextOf_bump_other (ns : List (Nat × Nat)) (c c' n : Nat) (hc : c' ≠ c) :
    nextOf ((c, n) :: ns.filter (·.1 != c)) c' = nextOf ns c' := by
  have h1 : ((c, n).1 == c') = false := by simpa using (Ne.symm hc)
  simp only [nextOf, List.find?, h1]
  congr 1
  induction ns with
  | nil => rfl
  | cons x xs ih =>
    by_cases hx : x.1 = c
    · have : (x.1 != c) = false := by simp [hx]
      have h2 : (x.1 == c') = false := by simp [hx, Ne.symm hc]
      simp only [List.filter, this, List.find?, h2]; exact ih
    · have : (x.1 != c) = true := by simpa using hx
      simp only [List.filter, this, List.find?]
      by_cases h3 : (x.1 == c') = true
      · simp [h3]
      · have h3' : (x.1 == c') = false := by simpa using h3
        simp only [h3']; exact ih

/-- a packet is sent: a commitment at the next sequence, the sequence moves on -/
theorem InvF.send {pk rc cm ns lg} (h : InvF pk rc cm ns lg) (c : Nat) :
    InvF pk rc (cm ++ [(c, nextOf ns c)]) ((c, nextOf ns c + 1) :: ns.filter (·.1 != c)) lg := by
  have nx : ∀ c', nextOf ns c' ≤ nextOf ((c, nextOf ns c + 1) :: ns.filter (·.1 != c)) c' := by
    intro c'
    by_cases hc : c' = c
    · subst hc; rw [nextOf_bump_self]; exact Nat.le_succ _
    · rw [nextOf_bump_other _ _ _ _ hc]; exact Nat.le_refl _
  exact { h with
    snt := by
      intro c' q hh
      have := h.snt c' q hh
      refine ⟨?_, Nat.lt_of_lt_of_le this.2 (nx c')⟩
      intro hm
      rcases List.mem_append.mp hm with hm | hm
      · exact this.1 hm
      · simp at hm
        obtain ⟨rfl, rfl⟩ := hm
        exact Nat.lt_irrefl _ this.2
    bound := by
      intro c' q hm
      rcases List.mem_append.mp hm with hm | hm
      · exact Nat.lt_of_lt_of_le (h.bound c' q hm) (nx c')
      · simp at hm
        obtain ⟨rfl, rfl⟩ := hm
        rw [nextOf_bump_self]; exact Nat.lt_succ_self _ }

/-- hard fork, received packet: the receipt goes together with the (pending) packet -/
theorem InvF.revertRecv {pk rc cm ns lg} (h : InvF pk rc cm ns lg) (p : Packet) (hp : p ∈ pk)
    (hst : p.status = .pending) (hr : (p.ptype == .onRecv) = true) :
    InvF (pk.filter (fun q => pkey q != pkey p)) (rc.filter (· != (p.chan, p.seq))) cm ns lg := by
  have base := h.filter (fun q => pkey q != pkey p)
  refine { base with rcv := ?_ }
  intro c q hh
  have hm := base.rcv c q hh
  refine List.mem_filter.mpr ⟨hm, ?_⟩
  simp only [bne_iff_ne, ne_eq]
  intro e
  obtain ⟨rfl, rfl⟩ := Prod.mk.inj e
  have hu : p.uid = (true, p.chan, p.seq) := by simp [Packet.uid, hr]
  rcases hh with hl | ⟨q', hq', s1, s2⟩
  · exact h.excl _ hl ⟨p, hp, hst, hu⟩
  · have hq'' := List.mem_filter.mp hq'
    have : q' = p := h.uniq q' hq''.1 p hp s1 hst (s2.trans hu.symm)
    subst this
    simp at hq''

/-- hard fork, sent packet: the commitment comes back together with the deletion of the (pending) packet -/
theorem InvF.revertSent {pk rc cm ns lg} (h : InvF pk rc cm ns lg) (p : Packet) (hp : p ∈ pk)
    (hst : p.status = .pending) (hr : (p.ptype == .onRecv) = false) :
    InvF (pk.filter (fun q => pkey q != pkey p)) rc (if cm.contains (p.chan, p.seq) then cm else cm ++ [(p.chan, p.seq)]) ns lg := by
  have base := h.filter (fun q => pkey q != pkey p)
  have hu : p.uid = (false, p.chan, p.seq) := by simp [Packet.uid, hr]
  have hb := (h.snt p.chan p.seq (Or.inr ⟨p, hp, hst, hu⟩))
  have hnc : cm.contains (p.chan, p.seq) = false := by
    cases hc : cm.contains (p.chan, p.seq) with
    | false => rfl
    | true => exact absurd (by simpa using hc) hb.1
  rw [hnc]
  refine { base with snt := ?_, bound := ?_ }
  · intro c q hh
    have := base.snt c q hh
    refine ⟨?_, this.2⟩
    intro hm
    rcases List.mem_append.mp hm with hm | hm
    · exact this.1 hm
    · simp at hm
      obtain ⟨rfl, rfl⟩ := hm
      rcases hh with hl | ⟨q', hq', s1, s2⟩
      · exact h.excl _ hl ⟨p, hp, hst, hu⟩
      · have hq'' := List.mem_filter.mp hq'
        have : q' = p := h.uniq q' hq''.1 p hp s1 hst (s2.trans hu.symm)
        subst this
        simp at hq''
  · intro c q hm
    rcases List.mem_append.mp hm with hm | hm
    · exact h.bound c q hm
    · simp at hm
      obtain ⟨rfl, rfl⟩ := hm
      exact hb.2

end DymVerif.Packets
