/-
  Lemmas/GenEqPackets — tie 1 for M-Packets (C03 C04 C05): what translate/packets.go regenerates from
  /repo's working tree on every check (`Gen/Packets.lean`) equals what `Model/Packets.lean` was written
  against.
  * translated comparisons and tables that must EQUAL the model's definitions (`…_eq`): the
    finalizability comparison of VerifyHeightFinalized and of `data.Finalized`, the settlement-validated
    comparison, msgServer.validateOrder (ordered guards), the first height OnHardFork reverts, which
    packet types OnHardFork restores the commitment of, which UpdateDemandOrder prices without bridging
    fee, the beneficiary field (receiver for ON_RECV, sender for ON_ACK / ON_TIMEOUT) in every switch that
    picks the pending-by-address key or rewrites the transfer target, the callback finalizeRollappPacket
    resumes per packet type, the eIBC order constructor / fee parameter per packet type, the packet
    status transition;
  * every function the model mirrors step by step must have exactly the statement skeleton recorded
    here (`…_skeleton`): a dropped guard, a reordered effect, a new early return, another argument of a
    keeper call — any edit breaks the corresponding lemma.
-/
import DymVerif.Gen.Packets
import DymVerif.Model.Packets
namespace DymVerif.GenEq.Packets
open DymVerif DymVerif.Keys DymVerif.Packets

/-! ### translated comparisons -/

/-- `VerifyHeightFinalized`: refused iff the height is above the latest finalized height -/
theorem verifyHeightFinalized_eq (s : St) (rid : Bytes) (h : Nat) :
    Packets.verifyHeightFinalized s rid h =
      (match Gen.Packets.verifyHeightFinalized (finHeight s rid) h with
       | some e => .error e
       | none => .ok ()) := by
  unfold Packets.verifyHeightFinalized Gen.Packets.verifyHeightFinalized
  cases finHeight s rid with
  | none => rfl
  | some f => by_cases hf : f < h <;> simp [hf]

/-- `TransferDataWithFinalization.Finalized` -/
theorem isFinalizedFor_eq (s : St) (ra : Option Bytes) (ph : Nat) :
    isFinalizedFor s ra ph = (match ra with
      | none => false
      | some r => match finHeight s r with
        | some f => Gen.Packets.finalizedFlag ph f
        | none => false) := rfl

/-- `checkIfSettlementValidated` -/
theorem settlementValidated_eq (s : St) (o : Order) :
    settlementValidated s o = (match getPacket s o.trackingKey with
      | none => .error .notFound
      | some p =>
        match getRa s o.rollappId with
        | none => .error .noState
        | some r =>
          match raLatest r with
          | none => .error .noState
          | some l => .ok (Gen.Packets.settlementValidatedCmp p.proofHeight l)) := rfl

/-- `msgServer.validateOrder`: rollapp id, price, expected fee, then (if asked for) settlement validation -/
theorem validateOrder_eq (s : St) (o : Order) (m : AuthMsg) :
    Packets.validateOrder s o m =
      (match Gen.Packets.validateOrder o m (settlementValidated s o) with
       | some e => .error e
       | none => .ok ()) := by
  unfold Packets.validateOrder Gen.Packets.validateOrder
  have hc : (m.price != [(o.denom, o.price)]) = (!([(o.denom, o.price)] == m.price)) := by
    rw [bne, BEq.comm]
  rw [hc]
  by_cases h1 : o.rollappId = m.rollappId <;> by_cases h2 : [(o.denom, o.price)] = m.price <;>
    by_cases h3 : o.fee = m.expectedFee <;> simp [h1, h2, h3]
  cases m.sv <;> simp
  cases settlementValidated s o with
  | error e => rfl
  | ok v => cases v <;> rfl

/-- `OnHardFork` reverts the pending packets with proof height from `lastValidHeight+1` (uint64) on -/
theorem forkRange_eq (rid : Bytes) (lastValid : Nat) (k : Bytes) :
    forkRange rid lastValid k =
      inRange (pendingFromHeightRange rid (Gen.Packets.hardForkFromHeight lastValid)).1
              (pendingFromHeightRange rid (Gen.Packets.hardForkFromHeight lastValid)).2 k := rfl

/-- `OnHardFork`: commitment restored for ON_ACK / ON_TIMEOUT, receipt deleted otherwise.  (The model
    takes the other branch for the type UNDEFINED, which no stored packet has: `savePacket` is only
    called with the three proper types.) -/
theorem revertIbc_eq (s : St) (p : Packet) (h : p.ptype ≠ .undefined) :
    revertIbc s p =
      (if Gen.Packets.hardForkRestoresCommitment p.ptype then
         { s with commits := if s.commits.contains (p.chan, p.seq) then s.commits else s.commits ++ [(p.chan, p.seq)],
                  restored := s.restored ++ [((p.chan, p.seq), (restoreTarget p).target)] }
       else { s with receipts := s.receipts.filter (· != (p.chan, p.seq)) }) := by
  unfold revertIbc
  cases ht : p.ptype <;> simp_all [Gen.Packets.hardForkRestoresCommitment]
example : ({ (default : Packet) with ptype := .onAck }).ptype ≠ .undefined := by decide

/-- `UpdateDemandOrder`: the bridging fee is dropped from the price exactly for the types other than ON_RECV -/
theorem updateFee_multiplier_eq (s : St) (p : Packet) :
    (if p.ptype == .onRecv then s.bridgingFee else Dec.zero) =
      (if Gen.Packets.updateFeeDropsBridgingFee p.ptype then Dec.zero else s.bridgingFee) := by
  cases p.ptype <;> rfl

/-! ### the beneficiary by packet type -/

/-- the model keeps one `target` per packet: the receiver of the ICS-20 data for a received packet, its
    sender for an acknowledged / timed-out one -/
def modelSide : PType → Option Gen.Packets.Side
  | .onRecv => some .receiver
  | .onAck => some .sender
  | .onTimeout => some .sender
  | .undefined => none

theorem target_of_recv (s : St) (c seq ph : Nat) (rid : Bytes) (d : RecvData) (tgt : Addr) :
    (mkRecvPacket s c seq ph rid d tgt).ptype = .onRecv ∧ (mkRecvPacket s c seq ph rid d tgt).target = tgt := ⟨rfl, rfl⟩
theorem target_of_sent (s : St) (x : Sent) (t : PType) (ph : Nat) (rid : Bytes) (e : Bool) :
    (mkSentPacket s x t ph rid e).ptype = t ∧ (mkSentPacket s x t ph rid e).target = x.sender := ⟨rfl, rfl⟩
theorem sentType_side (b : Bool) : modelSide (sentType b) = some .sender := by cases b <;> rfl

theorem savePacketSide_eq : Gen.Packets.savePacketSide = modelSide := by funext t; cases t <;> rfl
theorem afterFinalizationSide_eq : Gen.Packets.afterFinalizationSide = modelSide := by funext t; cases t <;> rfl
theorem deletePacketSide_eq : Gen.Packets.deletePacketSide = modelSide := by funext t; cases t <;> rfl
theorem transferAddressSide_eq : Gen.Packets.transferAddressSide = modelSide := by funext t; cases t <;> rfl
theorem restoreTargetSide_eq : Gen.Packets.restoreTargetSide = modelSide := by funext t; cases t <;> rfl
/-- the hub end of the channel: destination for a received packet (`Packet.chan`, `cpIdOf` as source), source
    for a sent one (`hubIdOf` as source) -/
theorem hubEndSide_eq : Gen.Packets.hubEndSide = modelSide := by funext t; cases t <;> rfl

/-! ### switches over the packet type -/

/-- the type switch of `finalizeRollappPacket` is the model's `releaseEffect` -/
theorem releaseEffect_eq (s : St) (p : Packet) :
    releaseEffect s p = (match Gen.Packets.finalizeCallback p.ptype with
      | some .recvAndAck => writeRecvAck (recvRelease s p).1 p (recvRelease s p).2
      | some .ack => if p.ackErr then refundRelease s p else ackRelease s p
      | some .timeout => refundRelease s p
      | none => (s, none)) := by
  unfold releaseEffect
  cases p.ptype <;> rfl

/-- the eIBC handler builds the order of a received packet from the memo (`eibcOnRecv`), that of an
    acknowledged / timed-out one from the fee parameter (`eibcOnRefund`) -/
theorem eibcOrderCtor_eq : Gen.Packets.eibcOrderCtor = fun
    | .onRecv => some .onRecv
    | .onAck => some .onErrAckOrTimeout
    | .onTimeout => some .onErrAckOrTimeout
    | .undefined => none := by funext t; cases t <;> rfl

theorem refundFee_eq (s : St) (p : Packet) :
    refundFee s p = (((match Gen.Packets.refundFeeParam p.ptype with
      | some .timeoutFee => s.timeoutFee
      | _ => s.errAckFee).mulInt p.amount).truncateInt) := by
  unfold refundFee
  cases p.ptype <;> rfl

/-! ### the status transition -/

theorem status_transition :
    Gen.Packets.finalizeFrom = .pending ∧ Gen.Packets.finalizeTo = .finalized ∧
    Gen.Packets.transferAddrFrom = .pending ∧ Gen.Packets.orderIdStatus = .pending := ⟨rfl, rfl, rfl, rfl⟩

theorem flipped_status (p : Packet) : (flipped p).status = Gen.Packets.finalizeTo := rfl
theorem pendKeyOf_eq (p : Packet) : pendKeyOf p = pkey { p with status := Gen.Packets.orderIdStatus } := rfl

theorem updateAfterFinalization_guard (s : St) (p : Packet) (h : p.status ≠ Gen.Packets.finalizeFrom) :
    updateAfterFinalization s p = .error .notPending := by
  unfold updateAfterFinalization
  have : (p.status != Status.pending) = true := by
    simp only [bne_iff_ne]; exact h
  simp [this]
example : ({ (default : Packet) with status := .finalized }).status ≠ Gen.Packets.finalizeFrom := by decide

theorem updateTransferAddress_guard (s : St) (k : Bytes) (a : Addr) (p : Packet) (hp : getPacket s k = some p)
    (h : p.status ≠ Gen.Packets.transferAddrFrom) : updateTransferAddress s k a = .error .notPending := by
  unfold updateTransferAddress
  have : (p.status != Status.pending) = true := by
    simp only [bne_iff_ne]; exact h
  simp [hp, this]

/-! ### the translated comparisons on concrete inputs -/

example : Gen.Packets.verifyHeightFinalized (some 5) 5 = none := by decide
example : Gen.Packets.verifyHeightFinalized (some 5) 6 = some .notFinal := by decide
example : Gen.Packets.verifyHeightFinalized none 1 = some .noFinalState := by decide
example : Gen.Packets.finalizedFlag 5 5 = true ∧ Gen.Packets.finalizedFlag 6 5 = false := by decide
example : Gen.Packets.hardForkFromHeight 9 = 10 ∧ Gen.Packets.hardForkFromHeight (2 ^ 64 - 1) = 0 := by decide
example : Gen.Packets.settlementValidatedCmp 4 4 = true ∧ Gen.Packets.settlementValidatedCmp 5 4 = false := by decide

/-! ### statement skeletons -/

/-- `IBCMiddleware.OnRecvPacket` (x/delayedack/ibc_middleware.go) as mirrored by the model -/
theorem mwOnRecvPacket_skeleton : Gen.Packets.mwOnRecvPacket =
  ["transfer, err := w.GetValidTransferWithFinalizationInfo(ctx, packet, commontypes.RollappPacket_ON_RECV)",
   "if err != nil {",
   "return uevent.NewErrorAcknowledgement(ctx, wrap(err))",
   "}",
   "if !transfer.IsRollapp() || transfer.Finalized {",
   "return w.IBCModule.OnRecvPacket(ctx, packet, relayer)",
   "}",
   "cacheCtx, _ := ctx.CacheContext()",
   "ack := w.IBCModule.OnRecvPacket(cacheCtx, packet, relayer)",
   "if ack == nil {",
   "return uevent.NewErrorAcknowledgement(ctx, errors.New(…))",
   "}",
   "if !ack.Success() {",
   "return ack",
   "}",
   "rollappPacket := w.savePacket(ctx, packet, transfer, relayer, commontypes.RollappPacket_ON_RECV, nil)",
   "err = w.EIBCDemandOrderHandler(ctx, rollappPacket, transfer.FungibleTokenPacketData)",
   "if err != nil {",
   "return uevent.NewErrorAcknowledgement(ctx, wrap(err))",
   "}",
   "return nil"] := rfl

/-- `IBCMiddleware.OnAcknowledgementPacket` (x/delayedack/ibc_middleware.go) as mirrored by the model -/
theorem mwOnAcknowledgementPacket_skeleton : Gen.Packets.mwOnAcknowledgementPacket =
  ["if err := w.Keeper.Cdc().UnmarshalJSON(acknowledgement, &ack); err != nil {",
   "return wrap(types.ErrUnknownRequest)",
   "}",
   "transfer, err := w.GetValidTransferWithFinalizationInfo(ctx, packet, commontypes.RollappPacket_ON_ACK)",
   "if err != nil {",
   "return err",
   "}",
   "if !transfer.IsRollapp() || transfer.Finalized {",
   "return w.IBCModule.OnAcknowledgementPacket(ctx, packet, acknowledgement, relayer)",
   "}",
   "cacheCtx, _ := ctx.CacheContext()",
   "err = w.IBCModule.OnAcknowledgementPacket(cacheCtx, packet, acknowledgement, relayer)",
   "if err != nil {",
   "return err",
   "}",
   "rollappPacket := w.savePacket(ctx, packet, transfer, relayer, commontypes.RollappPacket_ON_ACK, acknowledgement)",
   "switch ack.Response.(type) {",
   "case *channeltypes.Acknowledgement_Error:",
   "if w.isForwarded(ctx, packet) {",
   "return nil",
   "}",
   "return w.EIBCDemandOrderHandler(ctx, rollappPacket, transfer.FungibleTokenPacketData)",
   "}",
   "return nil"] := rfl

/-- `IBCMiddleware.OnTimeoutPacket` (x/delayedack/ibc_middleware.go) as mirrored by the model -/
theorem mwOnTimeoutPacket_skeleton : Gen.Packets.mwOnTimeoutPacket =
  ["transfer, err := w.GetValidTransferWithFinalizationInfo(ctx, packet, commontypes.RollappPacket_ON_TIMEOUT)",
   "if err != nil {",
   "return err",
   "}",
   "if !transfer.IsRollapp() || transfer.Finalized {",
   "return w.IBCModule.OnTimeoutPacket(ctx, packet, relayer)",
   "}",
   "cacheCtx, _ := ctx.CacheContext()",
   "err = w.IBCModule.OnTimeoutPacket(cacheCtx, packet, relayer)",
   "if err != nil {",
   "return err",
   "}",
   "rollappPacket := w.savePacket(ctx, packet, transfer, relayer, commontypes.RollappPacket_ON_TIMEOUT, nil)",
   "if w.isForwarded(ctx, packet) {",
   "return nil",
   "}",
   "return w.EIBCDemandOrderHandler(ctx, rollappPacket, transfer.FungibleTokenPacketData)"] := rfl

/-- `IBCMiddleware.isForwarded` (x/delayedack/ibc_middleware.go) as mirrored by the model (`p.fwd.isSome`:
    the packet-forward keeper holds an in-flight record for the packet) -/
theorem mwIsForwarded_skeleton : Gen.Packets.mwIsForwarded =
  ["if w.pfm == nil {",
   "return false",
   "}",
   "inFlight, _ := w.pfm.TimeoutShouldRetry(ctx, packet)",
   "return inFlight != nil"] := rfl

/-- `IBCMiddleware.savePacket` (x/delayedack/ibc_middleware.go) as mirrored by the model -/
theorem mwSavePacket_skeleton : Gen.Packets.mwSavePacket =
  ["p := commontypes.RollappPacket{RollappId: transfer.Rollapp.RollappId, Packet: &packet, Acknowledgement: ack, Status: commontypes.Status_PENDING, Relayer: relayer, ProofHeight: transfer.ProofHeight, Type: packetType}",
   "switch packetType {",
   "case commontypes.RollappPacket_ON_RECV:",
   "call w.MustSetPendingPacketByAddress(ctx, transfer.FungibleTokenPacketData.Receiver, p.RollappPacketKey())",
   "case commontypes.RollappPacket_ON_ACK, commontypes.RollappPacket_ON_TIMEOUT:",
   "call w.MustSetPendingPacketByAddress(ctx, transfer.FungibleTokenPacketData.Sender, p.RollappPacketKey())",
   "}",
   "call w.Keeper.SetRollappPacket(ctx, p)",
   "return p"] := rfl

/-- `Keeper.GetValidTransferWithFinalizationInfo` (x/delayedack/keeper) as mirrored by the model -/
theorem getValidTransferWithFinalizationInfo_skeleton : Gen.Packets.getValidTransferWithFinalizationInfo =
  ["port, channel := commontypes.PacketHubPortChan(packetType, packet)",
   "height, err := commontypes.UnpackPacketProofHeight(ctx, packet, packetType)",
   "if err != nil {",
   "err = wrap(err)",
   "return",
   "}",
   "data.ProofHeight = height",
   "data.TransferData, err = k.rollappKeeper.GetValidTransfer(ctx, packet.GetData(), port, channel)",
   "if err != nil {",
   "err = wrap(err)",
   "return",
   "}",
   "if !data.IsRollapp() {",
   "return",
   "}",
   "finalizedHeight, err := k.getRollappLatestFinalizedHeight(ctx, data.Rollapp.RollappId)",
   "if errorsmod.IsOf(err, gerrc.ErrNotFound) {",
   "err = nil",
   "} else if err != nil {",
   "err = wrap(err)",
   "} else {",
   "data.Finalized = data.ProofHeight <= finalizedHeight",
   "}",
   "return"] := rfl

/-- `Keeper.FinalizeRollappPacket` (x/delayedack/keeper) as mirrored by the model -/
theorem finalizeRollappPacketOuter_skeleton : Gen.Packets.finalizeRollappPacketOuter =
  ["packet, err := k.GetRollappPacket(ctx, rollappPacketKey)",
   "if err != nil {",
   "return nil, fmt.Errorf(err)",
   "}",
   "err = k.VerifyHeightFinalized(ctx, packet.RollappId, packet.ProofHeight)",
   "if err != nil {",
   "return packet, fmt.Errorf(err)",
   "}",
   "err = k.finalizeRollappPacket(ctx, ibc, packet.RollappId, *packet)",
   "if err != nil {",
   "return packet, fmt.Errorf(err)",
   "}",
   "return packet, nil"] := rfl

/-- `Keeper.finalizeRollappPacket` (x/delayedack/keeper) as mirrored by the model -/
theorem finalizeRollappPacket_skeleton : Gen.Packets.finalizeRollappPacket =
  ["switch rollappPacket.Type {",
   "case commontypes.RollappPacket_ON_RECV:",
   "ack := ibc.OnRecvPacket(ctx, *rollappPacket.Packet, rollappPacket.Relayer)",
   "if ack != nil {",
   "packetErr = osmoutils.ApplyFuncIfNoError(ctx, k.writeRecvAck(rollappPacket, ack))",
   "}",
   "case commontypes.RollappPacket_ON_ACK:",
   "packetErr = osmoutils.ApplyFuncIfNoError(ctx, k.onAckPacket(rollappPacket, ibc))",
   "case commontypes.RollappPacket_ON_TIMEOUT:",
   "packetErr = osmoutils.ApplyFuncIfNoError(ctx, k.onTimeoutPacket(rollappPacket, ibc))",
   "default:",
   "}",
   "if packetErr != nil {",
   "rollappPacket.Error = packetErr.Error()",
   "}",
   "_, err := k.UpdateRollappPacketAfterFinalization(ctx, rollappPacket)",
   "if err != nil {",
   "return fmt.Errorf(err)",
   "}",
   "return nil"] := rfl

/-- `Keeper.writeRecvAck` (x/delayedack/keeper) as mirrored by the model -/
theorem writeRecvAck_skeleton : Gen.Packets.writeRecvAck =
  ["return func",
   "{",
   "_, chanCap, err = k.LookupModuleByChannel(ctx, rollappPacket.Packet.DestinationPort, rollappPacket.Packet.DestinationChannel)",
   "if err != nil {",
   "return",
   "}",
   "rollappPacket = rollappPacket.RestoreOriginalTransferTarget()",
   "return k.WriteAcknowledgement(ctx, chanCap, rollappPacket.Packet, ack)",
   "}"] := rfl

/-- `Keeper.onAckPacket` (x/delayedack/keeper) as mirrored by the model -/
theorem onAckPacket_skeleton : Gen.Packets.onAckPacket =
  ["return func",
   "{",
   "return ibc.OnAcknowledgementPacket(ctx, *rollappPacket.Packet, rollappPacket.Acknowledgement, rollappPacket.Relayer)",
   "}"] := rfl

/-- `Keeper.onTimeoutPacket` (x/delayedack/keeper) as mirrored by the model -/
theorem onTimeoutPacket_skeleton : Gen.Packets.onTimeoutPacket =
  ["return func",
   "{",
   "return ibc.OnTimeoutPacket(ctx, *rollappPacket.Packet, rollappPacket.Relayer)",
   "}"] := rfl

/-- `Keeper.VerifyHeightFinalized` (x/delayedack/keeper) as mirrored by the model -/
theorem verifyHeightFinalized_skeleton : Gen.Packets.verifyHeightFinalizedSk =
  ["latestFinalizedHeight, err := k.getRollappLatestFinalizedHeight(ctx, rollappID)",
   "if err != nil {",
   "return err",
   "}",
   "if height > latestFinalizedHeight {",
   "return wrap(gerrc.ErrInvalidArgument)",
   "}",
   "return nil"] := rfl

/-- `Keeper.getRollappLatestFinalizedHeight` (x/delayedack/keeper) as mirrored by the model -/
theorem getRollappLatestFinalizedHeight_skeleton : Gen.Packets.getRollappLatestFinalizedHeight =
  ["latestIndex, found := k.rollappKeeper.GetLatestFinalizedStateIndex(ctx, rollappID)",
   "if !found {",
   "return 0, wrap(gerrc.ErrNotFound)",
   "}",
   "stateInfo := k.rollappKeeper.MustGetStateInfo(ctx, rollappID, latestIndex.Index)",
   "return stateInfo.GetLatestHeight(), nil"] := rfl

/-- `Keeper.SetRollappPacket` (x/delayedack/keeper) as mirrored by the model -/
theorem setRollappPacket_skeleton : Gen.Packets.setRollappPacket =
  ["store := ctx.KVStore(k.storeKey)",
   "rollappPacketKey := rollappPacket.RollappPacketKey()",
   "b := k.cdc.MustMarshal(&rollappPacket)",
   "call store.Set(rollappPacketKey, b)"] := rfl

/-- `Keeper.SetPendingPacketByAddress` (x/delayedack/keeper) as mirrored by the model -/
theorem setPendingPacketByAddress_skeleton : Gen.Packets.setPendingPacketByAddress =
  ["return k.pendingPacketsByAddress.Set(ctx, collections.Join(receiver, rollappPacketKey))"] := rfl

/-- `Keeper.MustSetPendingPacketByAddress` (x/delayedack/keeper) as mirrored by the model -/
theorem mustSetPendingPacketByAddress_skeleton : Gen.Packets.mustSetPendingPacketByAddress =
  ["err := k.SetPendingPacketByAddress(ctx, receiver, rollappPacketKey)",
   "if err != nil {",
   "panic(err)",
   "}"] := rfl

/-- `Keeper.DeletePendingPacketByAddress` (x/delayedack/keeper) as mirrored by the model -/
theorem deletePendingPacketByAddress_skeleton : Gen.Packets.deletePendingPacketByAddress =
  ["return k.pendingPacketsByAddress.Remove(ctx, collections.Join(receiver, rollappPacketKey))"] := rfl

/-- `Keeper.MustDeletePendingPacketByAddress` (x/delayedack/keeper) as mirrored by the model -/
theorem mustDeletePendingPacketByAddress_skeleton : Gen.Packets.mustDeletePendingPacketByAddress =
  ["err := k.DeletePendingPacketByAddress(ctx, receiver, rollappPacketKey)",
   "if err != nil {",
   "panic(err)",
   "}"] := rfl

/-- `Keeper.GetPendingPacketsByAddress` (x/delayedack/keeper) as mirrored by the model -/
theorem getPendingPacketsByAddress_skeleton : Gen.Packets.getPendingPacketsByAddress =
  ["rng := collections.NewPrefixedPairRange[string, []byte](receiver)",
   "err := k.pendingPacketsByAddress.Walk(ctx, rng, func)",
   "{",
   "packet, err := k.GetRollappPacket(ctx, string(key.K2()))",
   "if err != nil {",
   "return true, err",
   "}",
   "packets = append(packets, *packet)",
   "return false, nil",
   "}",
   "if err != nil {",
   "return nil, err",
   "}",
   "return packets, nil"] := rfl

/-- `Keeper.GetRollappPacket` (x/delayedack/keeper) as mirrored by the model -/
theorem getRollappPacket_skeleton : Gen.Packets.getRollappPacket =
  ["store := ctx.KVStore(k.storeKey)",
   "b := store.Get([]byte(rollappPacketKey))",
   "if b == nil {",
   "return nil, types.ErrRollappPacketDoesNotExist",
   "}",
   "if err := k.cdc.Unmarshal(b, &rollappPacket); err != nil {",
   "return nil, err",
   "}",
   "return &rollappPacket, nil"] := rfl

/-- `Keeper.UpdateRollappPacketTransferAddress` (x/delayedack/keeper) as mirrored by the model -/
theorem updateRollappPacketTransferAddress_skeleton : Gen.Packets.updateRollappPacketTransferAddress =
  ["rollappPacket, err := k.GetRollappPacket(ctx, rollappPacketKey)",
   "if err != nil {",
   "return err",
   "}",
   "if rollappPacket.Status != commontypes.Status_PENDING {",
   "return types.ErrCanOnlyUpdatePendingPacket",
   "}",
   "transferPacketData, err := rollappPacket.GetTransferPacketData()",
   "if err != nil {",
   "return err",
   "}",
   "recipient := transferPacketData.Receiver",
   "sender := transferPacketData.Sender",
   "switch rollappPacket.Type {",
   "case commontypes.RollappPacket_ON_RECV:",
   "originalTransferTarget = recipient",
   "recipient = address",
   "case commontypes.RollappPacket_ON_ACK, commontypes.RollappPacket_ON_TIMEOUT:",
   "originalTransferTarget = sender",
   "sender = address",
   "}",
   "newPacketData := transfertypes.NewFungibleTokenPacketData(transferPacketData.Denom, transferPacketData.Amount, sender, recipient, transferPacketData.Memo)",
   "packet := rollappPacket.Packet",
   "packet.Data = newPacketData.GetBytes()",
   "rollappPacket.Packet = packet",
   "rollappPacket.OriginalTransferTarget = originalTransferTarget",
   "call k.MustDeletePendingPacketByAddress(ctx, originalTransferTarget, []byte(rollappPacketKey))",
   "call k.MustSetPendingPacketByAddress(ctx, address, rollappPacket.RollappPacketKey())",
   "call k.SetRollappPacket(ctx, *rollappPacket)",
   "return nil"] := rfl

/-- `Keeper.UpdateRollappPacketAfterFinalization` (x/delayedack/keeper) as mirrored by the model -/
theorem updateRollappPacketAfterFinalization_skeleton : Gen.Packets.updateRollappPacketAfterFinalization =
  ["if rollappPacket.Status != commontypes.Status_PENDING {",
   "return commontypes.RollappPacket{}, types.ErrCanOnlyUpdatePendingPacket",
   "}",
   "transferPacketData, err := rollappPacket.GetTransferPacketData()",
   "if err != nil {",
   "return commontypes.RollappPacket{}, err",
   "}",
   "oldKey := rollappPacket.RollappPacketKey()",
   "switch rollappPacket.Type {",
   "case commontypes.RollappPacket_ON_RECV:",
   "call k.MustDeletePendingPacketByAddress(ctx, transferPacketData.Receiver, oldKey)",
   "case commontypes.RollappPacket_ON_ACK, commontypes.RollappPacket_ON_TIMEOUT:",
   "call k.MustDeletePendingPacketByAddress(ctx, transferPacketData.Sender, oldKey)",
   "}",
   "store := ctx.KVStore(k.storeKey)",
   "call store.Delete(oldKey)",
   "rollappPacket.Status = commontypes.Status_FINALIZED",
   "call k.SetRollappPacket(ctx, rollappPacket)",
   "newKey := rollappPacket.RollappPacketKey()",
   "keeperHooks := k.GetHooks()",
   "err = keeperHooks.AfterPacketStatusUpdated(ctx, &rollappPacket, string(oldKey), string(newKey))",
   "if err != nil {",
   "return rollappPacket, err",
   "}",
   "return rollappPacket, nil"] := rfl

/-- `Keeper.ListRollappPackets` (x/delayedack/keeper) as mirrored by the model -/
theorem listRollappPackets_skeleton : Gen.Packets.listRollappPackets =
  ["store := ctx.KVStore(k.storeKey)",
   "withLimit := listFilter.Limit > 0",
   "label outer:",
   "range listFilter.Prefixes as _, pref {",
   "if len(pref.Start) == 0 {",
   "pref.Start = commontypes.AllRollappPacketKeyPrefix",
   "}",
   "if len(pref.End) == 0 {",
   "pref.End = storetypes.PrefixEndBytes(pref.Start)",
   "}",
   "iterator := store.Iterator(pref.Start, pref.End)",
   "for ; iterator.Valid(); iterator.Next() {",
   "call k.cdc.MustUnmarshal(iterator.Value(), &val)",
   "if !listFilter.FilterFunc(val) {",
   "continue",
   "}",
   "list = append(list, val)",
   "if withLimit && len(list) == listFilter.Limit {",
   "_ = iterator.Close()",
   "break outer",
   "}",
   "}",
   "_ = iterator.Close()",
   "}",
   "return list"] := rfl

/-- `Keeper.DeleteRollappPacket` (x/delayedack/keeper) as mirrored by the model -/
theorem deleteRollappPacket_skeleton : Gen.Packets.deleteRollappPacket =
  ["store := ctx.KVStore(k.storeKey)",
   "rollappPacketKey := rollappPacket.RollappPacketKey()",
   "call store.Delete(rollappPacketKey)",
   "pendingAddr := \"\"",
   "transfer := rollappPacket.MustGetTransferPacketData()",
   "switch rollappPacket.Type {",
   "case commontypes.RollappPacket_ON_RECV:",
   "pendingAddr = transfer.Receiver",
   "case commontypes.RollappPacket_ON_ACK, commontypes.RollappPacket_ON_TIMEOUT:",
   "pendingAddr = transfer.Sender",
   "}",
   "call k.MustDeletePendingPacketByAddress(ctx, pendingAddr, rollappPacket.RollappPacketKey())",
   "keeperHooks := k.GetHooks()",
   "call keeperHooks.AfterPacketDeleted(ctx, rollappPacket)"] := rfl

/-- `Keeper.OnHardFork` (x/delayedack/keeper) as mirrored by the model -/
theorem onHardFork_skeleton : Gen.Packets.onHardFork =
  ["rollappPendingPackets := k.ListRollappPackets(ctx, types.PendingByRollappIDFromHeight(rollappID, lastValidHeight + 1))",
   "range rollappPendingPackets as _, rollappPacket {",
   "if rollappPacket.Type == commontypes.RollappPacket_ON_ACK || rollappPacket.Type == commontypes.RollappPacket_ON_TIMEOUT {",
   "commitment := channeltypes.CommitPacket(k.cdc, rollappPacket.RestoreOriginalTransferTarget().Packet)",
   "call k.channelKeeper.SetPacketCommitment(ctx, rollappPacket.Packet.SourcePort, rollappPacket.Packet.SourceChannel, rollappPacket.Packet.Sequence, commitment)",
   "} else {",
   "ibcPacket := rollappPacket.Packet",
   "call k.deletePacketReceipt(ctx, ibcPacket.GetDestPort(), ibcPacket.GetDestChannel(), ibcPacket.GetSequence())",
   "}",
   "call k.DeleteRollappPacket(ctx, &rollappPacket)",
   "}",
   "return nil"] := rfl

/-- `Keeper.deletePacketReceipt` (x/delayedack/keeper) as mirrored by the model -/
theorem deletePacketReceipt_skeleton : Gen.Packets.deletePacketReceipt =
  ["store := ctx.KVStore(k.channelKeeperStoreKey)",
   "call store.Delete(host.PacketReceiptKey(portID, channelID, sequence))"] := rfl

/-- `eibcHooks.AfterDemandOrderFulfilled` (x/delayedack/keeper) as mirrored by the model -/
theorem afterDemandOrderFulfilled_skeleton : Gen.Packets.afterDemandOrderFulfilled =
  ["err := k.UpdateRollappPacketTransferAddress(ctx, demandOrder.TrackingPacketKey, receiverAddr)",
   "if err != nil {",
   "return err",
   "}",
   "return nil"] := rfl

/-- `epochHooks.AfterEpochEnd` (x/delayedack/keeper) as mirrored by the model -/
theorem afterEpochEnd_skeleton : Gen.Packets.afterEpochEnd =
  ["params := e.GetParams(ctx)",
   "if epochIdentifier != params.EpochIdentifier {",
   "return nil",
   "}",
   "listFilter := types.ByStatus(commontypes.Status_FINALIZED).Take(int(deletePacketsBatchSize))",
   "count := 0",
   "for toDeletePackets := e.ListRollappPackets(ctx, listFilter); len(toDeletePackets) > 0; toDeletePackets = e.ListRollappPackets(ctx, listFilter) {",
   "count += len(toDeletePackets)",
   "range toDeletePackets as _, packet {",
   "call e.DeleteRollappPacket(ctx, &packet)",
   "}",
   "if int32(count) >= params.DeletePacketsEpochLimit {",
   "break",
   "}",
   "}",
   "return nil"] := rfl

/-- `MsgServer.FinalizePacket` (x/delayedack/keeper) as mirrored by the model -/
theorem msgFinalizePacket_skeleton : Gen.Packets.msgFinalizePacket =
  ["err := msg.ValidateBasic()",
   "if err != nil {",
   "return nil, err",
   "}",
   "ctx := sdk.UnwrapSDKContext(goCtx)",
   "_, err = m.k.FinalizeRollappPacket(ctx, m.ibc.NextIBCMiddleware(), string(msg.PendingPacketKey()))",
   "if err != nil {",
   "return nil, err",
   "}",
   "if err != nil {",
   "return nil, fmt.Errorf(err)",
   "}",
   "return &types.MsgFinalizePacketResponse{}, nil"] := rfl

/-- `MsgServer.FinalizePacketByPacketKey` (x/delayedack/keeper) as mirrored by the model -/
theorem msgFinalizePacketByPacketKey_skeleton : Gen.Packets.msgFinalizePacketByPacketKey =
  ["err := msg.ValidateBasic()",
   "if err != nil {",
   "return nil, err",
   "}",
   "ctx := sdk.UnwrapSDKContext(goCtx)",
   "packetKey := string(msg.MustDecodePacketKey())",
   "packet, err := m.k.FinalizeRollappPacket(ctx, m.ibc.NextIBCMiddleware(), packetKey)",
   "if err != nil {",
   "return nil, err",
   "}",
   "if packet.Packet != nil {",
   "sourceChannel = packet.Packet.SourceChannel",
   "sequence = packet.Packet.Sequence",
   "}",
   "if err != nil {",
   "return nil, fmt.Errorf(err)",
   "}",
   "return &types.MsgFinalizePacketByPacketKeyResponse{}, nil"] := rfl

/-- `MsgFinalizePacket.ValidateBasic` (x/delayedack/types/msgs.go) as mirrored by the model -/
theorem vbFinalizePacket_skeleton : Gen.Packets.vbFinalizePacket =
  ["_, err := sdk.AccAddressFromBech32(m.Sender)",
   "if err != nil {",
   "return errors.Join(sdkerrors.ErrInvalidAddress, wrap(err))",
   "}",
   "if len(m.RollappId) == 0 {",
   "return wrap(gerrc.ErrInvalidArgument)",
   "}",
   "if len(m.PacketSrcChannel) == 0 {",
   "return wrap(gerrc.ErrInvalidArgument)",
   "}",
   "return nil"] := rfl

/-- `MsgFinalizePacketByPacketKey.ValidateBasic` (x/delayedack/types/msgs.go) as mirrored by the model -/
theorem vbFinalizePacketByPacketKey_skeleton : Gen.Packets.vbFinalizePacketByPacketKey =
  ["_, err := sdk.AccAddressFromBech32(m.Sender)",
   "if err != nil {",
   "return errors.Join(sdkerrors.ErrInvalidAddress, wrap(err))",
   "}",
   "if len(m.PacketKey) == 0 {",
   "return wrap(gerrc.ErrInvalidArgument)",
   "}",
   "if _, err := commontypes.DecodePacketKey(m.PacketKey); err != nil {",
   "return wrap(gerrc.ErrInvalidArgument)",
   "}",
   "return nil"] := rfl

/-- `MsgFinalizePacket.PendingPacketKey` (x/delayedack/types/msgs.go) as mirrored by the model -/
theorem pendingPacketKey_skeleton : Gen.Packets.pendingPacketKey =
  ["return commontypes.RollappPacketKey(commontypes.Status_PENDING, m.RollappId, m.PacketProofHeight, m.PacketType, m.PacketSrcChannel, m.PacketSequence)"] := rfl

/-- `RollappPacket.GetTransferPacketData` (x/common/types) as mirrored by the model -/
theorem getTransferPacketData_skeleton : Gen.Packets.getTransferPacketData =
  ["if err := transfertypes.ModuleCdc.UnmarshalJSON(r.Packet.GetData(), &data); err != nil {",
   "return transfertypes.FungibleTokenPacketData{}, err",
   "}",
   "return data, nil"] := rfl

/-- `RollappPacket.RestoreOriginalTransferTarget` (x/common/types) as mirrored by the model -/
theorem restoreOriginalTransferTarget_skeleton : Gen.Packets.restoreOriginalTransferTarget =
  ["transferPacketData := r.MustGetTransferPacketData()",
   "if r.OriginalTransferTarget != \"\" {",
   "switch r.Type {",
   "case RollappPacket_ON_RECV:",
   "transferPacketData.Receiver = r.OriginalTransferTarget",
   "case RollappPacket_ON_ACK, RollappPacket_ON_TIMEOUT:",
   "transferPacketData.Sender = r.OriginalTransferTarget",
   "}",
   "packet := *r.Packet",
   "packet.Data = transferPacketData.GetBytes()",
   "r.Packet = &packet",
   "}",
   "return r"] := rfl

/-- `IBCProofHeightDecorator.AnteHandle` (x/common/types) as mirrored by the model -/
theorem proofHeightAnte_skeleton : Gen.Packets.proofHeightAnte =
  ["range tx.GetMsgs() as _, m {",
   "switch msg := m.(type) {",
   "case *channeltypes.MsgRecvPacket:",
   "height = msg.ProofHeight",
   "packetId = NewPacketUID(RollappPacket_ON_RECV, msg.Packet.DestinationPort, msg.Packet.DestinationChannel, msg.Packet.Sequence)",
   "case *channeltypes.MsgAcknowledgement:",
   "height = msg.ProofHeight",
   "packetId = NewPacketUID(RollappPacket_ON_ACK, msg.Packet.SourcePort, msg.Packet.SourceChannel, msg.Packet.Sequence)",
   "case *channeltypes.MsgTimeout:",
   "height = msg.ProofHeight",
   "packetId = NewPacketUID(RollappPacket_ON_TIMEOUT, msg.Packet.SourcePort, msg.Packet.SourceChannel, msg.Packet.Sequence)",
   "default:",
   "continue",
   "}",
   "ctx = CtxWithPacketProofHeight(ctx, packetId, height)",
   "}",
   "return next(ctx, tx, simulate)"] := rfl

/-- `PacketHubPortChan` (x/common/types) as mirrored by the model -/
theorem packetHubPortChan_skeleton : Gen.Packets.packetHubPortChan =
  ["switch packetType {",
   "case RollappPacket_ON_RECV:",
   "port, channel = packet.GetDestPort(), packet.GetDestChannel()",
   "case RollappPacket_ON_TIMEOUT, RollappPacket_ON_ACK:",
   "port, channel = packet.GetSourcePort(), packet.GetSourceChannel()",
   "}",
   "return port, channel"] := rfl

/-- `UnpackPacketProofHeight` (x/common/types) as mirrored by the model -/
theorem unpackPacketProofHeight_skeleton : Gen.Packets.unpackPacketProofHeight =
  ["port, channel := PacketHubPortChan(packetType, packet)",
   "packetID := NewPacketUID(packetType, port, channel, packet.Sequence)",
   "height, ok := PacketProofHeightFromCtx(ctx, packetID)",
   "if !ok {",
   "return 0, wrap(gerrc.ErrInternal)",
   "}",
   "return height.RevisionHeight, nil"] := rfl

/-- `CtxWithPacketProofHeight` (x/common/types) as mirrored by the model -/
theorem ctxWithPacketProofHeight_skeleton : Gen.Packets.ctxWithPacketProofHeight =
  ["key := fmt.Sprintf(\"%s_%s\", proofHeightCtxKey, packetId.String())",
   "return ctx.WithValue(key, height)"] := rfl

/-- `PacketProofHeightFromCtx` (x/common/types) as mirrored by the model -/
theorem packetProofHeightFromCtx_skeleton : Gen.Packets.packetProofHeightFromCtx =
  ["key := fmt.Sprintf(\"%s_%s\", proofHeightCtxKey, packetId.String())",
   "u, ok := ctx.Value(key).(ibctypes.Height)",
   "return u, ok"] := rfl

/-- `NewPacketUID` (x/common/types) as mirrored by the model -/
theorem newPacketUID_skeleton : Gen.Packets.newPacketUID =
  ["return PacketUID{Type: packetType, RollappHubPort: hubPort, RollappHubChannel: hubChannel, Sequence: sequence}"] := rfl

/-- `PacketUID.String` (x/common/types) as mirrored by the model -/
theorem packetUIDString_skeleton : Gen.Packets.packetUIDString =
  ["return fmt.Sprintf(\"%s-%s-%s-%d\", p.Type, p.RollappHubChannel, p.RollappHubPort, p.Sequence)"] := rfl

/-- `Keeper.GetValidTransfer` (x/rollapp/keeper/authenticate_packet.go) as mirrored by the model -/
theorem getValidTransfer_skeleton : Gen.Packets.getValidTransfer =
  ["if err = transfertypes.ModuleCdc.UnmarshalJSON(packetData, &data.FungibleTokenPacketData); err != nil {",
   "err = wrap(err)",
   "return",
   "}",
   "if err = data.ValidateBasic(); err != nil {",
   "err = wrap(err)",
   "return",
   "}",
   "ra, err := k.GetRollappByPortChan(ctx, raPortOnHub, raChanOnHub)",
   "if errorsmod.IsOf(err, types.ErrRollappNotFound) {",
   "err = nil",
   "return",
   "}",
   "if err != nil {",
   "err = wrap(err)",
   "return",
   "}",
   "data.Rollapp = ra",
   "return"] := rfl

/-- `Keeper.GetRollappByPortChan` (x/rollapp/keeper/authenticate_packet.go) as mirrored by the model -/
theorem getRollappByPortChan_skeleton : Gen.Packets.getRollappByPortChan =
  ["clientID, _, err := k.channelKeeper.GetChannelClientState(ctx, raPortOnHub, raChanOnHub)",
   "if err != nil {",
   "return nil, wrap(err)",
   "}",
   "chainID, ok := k.canonicalClientKeeper.GetRollappForClientID(ctx, clientID)",
   "if !ok {",
   "return nil, wrap(types.ErrRollappNotFound)",
   "}",
   "rollapp, ok := k.GetRollapp(ctx, chainID)",
   "if !ok {",
   "return nil, wrap(gerrc.ErrInternal)",
   "}",
   "if rollapp.ChannelId == \"\" {",
   "return nil, wrap(gerrc.ErrInternal)",
   "}",
   "if rollapp.ChannelId != raChanOnHub {",
   "return nil, wrap(gerrc.ErrInvalidArgument)",
   "}",
   "return &rollapp, nil"] := rfl

/-- `AppKeepers.InitTransferStack` (app/transfer_stack.go) as mirrored by the model -/
theorem initTransferStack_skeleton : Gen.Packets.initTransferStack =
  ["a.TransferStack = ibctransfer.NewIBCModule(a.TransferKeeper)",
   "a.TransferStack = bridgingfee.NewIBCModule(a.TransferStack.(ibctransfer.IBCModule), *a.RollappKeeper, a.DelayedAckKeeper, a.TransferKeeper, *a.TxFeesKeeper)",
   "a.TransferStack = packetforwardmiddleware.NewIBCMiddleware(a.TransferStack, a.PacketForwardMiddlewareKeeper, 0, packetforwardkeeper.DefaultForwardTransferPacketTimeoutTimestamp)",
   "a.TransferStack = denommetadatamodule.NewIBCModule(a.TransferStack, a.DenomMetadataKeeper, a.RollappKeeper)",
   "call a.DelayedAckMiddleware.Setup(delayedackmodule.WithIBCModule(a.TransferStack), delayedackmodule.WithKeeper(a.DelayedAckKeeper), delayedackmodule.WithRollappKeeper(a.RollappKeeper), delayedackmodule.WithForwardKeeper(a.PacketForwardMiddlewareKeeper))",
   "a.TransferStack = a.DelayedAckMiddleware",
   "a.TransferStack = genesisbridge.NewIBCModule(a.TransferStack, a.RollappKeeper, a.TransferKeeper, a.DenomMetadataKeeper)",
   "ibcRouter := ibcporttypes.NewRouter()",
   "call ibcRouter.AddRoute(ibctransfertypes.ModuleName, a.TransferStack)",
   "call a.IBCKeeper.SetRouter(ibcRouter)"] := rfl

/-- `Keeper.HardFork` (x/rollapp/keeper/hard_fork.go) as mirrored by the model -/
theorem rollappHardFork_skeleton : Gen.Packets.rollappHardFork =
  ["rollapp, found := k.GetRollapp(ctx, rollappID)",
   "if !found {",
   "return gerrc.ErrNotFound",
   "}",
   "if !k.ForkAllowed(ctx, rollappID, lastValidHeight) {",
   "return wrap(gerrc.ErrFailedPrecondition)",
   "}",
   "lastValidHeight, err := k.RevertPendingStates(ctx, rollappID, lastValidHeight + 1)",
   "if err != nil {",
   "return wrap(err)",
   "}",
   "newRevisionHeight := lastValidHeight + 1",
   "call rollapp.BumpRevision(newRevisionHeight)",
   "call k.ResetLivenessClock(ctx, &rollapp)",
   "call k.SetRollapp(ctx, rollapp)",
   "err = k.hooks.OnHardFork(ctx, rollappID, lastValidHeight)",
   "if err != nil {",
   "return wrap(err)",
   "}",
   "return nil"] := rfl

/-- `IBCModule.OnRecvPacket` (x/bridgingfee/ibc_module.go) as mirrored by the model -/
theorem bridgingFeeOnRecvPacket_skeleton : Gen.Packets.bridgingFeeOnRecvPacket =
  ["transfer, err := w.rollappKeeper.GetValidTransfer(ctx, packet.GetData(), packet.GetDestPort(), packet.GetDestChannel())",
   "if err != nil {",
   "err = wrap(err)",
   "return uevent.NewErrorAcknowledgement(ctx, err)",
   "}",
   "if !transfer.IsRollapp() {",
   "return w.IBCModule.OnRecvPacket(ctx, packet, relayer)",
   "}",
   "ack := w.IBCModule.OnRecvPacket(ctx, packet, relayer)",
   "if !ack.Success() {",
   "return ack",
   "}",
   "receiver := sdk.MustAccAddressFromBech32(transfer.Receiver)",
   "feeAmt := w.delayedAckKeeper.BridgingFeeFromAmt(ctx, transfer.MustAmountInt())",
   "denom := denomutils.GetIncomingTransferDenom(packet, transfer.FungibleTokenPacketData)",
   "feeCoin := sdk.NewCoin(denom, feeAmt)",
   "err = osmoutils.ApplyFuncIfNoError(ctx, func)",
   "{",
   "return w.txFeesKeeper.ChargeFeesFromPayer(ctx, receiver, feeCoin, nil)",
   "}",
   "if err != nil {",
   "}",
   "return ack"] := rfl

/-- `msgServer.FulfillOrder` (x/eibc/keeper) as mirrored by the model -/
theorem msgFulfillOrder_skeleton : Gen.Packets.msgFulfillOrder =
  ["ctx := sdk.UnwrapSDKContext(goCtx)",
   "err := msg.ValidateBasic()",
   "if err != nil {",
   "return nil, err",
   "}",
   "demandOrder, err := m.GetOutstandingOrder(ctx, msg.OrderId)",
   "if err != nil {",
   "return nil, err",
   "}",
   "expectedFee, _ := math.NewIntFromString(msg.ExpectedFee)",
   "orderFee := demandOrder.GetFeeAmount()",
   "if !orderFee.Equal(expectedFee) {",
   "return nil, types.ErrExpectedFeeNotMet",
   "}",
   "err = m.Fulfill(ctx, demandOrder, msg.GetFulfillerBech32Address())",
   "if err != nil {",
   "return nil, err",
   "}",
   "return &types.MsgFulfillOrderResponse{}, nil"] := rfl

/-- `msgServer.FulfillOrderAuthorized` (x/eibc/keeper) as mirrored by the model -/
theorem msgFulfillOrderAuthorized_skeleton : Gen.Packets.msgFulfillOrderAuthorized =
  ["ctx := sdk.UnwrapSDKContext(goCtx)",
   "err := msg.ValidateBasic()",
   "if err != nil {",
   "return nil, err",
   "}",
   "demandOrder, err := m.GetOutstandingOrder(ctx, msg.OrderId)",
   "if err != nil {",
   "return nil, err",
   "}",
   "if err := m.validateOrder(demandOrder, msg, ctx); err != nil {",
   "return nil, wrap(sdkerrors.ErrUnauthorized)",
   "}",
   "lpAccount := m.ak.GetAccount(ctx, msg.GetLPBech32Address())",
   "if lpAccount == nil {",
   "return nil, types.ErrLPAccountDoesNotExist",
   "}",
   "err = m.bk.SendCoins(ctx, lpAccount.GetAddress(), demandOrder.GetRecipientBech32Address(), demandOrder.Price)",
   "if err != nil {",
   "return nil, err",
   "}",
   "operatorAccount := m.ak.GetAccount(ctx, msg.GetOperatorFeeBech32Address())",
   "if operatorAccount == nil {",
   "return nil, types.ErrOperatorFeeAccountDoesNotExist",
   "}",
   "fee := math.LegacyNewDecFromInt(demandOrder.GetFeeAmount())",
   "operatorFee := fee.MulTruncate(msg.OperatorFeeShare).TruncateInt()",
   "if operatorFee.IsPositive() {",
   "err = m.bk.SendCoins(ctx, lpAccount.GetAddress(), operatorAccount.GetAddress(), sdk.NewCoins(sdk.NewCoin(demandOrder.Price[0].Denom, operatorFee)))",
   "if err != nil {",
   "return nil, err",
   "}",
   "}",
   "if err = m.Keeper.SetOrderFulfilled(ctx, demandOrder, operatorAccount.GetAddress(), lpAccount.GetAddress()); err != nil {",
   "return nil, err",
   "}",
   "return &types.MsgFulfillOrderAuthorizedResponse{}, nil"] := rfl

/-- `msgServer.validateOrder` (x/eibc/keeper) as mirrored by the model -/
theorem validateOrder_skeleton : Gen.Packets.validateOrderSk =
  ["if demandOrder.RollappId != msg.RollappId {",
   "return types.ErrRollappIdMismatch",
   "}",
   "if !demandOrder.Price.Equal(msg.Price) {",
   "return types.ErrPriceMismatch",
   "}",
   "expectedFee, _ := math.NewIntFromString(msg.ExpectedFee)",
   "orderFee := demandOrder.GetFeeAmount()",
   "if !orderFee.Equal(expectedFee) {",
   "return types.ErrExpectedFeeNotMet",
   "}",
   "if msg.SettlementValidated {",
   "validated, err := m.checkIfSettlementValidated(ctx, demandOrder)",
   "if err != nil {",
   "return fmt.Errorf(err)",
   "}",
   "if !validated {",
   "return types.ErrOrderNotSettlementValidated",
   "}",
   "}",
   "return nil"] := rfl

/-- `msgServer.checkIfSettlementValidated` (x/eibc/keeper) as mirrored by the model -/
theorem checkIfSettlementValidated_skeleton : Gen.Packets.checkIfSettlementValidated =
  ["raPacket, err := m.dack.GetRollappPacket(ctx, demandOrder.TrackingPacketKey)",
   "if err != nil {",
   "return false, fmt.Errorf(err)",
   "}",
   "stateInfo, ok := m.rk.GetLatestStateInfo(ctx, demandOrder.RollappId)",
   "if !ok {",
   "return false, types.ErrRollappStateInfoNotFound",
   "}",
   "lastHeight := stateInfo.GetLatestHeight()",
   "return raPacket.ProofHeight <= lastHeight, nil"] := rfl

/-- `msgServer.UpdateDemandOrder` (x/eibc/keeper) as mirrored by the model -/
theorem msgUpdateDemandOrder_skeleton : Gen.Packets.msgUpdateDemandOrder =
  ["ctx := sdk.UnwrapSDKContext(goCtx)",
   "err := msg.ValidateBasic()",
   "if err != nil {",
   "return nil, err",
   "}",
   "demandOrder, err := m.GetOutstandingOrder(ctx, msg.OrderId)",
   "if err != nil {",
   "return nil, err",
   "}",
   "orderOwner := demandOrder.GetRecipientBech32Address()",
   "msgSigner := msg.GetSignerAddr()",
   "if !msgSigner.Equals(orderOwner) {",
   "return nil, wrap(sdkerrors.ErrUnauthorized)",
   "}",
   "raPacket, err := m.dack.GetRollappPacket(ctx, demandOrder.TrackingPacketKey)",
   "if err != nil {",
   "return nil, err",
   "}",
   "if err := transfertypes.ModuleCdc.UnmarshalJSON(raPacket.GetPacket().GetData(), &data); err != nil {",
   "return nil, err",
   "}",
   "bridgingFeeMultiplier := m.dack.BridgingFee(ctx)",
   "raPacketType := raPacket.GetType()",
   "if raPacketType != commontypes.RollappPacket_ON_RECV {",
   "bridgingFeeMultiplier = math.LegacyZeroDec()",
   "}",
   "newFeeInt, _ := math.NewIntFromString(msg.NewFee)",
   "transferTotal, _ := math.NewIntFromString(data.Amount)",
   "newPrice, err := types.CalcPriceWithBridgingFee(transferTotal, newFeeInt, bridgingFeeMultiplier)",
   "if err != nil {",
   "return nil, err",
   "}",
   "denom := demandOrder.Price[0].Denom",
   "demandOrder.Fee = sdk.NewCoins(sdk.NewCoin(denom, newFeeInt))",
   "demandOrder.Price = sdk.NewCoins(sdk.NewCoin(denom, newPrice))",
   "if err = m.SetDemandOrder(ctx, demandOrder); err != nil {",
   "return nil, err",
   "}",
   "return &types.MsgUpdateDemandOrderResponse{}, nil"] := rfl

/-- `msgServer.TryFulfillOnDemand` (x/eibc/keeper) as mirrored by the model -/
theorem msgTryFulfillOnDemand_skeleton : Gen.Packets.msgTryFulfillOnDemand =
  ["ctx := sdk.UnwrapSDKContext(goCtx)",
   "err := msg.ValidateBasic()",
   "if err != nil {",
   "return nil, wrap(err)",
   "}",
   "return &types.MsgTryFulfillOnDemandResponse{}, m.Keeper.FulfillByOnDemandLP(ctx, msg.OrderId, msg.Rng)"] := rfl

/-- `msgServer.CreateOnDemandLP` (x/eibc/keeper) as mirrored by the model -/
theorem msgCreateOnDemandLP_skeleton : Gen.Packets.msgCreateOnDemandLP =
  ["ctx := sdk.UnwrapSDKContext(goCtx)",
   "err := msg.ValidateBasic()",
   "if err != nil {",
   "return nil, wrap(err)",
   "}",
   "id, err := m.Keeper.CreateLP(ctx, msg.Lp)",
   "if err != nil {",
   "return nil, wrap(err)",
   "}",
   "return &types.MsgCreateOnDemandLPResponse{Id: id}, nil"] := rfl

/-- `msgServer.DeleteOnDemandLP` (x/eibc/keeper) as mirrored by the model -/
theorem msgDeleteOnDemandLP_skeleton : Gen.Packets.msgDeleteOnDemandLP =
  ["ctx := sdk.UnwrapSDKContext(goCtx)",
   "err := msg.ValidateBasic()",
   "if err != nil {",
   "return nil, wrap(err)",
   "}",
   "range msg.Ids as _, id {",
   "err := m.Keeper.DeleteLP(ctx, msg.MustAcc(), id, \"user request\")",
   "if err != nil {",
   "return nil, wrap(err)",
   "}",
   "}",
   "return &types.MsgDeleteOnDemandLPResponse{}, nil"] := rfl

/-- `Keeper.SetDemandOrder` (x/eibc/keeper) as mirrored by the model -/
theorem setDemandOrder_skeleton : Gen.Packets.setDemandOrder =
  ["store := ctx.KVStore(k.storeKey)",
   "demandOrderKey, err := types.GetDemandOrderKey(order.TrackingPacketStatus, order.Id)",
   "if err != nil {",
   "return err",
   "}",
   "data, err := k.cdc.Marshal(order)",
   "if err != nil {",
   "return err",
   "}",
   "call store.Set(demandOrderKey, data)",
   "return nil"] := rfl

/-- `Keeper.deleteDemandOrder` (x/eibc/keeper) as mirrored by the model -/
theorem deleteDemandOrder_skeleton : Gen.Packets.deleteDemandOrder =
  ["store := ctx.KVStore(k.storeKey)",
   "demandOrderKey, _ := types.GetDemandOrderKey(status, orderID)",
   "call store.Delete(demandOrderKey)"] := rfl

/-- `Keeper.UpdateDemandOrderWithStatus` (x/eibc/keeper) as mirrored by the model -/
theorem updateDemandOrderWithStatus_skeleton : Gen.Packets.updateDemandOrderWithStatus =
  ["call k.deleteDemandOrder(ctx, demandOrder.TrackingPacketStatus, demandOrder.Id)",
   "demandOrder.TrackingPacketStatus = newStatus",
   "err := k.SetDemandOrder(ctx, demandOrder)",
   "if err != nil {",
   "return nil, err",
   "}",
   "return demandOrder, nil"] := rfl

/-- `Keeper.SetOrderFulfilled` (x/eibc/keeper) as mirrored by the model -/
theorem setOrderFulfilled_skeleton : Gen.Packets.setOrderFulfilled =
  ["order.FulfillerAddress = fulfillerAddress.String()",
   "err := k.SetDemandOrder(ctx, order)",
   "if err != nil {",
   "return err",
   "}",
   "receiverAddress := fulfillerAddress",
   "if collectorAddress != nil {",
   "receiverAddress = collectorAddress",
   "}",
   "err = k.hooks.AfterDemandOrderFulfilled(ctx, order, receiverAddress.String())",
   "if err != nil {",
   "return err",
   "}",
   "return nil"] := rfl

/-- `Keeper.GetDemandOrder` (x/eibc/keeper) as mirrored by the model -/
theorem getDemandOrder_skeleton : Gen.Packets.getDemandOrder =
  ["store := ctx.KVStore(k.storeKey)",
   "demandOrderKey, err := types.GetDemandOrderKey(status, id)",
   "if err != nil {",
   "return nil, err",
   "}",
   "bz := store.Get(demandOrderKey)",
   "if bz == nil {",
   "return nil, types.ErrDemandOrderDoesNotExist",
   "}",
   "err = k.cdc.Unmarshal(bz, &order)",
   "if err != nil {",
   "return nil, err",
   "}",
   "return &order, nil"] := rfl

/-- `Keeper.GetOutstandingOrder` (x/eibc/keeper) as mirrored by the model -/
theorem getOutstandingOrder_skeleton : Gen.Packets.getOutstandingOrder =
  ["demandOrder, err := k.GetDemandOrder(ctx, commontypes.Status_PENDING, orderId)",
   "if err != nil {",
   "return nil, err",
   "}",
   "packet, err := k.dack.GetRollappPacket(ctx, demandOrder.TrackingPacketKey)",
   "if err != nil {",
   "return nil, err",
   "}",
   "if err = k.dack.VerifyHeightFinalized(ctx, demandOrder.RollappId, packet.ProofHeight); err == nil {",
   "return nil, types.ErrDemandOrderInactive",
   "}",
   "return demandOrder, demandOrder.ValidateOrderIsOutstanding()"] := rfl

/-- `Keeper.Fulfill` (x/eibc/keeper) as mirrored by the model -/
theorem fulfill_skeleton : Gen.Packets.fulfill =
  ["fulfillerAccount := k.ak.GetAccount(ctx, fulfiller)",
   "if fulfillerAccount == nil {",
   "return types.ErrFulfillerAddressDoesNotExist",
   "}",
   "err := k.bk.SendCoins(ctx, fulfiller, o.GetRecipientBech32Address(), o.Price)",
   "if err != nil {",
   "return wrap(err)",
   "}",
   "if err = k.SetOrderFulfilled(ctx, o, fulfiller, nil); err != nil {",
   "return wrap(err)",
   "}",
   "return nil"] := rfl

/-- `Keeper.EIBCDemandOrderHandler` (x/eibc/keeper) as mirrored by the model -/
theorem eibcDemandOrderHandler_skeleton : Gen.Packets.eibcDemandOrderHandler =
  ["if err := data.ValidateBasic(); err != nil {",
   "return err",
   "}",
   "if k.BlockedAddr(data.Receiver) {",
   "return types.ErrBlockedAddress",
   "}",
   "switch t := rollappPacket.Type; t {",
   "case commontypes.RollappPacket_ON_RECV:",
   "eibcDemandOrder, err = k.CreateDemandOrderOnRecv(ctx, data, &rollappPacket)",
   "case commontypes.RollappPacket_ON_TIMEOUT, commontypes.RollappPacket_ON_ACK:",
   "eibcDemandOrder, err = k.CreateDemandOrderOnErrAckOrTimeout(ctx, data, &rollappPacket)",
   "}",
   "if err != nil {",
   "return fmt.Errorf(err)",
   "}",
   "if eibcDemandOrder == nil {",
   "return nil",
   "}",
   "if err := eibcDemandOrder.Validate(); err != nil {",
   "return fmt.Errorf(err)",
   "}",
   "err = k.SetDemandOrder(ctx, eibcDemandOrder)",
   "if err != nil {",
   "return fmt.Errorf(err)",
   "}",
   "return nil"] := rfl

/-- `Keeper.CreateDemandOrderOnRecv` (x/eibc/keeper) as mirrored by the model -/
theorem createDemandOrderOnRecv_skeleton : Gen.Packets.createDemandOrderOnRecv =
  ["eibcMetaData := dacktypes.EIBCMetadata{Fee: \"0\"}",
   "if fungibleTokenPacketData.Memo != \"\" {",
   "packetMetaData, err := dacktypes.ParsePacketMetadata(fungibleTokenPacketData.Memo)",
   "if err == nil {",
   "eibcMetaData = *packetMetaData.EIBC",
   "} else if !errors.Is(err, dacktypes.ErrMemoEibcEmpty) {",
   "return nil, fmt.Errorf(err)",
   "}",
   "}",
   "if err := eibcMetaData.ValidateBasic(); err != nil {",
   "return nil, fmt.Errorf(err)",
   "}",
   "amt, _ := math.NewIntFromString(fungibleTokenPacketData.Amount)",
   "fee, _ := eibcMetaData.FeeInt()",
   "demandOrderPrice, err := types.CalcPriceWithBridgingFee(amt, fee, k.dack.BridgingFee(ctx))",
   "if err != nil {",
   "return nil, err",
   "}",
   "demandOrderDenom := denomutils.GetIncomingTransferDenom(*rollappPacket.Packet, fungibleTokenPacketData)",
   "demandOrderRecipient := fungibleTokenPacketData.Receiver",
   "creationHeight := uint64(ctx.BlockHeight())",
   "order := types.NewDemandOrder(*rollappPacket, demandOrderPrice, fee, demandOrderDenom, demandOrderRecipient, creationHeight)",
   "return order, nil"] := rfl

/-- `Keeper.CreateDemandOrderOnErrAckOrTimeout` (x/eibc/keeper) as mirrored by the model -/
theorem createDemandOrderOnErrAckOrTimeout_skeleton : Gen.Packets.createDemandOrderOnErrAckOrTimeout =
  ["amt, _ := math.NewIntFromString(fungibleTokenPacketData.Amount)",
   "switch rollappPacket.Type {",
   "case commontypes.RollappPacket_ON_TIMEOUT:",
   "feeMultiplier = k.TimeoutFee(ctx)",
   "case commontypes.RollappPacket_ON_ACK:",
   "feeMultiplier = k.ErrAckFee(ctx)",
   "}",
   "fee := feeMultiplier.MulInt(amt).TruncateInt()",
   "if !fee.IsPositive() {",
   "return nil, nil",
   "}",
   "demandOrderPrice := amt.Sub(fee)",
   "trace := transfertypes.ParseDenomTrace(fungibleTokenPacketData.Denom)",
   "demandOrderDenom := trace.IBCDenom()",
   "demandOrderRecipient := fungibleTokenPacketData.Sender",
   "creationHeight := uint64(ctx.BlockHeight())",
   "order := types.NewDemandOrder(*rollappPacket, demandOrderPrice, fee, demandOrderDenom, demandOrderRecipient, creationHeight)",
   "return order, nil"] := rfl

/-- `Keeper.BlockedAddr` (x/eibc/keeper) as mirrored by the model -/
theorem blockedAddr_skeleton : Gen.Packets.blockedAddr =
  ["account, err := sdk.AccAddressFromBech32(addr)",
   "if err != nil {",
   "return false",
   "}",
   "return k.bk.BlockedAddr(account)"] := rfl

/-- `delayedAckHooks.AfterPacketStatusUpdated` (x/eibc/keeper) as mirrored by the model -/
theorem afterPacketStatusUpdated_skeleton : Gen.Packets.afterPacketStatusUpdated =
  ["demandOrderID := types.BuildDemandIDFromPacketKey(oldPacketKey)",
   "demandOrder, err := d.GetDemandOrder(ctx, commontypes.Status_PENDING, demandOrderID)",
   "if err != nil {",
   "if errors.Is(err, types.ErrDemandOrderDoesNotExist) {",
   "return nil",
   "}",
   "return err",
   "}",
   "demandOrder.TrackingPacketKey = newPacketKey",
   "_, err = d.UpdateDemandOrderWithStatus(ctx, demandOrder, packet.Status)",
   "if err != nil {",
   "return err",
   "}",
   "return nil"] := rfl

/-- `delayedAckHooks.AfterPacketDeleted` (x/eibc/keeper) as mirrored by the model -/
theorem afterPacketDeleted_skeleton : Gen.Packets.afterPacketDeleted =
  ["rollappPacket.Status = commontypes.Status_PENDING",
   "packetKey := rollappPacket.RollappPacketKey()",
   "demandOrderID := types.BuildDemandIDFromPacketKey(string(packetKey))",
   "statuses := []commontypes.Status{commontypes.Status_PENDING, commontypes.Status_FINALIZED}",
   "range statuses as _, status {",
   "call d.deleteDemandOrder(ctx, status, demandOrderID)",
   "}"] := rfl

/-- `LPs.Create` (x/eibc/keeper) as mirrored by the model -/
theorem lpsCreate_skeleton : Gen.Packets.lpsCreate =
  ["id, err := s.nextID.Next(ctx)",
   "if err != nil {",
   "return 0, wrap(err)",
   "}",
   "if err := s.Set(ctx, types.OnDemandLPRecord{Id: id, Lp: lp, Spent: math.ZeroInt()}); err != nil {",
   "return 0, wrap(err)",
   "}",
   "return id, nil"] := rfl

/-- `LPs.Set` (x/eibc/keeper) as mirrored by the model -/
theorem lpsSet_skeleton : Gen.Packets.lpsSet =
  ["err := s.byID.Set(ctx, lp.Id, lp)",
   "if err != nil {",
   "return wrap(err)",
   "}",
   "err = s.byAddr.Set(ctx, collections.Join(lp.Lp.FundsAddr, lp.Id))",
   "if err != nil {",
   "return wrap(err)",
   "}",
   "err = s.byRollAppDenom.Set(ctx, collections.Join3(lp.Lp.Rollapp, lp.Lp.Denom, lp.Id))",
   "if err != nil {",
   "return wrap(err)",
   "}",
   "return nil"] := rfl

/-- `LPs.Get` (x/eibc/keeper) as mirrored by the model -/
theorem lpsGet_skeleton : Gen.Packets.lpsGet =
  ["ret, err := s.byID.Get(ctx, id)",
   "return &ret, err"] := rfl

/-- `LPs.Del` (x/eibc/keeper) as mirrored by the model -/
theorem lpsDel_skeleton : Gen.Packets.lpsDel =
  ["lp, err := s.byID.Get(ctx, id)",
   "if err != nil {",
   "return wrap(err)",
   "}",
   "err = s.byID.Remove(ctx, id)",
   "if err != nil {",
   "return wrap(err)",
   "}",
   "err = s.byRollAppDenom.Remove(ctx, collections.Join3(lp.Lp.Rollapp, lp.Lp.Denom, id))",
   "if err != nil {",
   "return wrap(err)",
   "}",
   "err = s.byAddr.Remove(ctx, collections.Join(lp.Lp.FundsAddr, lp.Id))",
   "if err != nil {",
   "return wrap(err)",
   "}",
   "return nil"] := rfl

/-- `LPs.GetOrderCompatibleLPs` (x/eibc/keeper) as mirrored by the model -/
theorem lpsGetOrderCompatibleLPs_skeleton : Gen.Packets.lpsGetOrderCompatibleLPs =
  ["rol := o.RollappId",
   "denom := o.Denom()",
   "ranger := collections.NewSuperPrefixedTripleRange[string, string, uint64](rol, denom)",
   "iter, err := s.byRollAppDenom.Iterate(ctx, ranger)",
   "if err != nil {",
   "return nil, err",
   "}",
   "defer iter.Close()",
   "for ; iter.Valid(); iter.Next() {",
   "key, err := iter.Key()",
   "if err != nil {",
   "return nil, err",
   "}",
   "id := key.K3()",
   "lpr, err := s.byID.Get(ctx, id)",
   "if err != nil {",
   "return nil, err",
   "}",
   "if lpr.Accepts(uint64(ctx.BlockHeight()), o) {",
   "compat = append(compat, lpr)",
   "}",
   "}",
   "return compat, nil"] := rfl

/-- `Keeper.FulfillByOnDemandLP` (x/eibc/keeper) as mirrored by the model -/
theorem fulfillByOnDemandLP_skeleton : Gen.Packets.fulfillByOnDemandLP =
  ["o, err := k.GetOutstandingOrder(ctx, order)",
   "if err != nil {",
   "return wrap(err)",
   "}",
   "lps, err := k.LPs.GetOrderCompatibleLPs(ctx, *o)",
   "if err != nil {",
   "return wrap(err)",
   "}",
   "r := rand.New(rand.NewSource(rng))",
   "call r.Shuffle(len(lps), func)",
   "{",
   "lps[i], lps[j] = lps[j], lps[i]",
   "}",
   "range lps as _, lp {",
   "err := k.Fulfill(ctx, o, lp.Lp.MustAddr())",
   "if err != nil {",
   "if errorsmod.IsOf(err, sdkerrors.ErrInsufficientFunds) {",
   "if err := k.LPs.Del(ctx, lp.Id, \"out of funds\"); err != nil {",
   "return wrap(err)",
   "}",
   "continue",
   "}",
   "return wrap(err)",
   "}",
   "lp.Spent = lp.Spent.Add(o.PriceAmount())",
   "if err = k.LPs.Set(ctx, lp); err != nil {",
   "return wrap(err)",
   "}",
   "return nil",
   "}",
   "return wrap(gerrc.ErrNotFound)"] := rfl

/-- `Keeper.CreateLP` (x/eibc/keeper) as mirrored by the model -/
theorem createLP_skeleton : Gen.Packets.createLP =
  ["return k.LPs.Create(ctx, lp)"] := rfl

/-- `Keeper.DeleteLP` (x/eibc/keeper) as mirrored by the model -/
theorem deleteLP_skeleton : Gen.Packets.deleteLP =
  ["lp, err := k.LPs.Get(ctx, id)",
   "if errors.Is(err, collections.ErrNotFound) {",
   "return nil",
   "}",
   "if err != nil {",
   "return wrap(err)",
   "}",
   "if !lp.Lp.MustAddr().Equals(owner) {",
   "return wrap(gerrc.ErrPermissionDenied)",
   "}",
   "return k.LPs.Del(ctx, id, reason)"] := rfl

/-- `NewDemandOrder` (x/eibc/types) as mirrored by the model -/
theorem newDemandOrder_skeleton : Gen.Packets.newDemandOrder =
  ["rollappPacketKey := rollappPacket.RollappPacketKey()",
   "return &DemandOrder{Id: BuildDemandIDFromPacketKey(string(rollappPacketKey)), TrackingPacketKey: string(rollappPacketKey), Price: sdk.NewCoins(sdk.NewCoin(denom, price)), Fee: sdk.NewCoins(sdk.NewCoin(denom, fee)), Recipient: recipient, TrackingPacketStatus: commontypes.Status_PENDING, RollappId: rollappPacket.RollappId, Type: rollappPacket.Type, CreationHeight: creationHeight}"] := rfl

/-- `DemandOrder.ValidateBasic` (x/eibc/types) as mirrored by the model -/
theorem demandOrderValidateBasic_skeleton : Gen.Packets.demandOrderValidateBasic =
  ["if len(m.Price) > 1 || len(m.Fee) > 1 {",
   "return ErrMultipleDenoms",
   "}",
   "if len(m.Price) == 0 {",
   "return ErrEmptyPrice",
   "}",
   "denom := m.Price[0].Denom",
   "if len(m.Fee) != 0 && m.Fee[0].Denom != denom {",
   "return ErrMultipleDenoms",
   "}",
   "if err := ibctransfertypes.ValidatePrefixedDenom(denom); err != nil {",
   "return err",
   "}",
   "if err := m.Price.Validate(); err != nil {",
   "return err",
   "}",
   "if err := m.Fee.Validate(); err != nil {",
   "return err",
   "}",
   "_, err := sdk.AccAddressFromBech32(m.Recipient)",
   "if err != nil {",
   "return errors.Join(ErrInvalidRecipientAddress, err)",
   "}",
   "if m.CreationHeight == 0 {",
   "return ErrInvalidCreationHeight",
   "}",
   "return nil"] := rfl

/-- `DemandOrder.Validate` (x/eibc/types) as mirrored by the model -/
theorem demandOrderValidate_skeleton : Gen.Packets.demandOrderValidate =
  ["if err := m.ValidateBasic(); err != nil {",
   "return err",
   "}",
   "return nil"] := rfl

/-- `DemandOrder.ValidateOrderIsOutstanding` (x/eibc/types) as mirrored by the model -/
theorem validateOrderIsOutstanding_skeleton : Gen.Packets.validateOrderIsOutstanding =
  ["if m.IsFulfilled() {",
   "return ErrDemandAlreadyFulfilled",
   "}",
   "if m.TrackingPacketStatus != commontypes.Status_PENDING {",
   "return ErrDemandOrderInactive",
   "}",
   "return nil"] := rfl

/-- `DemandOrder.IsFulfilled` (x/eibc/types) as mirrored by the model -/
theorem isFulfilled_skeleton : Gen.Packets.isFulfilled =
  ["return m.FulfillerAddress != \"\" || m.DeprecatedIsFulfilled"] := rfl

/-- `BuildDemandIDFromPacketKey` (x/eibc/types) as mirrored by the model -/
theorem buildDemandIDFromPacketKey_skeleton : Gen.Packets.buildDemandIDFromPacketKey =
  ["hash := sha256.Sum256([]byte(packetKey))",
   "hashString := hex.EncodeToString(hash[:])",
   "return hashString"] := rfl

/-- `FulfillOrderAuthorization.Accept` (x/eibc/types) as mirrored by the model -/
theorem authzAccept_skeleton : Gen.Packets.authzAccept =
  ["mFulfill, ok := msg.(*MsgFulfillOrderAuthorized)",
   "if !ok {",
   "return authz.AcceptResponse{}, wrap(errors.ErrInvalidType)",
   "}",
   "range a.Rollapps as i, _ {",
   "if a.Rollapps[i].RollappId == mFulfill.RollappId {",
   "matchedCriteria = a.Rollapps[i]",
   "break",
   "}",
   "}",
   "if matchedCriteria == nil {",
   "return authz.AcceptResponse{}, wrap(errors.ErrUnauthorized)",
   "}",
   "if matchedCriteria.SettlementValidated != mFulfill.SettlementValidated {",
   "return authz.AcceptResponse{}, wrap(errors.ErrUnauthorized)",
   "}",
   "if !matchedCriteria.OperatorFeeShare.Equal(mFulfill.OperatorFeeShare) {",
   "return authz.AcceptResponse{}, wrap(errors.ErrUnauthorized)",
   "}",
   "if len(matchedCriteria.Denoms) > 0 {",
   "range mFulfill.Price.Denoms() as _, orderDenom {",
   "if !slices.Contains(matchedCriteria.Denoms, orderDenom) {",
   "return authz.AcceptResponse{}, wrap(errors.ErrUnauthorized)",
   "}",
   "}",
   "}",
   "orderFee, ok := math.NewIntFromString(mFulfill.ExpectedFee)",
   "if !ok {",
   "return authz.AcceptResponse{}, wrap(errors.ErrInvalidCoins)",
   "}",
   "minFee := matchedCriteria.MinFeePercentage.MulInt(mFulfill.Amount).TruncateInt()",
   "if orderFee.LT(minFee) {",
   "return authz.AcceptResponse{}, wrap(errors.ErrUnauthorized)",
   "}",
   "if !matchedCriteria.MaxPrice.IsZero() {",
   "orderPrice := mFulfill.Price",
   "if exceedsMaxPrice(orderPrice, matchedCriteria.MaxPrice) {",
   "return authz.AcceptResponse{}, wrap(errors.ErrUnauthorized)",
   "}",
   "}",
   "if !matchedCriteria.SpendLimit.IsZero() {",
   "spendLeft, isNegative := matchedCriteria.SpendLimit.SafeSub(mFulfill.Price...)",
   "if isNegative {",
   "return authz.AcceptResponse{}, wrap(errors.ErrInsufficientFunds)",
   "}",
   "matchedCriteria.SpendLimit = spendLeft",
   "if spendLeft.IsZero() {",
   "call a.removeRollappCriteria(mFulfill.RollappId)",
   "}",
   "if len(a.Rollapps) == 0 {",
   "return authz.AcceptResponse{Accept: true, Delete: true}, nil",
   "}",
   "return authz.AcceptResponse{Accept: true, Delete: false, Updated: &a}, nil",
   "}",
   "return authz.AcceptResponse{Accept: true, Delete: false}, nil"] := rfl

/-- `FulfillOrderAuthorization.removeRollappCriteria` (x/eibc/types) as mirrored by the model -/
theorem authzRemoveRollappCriteria_skeleton : Gen.Packets.authzRemoveRollappCriteria =
  ["range a.Rollapps as i, criteria {",
   "if criteria.RollappId == rollappId {",
   "a.Rollapps = append(a.Rollapps[:i], a.Rollapps[i+1:]...)",
   "return",
   "}",
   "}"] := rfl

/-- `FulfillOrderAuthorization.ValidateBasic` (x/eibc/types) as mirrored by the model -/
theorem authzValidateBasic_skeleton : Gen.Packets.authzValidateBasic =
  ["rollappIDSet := make(map[string]struct{})",
   "range a.Rollapps as _, criteria {",
   "if err := validateRollappID(criteria.RollappId); err != nil {",
   "return wrap(errors.ErrInvalidRequest)",
   "}",
   "if _, exists := rollappIDSet[criteria.RollappId]; exists {",
   "return wrap(errors.ErrInvalidRequest)",
   "}",
   "rollappIDSet[criteria.RollappId] = struct{}{}",
   "if criteria.MinFeePercentage.IsNil() || criteria.MinFeePercentage.IsNegative() || criteria.MinFeePercentage.GT(math.LegacyOneDec()) {",
   "return wrap(errors.ErrInvalidRequest)",
   "}",
   "if criteria.OperatorFeeShare.IsNil() || criteria.OperatorFeeShare.IsNegative() || criteria.OperatorFeeShare.GT(math.LegacyOneDec()) {",
   "return wrap(errors.ErrInvalidRequest)",
   "}",
   "if criteria.MaxPrice != nil && !criteria.MaxPrice.IsValid() {",
   "return wrap(errors.ErrInvalidCoins)",
   "}",
   "if criteria.SpendLimit != nil && !criteria.SpendLimit.IsValid() {",
   "return wrap(errors.ErrInvalidCoins)",
   "}",
   "if hasDuplicates(criteria.Denoms) {",
   "return wrap(errors.ErrInvalidRequest)",
   "}",
   "}",
   "return nil"] := rfl

/-- `hasDuplicates` (x/eibc/types) as mirrored by the model -/
theorem hasDuplicates_skeleton : Gen.Packets.hasDuplicates =
  ["seen := make(map[string]bool)",
   "range list as _, v {",
   "if seen[v] {",
   "return true",
   "}",
   "seen[v] = true",
   "}",
   "return false"] := rfl

/-- `exceedsMaxPrice` (x/eibc/types) as mirrored by the model -/
theorem exceedsMaxPrice_skeleton : Gen.Packets.exceedsMaxPrice =
  ["range orderPrice as _, coin {",
   "maxCoin := maxPrice.AmountOf(coin.Denom)",
   "if !maxCoin.IsZero() && coin.Amount.GT(maxCoin) {",
   "return true",
   "}",
   "}",
   "return false"] := rfl

/-- `MsgFulfillOrder.ValidateBasic` (x/eibc/types) as mirrored by the model -/
theorem vbFulfillOrder_skeleton : Gen.Packets.vbFulfillOrder =
  ["err := validateCommon(msg.OrderId, msg.ExpectedFee, msg.FulfillerAddress)",
   "if err != nil {",
   "return wrap(sdkerrors.ErrInvalidRequest)",
   "}",
   "return nil"] := rfl

/-- `MsgFulfillOrderAuthorized.ValidateBasic` (x/eibc/types) as mirrored by the model -/
theorem vbFulfillOrderAuthorized_skeleton : Gen.Packets.vbFulfillOrderAuthorized =
  ["if err := validateRollappID(msg.RollappId); err != nil {",
   "return wrap(sdkerrors.ErrInvalidRequest)",
   "}",
   "if err := validateCommon(msg.OrderId, msg.ExpectedFee, msg.OperatorFeeAddress, msg.LpAddress); err != nil {",
   "return wrap(sdkerrors.ErrInvalidRequest)",
   "}",
   "if !msg.Price.IsValid() {",
   "return wrap(sdkerrors.ErrInvalidRequest)",
   "}",
   "if msg.Amount.IsNil() || !msg.Amount.IsPositive() {",
   "return wrap(sdkerrors.ErrInvalidRequest)",
   "}",
   "if msg.OperatorFeeShare.IsNil() || msg.OperatorFeeShare.IsNegative() {",
   "return wrap(sdkerrors.ErrInvalidRequest)",
   "}",
   "if msg.OperatorFeeShare.GT(math.LegacyOneDec()) {",
   "return wrap(sdkerrors.ErrInvalidRequest)",
   "}",
   "return nil"] := rfl

/-- `MsgUpdateDemandOrder.ValidateBasic` (x/eibc/types) as mirrored by the model -/
theorem vbUpdateDemandOrder_skeleton : Gen.Packets.vbUpdateDemandOrder =
  ["err := validateCommon(m.OrderId, m.NewFee, m.OwnerAddress)",
   "if err != nil {",
   "return wrap(sdkerrors.ErrInvalidRequest)",
   "}",
   "return nil"] := rfl

/-- `MsgTryFulfillOnDemand.ValidateBasic` (x/eibc/types) as mirrored by the model -/
theorem vbTryFulfillOnDemand_skeleton : Gen.Packets.vbTryFulfillOnDemand =
  ["_, err := sdk.AccAddressFromBech32(m.Signer)",
   "if err != nil {",
   "return err",
   "}",
   "if m.OrderId == \"\" {",
   "return wrap(gerrc.ErrInvalidArgument)",
   "}",
   "return nil"] := rfl

/-- `MsgCreateOnDemandLP.ValidateBasic` (x/eibc/types) as mirrored by the model -/
theorem vbCreateOnDemandLP_skeleton : Gen.Packets.vbCreateOnDemandLP =
  ["if m.Lp == nil {",
   "return wrap(gerrc.ErrInvalidArgument)",
   "}",
   "_, err := sdk.AccAddressFromBech32(m.Lp.FundsAddr)",
   "if err != nil {",
   "return err",
   "}",
   "return m.Lp.Validate()"] := rfl

/-- `MsgDeleteOnDemandLP.ValidateBasic` (x/eibc/types) as mirrored by the model -/
theorem vbDeleteOnDemandLP_skeleton : Gen.Packets.vbDeleteOnDemandLP =
  ["_, err := sdk.AccAddressFromBech32(m.Signer)",
   "return err"] := rfl

/-- `validateCommon` (x/eibc/types) as mirrored by the model -/
theorem validateCommon_skeleton : Gen.Packets.validateCommon =
  ["if !isValidOrderId(orderId) {",
   "return fmt.Errorf(ErrInvalidOrderID)",
   "}",
   "range address as _, addr {",
   "_, err := sdk.AccAddressFromBech32(addr)",
   "if err != nil {",
   "return err",
   "}",
   "}",
   "feeInt, ok := math.NewIntFromString(fee)",
   "if !ok {",
   "return wrap(sdkerrors.ErrInvalidRequest)",
   "}",
   "if feeInt.IsNegative() {",
   "return ErrNegativeFee",
   "}",
   "return nil"] := rfl

/-- `OnDemandLP.Validate` (x/eibc/types) as mirrored by the model -/
theorem onDemandLPValidate_skeleton : Gen.Packets.onDemandLPValidate =
  ["if _, err := d.Addr(); err != nil {",
   "return wrap(err)",
   "}",
   "if err := validateRollappID(d.Rollapp); err != nil {",
   "return wrap(err)",
   "}",
   "if sdk.ValidateDenom(d.Denom) != nil {",
   "return wrap(gerrc.ErrInvalidArgument)",
   "}",
   "if d.MaxPrice.IsNil() || !d.MaxPrice.IsPositive() {",
   "return wrap(gerrc.ErrInvalidArgument)",
   "}",
   "if d.MinFee.IsNil() || d.MinFee.IsNegative() {",
   "return wrap(gerrc.ErrInvalidArgument)",
   "}",
   "if d.SpendLimit.IsNil() || !d.SpendLimit.IsPositive() {",
   "return wrap(gerrc.ErrInvalidArgument)",
   "}",
   "return nil"] := rfl

/-- `OnDemandLPRecord.Validate` (x/eibc/types) as mirrored by the model -/
theorem onDemandLPRecordValidate_skeleton : Gen.Packets.onDemandLPRecordValidate =
  ["if r.Lp == nil {",
   "return wrap(gerrc.ErrInvalidArgument)",
   "}",
   "if err := r.Lp.Validate(); err != nil {",
   "return wrap(err)",
   "}",
   "if r.Spent.IsNegative() {",
   "return wrap(gerrc.ErrInvalidArgument)",
   "}",
   "if r.Spent.GT(r.Lp.SpendLimit) {",
   "return wrap(gerrc.ErrInvalidArgument)",
   "}",
   "return nil"] := rfl


end DymVerif.GenEq.Packets
