import DymVerif.Lemmas.LockupChain
/-
  Lemmas/LockupChainEmbed — M-Lockup's restart (Model/LockupChain) and C18's genesis model of
  x/lockup (Model/Genesis: `exportLockup`, `importLockup`) are the same functions on the lock section:
  under the encoding `embLock` of M-Lockup's lock record into C18's, export commutes with the
  encoding and so does import — for EVERY state and EVERY genesis list, no invariant needed.
  Core Lean only.
-/
namespace DymVerif.Lockup

/-! ### generic: sorting / store writes commute with an order-preserving re-encoding -/

theorem insertBy_map {α β : Type} (f : α → β) (lt : α → α → Bool) (lt' : β → β → Bool)
    (h : ∀ a b, lt' (f a) (f b) = lt a b) (x : α) (l : List α) :
    Genesis.insertBy lt' (f x) (l.map f) = (Genesis.insertBy lt x l).map f := by
  induction l with
  | nil => rfl
  | cons y ys ih =>
    simp only [List.map_cons, Genesis.insertBy, h]
    split
    · rw [ih]; rfl
    · rfl

theorem sortBy_map {α β : Type} (f : α → β) (lt : α → α → Bool) (lt' : β → β → Bool)
    (h : ∀ a b, lt' (f a) (f b) = lt a b) (l : List α) :
    Genesis.sortBy lt' (l.map f) = (Genesis.sortBy lt l).map f := by
  induction l with
  | nil => rfl
  | cons x xs ih =>
    simp only [Genesis.sortBy, List.map_cons, List.foldr_cons] at ih ⊢
    rw [ih, insertBy_map f lt lt' h]

theorem kvSet_map {κ α β : Type} (lt : κ → κ → Bool) (g : α → β) (k : κ) (v : α) (s : Genesis.KV κ α) :
    Genesis.kvSet lt k (g v) (s.map (fun e => (e.1, g e.2))) =
      (Genesis.kvSet lt k v s).map (fun e => (e.1, g e.2)) := by
  induction s with
  | nil => rfl
  | cons e rest ih =>
    simp only [List.map_cons, Genesis.kvSet]
    split
    · rfl
    · split
      · rw [ih]; rfl
      · rfl

theorem importVals_map {κ α β : Type} (lt : κ → κ → Bool) (g : α → β) (key : α → κ) (key' : β → κ)
    (hk : ∀ v, key' (g v) = key v) (vs : List α) :
    Genesis.importVals lt key' (vs.map g) = (Genesis.importVals lt key vs).map (fun e => (e.1, g e.2)) := by
  unfold Genesis.importVals Genesis.importWith
  suffices H : ∀ (acc : Genesis.KV κ α),
      (vs.map g).foldl (fun s x => Genesis.kvSet lt (key' x) (id x) s) (acc.map (fun e => (e.1, g e.2))) =
        (vs.foldl (fun s x => Genesis.kvSet lt (key x) (id x) s) acc).map (fun e => (e.1, g e.2)) from H []
  induction vs with
  | nil => intro acc; rfl
  | cons v vs ih =>
    intro acc
    simp only [List.map_cons, List.foldl_cons, id, hk]
    rw [kvSet_map lt g (key v) v acc]
    exact ih _

/-! ### the encoding -/

/-- M-Lockup's lock as a lock of C18's genesis model: actor and denom indices as one-byte strings,
    `time.Time{}` as 0 and an end time `e` as `e + 1` (C18's record uses 0 for "not unlocking") -/
def embLock (l : Lock) : Genesis.Lock :=
  { id := l.id, owner := [l.owner], duration := l.duration,
    endTime := match l.endTime with
      | none => 0
      | some e => e + 1,
    coins := [([l.denom], l.amount)] }

/-- the module state C18's model keeps: params (opaque there), last id, the lock section by id -/
def embState (params : Nat) (s : State) : Genesis.LockupState :=
  { params := params, lastLockId := s.lastId, locks := s.locks.map (fun l => (l.id, embLock l)) }

theorem embLock_isUnlocking (l : Lock) : (embLock l).isUnlocking = l.isUnlocking := by
  cases h : l.endTime <;> simp [embLock, Genesis.Lock.isUnlocking, Lock.isUnlocking, h]

theorem embLock_refLt (a b : Lock) : Genesis.ltLockRef (embLock a) (embLock b) = refLt a b := rfl

theorem exportVals_embState (params : Nat) (s : State) :
    Genesis.exportVals (embState params s).locks = s.locks.map embLock := by
  simp only [Genesis.exportVals, embState, List.map_map]
  exact List.map_congr_left (fun x _ => rfl)

/-- **export commutes with the encoding**: C18's `exportLockup` of the encoded state is the encoded
    `exportGenesis` -/
theorem embed_export (params : Nat) (s : State) :
    (Genesis.exportLockup (embState params s)).lastLockId = (exportGenesis s).lastLockId ∧
    (Genesis.exportLockup (embState params s)).locks = (exportGenesis s).locks.map embLock := by
  refine ⟨rfl, ?_⟩
  simp only [Genesis.exportLockup, Genesis.periodLocks, exportGenesis, periodLocks, exportVals_embState,
    List.map_append]
  have hf : ∀ (ls : List Lock), (ls.map embLock).filter (fun l => l.isUnlocking) =
      (ls.filter (fun l => l.isUnlocking)).map embLock := by
    intro ls
    rw [List.filter_map]
    congr 1
    apply List.filter_congr
    intro x _
    exact embLock_isUnlocking x
  have hn : ∀ (ls : List Lock), (ls.map embLock).filter (fun l => !l.isUnlocking) =
      (ls.filter (fun l => !l.isUnlocking)).map embLock := by
    intro ls
    rw [List.filter_map]
    congr 1
    apply List.filter_congr
    intro x _
    simp only [Function.comp, embLock_isUnlocking]
  rw [hf, hn, sortBy_map embLock refLt Genesis.ltLockRef embLock_refLt,
    sortBy_map embLock refLt Genesis.ltLockRef embLock_refLt]

/-- **import commutes with the encoding**: C18's `importLockup` of an encoded genesis holds the encoded
    `storeLocks` (the lock section `InitializeAllLocks` writes), the genesis' last id, default params -/
theorem embed_import (g : GenesisState) :
    (Genesis.importLockup { lastLockId := g.lastLockId, locks := g.locks.map embLock }).lastLockId = g.lastLockId ∧
    Genesis.exportVals (Genesis.importLockup { lastLockId := g.lastLockId, locks := g.locks.map embLock }).locks =
      (storeLocks g.locks).map embLock ∧
    (Genesis.importLockup { lastLockId := g.lastLockId, locks := g.locks.map embLock }).params =
      Genesis.lockupDefaultParams := by
  refine ⟨rfl, ?_, rfl⟩
  simp only [Genesis.importLockup, storeLocks]
  rw [importVals_map Genesis.ltNat embLock (fun l : Lock => l.id) (fun l : Genesis.Lock => l.id) (fun _ => rfl)]
  simp only [Genesis.exportVals, List.map_map]
  exact List.map_congr_left (fun x _ => rfl)

end DymVerif.Lockup
