/-
  Lemmas/PacketsEibc — what a successful eIBC message implies (x/eibc message server, keeper,
  on-demand LPs, authorisation), and bank bookkeeping lemmas.
-/
import DymVerif.Lemmas.PacketsOnceOps
namespace DymVerif.Packets
open DymVerif DymVerif.Keys

-- ------------------------------------------------------------------ bank

theorem getBal_setBal (b : List ((Addr × Denom) × Int)) (a : Addr) (d : Denom) (v : Int) (a' : Addr) (d' : Denom) :
    getBal (setBal b a d v) a' d' = if a' = a ∧ d' = d then v else getBal b a' d' := by
  unfold getBal setBal
  by_cases h : a' = a ∧ d' = d
  · obtain ⟨rfl, rfl⟩ := h
    simp [List.find?]
  · have h1 : ((a == a') && (d == d')) = false := by
      by_cases ha : a' = a
      · have hd : d' ≠ d := fun e => h ⟨ha, e⟩
        have : (d == d') = false := by simpa using (Ne.symm hd)
        simp [this]
      · have : (a == a') = false := by simpa using (Ne.symm ha)
        simp [this]
    simp only [List.find?, h1, h, if_false]
    congr 1
    induction b with
    | nil => rfl
    | cons x xs ih =>
      by_cases hx : (x.1.1 == a && x.1.2 == d) = true
      · have hx' : (x.1.1 == a' && x.1.2 == d') = false := by
          have ⟨e1, e2⟩ : x.1.1 = a ∧ x.1.2 = d := by simpa using hx
          rw [e1, e2]; exact h1
        simp only [List.filter, hx, Bool.not_true, List.find?, hx']
        exact ih
      · have hx0 : (x.1.1 == a && x.1.2 == d) = false := by simpa using hx
        simp only [List.filter, hx0, Bool.not_false, List.find?]
        by_cases hy : (x.1.1 == a' && x.1.2 == d') = true
        · simp [hy]
        · have hy0 : (x.1.1 == a' && x.1.2 == d') = false := by simpa using hy
          simp only [hy0]; exact ih

/-- balances after `credit` -/
theorem getBal_credit (s : St) (a : Addr) (d : Denom) (v : Int) (a' : Addr) (d' : Denom) :
    getBal (credit s a d v).bal a' d' = getBal s.bal a' d' + (if a' = a ∧ d' = d then v else 0) := by
  unfold credit
  simp only [getBal_setBal]
  split
  · rename_i h; obtain ⟨rfl, rfl⟩ := h; rfl
  · simp

theorem getBal_debit (s : St) (a : Addr) (d : Denom) (v : Int) (a' : Addr) (d' : Denom) :
    getBal (debit s a d v).bal a' d' = getBal s.bal a' d' - (if a' = a ∧ d' = d then v else 0) := by
  unfold debit
  simp only [getBal_setBal]
  split
  · rename_i h; obtain ⟨rfl, rfl⟩ := h; rfl
  · simp

/-- `SendCoins`: exactly `v` of denom `d` moves from `src` to `dst`, nothing else changes, and it
    needs the funds -/
theorem sendCoins_spec {s s' : St} {src dst : Addr} {d : Denom} {v : Int} (h : sendCoins s src dst d v = some s') :
    (v = 0 ∨ v ≤ getBal s.bal src d) ∧
    ∀ a' d', getBal s'.bal a' d' =
      getBal s.bal a' d' - (if a' = src ∧ d' = d then v else 0) + (if a' = dst ∧ d' = d then v else 0) := by
  unfold sendCoins at h
  split at h
  · rename_i hv
    cases h
    exact ⟨Or.inl hv, fun a' d' => by simp [hv]⟩
  · split at h
    · cases h
    · rename_i hlt
      cases h
      refine ⟨Or.inr (Int.not_lt.mp hlt), fun a' d' => ?_⟩
      rw [getBal_credit, getBal_debit]

-- ------------------------------------------------------------------ order store

theorem mem_insertOrd {o q : Order} : ∀ {l : List Order}, q ∈ insertOrd o l ↔ q = o ∨ q ∈ l
  | [] => by simp [insertOrd]
  | x :: xs => by
    unfold insertOrd
    split
    · simp
    · simp only [List.mem_cons, mem_insertOrd (l := xs)]
      constructor
      · rintro (h | h | h)
        · exact Or.inr (Or.inl h)
        · exact Or.inl h
        · exact Or.inr (Or.inr h)
      · rintro (h | h | h)
        · exact Or.inr (Or.inl h)
        · exact Or.inl h
        · exact Or.inr (Or.inr h)

theorem getOrder_some {s : St} {st : Status} {id : Bytes} {o : Order} (h : getOrder s st id = some o) :
    o ∈ s.orders ∧ o.status = st ∧ o.id = id := by
  unfold getOrder at h
  have h1 := List.mem_of_find?_eq_some h
  have h2 := List.find?_some h
  simp only [Bool.and_eq_true, beq_iff_eq] at h2
  exact ⟨h1, h2.1, h2.2⟩

/-- reading back the order just written -/
theorem find_insertOrd_self (o : Order) : ∀ (l : List Order), (∀ q ∈ l, ¬ (q.status = o.status ∧ q.id = o.id)) →
    (insertOrd o l).find? (fun q => q.status == o.status && q.id == o.id) = some o
  | [], _ => by simp [insertOrd, List.find?]
  | x :: xs, h => by
    unfold insertOrd
    split
    · simp [List.find?]
    · have hx : (x.status == o.status && x.id == o.id) = false := by
        have := h x List.mem_cons_self
        cases hb : (x.status == o.status && x.id == o.id) with
        | false => rfl
        | true =>
          simp only [Bool.and_eq_true, beq_iff_eq] at hb
          exact absurd hb this
      simp only [List.find?, hx]
      exact find_insertOrd_self o xs (fun q hq => h q (List.mem_cons_of_mem _ hq))

theorem getOrder_setOrder_self (s : St) (o : Order) : getOrder (setOrder s o) o.status o.id = some o := by
  unfold getOrder setOrder
  apply find_insertOrd_self
  intro q hq
  have := (List.mem_filter.mp hq).2
  rintro ⟨e1, e2⟩
  simp [e1, e2] at this

-- ------------------------------------------------------------------ packet store read-back

theorem find_insertPkt_self (p : Packet) : ∀ (l : List Packet), (∀ q ∈ l, pkey q ≠ pkey p) →
    (insertPkt p l).find? (fun q => pkey q == pkey p) = some p
  | [], _ => by simp [insertPkt, List.find?]
  | x :: xs, h => by
    unfold insertPkt
    split
    · simp [List.find?]
    · have hx : (pkey x == pkey p) = false := by simpa using h x List.mem_cons_self
      simp only [List.find?, hx]
      exact find_insertPkt_self p xs (fun q hq => h q (List.mem_cons_of_mem _ hq))

theorem getPacket_setPacket_self (s : St) (p : Packet) : getPacket (setPacket s p) (pkey p) = some p := by
  unfold getPacket setPacket
  apply find_insertPkt_self
  intro q hq
  simpa using (List.mem_filter.mp hq).2

-- ------------------------------------------------------------------ outstanding orders

/-- the packet of an order is not finalizable: its proof height is above the finalized height of the
    order's rollapp (or nothing is finalized yet) -/
def NotFinalizable (s : St) (rid : Bytes) (ph : Nat) : Prop := ∀ f, finHeight s rid = some f → f < ph

theorem verify_error {s : St} {rid : Bytes} {ph : Nat} {e : Err} (h : verifyHeightFinalized s rid ph = .error e) :
    NotFinalizable s rid ph := by
  unfold verifyHeightFinalized at h
  intro f hf
  rw [hf] at h
  simp only at h
  split at h
  · assumption
  · cases h

/-- `GetOutstandingOrder` succeeded: pending, unfulfilled, packet present and not finalizable -/
theorem getOutstanding_ok {s : St} {id : Bytes} {o : Order} (h : getOutstanding s id = .ok o) :
    getOrder s .pending id = some o ∧ o.fulfiller = none ∧
    ∃ p, getPacket s o.trackingKey = some p ∧ NotFinalizable s o.rollappId p.proofHeight := by
  unfold getOutstanding at h
  split at h
  · cases h
  · rename_i o' ho
    split at h
    · cases h
    · rename_i p hp
      split at h
      · cases h
      · rename_i e hv
        split at h
        · cases h
        · rename_i hfu
          split at h
          · cases h
          · cases h
            refine ⟨ho, ?_, p, hp, verify_error hv⟩
            cases hf : o.fulfiller with
            | none => rfl
            | some x => simp [hf] at hfu

/-- a fulfilled order is not outstanding -/
theorem getOutstanding_fulfilled {s : St} {id : Bytes} {o : Order} (ho : getOrder s .pending id = some o)
    (hf : o.fulfiller.isSome = true) : ∀ o', getOutstanding s id ≠ .ok o' := by
  intro o' h
  obtain ⟨h1, h2, _⟩ := getOutstanding_ok h
  rw [ho] at h1
  cases h1
  rw [h2] at hf
  cases hf

-- ------------------------------------------------------------------ the fulfilment core

/-- `UpdateRollappPacketTransferAddress` succeeded: the pending packet now names the new address and
    remembers the old one; orders, bank and everything else are untouched -/
theorem updateTransferAddress_ok {s s' : St} {k : Bytes} {a : Addr} (h : updateTransferAddress s k a = .ok s') :
    ∃ p, getPacket s k = some p ∧ p.status = .pending ∧
      s' = setPacket (addByAddr (delByAddr s p.target k) a (pkey (retarget p a))) (retarget p a) := by
  unfold updateTransferAddress at h
  split at h
  · cases h
  · rename_i p hp
    split at h
    · cases h
    · rename_i hst
      cases h
      refine ⟨p, hp, ?_, rfl⟩
      cases hs : p.status with
      | pending => rfl
      | finalized => simp [hs] at hst

theorem pkey_retarget (p : Packet) (a : Addr) : pkey (retarget p a) = pkey p := rfl

/-- `SetOrderFulfilled` succeeded -/
theorem setOrderFulfilled_ok {s s' : St} {o : Order} {f : Addr} {c : Option Addr} (h : setOrderFulfilled s o f c = .ok s') :
    ∃ p, getPacket s o.trackingKey = some p ∧ p.status = .pending ∧
      getPacket s' o.trackingKey = some (retarget p (c.getD f)) ∧
      getOrder s' o.status o.id = some { o with fulfiller := some f } ∧
      s'.bal = s.bal ∧ s'.accts = s.accts ∧ s'.lps = s.lps ∧ s'.grants = s.grants := by
  unfold setOrderFulfilled at h
  obtain ⟨p, hp, hst, rfl⟩ := updateTransferAddress_ok h
  have hk : pkey p = o.trackingKey := (getPacket_some hp).2
  refine ⟨p, hp, hst, ?_, ?_, rfl, rfl, rfl, rfl⟩
  · rw [← hk, ← pkey_retarget p (c.getD f)]
    exact getPacket_setPacket_self _ _
  · exact getOrder_setOrder_self s { o with fulfiller := some f }

/-- `Keeper.Fulfill` succeeded: the fulfiller has an account, pays exactly the price to the order's
    recipient, the order is marked, the packet redirected -/
theorem fulfillCore_ok {s s' : St} {o : Order} {f : Addr} (h : fulfillCore s o f = .ok s') :
    s.accts.contains f = true ∧
    ∃ s1, sendCoins s f o.recipient o.denom o.price = some s1 ∧ s'.bal = s1.bal ∧
      ∃ p, getPacket s o.trackingKey = some p ∧ p.status = .pending ∧
        getPacket s' o.trackingKey = some (retarget p f) ∧
        getOrder s' o.status o.id = some { o with fulfiller := some f } ∧ s'.lps = s.lps ∧ s'.grants = s.grants := by
  unfold fulfillCore at h
  split at h
  · cases h
  · rename_i hacc
    split at h
    · cases h
    · rename_i s1 hs
      obtain ⟨p, hp, hst, hp', ho', hb, _, hl, hg⟩ := setOrderFulfilled_ok h
      refine ⟨by simpa using hacc, s1, hs, hb, p, ?_, hst, hp', ho', ?_, ?_⟩
      · have := (frame_sendCoins hs).packets
        unfold getPacket at hp ⊢; rw [← this]; exact hp
      · rw [hl]; unfold sendCoins at hs
        split at hs
        · cases hs; rfl
        · split at hs
          · cases hs
          · cases hs; rfl
      · rw [hg]; unfold sendCoins at hs
        split at hs
        · cases hs; rfl
        · split at hs
          · cases hs
          · cases hs; rfl

end DymVerif.Packets
