/-
  Lemmas/DymNSAlias — alias <-> RollApp maps stay inverse of each other; invariant preservation of
  the alias messages.
-/
import DymVerif.Lemmas.DymNSInv2
import DymVerif.Lemmas.DymNSGov
namespace DymVerif.DymNS
open AMap

namespace AliasStore

def setAliasT (al : AliasStore) (c : Chain) (l : AliasId) : AliasStore :=
  { al with aliasesOf := AMap.set al.aliasesOf c (al.aliases c ++ [l]), aliasTo := AMap.set al.aliasTo l c }

def removeAliasT (al : AliasStore) (c : Chain) (l : AliasId) : AliasStore :=
  let rest := (al.aliases c).filter (· ≠ l)
  { al with aliasesOf := if rest = [] then AMap.del al.aliasesOf c else AMap.set al.aliasesOf c rest,
            aliasTo := AMap.del al.aliasTo l }

theorem setAlias_ok {al al' : AliasStore} {c : Chain} {l : AliasId} (h : al.setAlias c l = .ok al') :
    al.isRollapp c = true ∧ AMap.get al.aliasTo l = none ∧ al' = al.setAliasT c l := by
  unfold setAlias at h
  mcases' h
  injection h with h
  exact ⟨by assumption, by assumption, h.symm⟩

theorem removeAlias_ok {al al' : AliasStore} {c : Chain} {l : AliasId} (h : al.removeAlias c l = .ok al') :
    al.isRollapp c = true ∧ AMap.get al.aliasTo l = some c ∧ al' = al.removeAliasT c l := by
  unfold removeAlias at h
  simp only [bind, Except.bind, pure, Except.pure, chk] at h
  by_cases hr : al.isRollapp c = true
  · simp only [hr, if_true] at h
    cases hg : AMap.get al.aliasTo l with
    | none => simp [hg] at h
    | some c' =>
      simp only [hg] at h
      by_cases hc : c' = c
      · subst hc
        simp only [decide_true, if_true] at h
        split at h
        · cases h
        · injection h with h
          exact ⟨hr, rfl, h.symm⟩
      · simp [hc] at h
  · simp [hr] at h

theorem aliases_set (al : AliasStore) (c c' : Chain) (x : List AliasId) (t : AMap AliasId Chain) :
    ({ al with aliasesOf := AMap.set al.aliasesOf c x, aliasTo := t } : AliasStore).aliases c' =
      if c' = c then x else al.aliases c' := by
  simp only [aliases, AMap.get_set]; split <;> rfl

theorem aliases_del (al : AliasStore) (c c' : Chain) (t : AMap AliasId Chain) :
    ({ al with aliasesOf := AMap.del al.aliasesOf c, aliasTo := t } : AliasStore).aliases c' =
      if c' = c then [] else al.aliases c' := by
  simp only [aliases, AMap.get_del]; split <;> rfl

theorem aliases_removeAliasT (al : AliasStore) (c c' : Chain) (l : AliasId) :
    (al.removeAliasT c l).aliases c' = if c' = c then (al.aliases c).filter (· ≠ l) else al.aliases c' := by
  unfold removeAliasT
  simp only
  split
  · rename_i hnil
    rw [aliases_del]; split
    · exact hnil.symm
    · rfl
  · rw [aliases_set]

end AliasStore

theorem aliasOK_setAliasT {al : AliasStore} {c : Chain} {l : AliasId} (h : AliasOK al) (hr : al.isRollapp c = true)
    (hn : AMap.get al.aliasTo l = none) : AliasOK (al.setAliasT c l) := by
  have hnot : ∀ c', l ∉ al.aliases c' := fun c' hm => by
    have := (h.iff l c').mpr hm; rw [hn] at this; cases this
  refine ⟨fun l' c' => ?_, fun l' c' => ?_⟩
  · unfold AliasStore.setAliasT
    rw [AliasStore.aliases_set]
    simp only [AMap.get_set]
    by_cases hl : l' = l
    · subst hl
      by_cases hc : c' = c
      · subst hc; simp
      · simp only [if_true, hc, if_false]
        constructor
        · intro e; exact absurd (Option.some.inj e).symm hc
        · intro hm; exact absurd hm (hnot c')
    · simp only [hl, if_false]
      by_cases hc : c' = c
      · subst hc; simp [hl, h.iff]
      · simp [hc, h.iff]
  · unfold AliasStore.setAliasT
    simp only [AMap.get_set, AliasStore.isRollapp]
    split
    · intro e; injection e with e; subst e; exact hr
    · exact h.roll l' c'

theorem aliasOK_removeAliasT {al : AliasStore} {c : Chain} {l : AliasId} (h : AliasOK al)
    (hg : AMap.get al.aliasTo l = some c) : AliasOK (al.removeAliasT c l) := by
  refine ⟨fun l' c' => ?_, fun l' c' => ?_⟩
  · rw [AliasStore.aliases_removeAliasT]
    have : (al.removeAliasT c l).aliasTo = AMap.del al.aliasTo l := rfl
    rw [this, AMap.get_del]
    by_cases hl : l' = l
    · subst hl
      simp only [if_true]
      constructor
      · intro e; cases e
      · intro hm
        exfalso
        split at hm
        · simp at hm
        · rename_i hc
          have := (h.iff l' c').mpr hm
          rw [hg] at this
          exact hc (Option.some.inj this).symm
    · simp only [hl, if_false]
      by_cases hc : c' = c
      · subst hc; simp [hl, h.iff]
      · simp [hc, h.iff]
  · have : (al.removeAliasT c l).aliasTo = AMap.del al.aliasTo l := rfl
    rw [this, AMap.get_del]
    split
    · intro e; cases e
    · exact h.roll l' c'

theorem aliasOK_addRollapp {al : AliasStore} (c : Chain) (r : Rollapp) (h : AliasOK al) :
    AliasOK { al with rollapps := AMap.set al.rollapps c r } := by
  refine ⟨h.iff, fun l c' hg => ?_⟩
  have := h.roll l c' hg
  simp only [AliasStore.isRollapp, AMap.get_set] at this ⊢
  split
  · rfl
  · exact this


/-! ### state-level alias blocks -/

theorem alChanged_inv {s : State} {al' : AliasStore} (hI : Inv s) (h : AliasOK al') : Inv { s with al := al' } :=
  { wfN := hI.wfN, wfA := hI.wfA, wfB := hI.wfB, esc := hI.esc, idx := hI.idx, ali := h, so := hI.so, boK := hI.boK }

theorem setAlias_ok {s s' : State} {c : Chain} {l : AliasId} (h : setAlias s c l = .ok s') :
    s.al.isRollapp c = true ∧ AMap.get s.al.aliasTo l = none ∧ s' = { s with al := s.al.setAliasT c l } := by
  unfold setAlias at h
  simp only [bind, Except.bind, pure, Except.pure] at h
  cases ha : s.al.setAlias c l with
  | error e => simp [ha] at h
  | ok al' =>
    obtain ⟨h1, h2, rfl⟩ := AliasStore.setAlias_ok ha
    simp only [ha] at h
    injection h with h
    exact ⟨h1, h2, h.symm⟩

theorem removeAlias_ok {s s' : State} {c : Chain} {l : AliasId} (h : removeAlias s c l = .ok s') :
    s.al.isRollapp c = true ∧ AMap.get s.al.aliasTo l = some c ∧ s' = { s with al := s.al.removeAliasT c l } := by
  unfold removeAlias at h
  simp only [bind, Except.bind, pure, Except.pure] at h
  cases ha : s.al.removeAlias c l with
  | error e => simp [ha] at h
  | ok al' =>
    obtain ⟨h1, h2, rfl⟩ := AliasStore.removeAlias_ok ha
    simp only [ha] at h
    injection h with h
    exact ⟨h1, h2, h.symm⟩

theorem setAlias_inv {s s' : State} {c : Chain} {l : AliasId} (hI : Inv s) (h : setAlias s c l = .ok s') : Inv s' := by
  obtain ⟨h1, h2, rfl⟩ := setAlias_ok h
  exact alChanged_inv hI (aliasOK_setAliasT hI.ali h1 h2)

theorem removeAlias_inv {s s' : State} {c : Chain} {l : AliasId} (hI : Inv s) (h : removeAlias s c l = .ok s') : Inv s' := by
  obtain ⟨_, h2, rfl⟩ := removeAlias_ok h
  exact alChanged_inv hI (aliasOK_removeAliasT hI.ali h2)

theorem AliasStore.moveAlias_aliasOK {al al' : AliasStore} {src dst : Chain} {l : AliasId} (hA : AliasOK al)
    (h : al.moveAlias src l dst = .ok al') : AliasOK al' := by
  unfold AliasStore.moveAlias at h
  mcases' h
  rename (AliasStore.removeAlias al src l = Except.ok _) => hr
  obtain ⟨_, h2, rfl⟩ := AliasStore.removeAlias_ok hr
  obtain ⟨h3, h4, rfl⟩ := AliasStore.setAlias_ok h
  exact aliasOK_setAliasT (aliasOK_removeAliasT hA h2) h3 h4

theorem moveAlias_inv {s s' : State} {src dst : Chain} {l : AliasId} (hI : Inv s) (h : moveAlias s src l dst = .ok s') :
    Inv s' := by
  unfold moveAlias at h
  simp only [bind, Except.bind, pure, Except.pure] at h
  cases ha : s.al.moveAlias src l dst with
  | error e => simp [ha] at h
  | ok al' =>
    simp only [ha] at h
    injection h with h; subst h
    exact alChanged_inv hI (AliasStore.moveAlias_aliasOK hI.ali ha)

theorem registerAliasFor_inv {s s' : State} {c a l cost} (hI : Inv s) (h : registerAliasFor s c a l cost = .ok s') :
    Inv s' := by
  unfold registerAliasFor at h
  simp only [bind, Except.bind, pure, Except.pure] at h
  cases hp : payAndBurn s a cost with
  | error e => simp [hp] at h
  | ok s1 =>
    obtain ⟨rfl, _⟩ := payAndBurn_ok hp
    simp only [hp] at h
    cases hs : setAlias (payAndBurnT s a cost) c l with
    | error e => simp [hs] at h
    | ok s2 =>
      simp only [hs] at h
      injection h with h; subst h
      exact setAlias_inv (payAndBurnT_inv a cost hI) hs

theorem createRollapp_inv {s s' : State} {a c hrp l} (hI : Inv s) (h : createRollapp s a c hrp l = .ok s') : Inv s' := by
  unfold createRollapp at h
  mcases' h
  exact registerAliasFor_inv (alChanged_inv hI (aliasOK_addRollapp c ⟨a, hrp⟩ hI.ali)) h

theorem registerAlias_inv {s s' : State} {a c l pay} (hI : Inv s) (h : registerAlias s a c l pay = .ok s') : Inv s' := by
  unfold registerAlias at h
  mcases' h
  exact registerAliasFor_inv hI h

/-! ### alias sell orders -/

theorem placeAliasSO_inv {s s' : State} {a l mn sl} (hI : Inv s) (h : placeAliasSO s a l mn sl = .ok s') : Inv s' := by
  unfold placeAliasSO at h
  mcases' h
  rename (s.aliasSO.get l = none) => hso
  injection h with h; subst h
  refine { wfN := hI.wfN, wfA := noDup_set _ _ _ hI.wfA, wfB := hI.wfB, esc := ?_, idx := hI.idx, ali := hI.ali,
           so := hI.so, boK := hI.boK }
  have := sum_setAliasSO s l { seller := a, expireAt := s.now + s.p.soDur, minPrice := mn, sellPrice := sl, bid := none }
  have e := hI.esc
  simp only [escrowed_def, aliasBid, hso, Option.bind, bidAmt] at this e ⊢
  omega

theorem dropAliasSO_inv {s : State} (l : AliasId) (hI : Inv s) :
    Inv { refundOptT s (aliasBid s l) with aliasSO := AMap.del s.aliasSO l } := by
  have hle := abid_le_sum s l hI.wfA
  refine { wfN := by simpa using hI.wfN, wfA := noDup_del _ _ hI.wfA, wfB := by simpa using hI.wfB, esc := ?_,
           idx := by simpa using hI.idx, ali := by simpa using hI.ali, so := by simpa [SOOK] using hI.so,
           boK := by simpa using hI.boK }
  have := sum_delAliasSO s l hI.wfA
  have e := hI.esc
  simp only [escrowed_def, refundOptT_modBal, refundOptT_nameSO, refundOptT_bos] at this e ⊢
  omega

/-- the order is removed and its bid paid out to `x` -/
theorem paidAliasSO_inv {s : State} (l : AliasId) (x : Acct) (hI : Inv s) :
    Inv { fromModuleT s x (bidAmt (aliasBid s l)) with aliasSO := AMap.del s.aliasSO l } := by
  have hle := abid_le_sum s l hI.wfA
  refine { wfN := hI.wfN, wfA := noDup_del _ _ hI.wfA, wfB := hI.wfB, esc := ?_,
           idx := hI.idx, ali := hI.ali, so := hI.so, boK := hI.boK }
  have := sum_delAliasSO s l hI.wfA
  have e := hI.esc
  simp only [escrowed_def, fromModuleT] at this e ⊢
  omega

theorem cancelAliasSO_inv {s s' : State} {a l} (hI : Inv s) (h : cancelAliasSO s a l = .ok s') : Inv s' := by
  unfold cancelAliasSO at h
  mcases' h
  rename (s.aliasSO.get l = some _) => hso
  rename (SellOrder.bid _ = none) => hb
  injection h with h; subst h
  have := dropAliasSO_inv l hI
  simpa [aliasBid, hso, hb, refundOptT] using this

theorem aliasBidPlaced_inv {s : State} {l : AliasId} {so : SellOrder} (a : Acct) (offer : Nat) (dst : Chain) (hI : Inv s)
    (hso : AMap.get s.aliasSO l = some so) :
    Inv { takeBidT s so.bid a offer with aliasSO := AMap.set s.aliasSO l { so with bid := some ⟨a, offer, dst⟩ } } := by
  have hle := abid_le_sum s l hI.wfA
  have hb : aliasBid s l = so.bid := by simp [aliasBid, hso]
  refine { wfN := by simpa using hI.wfN, wfA := noDup_set _ _ _ hI.wfA,
           wfB := by simpa using hI.wfB, esc := ?_,
           idx := by simpa using hI.idx, ali := by simpa using hI.ali,
           so := by simpa [SOOK] using hI.so, boK := by simpa using hI.boK }
  have := sum_setAliasSO s l { so with bid := some ⟨a, offer, dst⟩ }
  have e := hI.esc
  simp only [escrowed_def, takeBidT_modBal, takeBidT_nameSO, takeBidT_bos, hb, bidAmt] at this e hle ⊢
  omega

theorem completeAliasSO_inv {s s' : State} {l : AliasId} (hI : Inv s) (h : completeAliasSO s l = .ok s') : Inv s' := by
  unfold completeAliasSO at h
  mcases' h
  rename (s.aliasSO.get l = some _) => hso
  rename (SellOrder.bid _ = some _) => hb
  rename (fromModule s _ _ = Except.ok _) => hf
  obtain ⟨rfl, _⟩ := fromModule_ok hf
  rename (removeAlias _ _ l = Except.ok _) => hr
  rename (Rollapp) => r
  have hI1 := paidAliasSO_inv l r.owner hI
  simp only [aliasBid, hso, hb, Option.bind, bidAmt] at hI1
  exact setAlias_inv (removeAlias_inv hI1 hr) h

theorem completeAliasSOMsg_inv {s s' : State} {a l} (hI : Inv s) (h : completeAliasSOMsg s a l = .ok s') : Inv s' := by
  unfold completeAliasSOMsg at h
  mcases' h
  · rename (s.aliasSO.get l = some _) => hso
    rename (SellOrder.bid _ = some _) => hb
    rename (refundBid s _ = Except.ok _) => hr
    obtain ⟨rfl, _⟩ := fromModule_ok hr
    injection h with h; subst h
    have := dropAliasSO_inv l hI
    simpa [aliasBid, hso, hb, refundOptT, fromModuleT] using this
  · exact completeAliasSO_inv hI h

theorem purchaseAlias_inv {s s' : State} {a l offer dst} (hI : Inv s) (h : purchaseAlias s a l offer dst = .ok s') :
    Inv s' := by
  unfold purchaseAlias at h
  mcases' h
  all_goals
    rename (s.aliasSO.get l = some _) => hso
    rename (takeBid s _ a offer = Except.ok _) => ht
    obtain ⟨rfl, _, _⟩ := takeBid_ok ht
    have hI2 := aliasBidPlaced_inv a offer dst hI hso
    simp only [takeBidT_aliasSO] at h
  · exact completeAliasSO_inv hI2 h
  · injection h with h; subst h; exact hI2

theorem placeAliasBO_inv {s s' : State} {a l offer cont dst} (hI : Inv s)
    (h : placeAliasBO s a l offer cont dst = .ok s') : Inv s' := by
  unfold placeAliasBO at h
  mcases' h
  rename (validateContinue s true a l offer cont = Except.ok _) => hv
  exact putBO_inv hI (validateContinue_ok hv) h

theorem acceptAliasBO_inv {s s' : State} {a id bo m} (hI : Inv s) (hg : AMap.get s.bos id = some bo)
    (h : acceptAliasBO s a id bo m = .ok s') : Inv s' := by
  unfold acceptAliasBO at h
  mcases' h
  · rename (fromModule s _ _ = Except.ok _) => hf
    obtain ⟨rfl, _⟩ := fromModule_ok hf
    exact moveAlias_inv (boRemoved_inv _ hI hg) h
  · injection h with h; subst h
    have hle := offer_le_sum s id hI.wfB
    refine { wfN := hI.wfN, wfA := hI.wfA, wfB := noDup_set _ _ _ hI.wfB, esc := ?_, idx := hI.idx, ali := hI.ali,
             so := hI.so, boK := ?_ }
    · have := sum_setBO s id { bo with counter := m }
      have e := hI.esc
      simp only [escrowed_def, hg, offerAmt] at this e hle ⊢
      omega
    · intro i b hb
      simp only [AMap.get_set] at hb
      split at hb
      · rename_i hi; subst hi; exact hI.boK _ _ hg
      · exact hI.boK i b hb

theorem acceptBO_inv {s s' : State} {a pfx id m} (hI : Inv s) (h : acceptBO s a pfx id m = .ok s') : Inv s' := by
  unfold acceptBO at h
  mcases' h
  all_goals rename (getBO s pfx id = some _) => hg
  · exact acceptAliasBO_inv hI (getBO_some hg).1 h
  · exact acceptNameBO_inv hI (getBO_some hg).1 h

/-- a RollApp changes hands: the alias maps are untouched, the RollApp stays a RollApp -/
theorem transferRollapp_inv {s s' : State} {a c b} (hI : Inv s) (h : transferRollapp s a c b = .ok s') : Inv s' := by
  obtain ⟨r, _, _, _, rfl⟩ := transferRollapp_ok h
  exact alChanged_inv hI (aliasOK_addRollapp c _ hI.ali)

/-! ### every operation -/

theorem init_inv : Inv State.init := by
  refine { wfN := by simp [State.init, NoDupKeys], wfA := by simp [State.init, NoDupKeys],
           wfB := by simp [State.init, NoDupKeys], esc := rfl, idx := ?_, ali := ?_, so := ?_, boK := ?_ }
  · refine ⟨fun a n => ?_, fun x n => ?_, fun b n => ?_⟩ <;> simp [State.init, Idx.lookup, NameStore.get]
  · refine ⟨fun l c => ?_, fun l c => ?_⟩ <;> simp [State.init, AliasStore.aliases]
  · intro n so h; simp [State.init] at h
  · intro i b h; simp [State.init] at h

theorem exec_inv {s s' : State} {op : Op} (hI : Inv s) (h : exec s op = .ok s') : Inv s' := by
  cases op with
  | fund a amt =>
    simp only [exec, pure, Except.pure] at h; injection h with h; subst h
    exact { wfN := hI.wfN, wfA := hI.wfA, wfB := hI.wfB, esc := hI.esc, idx := hI.idx, ali := hI.ali, so := hI.so, boK := hI.boK }
  | advance dt =>
    simp only [exec, pure, Except.pure] at h; injection h with h; subst h
    exact { wfN := hI.wfN, wfA := hI.wfA, wfB := hI.wfB, esc := hI.esc, idx := hI.idx, ali := hI.ali, so := hI.so, boK := hI.boK }
  | trading n a =>
    simp only [exec, pure, Except.pure] at h; injection h with h; subst h
    exact { wfN := hI.wfN, wfA := hI.wfA, wfB := hI.wfB, esc := hI.esc, idx := hI.idx, ali := hI.ali, so := hI.so, boK := hI.boK }
  | setChainAliases ca =>
    simp only [exec, pure, Except.pure] at h; injection h with h; subst h
    exact { wfN := hI.wfN, wfA := hI.wfA, wfB := hI.wfB, esc := hI.esc, idx := hI.idx, ali := hI.ali, so := hI.so, boK := hI.boK }
  | register a n dur pay c => exact registerName_inv hI h
  | transfer a n b => exact transferName_inv hI h
  | setController a n c => exact setController_inv hI h
  | updateResolve a n ch e p v => exact updateResolveAddress_inv hI h
  | updateDetails a n c cl => exact updateDetails_inv hI h
  | sellName a n mn sl => exact placeNameSO_inv hI h
  | cancelSellName a n => exact cancelNameSO_inv hI h
  | completeName a n => exact completeNameSOMsg_inv hI h
  | buyName a n o => exact purchaseName_inv hI h
  | offerName a n o c => exact placeNameBO_inv hI h
  | cancelOffer a p i => exact cancelBO_inv hI h
  | acceptOffer a p i m => exact acceptBO_inv hI h
  | createRollapp a c hp l => exact createRollapp_inv hI h
  | registerAlias a c l pay => exact registerAlias_inv hI h
  | sellAlias a l mn sl => exact placeAliasSO_inv hI h
  | cancelSellAlias a l => exact cancelAliasSO_inv hI h
  | completeAlias a l => exact completeAliasSOMsg_inv hI h
  | buyAlias a l o d => exact purchaseAlias_inv hI h
  | offerAlias a l o c d => exact placeAliasBO_inv hI h
  | transferRollapp a c b => exact transferRollapp_inv hI h
  | migrateChainIds m => exact migrateChainIds_inv hI h
  | updateAliases ad rm => exact updateAliases_inv hI h
  | setParams g d mo bi => exact setParams_inv hI h

theorem step_inv {s : State} (op : Op) (hI : Inv s) : Inv (step s op) := by
  unfold step
  cases h : exec s op with
  | ok s' => exact exec_inv hI h
  | error e => exact hI

theorem run_inv {s : State} (ops : List Op) (hI : Inv s) : Inv (run s ops) := by
  induction ops generalizing s with
  | nil => exact hI
  | cons op ops ih => exact ih (step_inv op hI)

end DymVerif.DymNS
