/-
  Lemmas/CoreXGrid — every scheduled liveness event lies ON the slash grid of its rollapp's current
  countdown start: `evH = 0 ∨ ∃ j, evH = cdStart + LivenessSlashBlocks + j · LivenessSlashInterval`,
  in every reachable state, for arbitrary interleavings of messages and blocks (an `LClosed`
  predicate: goes through the existing walker `apply_msg_cl`).
-/
import DymVerif.Lemmas.CoreLevEnd
namespace DymVerif.Core.LevNs

structure OnGrid (s : St) : Prop where
  ev : ∀ r ∈ s.ras, r.evH = 0 ∨ ∃ j, r.evH = r.cdStart + s.p.lsBlocks + j * s.p.lsInterval

theorem onGrid_closed : LClosed OnGrid where
  of_same := by
    intro s s' h hs
    obtain ⟨e1, _, _, e4⟩ := hs
    exact ⟨by rw [e1, e4]; exact h.ev⟩
  set_same := by
    intro s id r r' h hg _ he hc
    refine ⟨?_⟩
    intro x hx
    rcases mem_setRa_ne hx with h1 | ⟨h1, _⟩
    · subst h1; rw [he, hc]; exact h.ev r (getRa_mem hg)
    · exact h.ev x h1
  indicate := by
    intro s id r h _
    refine ⟨?_⟩
    intro x hx
    rw [indicateLiveness_ras] at hx
    rcases mem_setRa_ne hx with h1 | ⟨h1, _⟩
    · subst h1; right; exact nextSlashHeight_grid _ _ _ _
    · exact h.ev x h1
  reset := by
    intro s id r r' h _ _ _
    refine ⟨?_⟩
    intro x hx
    rcases mem_setRa_ne hx with h1 | ⟨h1, _⟩
    · subst h1; exact Or.inl rfl
    · exact h.ev x h1
  create := by
    intro s id o mb h _
    refine ⟨?_⟩
    intro x hx
    rcases mem_insertRa _ _ _ hx with h1 | h1
    · subst h1; exact Or.inl rfl
    · exact h.ev x h1

theorem handleLivenessEvent_onGrid {s : St} {ra : Nat} (h : OnGrid s) : OnGrid (handleLivenessEvent s ra) := by
  cases hg : getRa s ra with
  | none => rw [handleLivenessEvent_none hg]; exact h
  | some r =>
    cases hs : slashLiveness s r with
    | error e => rw [handleLivenessEvent_err hg hs]; exact h
    | ok s1 =>
      have hsame := slashLiveness_same hs
      refine ⟨?_⟩
      rw [handleLivenessEvent_p]
      intro x hx
      rw [handleLivenessEvent_eq hg hs] at hx
      rcases mem_setRa_ne hx with h1 | ⟨h1, _⟩
      · subst h1; right
        show ∃ j, nextSlashHeight s1.p.lsBlocks s1.p.lsInterval s1.h r.cdStart = r.cdStart + s.p.lsBlocks + j * s.p.lsInterval
        rw [hsame.2.2.2]; exact nextSlashHeight_grid _ _ _ _
      · exact h.ev x (by rw [← hsame.1]; exact h1)

theorem apply_onGrid {s s' : St} {o : Op} (h : OnGrid s) (e : apply s o = .ok s') : OnGrid s' := by
  cases hm : o.isMsg with
  | true => exact apply_msg_cl onGrid_closed h e hm
  | false =>
    cases o with
    | begin_ dt =>
      simp only [apply] at e; injection e with e; subst e
      apply beginBlock_cl onGrid_closed
      exact ⟨h.ev⟩
    | end_ f =>
      simp only [apply] at e; injection e with e; subst e
      unfold endBlock checkLiveness
      apply foldl_inv OnGrid
      · exact finalizeRollappStates_cl onGrid_closed h
      · intro b e hb; exact handleLivenessEvent_onGrid hb
    | _ => cases hm

theorem run_onGrid (p : Params) (ops : List Op) : OnGrid (run p ops) := by
  unfold run
  apply foldl_inv OnGrid
  · exact ⟨by intro r hr; simp [init] at hr⟩
  · intro b o hb
    unfold step
    split
    · rename_i s' e; exact apply_onGrid hb e
    · exact hb

end DymVerif.Core.LevNs
