/-
  Lemmas/GenesisSpons — x/sponsorship: votes and per-validator powers are rebuilt exactly; the
  recomputed distribution has, gauge by gauge, the sum of the votes' powers (so it agrees with the
  original wherever C16's `DistInv` holds).
-/
import DymVerif.Lemmas.GenesisKV
import DymVerif.Lemmas.SponsDist
namespace DymVerif.Genesis
open DymVerif DymVerif.Spons

structure SponsInv (s : SponsState) : Prop where
  sv : Sorted lexLt s.votes
  sd : Sorted ltBB s.dvp
  /-- power records exist only for voters (they are written with the vote and pruned with it:
      `Keeper.Vote` / `revokeVote`, C16 `hook_below_min_prunes`) -/
  own : ∀ e ∈ s.dvp, ∃ v, (e.1.1, v) ∈ s.votes

/-- the validator loop touches the power section only -/
theorem sponsInner (voter : Bytes) (vals : List (Bytes × Int)) (s : SponsState) :
    let t := vals.foldl (fun s v => { s with dvp := kvSet ltBB (voter, v.1) v.2 s.dvp }) s
    t.dvp = vals.foldl (fun m v => kvSet ltBB (voter, v.1) v.2 m) s.dvp ∧ t.votes = s.votes ∧ t.dist = s.dist ∧
      t.params = s.params ∧ t.endorsements = s.endorsements ∧ t.blacklist = s.blacklist := by
  induction vals generalizing s with
  | nil => exact ⟨rfl, rfl, rfl, rfl, rfl, rfl⟩
  | cons v vs ih => simp only [List.foldl_cons]; exact ih _

theorem foldl_sponsInit_votes (l : List VoterInfo) (s : SponsState) :
    (l.foldl sponsInitVoter s).votes = l.foldl (fun m i => kvSet lexLt i.voter i.vote m) s.votes := by
  apply foldl_proj sponsInitVoter (·.votes)
  intro s i
  show kvSet lexLt i.voter i.vote _ = _
  rw [(sponsInner i.voter i.validators s).2.1]

theorem foldl_sponsInit_dist (l : List VoterInfo) (s : SponsState) :
    (l.foldl sponsInitVoter s).dist = (l.map (·.vote)).foldl (fun d v => d.merge v.toDist) s.dist := by
  rw [List.foldl_map]
  apply foldl_proj sponsInitVoter (·.dist)
  intro s i
  show Dist.merge _ _ = _
  rw [(sponsInner i.voter i.validators s).2.2.1]

theorem foldl_sponsInit_dvp (l : List VoterInfo) (s : SponsState) :
    (l.foldl sponsInitVoter s).dvp =
      (l.flatMap fun i => i.validators.map fun v => ((i.voter, v.1), v.2)).foldl (fun m kv => kvSet ltBB kv.1 kv.2 m) s.dvp := by
  rw [List.foldl_flatMap]
  apply foldl_proj sponsInitVoter (·.dvp)
  intro s i
  show (i.validators.foldl _ s).dvp = _
  rw [(sponsInner i.voter i.validators s).1, List.foldl_map]

theorem foldl_sponsInit_rest (l : List VoterInfo) (s : SponsState) :
    (l.foldl sponsInitVoter s).params = s.params ∧ (l.foldl sponsInitVoter s).endorsements = s.endorsements ∧
      (l.foldl sponsInitVoter s).blacklist = s.blacklist := by
  induction l generalizing s with
  | nil => exact ⟨rfl, rfl, rfl⟩
  | cons i l ih =>
    rw [List.foldl_cons]
    obtain ⟨h1, h2, h3⟩ := ih (sponsInitVoter s i)
    have hi := sponsInner i.voter i.validators s
    exact ⟨h1.trans hi.2.2.2.1, h2.trans hi.2.2.2.2.1, h3.trans hi.2.2.2.2.2⟩

/-- grouping a duplicate-free list by distinct keys keeps it duplicate-free -/
theorem nodup_flatMap_filter {α κ : Type} [DecidableEq κ] (f : α → κ) {l : List α} (hl : l.Nodup) :
    ∀ {ks : List κ}, ks.Nodup → (ks.flatMap fun k => l.filter fun a => decide (f a = k)).Nodup
  | [], _ => List.nodup_nil
  | k :: ks, hk => by
    rw [List.nodup_cons] at hk
    rw [List.flatMap_cons, List.nodup_append]
    refine ⟨List.Nodup.sublist List.filter_sublist hl, nodup_flatMap_filter f hl hk.2, ?_⟩
    intro a ha b hb hab
    subst hab
    have h1 : f a = k := by simpa using (List.mem_filter.1 ha).2
    obtain ⟨k', hk', hb'⟩ := List.mem_flatMap.1 hb
    have h2 : f a = k' := by simpa using (List.mem_filter.1 hb').2
    exact hk.1 (by rw [← h1, h2]; exact hk')

theorem flatMap_congr' {α β : Type} {f g : α → List β} : ∀ {l : List α}, (∀ a ∈ l, f a = g a) → l.flatMap f = l.flatMap g
  | [], _ => rfl
  | a :: l, h => by
    rw [List.flatMap_cons, List.flatMap_cons, h a List.mem_cons_self,
      flatMap_congr' (fun b hb => h b (List.mem_cons_of_mem _ hb))]

/-- the exported (voter, validator, power) triples are exactly the power section -/
theorem spons_items (s : SponsState) :
    ((exportSpons s).voterInfos.flatMap fun i => i.validators.map fun v => ((i.voter, v.1), v.2)) =
      (s.votes.map (·.1)).flatMap fun a => s.dvp.filter fun d => decide (d.1.1 = a) := by
  unfold exportSpons
  simp only [List.flatMap_map]
  apply flatMap_congr'
  intro e _
  simp only [List.map_map]
  rw [List.map_congr_left (g := id), List.map_id]
  intro d hd
  have : d.1.1 = e.1 := by simpa using (List.mem_filter.1 hd).2
  show ((e.1, d.1.2), d.2) = d
  rw [← this]

/-- **votes and recorded powers survive** -/
theorem spons_votes_dvp {s : SponsState} (h : SponsInv s) :
    (importSpons (exportSpons s)).votes = s.votes ∧ (importSpons (exportSpons s)).dvp = s.dvp := by
  unfold importSpons
  constructor
  · rw [foldl_sponsInit_votes]
    apply importWith_eq (kf := fun i : VoterInfo => i.voter) (vf := fun i => i.vote) soBytes h.sv
    · show ((exportSpons s).voterInfos.map _).Nodup
      unfold exportSpons; simp only [List.map_map]
      exact h.sv.keys_nodup soBytes
    · intro e
      unfold exportSpons
      simp only [List.mem_map]
      constructor
      · intro he; exact ⟨_, ⟨e, he, rfl⟩, rfl⟩
      · rintro ⟨i, ⟨x, hx, rfl⟩, rfl⟩; exact hx
  · rw [foldl_sponsInit_dvp, spons_items]
    have hdn : s.dvp.Nodup := List.Pairwise.imp (fun hab e => (soPair soBytes soBytes).ne_of_lt hab (congrArg Prod.fst e)) h.sd
    apply importWith_eq (kf := fun kv : (Bytes × Bytes) × Int => kv.1) (vf := fun kv => kv.2) (soPair soBytes soBytes) h.sd
    · apply nodup_map_on (nodup_flatMap_filter (fun d : (Bytes × Bytes) × Int => d.1.1) hdn (h.sv.keys_nodup soBytes))
      intro x hx y hy hxy
      obtain ⟨_, _, hx'⟩ := List.mem_flatMap.1 hx
      obtain ⟨_, _, hy'⟩ := List.mem_flatMap.1 hy
      exact h.sd.eq_of_key (soPair soBytes soBytes) (List.mem_filter.1 hx').1 (List.mem_filter.1 hy').1 hxy
    · intro e
      constructor
      · intro he
        obtain ⟨v, hv⟩ := h.own e he
        exact ⟨e, List.mem_flatMap.2 ⟨e.1.1, List.mem_map.2 ⟨_, hv, rfl⟩, List.mem_filter.2 ⟨he, by simp⟩⟩, rfl⟩
      · rintro ⟨x, hx, rfl⟩
        obtain ⟨_, _, hx'⟩ := List.mem_flatMap.1 hx
        exact (List.mem_filter.1 hx').1

theorem spons_rest (s : SponsState) :
    (importSpons (exportSpons s)).params = s.params ∧ (importSpons (exportSpons s)).endorsements = [] ∧
      (importSpons (exportSpons s)).blacklist = [] ∧
      (importSpons (exportSpons s)).dist = sponsInitDist (s.votes.map (·.2)) := by
  unfold importSpons
  obtain ⟨h1, h2, h3⟩ := foldl_sponsInit_rest (exportSpons s).voterInfos
    { params := (exportSpons s).params, votes := [], dvp := [], dist := ⟨0, []⟩, endorsements := [], blacklist := [] }
  refine ⟨h1, h2, h3, ?_⟩
  rw [foldl_sponsInit_dist]
  unfold sponsInitDist exportSpons
  simp only [List.map_map]
  rfl

/-! ### the recomputed distribution -/

theorem sponsFold_spec : ∀ (vs : List Vote) (d : Dist), (∀ v ∈ vs, VoteOK v) → Spons.Sorted d.gauges →
    (∀ g, 0 ≤ gget d.gauges g) →
    Spons.Sorted (vs.foldl (fun d v => d.merge v.toDist) d).gauges ∧
    (∀ g, gget (vs.foldl (fun d v => d.merge v.toDist) d).gauges g = gget d.gauges g + (vs.map fun v => v.pow g).sum) ∧
    (vs.foldl (fun d v => d.merge v.toDist) d).vp = d.vp + (vs.map (·.vp)).sum
  | [], d, _, hs, _ => ⟨hs, fun g => by simp, by simp⟩
  | v :: vs, d, hv, hs, hn => by
    have hv0 := hv v List.mem_cons_self
    have hts := toDist_sorted hv0
    have hg : ∀ g, gget (d.merge v.toDist).gauges g = gget d.gauges g + v.pow g := by
      intro g
      rw [merge_gget hs hts g (by rw [gget_toDist]; have := hv0.pow_nonneg g; have := hn g; omega), gget_toDist]
    have ih := sponsFold_spec vs (d.merge v.toDist) (fun w hw => hv w (List.mem_cons_of_mem _ hw))
      (merge_sorted hs hts) (fun g => by rw [hg g]; have := hv0.pow_nonneg g; have := hn g; omega)
    refine ⟨ih.1, fun g => ?_, ?_⟩
    · rw [List.foldl_cons, ih.2.1 g, hg g]; simp only [List.map_cons, List.sum_cons]; omega
    · have hvp : v.toDist.vp = v.vp := rfl
      rw [List.foldl_cons, ih.2.2]; simp only [List.map_cons, List.sum_cons, Dist.merge, hvp]; omega

/-- the distribution `ImportGenesis` recomputes: per gauge the sum of the votes' powers, in total the
    sum of the votes' voting powers -/
theorem sponsInitDist_spec (vs : List Vote) (hv : ∀ v ∈ vs, VoteOK v) :
    (∀ g, gget (sponsInitDist vs).gauges g = (vs.map fun v => v.pow g).sum) ∧
    (sponsInitDist vs).vp = (vs.map (·.vp)).sum := by
  have := sponsFold_spec vs ⟨0, []⟩ hv trivial (fun g => by simp [gget])
  unfold sponsInitDist
  exact ⟨fun g => by rw [this.2.1 g]; simp [gget], by rw [this.2.2]; simp⟩

end DymVerif.Genesis
