/-
  Lemmas/LCNext — the third field of the agreement, the next-sequencer hash.  The property names three fields
  (state root, timestamp, next-sequencer hash); `Agrees` / `AgreeInv` (Lemmas/LCAgree) carry the first two, which
  are fixed once a descriptor and a consensus state exist.  The next sequencer of a height is not stored with the
  descriptor: `StateInfo.NextSequencerForHeight` reads it from the state info AS IT IS WHEN IT IS ASKED (creator
  below the last height, `NextProposer` at the last height — and a fork may shorten a state info), so the third
  field is stated at each of the three moments at which the code compares it, against the state info of that moment:
  designation (`validLoop_all_next`), a header for a posted height (`handleUpdate_ok_next`), a state update over an
  optimistic consensus state (`validateStateInfo_agrees_next`, used by the hook through `validateNew_ok`).
-/
import DymVerif.Lemmas.LCDesig
namespace DymVerif.LC
open DymVerif.Core (Addr NextP)

/-- the consensus state names, as next validator set, the sequencer the state info `st` gives for the block after `h` -/
def AgreesNext (core : Core.St) (st : Core.SInfo) (h : Nat) (cs : Cons) : Prop :=
  ∃ q, nextSeqFor core st h = some q ∧ cs.nextVal = valHash q

/-- all three fields -/
def Agrees3 (s : St) (st : Core.SInfo) (h : Nat) (cs : Cons) (d : Desc) : Prop :=
  Agrees cs d ∧ AgreesNext s.core st h cs

theorem compat_none_next {cs : Cons} {root : Nat} {ts : Option Nat} {q : Addr} (h : compat cs root ts q = none) :
    cs.nextVal = valHash q := by
  unfold compat at h
  by_cases h1 : (cs.root != root) = true
  · simp [h1] at h
  · by_cases h3 : (cs.nextVal != valHash q) = true
    · cases ts with
      | none => simp [h1, h3] at h
      | some t =>
        by_cases h2 : (cs.ts != t) = true
        · simp [h1, h2] at h
        · simp [h1, h2, h3] at h
    · simpa using h3

/-- `ValidateHeaderAgainstStateInfo` passing means: the height is inside the state info, its descriptor exists and
    all three fields agree -/
theorem validateHeader_none_next {s : St} {ra : Nat} {st : Core.SInfo} {cs : Cons} {h : Nat} (hv : validateHeader s ra st cs h = none) :
    st.contains h = true ∧ ∃ d, getDesc s ra h = some d ∧ Agrees3 s st h cs d := by
  unfold validateHeader at hv
  split at hv
  · exact absurd hv (by simp)
  · rename_i hc
    refine ⟨by simpa using hc, ?_⟩
    cases hd : getDesc s ra h with
    | none => simp [hd] at hv
    | some d =>
      simp only [hd] at hv
      cases hq : nextSeqFor s.core st h with
      | none => simp [hq] at hv
      | some q =>
        simp only [hq] at hv
        exact ⟨d, rfl, compat_none hv, q, hq, compat_none_next hv⟩

/-- the three-field conflict is refused: a consensus state that differs from the descriptor in any of the three
    fields does not pass `ValidateHeaderAgainstStateInfo` -/
theorem validateHeader_conflict {s : St} {ra : Nat} {st : Core.SInfo} {cs : Cons} {h : Nat} {d : Desc}
    (hd : getDesc s ra h = some d) (hconf : ¬ Agrees3 s st h cs d) : (validateHeader s ra st cs h).isSome = true := by
  cases hv : validateHeader s ra st cs h with
  | some e => rfl
  | none =>
    obtain ⟨_, d0, hd0, ha⟩ := validateHeader_none_next hv
    rw [hd] at hd0; cases hd0
    exact absurd ha hconf

theorem validateStateInfo_agrees_next {s : St} {cl : Client} {ra : Nat} {st : Core.SInfo} {m : Bool}
    (h : validateStateInfo s cl ra st = (m, none)) {ht : Nat} {cs : Cons} (h1 : st.start ≤ ht) (h2 : ht ≤ st.last)
    (hc : getCons cl ht = some cs) : ∃ d, getDesc s ra ht = some d ∧ Agrees3 s st ht cs d := by
  unfold validateStateInfo at h
  exact (validateHeader_none_next (validateRange_none _ _ _ h ht (mem_heightsOf h1 h2) cs hc)).2

/-- an accepted designation has compared all three fields of *every* consensus state of the client that lies inside
    a state info of the rollapp -/
theorem validLoop_all_next {s : St} {cl : Client} {ra : Nat} {states : List Core.SInfo} {b : Bool} (hch : Core.Chain states)
    (h : validLoop s cl ra (firstConsHeight cl) states.reverse false = (b, none)) :
    ∀ st ∈ states, ∀ ht cs, st.start ≤ ht → ht ≤ st.last → getCons cl ht = some cs →
      ∃ d, getDesc s ra ht = some d ∧ Agrees3 s st ht cs d := by
  intro st hst ht cs h1 h2 hc
  obtain ⟨v1, _⟩ := validLoop_sound s cl ra (firstConsHeight cl) states.reverse false b h
  have hbase : firstConsHeight cl ≤ ht := firstConsHeight_le (getCons_mem hc)
  have hw := hch.wf st hst
  rcases visited_cover (firstConsHeight cl) states.reverse (chain_pairwise_rev hch) st (List.mem_reverse.2 hst) with hv | hlow
  · obtain ⟨m1, hm1⟩ := v1 st hv
    exact validateStateInfo_agrees_next hm1 h1 h2 hc
  · exfalso
    have hnp := hw.num_pos
    have : st.last = st.start + st.num - 1 := by
      unfold Core.SInfo.last
      split
      · rfl
      · omega
    omega

/-- a header the ante handler lets through for a height some state info of the named sequencer's rollapp covers
    agrees with the descriptor of that height in all three fields (next sequencer: as that state info says now) -/
theorem handleUpdate_ok_next {s s1 : St} {c : Nat} {hd : Hdr} (h : handleUpdate s c hd = (s1, none))
    {q : Core.Seq} (hq : Core.getSeq s.core hd.propData = some q) {r : Core.Rollapp} (hr : Core.getRa s.core q.rollapp = some r)
    {i : Nat} (hi : Core.findByHeight r hd.h = some i) :
    ∃ st d, r.states[i - 1]? = some st ∧ st.contains hd.h = true ∧ getDesc s q.rollapp hd.h = some d ∧ Agrees3 s st hd.h hd.cons d := by
  unfold handleUpdate at h
  simp only [hq, hr, hi] at h
  split at h
  · simp at h
  split at h
  · simp at h
  split at h
  · simp at h
  split at h
  · simp at h
  split at h
  · simp at h
  cases hst : r.states[i - 1]? with
  | none => simp [hst] at h
  | some st =>
    simp only [hst] at h
    cases hv : validateHeader s q.rollapp st hd.cons hd.h with
    | some e => simp [hv] at h
    | none =>
      obtain ⟨hc, d, hd', ha⟩ := validateHeader_none_next hv
      exact ⟨st, d, rfl, hc, hd', ha⟩

end DymVerif.LC
