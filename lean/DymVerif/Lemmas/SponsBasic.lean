import DymVerif.Model.Spons
/-
  Lemmas/SponsBasic — gauge lists as functions gauge ↦ power (`gget`), strictly sorted gauge lists,
  and the algebra of `mergeG` / `sortG` / `applyWeights` / `negate` on them.  Core Lean only.
-/
namespace DymVerif.Spons

/-- power of gauge `g` in a gauge list (sum over the entries with that id) -/
def gget : List GP → Nat → Int
  | [], _ => 0
  | x :: xs, g => (if x.1 = g then x.2 else 0) + gget xs g

/-- every id in the list is above `k` -/
def LB (k : Nat) (l : List GP) : Prop := ∀ x ∈ l, k < x.1

/-- strictly increasing gauge ids -/
def Sorted : List GP → Prop
  | [] => True
  | x :: xs => LB x.1 xs ∧ Sorted xs

theorem LB_nil (k : Nat) : LB k [] := by intro x hx; cases hx

theorem LB_cons {k : Nat} {x : GP} {xs : List GP} : LB k (x :: xs) ↔ k < x.1 ∧ LB k xs := by
  constructor
  · intro h; exact ⟨h x (by simp), fun y hy => h y (by simp [hy])⟩
  · intro ⟨h1, h2⟩ y hy
    rcases List.mem_cons.mp hy with rfl | hy
    · exact h1
    · exact h2 y hy

theorem LB_mono {k k' : Nat} {l : List GP} (h : LB k' l) (hk : k ≤ k') : LB k l :=
  fun x hx => Nat.lt_of_le_of_lt hk (h x hx)

theorem gget_of_LB {k : Nat} {l : List GP} (h : LB k l) {g : Nat} (hg : g ≤ k) : gget l g = 0 := by
  induction l with
  | nil => rfl
  | cons x xs ih =>
    have ⟨h1, h2⟩ := LB_cons.mp h
    have : x.1 ≠ g := by omega
    simp [gget, this, ih h2]

theorem LB_keep {k : Nat} {x : GP} {l : List GP} (hx : k < x.1) (hl : LB k l) : LB k (keep x l) := by
  unfold keep; split
  · exact LB_cons.mpr ⟨hx, hl⟩
  · exact hl

theorem Sorted_keep {x : GP} {l : List GP} (hx : LB x.1 l) (hl : Sorted l) : Sorted (keep x l) := by
  unfold keep; split
  · exact ⟨hx, hl⟩
  · exact hl

theorem gget_keep (x : GP) (l : List GP) (g : Nat) :
    gget (keep x l) g = (if x.1 = g ∧ 0 < x.2 then x.2 else 0) + gget l g := by
  unfold keep; split <;> rename_i h
  · simp [gget, h]
  · simp [h]

theorem LB_mergeG {k : Nat} (n : Nat) (a b : List GP) (ha : LB k a) (hb : LB k b) : LB k (mergeG n a b) := by
  fun_induction mergeG n a b with
  | case1 l r => intro x hx; rcases List.mem_append.mp hx with h | h; exact ha x h; exact hb x h
  | case2 _ r => exact hb
  | case3 _ a l => exact ha
  | case4 n a l b r h ih =>
    have ⟨a1, a2⟩ := LB_cons.mp ha; have ⟨b1, b2⟩ := LB_cons.mp hb
    exact LB_keep (by simpa using a1) (ih a2 b2)
  | case5 n a l b r h1 h2 ih =>
    have ⟨a1, a2⟩ := LB_cons.mp ha
    exact LB_keep a1 (ih a2 hb)
  | case6 n a l b r h1 h2 ih =>
    have ⟨b1, b2⟩ := LB_cons.mp hb
    exact LB_keep b1 (ih ha b2)

theorem Sorted_mergeG (n : Nat) (a b : List GP) (ha : Sorted a) (hb : Sorted b) (hn : a.length + b.length ≤ n) :
    Sorted (mergeG n a b) := by
  fun_induction mergeG n a b with
  | case1 l r =>
    have hl : l = [] := List.eq_nil_of_length_eq_zero (by omega)
    have hr : r = [] := List.eq_nil_of_length_eq_zero (by omega)
    subst hl hr; trivial
  | case2 _ r => exact hb
  | case3 _ a l => exact ha
  | case4 n a l b r h ih =>
    simp only [List.length_cons] at hn
    refine Sorted_keep (LB_mergeG _ _ _ ha.1 ?_) (ih ha.2 hb.2 (by omega))
    simpa [h] using hb.1
  | case5 n a l b r h1 h2 ih =>
    simp only [List.length_cons] at hn
    refine Sorted_keep (LB_mergeG _ _ _ ha.1 ?_) (ih ha.2 hb (by simp only [List.length_cons]; omega))
    exact LB_cons.mpr ⟨h2, LB_mono hb.1 (Nat.le_of_lt h2)⟩
  | case6 n a l b r h1 h2 ih =>
    simp only [List.length_cons] at hn
    have hlt : b.1 < a.1 := by omega
    refine Sorted_keep (LB_mergeG _ _ _ ?_ hb.1) (ih ha hb.2 (by simp only [List.length_cons]; omega))
    exact LB_cons.mpr ⟨hlt, LB_mono ha.1 (Nat.le_of_lt hlt)⟩

/-- on strictly sorted lists the merge adds powers gauge by gauge — wherever the sum is not negative
    (a non-positive sum inside the loop is dropped, i.e. read as 0; the tails are kept as they are) -/
theorem gget_mergeG (n : Nat) (a b : List GP) (g : Nat) (ha : Sorted a) (hb : Sorted b)
    (hn : a.length + b.length ≤ n) (hs : 0 ≤ gget a g + gget b g) :
    gget (mergeG n a b) g = gget a g + gget b g := by
  fun_induction mergeG n a b with
  | case1 l r =>
    have hl : l = [] := List.eq_nil_of_length_eq_zero (by omega)
    have hr : r = [] := List.eq_nil_of_length_eq_zero (by omega)
    subst hl hr; rfl
  | case2 _ r => simp [gget]
  | case3 _ a l => simp [gget]
  | case4 n a l b r h ih =>
    simp only [List.length_cons] at hn
    rw [gget_keep]
    by_cases hg : a.1 = g
    · have hl0 : gget l g = 0 := gget_of_LB ha.1 (by omega)
      have hr0 : gget r g = 0 := gget_of_LB hb.1 (by omega)
      have hb' : b.1 = g := by omega
      simp only [gget, hg, hb', if_true, hl0, hr0] at hs ⊢
      rw [ih ha.2 hb.2 (by omega) (by simp [hl0, hr0]), hl0, hr0]
      by_cases hp : 0 < a.2 + b.2
      · simp [hp]
      · have : a.2 + b.2 = 0 := by omega
        simp [hp]; omega
    · have hb' : ¬ b.1 = g := by omega
      simp only [gget, hg, hb', if_false, false_and] at hs ⊢
      rw [ih ha.2 hb.2 (by omega) (by simpa using hs)]; simp
  | case5 n a l b r h1 h2 ih =>
    simp only [List.length_cons] at hn
    rw [gget_keep]
    by_cases hg : a.1 = g
    · have hl0 : gget l g = 0 := gget_of_LB ha.1 (by omega)
      have hbr0 : gget (b :: r) g = 0 :=
        gget_of_LB (LB_cons.mpr ⟨h2, LB_mono hb.1 (Nat.le_of_lt h2)⟩) (by omega)
      simp only [gget, hg, if_true, hl0] at hs ⊢
      rw [ih ha.2 hb (by simp only [List.length_cons]; omega) (by rw [hl0, hbr0]; omega), hl0, hbr0]
      simp only [gget] at hbr0
      by_cases hp : 0 < a.2
      · simp [hp]; omega
      · simp [hp]; omega
    · simp only [gget, hg, if_false, false_and] at hs ⊢
      rw [ih ha.2 hb (by simp only [List.length_cons]; omega) (by simpa [gget] using hs)]
      simp [gget]
  | case6 n a l b r h1 h2 ih =>
    simp only [List.length_cons] at hn
    have hlt : b.1 < a.1 := by omega
    rw [gget_keep]
    by_cases hg : b.1 = g
    · have hr0 : gget r g = 0 := gget_of_LB hb.1 (by omega)
      have hal0 : gget (a :: l) g = 0 :=
        gget_of_LB (LB_cons.mpr ⟨hlt, LB_mono ha.1 (Nat.le_of_lt hlt)⟩) (by omega)
      have hs' : 0 ≤ b.2 := by
        have := hs; simp only [gget, hg, if_true, hr0] at this
        simp only [gget] at hal0; omega
      rw [ih ha hb.2 (by simp only [List.length_cons]; omega) (by rw [hal0, hr0]; omega), hal0, hr0]
      simp only [gget, hg, if_true, hr0]
      simp only [gget] at hal0
      by_cases hp : 0 < b.2
      · simp [hp] <;> omega
      · simp [hp] <;> omega
    · have hs' : 0 ≤ gget (a :: l) g + gget r g := by
        simpa [gget, hg] using hs
      rw [ih ha hb.2 (by simp only [List.length_cons]; omega) hs']
      simp [gget, hg]

/-! ### sortG / applyWeights -/

theorem gget_insertG (x : GP) (l : List GP) (g : Nat) :
    gget (insertG x l) g = (if x.1 = g then x.2 else 0) + gget l g := by
  induction l with
  | nil => simp [insertG, gget]
  | cons y ys ih =>
    simp only [insertG]; split
    · simp [gget]
    · simp only [gget, ih]; omega

theorem gget_sortG (l : List GP) (g : Nat) : gget (sortG l) g = gget l g := by
  induction l with
  | nil => rfl
  | cons x xs ih => simp only [sortG, List.foldr_cons] at ih ⊢; rw [gget_insertG, ih]; rfl

theorem mem_insertG {x y : GP} {l : List GP} : y ∈ insertG x l ↔ y = x ∨ y ∈ l := by
  induction l with
  | nil => simp [insertG]
  | cons z zs ih =>
    simp only [insertG]; split
    · simp
    · simp [ih]; constructor
      · rintro (h | h | h) <;> simp [h]
      · rintro (h | h | h) <;> simp [h]

theorem mem_sortG {y : GP} {l : List GP} : y ∈ sortG l ↔ y ∈ l := by
  induction l with
  | nil => simp [sortG]
  | cons x xs ih => simp only [sortG, List.foldr_cons] at ih ⊢; rw [mem_insertG, ih]; simp

/-- no id of the list equals `k` -/
def NotIn (k : Nat) (l : List GP) : Prop := ∀ x ∈ l, x.1 ≠ k

/-- pairwise distinct ids -/
def Nodup : List GP → Prop
  | [] => True
  | x :: xs => NotIn x.1 xs ∧ Nodup xs

theorem LB_insertG {k : Nat} {x : GP} {l : List GP} (hx : k < x.1) (hl : LB k l) : LB k (insertG x l) := by
  intro y hy; rcases mem_insertG.mp hy with rfl | h
  · exact hx
  · exact hl y h

theorem Sorted_insertG {x : GP} {l : List GP} (hl : Sorted l) (hx : NotIn x.1 l) : Sorted (insertG x l) := by
  induction l with
  | nil => exact ⟨LB_nil _, trivial⟩
  | cons y ys ih =>
    simp only [insertG]; split <;> rename_i h
    · have hne : y.1 ≠ x.1 := hx y (by simp)
      have hlt : x.1 < y.1 := by omega
      exact ⟨LB_cons.mpr ⟨hlt, LB_mono hl.1 (Nat.le_of_lt hlt)⟩, hl⟩
    · refine ⟨LB_insertG (by omega) hl.1, ih hl.2 (fun z hz => hx z (by simp [hz]))⟩

theorem Sorted_sortG {l : List GP} (h : Nodup l) : Sorted (sortG l) := by
  induction l with
  | nil => trivial
  | cons x xs ih =>
    simp only [sortG, List.foldr_cons] at ih ⊢
    exact Sorted_insertG (ih h.2) (fun y hy => h.1 y (mem_sortG.mp hy))

theorem length_insertG (x : GP) (l : List GP) : (insertG x l).length = l.length + 1 := by
  induction l with
  | nil => rfl
  | cons y ys ih => simp only [insertG]; split <;> simp [ih]

theorem length_sortG (l : List GP) : (sortG l).length = l.length := by
  induction l with
  | nil => rfl
  | cons x xs ih => simp only [sortG, List.foldr_cons] at ih ⊢; rw [length_insertG, ih]; simp

/-- power that the weight list `ws` gives gauge `g` at voting power `vp` (sum over matching weights) -/
def wpow (vp : Int) : List GP → Nat → Int
  | [], _ => 0
  | w :: ws, g => (if w.1 = g then gpow vp w.2 else 0) + wpow vp ws g

theorem gget_map_gpow (vp : Int) (ws : List GP) (g : Nat) :
    gget (ws.map fun x => (x.1, gpow vp x.2)) g = wpow vp ws g := by
  induction ws with
  | nil => rfl
  | cons w ws ih => simp [gget, wpow, ih]

theorem gget_applyWeights (vp : Int) (ws : List GP) (g : Nat) :
    gget (applyWeights vp ws).gauges g = wpow vp ws g := by
  simp [applyWeights, gget_sortG, gget_map_gpow]

theorem Nodup_map {f : Int → Int} {ws : List GP} (h : Nodup ws) : Nodup (ws.map fun x => (x.1, f x.2)) := by
  induction ws with
  | nil => trivial
  | cons w ws ih =>
    refine ⟨?_, ih h.2⟩
    intro y hy
    rcases List.mem_map.mp hy with ⟨z, hz, rfl⟩
    exact h.1 z hz

theorem Sorted_applyWeights {vp : Int} {ws : List GP} (h : Nodup ws) : Sorted (applyWeights vp ws).gauges :=
  Sorted_sortG (Nodup_map (f := gpow vp) h)

theorem gget_negate (l : List GP) (g : Nat) : gget (l.map fun x => (x.1, -x.2)) g = - gget l g := by
  induction l with
  | nil => rfl
  | cons x xs ih => simp only [List.map_cons, gget, ih]; split <;> omega

theorem Sorted_negate {l : List GP} (h : Sorted l) : Sorted (l.map fun x => (x.1, -x.2)) := by
  induction l with
  | nil => trivial
  | cons x xs ih =>
    refine ⟨?_, ih h.2⟩
    intro y hy
    rcases List.mem_map.mp hy with ⟨z, hz, rfl⟩
    exact h.1 z hz

/-- `nodupIds` (the executable check) implies `Nodup` -/
theorem Nodup_of_nodupIds {ws : List GP} (h : nodupIds ws = true) : Nodup ws := by
  induction ws with
  | nil => trivial
  | cons w ws ih =>
    simp only [nodupIds, Bool.and_eq_true, Bool.not_eq_true', List.any_eq_false, beq_iff_eq] at h
    exact ⟨fun x hx => by simpa using h.1 x hx, ih h.2⟩

/-- with distinct ids `Vote.GetGaugePower` (first match) is the summed power -/
theorem gaugePowerW_eq_wpow {vp : Int} {ws : List GP} (h : Nodup ws) (g : Nat) :
    gaugePowerW vp ws g = wpow vp ws g := by
  induction ws with
  | nil => rfl
  | cons w ws ih =>
    simp only [gaugePowerW, wpow]
    split <;> rename_i hw
    · have : wpow vp ws g = 0 := by
        have hn := h.1
        clear ih
        induction ws with
        | nil => rfl
        | cons z zs ih2 =>
          have hz : z.1 ≠ g := by have := hn z (by simp); omega
          simp only [wpow, hz, if_false]
          rw [ih2 ⟨fun y hy => h.1 y (by simp [hy]), h.2.2⟩ (fun y hy => hn y (by simp [hy]))]; simp
      omega
    · rw [ih h.2]; simp

end DymVerif.Spons
