/-
  Lemmas/KeysAddrTable — what `validateAliasesOfChainIds` establishes (all chain-ids and aliases of
  the table pairwise distinct, in any order; every text in its validator's language) and what that
  gives the two translations through the table.  Core Lean only.
-/
import DymVerif.Lemmas.KeysAddr
namespace DymVerif.Keys
open DymVerif

/-- the table is well formed: every listed text is listed once, chain-ids and aliases are in their
    validators' languages -/
structure TableWF (t : Chains) : Prop where
  nodup : (tableNames t).Nodup
  chains : ∀ r ∈ t, validChainIdFormat r.chainId = true
  aliases : ∀ r ∈ t, ∀ a ∈ r.aliases, validAlias a = true

theorem validateAliases_ok : ∀ (as seen s' : List Bytes), validateAliases seen as = .ok s' →
    s' = as.reverse ++ seen ∧ (∀ a ∈ as, validAlias a = true) ∧ as.Nodup ∧ (∀ a ∈ as, a ∉ seen)
  | [], seen, s', h => by
    simp only [validateAliases, Except.ok.injEq] at h
    simp [h]
  | a :: as, seen, s', h => by
    simp only [validateAliases] at h
    split at h
    · simp at h
    · rename_i hv
      split at h
      · simp at h
      · rename_i hs
        obtain ⟨h1, h2, h3, h4⟩ := validateAliases_ok as (a :: seen) s' h
        simp only [Bool.not_eq_true, Bool.not_eq_false'] at hv
        simp only [List.contains_iff_mem] at hs
        have hs' : a ∉ seen := by simpa using hs
        refine ⟨by simp [h1], ?_, ?_, ?_⟩
        · intro x hx; rcases List.mem_cons.mp hx with rfl | hx
          · exact hv
          · exact h2 x hx
        · refine List.nodup_cons.mpr ⟨fun hm => ?_, h3⟩
          exact h4 a hm (by simp)
        · intro x hx; rcases List.mem_cons.mp hx with rfl | hx
          · exact hs'
          · exact fun hm => h4 x hx (by simp [hm])

theorem validateRecs_ok : ∀ (t : Chains) (seen s' : List Bytes), validateRecs seen t = .ok s' →
    (tableNames t).Nodup ∧ (∀ x ∈ tableNames t, x ∉ seen) ∧ s' = (tableNames t).reverse ++ seen ∧
      (∀ r ∈ t, validChainIdFormat r.chainId = true) ∧ (∀ r ∈ t, ∀ a ∈ r.aliases, validAlias a = true)
  | [], seen, s', h => by
    simp only [validateRecs, Except.ok.injEq] at h
    simp [tableNames, h]
  | r :: rs, seen, s', h => by
    simp only [validateRecs] at h
    split at h
    · simp at h
    · split at h
      · simp at h
      · rename_i hv
        split at h
        · simp at h
        · rename_i hs
          split at h
          · simp at h
          · rename_i seen1 ha
            obtain ⟨a1, a2, a3, a4⟩ := validateAliases_ok _ _ _ ha
            obtain ⟨b1, b2, b3, b4, b5⟩ := validateRecs_ok rs seen1 s' h
            simp only [Bool.not_eq_true, Bool.not_eq_false'] at hv
            have hs' : r.chainId ∉ seen := by simpa using hs
            subst a1
            refine ⟨?_, ?_, ?_, ?_, ?_⟩
            · simp only [tableNames]
              refine List.nodup_cons.mpr ⟨?_, List.nodup_append.mpr ⟨a3, b1, ?_⟩⟩
              · intro hm
                rcases List.mem_append.mp hm with hm | hm
                · exact a4 _ hm (by simp)
                · exact b2 _ hm (by simp)
              · intro x hx y hy hxy
                subst hxy
                exact b2 x hy (by simp [hx])
            · intro x hx
              simp only [tableNames, List.mem_cons, List.mem_append] at hx
              rcases hx with (rfl | hx) | hx
              · exact hs'
              · exact fun hm => a4 x hx (by simp [hm])
              · exact fun hm => b2 x hx (by simp [hm])
            · simp [b3, tableNames]
            · intro q hq; rcases List.mem_cons.mp hq with rfl | hq
              · exact hv
              · exact b4 q hq
            · intro q hq; rcases List.mem_cons.mp hq with rfl | hq
              · exact a2
              · exact b5 q hq

/-- what the validation establishes -/
theorem validChains_wf {t : Chains} (h : validChains t = true) : TableWF t := by
  unfold validChains validateChains at h
  split at h
  · rename_i hx
    split at hx
    · simp at hx
    · rename_i s hs
      obtain ⟨b1, _, _, b4, b5⟩ := validateRecs_ok t [] s hs
      exact ⟨b1, b4, b5⟩
  · simp at h

/-! ### one text, one record -/

/-- the record test of `tryResolveChainIdOrAliasToChainId` -/
def namesRec (x : Bytes) (r : ChainRec) : Bool := x == r.chainId || r.aliases.contains x

theorem mem_tableNames {t : Chains} {r : ChainRec} {x : Bytes} (hr : r ∈ t) (hx : x ∈ r.chainId :: r.aliases) :
    x ∈ tableNames t := by
  induction t with
  | nil => simp at hr
  | cons r0 rs ih =>
    simp only [tableNames]
    rcases List.mem_cons.mp hr with rfl | hr
    · rcases List.mem_cons.mp hx with rfl | hx
      · simp
      · simp [hx]
    · have := ih hr
      simp [this]

/-- in a table without repeated texts, a text listed in record `r` (as chain-id or alias) finds `r` -/
theorem find_name {t : Chains} (hn : (tableNames t).Nodup) {r : ChainRec} {x : Bytes} (hr : r ∈ t)
    (hx : x ∈ r.chainId :: r.aliases) : t.find? (namesRec x) = some r := by
  induction t with
  | nil => simp at hr
  | cons r0 rs ih =>
    simp only [tableNames] at hn
    have hn' := List.nodup_cons.mp hn
    have hap := List.nodup_append.mp hn'.2
    rcases List.mem_cons.mp hr with rfl | hr
    · have : namesRec x r = true := by
        rcases List.mem_cons.mp hx with rfl | hx
        · simp [namesRec]
        · simp [namesRec, hx]
      simp [List.find?, this]
    · have hxs : x ∈ tableNames rs := mem_tableNames hr hx
      have h1 : x ≠ r0.chainId := by
        intro e; subst e; exact hn'.1 (by simp [hxs])
      have h2 : x ∉ r0.aliases := fun hm => hap.2.2 x hm x hxs rfl
      have : namesRec x r0 = false := by simp [namesRec, h1, h2]
      simp only [List.find?, this]
      exact ih hap.2.1 hr

theorem rec_nodup {t : Chains} (hn : (tableNames t).Nodup) {r : ChainRec} (hr : r ∈ t) :
    (r.chainId :: r.aliases).Nodup := by
  induction t with
  | nil => simp at hr
  | cons r0 rs ih =>
    simp only [tableNames] at hn
    have hn' := List.nodup_cons.mp hn
    have hap := List.nodup_append.mp hn'.2
    rcases List.mem_cons.mp hr with rfl | hr
    · exact List.nodup_cons.mpr ⟨fun hm => hn'.1 (by simp [hm]), hap.1⟩
    · exact ih hap.2.1 hr

theorem mem_tableAliases {t : Chains} {a : Bytes} : a ∈ tableAliases t ↔ ∃ r ∈ t, a ∈ r.aliases := by
  simp [tableAliases, List.mem_flatMap]

theorem mem_tableChainIds {t : Chains} {c : Bytes} : c ∈ tableChainIds t ↔ ∃ r ∈ t, r.chainId = c := by
  simp [tableChainIds, List.mem_map]

theorem toChainId_eq (host : Bytes) (t : Chains) (x : Bytes) :
    toChainId host t x = if x = host then some x else (t.find? (namesRec x)).map (·.chainId) := by
  unfold toChainId
  split
  · rfl
  · have : (fun r : ChainRec => x == r.chainId || r.aliases.contains x) = namesRec x := rfl
    rw [this]; cases t.find? (namesRec x) <;> rfl

end DymVerif.Keys

namespace DymVerif.Keys
open DymVerif

theorem validateAliases_complete : ∀ (as seen : List Bytes), (∀ a ∈ as, validAlias a = true) → as.Nodup →
    (∀ a ∈ as, a ∉ seen) → validateAliases seen as = .ok (as.reverse ++ seen)
  | [], seen, _, _, _ => by simp [validateAliases]
  | a :: as, seen, hv, hn, hs => by
    have hn' := List.nodup_cons.mp hn
    have h1 : validAlias a = true := hv a (by simp)
    have h2 : a ∉ seen := hs a (by simp)
    have ih := validateAliases_complete as (a :: seen) (fun x hx => hv x (by simp [hx])) hn'.2
      (fun x hx hm => by
        rcases List.mem_cons.mp hm with rfl | hm
        · exact hn'.1 hx
        · exact hs x (by simp [hx]) hm)
    simp [validateAliases, h1, h2, ih]

theorem validChainIdFormat_len {s : Bytes} (h : validChainIdFormat s = true) : ¬ s.length < 3 := by
  simp only [validChainIdFormat, Bool.and_eq_true, decide_eq_true_eq] at h
  omega

theorem validateRecs_complete : ∀ (t : Chains) (seen : List Bytes), (tableNames t).Nodup →
    (∀ x ∈ tableNames t, x ∉ seen) → (∀ r ∈ t, validChainIdFormat r.chainId = true) →
    (∀ r ∈ t, ∀ a ∈ r.aliases, validAlias a = true) →
    validateRecs seen t = .ok ((tableNames t).reverse ++ seen)
  | [], seen, _, _, _, _ => by simp [validateRecs, tableNames]
  | r :: rs, seen, hn, hs, hc, ha => by
    simp only [tableNames] at hn hs
    have hn' := List.nodup_cons.mp hn
    have hap := List.nodup_append.mp hn'.2
    have h1 := hc r (by simp)
    have h2 : r.chainId ∉ seen := hs r.chainId (by simp)
    have hal := validateAliases_complete r.aliases (r.chainId :: seen) (ha r (by simp)) hap.1
      (fun x hx hm => by
        rcases List.mem_cons.mp hm with rfl | hm
        · exact hn'.1 (by simp [hx])
        · exact hs x (by simp [hx]) hm)
    have ih := validateRecs_complete rs (r.aliases.reverse ++ r.chainId :: seen) hap.2.1
      (fun x hx hm => by
        simp only [List.mem_append, List.mem_reverse, List.mem_cons] at hm
        rcases hm with hm | rfl | hm
        · exact hap.2.2 x hm x hx rfl
        · exact hn'.1 (by simp [hx])
        · exact hs x (by simp [hx]) hm)
      (fun q hq => hc q (by simp [hq])) (fun q hq => ha q (by simp [hq]))
    simp [validateRecs, validChainIdFormat_len h1, h1, h2, hal, ih, tableNames]

/-- the validation refuses nothing else: a table whose texts are pairwise distinct and well formed is accepted -/
theorem validChains_of_wf {t : Chains} (w : TableWF t) : validChains t = true := by
  unfold validChains validateChains
  rw [validateRecs_complete t [] w.nodup (by simp) w.chains w.aliases]

end DymVerif.Keys

namespace DymVerif.Keys
open DymVerif

theorem tableNames_append : ∀ (a b : Chains), tableNames (a ++ b) = tableNames a ++ tableNames b
  | [], _ => rfl
  | r :: rs, b => by simp [tableNames, tableNames_append rs b]

theorem mem_tableNames_reverse (x : Bytes) : ∀ l : Chains, x ∈ tableNames l.reverse ↔ x ∈ tableNames l
  | [] => by simp
  | a :: as => by
    have ih := mem_tableNames_reverse x as
    simp only [List.reverse_cons, tableNames_append, tableNames, List.mem_append, List.mem_cons, List.append_nil, ih]
    exact Or.comm

/-- the texts of the reversed table are a permutation of the table's: distinctness is kept -/
theorem tableNames_reverse_nodup : ∀ (t : Chains), (tableNames t).Nodup → (tableNames t.reverse).Nodup
  | [], h => h
  | r :: rs, h => by
    simp only [tableNames] at h
    have hn' := List.nodup_cons.mp h
    have hap := List.nodup_append.mp hn'.2
    have ih := tableNames_reverse_nodup rs hap.2.1
    simp only [List.reverse_cons, tableNames_append, tableNames, List.append_nil]
    refine List.nodup_append.mpr ⟨ih, List.nodup_cons.mpr ⟨fun hm => hn'.1 (by simp [hm]), hap.1⟩, ?_⟩
    intro a ha b hb hab
    subst hab
    rw [mem_tableNames_reverse] at ha
    rcases List.mem_cons.mp hb with rfl | hb
    · exact hn'.1 (by simp [ha])
    · exact hap.2.2 a hb a ha rfl

end DymVerif.Keys
