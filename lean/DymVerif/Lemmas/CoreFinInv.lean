/-
  Lemmas/CoreFinInv — the finalization invariant holds in every reachable state (`run_fin`) and every
  transition keeps all finalized states (`apply_good`, `run_evolves`).
-/
import DymVerif.Lemmas.CoreFinFork
import DymVerif.Lemmas.CoreFinUpdate
import DymVerif.Lemmas.CoreFinEnd2
namespace DymVerif.Core

-- ---------------------------------------------------------------- before / after a finalization pass

/-- same height and params; every rollapp survives with the same number of states, each of which
    is either untouched or was unfinalized and got finalized at this height -/
def FinRel (s s' : St) : Prop :=
  s'.h = s.h ∧ s'.p = s.p ∧ s'.ras.map (·.id) = s.ras.map (·.id) ∧ ∀ r ∈ s.ras, ∃ r' ∈ s'.ras, r'.id = r.id ∧ r'.states.length = r.states.length ∧
    ∀ (i : Nat) (st : SInfo), r.states[i]? = some st → ∃ st', r'.states[i]? = some st' ∧
      (st' = st ∨ (st.finalized = false ∧ st' = { st with finalized := true, finalizedAt := s.h }))

theorem FinRel.refl (s : St) : FinRel s s :=
  ⟨rfl, rfl, rfl, fun r hr => ⟨r, hr, rfl, rfl, fun _ st hst => ⟨st, hst, Or.inl rfl⟩⟩⟩

theorem FinRel.trans {a b c : St} (h1 : FinRel a b) (h2 : FinRel b c) : FinRel a c := by
  obtain ⟨a1, a2, a4, a3⟩ := h1
  obtain ⟨b1, b2, b4, b3⟩ := h2
  refine ⟨b1.trans a1, b2.trans a2, b4.trans a4, ?_⟩
  intro r hr
  obtain ⟨r1, hr1, e1, l1, f1⟩ := a3 r hr
  obtain ⟨r2, hr2, e2, l2, f2⟩ := b3 r1 hr1
  refine ⟨r2, hr2, e2.trans e1, l2.trans l1, ?_⟩
  intro i st hst
  obtain ⟨st1, hst1, c1⟩ := f1 i st hst
  obtain ⟨st2, hst2, c2⟩ := f2 i st1 hst1
  refine ⟨st2, hst2, ?_⟩
  rcases c1 with c1 | ⟨c1, c1'⟩
  · subst c1
    rcases c2 with c2 | ⟨c2, c2'⟩
    · exact Or.inl c2
    · exact Or.inr ⟨c2, by rw [c2', a1]⟩
  · rcases c2 with c2 | ⟨c2, _⟩
    · exact Or.inr ⟨c1, by rw [c2, c1']⟩
    · rw [c1'] at c2; cases c2

theorem FinRel.evolves {s s' : St} (h : FinRel s s') : Evolves s s' := by
  intro r hr
  obtain ⟨r', hr', e1, _, f1⟩ := h.2.2.2 r hr
  refine ⟨r', hr', e1, ?_⟩
  intro i st hst hf
  obtain ⟨st', hst', c⟩ := f1 i st hst
  rcases c with c | ⟨c, _⟩
  · exact ⟨st', hst', by rw [c]⟩
  · rw [hf] at c; cases c

/-- backward reading: every state info after the pass comes from the one at the same place before -/
theorem FinRel.back {s s' : St} (h : FinRel s s') (hn : IdsNodup s') {r' : Rollapp} (hr' : r' ∈ s'.ras) :
    ∃ r ∈ s.ras, r.id = r'.id ∧ ∀ (i : Nat) (st' : SInfo), r'.states[i]? = some st' → ∃ st, r.states[i]? = some st ∧
      (st' = st ∨ (st.finalized = false ∧ st' = { st with finalized := true, finalizedAt := s.h })) := by
  obtain ⟨_, _, hids, hf⟩ := h
  have : r'.id ∈ s'.ras.map (·.id) := List.mem_map.2 ⟨r', hr', rfl⟩
  rw [hids] at this
  obtain ⟨r, hr, hid⟩ := List.mem_map.1 this
  obtain ⟨r2, hr2, hid2, hlen, hst2⟩ := hf r hr
  have : r2 = r' := hn.unique hr2 hr' (hid2.trans hid)
  subst this
  refine ⟨r, hr, hid, ?_⟩
  intro i st' hst'
  have hlt : i < r.states.length := by rw [← hlen]; exact getElem?_lt hst'
  obtain ⟨st2, h1, h2⟩ := hst2 i r.states[i] (List.getElem?_eq_getElem hlt)
  rw [hst'] at h1; injection h1 with h1; subst h1
  exact ⟨_, List.getElem?_eq_getElem hlt, h2⟩

theorem finalizeOne_rel {s s' : St} {fails : List (Nat × Nat)} {ra idx : Nat} (hn : IdsNodup s)
    (e : finalizeOne s fails ra idx = some s') : FinRel s s' ∧ IdsNodup s' := by
  obtain ⟨r, st, s0, hg, hst, hnf, _, hfr, rfl⟩ := finalizeOne_some e
  refine ⟨⟨hfr.h, hfr.p, by rw [setRa_ids, hfr.ras], ?_⟩, (hn.of_ids (by rw [hfr.ras])).setRa _⟩
  intro r0 hr0
  by_cases h0 : r0.id = r.id
  · have : r0 = r := hn.unique hr0 (getRa_mem hg) h0
    subst this
    refine ⟨_, mem_setRa_self (x := r0) (by rw [hfr.ras]; exact hr0) rfl, rfl, by unfold finRec; simp, ?_⟩
    intro i sti hsti
    unfold finRec
    show ∃ st', (r0.states.set (idx - 1) _)[i]? = some st' ∧ _
    rw [List.getElem?_set]
    by_cases hi : idx - 1 = i
    · rw [if_pos hi, if_pos (getElem?_lt hst)]
      rw [← hi, hst] at hsti; injection hsti with hsti; subst hsti
      exact ⟨_, rfl, Or.inr ⟨hnf, rfl⟩⟩
    · rw [if_neg hi]; exact ⟨sti, hsti, Or.inl rfl⟩
  · exact ⟨r0, mem_setRa_of_ne (by rw [hfr.ras]; exact hr0) h0, rfl, rfl, fun _ st hst => ⟨st, hst, Or.inl rfl⟩⟩

theorem go_rel (fails : List (Nat × Nat)) (e : QEntry) : ∀ (l : List Nat) (s : St), IdsNodup s →
    FinRel s (finalizeEntry.go fails e s l).1 ∧ IdsNodup (finalizeEntry.go fails e s l).1 := by
  intro l
  induction l with
  | nil => intro s hn; unfold finalizeEntry.go; exact ⟨⟨rfl, rfl, rfl, (FinRel.refl s).2.2.2⟩, hn⟩
  | cons i tl ih =>
    intro s hn
    unfold finalizeEntry.go
    split
    · rename_i s1 h1
      obtain ⟨r1, n1⟩ := finalizeOne_rel hn h1
      obtain ⟨r2, n2⟩ := ih s1 n1
      exact ⟨r1.trans r2, n2⟩
    · exact ⟨⟨rfl, rfl, rfl, (FinRel.refl s).2.2.2⟩, hn⟩

theorem finalizeAll_rel (fails : List (Nat × Nat)) : ∀ (es : List QEntry) (failed : List Nat) (s : St), IdsNodup s →
    FinRel s (finalizeAll s fails es failed) := by
  intro es
  induction es with
  | nil => intro failed s _; unfold finalizeAll; exact FinRel.refl s
  | cons e es ih =>
    intro failed s hn
    rw [finalizeAll_cons]
    split
    · exact ih failed s hn
    · obtain ⟨r1, n1⟩ := go_rel fails e e.idx s hn
      exact r1.trans (ih _ _ n1)

-- ---------------------------------------------------------------- EndBlock

theorem due_filter_eq (q : List QEntry) (fh : Nat) :
    (q.filter (fun e => decide (e.ch ≤ fh))).filter (fun e => !([] : List Nat).contains e.ra) = q.filter (dueP fh []) := by
  rw [List.filter_filter]
  apply List.filter_congr
  intro x _
  unfold dueP
  simp

theorem finalizeRollappStates_fin {s : St} (fails : List (Nat × Nat)) (hi : FinInv s) :
    FinInv (finalizeRollappStates s fails) ∧
      (s.p.dispute ≤ s.h → ∃ failed', FailedOK fails (finalizeRollappStates s fails) failed' ∧
        (finalizeRollappStates s fails).queue.filter (dueP (s.h - s.p.dispute) failed') = []) := by
  unfold finalizeRollappStates
  split
  · exact ⟨hi, fun h => by omega⟩
  · dsimp only
    have := finalizeAll_fin fails (s.h - s.p.dispute) (s.queue.filter (fun e => e.ch ≤ s.h - s.p.dispute)) [] s hi
      (by omega) (due_filter_eq _ _) (by intro ra hra; cases hra)
    exact ⟨this.1, fun _ => this.2⟩

theorem finalizeRollappStates_rel {s : St} (fails : List (Nat × Nat)) (hn : IdsNodup s) :
    FinRel s (finalizeRollappStates s fails) := by
  unfold finalizeRollappStates
  split
  · exact FinRel.refl s
  · exact finalizeAll_rel fails _ _ s hn

theorem finalizeRollappStates_chain {s : St} (fails : List (Nat × Nat)) (hc : ChainAll s) :
    ChainAll (finalizeRollappStates s fails) := by
  unfold finalizeRollappStates
  split
  · exact hc
  · exact finalizeAll_chain _ _ _ _ hc

theorem endBlock_good (s : St) (fails : List (Nat × Nat)) : Good s (endBlock s fails) := by
  unfold endBlock
  refine Good.trans (b := finalizeRollappStates s fails) ?_ (checkLiveness_fs _).good
  intro hc hi
  exact ⟨finalizeRollappStates_chain fails hc, (finalizeRollappStates_fin fails hi).1,
    (finalizeRollappStates_rel fails hi.nodup).evolves, (finalizeRollappStates_rel fails hi.nodup).2.1⟩

-- ---------------------------------------------------------------- create rollapp

theorem insertSorted_pairwise (lt : Rollapp → Rollapp → Bool) (x : Rollapp) (l : List Rollapp)
    (hp : l.Pairwise (fun a b => a.id ≠ b.id)) (hx : ∀ y ∈ l, y.id ≠ x.id) :
    (insertSorted lt x l).Pairwise (fun a b => a.id ≠ b.id) := by
  induction l with
  | nil => simp [insertSorted]
  | cons y ys ih =>
    have hp' := List.pairwise_cons.1 hp
    unfold insertSorted
    split
    · apply List.pairwise_cons.2
      exact ⟨fun z hz => (hx z hz).symm, hp⟩
    · split
      · apply List.pairwise_cons.2
        refine ⟨?_, ih hp'.2 (fun z hz => hx z (by simp [hz]))⟩
        intro z hz
        rcases insertSorted_mem' _ _ _ _ hz with h1 | h1
        · rw [h1]; exact hx y (by simp)
        · exact hp'.1 z h1
      · apply List.pairwise_cons.2
        exact ⟨fun z hz => (hx z (by simp [hz])).symm, hp'.2⟩

theorem mem_insertSorted_id (x : Rollapp) (l : List Rollapp) (hx : ∀ y ∈ l, y.id ≠ x.id) (r : Rollapp) (hr : r ∈ l) :
    r ∈ insertSorted (fun a b => decide (a.id < b.id)) x l := by
  induction l with
  | nil => cases hr
  | cons y ys ih =>
    unfold insertSorted
    split
    · simp [List.mem_cons.1 hr]
    · split
      · rcases List.mem_cons.1 hr with h1 | h1
        · simp [h1]
        · exact List.mem_cons_of_mem _ (ih (fun z hz => hx z (by simp [hz])) h1)
      · rename_i h1 h2
        have := hx y (by simp)
        simp at h1 h2
        omega

theorem flat_nil_of_no_ra (q : List QEntry) (ra : Nat) (h : ∀ e ∈ q, e.ra ≠ ra) : flat q ra = [] := by
  induction q with
  | nil => rfl
  | cons x xs ih =>
    rw [flat_cons, ih (fun e he => h e (by simp [he]))]
    have : (x.ra == ra) = false := by simpa using h x (by simp)
    simp [this]

theorem createRollapp_good {s : St} (id : Nat) (owner : Addr) (mb : Nat) (hnew : (getRa s id).isSome = false) :
    Good s { s with ras := insertSorted (fun x y => decide (x.id < y.id)) (newRollapp id owner mb) s.ras } := by
  intro hc hi
  have hno : ∀ y ∈ s.ras, y.id ≠ id := by
    intro y hy hid
    have := getRa_of_mem hi.nodup hy
    rw [hid] at this; rw [this] at hnew; cases hnew
  have hmem : ∀ r ∈ s.ras, r ∈ insertSorted (fun x y => decide (x.id < y.id)) (newRollapp id owner mb) s.ras :=
    fun r hr => mem_insertSorted_id _ _ hno r hr
  refine ⟨?_, ⟨?_, hi.sorted, hi.ent, ?_, ?_⟩, ?_, rfl⟩
  · intro r hr
    rcases insertSorted_mem' _ _ _ _ hr with h1 | h1
    · subst h1; exact Chain.nil
    · exact hc r h1
  · exact insertSorted_pairwise _ _ _ hi.nodup hno
  · intro e he
    obtain ⟨r, hr, hid⟩ := List.mem_map.1 (hi.qra e he)
    exact List.mem_map.2 ⟨r, hmem r hr, hid⟩
  · intro r hr
    rcases insertSorted_mem' _ _ _ _ hr with h1 | h1
    · subst h1
      show RFin s.queue s.p.dispute (newRollapp id owner mb)
      unfold RFin
      have : flat s.queue (newRollapp id owner mb).id = [] := by
        apply flat_nil_of_no_ra
        intro e he hra
        obtain ⟨r, hr, hid⟩ := List.mem_map.1 (hi.qra e he)
        exact hno r hr (hid.trans hra)
      rw [this]
      refine ⟨Nat.le_refl _, rfl, ?_, ?_, ?_⟩
      · intro i st hst; simp [newRollapp] at hst
      · intro e he hra
        obtain ⟨r, hr, hid⟩ := List.mem_map.1 (hi.qra e he)
        exact absurd (hid.trans hra) (hno r hr)
      · intro st hst; simp [newRollapp] at hst
    · exact hi.ras r h1
  · intro r hr
    exact ⟨r, hmem r hr, rfl, fun i st hst _ => ⟨st, hst, rfl⟩⟩

-- ---------------------------------------------------------------- every transition

theorem fraud_good {s s' : St} {au : Bool} {ra hh rev : Nat} {p rw : Option Addr}
    (e : fraud s au ra hh rev p rw = .ok s') : Good s s' := by
  unfold fraud at e
  split at e
  · cases e
  · split at e
    · cases e
    · split at e
      · cases e
      · split at e
        · cases e
        · dsimp only at e
          split at e
          · cases e
          · rename_i s1 h1
            have : Good s s1 := by
              split at h1
              · exact (punish_fs h1).good
              · injection h1 with h1; subst h1; exact Good.refl s
            exact this.trans (hardFork_good e)

theorem FinInv.bump {s : St} (hi : FinInv s) (dt : Nat) : FinInv { s with h := s.h + 1, t := s.t + dt } :=
  ⟨hi.nodup, hi.sorted, fun e he => ⟨Nat.le_succ_of_le (hi.ent e he).1, (hi.ent e he).2⟩, hi.qra, hi.ras⟩

theorem beginBlock_good (s : St) (dt : Nat) : Good s (beginBlock s dt) := by
  refine Good.trans (b := { s with h := s.h + 1, t := s.t + dt }) ?_ (beginBlock_fs s dt).good
  intro hc hi
  exact ⟨hc.ras_eq rfl, hi.bump dt, Evolves.of_ras_eq rfl, rfl⟩

/-- every accepted transition keeps the chain and finalization invariants and all finalized states -/
theorem apply_good {s s' : St} {o : Op} (e : apply s o = .ok s') : Good s s' := by
  cases o with
  | createRollapp id owner mb =>
    simp only [apply] at e
    split at e
    · cases e
    · rename_i hnew
      injection e with e; subst e
      exact createRollapp_good id owner mb (by simpa using hnew)
  | bridge ra hh =>
    simp only [apply] at e
    split at e
    · cases e
    · rename_i r hg
      split at e
      · cases e
      · split at e
        · cases e
        · injection e with e; subst e
          exact (FS.setRa (r' := { r with tph := hh }) hg rfl).good
  | fund a amt =>
    simp only [apply] at e; injection e with e; subst e
    exact (FS.of_ras_eq (s := s) (s' := { s with bal := setBal s.bal a (getBal s.bal a + amt) }) rfl rfl rfl rfl).good
  | createSeq a ra b d => exact (createSeq_fs e).good
  | bondInc a amt d => exact (increaseBond_fs e).good
  | bondDec a amt => exact (decreaseBond_fs e).good
  | unbond a => exact (unbond_fs e).good
  | optIn a v => exact (optIn_fs e).good
  | kick a => exact (kick_fs e).good
  | update m => exact updateState_good e
  | fraud au ra hh rev p rw => exact fraud_good e
  | obsolete au vs => exact (markObsolete_fs e).good
  | punish au a rw => exact (punish_fs (punishProposal_ok e).2).good
  | transferOwner sg ra' no =>
    obtain ⟨r, hg, _, _, _, rfl⟩ := transferOwner_ok e
    exact (FS.setRa (r' := { r with owner := no }) hg rfl).good
  | setSeqParams au sp =>
    obtain ⟨_, hnp, _, rfl⟩ := setSeqParams_ok e
    exact (FS.of_ras_eq (s := s) (s' := { s with sqp := sp }) rfl rfl rfl rfl).good
  | begin_ dt => simp only [apply] at e; injection e with e; subst e; exact beginBlock_good s dt
  | end_ f => simp only [apply] at e; injection e with e; subst e; exact endBlock_good s f

theorem FS.back {s s' : St} (h : FS s s') (hc : ChainAll s) (hi : FinInv s) : Back s s' := (h (hi.pre hc)).2.back

theorem fraud_back {s s' : St} {au : Bool} {ra hh rev : Nat} {p rw : Option Addr}
    (e : fraud s au ra hh rev p rw = .ok s') (hc : ChainAll s) (hi : FinInv s) : Back s s' := by
  unfold fraud at e
  split at e
  · cases e
  · split at e
    · cases e
    · split at e
      · cases e
      · split at e
        · cases e
        · dsimp only at e
          split at e
          · cases e
          · rename_i s1 h1
            split at h1
            · have hfs := punish_fs h1
              obtain ⟨c1, i1, _, _⟩ := hfs.good hc hi
              exact (hfs.back hc hi).trans (hardFork_full e c1 i1).2
            · injection h1 with h1; subst h1; exact (hardFork_full e hc hi).2

/-- **no op other than `end_` finalizes anything** -/
theorem apply_back {s s' : St} {o : Op} (e : apply s o = .ok s') (hne : ∀ f, o ≠ .end_ f)
    (hc : ChainAll s) (hi : FinInv s) : Back s s' := by
  cases o with
  | createRollapp id owner mb =>
    simp only [apply] at e
    split at e
    · cases e
    · injection e with e; subst e
      intro r' hr' i st' hst' _
      rcases insertSorted_mem' _ _ _ _ hr' with h1 | h1
      · subst h1; simp [newRollapp] at hst'
      · exact ⟨r', h1, rfl, st', hst', rfl⟩
  | bridge ra hh =>
    simp only [apply] at e
    split at e
    · cases e
    · rename_i r hg
      split at e
      · cases e
      · split at e
        · cases e
        · injection e with e; subst e
          exact (FS.setRa (r' := { r with tph := hh }) hg rfl).back hc hi
  | fund a amt =>
    simp only [apply] at e; injection e with e; subst e
    exact Back.of_ras_eq rfl
  | createSeq a ra b d => exact (createSeq_fs e).back hc hi
  | bondInc a amt d => exact (increaseBond_fs e).back hc hi
  | bondDec a amt => exact (decreaseBond_fs e).back hc hi
  | unbond a => exact (unbond_fs e).back hc hi
  | optIn a v => exact (optIn_fs e).back hc hi
  | kick a => exact (kick_fs e).back hc hi
  | update m => exact (updateState_full e hc hi).2
  | fraud au ra hh rev p rw => exact fraud_back e hc hi
  | obsolete au vs => exact (markObsolete_fs e).back hc hi
  | punish au a rw => exact (punish_fs (punishProposal_ok e).2).back hc hi
  | transferOwner sg ra' no =>
    obtain ⟨r, hg, _, _, _, rfl⟩ := transferOwner_ok e
    exact (FS.setRa (r' := { r with owner := no }) hg rfl).back hc hi
  | setSeqParams au sp =>
    obtain ⟨_, hnp, _, rfl⟩ := setSeqParams_ok e
    exact Back.of_ras_eq rfl
  | begin_ dt =>
    simp only [apply] at e; injection e with e; subst e
    exact (Back.of_ras_eq (s' := { s with h := s.h + 1, t := s.t + dt }) rfl).trans
      ((beginBlock_fs s dt).back (hc.ras_eq rfl) (hi.bump dt))
  | end_ f => exact absurd rfl (hne f)

theorem step_good (s : St) (o : Op) : Good s (step s o).1 := by
  unfold step
  split
  · rename_i s' e; exact apply_good e
  · exact Good.refl s

theorem init_fin (p : Params) : FinInv (init p) := by
  refine ⟨?_, ?_, ?_, ?_, ?_⟩
  · unfold IdsNodup init; simp
  · unfold QSorted init; simp
  · intro e he; simp [init] at he
  · intro e he; simp [init] at he
  · intro r hr; simp [init] at hr

theorem run_inv (p : Params) (ops : List Op) : ChainAll (run p ops) ∧ FinInv (run p ops) ∧ (run p ops).p = p := by
  unfold run
  apply foldl_inv (fun s => ChainAll s ∧ FinInv s ∧ s.p = p)
  · exact ⟨by intro r hr; simp [init] at hr, init_fin p, rfl⟩
  · intro b o hb
    obtain ⟨h1, h2, _⟩ := step_good b o hb.1 hb.2.1
    exact ⟨h1, h2, by rename_i h3; exact h3.2.trans hb.2.2⟩

/-- **the finalization invariant holds in every reachable state** -/
theorem run_fin (p : Params) (ops : List Op) : FinInv (run p ops) := (run_inv p ops).2.1

theorem run_p (p : Params) (ops : List Op) : (run p ops).p = p := (run_inv p ops).2.2

theorem run_append (p : Params) (ops more : List Op) :
    run p (ops ++ more) = more.foldl (fun s o => (step s o).1) (run p ops) := by
  unfold run; rw [List.foldl_append]

/-- finalized states of a reachable state are kept by every continuation -/
theorem run_evolves (p : Params) (ops more : List Op) : Evolves (run p ops) (run p (ops ++ more)) := by
  rw [run_append]
  have : ∀ (more : List Op) (s : St), ChainAll s → FinInv s → Evolves s (more.foldl (fun s o => (step s o).1) s) := by
    intro more
    induction more with
    | nil => intro s _ _; exact Evolves.refl s
    | cons o os ih =>
      intro s hc hi
      obtain ⟨h1, h2, h3, _⟩ := step_good s o hc hi
      exact h3.trans (ih _ h1 h2)
  exact this more _ (run_inv p ops).1 (run_inv p ops).2.1

end DymVerif.Core
