import DymVerif.Lemmas.LockupChainEmbed
import DymVerif.Lemmas.GenesisStores
/-
  Lemmas/GenesisLink — the store invariants the module theorems of Props/C18Modules assume
  (`LockupInv`, `SponsInv`, …) PROVED for the projections of the package models' reachable states,
  so that the round trips hold over all histories of those models and not "under the invariant of the
  module's own package" by comment.

  x/lockup: M-Lockup's chain (Model/LockupChain, `crun`) under the encoding `embState` of
  Lemmas/LockupChainEmbed — `CInv.sorted` (the lock table is in id order, `crun_cinv`) is `LockupInv`.
-/
namespace DymVerif.GenesisLink
open DymVerif DymVerif.Genesis

/-! ### x/lockup -/

theorem sorted_emb_locks : ∀ (ls : List Lockup.Lock), Lockup.IdSorted ls →
    Sorted ltNat (ls.map (fun l => (l.id, Lockup.embLock l)))
  | [], _ => List.Pairwise.nil
  | l :: ls, h => by
    unfold Lockup.IdSorted at h
    rw [List.map_cons, List.pairwise_cons] at h
    unfold Sorted
    rw [List.map_cons, List.pairwise_cons]
    refine ⟨?_, sorted_emb_locks ls h.2⟩
    intro e he
    obtain ⟨x, hx, rfl⟩ := List.mem_map.1 he
    have := h.1 x.id (List.mem_map.2 ⟨x, hx, rfl⟩)
    simp only [ltNat, decide_eq_true_eq]
    exact this

/-- the encoded lock section of an id-sorted M-Lockup state satisfies C18's store invariant -/
theorem lockupInv_embState (params : Nat) {s : Lockup.State} (hs : Lockup.IdSorted s.locks) :
    LockupInv (Lockup.embState params s) where
  sl := sorted_emb_locks s.locks hs
  kl := by
    intro e he
    obtain ⟨x, _, rfl⟩ := List.mem_map.1 he
    rfl

/-- … in particular after every history of a chain (messages, blocks, restarts, parameter changes) -/
theorem lockupInv_reachable (params : Nat) (p : Lockup.Params) (bal : Lockup.Actor → Lockup.Denom → Nat)
    (now height : Nat) (ops : List Lockup.COp) :
    LockupInv (Lockup.embState params (Lockup.crun (Lockup.cinit p bal now height) ops).s) :=
  lockupInv_embState params (Lockup.crun_cinv ops (Lockup.cinit_cinv p bal now height)).sorted

end DymVerif.GenesisLink
