/-
  Lemmas/LCCovered — the side condition of `agreement_inv` (`SafeRun`: at a designation every descriptor M-LC
  holds lies inside a state info of M-Core) as an invariant of M-LC.

  `CovAll s`: every descriptor of the table lies inside a state info of its rollapp.  It is kept by every M-LC
  op PROVIDED the Core transition underneath satisfies `StepCov`: a height covered by the state infos of a
  rollapp before the step is covered after it, or the rollapp is among the forks the step performed
  (`newForks`) and the height lies above the fork's last valid height (those descriptors are deleted by
  `rollbackClient`).  The descriptors an accepted update adds are covered because `finishUpdate` compares
  them with the state info just stored.
-/
import DymVerif.Lemmas.LCGood
namespace DymVerif.LC
open DymVerif.Core (Addr NextP)

/-- height `h` of rollapp `ra` lies inside a state info -/
def Cov (c : Core.St) (ra h : Nat) : Prop :=
  ∃ r st, Core.getRa c ra = some r ∧ st ∈ r.states ∧ st.start ≤ h ∧ h ≤ st.last

/-- every descriptor of the table lies inside a state info of its rollapp -/
def CovAll (s : St) : Prop := ∀ d ∈ s.descs, Cov s.core d.ra d.h

theorem CovAll.descsCovered {s : St} (h : CovAll s) (ra : Nat) : DescsCovered s ra := by
  intro hh d hg
  unfold getDesc at hg
  have hm := List.mem_of_find?_eq_some hg
  have hp := List.find?_some hg
  simp only [Bool.and_eq_true, beq_iff_eq] at hp
  have := h d hm
  rw [hp.1, hp.2] at this
  exact this

theorem CovAll.of_eq {s s' : St} (h : CovAll s) (e1 : s'.descs = s.descs) (e2 : s'.core = s.core) : CovAll s' := by
  intro d hd
  rw [e1] at hd
  rw [e2]
  exact h d hd

/-- the Core transition `c → c1` loses covered heights only above the forks it performed -/
def StepCov (c c1 : Core.St) : Prop :=
  ∀ ra h, Cov c ra h → Cov c1 ra h ∨ ∃ lv, (ra, lv) ∈ newForks c c1 ∧ lv < h

theorem StepCov.refl_of_cov {c c1 : Core.St} (h : ∀ ra hh, Cov c ra hh → Cov c1 ra hh) : StepCov c c1 :=
  fun ra hh hc => Or.inl (h ra hh hc)

-- ---------------------------------------------------------------- the descriptor table through the hooks

theorem rollback_descs (s : St) (ra lv : Nat) (h : (rollback s ra lv).2 = none) :
    (rollback s ra lv).1.descs = s.descs.filter (fun d => !(d.ra == ra && lv < d.h)) := by
  unfold rollback at h ⊢
  split
  · rename_i hl; rw [hl] at h; simp at h
  · rename_i c hl
    rw [hl] at h
    simp only at h ⊢
    split
    · rename_i hc; rw [hc] at h; simp at h
    · rename_i cl hc
      rw [hc] at h
      simp only at h ⊢
      unfold rollbackClient at h ⊢
      split
      · rename_i hg; rw [hg] at h; simp at h
      · rfl

theorem applyForks_descs : ∀ (l : List (Nat × Nat)) (s : St), (applyForks s l).2 = none →
    ∀ d ∈ (applyForks s l).1.descs, d ∈ s.descs ∧ ∀ ra lv, (ra, lv) ∈ l → ¬ (d.ra = ra ∧ lv < d.h)
  | [], s, _, d, hd => ⟨hd, fun _ _ hm => by simp at hm⟩
  | (ra, lv) :: rest, s, h, d, hd => by
    unfold applyForks at h hd
    cases hr : rollback s ra lv with
    | mk s1 oe =>
      rw [hr] at h hd
      cases oe with
      | some e => simp at h
      | none =>
        simp only at h hd
        obtain ⟨m1, m2⟩ := applyForks_descs rest s1 h d hd
        have e1 := rollback_descs s ra lv (by rw [hr])
        rw [hr] at e1
        simp only at e1
        rw [e1, List.mem_filter] at m1
        refine ⟨m1.1, ?_⟩
        intro ra' lv' hm
        rcases List.mem_cons.1 hm with hm | hm
        · injection hm with a b; subst a; subst b
          have := m1.2
          simp only [Bool.not_eq_true', Bool.and_eq_false_imp, beq_iff_eq, decide_eq_false_iff_not] at this
          intro hc
          exact this hc.1 hc.2
        · exact m2 ra' lv' hm

theorem afterUpdate_descs (s : St) (ra rev : Nat) (st : Core.SInfo) : (afterUpdate s ra rev st).1.descs = s.descs := by
  unfold afterUpdate
  cases lookup s.r2c ra with
  | none => rfl
  | some c =>
    simp only
    cases getClient s c with
    | none => rfl
    | some cl =>
      cases Core.getRa s.core ra with
      | none => rfl
      | some r =>
        simp only
        split
        · unfold resolveFork
          repeat' split
          all_goals rfl
        · unfold validateNew
          repeat' split
          all_goals rfl

/-- an accepted update: the hook keeps table and rollapp side, and the state info just stored spans exactly the
    heights of the new descriptors -/
theorem finishUpdate_cov (s s3 : St) (m : Core.UpdMsg) (ds : List (Nat × Option Nat)) :
    (finishUpdate s s3 m ds).1 = s ∨
    ((finishUpdate s s3 m ds).1.descs = s3.descs ∧ (finishUpdate s s3 m ds).1.core = s3.core ∧
      ∃ r st, Core.getRa s3.core m.ra = some r ∧ st ∈ r.states ∧ st.start = m.start ∧ st.last + 1 - st.start = ds.length) := by
  unfold finishUpdate
  cases hg : Core.getRa s3.core m.ra with
  | none => exact Or.inl rfl
  | some r =>
    simp only
    cases hl : r.states.getLast? with
    | none => exact Or.inl rfl
    | some st =>
      simp only
      split
      · exact Or.inl rfl
      · rename_i hchk
        have hd := afterUpdate_descs s3 m.ra m.rev st
        have hc := afterUpdate_core s3 m.ra m.rev st
        cases ha : afterUpdate s3 m.ra m.rev st with
        | mk s4 oe =>
          cases oe with
          | some e => exact Or.inl rfl
          | none =>
            right
            rw [ha] at hd hc
            refine ⟨hd, hc, r, st, rfl, List.mem_of_getLast? hl, ?_, ?_⟩
            · simp only [bne_iff_ne, ne_eq, Bool.or_eq_true, not_or, Decidable.not_not] at hchk
              exact hchk.1
            · simp only [bne_iff_ne, ne_eq, Bool.or_eq_true, not_or, Decidable.not_not] at hchk
              exact hchk.2

theorem withDescs_mem {s1 s2 : St} {o : Core.Op} {ds : List (Nat × Option Nat)} (h : withDescs s1 o ds = some s2) :
    ∀ d ∈ s2.descs, d ∈ s1.descs ∨ ∃ m, o = .update m ∧ d.ra = m.ra ∧ m.start ≤ d.h ∧ d.h < m.start + ds.length := by
  intro d hd
  unfold withDescs at h
  split at h
  · rename_i m
    split at h
    · simp at h
    · simp only [Option.some.injEq] at h; subst h
      unfold addDescs at hd
      simp only [List.mem_append, List.mem_map] at hd
      rcases hd with hd | ⟨⟨x, i⟩, hx, rfl⟩
      · exact Or.inl hd
      · obtain ⟨a, b, _⟩ := List.mem_zipIdx hx
        refine Or.inr ⟨m, rfl, rfl, ?_, ?_⟩
        · show m.start ≤ m.start + i; omega
        · show m.start + i < m.start + ds.length; omega
  · simp only [Option.some.injEq] at h; subst h
    exact Or.inl hd

-- ---------------------------------------------------------------- a Core op with the hooks around it

theorem coreOp_covAll {s : St} (h : CovAll s) (o : Core.Op) (ds : List (Nat × Option Nat))
    (hstepcov : StepCov s.core (Core.step s.core o).1) : CovAll (coreOp s o ds).1 := by
  unfold coreOp
  cases hstep : Core.step s.core o with
  | mk core1 oe =>
    rw [hstep] at hstepcov
    simp only at hstepcov
    cases oe with
    | some e => exact h
    | none =>
      simp only
      split
      · exact h
      · cases hw : withDescs { s with core := core1 } o ds with
        | none => exact h
        | some s2 =>
          simp only
          have hc2 : s2.core = core1 := withDescs_core hw
          cases hf : applyForks s2 (newForks s.core core1) with
          | mk s3 oe =>
            cases oe with
            | some e => exact h
            | none =>
              simp only
              have hc3 : s3.core = core1 := by
                have := applyForks_core (newForks s.core core1) s2
                rw [hf] at this
                exact this.trans hc2
              have hd3 := applyForks_descs (newForks s.core core1) s2 (by rw [hf])
              rw [hf] at hd3
              simp only at hd3
              -- the descriptors that were in the table before the op stay covered
              have old : ∀ d ∈ s3.descs, d ∈ s.descs → Cov core1 d.ra d.h := by
                intro d hd hds
                rcases hstepcov d.ra d.h (h d hds) with hc | ⟨lv, hm, hlt⟩
                · exact hc
                · exact absurd ⟨rfl, hlt⟩ ((hd3 d hd).2 d.ra lv hm)
              cases o with
              | update m =>
                simp only
                rcases finishUpdate_cov s s3 m ds with e | ⟨e1, e2, r, st, hg, hst, hs1, hs2⟩
                · rw [e]; exact h
                · intro d hd
                  rw [e1] at hd
                  rw [e2, hc3]
                  rcases withDescs_mem hw d (hd3 d hd).1 with hin | ⟨m', hm', a1, a2, a3⟩
                  · exact old d hd hin
                  · injection hm' with hm'; subst hm'
                    rw [hc3] at hg
                    rw [a1]
                    exact ⟨r, st, hg, hst, by omega, by omega⟩
              | _ =>
                simp only
                intro d hd
                rw [hc3]
                rcases withDescs_mem hw d (hd3 d hd).1 with hin | ⟨m', hm', _⟩
                · exact old d hd hin
                · cases hm'

end DymVerif.LC
