/-
  Lemmas/CoreFinUpdate — `MsgUpdateState` keeps the finalization invariant: the new state is appended
  first, the sequencer hook (possibly a fork to the latest height, which prunes nothing) runs in
  between, and the new index is queued last under (hub height, rollapp).
-/
import DymVerif.Lemmas.CoreFinSame2
namespace DymVerif.Core

theorem pendingIdx_append (r : Rollapp) (new : SInfo) (hle : r.lastFin ≤ r.states.length) :
    pendingIdx { r with states := r.states ++ [new] } = pendingIdx r ++ [r.states.length + 1] := by
  unfold pendingIdx
  simp only [List.length_append, List.length_cons, List.length_nil]
  rw [show r.states.length + (0 + 1) - r.lastFin = (r.states.length - r.lastFin) + 1 by omega, List.range'_1_concat]
  congr 2
  omega

/-- the per-rollapp invariant after appending the new state and queueing its index -/
theorem update_core {s : St} {ra : Nat} {r : Rollapp} {new : SInfo} (hi : FinInv s) (hg : getRa s ra = some r)
    (hnf : new.finalized = false) (hch : new.creationHeight = s.h) :
    ∀ r2 ∈ (setRa s { r with states := r.states ++ [new] }).ras,
      RFin (queueAppend s.queue s.h ra (r.states.length + 1)) s.p.dispute r2 := by
  have hrid : r.id = ra := getRa_id hg
  have old := hi.ras r (getRa_mem hg)
  intro r2 hr2
  rcases mem_setRa_strong hr2 with ⟨hm, hne⟩ | heq
  · have hne' : r2.id ≠ ra := by rw [← hrid]; exact hne
    have o2 := hi.ras r2 hm
    unfold RFin
    rw [flat_queueAppend_other _ _ _ _ _ hne']
    refine ⟨o2.le, o2.flat_eq, o2.pre, ?_, o2.notEarly⟩
    intro e he hra i hii
    rcases mem_queueAppend _ _ _ _ _ he with ⟨_, k2, _⟩ | hq
    · exact absurd (k2.symm.trans hra).symm hne'
    · exact o2.ch e hq hra i hii
  · subst heq
    have hfl : flat s.queue ra = pendingIdx r := by rw [← hrid]; exact old.flat_eq
    have hb : ∀ e ∈ s.queue, e.ra = ra → e.ch ≤ s.h := fun e he _ => (hi.ent e he).1
    unfold RFin
    show RFinL (flat _ r.id) _ _ _
    rw [hrid, flat_queueAppend_same _ _ _ _ hi.sorted hb, hfl]
    refine ⟨?_, (pendingIdx_append r new old.le).symm, ?_, ?_, ?_⟩
    · show r.lastFin ≤ (r.states ++ [new]).length
      have := old.le; simp; omega
    · intro i st hst
      show st.finalized = true ↔ i < r.lastFin
      have hst : (r.states ++ [new])[i]? = some st := hst
      by_cases hlt : i < r.states.length
      · rw [List.getElem?_append_left hlt] at hst
        exact old.pre i st hst
      · have hi2 := getElem?_lt hst
        simp at hi2
        have : i = r.states.length := by omega
        subst this
        simp at hst; subst hst
        rw [hnf]
        have := old.le
        constructor
        · intro hx; cases hx
        · intro hx; omega
    · intro e he hra i hii
      show ∃ st, (r.states ++ [new])[i - 1]? = some st ∧ st.creationHeight = e.ch
      have hra : e.ra = ra := hra
      have hold : ∀ e0 ∈ s.queue, e0.ra = ra → i ∈ e0.idx →
          ∃ st, (r.states ++ [new])[i - 1]? = some st ∧ st.creationHeight = e0.ch := by
        intro e0 he0 hra0 hi0
        obtain ⟨st, hst, hc⟩ := old.ch e0 he0 (by rw [hra0, hrid]) i hi0
        exact ⟨st, by rw [List.getElem?_append_left (getElem?_lt hst)]; exact hst, hc⟩
      rcases mem_queueAppend _ _ _ _ _ he with ⟨k1, k2, _, k4⟩ | hq
      · rcases k4 i hii with h1 | ⟨e0, he0, j1, j2, j3⟩
        · subst h1
          exact ⟨new, by simp, hch.trans k1.symm⟩
        · obtain ⟨st, h1, h2⟩ := hold e0 he0 (by rw [j2]; exact hra) j3
          exact ⟨st, h1, by rw [h2, j1]⟩
      · exact hold e hq hra hii
    · intro st hm hf
      have hm : st ∈ r.states ++ [new] := hm
      rcases List.mem_append.1 hm with h1 | h1
      · exact old.notEarly st h1 hf
      · simp at h1; subst h1; rw [hnf] at hf; cases hf

theorem append_evolves {s : St} {ra : Nat} {r : Rollapp} {new : SInfo} (hn : IdsNodup s) (hg : getRa s ra = some r) :
    Evolves s (setRa s { r with states := r.states ++ [new] }) := by
  intro r0 hr0
  by_cases h0 : r0.id = r.id
  · have : r0 = r := hn.unique hr0 (getRa_mem hg) h0
    subst this
    refine ⟨_, mem_setRa_self (x := r0) hr0 rfl, rfl, ?_⟩
    intro i st hst _
    exact ⟨st, by
      show (r0.states ++ [new])[i]? = some st
      rw [List.getElem?_append_left (getElem?_lt hst)]; exact hst, rfl⟩
  · exact ⟨r0, mem_setRa_of_ne hr0 h0, rfl, fun i st hst _ => ⟨st, hst, rfl⟩⟩

theorem append_back {s : St} {r : Rollapp} {new : SInfo} (hnf : new.finalized = false) (hr : r ∈ s.ras) :
    Back s (setRa s { r with states := r.states ++ [new] }) := by
  intro r2 hr2 i st' hst' hf
  rcases mem_setRa_strong hr2 with ⟨hm, _⟩ | heq
  · exact ⟨r2, hm, rfl, st', hst', rfl⟩
  · subst heq
    refine ⟨r, hr, rfl, ?_⟩
    have hst' : (r.states ++ [new])[i]? = some st' := hst'
    by_cases hlt : i < r.states.length
    · rw [List.getElem?_append_left hlt] at hst'; exact ⟨st', hst', rfl⟩
    · have hi2 := getElem?_lt hst'
      simp at hi2
      have : i = r.states.length := by omega
      subst this
      simp at hst'; subst hst'
      rw [hnf] at hf; cases hf

theorem updateState_full {s s' : St} {m : UpdMsg} (e : updateState s m = .ok s') (hc : ChainAll s) (hi : FinInv s) :
    (ChainAll s' ∧ FinInv s' ∧ Evolves s s' ∧ s'.p = s.p) ∧ Back s s' := by
  have hc' := updateState_chain hc e
  unfold updateState at e
  split at e
  · cases e
  · rename_i hvb
    split at e
    · cases e
    · rename_i r hg
      split at e
      · cases e
      · split at e
        · cases e
        · split at e
          · cases e
          · split at e
            · cases e
            · rename_i hpre
              split at e
              · cases e
              · split at e
                · cases e
                · rename_i s3 h3
                  dsimp only at e
                  split at e
                  · cases e
                  · rename_i r4 hg4
                    injection e with e; subst e
                    have hrid : r.id = m.ra := getRa_id hg
                    -- the state after the append
                    have hc2 : ChainAll (setRa s { r with states := r.states ++ [newSInfo s m (updSucc r m)] }) :=
                      RaAll.setRa hc ((hc.get hg).append (updValidateBasic_wf hvb s _) (by
                        intro a ha
                        show m.start = a.start + a.num
                        exact updPre_start hpre a ha))
                    have hq2 : QBound (setRa s { r with states := r.states ++ [newSInfo s m (updSucc r m)] }) := by
                      intro r2 hr2 e he hra
                      have he : e ∈ s.queue := he
                      rcases mem_setRa_strong hr2 with ⟨hm, _⟩ | heq
                      · exact hi.qbound r2 hm e he hra
                      · subst heq
                        have := hi.qbound r (getRa_mem hg) e he hra
                        refine ⟨this.1, fun i hii => ?_⟩
                        have := this.2 i hii
                        show i ≤ (r.states ++ [_]).length
                        simp; omega
                    obtain ⟨p3, s23⟩ := seqAfterUpdate_fs h3 ⟨hi.nodup.setRa _, hc2, hq2⟩
                    have hq3 : s3.queue = s.queue := s23.queue
                    have hh3 : s3.h = s.h := s23.h
                    have hp3 : s3.p = s.p := s23.p
                    have hcore := update_core (new := newSInfo s m (updSucc r m)) hi hg rfl rfl
                    -- the state after queueing the new index
                    have hi4 : FinInv { s3 with queue := queueAppend s3.queue s3.h m.ra (r.states.length + 1),
                                                seqH := addSeqHeights s3.seqH m.sender m.bds } := by
                      refine ⟨p3.nodup.of_ids rfl, ?_, ?_, ?_, ?_⟩
                      · exact queueAppend_sorted _ _ _ _ (by rw [hq3]; exact hi.sorted)
                      rotate_left
                      · intro e he
                        show e.ra ∈ s3.ras.map (·.id)
                        rw [s23.ids, setRa_ids]
                        rcases mem_queueAppend _ _ _ _ _ he with ⟨_, k2, _⟩ | hq
                        · rw [k2, ← hrid]; exact List.mem_map.2 ⟨r, getRa_mem hg, rfl⟩
                        · rw [hq3] at hq; exact hi.qra e hq
                      rotate_right
                      · intro e he
                        show e.ch ≤ s3.h ∧ e.idx ≠ []
                        rcases mem_queueAppend _ _ _ _ _ he with ⟨k1, _, k3, _⟩ | hq
                        · exact ⟨by rw [k1]; exact Nat.le_refl _, by intro hx; rw [hx] at k3; cases k3⟩
                        · rw [hq3] at hq; rw [hh3]; exact hi.ent e hq
                      · intro r5 hr5
                        have hr5 : r5 ∈ s3.ras := hr5
                        obtain ⟨r2, hr2, hk⟩ := s23.mem_back hr5
                        show RFin (queueAppend s3.queue s3.h m.ra (r.states.length + 1)) s3.p.dispute r5
                        rw [hq3, hh3, hp3]
                        exact (hcore r2 hr2).congr hk.symm
                    have hc4 : ChainAll { s3 with queue := queueAppend s3.queue s3.h m.ra (r.states.length + 1),
                                                   seqH := addSeqHeights s3.seqH m.sender m.bds } := p3.chain.ras_eq rfl
                    obtain ⟨_, s45⟩ := indicateLiveness_fs hg4 (hi4.pre hc4)
                    refine ⟨⟨hc', hi4.same s45, ?_, s45.p.trans hp3⟩, ?_⟩
                    · exact (append_evolves hi.nodup hg).trans (s23.evolves.trans
                        ((Evolves.of_ras_eq (s := s3) rfl).trans s45.evolves))
                    · exact (append_back rfl (getRa_mem hg)).trans (s23.back.trans
                        ((Back.of_ras_eq (s := s3) rfl).trans s45.back))

theorem updateState_good {s s' : St} {m : UpdMsg} (e : updateState s m = .ok s') : Good s s' :=
  fun hc hi => (updateState_full e hc hi).1

end DymVerif.Core
