/-
  Lemmas/DymNSInv2 — invariant preservation: sell orders, bids, buy orders (Dym-Name side).
-/
import DymVerif.Lemmas.DymNSInv
namespace DymVerif.DymNS
open AMap

theorem placeNameSO_inv {s s' : State} {a n mn sl} (hI : Inv s) (h : placeNameSO s a n mn sl = .ok s') : Inv s' := by
  unfold placeNameSO at h
  mcases' h
  rename (s.nameSO.get n = none) => hso
  injection h with h; subst h
  refine { wfN := noDup_set _ _ _ hI.wfN, wfA := hI.wfA, wfB := hI.wfB, esc := ?_, idx := hI.idx, ali := hI.ali,
           so := ?_, boK := hI.boK }
  · have := sum_setNameSO s n { seller := a, expireAt := s.now + s.p.soDur, minPrice := mn, sellPrice := sl, bid := none }
    have e := hI.esc
    simp only [escrowed_def, nameBid, hso, Option.bind, bidAmt] at this e ⊢
    omega
  · intro m so hm
    simp only [AMap.get_set] at hm
    split at hm
    · rename_i hmn; subst hmn; injection hm with hm; subst hm
      exact ⟨_, ‹getName s m = some _›, by simp only []; omega, by simp only []; exact (‹DymName.owner _ = a›).symm,
        by intro b hb; cases hb⟩
    · exact hI.so m so hm

/-- remove the sell order of a name, refunding its bid (if any) -/
theorem dropNameSO_inv {s : State} (n : Name) (hI : Inv s) :
    Inv { refundOptT s (nameBid s n) with nameSO := AMap.del s.nameSO n } := by
  have hle := bid_le_sum s n hI.wfN
  refine { wfN := noDup_del _ _ hI.wfN, wfA := by simpa using hI.wfA, wfB := by simpa using hI.wfB, esc := ?_,
           idx := by simpa using hI.idx, ali := by simpa using hI.ali, so := ?_, boK := by simpa using hI.boK }
  · have := sum_delNameSO s n hI.wfN
    have e := hI.esc
    simp only [escrowed_def, refundOptT_modBal, refundOptT_aliasSO, refundOptT_bos] at this e ⊢
    omega
  · intro m so hm
    simp only [AMap.get_del] at hm
    split at hm
    · cases hm
    · simpa using hI.so m so hm

theorem cancelNameSO_inv {s s' : State} {a n} (hI : Inv s) (h : cancelNameSO s a n = .ok s') : Inv s' := by
  unfold cancelNameSO at h
  mcases' h
  rename (s.nameSO.get n = some _) => hso
  rename (SellOrder.bid _ = none) => hb
  injection h with h; subst h
  have := dropNameSO_inv n hI
  simpa [nameBid, hso, hb, refundOptT] using this

/-- a bid is placed on an existing sell order: previous bid refunded, new bid escrowed -/
theorem bidPlaced_inv {s : State} {n : Name} {so : SellOrder} (a : Acct) (offer : Nat) (hI : Inv s)
    (hso : AMap.get s.nameSO n = some so) (hna : ∀ d, s.ns.get n = some d → a ≠ d.owner) :
    Inv { takeBidT s so.bid a offer with nameSO := AMap.set s.nameSO n { so with bid := some ⟨a, offer, 0⟩ } } := by
  have hle := bid_le_sum s n hI.wfN
  have hb : nameBid s n = so.bid := by simp [nameBid, hso]
  refine { wfN := noDup_set _ _ _ hI.wfN, wfA := by simpa [takeBidT, toModuleT] using hI.wfA,
           wfB := by simpa [takeBidT, toModuleT] using hI.wfB, esc := ?_,
           idx := by simpa [takeBidT, toModuleT] using hI.idx, ali := by simpa [takeBidT, toModuleT] using hI.ali,
           so := ?_, boK := by simpa [takeBidT, toModuleT] using hI.boK }
  · have := sum_setNameSO s n { so with bid := some ⟨a, offer, 0⟩ }
    have e := hI.esc
    simp only [escrowed_def, takeBidT, toModuleT, refundOptT_modBal, refundOptT_aliasSO, refundOptT_bos, hb, bidAmt] at this e hle ⊢
    omega
  · intro m so' hm
    simp only [AMap.get_set] at hm
    split at hm
    · rename_i hmn; subst hmn; injection hm with hm; subst hm
      obtain ⟨d, hd, h1, h2, _⟩ := hI.so m so hso
      refine ⟨d, by simpa [takeBidT, toModuleT] using hd, h1, h2, ?_⟩
      intro b hb
      simp only [Option.some.injEq] at hb
      subst hb
      exact hna d hd
    · simpa [takeBidT, toModuleT] using hI.so m so' hm

theorem completeNameSO_inv {s s' : State} {n : Name} (hI : Inv s) (h : completeNameSO s n = .ok s') : Inv s' := by
  obtain ⟨d, so, b, _, hso, hb, _, _, rfl⟩ := completeNameSO_ok h
  exact completeNameSOT_inv hI hso hb

theorem completeNameSOMsg_inv {s s' : State} {a n} (hI : Inv s) (h : completeNameSOMsg s a n = .ok s') : Inv s' := by
  unfold completeNameSOMsg at h
  mcases' h
  · rename (s.nameSO.get n = some _) => hso
    rename (SellOrder.bid _ = some _) => hb
    rename (refundBid s _ = Except.ok _) => hr
    obtain ⟨rfl, _⟩ := fromModule_ok hr
    injection h with h; subst h
    have := dropNameSO_inv n hI
    simpa [nameBid, hso, hb, refundOptT, fromModuleT] using this
  · exact completeNameSO_inv hI h

theorem purchaseName_inv {s s' : State} {a n offer} (hI : Inv s) (h : purchaseName s a n offer = .ok s') : Inv s' := by
  unfold purchaseName at h
  mcases' h
  all_goals
    rename (s.nameSO.get n = some _) => hso
    rename (takeBid s _ a offer = Except.ok _) => ht
    obtain ⟨rfl, _, _⟩ := takeBid_ok ht
    have hown : ∀ d', s.ns.get n = some d' → a ≠ d'.owner := by
      rename (getName s n = some _) => hd0
      rename (DymName.owner _ ≠ a) => hne
      intro d' hd'
      have hd1 : s.ns.get n = some _ := hd0
      rw [hd'] at hd1; injection hd1 with hd1; subst hd1
      exact fun e => hne e.symm
    have hI2 := bidPlaced_inv a offer hI hso hown
    simp only [takeBidT_nameSO] at h
  · exact completeNameSO_inv hI2 h
  · injection h with h; subst h; exact hI2


/-! ### buy orders -/

theorem getBO_some {s : State} {pfx : Bool} {id : Nat} {bo : BuyOrder} (h : getBO s pfx id = some bo) :
    AMap.get s.bos id = some bo ∧ bo.isAlias = pfx := by
  unfold getBO at h
  cases hg : AMap.get s.bos id with
  | none => simp [hg] at h
  | some bo' =>
    simp only [hg] at h
    split at h
    · injection h with h; subst h; exact ⟨rfl, by assumption⟩
    · cases h

/-- an order leaves the book and its offer leaves the escrow (to whoever `x` is) -/
theorem boRemoved_inv {s : State} {id : Nat} {bo : BuyOrder} (x : Acct) (hI : Inv s)
    (hg : AMap.get s.bos id = some bo) : Inv (removeBO (fromModuleT s x bo.offer) id bo) := by
  have hle := offer_le_sum s id hI.wfB
  refine { wfN := hI.wfN, wfA := hI.wfA, wfB := noDup_del _ _ hI.wfB, esc := ?_, idx := hI.idx, ali := hI.ali,
           so := hI.so, boK := ?_ }
  · have := sum_delBO s id hI.wfB
    have e := hI.esc
    simp only [escrowed_def, removeBO, fromModuleT, hg, offerAmt] at this e hle ⊢
    omega
  · intro i b hb
    simp only [removeBO, fromModuleT, AMap.get_del] at hb
    split at hb
    · cases hb
    · exact hI.boK i b hb

theorem cancelBO_inv {s s' : State} {a pfx id} (hI : Inv s) (h : cancelBO s a pfx id = .ok s') : Inv s' := by
  unfold cancelBO at h
  mcases' h
  rename (getBO s pfx id = some _) => hg
  rename (fromModule s _ _ = Except.ok _) => hf
  obtain ⟨rfl, _⟩ := fromModule_ok hf
  injection h with h; subst h
  exact boRemoved_inv _ hI (getBO_some hg).1

theorem validateContinue_ok {s : State} {isAlias : Bool} {a : Acct} {asset offer : Nat} {cont : Option (Bool × Nat)}
    {r : Option (Nat × BuyOrder)} (h : validateContinue s isAlias a asset offer cont = .ok r) :
    ∀ id bo, r = some (id, bo) → AMap.get s.bos id = some bo ∧ bo.offer < offer ∧ bo.buyer = a := by
  unfold validateContinue at h
  intro id bo hr
  subst hr
  cases cont with
  | none => simp [pure, Except.pure] at h
  | some c =>
    obtain ⟨pfx, i⟩ := c
    simp only at h
    cases hg : getBO s pfx i with
    | none => simp [hg] at h
    | some bo' =>
      simp only [hg] at h
      mcases' h
      injection h with h
      injection h with h
      injection h with h1 h2
      subst h1; subst h2
      exact ⟨(getBO_some hg).1, by assumption, by assumption⟩

theorem validateContinue_cases {s : State} {isAlias : Bool} {a : Acct} {asset offer : Nat} {cont : Option (Bool × Nat)}
    {r : Option (Nat × BuyOrder)} (h : validateContinue s isAlias a asset offer cont = .ok r) :
    (cont = none ∧ r = none) ∨
    (∃ pfx id bo, cont = some (pfx, id) ∧ r = some (id, bo) ∧ AMap.get s.bos id = some bo ∧ bo.offer < offer ∧
      bo.buyer = a ∧ bo.isAlias = isAlias ∧ bo.asset = asset) := by
  unfold validateContinue at h
  cases cont with
  | none =>
    simp only [pure, Except.pure] at h
    injection h with h
    exact Or.inl ⟨rfl, h.symm⟩
  | some c =>
    obtain ⟨pfx, i⟩ := c
    simp only at h
    cases hg : getBO s pfx i with
    | none => simp [hg] at h
    | some bo' =>
      simp only [hg] at h
      mcases' h
      injection h with h
      rename (bo'.isAlias = isAlias ∧ bo'.asset = asset) => hx
      exact Or.inr ⟨pfx, i, bo', rfl, h.symm, (getBO_some hg).1, by assumption, by assumption, hx.1, hx.2⟩

theorem putBO_inv {s s' : State} {isAlias : Bool} {a : Acct} {asset : Nat} {dst : Chain} {offer : Nat}
    {ex : Option (Nat × BuyOrder)} (hI : Inv s)
    (hex : ∀ id bo, ex = some (id, bo) → AMap.get s.bos id = some bo ∧ bo.offer < offer ∧ bo.buyer = a)
    (h : putBO s isAlias a asset dst offer ex = .ok s') : Inv s' := by
  unfold putBO at h
  cases ex with
  | some e =>
    obtain ⟨id, bo⟩ := e
    obtain ⟨hg, hlt, _⟩ := hex id bo rfl
    simp only at h
    obtain ⟨rfl, _⟩ := toModule_ok h
    have hle := offer_le_sum s id hI.wfB
    refine { wfN := hI.wfN, wfA := hI.wfA, wfB := noDup_set _ _ _ hI.wfB, esc := ?_, idx := hI.idx, ali := hI.ali,
             so := hI.so, boK := ?_ }
    · have := sum_setBO s id { bo with offer := offer }
      have e := hI.esc
      simp only [escrowed_def, toModuleT, hg, offerAmt] at this e hle ⊢
      omega
    · intro i b hb
      simp only [toModuleT, AMap.get_set] at hb
      split at hb
      · rename_i hi; subst hi; exact hI.boK _ _ hg
      · exact hI.boK i b hb
  | none =>
    simp only at h
    obtain ⟨rfl, _⟩ := toModule_ok h
    have hnone : AMap.get s.bos (s.boCount + 1) = none := by
      cases hg : AMap.get s.bos (s.boCount + 1) with
      | none => rfl
      | some b => have := hI.boK _ _ hg; omega
    refine { wfN := hI.wfN, wfA := hI.wfA, wfB := noDup_set _ _ _ hI.wfB, esc := ?_, idx := hI.idx, ali := hI.ali,
             so := hI.so, boK := ?_ }
    · have := sum_setBO s (s.boCount + 1) { isAlias := isAlias, asset := asset, dst := dst, buyer := a, offer := offer, counter := 0 }
      have e := hI.esc
      simp only [escrowed_def, toModuleT, hnone, offerAmt] at this e ⊢
      omega
    · intro i b hb
      simp only [toModuleT, AMap.get_set] at hb
      split at hb
      · rename_i hi; subst hi; exact Nat.le_refl _
      · have := hI.boK i b hb
        simp only [toModuleT]; omega

theorem placeNameBO_inv {s s' : State} {a n offer cont} (hI : Inv s) (h : placeNameBO s a n offer cont = .ok s') :
    Inv s' := by
  unfold placeNameBO at h
  mcases' h
  rename (validateContinue s false a n offer cont = Except.ok _) => hv
  exact putBO_inv hI (validateContinue_ok hv) h

theorem acceptNameBO_inv {s s' : State} {a id bo m} (hI : Inv s) (hg : AMap.get s.bos id = some bo)
    (h : acceptNameBO s a id bo m = .ok s') : Inv s' := by
  unfold acceptNameBO at h
  mcases' h
  · rename (fromModule s _ _ = Except.ok _) => hf
    obtain ⟨rfl, _⟩ := fromModule_ok hf
    obtain ⟨rfl, _⟩ := transferOwnership_ok h
    exact transferOwnershipT_inv _ _ _ (boRemoved_inv _ hI hg)
  · injection h with h; subst h
    have hle := offer_le_sum s id hI.wfB
    refine { wfN := hI.wfN, wfA := hI.wfA, wfB := noDup_set _ _ _ hI.wfB, esc := ?_, idx := hI.idx, ali := hI.ali,
             so := hI.so, boK := ?_ }
    · have := sum_setBO s id { bo with counter := m }
      have e := hI.esc
      simp only [escrowed_def, hg, offerAmt] at this e hle ⊢
      omega
    · intro i b hb
      simp only [AMap.get_set] at hb
      split at hb
      · rename_i hi; subst hi; exact hI.boK _ _ hg
      · exact hI.boK i b hb

end DymVerif.DymNS
