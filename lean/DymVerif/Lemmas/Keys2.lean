import DymVerif.Model.Keys2
import DymVerif.Lemmas.Keys
namespace DymVerif.Keys
open DymVerif

/-! ### fixed-width decimal digits -/

theorem decN_length (k n : Nat) : (decN k n).length = k := by
  induction k generalizing n with
  | zero => rfl
  | succ k ih => simp [decN, ih]

theorem pow10_pos (k : Nat) : 0 < 10 ^ k := Nat.pow_pos (by decide)

theorem div_pow10_lt (k n : Nat) (h : n < 10 ^ (k + 1)) : n / 10 ^ k < 10 := by
  rw [Nat.div_lt_iff_lt_mul (pow10_pos k)]; rw [Nat.pow_succ] at h; rw [Nat.mul_comm]; exact h

/-- every element of a decimal rendering is an ASCII digit -/
theorem decN_digit (k n : Nat) : ∀ x ∈ decN k n, 48 ≤ x ∧ x ≤ 57 := by
  induction k generalizing n with
  | zero => intro x hx; simp [decN] at hx
  | succ k ih =>
    intro x hx
    simp only [decN, List.mem_cons] at hx
    rcases hx with h | h
    · have := Nat.mod_lt (n / 10 ^ k) (by decide : 0 < 10); omega
    · exact ih _ x h

/-- fixed-width decimal is order preserving: lexicographic byte order = numeric order -/
theorem lexLt_decN (k a b : Nat) (ha : a < 10 ^ k) (hb : b < 10 ^ k) :
    lexLt (decN k a) (decN k b) = decide (a < b) := by
  induction k generalizing a b with
  | zero => simp [decN, lexLt] at *; omega
  | succ k ih =>
    have hp := pow10_pos k
    simp only [decN, lexLt]
    have hqa := div_pow10_lt k a ha
    have hqb := div_pow10_lt k b hb
    rw [Nat.mod_eq_of_lt hqa, Nat.mod_eq_of_lt hqb]
    have ea := Nat.div_add_mod a (10 ^ k)
    have eb := Nat.div_add_mod b (10 ^ k)
    have ra := Nat.mod_lt a hp
    have rb := Nat.mod_lt b hp
    by_cases h1 : a / 10 ^ k < b / 10 ^ k
    · have h1' : 48 + a / 10 ^ k < 48 + b / 10 ^ k := by omega
      simp only [h1', if_true]
      have : 10 ^ k * (a / 10 ^ k + 1) ≤ 10 ^ k * (b / 10 ^ k) := Nat.mul_le_mul_left _ h1
      rw [Nat.mul_add, Nat.mul_one] at this
      have : a < b := by omega
      simp [this]
    · have h1' : ¬ 48 + a / 10 ^ k < 48 + b / 10 ^ k := by omega
      simp only [h1', if_false]
      by_cases h2 : b / 10 ^ k < a / 10 ^ k
      · have h2' : 48 + b / 10 ^ k < 48 + a / 10 ^ k := by omega
        simp only [h2', if_true]
        have : 10 ^ k * (b / 10 ^ k + 1) ≤ 10 ^ k * (a / 10 ^ k) := Nat.mul_le_mul_left _ h2
        rw [Nat.mul_add, Nat.mul_one] at this
        have : ¬ a < b := by omega
        simp [this]
      · have h2' : ¬ 48 + b / 10 ^ k < 48 + a / 10 ^ k := by omega
        simp only [h2', if_false]
        have heq : a / 10 ^ k = b / 10 ^ k := by omega
        rw [ih _ _ ra rb]
        rw [heq] at ea
        have : (a % 10 ^ k < b % 10 ^ k) ↔ a < b := by omega
        simp [this]

theorem lexLt_total_eq (a b : Bytes) (h1 : lexLt a b = false) (h2 : lexLt b a = false) : a = b := by
  induction a generalizing b with
  | nil => cases b with
    | nil => rfl
    | cons _ _ => simp [lexLt] at h1
  | cons x xs ih =>
    cases b with
    | nil => simp [lexLt] at h2
    | cons y ys =>
      simp only [lexLt] at h1 h2
      by_cases c1 : x < y
      · simp [c1] at h1
      · by_cases c2 : y < x
        · simp [c2] at h2
        · have : x = y := by omega
          subst this
          simp only [c1, if_false] at h1 h2
          rw [ih ys h1 h2]

theorem decN_inj (k a b : Nat) (ha : a < 10 ^ k) (hb : b < 10 ^ k) (h : decN k a = decN k b) : a = b := by
  have h1 := lexLt_decN k a b ha hb
  have h2 := lexLt_decN k b a hb ha
  rw [h, lexLt_irrefl] at h1
  rw [h, lexLt_irrefl] at h2
  have := of_decide_eq_false h1.symm
  have := of_decide_eq_false h2.symm
  omega

/-- the last digit: `decN (k+1) n = decN k (n / 10) ++ [48 + n % 10]` -/
theorem decN_snoc (k n : Nat) : decN (k + 1) n = decN k (n / 10) ++ [48 + n % 10] := by
  induction k generalizing n with
  | zero => simp [decN]
  | succ k ih =>
    rw [decN, ih (n % 10 ^ (k + 1))]
    have e1 : n / 10 ^ (k + 1) % 10 = n / 10 / 10 ^ k % 10 := by
      rw [Nat.pow_succ, Nat.mul_comm, ← Nat.div_div_eq_div_mul]
    have e2 : n % 10 ^ (k + 1) / 10 = n / 10 % 10 ^ k := by
      rw [Nat.pow_succ, Nat.mul_comm, Nat.mod_mul_right_div_self]
    have e3 : n % 10 ^ (k + 1) % 10 = n % 10 := by
      rw [Nat.pow_succ, Nat.mul_comm]; exact Nat.mod_mul_right_mod n 10 (10 ^ k)
    simp only [decN, e1, e2, e3, List.cons_append]

/-! ### digit count and padding -/

theorem numDigitsAux_pos (f n : Nat) : 1 ≤ numDigitsAux f n := by
  cases f with
  | zero => simp [numDigitsAux]
  | succ f => simp only [numDigitsAux]; split <;> omega

theorem lt_pow_numDigitsAux (f n : Nat) (h : n ≤ f) : n < 10 ^ numDigitsAux f n := by
  induction f generalizing n with
  | zero => have : n = 0 := by omega
            subst this; simp [numDigitsAux]
  | succ f ih =>
    simp only [numDigitsAux]
    split
    · simpa using ‹n < 10›
    · have := ih (n / 10) (by omega)
      rw [Nat.pow_succ]; omega

theorem lt_pow_numDigits (n : Nat) : n < 10 ^ numDigits n := lt_pow_numDigitsAux n n (Nat.le_refl n)

theorem numDigitsAux_le (f n w : Nat) (hw : 1 ≤ w) (h : n < 10 ^ w) : numDigitsAux f n ≤ w := by
  induction f generalizing n w with
  | zero => simpa [numDigitsAux] using hw
  | succ f ih =>
    simp only [numDigitsAux]
    split
    · exact hw
    · rename_i h10
      cases w with
      | zero => omega
      | succ w =>
        cases w with
        | zero => simp at h; omega
        | succ w =>
          have : n / 10 < 10 ^ (w + 1) := by
            rw [Nat.div_lt_iff_lt_mul (by decide)]; rw [Nat.pow_succ] at h; exact h
          have := ih (n / 10) (w + 1) (by omega) this
          omega

/-- in range the padded rendering is the fixed-width one -/
theorem padDec_eq (w n : Nat) (hw : 1 ≤ w) (h : n < 10 ^ w) : padDec w n = decN w n := by
  have := numDigitsAux_le n n w hw h
  simp only [padDec, numDigits]
  rw [Nat.max_eq_left this]

/-- leading digit of the canonical rendering is not '0' unless the number is a single digit -/
theorem numDigitsAux_lower (f n : Nat) (h : n ≤ f) (h10 : 10 ≤ n) : 10 ^ (numDigitsAux f n - 1) ≤ n := by
  induction f generalizing n with
  | zero => omega
  | succ f ih =>
    simp only [numDigitsAux]
    split
    · omega
    · simp only [Nat.add_sub_cancel]
      by_cases h100 : 10 ≤ n / 10
      · have := ih (n / 10) (by omega) h100
        have hp := numDigitsAux_pos f (n / 10)
        have e : numDigitsAux f (n / 10) = (numDigitsAux f (n / 10) - 1) + 1 := by omega
        rw [e, Nat.pow_succ]; omega
      · have : numDigitsAux f (n / 10) = 1 := by
          cases f with
          | zero => rfl
          | succ f => simp only [numDigitsAux]; rw [if_pos (by omega)]
        rw [this]; simpa using h10

/-! ### parsing decimals back -/

theorem decValAux_append (acc : Nat) (a b : Bytes) (ha : ∀ x ∈ a, 48 ≤ x ∧ x ≤ 57) :
    decValAux acc (a ++ b) = (decValAux acc a).bind (fun v => decValAux v b) := by
  induction a generalizing acc with
  | nil => simp [decValAux]
  | cons x xs ih =>
    have hx := ha x List.mem_cons_self
    simp only [List.cons_append, decValAux, hx, and_self, if_true]
    exact ih _ (fun y hy => ha y (List.mem_cons_of_mem _ hy))

theorem decValAux_decN (k n acc : Nat) (h : n < 10 ^ k) :
    decValAux acc (decN k n) = some (acc * 10 ^ k + n) := by
  induction k generalizing n acc with
  | zero => simp [decN, decValAux] at *; omega
  | succ k ih =>
    have hq := div_pow10_lt k n h
    have hd : 48 ≤ 48 + n / 10 ^ k % 10 ∧ 48 + n / 10 ^ k % 10 ≤ 57 := by omega
    simp only [decN, decValAux, hd, and_self, if_true]
    rw [ih _ _ (Nat.mod_lt _ (pow10_pos k)), Nat.mod_eq_of_lt hq]
    have e0 : 48 + n / 10 ^ k - 48 = n / 10 ^ k := Nat.add_sub_cancel_left _ _
    have := Nat.div_add_mod n (10 ^ k)
    rw [e0, Nat.pow_succ, Nat.add_mul, Nat.mul_assoc, Nat.mul_comm 10 (10 ^ k), Nat.mul_comm (n / 10 ^ k)]
    congr 1; omega

/-- `ParseUint(FormatUint(n)) = n` for every uint64 -/
theorem parseU64_decStr (n : Nat) (h : n < 2 ^ 64) : parseU64 (decStr n) = some n := by
  have hne : (decStr n).isEmpty = false := by
    have := decN_length (numDigits n) n
    have hp : 1 ≤ numDigits n := numDigitsAux_pos n n
    cases hd : decStr n with
    | nil => simp [decStr] at hd; rw [hd] at this; simp at this; omega
    | cons _ _ => rfl
  simp only [parseU64, hne]
  rw [decStr, decValAux_decN _ _ _ (lt_pow_numDigits n)]
  simp [h]

theorem decStr_inj (a b : Nat) (h : decStr a = decStr b) : a = b := by
  have ha := decValAux_decN _ a 0 (lt_pow_numDigits a)
  have hb := decValAux_decN _ b 0 (lt_pow_numDigits b)
  simp only [decStr] at h
  rw [h, hb] at ha
  simpa using ha.symm

/-! ### canonical decimals: a digit string without leading zero is the rendering of its value -/

/-- what the parsing loop accepts is a string of decimal digits, and it is the fixed-width rendering
    of the value it contributes -/
theorem decValAux_digits (s : Bytes) (acc n : Nat) (h : decValAux acc s = some n) :
    ∃ v, v < 10 ^ s.length ∧ n = acc * 10 ^ s.length + v ∧ s = decN s.length v := by
  induction s generalizing acc n with
  | nil =>
    simp only [decValAux, Option.some.injEq] at h
    exact ⟨0, by simp, by simp [h], rfl⟩
  | cons c cs ih =>
    simp only [decValAux] at h
    split at h
    · rename_i hc
      obtain ⟨v', hv', hn, hs⟩ := ih _ _ h
      have hp := pow10_pos cs.length
      have h9 : c - 48 ≤ 9 := by omega
      refine ⟨(c - 48) * 10 ^ cs.length + v', ?_, ?_, ?_⟩
      · simp only [List.length_cons, Nat.pow_succ]
        have := Nat.mul_le_mul_right (10 ^ cs.length) h9
        omega
      · simp only [List.length_cons, Nat.pow_succ]
        rw [hn, Nat.add_mul, Nat.mul_assoc, Nat.mul_comm 10 (10 ^ cs.length)]; omega
      · have e1 : ((c - 48) * 10 ^ cs.length + v') / 10 ^ cs.length = c - 48 := by
          rw [Nat.add_comm, Nat.add_mul_div_right _ _ hp, Nat.div_eq_of_lt hv']; simp
        have e2 : ((c - 48) * 10 ^ cs.length + v') % 10 ^ cs.length = v' := by
          rw [Nat.add_comm, Nat.add_mul_mod_self_right, Nat.mod_eq_of_lt hv']
        simp only [List.length_cons, decN]
        rw [e1, e2, Nat.mod_eq_of_lt (by omega), ← hs]
        congr 1; omega
    · simp at h

theorem numDigits_lt10 (n : Nat) (h : n < 10) : numDigits n = 1 := by
  unfold numDigits
  cases n with
  | zero => rfl
  | succ m => simp only [numDigitsAux]; rw [if_pos h]

/-- the digit count is determined by the decade the number lies in -/
theorem numDigits_of_decade (k n : Nat) (hlo : 10 ^ k ≤ n) (hhi : n < 10 ^ (k + 1)) : numDigits n = k + 1 := by
  by_cases h10 : n < 10
  · have hk : k = 0 := by
      cases k with
      | zero => rfl
      | succ k =>
        have : 10 ^ 1 ≤ 10 ^ (k + 1) := Nat.pow_le_pow_right (by decide) (by omega)
        omega
    rw [numDigits_lt10 n h10, hk]
  · have hup := lt_pow_numDigits n
    have hlow := numDigitsAux_lower n n (Nat.le_refl n) (by omega)
    have hpos := numDigitsAux_pos n n
    change 10 ^ (numDigits n - 1) ≤ n at hlow
    change 1 ≤ numDigits n at hpos
    by_cases c1 : numDigits n ≤ k
    · have : 10 ^ numDigits n ≤ 10 ^ k := Nat.pow_le_pow_right (by decide) c1
      omega
    · by_cases c2 : k + 2 ≤ numDigits n
      · have : 10 ^ (k + 1) ≤ 10 ^ (numDigits n - 1) := Nat.pow_le_pow_right (by decide) (by omega)
        omega
      · omega

/-- a non-empty digit string without a leading '0' is the canonical rendering of the value it parses to -/
theorem digits_canonical (s : Bytes) (n : Nat) (hlead : ∀ c cs, s = c :: cs → c ≠ 48)
    (hne : s ≠ []) (h : decValAux 0 s = some n) : s = decStr n := by
  obtain ⟨v, hv, hn, hs⟩ := decValAux_digits s 0 n h
  have hnv : n = v := by omega
  subst hnv
  cases s with
  | nil => exact absurd rfl hne
  | cons c cs =>
    have hc := hlead c cs rfl
    simp only [List.length_cons] at hs hv
    have hhead : c = 48 + n / 10 ^ cs.length % 10 := by
      have := hs; simp only [decN, List.cons.injEq] at this; exact this.1
    have hp := pow10_pos cs.length
    have hlo : 10 ^ cs.length ≤ n := by
      cases hq : n / 10 ^ cs.length with
      | zero => rw [hq] at hhead; simp at hhead; exact absurd hhead hc
      | succ q =>
        have := (Nat.le_div_iff_mul_le hp).1 (by omega : 1 ≤ n / 10 ^ cs.length)
        omega
    rw [decStr, numDigits_of_decade cs.length n hlo hv]
    exact hs

/-! ### byte order helpers -/

/-- for equal-length heads the order of `u ++ s` vs `v ++ t` is decided by the heads, then the tails -/
theorem lexLt_append_eqlen (u v s t : Bytes) (hl : u.length = v.length) :
    lexLt (u ++ s) (v ++ t) = (lexLt u v || (u == v && lexLt s t)) := by
  induction u generalizing v with
  | nil => cases v with
    | nil => simp [lexLt]
    | cons _ _ => simp at hl
  | cons p ps ih =>
    cases v with
    | nil => simp at hl
    | cons q qs =>
      simp only [List.cons_append, lexLt]
      by_cases h1 : p < q
      · simp [h1]
      · by_cases h2 : q < p
        · have : p ≠ q := by omega
          simp [h1, h2, this]
        · have : p = q := by omega
          subst this
          simp [h1, ih qs (by simpa using hl)]

/-- incrementing the last byte of `q ++ [d]` gives the least upper bound of everything that has a
    head (of that length) `≤ q ++ [d]`: the comparison that makes `PrefixEndBytes` scans inclusive -/
theorem lexLt_succ_last (q : Bytes) (d : Nat) (b r : Bytes) (hl : b.length = q.length + 1) :
    lexLt (b ++ r) (q ++ [d + 1]) = !(lexLt (q ++ [d]) b) := by
  induction q generalizing b with
  | nil =>
    match b, hl with
    | [y], _ =>
      have hnil : lexLt r [] = false := by cases r <;> rfl
      simp only [List.nil_append, List.cons_append, lexLt, hnil]
      by_cases h1 : y < d + 1
      · have : ¬ d < y := by omega
        simp [h1, this]
      · have : d < y := by omega
        have h3 : d + 1 < y ∨ ¬ d + 1 < y := by omega
        rcases h3 with h3 | h3 <;> simp [h1, this, h3]
  | cons p ps ih =>
    cases b with
    | nil => simp at hl
    | cons y ys =>
      simp only [List.cons_append, lexLt]
      by_cases h1 : y < p
      · have : ¬ p < y := by omega
        simp [h1, this]
      · by_cases h2 : p < y
        · simp [h1, h2]
        · simp only [h1, h2, if_false]
          exact ih ys (by simpa using hl)

theorem prefixEnd_snoc (q : Bytes) (d : Nat) (hd : d ≠ 255) : prefixEnd (q ++ [d]) = some (q ++ [d + 1]) := by
  simp [prefixEnd, List.reverse_append, hd]

/-! ### formatted time -/

def TimeF.InRange (t : TimeF) : Prop :=
  t.Y < 10000 ∧ t.M < 100 ∧ t.D < 100 ∧ t.h < 100 ∧ t.m < 100 ∧ t.s < 100 ∧ t.ns < 1000000000

/-- what Go's calendar guarantees for the fields of a `time.Time` (plus the year bound) -/
def TimeF.Calendar (t : TimeF) : Prop :=
  t.Y < 10000 ∧ 1 ≤ t.M ∧ t.M ≤ 12 ∧ 1 ≤ t.D ∧ t.D ≤ 31 ∧ t.h < 24 ∧ t.m < 60 ∧ t.s < 60 ∧
    t.ns < 1000000000

theorem TimeF.Calendar.inRange {t : TimeF} (h : t.Calendar) : t.InRange := by
  unfold TimeF.Calendar at h; unfold TimeF.InRange; omega

/-- in range the formatted time has the fixed-width shape -/
theorem fmtTime_eq (t : TimeF) (h : t.InRange) :
    fmtTime t = decN 4 t.Y ++ ([45] ++ (decN 2 t.M ++ ([45] ++ (decN 2 t.D ++ ([84] ++
      (decN 2 t.h ++ ([58] ++ (decN 2 t.m ++ ([58] ++ (decN 2 t.s ++ ([46] ++ decN 9 t.ns))))))))))) := by
  obtain ⟨h1, h2, h3, h4, h5, h6, h7⟩ := h
  simp only [fmtTime, List.append_assoc]
  rw [padDec_eq 4 t.Y (by decide) (by simpa using h1), padDec_eq 2 t.M (by decide) (by simpa using h2),
    padDec_eq 2 t.D (by decide) (by simpa using h3), padDec_eq 2 t.h (by decide) (by simpa using h4),
    padDec_eq 2 t.m (by decide) (by simpa using h5), padDec_eq 2 t.s (by decide) (by simpa using h6),
    padDec_eq 9 t.ns (by decide) (by simpa using h7)]

theorem fmtTime_length (t : TimeF) (h : t.InRange) : (fmtTime t).length = 29 := by
  rw [fmtTime_eq t h]; simp [decN_length]

private theorem beq_decN (k a b : Nat) (ha : a < 10 ^ k) (hb : b < 10 ^ k) :
    (decN k a == decN k b) = decide (a = b) := by
  by_cases h : a = b
  · subst h; simp
  · have : decN k a ≠ decN k b := fun e => h (decN_inj k a b ha hb e)
    simp [h, this]

private theorem step_field (k a b : Nat) (c : Nat) (r s : Bytes) (ha : a < 10 ^ k) (hb : b < 10 ^ k) :
    lexLt (decN k a ++ ([c] ++ r)) (decN k b ++ ([c] ++ s)) =
      (decide (a < b) || (decide (a = b) && lexLt r s)) := by
  rw [lexLt_append_eqlen _ _ _ _ (by simp [decN_length]), lexLt_decN k a b ha hb, beq_decN k a b ha hb,
    lexLt_append_left]

/-- **byte order of formatted times = lexicographic order of the field tuples** -/
theorem lexLt_fmtTime (a b : TimeF) (ha : a.InRange) (hb : b.InRange) :
    lexLt (fmtTime a) (fmtTime b) = lexLt a.fields b.fields := by
  rw [fmtTime_eq a ha, fmtTime_eq b hb]
  obtain ⟨a1, a2, a3, a4, a5, a6, a7⟩ := ha
  obtain ⟨b1, b2, b3, b4, b5, b6, b7⟩ := hb
  rw [step_field 4 _ _ _ _ _ (by simpa using a1) (by simpa using b1),
    step_field 2 _ _ _ _ _ (by simpa using a2) (by simpa using b2),
    step_field 2 _ _ _ _ _ (by simpa using a3) (by simpa using b3),
    step_field 2 _ _ _ _ _ (by simpa using a4) (by simpa using b4),
    step_field 2 _ _ _ _ _ (by simpa using a5) (by simpa using b5),
    step_field 2 _ _ _ _ _ (by simpa using a6) (by simpa using b6),
    lexLt_decN 9 _ _ (by simpa using a7) (by simpa using b7)]
  have field : ∀ (x y : Nat) (r s : List Nat),
      lexLt (x :: r) (y :: s) = (decide (x < y) || (decide (x = y) && lexLt r s)) := by
    intro x y r s
    simp only [lexLt]
    by_cases h1 : x < y
    · simp [h1]
    · by_cases h2 : y < x
      · have : x ≠ y := by omega
        simp [h1, h2, this]
      · have : x = y := by omega
        simp [this]
  simp only [TimeF.fields, field]
  simp [lexLt]

theorem fmtTime_inj (a b : TimeF) (ha : a.InRange) (hb : b.InRange) (h : fmtTime a = fmtTime b) : a = b := by
  have h1 := lexLt_fmtTime a b ha hb
  have h2 := lexLt_fmtTime b a hb ha
  rw [h, lexLt_irrefl] at h1
  rw [h, lexLt_irrefl] at h2
  have e := lexLt_total_eq _ _ h1.symm h2.symm
  cases a; cases b
  simp only [TimeF.fields, List.cons.injEq, and_true] at e
  obtain ⟨e1, e2, e3, e4, e5, e6, e7⟩ := e
  subst e1 e2 e3 e4 e5 e6 e7; rfl

/-- the formatted time ends in a decimal digit: `fmtTime t = q ++ [48 + ns % 10]` -/
theorem fmtTime_snoc (t : TimeF) (h : t.InRange) :
    ∃ q, fmtTime t = q ++ [48 + t.ns % 10] ∧ q.length = 28 := by
  rw [fmtTime_eq t h, decN_snoc 8 t.ns]
  refine ⟨decN 4 t.Y ++ ([45] ++ (decN 2 t.M ++ ([45] ++ (decN 2 t.D ++ ([84] ++
      (decN 2 t.h ++ ([58] ++ (decN 2 t.m ++ ([58] ++ (decN 2 t.s ++ ([46] ++ decN 8 (t.ns / 10)))))))))))), ?_, ?_⟩
  · simp only [List.append_assoc]
  · simp [decN_length]

/-! ### buy-order ids -/

theorem decStr_length_pos (n : Nat) : 1 ≤ (decStr n).length := by
  rw [decStr, decN_length]; exact numDigitsAux_pos n n

theorem buyOrderIdPrefix_length (t : AssetType) : (buyOrderIdPrefix t).length = 2 := by cases t <;> rfl

theorem buyOrderIdPrefix_inj (a b : AssetType) (h : buyOrderIdPrefix a = buyOrderIdPrefix b) : a = b := by
  cases a <;> cases b <;> first | rfl | (exfalso; revert h; decide)

/-- parsing a well-formed id (type prefix, canonical decimal of a positive uint64) gives back both parts -/
theorem parseBuyOrderId_create (t : AssetType) (n : Nat) (h0 : 0 < n) (h : n < 2 ^ 64) :
    parseBuyOrderId (buyOrderIdPrefix t ++ decStr n) = some (t, n) := by
  have hl := decStr_length_pos n
  have hlen : ¬ (buyOrderIdPrefix t ++ decStr n).length < 3 := by
    simp [buyOrderIdPrefix_length]; omega
  have htake : (buyOrderIdPrefix t ++ decStr n).take 2 = buyOrderIdPrefix t := by
    rw [List.take_left' (buyOrderIdPrefix_length t)]
  have hdrop : (buyOrderIdPrefix t ++ decStr n).drop 2 = decStr n := by
    rw [List.drop_left' (buyOrderIdPrefix_length t)]
  simp only [parseBuyOrderId, hlen, if_false, htake, hdrop, parseU64_decStr n h, h0, if_true]
  cases t <;> simp [buyOrderIdPrefix]

/-- what `parseBuyOrderId` accepts has the shape prefix ++ digits with that value -/
theorem parseBuyOrderId_some (id : Bytes) (t : AssetType) (n : Nat) (h : parseBuyOrderId id = some (t, n)) :
    id = buyOrderIdPrefix t ++ id.drop 2 ∧ parseU64 (id.drop 2) = some n ∧ 0 < n := by
  unfold parseBuyOrderId at h
  split at h
  · exact absurd h (by simp)
  · rename_i hlen
    have hl2 : 2 ≤ id.length := by omega
    have hsplit : id = id.take 2 ++ id.drop 2 := (List.take_append_drop 2 id).symm
    by_cases h1 : id.take 2 = buyOrderIdPrefix .name
    · simp only [h1, if_true] at h
      cases hp : parseU64 (id.drop 2) with
      | none => simp [hp] at h
      | some v =>
        simp only [hp] at h
        by_cases hv : 0 < v
        · simp only [hv, if_true, Option.some.injEq, Prod.mk.injEq] at h
          obtain ⟨rfl, rfl⟩ := h
          exact ⟨by rw [← h1]; exact hsplit, rfl, hv⟩
        · simp [hv] at h
    · by_cases h2 : id.take 2 = buyOrderIdPrefix .alias
      · have hne : ¬ buyOrderIdPrefix .alias = buyOrderIdPrefix .name := by decide
        simp only [h2, hne, if_true, if_false] at h
        cases hp : parseU64 (id.drop 2) with
        | none => simp [hp] at h
        | some v =>
          simp only [hp] at h
          by_cases hv : 0 < v
          · simp only [hv, if_true, Option.some.injEq, Prod.mk.injEq] at h
            obtain ⟨rfl, rfl⟩ := h
            exact ⟨by rw [← h2]; exact hsplit, rfl, hv⟩
          · simp [hv] at h
      · simp [h1, h2] at h

end DymVerif.Keys
