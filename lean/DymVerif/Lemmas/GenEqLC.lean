/-
  Lemmas/GenEqLC — tie 1 for M-LC (C09, and the light-client clause of C06): what translate/lc.go
  regenerates from /repo's working tree on every check (`Gen/LC.lean`) equals what `Model/LC.lean` was
  written against.
  * translated comparisons that must EQUAL the model's definitions (`…_eq`): CheckCompatibility (state
    root, optional timestamp, next-validators hash — in that order), IsCanonicalClientParamsValid
    (scalars, lengths, element loops over the candidate's lists), the height loop of
    ValidateStateInfoAgainstConsensusStates, the state-info loop of validClient and its break, the range
    ends of pruneSigners (StartExclusive / EndExclusive), `<= lastValidHeight` and `lastValidHeight-1` of
    RollbackCanonicalClient, `GetLatestHeight()+1` of AfterUpdateState, the sanity check of
    ResolveHardFork, the revision and foreign-sequencer comparisons of HandleMsgUpdateClient;
  * every function the model mirrors step by step must have exactly the statement skeleton recorded
    here (`…_skeleton`).
  uint64 arithmetic is translated as wrapping; the lemmas about `±1` carry the no-overflow side condition.
-/
import DymVerif.Gen.LC
import DymVerif.Model.LC
namespace DymVerif.GenEq.LC
open DymVerif DymVerif.LC

/-! ### translated comparisons -/

/-- `CheckCompatibility` (with `compareNextValHash`) is the model's `compat`: same three comparisons, same order -/
theorem checkCompatibility_eq : Gen.LC.checkCompatibility = LC.compat := by
  funext cs root ts q
  unfold Gen.LC.checkCompatibility Gen.LC.compareNextValHash LC.compat
  cases ts with
  | none =>
    by_cases h1 : cs.root = root <;> by_cases h3 : cs.nextVal = valHash q <;> simp [h1, h3]
  | some t =>
    by_cases h1 : cs.root = root <;> by_cases h2 : cs.ts = t <;> by_cases h3 : cs.nextVal = valHash q <;> simp [h1, h2, h3]

theorem idxLoop_eq (g e : List Nat) :
    Gen.LC.idxLoop g e (fun a b => a != b) = (match checkList g e with | .ok => none | r => some r) := by
  induction g generalizing e with
  | nil => simp [Gen.LC.idxLoop, checkList]
  | cons a as ih =>
    cases e with
    | nil => simp [Gen.LC.idxLoop, checkList]
    | cons b bs =>
      unfold Gen.LC.idxLoop checkList
      by_cases h : a = b
      · simp [h, ih]
      · simp [h]

/-- `IsCanonicalClientParamsValid` is the model's `paramsCheck` (none = `.ok`) -/
theorem paramsValid_eq (p : CParams) (frozen : Bool) :
    Gen.LC.paramsValid p frozen = (match LC.paramsCheck p frozen with | .ok => none | r => some r) := by
  unfold Gen.LC.paramsValid LC.paramsCheck
  have hf : (fun (proofSpec e : Nat) => (!(proofSpec == e)) || (!(proofSpec == e))) = (fun a b => a != b) := by
    funext a b; simp [bne]
  rw [hf, idxLoop_eq, idxLoop_eq]
  by_cases h1 : p.trustLevel = 0 <;> by_cases h2 : p.trusting = 0 <;> by_cases h3 : p.unbonding = 0 <;>
    by_cases h4 : p.drift = 0 <;> cases frozen <;> simp [h1, h2, h3, h4]
  by_cases h5 : p.specs.length = expSpecs.length
  · simp only [h5]
    cases hc : checkList p.specs expSpecs <;> simp
    by_cases h6 : p.path.length = expPath.length
    · simp only [h6]
      cases checkList p.path expPath <;> simp
    · simp [h6]
  · simp [h5]

/-- the heights `ValidateStateInfoAgainstConsensusStates` visits are the model's `heightsOf` -/
theorem stateInfoHeights_eq (st : Core.SInfo) : Gen.LC.stateInfoHeights st.start st.last = heightsOf st := rfl

/-- the break of `validClient` is the model's `st.start < base` -/
theorem validLoop_cons (s : St) (cl : Client) (ra base : Nat) (st : Core.SInfo) (rest : List Core.SInfo) (m : Bool) :
    validLoop s cl ra base (st :: rest) m =
      (match validateStateInfo s cl ra st with
       | (_, some e) => (false, some e)
       | (m1, none) =>
         if Gen.LC.validClientStops st.start base then (m || m1, none) else validLoop s cl ra base rest (m || m1)) := by
  rw [validLoop]
  unfold Gen.LC.validClientStops
  generalize validateStateInfo s cl ra st = v
  rcases v with ⟨m1, _ | e⟩
  · by_cases h : st.start < base <;> simp [h]
  · rfl

theorem range_filterMap_getElem? (l : List α) (n : Nat) : (List.range n).filterMap (fun i => l[i]?) = l.take n := by
  induction n with
  | zero => simp
  | succ n ih =>
    rw [List.range_succ, List.filterMap_append, ih, List.take_add_one]
    cases h : l[n]? <;> simp [h]

theorem range_getElem? (l : List α) : (List.range l.length).filterMap (fun i => l[i]?) = l := by
  rw [range_filterMap_getElem?, List.take_length]

/-- `validClient` walks the state infos from index `Index` down to 1 (`GetStateInfo(i)` = `states[i-1]`):
    the model's `states.reverse` -/
theorem validClientIndices_eq (l : List α) :
    (Gen.LC.validClientIndices l.length).filterMap (fun i => l[i - 1]?) = l.reverse := by
  unfold Gen.LC.validClientIndices
  rw [List.filterMap_reverse, List.filterMap_map]
  congr 1
  exact range_getElem? l

/-- `pruneSigners`: `PruneSignersAbove` removes the heights strictly above, `PruneSignersBelow` strictly below -/
theorem pruneAbove_eq (s : St) (c h : Nat) :
    pruneAbove s c h = pruneWhere s c (Gen.LC.pruneRange Gen.LC.pruneAboveFlag h) := rfl
theorem pruneBelow_eq (s : St) (c h : Nat) :
    pruneBelow s c h = pruneWhere s c (Gen.LC.pruneRange Gen.LC.pruneBelowFlag h) := rfl

/-- `RollbackCanonicalClient` keeps the consensus states at or below the last valid height -/
theorem rollbackKeeps_eq (lv : Nat) :
    (fun (x : Nat × Cons) => decide (x.1 ≤ lv)) = (fun x => Gen.LC.rollbackKeeps x.1 lv) := rfl

/-- … and prunes the signers above `lastValidHeight - 1` (uint64: for a last valid height ≥ 1) -/
theorem rollbackPruneAbove_eq (lv : Nat) (h1 : 1 ≤ lv) (h2 : lv < 2 ^ 64) : Gen.LC.rollbackPruneAbove lv = lv - 1 := by
  unfold Gen.LC.rollbackPruneAbove; omega
example : (1 : Nat) ≤ 5 ∧ 5 < 2 ^ 64 := by decide

theorem rollbackClient_eq (s : St) (ra lv c : Nat) (cl : Client) (h1 : 1 ≤ lv) (h2 : lv < 2 ^ 64) :
    rollbackClient s ra lv c cl =
      (match (cl.cons.filter (fun x => Gen.LC.rollbackKeeps x.1 lv)).getLast? with
       | none => (s, some .forkNoCons)
       | some l =>
         (pruneAbove { (setClient s { cl with cons := cl.cons.filter (fun x => Gen.LC.rollbackKeeps x.1 lv), latest := l.1, frozen := true })
                       with descs := (setClient s { cl with cons := cl.cons.filter (fun x => Gen.LC.rollbackKeeps x.1 lv), latest := l.1, frozen := true }).descs.filter
                                       (fun d => !(d.ra == ra && lv < d.h)) } c (Gen.LC.rollbackPruneAbove lv), none)) := by
  rw [rollbackPruneAbove_eq lv h1 h2]; rfl

/-- `AfterUpdateState` prunes the signers below `GetLatestHeight()+1` -/
theorem afterUpdatePruneBelow_eq (latest : Nat) (h : latest + 1 < 2 ^ 64) : Gen.LC.afterUpdatePruneBelow latest = latest + 1 := by
  unfold Gen.LC.afterUpdatePruneBelow; omega
example : (7 : Nat) + 1 < 2 ^ 64 := by decide

theorem validateNew_eq (s : St) (ra : Nat) (st : Core.SInfo) (c : Nat) (cl : Client) (h : st.last + 1 < 2 ^ 64) :
    validateNew s ra st c cl =
      (match validateStateInfo s cl ra st with
       | (_, some e) => (s, some e)
       | (_, none) => (pruneBelow s c (Gen.LC.afterUpdatePruneBelow st.last), none)) := by
  rw [afterUpdatePruneBelow_eq _ h]; rfl

/-- the sanity check of `ResolveHardFork` -/
theorem resolveFork_refuses (s : St) (ra : Nat) (st : Core.SInfo) (cl : Client)
    (h : Gen.LC.resolveRefuses st.start cl.latest = true) : resolveFork s ra st cl = (s, some .resolveHeight) := by
  unfold Gen.LC.resolveRefuses at h
  unfold resolveFork
  simp only [decide_eq_true_eq] at h
  simp [h]
example : Gen.LC.resolveRefuses 3 3 = true := by decide

/-- the two comparisons of `HandleMsgUpdateClient` the model's `handleUpdate` / `foreignSeq` repeat -/
theorem revisionMismatch_eq (a b : Nat) : Gen.LC.revisionMismatch a b = (a != b) := rfl
theorem foreignSeq_eq (s : St) (c : Nat) (q : Core.Seq) :
    foreignSeq s c q = (match lookup s.c2r c with
      | some r => Gen.LC.foreignSequencer true q.rollapp r
      | none => false) := rfl

/-! ### the translated comparisons on concrete inputs -/

example : Gen.LC.checkCompatibility ⟨1, 2, 3⟩ 1 (some 2) 2 = none := by decide
example : Gen.LC.checkCompatibility ⟨1, 2, 3⟩ 9 (some 9) 9 = some .root := by decide
example : Gen.LC.checkCompatibility ⟨1, 2, 3⟩ 1 (some 9) 9 = some .ts := by decide
example : Gen.LC.checkCompatibility ⟨1, 2, 3⟩ 1 none 9 = some .nextVal := by decide
example : Gen.LC.paramsValid expParams false = none := by decide
example : Gen.LC.paramsValid expParams true = some .bad := by decide
example : Gen.LC.paramsValid { expParams with specs := [1] } false = some .bad := by decide
example : Gen.LC.paramsValid { expParams with path := [1, 2, 3] } false = some .bad := by decide
example : Gen.LC.paramsValid { expParams with path := [1, 3] } false = some .bad := by decide
example : Gen.LC.stateInfoHeights 4 6 = [4, 5, 6] := by decide
example : Gen.LC.validClientIndices 3 = [3, 2, 1] := by decide
example : Gen.LC.pruneRange Gen.LC.pruneAboveFlag 5 6 = true ∧ Gen.LC.pruneRange Gen.LC.pruneAboveFlag 5 5 = false ∧
    Gen.LC.pruneRange Gen.LC.pruneBelowFlag 5 4 = true ∧ Gen.LC.pruneRange Gen.LC.pruneBelowFlag 5 5 = false := by decide

/-! ### statement skeletons -/

/-- `CheckCompatibility` (x/lightclient/types) as mirrored by the model -/
theorem checkCompatibility_skeleton : Gen.LC.checkCompatibilitySk =
  ["if !bytes.Equal(ibcState.Root.GetHash(), raState.BlockDescriptor.StateRoot) {",
   "return wrap(ErrStateRootMismatch)",
   "}",
   "if !raState.BlockDescriptor.Timestamp.IsZero() && !ibcState.Timestamp.Equal(raState.BlockDescriptor.Timestamp) {",
   "return wrap(ErrTimestampMismatch)",
   "}",
   "if err := compareNextValHash(ibcState, raState); err != nil {",
   "return wrap(err)",
   "}",
   "return nil"] := rfl

/-- `compareNextValHash` (x/lightclient/types) as mirrored by the model -/
theorem compareNextValHash_skeleton : Gen.LC.compareNextValHashSk =
  ["hash, err := raState.NextBlockSequencer.ValsetHash()",
   "if err != nil {",
   "return errors.Join(err, wrap(gerrc.ErrInternal))",
   "}",
   "if !bytes.Equal(ibcState.NextValidatorsHash, hash) {",
   "return ErrNextValHashMismatch",
   "}",
   "return nil"] := rfl

/-- `IsCanonicalClientParamsValid` (x/lightclient/types) as mirrored by the model -/
theorem isCanonicalClientParamsValid_skeleton : Gen.LC.isCanonicalClientParamsValid =
  ["if got.TrustLevel != expect.TrustLevel {",
   "return errors.New(…)",
   "}",
   "if got.TrustingPeriod != expect.TrustingPeriod {",
   "return errors.New(…)",
   "}",
   "if got.UnbondingPeriod != expect.UnbondingPeriod {",
   "return fmt.Errorf()",
   "}",
   "if got.MaxClockDrift != expect.MaxClockDrift {",
   "return errors.New(…)",
   "}",
   "if got.FrozenHeight != expect.FrozenHeight {",
   "return errors.New(…)",
   "}",
   "if len(got.ProofSpecs) != len(expect.ProofSpecs) {",
   "return errors.New(…)",
   "}",
   "range got.ProofSpecs as i, proofSpec {",
   "if !proofSpec.SpecEquals(expect.ProofSpecs[i]) {",
   "return errors.New(…)",
   "}",
   "if !EqualICS23ProofSpecs(*proofSpec, *expect.ProofSpecs[i]) {",
   "return errors.New(…)",
   "}",
   "}",
   "if len(got.UpgradePath) != len(expect.UpgradePath) {",
   "return errors.New(…)",
   "}",
   "range got.UpgradePath as i, path {",
   "if path != expect.UpgradePath[i] {",
   "return errors.New(…)",
   "}",
   "}",
   "return nil"] := rfl

/-- `EqualICS23ProofSpecs` (x/lightclient/types) as mirrored by the model -/
theorem equalICS23ProofSpecs_skeleton : Gen.LC.equalICS23ProofSpecs =
  ["if proofSpecs1.MaxDepth != proofSpecs2.MaxDepth {",
   "return false",
   "}",
   "if proofSpecs1.MinDepth != proofSpecs2.MinDepth {",
   "return false",
   "}",
   "if proofSpecs1.PrehashKeyBeforeComparison != proofSpecs2.PrehashKeyBeforeComparison {",
   "return false",
   "}",
   "if proofSpecs1.LeafSpec.Hash != proofSpecs2.LeafSpec.Hash {",
   "return false",
   "}",
   "if proofSpecs1.LeafSpec.PrehashKey != proofSpecs2.LeafSpec.PrehashKey {",
   "return false",
   "}",
   "if proofSpecs1.LeafSpec.PrehashValue != proofSpecs2.LeafSpec.PrehashValue {",
   "return false",
   "}",
   "if proofSpecs1.LeafSpec.Length != proofSpecs2.LeafSpec.Length {",
   "return false",
   "}",
   "if !bytes.Equal(proofSpecs1.LeafSpec.Prefix, proofSpecs2.LeafSpec.Prefix) {",
   "return false",
   "}",
   "if len(proofSpecs1.InnerSpec.ChildOrder) != len(proofSpecs2.InnerSpec.ChildOrder) {",
   "return false",
   "}",
   "if !slices.Equal(proofSpecs1.InnerSpec.ChildOrder, proofSpecs2.InnerSpec.ChildOrder) {",
   "return false",
   "}",
   "if proofSpecs1.InnerSpec.ChildSize != proofSpecs2.InnerSpec.ChildSize {",
   "return false",
   "}",
   "if proofSpecs1.InnerSpec.MinPrefixLength != proofSpecs2.InnerSpec.MinPrefixLength {",
   "return false",
   "}",
   "if proofSpecs1.InnerSpec.MaxPrefixLength != proofSpecs2.InnerSpec.MaxPrefixLength {",
   "return false",
   "}",
   "if !bytes.Equal(proofSpecs1.InnerSpec.EmptyChild, proofSpecs2.InnerSpec.EmptyChild) {",
   "return false",
   "}",
   "if proofSpecs1.InnerSpec.Hash != proofSpecs2.InnerSpec.Hash {",
   "return false",
   "}",
   "return true"] := rfl

/-- `ExpectedCanonicalClientParams` (x/lightclient/types) as mirrored by the model -/
theorem expectedCanonicalClientParams_skeleton : Gen.LC.expectedCanonicalClientParams =
  ["return ibctm.ClientState{TrustLevel: ibctm.NewFractionFromTm(math.Fraction{Numerator: 1, Denominator: 3}), TrustingPeriod: expectedTrustPeriod(rollappUnbondingPeriod), UnbondingPeriod: rollappUnbondingPeriod, MaxClockDrift: time.Minute * 70, FrozenHeight: ibcclienttypes.ZeroHeight(), ProofSpecs: commitmenttypes.GetSDKSpecs(), UpgradePath: []string{\"upgrade\", \"upgradedIBCState\"}}"] := rfl

/-- `DefaultExpectedCanonicalClientParams` (x/lightclient/types) as mirrored by the model -/
theorem defaultExpectedCanonicalClientParams_skeleton : Gen.LC.defaultExpectedCanonicalClientParams =
  ["unbondingTime := time.Hour * 24 * 7 * 3",
   "return ExpectedCanonicalClientParams(unbondingTime)"] := rfl

/-- `expectedTrustPeriod` (x/lightclient/types) as mirrored by the model -/
theorem expectedTrustPeriod_skeleton : Gen.LC.expectedTrustPeriod =
  ["temp := unbondingPeriod / 100 * trustPeriodMultiplier",
   "return temp.Truncate(time.Second)"] := rfl

/-- `Keeper.TrySetCanonicalClient` (x/lightclient/keeper) as mirrored by the model -/
theorem trySetCanonicalClient_skeleton : Gen.LC.trySetCanonicalClient =
  ["clientStateI, ok := k.ibcClientKeeper.GetClientState(ctx, clientID)",
   "if !ok {",
   "return wrap(gerrc.ErrNotFound)",
   "}",
   "clientState, ok := clientStateI.(*ibctm.ClientState)",
   "if !ok {",
   "return wrap(gerrc.ErrInvalidArgument)",
   "}",
   "chainID := clientState.ChainId",
   "_, ok = k.rollappKeeper.GetRollapp(ctx, chainID)",
   "if !ok {",
   "return wrap(gerrc.ErrNotFound)",
   "}",
   "rollappID := chainID",
   "_, ok = k.GetCanonicalClient(ctx, rollappID)",
   "if ok {",
   "return wrap(gerrc.ErrAlreadyExists)",
   "}",
   "err := k.validClient(ctx, clientID, clientState, rollappID)",
   "if err != nil {",
   "return wrap(err)",
   "}",
   "call k.SetCanonicalClient(ctx, rollappID, clientID)",
   "return nil"] := rfl

/-- `Keeper.GetCanonicalClient` (x/lightclient/keeper) as mirrored by the model -/
theorem getCanonicalClient_skeleton : Gen.LC.getCanonicalClient =
  ["store := ctx.KVStore(k.storeKey)",
   "bz := store.Get(types.GetRollappClientKey(rollappId))",
   "if bz == nil {",
   "return \"\", false",
   "}",
   "return string(bz), true"] := rfl

/-- `Keeper.SetCanonicalClient` (x/lightclient/keeper) as mirrored by the model -/
theorem setCanonicalClient_skeleton : Gen.LC.setCanonicalClient =
  ["store := ctx.KVStore(k.storeKey)",
   "call store.Set(types.GetRollappClientKey(rollappId), []byte(clientID))",
   "call store.Set(types.CanonicalClientKey(clientID), []byte(rollappId))"] := rfl

/-- `Keeper.GetRollappForClientID` (x/lightclient/keeper) as mirrored by the model -/
theorem getRollappForClientID_skeleton : Gen.LC.getRollappForClientID =
  ["store := ctx.KVStore(k.storeKey)",
   "bz := store.Get(types.CanonicalClientKey(clientID))",
   "if bz == nil {",
   "return \"\", false",
   "}",
   "return string(bz), true"] := rfl

/-- `Keeper.expectedClient` (x/lightclient/keeper) as mirrored by the model -/
theorem expectedClient_skeleton : Gen.LC.expectedClient =
  ["return types.DefaultExpectedCanonicalClientParams()"] := rfl

/-- `Keeper.validClient` (x/lightclient/keeper) as mirrored by the model -/
theorem validClient_skeleton : Gen.LC.validClient =
  ["expClient := k.expectedClient()",
   "if err := types.IsCanonicalClientParamsValid(cs, &expClient); err != nil {",
   "return errors.Join(err, ErrParamsMismatch)",
   "}",
   "sinfo, ok := k.rollappKeeper.GetLatestStateInfoIndex(ctx, rollappId)",
   "if !ok {",
   "return wrap(gerrc.ErrNotFound)",
   "}",
   "baseHeight := k.GetFirstConsensusStateHeight(ctx, clientID)",
   "atLeastOneMatch := false",
   "for i := sinfo.Index; i > 0; i-- {",
   "sInfo, ok := k.rollappKeeper.GetStateInfo(ctx, rollappId, i)",
   "if !ok {",
   "return wrap(gerrc.ErrInternal)",
   "}",
   "matched, err := k.ValidateStateInfoAgainstConsensusStates(ctx, clientID, &sInfo)",
   "if err != nil {",
   "return errors.Join(ErrMismatch, err)",
   "}",
   "if matched {",
   "atLeastOneMatch = true",
   "}",
   "if sInfo.StartHeight < baseHeight {",
   "break",
   "}",
   "}",
   "if !atLeastOneMatch {",
   "return ErrNoMatch",
   "}",
   "return nil"] := rfl

/-- `Keeper.ValidateHeaderAgainstStateInfo` (x/lightclient/keeper) as mirrored by the model -/
theorem validateHeaderAgainstStateInfo_skeleton : Gen.LC.validateHeaderAgainstStateInfo =
  ["bd, ok := sInfo.GetBlockDescriptor(h)",
   "if !ok {",
   "return wrap(gerrc.ErrInternal)",
   "}",
   "nextSeq, err := k.SeqK.RealSequencer(ctx, sInfo.NextSequencerForHeight(h))",
   "if err != nil {",
   "return wrap(errors.Join(err, gerrc.ErrInternal))",
   "}",
   "rollappState := types.RollappState{BlockDescriptor: bd, NextBlockSequencer: nextSeq}",
   "return wrap(types.CheckCompatibility(*consState, rollappState))"] := rfl

/-- `Keeper.ValidateStateInfoAgainstConsensusStates` (x/lightclient/keeper) as mirrored by the model -/
theorem validateStateInfoAgainstConsensusStates_skeleton : Gen.LC.validateStateInfoAgainstConsensusStates =
  ["atLeastOneMatch := false",
   "for h := stateInfo.GetStartHeight(); h <= stateInfo.GetLatestHeight(); h++ {",
   "got, ok := k.getConsensusState(ctx, client, h)",
   "if !ok {",
   "continue",
   "}",
   "err := k.ValidateHeaderAgainstStateInfo(ctx, stateInfo, got, h)",
   "if err != nil {",
   "return false, wrap(err)",
   "}",
   "atLeastOneMatch = true",
   "}",
   "return atLeastOneMatch, nil"] := rfl

/-- `Keeper.getConsensusState` (x/lightclient/keeper) as mirrored by the model -/
theorem getConsensusState_skeleton : Gen.LC.getConsensusState =
  ["cs, _ := k.ibcClientKeeper.GetClientState(ctx, client)",
   "height := ibcclienttypes.NewHeight(cs.GetLatestHeight().GetRevisionNumber(), h)",
   "consensusState, ok := k.ibcClientKeeper.GetClientConsensusState(ctx, client, height)",
   "if !ok {",
   "return nil, false",
   "}",
   "tmConsensusState, ok := consensusState.(*ibctm.ConsensusState)",
   "if !ok {",
   "return nil, false",
   "}",
   "return tmConsensusState, true"] := rfl

/-- `Keeper.GetFirstConsensusStateHeight` (x/lightclient/keeper) as mirrored by the model -/
theorem getFirstConsensusStateHeight_skeleton : Gen.LC.getFirstConsensusStateHeight =
  ["call ibctm.IterateConsensusStateAscending(k.ibcClientKeeper.ClientStore(ctx, clientID), func)",
   "{",
   "first = height.GetRevisionHeight()",
   "return true",
   "}",
   "return first"] := rfl

/-- `rollappHook.AfterUpdateState` (x/lightclient/keeper) as mirrored by the model -/
theorem afterUpdateState_skeleton : Gen.LC.afterUpdateState =
  ["if !hook.k.Enabled() {",
   "return nil",
   "}",
   "rollappID := stateInfoM.Rollapp",
   "stateInfo := &stateInfoM.StateInfo",
   "client, ok := hook.k.GetCanonicalClient(ctx, rollappID)",
   "if !ok {",
   "return nil",
   "}",
   "if hook.k.rollappKeeper.IsFirstHeightOfLatestFork(ctx, rollappID, stateInfoM.Revision, stateInfo.GetStartHeight()) {",
   "err := hook.k.ResolveHardFork(ctx, rollappID)",
   "if err != nil {",
   "return wrap(err)",
   "}",
   "return nil",
   "}",
   "_, err := hook.k.ValidateStateInfoAgainstConsensusStates(ctx, client, stateInfo)",
   "if err != nil {",
   "return wrap(err)",
   "}",
   "if err := hook.k.PruneSignersBelow(ctx, client, stateInfo.GetLatestHeight() + 1); err != nil {",
   "return wrap(err)",
   "}",
   "return nil"] := rfl

/-- `rollappHook.OnHardFork` (x/lightclient/keeper) as mirrored by the model -/
theorem onHardFork_skeleton : Gen.LC.onHardFork =
  ["return hook.k.RollbackCanonicalClient(ctx, rollappId, lastValidHeight)"] := rfl

/-- `Keeper.RollbackCanonicalClient` (x/lightclient/keeper) as mirrored by the model -/
theorem rollbackCanonicalClient_skeleton : Gen.LC.rollbackCanonicalClient =
  ["client, found := k.GetCanonicalClient(ctx, rollappId)",
   "if !found {",
   "return wrap(gerrc.ErrFailedPrecondition)",
   "}",
   "cs := k.ibcClientKeeper.ClientStore(ctx, client)",
   "call IterateConsensusStateDescending(cs, func)",
   "{",
   "if h.GetRevisionHeight() <= lastValidHeight {",
   "lastConsStateHeight = h",
   "return true",
   "}",
   "call deleteConsensusState(cs, h)",
   "call deleteConsensusMetadata(cs, h)",
   "return false",
   "}",
   "err := k.PruneSignersAbove(ctx, client, lastValidHeight - 1)",
   "if err != nil {",
   "return wrap(err)",
   "}",
   "if err := k.freezeClient(cs, lastConsStateHeight); err != nil {",
   "return wrap(err)",
   "}",
   "return nil"] := rfl

/-- `Keeper.ResolveHardFork` (x/lightclient/keeper) as mirrored by the model -/
theorem resolveHardFork_skeleton : Gen.LC.resolveHardFork =
  ["clientID, _ := k.GetCanonicalClient(ctx, rollappID)",
   "clientStore := k.ibcClientKeeper.ClientStore(ctx, clientID)",
   "stateinfo, _ := k.rollappKeeper.GetLatestStateInfo(ctx, rollappID)",
   "height := stateinfo.StartHeight",
   "client := getClientStateTM(clientStore, k.cdc)",
   "clientHeight := client.GetLatestHeight().GetRevisionHeight()",
   "if height <= clientHeight {",
   "return wrap(gerrc.ErrInternal)",
   "}",
   "bd := stateinfo.BDs.BD[0]",
   "nextSeq, err := k.SeqK.RealSequencer(ctx, stateinfo.NextSequencerForHeight(height))",
   "if err != nil {",
   "return wrap(err)",
   "}",
   "valHash, err := nextSeq.ValsetHash()",
   "if err != nil {",
   "return wrap(err)",
   "}",
   "cs := ibctm.ConsensusState{Timestamp: bd.Timestamp, Root: commitmenttypes.NewMerkleRoot(bd.StateRoot), NextValidatorsHash: valHash}",
   "call setConsensusState(clientStore, k.cdc, clienttypes.NewHeight(1, height), &cs)",
   "call setConsensusMetadata(ctx, clientStore, clienttypes.NewHeight(1, height))",
   "call k.unfreezeClient(clientStore, height)",
   "return nil"] := rfl

/-- `Keeper.freezeClient` (x/lightclient/keeper) as mirrored by the model -/
theorem freezeClient_skeleton : Gen.LC.freezeClient =
  ["tmClientState := getClientStateTM(clientStore, k.cdc)",
   "height, ok := heightI.(clienttypes.Height)",
   "if !ok {",
   "return wrap(gerrc.ErrInternal)",
   "}",
   "tmClientState.LatestHeight = height",
   "tmClientState.FrozenHeight = ibctm.FrozenHeight",
   "call setClientState(clientStore, k.cdc, tmClientState)",
   "return nil"] := rfl

/-- `Keeper.unfreezeClient` (x/lightclient/keeper) as mirrored by the model -/
theorem unfreezeClient_skeleton : Gen.LC.unfreezeClient =
  ["tmClientState := getClientStateTM(clientStore, k.cdc)",
   "tmClientState.FrozenHeight = clienttypes.ZeroHeight()",
   "tmClientState.LatestHeight = clienttypes.NewHeight(1, height)",
   "call setClientState(clientStore, k.cdc, tmClientState)"] := rfl

/-- `IterateConsensusStateDescending` (x/lightclient/keeper) as mirrored by the model -/
theorem iterateConsensusStateDescending_skeleton : Gen.LC.iterateConsensusStateDescending =
  ["iterator := storetypes.KVStoreReversePrefixIterator(clientStore, []byte(ibctm.KeyIterateConsensusStatePrefix))",
   "defer iterator.Close()",
   "for ; iterator.Valid(); iterator.Next() {",
   "iterKey := iterator.Key()",
   "height := ibctm.GetHeightFromIterationKey(iterKey)",
   "if cb(height) {",
   "break",
   "}",
   "}"] := rfl

/-- `IBCMessagesDecorator.AnteHandle` (x/lightclient/keeper) as mirrored by the model -/
theorem anteHandle_skeleton : Gen.LC.anteHandle =
  ["msgs := tx.GetMsgs()",
   "if err := checkedMsgsTravelWithIBCOnly(msgs); err != nil {",
   "return ctx, err",
   "}",
   "range msgs as _, m {",
   "switch msg := m.(type) {",
   "case *ibcclienttypes.MsgSubmitMisbehaviour:",
   "if err := i.HandleMsgSubmitMisbehaviour(ctx, msg); err != nil {",
   "return ctx, wrap(err)",
   "}",
   "case *ibcclienttypes.MsgUpdateClient:",
   "if err := i.HandleMsgUpdateClient(ctx, msg); err != nil {",
   "return ctx, wrap(err)",
   "}",
   "case *ibcchanneltypes.MsgChannelOpenAck:",
   "if err := i.HandleMsgChannelOpenAck(ctx, msg); err != nil {",
   "return ctx, wrap(err)",
   "}",
   "default:",
   "continue",
   "}",
   "}",
   "return next(ctx, tx, simulate)"] := rfl

/-- `checkedMsgsTravelWithIBCOnly` (x/lightclient/keeper) as mirrored by `Model/LCTx.mixedRefusal` -/
theorem checkedMsgsTravelWithIBCOnly_skeleton : Gen.LC.checkedMsgsTravelWithIBCOnly =
  ["checked := false",
   "onlyIBC := true",
   "range msgs as _, m {",
   "switch m.(type) {",
   "case *ibcclienttypes.MsgUpdateClient, *ibcclienttypes.MsgSubmitMisbehaviour, *ibcchanneltypes.MsgChannelOpenAck:",
   "checked = true",
   "}",
   "if !strings.HasPrefix(sdk.MsgTypeURL(m), \"/ibc.core.\") {",
   "onlyIBC = false",
   "}",
   "}",
   "if checked && !onlyIBC {",
   "return wrap(gerrc.ErrInvalidArgument)",
   "}",
   "return nil"] := rfl

/-- `IBCMessagesDecorator.HandleMsgUpdateClient` (x/lightclient/keeper) as mirrored by the model -/
theorem handleMsgUpdateClient_skeleton : Gen.LC.handleMsgUpdateClient =
  ["if !i.k.Enabled() {",
   "return nil",
   "}",
   "canonicalRollapp, canonical := i.k.GetRollappForClientID(ctx, msg.ClientId)",
   "header, err := getHeader(msg)",
   "if !canonical && errorsmod.IsOf(err, errIsMisbehaviour) {",
   "return nil",
   "}",
   "if errorsmod.IsOf(err, errNoHeader) {",
   "return nil",
   "}",
   "if err != nil {",
   "return wrap(err)",
   "}",
   "seq, err := i.getSequencer(ctx, header)",
   "err = wrap(err)",
   "if errorsmod.IsOf(err, errProposerMismatch) {",
   "return err",
   "}",
   "if errorsmod.IsOf(err, gerrc.ErrNotFound) {",
   "if !canonical {",
   "return nil",
   "}",
   "return wrap(gerrc.ErrInvalidArgument)",
   "}",
   "if err != nil {",
   "return err",
   "}",
   "if canonical && seq.RollappId != canonicalRollapp {",
   "return wrap(gerrc.ErrInvalidArgument)",
   "}",
   "if canonical {",
   "valHash, err := seq.ValsetHash()",
   "if err != nil {",
   "return wrap(errors.Join(err, gerrc.ErrInternal))",
   "}",
   "if !bytes.Equal(header.Header.ValidatorsHash, valHash) {",
   "return wrap(gerrc.ErrInvalidArgument)",
   "}",
   "}",
   "if !seq.Bonded() {",
   "return wrap(gerrc.ErrInvalidArgument)",
   "}",
   "rollapp, ok := i.raK.GetRollapp(ctx, seq.RollappId)",
   "if !ok {",
   "return wrap(gerrc.ErrInternal)",
   "}",
   "if header.Header.Version.App != rollapp.LatestRevision().Number {",
   "return wrap(gerrc.ErrFailedPrecondition)",
   "}",
   "h := header.GetHeight().GetRevisionHeight()",
   "sInfo, err := i.raK.FindStateInfoByHeight(ctx, rollapp.RollappId, h)",
   "if errorsmod.IsOf(err, gerrc.ErrNotFound) {",
   "err := i.k.SaveSigner(ctx, seq.Address, msg.ClientId, h)",
   "if err != nil {",
   "return wrap(err)",
   "}",
   "return nil",
   "}",
   "if err != nil {",
   "return wrap(err)",
   "}",
   "err = i.k.ValidateHeaderAgainstStateInfo(ctx, sInfo, header.ConsensusState(), h)",
   "if err != nil {",
   "return wrap(err)",
   "}",
   "return nil"] := rfl

/-- `IBCMessagesDecorator.getSequencer` (x/lightclient/keeper) as mirrored by the model -/
theorem getSequencer_skeleton : Gen.LC.getSequencer =
  ["proposerBySignature := header.ValidatorSet.Proposer.GetAddress()",
   "proposerByData := header.Header.ProposerAddress",
   "if !bytes.Equal(proposerBySignature, proposerByData) {",
   "return sequencertypes.Sequencer{}, errProposerMismatch",
   "}",
   "return i.k.SeqK.SequencerByDymintAddr(ctx, proposerByData)"] := rfl

/-- `getHeader` (x/lightclient/keeper) as mirrored by the model -/
theorem getHeader_skeleton : Gen.LC.getHeader =
  ["clientMessage, err := ibcclienttypes.UnpackClientMessage(msg.ClientMessage)",
   "if err != nil {",
   "return nil, wrap(err)",
   "}",
   "_, ok := clientMessage.(*ibctm.Misbehaviour)",
   "if ok {",
   "return nil, errIsMisbehaviour",
   "}",
   "header, ok := clientMessage.(*ibctm.Header)",
   "if !ok {",
   "return nil, errNoHeader",
   "}",
   "return header, nil"] := rfl

/-- `IBCMessagesDecorator.HandleMsgSubmitMisbehaviour` (x/lightclient/keeper) as mirrored by the model -/
theorem handleMsgSubmitMisbehaviour_skeleton : Gen.LC.handleMsgSubmitMisbehaviour =
  ["_, ok := i.k.GetRollappForClientID(ctx, msg.ClientId)",
   "if ok {",
   "return wrap(gerrc.ErrInvalidArgument)",
   "}",
   "return nil"] := rfl

/-- `IBCMessagesDecorator.HandleMsgChannelOpenAck` (x/lightclient/keeper) as mirrored by the model -/
theorem handleMsgChannelOpenAck_skeleton : Gen.LC.handleMsgChannelOpenAck =
  ["if msg.PortId != ibctransfertypes.PortID {",
   "return nil",
   "}",
   "_, connection, err := i.ibcChannelKeeper.GetChannelConnection(ctx, msg.PortId, msg.ChannelId)",
   "if err != nil {",
   "return err",
   "}",
   "rollappID, found := i.k.GetRollappForClientID(ctx, connection.GetClientID())",
   "if !found {",
   "return nil",
   "}",
   "rollapp, found := i.raK.GetRollapp(ctx, rollappID)",
   "if !found {",
   "return wrap(gerrc.ErrInternal)",
   "}",
   "if rollapp.ChannelId != \"\" {",
   "return wrap(gerrc.ErrFailedPrecondition)",
   "}",
   "rollapp.ChannelId = msg.ChannelId",
   "call i.raK.SetRollapp(ctx, rollapp)",
   "return nil"] := rfl

/-- `msgServer.UpdateClient` (x/lightclient/keeper) as mirrored by the model -/
theorem msgUpdateClient_skeleton : Gen.LC.msgUpdateClient =
  ["ctx := sdk.UnwrapSDKContext(goCtx)",
   "payload := msg.Inner",
   "d := NewIBCMessagesDecorator(*m.Keeper, m.ibcClientKeeper, m.ibcChannelK, m.rollappKeeper)",
   "err := d.HandleMsgUpdateClient(ctx, payload)",
   "if err != nil {",
   "return nil, err",
   "}",
   "return m.ibcKeeper.UpdateClient(ctx, payload)"] := rfl

/-- `msgServer.SetCanonicalClient` (x/lightclient/keeper) as mirrored by the model -/
theorem msgSetCanonicalClient_skeleton : Gen.LC.msgSetCanonicalClient =
  ["ctx := sdk.UnwrapSDKContext(goCtx)",
   "if err := m.Keeper.TrySetCanonicalClient(ctx, msg.ClientId); err != nil {",
   "return nil, err",
   "}",
   "return &types.MsgSetCanonicalClientResponse{}, nil"] := rfl

/-- `Keeper.CanUnbond` (x/lightclient/keeper) as mirrored by the model -/
theorem canUnbond_skeleton : Gen.LC.canUnbond =
  ["client, ok := k.GetCanonicalClient(ctx, seq.RollappId)",
   "if !ok {",
   "return nil",
   "}",
   "rng := collections.NewSuperPrefixedTripleRange[string, string, uint64](seq.Address, client)",
   "return k.headerSigners.Walk(ctx, rng, func)",
   "{",
   "return true, wrap(sequencertypes.ErrUnbondNotAllowed)",
   "}"] := rfl

/-- `Keeper.PruneSignersAbove` (x/lightclient/keeper) as mirrored by the model -/
theorem pruneSignersAbove_skeleton : Gen.LC.pruneSignersAbove =
  ["return k.pruneSigners(ctx, client, h, true)"] := rfl

/-- `Keeper.PruneSignersBelow` (x/lightclient/keeper) as mirrored by the model -/
theorem pruneSignersBelow_skeleton : Gen.LC.pruneSignersBelow =
  ["return k.pruneSigners(ctx, client, h, false)"] := rfl

/-- `Keeper.SaveSigner` (x/lightclient/keeper) as mirrored by the model -/
theorem saveSigner_skeleton : Gen.LC.saveSigner =
  ["return errors.Join(k.headerSigners.Set(ctx, collections.Join3(seqAddr, client, h)), k.clientHeightToSigner.Set(ctx, collections.Join(client, h), seqAddr))"] := rfl

/-- `Keeper.RemoveSigner` (x/lightclient/keeper) as mirrored by the model -/
theorem removeSigner_skeleton : Gen.LC.removeSigner =
  ["return errors.Join(k.headerSigners.Remove(ctx, collections.Join3(seqAddr, client, h)), k.clientHeightToSigner.Remove(ctx, collections.Join(client, h)))"] := rfl

/-- `Keeper.GetSigner` (x/lightclient/keeper) as mirrored by the model -/
theorem getSigner_skeleton : Gen.LC.getSigner =
  ["return k.clientHeightToSigner.Get(ctx, collections.Join(client, h))"] := rfl

/-- `Keeper.pruneSigners` (x/lightclient/keeper) as mirrored by the model -/
theorem pruneSigners_skeleton : Gen.LC.pruneSigners =
  ["if isAbove {",
   "rng = collections.NewPrefixedPairRange[string, uint64](client).StartExclusive(h)",
   "} else {",
   "rng = collections.NewPrefixedPairRange[string, uint64](client).EndExclusive(h)",
   "}",
   "seqs := make([]string, 0)",
   "heights := make([]uint64, 0)",
   "if err := k.clientHeightToSigner.Walk(ctx, rng, func); err != nil {",
   "{",
   "seqs = append(seqs, value)",
   "heights = append(heights, key.K2())",
   "return false, nil",
   "}",
   "return wrap(err)",
   "}",
   "for i := 0; i < len(seqs); i++ {",
   "if err := k.RemoveSigner(ctx, seqs[i], client, heights[i]); err != nil {",
   "return wrap(err)",
   "}",
   "}",
   "return nil"] := rfl

/-- `Keeper.HardFork` (x/rollapp/keeper/hard_fork.go) as mirrored by the model -/
theorem rollappHardFork_skeleton : Gen.LC.rollappHardFork =
  ["rollapp, found := k.GetRollapp(ctx, rollappID)",
   "if !found {",
   "return gerrc.ErrNotFound",
   "}",
   "if !k.ForkAllowed(ctx, rollappID, lastValidHeight) {",
   "return wrap(gerrc.ErrFailedPrecondition)",
   "}",
   "lastValidHeight, err := k.RevertPendingStates(ctx, rollappID, lastValidHeight + 1)",
   "if err != nil {",
   "return wrap(err)",
   "}",
   "newRevisionHeight := lastValidHeight + 1",
   "call rollapp.BumpRevision(newRevisionHeight)",
   "call k.ResetLivenessClock(ctx, &rollapp)",
   "call k.SetRollapp(ctx, rollapp)",
   "err = k.hooks.OnHardFork(ctx, rollappID, lastValidHeight)",
   "if err != nil {",
   "return wrap(err)",
   "}",
   "return nil"] := rfl


end DymVerif.GenEq.LC
