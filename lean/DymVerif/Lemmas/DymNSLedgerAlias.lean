/-
  Lemmas/DymNSLedgerAlias — exact balance equations of the alias market messages.
-/
import DymVerif.Lemmas.DymNSLedger
namespace DymVerif.DymNS
open AMap

/-- the state right after a bid was recorded on the sell order of alias `l` -/
def bidStateA (s : State) (so : SellOrder) (a : Acct) (offer : Nat) (l : AliasId) (dst : Chain) : State :=
  let s1 := takeBidT s so.bid a offer
  { s1 with aliasSO := AMap.set s1.aliasSO l { so with bid := some ⟨a, offer, dst⟩ } }

theorem balOf_bidStateA (s : State) (so : SellOrder) (a : Acct) (offer : Nat) (l : AliasId) (dst : Chain) (x : Acct) :
    balOf (bidStateA s so a offer l dst) x =
      if x = a then balOf s a + refundTo so.bid a - offer else balOf s x + refundTo so.bid x := by
  rw [← balOf_takeBidT]; exact balOf_congr rfl x

/-- `CompleteAliasSellOrder`: result and facts -/
theorem completeAliasSO_ok {s s' : State} {l : AliasId} (h : completeAliasSO s l = .ok s') :
    ∃ so b src r, AMap.get s.aliasSO l = some so ∧ so.bid = some b ∧ so.finished s.now = true ∧
      AMap.get s.al.aliasTo l = some src ∧ AMap.get s.al.rollapps src = some r ∧
      AMap.get s'.aliasSO l = none ∧ AMap.get s'.al.aliasTo l = some b.dst ∧
      ∀ x, balOf s' x = balOf s x + (if x = r.owner then b.price else 0) := by
  unfold completeAliasSO at h
  mcases' h
  rename (s.aliasSO.get l = some _) => hso
  rename (SellOrder.bid _ = some _) => hb
  rename (AMap.get s.al.aliasTo l = some _) => hsrc
  rename (AMap.get s.al.rollapps _ = some _) => hr
  rename (SellOrder.finished _ s.now = true) => hfin
  rename (fromModule s _ _ = Except.ok _) => hf
  obtain ⟨rfl, _⟩ := fromModule_ok hf
  rename (removeAlias _ _ l = Except.ok _) => hrm
  obtain ⟨_, _, rfl⟩ := removeAlias_ok hrm
  obtain ⟨_, _, rfl⟩ := setAlias_ok h
  refine ⟨_, _, _, _, hso, hb, hfin, hsrc, hr, by simp [fromModuleT], by simp [AliasStore.setAliasT], fun x => ?_⟩
  have e : ∀ (t : State) (al : AliasStore), balOf { t with al := al } x = balOf t x := fun t al => balOf_congr rfl x
  rw [e, e]
  have e2 : ∀ (t : State) (m : AMap AliasId SellOrder), balOf { t with aliasSO := m } x = balOf t x :=
    fun t m => balOf_congr rfl x
  rw [e2, balOf_fromModuleT]
  split
  · rename_i hx; subst hx; rfl
  · rfl

/-- **completing a finished sell order of an alias**: refund in full when the alias is reserved or
    alias trading is disabled; otherwise the owner of the source RollApp receives exactly the
    winning bid and the alias moves to the bidder's RollApp -/
theorem completeAliasSOMsg_ledger {s s' : State} {a : Acct} {l : AliasId} (h : completeAliasSOMsg s a l = .ok s') :
    ∃ so b, AMap.get s.aliasSO l = some so ∧ so.bid = some b ∧ so.finished s.now = true ∧ AMap.get s'.aliasSO l = none ∧
      (if (reserved s.p l || !s.p.tradeAlias) = true
       then s'.al = s.al ∧ ∀ x, balOf s' x = balOf s x + refundTo (some b) x
       else ∃ src r, AMap.get s.al.aliasTo l = some src ∧ AMap.get s.al.rollapps src = some r ∧
            AMap.get s'.al.aliasTo l = some b.dst ∧
            ∀ x, balOf s' x = balOf s x + (if x = r.owner then b.price else 0)) := by
  unfold completeAliasSOMsg at h
  mcases' h
  · rename (s.aliasSO.get l = some _) => hso
    rename (SellOrder.bid _ = some _) => hb
    rename ((reserved s.p l || !s.p.tradeAlias) = true) => hr
    rename (refundBid s _ = Except.ok _) => hf
    obtain ⟨rfl, _⟩ := fromModule_ok hf
    injection h with h; subst h
    refine ⟨_, _, hso, hb, by assumption, by simp, ?_⟩
    simp only [hr, if_true]
    refine ⟨rfl, fun x => ?_⟩
    rw [← balOf_refundOptT]; exact balOf_congr rfl x
  · rename (s.aliasSO.get l = some _) => hso
    rename (SellOrder.bid _ = some _) => hb
    rename (¬ (reserved s.p l || !s.p.tradeAlias) = true) => hr
    obtain ⟨so0, b0, src, r, hso0, hb0, hfin, hsrc, hrr, hgone, hto, hbal⟩ := completeAliasSO_ok h
    rw [hso] at hso0; injection hso0 with hso0; subst hso0
    rw [hb] at hb0; injection hb0 with hb0; subst hb0
    refine ⟨_, _, hso, hb, hfin, hgone, ?_⟩
    simp only [hr, if_false]
    exact ⟨src, r, hsrc, hrr, hto, hbal⟩

/-- **a bid on an alias**: buyer pays exactly the offer, previous bidder refunded in full; if the
    bid reaches the sell price the owner of the source RollApp receives exactly the offer and the
    alias moves to the buyer's RollApp -/
theorem purchaseAlias_ledger {s s' : State} {a : Acct} {l : AliasId} {offer : Nat} {dst : Chain} {so : SellOrder}
    (h : purchaseAlias s a l offer dst = .ok s') (hso : AMap.get s.aliasSO l = some so) :
    if ({ so with bid := some ⟨a, offer, dst⟩ } : SellOrder).finished s.now = true
    then ∃ src r, AMap.get s.al.aliasTo l = some src ∧ AMap.get s.al.rollapps src = some r ∧
          AMap.get s'.al.aliasTo l = some dst ∧ AMap.get s'.aliasSO l = none ∧
          ∀ x, balOf s' x + (if x = a then offer else 0) =
            balOf s x + refundTo so.bid x + (if x = r.owner then offer else 0)
    else s'.al = s.al ∧ AMap.get s'.aliasSO l = some { so with bid := some ⟨a, offer, dst⟩ } ∧
          ∀ x, balOf s' x + (if x = a then offer else 0) = balOf s x + refundTo so.bid x := by
  unfold purchaseAlias at h
  mcases' h
  all_goals
    rename (s.aliasSO.get l = some _) => hso'
    rw [hso] at hso'; injection hso' with hso'; subst hso'
    rename (takeBid s _ a offer = Except.ok _) => ht
    obtain ⟨rfl, _, hle⟩ := takeBid_ok ht
    rw [balOf_refundOptT] at hle
  · rename (SellOrder.finished _ _ = true) => hfin
    have hfin' : ({ so with bid := some ⟨a, offer, dst⟩ } : SellOrder).finished s.now = true := by simpa using hfin
    change completeAliasSO (bidStateA s so a offer l dst) l = .ok s' at h
    obtain ⟨so0, b0, src, r, hso0, hb0, _, hsrc, hrr, hgone, hto, hbal⟩ := completeAliasSO_ok h
    have hso0' : some ({ so with bid := some ⟨a, offer, dst⟩ } : SellOrder) = some so0 := by
      simpa [bidStateA] using hso0
    injection hso0' with hso0'; subst hso0'
    simp only at hb0
    injection hb0 with hb0; subst hb0
    simp only [hfin', if_true]
    refine ⟨src, r, by simpa [bidStateA] using hsrc, by simpa [bidStateA] using hrr, hto, hgone, fun x => ?_⟩
    rw [hbal x, balOf_bidStateA]
    by_cases hxa : x = a
    · by_cases hxo : x = r.owner
      · have hro : r.owner = a := by rw [← hxo, hxa]
        subst hxa
        simp only [hro, if_true]; omega
      · have hro : ¬ a = r.owner := fun e => hxo (hxa.trans e)
        subst hxa
        simp only [hxo, if_true, if_false]; omega
    · by_cases hxo : x = r.owner
      · have hro : ¬ r.owner = a := fun e => hxa (hxo.trans e)
        simp [hxo, hro]
      · simp [hxa, hxo]
  · rename (¬ SellOrder.finished _ _ = true) => hfin
    have hfin' : ¬ ({ so with bid := some ⟨a, offer, dst⟩ } : SellOrder).finished s.now = true := by simpa using hfin
    injection h with h
    have h' : s' = bidStateA s so a offer l dst := h.symm
    subst h'
    simp only [hfin', if_false]
    refine ⟨by simp [bidStateA], by simp [bidStateA], fun x => ?_⟩
    rw [balOf_bidStateA]
    by_cases hxa : x = a
    · subst hxa; simp only [if_true]; omega
    · simp [hxa]

/-- **placing or raising a buy order on an alias**: a new order escrows exactly the offer, a raise
    only the difference to the previous offer; nobody else's balance moves; the buyer owns the
    destination RollApp, which is not the RollApp the alias belongs to -/
theorem placeAliasBO_ledger {s s' : State} {a : Acct} {l : AliasId} {offer : Nat} {cont : Option (Bool × Nat)} {dst : Chain}
    (h : placeAliasBO s a l offer cont dst = .ok s') :
    isCreator s dst a = true ∧ AMap.get s.al.aliasTo l ≠ some dst ∧ s.p.minOffer ≤ offer ∧
    (∀ x, x ≠ a → balOf s' x = balOf s x) ∧
    (match cont with
     | none => balOf s' a + offer = balOf s a ∧
               AMap.get s'.bos (s.boCount + 1) = some ⟨true, l, dst, a, offer, 0⟩
     | some (_, id) => ∃ bo, AMap.get s.bos id = some bo ∧ bo.buyer = a ∧ bo.isAlias = true ∧ bo.asset = l ∧ bo.offer < offer ∧
               balOf s' a + (offer - bo.offer) = balOf s a ∧ AMap.get s'.bos id = some { bo with offer := offer }) := by
  unfold placeAliasBO at h
  mcases' h
  rename (validateContinue s true a l offer cont = Except.ok _) => hv
  rename (validateAliasDst s a l dst = Except.ok _) => hd
  have hdst : isCreator s dst a = true ∧ AMap.get s.al.aliasTo l ≠ some dst := by
    unfold validateAliasDst at hd
    mcases' hd
    rename (AMap.get s.al.aliasTo l = some _) => hsrc
    refine ⟨by assumption, ?_⟩
    rw [hsrc]
    intro e; injection e with e
    rename (¬ dst = _) => hne
    exact hne e.symm
  refine ⟨hdst.1, hdst.2, by assumption, ?_⟩
  unfold putBO at h
  rcases validateContinue_cases hv with ⟨rfl, rfl⟩ | ⟨pfx, id, bo, rfl, rfl, hg, hlt, hbuy, hal, has⟩
  · simp only at h
    obtain ⟨rfl, hle⟩ := toModule_ok h
    refine ⟨fun x hx => ?_, ?_, ?_⟩
    · rw [balOf_toModuleT]; simp only [hx, if_false]; exact balOf_congr rfl x
    · rw [balOf_toModuleT]; simp only [if_true]
      simp only [balOf] at hle ⊢; omega
    · simp [toModuleT]
  · simp only at h
    obtain ⟨rfl, hle⟩ := toModule_ok h
    refine ⟨fun x hx => ?_, bo, hg, hbuy, hal, has, hlt, ?_, ?_⟩
    · rw [balOf_toModuleT]; simp only [hx, if_false]; exact balOf_congr rfl x
    · rw [balOf_toModuleT]; simp only [if_true]
      simp only [balOf] at hle ⊢; omega
    · simp [toModuleT]

end DymVerif.DymNS
