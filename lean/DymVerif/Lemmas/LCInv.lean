/-
  Lemmas/LCInv — the designation maps of M-LC: `Shape` (what every op except `setCanonical` /
  `createClient` / `chanAck` / `chanInit` leaves alone) and the invariant that the two store maps are
  mutually inverse and point at existing clients of the right chain.
-/
import DymVerif.Lemmas.LCBasic
namespace DymVerif.LC
open DymVerif.Core (Addr NextP)

/-- `s'` has the same designations, channels and client identities / chains as `s` -/
structure Shape (s s' : St) : Prop where
  r2c : s'.r2c = s.r2c
  c2r : s'.c2r = s.c2r
  chanOf : s'.chanOf = s.chanOf
  chans : s'.chans = s.chans
  client : ∀ c cl, getClient s c = some cl → ∃ cl', getClient s' c = some cl' ∧ cl'.chain = cl.chain

theorem Shape.refl (s : St) : Shape s s := ⟨rfl, rfl, rfl, rfl, fun _ cl h => ⟨cl, h, rfl⟩⟩

theorem Shape.trans {a b c : St} (h1 : Shape a b) (h2 : Shape b c) : Shape a c :=
  ⟨h2.r2c.trans h1.r2c, h2.c2r.trans h1.c2r, h2.chanOf.trans h1.chanOf, h2.chans.trans h1.chans, fun k cl hk => by
    obtain ⟨cl1, g1, e1⟩ := h1.client k cl hk
    obtain ⟨cl2, g2, e2⟩ := h2.client k cl1 g1
    exact ⟨cl2, g2, e2.trans e1⟩⟩

theorem Shape.of_eq {s s' : St} (e1 : s'.clients = s.clients) (e2 : s'.r2c = s.r2c) (e3 : s'.c2r = s.c2r)
    (e4 : s'.chanOf = s.chanOf) (e5 : s'.chans = s.chans) : Shape s s' :=
  ⟨e2, e3, e4, e5, fun c cl h => ⟨cl, by rw [getClient_congr e1]; exact h, rfl⟩⟩

theorem Shape.setClient {s : St} {cl old : Client} (h : getClient s cl.id = some old) (hc : cl.chain = old.chain) : Shape s (setClient s cl) := by
  refine ⟨rfl, rfl, rfl, rfl, ?_⟩
  intro c x hx
  by_cases e : c = cl.id
  · subst e
    rw [h] at hx; cases hx
    exact ⟨cl, getClient_setClient_self h, hc⟩
  · exact ⟨x, by rw [getClient_setClient_ne e]; exact hx, rfl⟩

theorem shape_rollbackClient (s : St) (ra lv c : Nat) (cl : Client) (hcl : getClient s c = some cl) :
    Shape s (rollbackClient s ra lv c cl).1 := by
  unfold rollbackClient
  split
  · exact Shape.refl s
  · rename_i l _
    have hid := getClient_id hcl
    refine Shape.trans (Shape.setClient (cl := { cl with cons := cl.cons.filter (·.1 ≤ lv), latest := l.1, frozen := true }) (old := cl) (by simpa [hid] using hcl) rfl) ?_
    exact Shape.of_eq rfl rfl rfl rfl rfl

theorem shape_rollback (s : St) (ra lv : Nat) : Shape s (rollback s ra lv).1 := by
  unfold rollback
  cases lookup s.r2c ra with
  | none => exact Shape.refl s
  | some c =>
    simp only
    cases hcl : getClient s c with
    | none => exact Shape.refl s
    | some cl => exact shape_rollbackClient s ra lv c cl hcl

theorem rollbackClient_err {s : St} {ra lv c : Nat} {cl : Client} {e : LErr} (h : (rollbackClient s ra lv c cl).2 = some e) :
    (rollbackClient s ra lv c cl).1 = s := by
  unfold rollbackClient at h ⊢
  split
  · rfl
  · rename_i l hl
    simp [hl] at h

theorem rollback_err {s : St} {ra lv : Nat} {e : LErr} (h : (rollback s ra lv).2 = some e) : (rollback s ra lv).1 = s := by
  unfold rollback at h ⊢
  cases hl : lookup s.r2c ra with
  | none => rfl
  | some c =>
    simp only [hl] at h ⊢
    cases hcl : getClient s c with
    | none => rfl
    | some cl =>
      simp only [hcl] at h ⊢
      exact rollbackClient_err h

theorem shape_applyForks : ∀ (l : List (Nat × Nat)) (s : St), Shape s (applyForks s l).1
  | [], s => Shape.refl s
  | (ra, lv) :: rest, s => by
    unfold applyForks
    split
    · exact Shape.refl s
    · rename_i s1 hr
      have h1 : Shape s (rollback s ra lv).1 := shape_rollback s ra lv
      rw [hr] at h1
      exact h1.trans (shape_applyForks rest s1)

theorem shape_resolveFork (s : St) (ra : Nat) (st : Core.SInfo) (c : Nat) (cl : Client) (hcl : getClient s c = some cl) :
    Shape s (resolveFork s ra st cl).1 := by
  unfold resolveFork
  split
  · exact Shape.refl s
  · split
    · exact Shape.refl s
    · rename_i d _
      split
      · exact Shape.refl s
      · rename_i q _
        have hid := getClient_id hcl
        exact Shape.setClient (cl := { cl with cons := insCons st.start ⟨d.root, d.ts.getD 0, valHash q⟩ cl.cons, latest := st.start, frozen := false })
          (old := cl) (by simpa [hid] using hcl) rfl

theorem shape_validateNew (s : St) (ra : Nat) (st : Core.SInfo) (c : Nat) (cl : Client) : Shape s (validateNew s ra st c cl).1 := by
  unfold validateNew
  split
  · exact Shape.refl s
  · exact Shape.of_eq rfl rfl rfl rfl rfl

theorem shape_afterUpdate (s : St) (ra rev : Nat) (st : Core.SInfo) : Shape s (afterUpdate s ra rev st).1 := by
  unfold afterUpdate
  cases lookup s.r2c ra with
  | none => exact Shape.refl s
  | some c =>
    simp only
    cases hcl : getClient s c with
    | none => exact Shape.refl s
    | some cl =>
      cases Core.getRa s.core ra with
      | none => exact Shape.refl s
      | some r =>
        simp only
        split
        · exact shape_resolveFork s ra st c cl hcl
        · exact shape_validateNew s ra st c cl

theorem shape_withDescs {s1 s2 : St} {o : Core.Op} {ds : List (Nat × Option Nat)} (h : withDescs s1 o ds = some s2) : Shape s1 s2 := by
  unfold withDescs at h
  split at h
  · split at h
    · exact absurd h (by simp)
    · simp only [Option.some.injEq] at h
      subst h
      exact Shape.of_eq rfl rfl rfl rfl rfl
  · simp only [Option.some.injEq] at h
    subst h
    exact Shape.refl s1

/-- the tail of an update either fails (the caller's state is returned) or keeps the shape -/
theorem shape_finishUpdate (s s3 : St) (m : Core.UpdMsg) (ds : List (Nat × Option Nat)) :
    (finishUpdate s s3 m ds).1 = s ∨ Shape s3 (finishUpdate s s3 m ds).1 := by
  unfold finishUpdate
  cases Core.getRa s3.core m.ra with
  | none => exact Or.inl rfl
  | some r =>
    simp only
    cases r.states.getLast? with
    | none => exact Or.inl rfl
    | some st =>
      simp only
      split
      · exact Or.inl rfl
      · have h34 := shape_afterUpdate s3 m.ra m.rev st
        cases ha : afterUpdate s3 m.ra m.rev st with
        | mk s4 oe =>
          cases oe with
          | some e => exact Or.inl rfl
          | none => right; rw [ha] at h34; exact h34

theorem shape_coreOp (s : St) (o : Core.Op) (ds : List (Nat × Option Nat)) : Shape s (coreOp s o ds).1 := by
  unfold coreOp
  split
  · exact Shape.refl s
  · rename_i core1 _
    split
    · exact Shape.refl s
    · split
      · exact Shape.refl s
      · rename_i s2 hs2
        have h12 : Shape s s2 := (Shape.of_eq (s := s) (s' := { s with core := core1 }) rfl rfl rfl rfl rfl).trans (shape_withDescs hs2)
        split
        · exact Shape.refl s
        · rename_i s3 hf
          have h23 : Shape s2 s3 := by
            have := shape_applyForks (newForks s.core core1) s2
            rw [hf] at this; exact this
          cases o with
          | update m =>
            simp only
            rcases shape_finishUpdate s s3 m ds with e | h34
            · rw [e]; exact Shape.refl s
            · exact (h12.trans h23).trans h34
          | _ => exact h12.trans h23

theorem shape_handleUpdate (s : St) (c : Nat) (hd : Hdr) : Shape s (handleUpdate s c hd).1 := by
  unfold handleUpdate
  simp only
  repeat' split
  all_goals first
    | exact Shape.refl s
    | exact Shape.of_eq rfl rfl rfl rfl rfl

theorem shape_updateClient (s : St) (c : Nat) (w : Wrap) (hd : Hdr) (ibc : Bool) : Shape s (updateClient s c w hd ibc).1 := by
  unfold updateClient
  cases w with
  | nested => exact Shape.refl s
  | storedProposal => exact Shape.refl s
  | wrapped => exact Shape.refl s
  | nestedWrapped => exact Shape.refl s
  | top =>
    simp only
    split
    · exact Shape.refl s
    · rename_i s1 hh
      have h1 : Shape s s1 := by
        have := shape_handleUpdate s c hd
        rw [hh] at this; exact this
      split
      · exact h1
      · rename_i cl hcl
        split
        · obtain ⟨cl1, g1, _⟩ := h1.client c cl hcl
          refine h1.trans (Shape.setClient (cl := ibcApply cl hd) (old := cl1) ?_ ?_)
          · have hid : (ibcApply cl hd).id = c := by
              have := getClient_id hcl
              unfold ibcApply
              repeat' split
              all_goals simpa using this
            rw [hid]; exact g1
          · have : (ibcApply cl hd).chain = cl.chain := by
              unfold ibcApply
              repeat' split
              all_goals rfl
            rw [this]
            -- handleUpdate leaves the client list alone
            have hcl1 : getClient s1 c = getClient s c := by
              have : s1.clients = s.clients := by
                have h := congrArg Prod.fst hh
                simp only at h
                rw [← h]
                unfold handleUpdate
                simp only
                repeat' split
                all_goals rfl
              exact getClient_congr this c
            rw [hcl1, hcl] at g1
            cases g1; rfl
        · exact h1

theorem shape_misbehaviour (s : St) (c : Nat) (k : MKind) (ibc : Bool) : Shape s (misbehaviour s c k ibc).1 := by
  unfold misbehaviour
  split
  · exact Shape.refl s
  · rename_i cl hcl
    have hid := getClient_id hcl
    have hf : Shape s (setClient s { cl with frozen := true }) :=
      Shape.setClient (cl := { cl with frozen := true }) (old := cl) (by simpa [hid] using hcl) rfl
    simp only
    cases k <;> simp only <;> repeat' split
    all_goals first
      | exact Shape.refl s
      | exact hf

-- ---------------------------------------------------------------- the designation invariant

structure MapsInv (s : St) : Prop where
  c2r_r2c : ∀ c r, lookup s.c2r c = some r → lookup s.r2c r = some c
  r2c_c2r : ∀ r c, lookup s.r2c r = some c → lookup s.c2r c = some r
  canon_client : ∀ c r, lookup s.c2r c = some r → ∃ cl, getClient s c = some cl ∧ cl.chain = r

theorem MapsInv.of_shape {s s' : St} (h : MapsInv s) (hs : Shape s s') : MapsInv s' := by
  refine ⟨?_, ?_, ?_⟩
  · intro c r hc; rw [hs.c2r] at hc; rw [hs.r2c]; exact h.c2r_r2c c r hc
  · intro r c hr; rw [hs.r2c] at hr; rw [hs.c2r]; exact h.r2c_c2r r c hr
  · intro c r hc
    rw [hs.c2r] at hc
    obtain ⟨cl, g, e⟩ := h.canon_client c r hc
    obtain ⟨cl', g', e'⟩ := hs.client c cl g
    exact ⟨cl', g', e'.trans e⟩

theorem setCanonical_cases (s : St) (c : Nat) :
    ((setCanonical s c).1 = s ∧ ∃ e, (setCanonical s c).2 = some e) ∨
    (∃ cl r, getClient s c = some cl ∧ Core.getRa s.core cl.chain = some r ∧ lookup s.r2c cl.chain = none ∧
      paramsCheck cl.params cl.frozen = .ok ∧
      validLoop s cl cl.chain (firstConsHeight cl) r.states.reverse false = (true, none) ∧
      (setCanonical s c).2 = none ∧
      (setCanonical s c).1 = { s with r2c := s.r2c ++ [(cl.chain, c)], c2r := s.c2r ++ [(c, cl.chain)] }) := by
  unfold setCanonical
  cases hcl : getClient s c with
  | none => exact Or.inl ⟨rfl, _, rfl⟩
  | some cl =>
    simp only
    cases hr : Core.getRa s.core cl.chain with
    | none => exact Or.inl ⟨rfl, _, rfl⟩
    | some r =>
      simp only
      split
      · exact Or.inl ⟨rfl, _, rfl⟩
      · rename_i hnone
        cases hp : paramsCheck cl.params cl.frozen with
        | bad => exact Or.inl ⟨rfl, _, rfl⟩
        | panic => exact Or.inl ⟨rfl, _, rfl⟩
        | ok =>
          simp only
          split
          · exact Or.inl ⟨rfl, _, rfl⟩
          · split
            · exact Or.inl ⟨rfl, _, rfl⟩
            · exact Or.inl ⟨rfl, _, rfl⟩
            · rename_i hv
              refine Or.inr ⟨cl, r, rfl, hr, ?_, hp, hv, rfl, rfl⟩
              cases hl : lookup s.r2c cl.chain with
              | none => rfl
              | some x => simp [hl] at hnone

theorem mapsInv_setCanonical {s : St} (h : MapsInv s) (c : Nat) : MapsInv (setCanonical s c).1 := by
  rcases setCanonical_cases s c with ⟨e, _⟩ | ⟨cl, r, hcl, _, hnone, _, _, _, e⟩
  · rw [e]; exact h
  · rw [e]
    have hc2r_none : lookup s.c2r c = none := by
      cases hl : lookup s.c2r c with
      | none => rfl
      | some r0 =>
        obtain ⟨cl0, g0, e0⟩ := h.canon_client c r0 hl
        rw [hcl] at g0; cases g0
        have := h.c2r_r2c c r0 hl
        rw [← e0, hnone] at this
        exact absurd this (by simp)
    refine ⟨?_, ?_, ?_⟩
    · intro c' r' hc'
      simp only at hc' ⊢
      cases ho : lookup s.c2r c' with
      | some r0 =>
        rw [lookup_append_left ho] at hc'
        simp only [Option.some.injEq] at hc'
        subst hc'
        exact lookup_append_left (h.c2r_r2c c' r0 ho)
      | none =>
        rw [lookup_append_single ho] at hc'
        split at hc'
        · rename_i hcc
          cases hc'
          subst hcc
          rw [lookup_append_single hnone]; simp
        · exact absurd hc' (by simp)
    · intro r' c' hr'
      simp only at hr' ⊢
      cases ho : lookup s.r2c r' with
      | some c0 =>
        rw [lookup_append_left ho] at hr'
        simp only [Option.some.injEq] at hr'
        subst hr'
        exact lookup_append_left (h.r2c_c2r r' c0 ho)
      | none =>
        rw [lookup_append_single ho] at hr'
        split at hr'
        · rename_i hrr
          cases hr'
          subst hrr
          rw [lookup_append_single hc2r_none]; simp
        · exact absurd hr' (by simp)
    · intro c' r' hc'
      simp only at hc'
      have hg : ∀ k, getClient { s with r2c := s.r2c ++ [(cl.chain, c)], c2r := s.c2r ++ [(c, cl.chain)] } k = getClient s k :=
        fun k => getClient_congr rfl k
      rw [hg]
      cases ho : lookup s.c2r c' with
      | some r0 =>
        rw [lookup_append_left ho] at hc'
        simp only [Option.some.injEq] at hc'
        subst hc'
        exact h.canon_client c' r0 ho
      | none =>
        rw [lookup_append_single ho] at hc'
        split at hc'
        · rename_i hcc
          cases hc'
          subst hcc
          exact ⟨cl, hcl, rfl⟩
        · exact absurd hc' (by simp)

theorem mapsInv_createClient {s : St} (h : MapsInv s) (chain : Nat) (p : CParams) (ht : Nat) (cs : Cons) :
    MapsInv (createClient s chain p ht cs).1 := by
  unfold createClient
  refine ⟨h.c2r_r2c, h.r2c_c2r, ?_⟩
  intro c r hc
  obtain ⟨cl, g, e⟩ := h.canon_client c r hc
  refine ⟨cl, ?_, e⟩
  rw [getClient_append s _ c _ rfl, g]
  rfl

theorem chanAck_maps (s : St) (ch : Nat) (w : ChanRoute) (ibc : Bool) :
    (chanAck s ch w ibc).1.r2c = s.r2c ∧ (chanAck s ch w ibc).1.c2r = s.c2r ∧ (chanAck s ch w ibc).1.clients = s.clients := by
  unfold chanAck
  repeat' split
  all_goals exact ⟨rfl, rfl, rfl⟩

theorem chanInit_maps (s : St) (c : Nat) :
    (chanInit s c).1.r2c = s.r2c ∧ (chanInit s c).1.c2r = s.c2r ∧ (chanInit s c).1.clients = s.clients := by
  unfold chanInit
  repeat' split
  all_goals exact ⟨rfl, rfl, rfl⟩

theorem MapsInv.of_eq {s s' : St} (h : MapsInv s) (e1 : s'.r2c = s.r2c) (e2 : s'.c2r = s.c2r) (e3 : s'.clients = s.clients) : MapsInv s' := by
  refine ⟨?_, ?_, ?_⟩
  · intro c r hc; rw [e2] at hc; rw [e1]; exact h.c2r_r2c c r hc
  · intro r c hr; rw [e1] at hr; rw [e2]; exact h.r2c_c2r r c hr
  · intro c r hc
    rw [e2] at hc
    obtain ⟨cl, g, e⟩ := h.canon_client c r hc
    exact ⟨cl, by rw [getClient_congr e3]; exact g, e⟩

theorem step_mapsInv {s : St} (h : MapsInv s) (op : Op) : MapsInv (step s op).1 := by
  cases op with
  | core o ds => exact h.of_shape (shape_coreOp s o ds)
  | createClient chain p ht cs => exact mapsInv_createClient h chain p ht cs
  | setCanonical c =>
    have := mapsInv_setCanonical h c
    simp only [step]
    split
    · rename_i s1 hs; rw [hs] at this; exact this
    · exact h
  | updateClient c w hd ibc => exact h.of_shape (shape_updateClient s c w hd ibc)
  | misbehaviour c k ibc => exact h.of_shape (shape_misbehaviour s c k ibc)
  | chanInit c => obtain ⟨a, b, d⟩ := chanInit_maps s c; exact h.of_eq a b d
  | chanAck ch w ibc => obtain ⟨a, b, d⟩ := chanAck_maps s ch w ibc; exact h.of_eq a b d

theorem init_mapsInv (p : Core.Params) : MapsInv (init p) :=
  ⟨fun _ _ h => by simp [init, lookup] at h, fun _ _ h => by simp [init, lookup] at h, fun _ _ h => by simp [init, lookup] at h⟩

theorem run_mapsInv {s : St} (h : MapsInv s) (ops : List Op) : MapsInv (run s ops) := by
  induction ops generalizing s with
  | nil => exact h
  | cons op ops ih =>
    simp only [run, List.foldl_cons]
    exact ih (step_mapsInv h op)

/-- the designation of a rollapp / of a client never changes once made -/
theorem step_r2c_stable (s : St) (op : Op) (r c : Nat) (h : lookup s.r2c r = some c) : lookup (step s op).1.r2c r = some c := by
  cases op with
  | core o ds => simp only [step]; rw [(shape_coreOp s o ds).r2c]; exact h
  | createClient chain p ht cs => exact h
  | setCanonical c' =>
    simp only [step]
    split
    · rename_i s1 hs
      rcases setCanonical_cases s c' with ⟨e, _⟩ | ⟨cl, _, _, _, _, _, _, _, e⟩
      · have := congrArg Prod.fst hs; simp only at this; rw [← this, e]; exact h
      · have := congrArg Prod.fst hs; simp only at this; rw [← this, e]; exact lookup_append_left h
    · exact h
  | updateClient c' w hd ibc => simp only [step]; rw [(shape_updateClient s c' w hd ibc).r2c]; exact h
  | misbehaviour c' k ibc => simp only [step]; rw [(shape_misbehaviour s c' k ibc).r2c]; exact h
  | chanInit c' => simp only [step]; rw [(chanInit_maps s c').1]; exact h
  | chanAck ch w ibc => simp only [step]; rw [(chanAck_maps s ch w ibc).1]; exact h

theorem step_c2r_stable (s : St) (op : Op) (r c : Nat) (h : lookup s.c2r c = some r) : lookup (step s op).1.c2r c = some r := by
  cases op with
  | core o ds => simp only [step]; rw [(shape_coreOp s o ds).c2r]; exact h
  | createClient chain p ht cs => exact h
  | setCanonical c' =>
    simp only [step]
    split
    · rename_i s1 hs
      rcases setCanonical_cases s c' with ⟨e, _⟩ | ⟨cl, _, _, _, _, _, _, _, e⟩
      · have := congrArg Prod.fst hs; simp only at this; rw [← this, e]; exact h
      · have := congrArg Prod.fst hs; simp only at this; rw [← this, e]; exact lookup_append_left h
    · exact h
  | updateClient c' w hd ibc => simp only [step]; rw [(shape_updateClient s c' w hd ibc).c2r]; exact h
  | misbehaviour c' k ibc => simp only [step]; rw [(shape_misbehaviour s c' k ibc).c2r]; exact h
  | chanInit c' => simp only [step]; rw [(chanInit_maps s c').2.1]; exact h
  | chanAck ch w ibc => simp only [step]; rw [(chanAck_maps s ch w ibc).2.1]; exact h

end DymVerif.LC
