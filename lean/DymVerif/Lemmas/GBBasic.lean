/-
  Lemmas/GBBasic — bookkeeping lemmas about M-GB (core Lean only): lookups, per-rollapp invariants
  and their preservation by `setRa` / append.
-/
import DymVerif.Model.GB
namespace DymVerif.GB

theorem vb_sealed (g : GInfo) (b : Bool) : ({ g with sealed := b } : GInfo).vb = g.vb := rfl
theorem launchable_sealed (g : GInfo) (b : Bool) : ({ g with sealed := b } : GInfo).launchable = g.launchable := rfl

theorem getRa_mem {s : St} {i : Nat} {ra : Ra} (h : getRa s i = some ra) : ra ∈ s.ras ∧ ra.id = i := by
  unfold getRa at h
  refine ⟨List.mem_of_find?_eq_some h, ?_⟩
  have := List.find?_some h
  simpa using this

theorem getRa_setRa_map (s : St) (x : Ra) (i : Nat) :
    getRa (setRa s x) i = (getRa s i).map (fun y => if y.id == x.id then x else y) := by
  unfold getRa setRa
  rw [List.find?_map]
  have hcomp : ((fun z : Ra => z.id == i) ∘ fun y : Ra => if (y.id == x.id) = true then x else y) = fun z : Ra => z.id == i := by
    funext y
    simp only [Function.comp]
    by_cases hy : (y.id == x.id) = true
    · simp only [hy, if_true]
      have : y.id = x.id := by simpa using hy
      rw [this]
    · simp [hy]
  rw [hcomp]

theorem getRa_setRa (s : St) (x : Ra) (i : Nat) :
    getRa (setRa s x) i = if i = x.id then (if (getRa s i).isSome then some x else none) else getRa s i := by
  rw [getRa_setRa_map]
  cases h : getRa s i with
  | none => simp
  | some ra =>
    have hid := (getRa_mem h).2
    by_cases hi : i = x.id
    · simp [hi, hid ▸ hi]
    · have : ¬ ra.id = x.id := by rw [hid]; exact hi
      simp [hi, this]

theorem getRa_setRa_self {s : St} {x ra : Ra} (h : getRa s x.id = some ra) : getRa (setRa s x) x.id = some x := by
  rw [getRa_setRa]; simp [h]

theorem getRa_setRa_ne (s : St) (x : Ra) {i : Nat} (h : i ≠ x.id) : getRa (setRa s x) i = getRa s i := by
  rw [getRa_setRa]; simp [h]

theorem mem_setRa {s : St} {x y : Ra} (h : y ∈ (setRa s x).ras) : y = x ∨ y ∈ s.ras := by
  unfold setRa at h
  simp only [List.mem_map] at h
  obtain ⟨z, hz, rfl⟩ := h
  by_cases c : z.id == x.id
  · simp [c]
  · simp [c, hz]

theorem setRa_chans (s : St) (x : Ra) : (setRa s x).chans = s.chans := rfl
theorem setRa_now (s : St) (x : Ra) : (setRa s x).now = s.now := rfl
theorem setRa_nextChan (s : St) (x : Ra) : (setRa s x).nextChan = s.nextChan := rfl

/-- a predicate on every registered rollapp -/
def AllRa (P : Ra → Prop) (s : St) : Prop := ∀ ra ∈ s.ras, P ra

theorem AllRa.setRa {P : Ra → Prop} {s : St} {x : Ra} (h : AllRa P s) (hx : P x) : AllRa P (setRa s x) := by
  intro y hy
  rcases mem_setRa hy with rfl | hm
  · exact hx
  · exact h y hm

theorem AllRa.get {P : Ra → Prop} {s : St} {i : Nat} {ra : Ra} (h : AllRa P s) (hg : getRa s i = some ra) : P ra :=
  h ra (getRa_mem hg).1

-- ---------------------------------------------------------------- balances

theorem getBal_addBal (b : List (Nat × Int)) (a : Nat) (v : Int) (x : Nat) :
    getBal (addBal b a v) x = getBal b x + (if x = a then v else 0) := by
  unfold addBal
  split
  · rename_i hany
    unfold getBal
    rw [List.find?_map]
    have hcomp : ((fun z : Nat × Int => z.1 == x) ∘ fun z : Nat × Int => if (z.1 == a) = true then (a, z.2 + v) else z)
        = fun z : Nat × Int => z.1 == x := by
      funext z
      simp only [Function.comp]
      by_cases hz : (z.1 == a) = true
      · have : z.1 = a := by simpa using hz
        simp [hz, this]
      · simp [hz]
    rw [hcomp]
    cases hf : b.find? (fun z => z.1 == x) with
    | some z =>
      have hzx : z.1 = x := by simpa using List.find?_some hf
      by_cases hx : x = a
      · simp [hzx, hx]
      · have : ¬ z.1 = a := by rw [hzx]; exact hx
        simp [this, hx]
    | none =>
      have hx : x ≠ a := by
        intro hxa
        subst hxa
        rw [List.find?_eq_none] at hf
        simp only [List.any_eq_true] at hany
        obtain ⟨z, hz, hza⟩ := hany
        exact hf z hz hza
      simp [hx]
  · rename_i hany
    have hnone : ∀ z ∈ b, z.1 ≠ a := by
      intro z hz hza
      apply hany
      simp only [List.any_eq_true]
      exact ⟨z, hz, by simp [hza]⟩
    unfold getBal
    rw [List.find?_append]
    by_cases hx : x = a
    · subst hx
      have : b.find? (fun z => z.1 == x) = none := by
        rw [List.find?_eq_none]
        intro z hz
        simp [hnone z hz]
      simp [this]
    · cases hf : b.find? (fun z => z.1 == x) with
      | some z => simp [hx]
      | none =>
        have : (a == x) = false := by simp [Ne.symm hx]
        simp [hx, this]

/-- total credited to address `x` by an account list -/
def creditedTo (l : List Acc) (x : Nat) : Int := ((l.filter (fun a => a.addr == x)).map (·.amt)).sum

theorem credit_getBal : ∀ (l : List Acc) (b b' : List (Nat × Int)), credit l b = some b' →
    ∀ x, getBal b' x = getBal b x + creditedTo l x
  | [], b, b', h, x => by
    simp only [credit, Option.some.injEq] at h
    subst h
    simp [creditedTo]
  | a :: as, b, b', h, x => by
    simp only [credit] at h
    split at h
    · exact absurd h (by simp)
    · have ih := credit_getBal as _ b' h x
      rw [ih, getBal_addBal]
      unfold creditedTo
      by_cases hx : a.addr = x
      · subst hx
        simp only [List.filter_cons, beq_self_eq_true, if_true, List.map_cons, List.sum_cons]
        omega
      · have h1 : (a.addr == x) = false := by simp [hx]
        have h2 : ¬ x = a.addr := fun e => hx e.symm
        simp only [List.filter_cons, h1, h2, if_false, Bool.false_eq_true]
        omega

theorem credit_none_iff (l : List Acc) (b : List (Nat × Int)) : credit l b = none ↔ ∃ a ∈ l, blocked a.addr = true := by
  induction l generalizing b with
  | nil => simp [credit]
  | cons a as ih =>
    simp only [credit]
    split
    · rename_i hb
      simp [hb]
    · rename_i hb
      rw [ih]
      simp [hb]

end DymVerif.GB
