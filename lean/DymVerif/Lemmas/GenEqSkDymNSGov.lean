/-
  Lemmas/GenEqSkDymNSGov — tie 1 for the governance paths and the RollApp ownership transfer that
  M-DymNS models since worker agent-c17x (`Op.migrateChainIds`, `Op.updateAliases`, `Op.setParams`,
  `Op.transferRollapp`): the normalised statement listings (translate/skel.go `listing`) of
  x/dymns/proposal_handler.go, x/dymns/keeper/proposal.go, x/dymns/keeper/msg_server_update_params.go and
  x/rollapp/keeper/msg_server_transfer_ownership.go, regenerated from /repo on every run into
  Gen/SkAuth.lean (the C20 package lists the same files), equal the listings the model was written
  against.  E.g. a migration that starts calling the Before/After config hooks, or that stops
  validating the rewritten record, changes `dnk_Keeper_migrateChainIdsInDymNames`.
-/
import DymVerif.Gen.SkAuth
namespace DymVerif.GenEqSk.DymNSGov

/-- `NewDymNsProposalHandler` -/
theorem dnp_NewDymNsProposalHandler_listing : Gen.SkAuth.dnp_NewDymNsProposalHandler =
  ["func NewDymNsProposalHandler(dk dymnskeeper.Keeper) govv1beta1.Handler",
   "  return func#1",
   "    func#1 (ctx sdk.Context, content govv1beta1.Content) error",
   "      switch c := content.(type)",
   "        case *dymnstypes.MigrateChainIdsProposal",
   "          return handleMigrateChainIdsProposal(ctx, dk, c)",
   "        case *dymnstypes.UpdateAliasesProposal",
   "          return handleUpdateAliasesProposal(ctx, dk, c)",
   "        default",
   "          return errortypes.ErrUnknownRequest"] := rfl

/-- `handleMigrateChainIdsProposal` -/
theorem dnp_handleMigrateChainIdsProposal_listing : Gen.SkAuth.dnp_handleMigrateChainIdsProposal =
  ["func handleMigrateChainIdsProposal(ctx sdk.Context, dk dymnskeeper.Keeper, p *dymnstypes.MigrateChainIdsProposal) error",
   "  err := p.ValidateBasic()",
   "  if err != nil",
   "    return err",
   "  err := dk.MigrateChainIds(ctx, p.Replacement)",
   "  if err != nil",
   "    return err",
   "  return nil"] := rfl

/-- `handleUpdateAliasesProposal` -/
theorem dnp_handleUpdateAliasesProposal_listing : Gen.SkAuth.dnp_handleUpdateAliasesProposal =
  ["func handleUpdateAliasesProposal(ctx sdk.Context, dk dymnskeeper.Keeper, p *dymnstypes.UpdateAliasesProposal) error",
   "  err := p.ValidateBasic()",
   "  if err != nil",
   "    return err",
   "  err := dk.UpdateAliases(ctx, p.Add, p.Remove)",
   "  if err != nil",
   "    return err",
   "  return nil"] := rfl

/-- `Keeper.MigrateChainIds` -/
theorem dnk_Keeper_MigrateChainIds_listing : Gen.SkAuth.dnk_Keeper_MigrateChainIds =
  ["func (k Keeper) MigrateChainIds(ctx sdk.Context, replacement []dymnstypes.MigrateChainId) error",
   "  previousChainIdsToNewChainId := make(map[string]string)",
   "  for _, r := range replacement",
   "    previousChainIdsToNewChainId[r.PreviousChainId] = r.NewChainId",
   "  err := k.migrateChainIdsInParams(ctx, previousChainIdsToNewChainId)",
   "  if err != nil",
   "    return err",
   "  err := k.migrateChainIdsInDymNames(ctx, previousChainIdsToNewChainId)",
   "  if err != nil",
   "    return err",
   "  return nil"] := rfl

/-- `Keeper.UpdateAliases` -/
theorem dnk_Keeper_UpdateAliases_listing : Gen.SkAuth.dnk_Keeper_UpdateAliases =
  ["func (k Keeper) UpdateAliases(ctx sdk.Context, add, remove []dymnstypes.UpdateAlias) error",
   "  params := k.GetParams(ctx)",
   "  chainIdToAliasConfig := make(map[string]map[string]bool)",
   "  for _, record := range params.Chains.AliasesOfChainIds",
   "    aliasesPerChainId := make(map[string]bool)",
   "    for _, alias := range record.Aliases",
   "      aliasesPerChainId[alias] = true",
   "    chainIdToAliasConfig[record.ChainId] = aliasesPerChainId",
   "  if len(add) > 0",
   "    for _, record := range add",
   "      chainId := record.ChainId",
   "      alias := record.Alias",
   "      existingAliases, foundExistingChainId := chainIdToAliasConfig[chainId]",
   "      if !foundExistingChainId",
   "        existingAliases = make(map[string]bool)",
   "      _, foundAlias := existingAliases[alias]",
   "      if foundAlias",
   "        return gerrc.ErrAlreadyExists",
   "      existingAliases[alias] = true",
   "      chainIdToAliasConfig[chainId] = existingAliases",
   "  if len(remove) > 0",
   "    for _, record := range remove",
   "      chainId := record.ChainId",
   "      alias := record.Alias",
   "      aliasesPerChainId, foundExistingChainId := chainIdToAliasConfig[chainId]",
   "      if !foundExistingChainId",
   "        return gerrc.ErrNotFound",
   "      _, foundAlias := aliasesPerChainId[alias]",
   "      if !foundAlias",
   "        return gerrc.ErrNotFound",
   "      delete(aliasesPerChainId, alias)",
   "      if len(aliasesPerChainId) == 0",
   "        delete(chainIdToAliasConfig, chainId)",
   "  sortedChainIds := dymnsutils.GetSortedStringKeys(chainIdToAliasConfig)",
   "  var newAliasesOfChainIds []dymnstypes.AliasesOfChainId",
   "  for _, chainId := range sortedChainIds",
   "    newAliasesOfChainIds = append(newAliasesOfChainIds, dymnstypes.AliasesOfChainId{ChainId: chainId, Aliases: dymnsutils.GetSortedStringKeys(chainIdToAliasConfig[chainId])})",
   "  params.Chains.AliasesOfChainIds = newAliasesOfChainIds",
   "  err := k.SetParams(ctx, params)",
   "  if err != nil",
   "    return errors.Join(gerrc.ErrUnknown, err)",
   "  return nil"] := rfl

/-- `Keeper.migrateChainIdsInDymNames` -/
theorem dnk_Keeper_migrateChainIdsInDymNames_listing : Gen.SkAuth.dnk_Keeper_migrateChainIdsInDymNames =
  ["func (k Keeper) migrateChainIdsInDymNames(ctx sdk.Context, previousChainIdsToNewChainId map[string]string) error",
   "  nonExpiredDymNames := k.GetAllNonExpiredDymNames(ctx)",
   "  for _, dymName := range nonExpiredDymNames",
   "    newConfigs := make([]dymnstypes.DymNameConfig, len(dymName.Configs))",
   "    var anyConfigUpdated bool",
   "    for i, config := range dymName.Configs",
   "      if config.ChainId != \"\"",
   "        newChainId, isPreviousChainId := previousChainIdsToNewChainId[config.ChainId]",
   "        if isPreviousChainId",
   "          config.ChainId = newChainId",
   "          anyConfigUpdated = true",
   "      newConfigs[i] = config",
   "    if !anyConfigUpdated",
   "      continue",
   "    dymName.Configs = newConfigs",
   "    err := dymName.Validate()",
   "    if err != nil",
   "      continue",
   "    err := k.SetDymName(ctx, dymName)",
   "    if err != nil",
   "      return errors.Join(gerrc.ErrUnknown, err)",
   "  return nil"] := rfl

/-- `Keeper.migrateChainIdsInParams` -/
theorem dnk_Keeper_migrateChainIdsInParams_listing : Gen.SkAuth.dnk_Keeper_migrateChainIdsInParams =
  ["func (k Keeper) migrateChainIdsInParams(ctx sdk.Context, previousChainIdsToNewChainId map[string]string) error",
   "  params := k.GetParams(ctx)",
   "  if len(params.Chains.AliasesOfChainIds) > 0",
   "    existingAliasesOfChainIds := make(map[string]dymnstypes.AliasesOfChainId)",
   "    for _, record := range params.Chains.AliasesOfChainIds",
   "      existingAliasesOfChainIds[record.ChainId] = record",
   "    newAliasesByChainId := make([]dymnstypes.AliasesOfChainId, 0)",
   "    for _, record := range params.Chains.AliasesOfChainIds",
   "      chainId := record.ChainId",
   "      aliases := record.Aliases",
   "      newChainId, isPreviousChainId := previousChainIdsToNewChainId[chainId]",
   "      if isPreviousChainId",
   "        _, foundDeclared := existingAliasesOfChainIds[newChainId]",
   "        if foundDeclared",
   "        else",
   "          newAliasesByChainId = append(newAliasesByChainId, dymnstypes.AliasesOfChainId{ChainId: newChainId, Aliases: aliases})",
   "      else",
   "        newAliasesByChainId = append(newAliasesByChainId, dymnstypes.AliasesOfChainId{ChainId: chainId, Aliases: aliases})",
   "    params.Chains.AliasesOfChainIds = newAliasesByChainId",
   "  err := k.SetParams(ctx, params)",
   "  if err != nil",
   "    return errors.Join(gerrc.ErrUnknown, err)",
   "  return nil"] := rfl

/-- `msgServer.UpdateParams` -/
theorem dnk_msgServer_UpdateParams_listing : Gen.SkAuth.dnk_msgServer_UpdateParams =
  ["func (k msgServer) UpdateParams(goCtx context.Context, msg *dymnstypes.MsgUpdateParams) (*dymnstypes.MsgUpdateParamsResponse, error)",
   "  err := msg.ValidateBasic()",
   "  if err != nil",
   "    return nil, err",
   "  if msg.Authority != k.authority",
   "    return nil, gerrc.ErrUnauthenticated",
   "  moduleParams := k.GetParams(ctx)",
   "  if msg.NewPriceParams != nil",
   "    moduleParams.Price = *msg.NewPriceParams",
   "  if msg.NewChainsParams != nil",
   "    moduleParams.Chains = *msg.NewChainsParams",
   "  if msg.NewMiscParams != nil",
   "    moduleParams.Misc = *msg.NewMiscParams",
   "  err = k.SetParams(ctx, moduleParams)",
   "  if err != nil",
   "    return nil, err",
   "  return &dymnstypes.MsgUpdateParamsResponse{}, nil"] := rfl

/-- `msgServer.TransferOwnership` -/
theorem rak_msgServer_TransferOwnership_listing : Gen.SkAuth.rak_msgServer_TransferOwnership =
  ["func (k msgServer) TransferOwnership(goCtx context.Context, msg *types.MsgTransferOwnership) (*types.MsgTransferOwnershipResponse, error)",
   "  err := msg.ValidateBasic()",
   "  if err != nil",
   "    return nil, types.ErrInvalidRequest",
   "  rollapp, ok := k.GetRollapp(ctx, msg.RollappId)",
   "  if !ok",
   "    return nil, types.ErrUnknownRollappID",
   "  if rollapp.Owner != msg.CurrentOwner",
   "    return nil, types.ErrUnauthorizedSigner",
   "  if rollapp.Owner == msg.NewOwner",
   "    return nil, types.ErrSameOwner",
   "  bk, ok := k.bankKeeper.(interface{BlockedAddr(sdk.AccAddress) bool})",
   "  if ok",
   "    newOwner, err := sdk.AccAddressFromBech32(msg.NewOwner)",
   "    if err != nil || bk.BlockedAddr(newOwner)",
   "      return nil, types.ErrInvalidRequest",
   "  rollapp.Owner = msg.NewOwner",
   "  k.SetRollapp(ctx, rollapp)",
   "  return &types.MsgTransferOwnershipResponse{}, nil"] := rfl

end DymVerif.GenEqSk.DymNSGov
