/-
  Lemmas/CoreFinDefs — the finalization invariant of M-Core (definitions) and the generic machinery:
  * `RFin` / `FinInv`: per-rollapp and global finalization invariant;
  * `Same`: two states agree on everything finalization looks at (ids, lastFin, every state-info field
    except `next`, the queue, params, height) — the relation most operations satisfy;
  * `Evolves`: finalized states are kept (the "frozen" relation);
  * rollapp-list lemmas about `setRa` / `getRa` under unique ids.
-/
import DymVerif.Lemmas.CoreQueue
import DymVerif.Lemmas.CoreChainInv2
namespace DymVerif.Core

-- ---------------------------------------------------------------- definitions

/-- rollapp ids are unique -/
def IdsNodup (s : St) : Prop := s.ras.Pairwise (fun a b => a.id ≠ b.id)

/-- the pending (unfinalized) state indices `lastFin+1 .. n`, in order -/
def pendingIdx (r : Rollapp) : List Nat := List.range' (r.lastFin + 1) (r.states.length - r.lastFin)

/-- finalization invariant of one rollapp, with the flattened queue of the rollapp as a parameter
    (`fl`), so that it can be stated in the middle of `FinalizeStates` too -/
structure RFinL (fl : List Nat) (q : List QEntry) (d : Nat) (r : Rollapp) : Prop where
  le : r.lastFin ≤ r.states.length
  flat_eq : fl = pendingIdx r
  pre : ∀ i st, r.states[i]? = some st → (st.finalized = true ↔ i < r.lastFin)
  ch : ∀ e ∈ q, e.ra = r.id → ∀ i ∈ e.idx, ∃ st, r.states[i - 1]? = some st ∧ st.creationHeight = e.ch
  notEarly : ∀ st ∈ r.states, st.finalized = true → st.creationHeight + d ≤ st.finalizedAt

/-- finalization invariant of one rollapp w.r.t. the queue `q` and dispute period `d` -/
def RFin (q : List QEntry) (d : Nat) (r : Rollapp) : Prop := RFinL (flat q r.id) q d r

structure FinInv (s : St) : Prop where
  nodup : IdsNodup s
  sorted : QSorted s.queue
  ent : ∀ e ∈ s.queue, e.ch ≤ s.h ∧ e.idx ≠ []
  qra : ∀ e ∈ s.queue, e.ra ∈ s.ras.map (·.id)
  ras : RaAll (RFin s.queue s.p.dispute) s

/-- everything of a state info except `next` -/
def sKey (st : SInfo) : Addr × Nat × Nat × Nat × Bool × List BD × Nat × Nat :=
  (st.creator, st.start, st.num, st.creationHeight, st.finalized, st.bds, st.accRev, st.finalizedAt)

/-- what finalization looks at in a rollapp record -/
def rKey (r : Rollapp) : Nat × Nat × List (Addr × Nat × Nat × Nat × Bool × List BD × Nat × Nat) :=
  (r.id, r.lastFin, r.states.map sKey)

/-- the two states agree on everything the finalization invariant depends on -/
structure Same (s s' : St) : Prop where
  p : s'.p = s.p
  h : s'.h = s.h
  queue : s'.queue = s.queue
  ras : s'.ras.map rKey = s.ras.map rKey

/-- every queued index of an existing rollapp is in range and no entry is empty -/
def QBound (s : St) : Prop :=
  ∀ r ∈ s.ras, ∀ e ∈ s.queue, e.ra = r.id → e.idx ≠ [] ∧ ∀ i ∈ e.idx, i ≤ r.states.length

structure Pre (s : St) : Prop where
  nodup : IdsNodup s
  chain : ChainAll s
  qb : QBound s

/-- `FS s s'`: from a well-formed `s`, `s'` is well-formed and finalization-equivalent to `s` -/
def FS (s s' : St) : Prop := Pre s → Pre s' ∧ Same s s'

/-- finalized states are kept: every rollapp survives and each of its finalized state infos keeps
    every field except (possibly) `next` -/
def Evolves (s s' : St) : Prop :=
  ∀ r ∈ s.ras, ∃ r' ∈ s'.ras, r'.id = r.id ∧
    ∀ (i : Nat) (st : SInfo), r.states[i]? = some st → st.finalized = true →
      ∃ st', r'.states[i]? = some st' ∧ sKey st' = sKey st

-- ---------------------------------------------------------------- small list facts

theorem getElem?_lt {α} {l : List α} {i : Nat} {a : α} (h : l[i]? = some a) : i < l.length := by
  rcases Nat.lt_or_ge i l.length with h1 | h1
  · exact h1
  · rw [List.getElem?_eq_none h1] at h; cases h

theorem map_get_of_eq {α β} {f : α → β} {l l' : List α} (e : l'.map f = l.map f) {i : Nat} {a' : α}
    (h : l'[i]? = some a') : ∃ a, l[i]? = some a ∧ f a = f a' := by
  have e1 := congrArg (fun x => x[i]?) e
  simp only [List.getElem?_map, h] at e1
  cases hl : l[i]? with
  | none => rw [hl] at e1; cases e1
  | some a => rw [hl] at e1; simp at e1; exact ⟨a, rfl, e1.symm⟩

theorem map_length_of_eq {α β} {f : α → β} {l l' : List α} (e : l'.map f = l.map f) : l'.length = l.length := by
  simpa using congrArg List.length e

theorem sKey_fields {a b : SInfo} (h : sKey a = sKey b) :
    a.creator = b.creator ∧ a.start = b.start ∧ a.num = b.num ∧ a.creationHeight = b.creationHeight ∧
    a.finalized = b.finalized ∧ a.bds = b.bds ∧ a.accRev = b.accRev ∧ a.finalizedAt = b.finalizedAt := by
  unfold sKey at h
  simp only [Prod.mk.injEq] at h
  exact h

theorem rKey_fields {a b : Rollapp} (h : rKey a = rKey b) :
    a.id = b.id ∧ a.lastFin = b.lastFin ∧ a.states.map sKey = b.states.map sKey := by
  unfold rKey at h
  simp only [Prod.mk.injEq] at h
  exact h

-- ---------------------------------------------------------------- setRa / getRa

theorem mem_setRa_strong {s : St} {r0 r : Rollapp} (h : r ∈ (setRa s r0).ras) :
    (r ∈ s.ras ∧ r.id ≠ r0.id) ∨ r = r0 := by
  unfold setRa at h
  simp only [List.mem_map] at h
  obtain ⟨x, hx, rfl⟩ := h
  by_cases hc : (x.id == r0.id) = true
  · simp [hc]
  · left
    have : ¬ x.id = r0.id := by simpa using hc
    simp [hc, hx, this]

theorem mem_setRa_of_ne {s : St} {r0 r : Rollapp} (h : r ∈ s.ras) (hne : r.id ≠ r0.id) : r ∈ (setRa s r0).ras := by
  unfold setRa
  simp only [List.mem_map]
  refine ⟨r, h, ?_⟩
  have : (r.id == r0.id) = false := by simpa using hne
  simp [this]

theorem mem_setRa_self {s : St} {r0 x : Rollapp} (h : x ∈ s.ras) (hid : x.id = r0.id) : r0 ∈ (setRa s r0).ras := by
  unfold setRa
  simp only [List.mem_map]
  refine ⟨x, h, ?_⟩
  simp [hid]

theorem setRa_ids (s : St) (r0 : Rollapp) : (setRa s r0).ras.map (·.id) = s.ras.map (·.id) := by
  unfold setRa
  simp only [List.map_map]
  apply List.map_congr_left
  intro x _
  simp only [Function.comp]
  split
  · rename_i hc; exact (by simpa using hc : x.id = r0.id).symm
  · rfl

theorem IdsNodup.iff_map (s : St) : IdsNodup s ↔ (s.ras.map (·.id)).Pairwise (· ≠ ·) := by
  unfold IdsNodup; rw [List.pairwise_map]

theorem IdsNodup.of_ids {s s' : St} (h : IdsNodup s) (e : s'.ras.map (·.id) = s.ras.map (·.id)) : IdsNodup s' := by
  rw [IdsNodup.iff_map] at *; rw [e]; exact h

theorem IdsNodup.setRa {s : St} (h : IdsNodup s) (r0 : Rollapp) : IdsNodup (setRa s r0) :=
  h.of_ids (setRa_ids s r0)

theorem pairwise_unique {α} {R : α → α → Prop} {l : List α} (h : l.Pairwise R) {a b : α} (ha : a ∈ l) (hb : b ∈ l)
    (hab : ¬ R a b) (hba : ¬ R b a) : a = b := by
  induction l with
  | nil => cases ha
  | cons x xs ih =>
    have hp := List.pairwise_cons.1 h
    rcases List.mem_cons.1 ha with h1 | h1
    · rcases List.mem_cons.1 hb with h2 | h2
      · rw [h1, h2]
      · subst h1; exact absurd (hp.1 b h2) hab
    · rcases List.mem_cons.1 hb with h2 | h2
      · subst h2; exact absurd (hp.1 a h1) hba
      · exact ih hp.2 h1 h2

theorem IdsNodup.unique {s : St} (h : IdsNodup s) {a b : Rollapp} (ha : a ∈ s.ras) (hb : b ∈ s.ras)
    (e : a.id = b.id) : a = b :=
  pairwise_unique h ha hb (fun hc => hc e) (fun hc => hc e.symm)

theorem getRa_of_mem {s : St} (h : IdsNodup s) {r : Rollapp} (hr : r ∈ s.ras) : getRa s r.id = some r := by
  cases hg : getRa s r.id with
  | none =>
    unfold getRa at hg
    have := List.find?_eq_none.1 hg r hr
    simp at this
  | some x =>
    have := h.unique (getRa_mem hg) hr (getRa_id hg)
    rw [this]

theorem getRa_setRa_other (s : St) (r0 : Rollapp) (id : Nat) (hne : r0.id ≠ id) : getRa (setRa s r0) id = getRa s id := by
  unfold getRa setRa
  simp only
  induction s.ras with
  | nil => rfl
  | cons x xs ih =>
    simp only [List.map_cons, List.find?_cons]
    by_cases hc : (x.id == r0.id) = true
    · have hx : x.id = r0.id := by simpa using hc
      have h1 : (r0.id == id) = false := by simpa using hne
      have h2 : (x.id == id) = false := by rw [hx]; exact h1
      simp only [hc, if_true, h1, h2]
      exact ih
    · simp only [hc]
      simp only [Bool.false_eq_true, if_false]
      cases hxi : (x.id == id) with
      | true => rfl
      | false => exact ih

theorem find_map_same (l : List Rollapp) (r0 : Rollapp) (hex : (l.find? (·.id == r0.id)).isSome = true) :
    (l.map (fun x => if x.id == r0.id then r0 else x)).find? (·.id == r0.id) = some r0 := by
  induction l with
  | nil => simp at hex
  | cons x xs ih =>
    simp only [List.map_cons, List.find?_cons] at hex ⊢
    by_cases hc : (x.id == r0.id) = true
    · simp [hc]
    · have hc' : (x.id == r0.id) = false := by simpa using hc
      rw [hc'] at hex
      simp only [hc', Bool.false_eq_true, if_false]
      exact ih hex

theorem getRa_setRa_same (s : St) (r0 : Rollapp) (hex : (getRa s r0.id).isSome = true) : getRa (setRa s r0) r0.id = some r0 :=
  find_map_same s.ras r0 hex

-- ---------------------------------------------------------------- Same

theorem Same.refl (s : St) : Same s s := ⟨rfl, rfl, rfl, rfl⟩

theorem Same.trans {a b c : St} (h1 : Same a b) (h2 : Same b c) : Same a c :=
  ⟨h2.p.trans h1.p, h2.h.trans h1.h, h2.queue.trans h1.queue, h2.ras.trans h1.ras⟩

theorem Same.of_ras_eq {s s' : St} (e : s'.ras = s.ras) (hp : s'.p = s.p) (hh : s'.h = s.h) (hq : s'.queue = s.queue) :
    Same s s' := ⟨hp, hh, hq, by rw [e]⟩

theorem Same.mem_back {s s' : St} (h : Same s s') {r' : Rollapp} (hr : r' ∈ s'.ras) : ∃ r ∈ s.ras, rKey r = rKey r' := by
  have : rKey r' ∈ s'.ras.map rKey := List.mem_map.2 ⟨r', hr, rfl⟩
  rw [h.ras] at this
  obtain ⟨r, h1, h2⟩ := List.mem_map.1 this
  exact ⟨r, h1, h2⟩

theorem Same.mem_fwd {s s' : St} (h : Same s s') {r : Rollapp} (hr : r ∈ s.ras) : ∃ r' ∈ s'.ras, rKey r' = rKey r := by
  have : rKey r ∈ s.ras.map rKey := List.mem_map.2 ⟨r, hr, rfl⟩
  rw [← h.ras] at this
  obtain ⟨r', h1, h2⟩ := List.mem_map.1 this
  exact ⟨r', h1, h2⟩

theorem Same.ids {s s' : St} (h : Same s s') : s'.ras.map (·.id) = s.ras.map (·.id) := by
  have := congrArg (List.map (fun k : Nat × Nat × List (Addr × Nat × Nat × Nat × Bool × List BD × Nat × Nat) => k.1)) h.ras
  simpa [List.map_map, rKey, Function.comp_def] using this

/-- replacing a record by one with the same key -/
theorem Same.setRa {s : St} (hn : IdsNodup s) {id : Nat} {r r' : Rollapp} (hg : getRa s id = some r)
    (hk : rKey r' = rKey r) : Same s (setRa s r') := by
  refine ⟨rfl, rfl, rfl, ?_⟩
  unfold Core.setRa
  simp only [List.map_map]
  apply List.map_congr_left
  intro x hx
  simp only [Function.comp]
  by_cases hc : (x.id == r'.id) = true
  · have hxid : x.id = r'.id := by simpa using hc
    have : x = r := hn.unique hx (getRa_mem hg) (by rw [hxid, (rKey_fields hk).1])
    rw [if_pos hc, hk, this]
  · rw [if_neg hc]

theorem Chain.of_sKey {l l' : List SInfo} (h : Chain l) (e : l'.map sKey = l.map sKey) : Chain l' := by
  apply h.congr
  have := congrArg (List.map (fun k : Addr × Nat × Nat × Nat × Bool × List BD × Nat × Nat => (k.2.1, k.2.2.1, k.2.2.2.2.2.1))) e
  simpa [List.map_map, sKey, Function.comp_def] using this

theorem Same.chain {s s' : St} (h : Same s s') (hc : ChainAll s) : ChainAll s' := by
  intro r' hr'
  obtain ⟨r, hr, hk⟩ := h.mem_back hr'
  exact Chain.of_sKey (hc r hr) (rKey_fields hk).2.2.symm

theorem Same.qbound {s s' : St} (h : Same s s') (hq : QBound s) : QBound s' := by
  intro r' hr' e he hra
  obtain ⟨r, hr, hk⟩ := h.mem_back hr'
  obtain ⟨k1, _, k3⟩ := rKey_fields hk
  rw [h.queue] at he
  have := hq r hr e he (by rw [k1]; exact hra)
  rw [← map_length_of_eq k3]
  exact this

theorem Same.pre {s s' : St} (h : Same s s') (hp : Pre s) : Pre s' :=
  ⟨hp.nodup.of_ids h.ids, h.chain hp.chain, h.qbound hp.qb⟩

theorem FS.refl (s : St) : FS s s := fun hp => ⟨hp, Same.refl s⟩

theorem FS.trans {a b c : St} (h1 : FS a b) (h2 : FS b c) : FS a c := by
  intro hp
  obtain ⟨p1, s1⟩ := h1 hp
  obtain ⟨p2, s2⟩ := h2 p1
  exact ⟨p2, s1.trans s2⟩

theorem FS.of_same {s s' : St} (h : Pre s → Same s s') : FS s s' := fun hp => ⟨(h hp).pre hp, h hp⟩

theorem FS.of_ras_eq {s s' : St} (e : s'.ras = s.ras) (hp : s'.p = s.p) (hh : s'.h = s.h) (hq : s'.queue = s.queue) :
    FS s s' := FS.of_same fun _ => Same.of_ras_eq e hp hh hq

theorem FS.setRa {s : St} {id : Nat} {r r' : Rollapp} (hg : getRa s id = some r) (hk : rKey r' = rKey r) :
    FS s (setRa s r') := FS.of_same fun hp => Same.setRa hp.nodup hg hk

theorem FS.foldl {α} (f : St → α → St) (l : List α) (hf : ∀ b a, FS b (f b a)) (s : St) : FS s (l.foldl f s) := by
  induction l generalizing s with
  | nil => exact FS.refl s
  | cons x xs ih => exact (hf s x).trans (ih _)

-- ---------------------------------------------------------------- RFin under Same

theorem pendingIdx_congr {r r' : Rollapp} (h1 : r'.lastFin = r.lastFin) (h2 : r'.states.length = r.states.length) :
    pendingIdx r' = pendingIdx r := by
  unfold pendingIdx; rw [h1, h2]

theorem RFinL.congr {fl : List Nat} {q : List QEntry} {d : Nat} {r r' : Rollapp} (hk : rKey r' = rKey r)
    (h : RFinL fl q d r) : RFinL fl q d r' := by
  obtain ⟨k1, k2, k3⟩ := rKey_fields hk
  have hlen := map_length_of_eq k3
  refine ⟨by rw [k2, hlen]; exact h.le, by rw [pendingIdx_congr k2 hlen]; exact h.flat_eq, ?_, ?_, ?_⟩
  · intro i st' hst'
    obtain ⟨st, hst, hs⟩ := map_get_of_eq k3 hst'
    rw [k2, ← (sKey_fields hs).2.2.2.2.1]
    exact h.pre i st hst
  · intro e he hra i hi
    obtain ⟨st, hst, hc⟩ := h.ch e he (by rw [← k1]; exact hra) i hi
    obtain ⟨st', hst', hs⟩ := map_get_of_eq k3.symm hst
    exact ⟨st', hst', by rw [(sKey_fields hs).2.2.2.1]; exact hc⟩
  · intro st' hm hf
    obtain ⟨i, hi⟩ := List.mem_iff_getElem?.1 hm
    obtain ⟨st, hst, hs⟩ := map_get_of_eq k3 hi
    have f := sKey_fields hs
    rw [← f.2.2.2.1, ← f.2.2.2.2.2.2.2]
    exact h.notEarly st (List.mem_of_getElem? hst) (by rw [f.2.2.2.2.1]; exact hf)

theorem RFin.congr {q : List QEntry} {d : Nat} {r r' : Rollapp} (hk : rKey r' = rKey r) (h : RFin q d r) : RFin q d r' := by
  unfold RFin at *
  rw [(rKey_fields hk).1]
  exact RFinL.congr hk h

theorem FinInv.same {s s' : St} (h : FinInv s) (hs : Same s s') : FinInv s' := by
  refine ⟨h.nodup.of_ids hs.ids, by rw [hs.queue]; exact h.sorted, ?_, ?_, ?_⟩
  · intro e he; rw [hs.queue] at he; rw [hs.h]; exact h.ent e he
  · intro e he; rw [hs.queue] at he; rw [hs.ids]; exact h.qra e he
  · intro r' hr'
    obtain ⟨r, hr, hk⟩ := hs.mem_back hr'
    rw [hs.queue, hs.p]
    exact (h.ras r hr).congr hk.symm

theorem FinInv.qbound {s : St} (h : FinInv s) : QBound s := by
  intro r hr e he hra
  refine ⟨(h.ent e he).2, ?_⟩
  intro i hi
  obtain ⟨st, hst, _⟩ := (h.ras r hr).ch e he hra i hi
  have := getElem?_lt hst
  -- i - 1 < length; i = 0 is fine as well
  omega

theorem FinInv.pre {s : St} (h : FinInv s) (hc : ChainAll s) : Pre s := ⟨h.nodup, hc, h.qbound⟩

-- ---------------------------------------------------------------- Evolves

theorem Evolves.refl (s : St) : Evolves s s := by
  intro r hr; exact ⟨r, hr, rfl, fun i st hst _ => ⟨st, hst, rfl⟩⟩

theorem Evolves.trans {a b c : St} (h1 : Evolves a b) (h2 : Evolves b c) : Evolves a c := by
  intro r hr
  obtain ⟨r1, hr1, e1, f1⟩ := h1 r hr
  obtain ⟨r2, hr2, e2, f2⟩ := h2 r1 hr1
  refine ⟨r2, hr2, e2.trans e1, ?_⟩
  intro i st hst hf
  obtain ⟨st1, hst1, k1⟩ := f1 i st hst hf
  obtain ⟨st2, hst2, k2⟩ := f2 i st1 hst1 (by rw [(sKey_fields k1).2.2.2.2.1]; exact hf)
  exact ⟨st2, hst2, k2.trans k1⟩

theorem Evolves.of_ras_eq {s s' : St} (e : s'.ras = s.ras) : Evolves s s' := by
  intro r hr; exact ⟨r, by rw [e]; exact hr, rfl, fun i st hst _ => ⟨st, hst, rfl⟩⟩

theorem Same.evolves {s s' : St} (h : Same s s') : Evolves s s' := by
  intro r hr
  obtain ⟨r', hr', hk⟩ := h.mem_fwd hr
  obtain ⟨k1, _, k3⟩ := rKey_fields hk
  refine ⟨r', hr', k1, ?_⟩
  intro i st hst _
  obtain ⟨st', hst', hs⟩ := map_get_of_eq k3.symm hst
  exact ⟨st', hst', hs⟩

-- ---------------------------------------------------------------- Back: nothing becomes finalized

/-- every finalized state info of `s'` was already there, finalized, in `s` (same rollapp, same index,
    same fields except possibly `next`) -/
def Back (s s' : St) : Prop :=
  ∀ r' ∈ s'.ras, ∀ (i : Nat) (st' : SInfo), r'.states[i]? = some st' → st'.finalized = true →
    ∃ r ∈ s.ras, r.id = r'.id ∧ ∃ st, r.states[i]? = some st ∧ sKey st = sKey st'

theorem Back.refl (s : St) : Back s s := fun r hr i st hst _ => ⟨r, hr, rfl, st, hst, rfl⟩

theorem Back.trans {a b c : St} (h1 : Back a b) (h2 : Back b c) : Back a c := by
  intro r2 hr2 i st2 hst2 hf2
  obtain ⟨r1, hr1, e1, st1, hst1, k1⟩ := h2 r2 hr2 i st2 hst2 hf2
  obtain ⟨r0, hr0, e0, st0, hst0, k0⟩ := h1 r1 hr1 i st1 hst1 (by rw [(sKey_fields k1).2.2.2.2.1]; exact hf2)
  exact ⟨r0, hr0, e0.trans e1, st0, hst0, k0.trans k1⟩

theorem Back.of_ras_eq {s s' : St} (e : s'.ras = s.ras) : Back s s' := by
  intro r hr i st hst _; exact ⟨r, by rw [← e]; exact hr, rfl, st, hst, rfl⟩

theorem Same.back {s s' : St} (h : Same s s') : Back s s' := by
  intro r' hr' i st' hst' _
  obtain ⟨r, hr, hk⟩ := h.mem_back hr'
  obtain ⟨k1, _, k3⟩ := rKey_fields hk
  obtain ⟨st, hst, hs⟩ := map_get_of_eq k3.symm hst'
  exact ⟨r, hr, k1, st, hst, hs⟩

-- ---------------------------------------------------------------- the composite relation proved for every op

/-- from a state satisfying the chain and finalization invariants, the next state satisfies them
    and keeps all finalized states -/
def Good (s s' : St) : Prop := ChainAll s → FinInv s → ChainAll s' ∧ FinInv s' ∧ Evolves s s' ∧ s'.p = s.p

theorem Good.refl (s : St) : Good s s := fun hc hi => ⟨hc, hi, Evolves.refl s, rfl⟩

theorem Good.trans {a b c : St} (h1 : Good a b) (h2 : Good b c) : Good a c := by
  intro hc hi
  obtain ⟨c1, i1, e1, p1⟩ := h1 hc hi
  obtain ⟨c2, i2, e2, p2⟩ := h2 c1 i1
  exact ⟨c2, i2, e1.trans e2, p2.trans p1⟩

theorem FS.good {s s' : St} (h : FS s s') : Good s s' := by
  intro hc hi
  obtain ⟨p1, s1⟩ := h (hi.pre hc)
  exact ⟨p1.chain, hi.same s1, s1.evolves, s1.p⟩

end DymVerif.Core
