/-
  Lemmas/CoreLevBasic — the liveness-event queue: list lemmas (`delEvent`, `insertSorted ltPair`),
  `getRa`/`setRa` interplay, the structural invariant `Lev` (events ↔ rollapp records, at most one
  event per rollapp) and its preservation by the primitive transformers.
-/
import DymVerif.Lemmas.CoreCustody3
namespace DymVerif.Core.LevNs

-- ---------------------------------------------------------------- getRa / setRa

theorem getRa_congr {s s' : St} (e : s'.ras = s.ras) (id : Nat) : getRa s' id = getRa s id := by
  unfold getRa; rw [e]

theorem getRa_setRa_other {s : St} {r' : Rollapp} {id : Nat} (hne : r'.id ≠ id) :
    getRa (setRa s r') id = getRa s id := by
  unfold getRa setRa
  dsimp only
  induction s.ras with
  | nil => rfl
  | cons x xs ih =>
    simp only [List.map_cons, List.find?_cons]
    by_cases hx : (x.id == r'.id) = true
    · have hxa : x.id = r'.id := by simpa using hx
      simp only [hx, if_true]
      have h1 : (r'.id == id) = false := by simp [hne]
      have h2 : (x.id == id) = false := by simp [hxa, hne]
      simp only [h1, h2]; exact ih
    · simp only [hx]
      simp only [Bool.false_eq_true, if_false]
      cases hxa : (x.id == id) with
      | true => rfl
      | false => exact ih

theorem getRa_setRa_same {s : St} {r r' : Rollapp} (hg : getRa s r'.id = some r) :
    getRa (setRa s r') r'.id = some r' := by
  unfold getRa setRa
  dsimp only
  unfold getRa at hg
  revert hg
  induction s.ras with
  | nil => intro h; cases h
  | cons x xs ih =>
    intro h
    simp only [List.map_cons, List.find?_cons] at h ⊢
    by_cases hx : (x.id == r'.id) = true
    · simp [hx]
    · simp only [hx] at h ⊢
      simp only [Bool.false_eq_true, if_false]
      simp only [hx]
      exact ih h

theorem mem_setRa_ne {s : St} {r0 x : Rollapp} (h : x ∈ (setRa s r0).ras) :
    x = r0 ∨ (x ∈ s.ras ∧ x.id ≠ r0.id) := by
  unfold setRa at h
  simp only [List.mem_map] at h
  obtain ⟨y, hy, rfl⟩ := h
  by_cases hc : (y.id == r0.id) = true
  · simp [hc]
  · right
    have hne : y.id ≠ r0.id := by simpa using hc
    simp only [hc]
    exact ⟨hy, hne⟩

theorem setRa_ids (s : St) (r : Rollapp) : (setRa s r).ras.map (·.id) = s.ras.map (·.id) := by
  unfold setRa
  dsimp only
  rw [List.map_map]
  apply List.map_congr_left
  intro x _
  show (if (x.id == r.id) = true then r else x).id = x.id
  split
  · rename_i h; exact (by simpa using h : x.id = r.id).symm
  · rfl

theorem getRa_none {s : St} {id : Nat} (h : getRa s id = none) : ∀ y ∈ s.ras, y.id ≠ id := by
  unfold getRa at h
  intro y hy e
  have := List.find?_eq_none.1 h y hy
  simp [e] at this

-- ---------------------------------------------------------------- event list

theorem mem_delEvent {lev : List (Nat × Nat)} {h ra : Nat} {e : Nat × Nat} :
    e ∈ delEvent lev h ra ↔ e ∈ lev ∧ ¬ (e.1 = h ∧ e.2 = ra) := by
  unfold delEvent
  simp only [List.mem_filter, Bool.not_eq_true', Bool.and_eq_false_iff, beq_eq_false_iff_ne, ne_eq]
  constructor
  · rintro ⟨h1, h2⟩; exact ⟨h1, fun hc => by rcases h2 with h2 | h2; exact h2 hc.1; exact h2 hc.2⟩
  · rintro ⟨h1, h2⟩
    refine ⟨h1, ?_⟩
    by_cases hc : e.1 = h
    · exact Or.inr (fun h3 => h2 ⟨hc, h3⟩)
    · exact Or.inl hc

theorem delEvent_nodup {lev : List (Nat × Nat)} (h ra : Nat) (hn : (lev.map (·.2)).Nodup) :
    ((delEvent lev h ra).map (·.2)).Nodup := by
  unfold delEvent
  exact List.Nodup.sublist (List.Sublist.map _ List.filter_sublist) hn

theorem ltPair_tri {a b : Nat × Nat} (h1 : ltPair a b = false) (h2 : ltPair b a = false) : b = a := by
  unfold ltPair at h1 h2
  simp only [Bool.or_eq_false_iff, Bool.and_eq_false_iff, decide_eq_false_iff_not, beq_eq_false_iff_ne] at h1 h2
  apply Prod.ext <;> omega

theorem mem_insertSorted_self (x : Nat × Nat) (l : List (Nat × Nat)) : x ∈ insertSorted ltPair x l := by
  induction l with
  | nil => simp [insertSorted]
  | cons a as ih =>
    unfold insertSorted
    split
    · simp
    · split
      · simp [ih]
      · simp

theorem mem_insertSorted_of_mem (x : Nat × Nat) (l : List (Nat × Nat)) (y : Nat × Nat) (hy : y ∈ l) :
    y ∈ insertSorted ltPair x l := by
  induction l with
  | nil => cases hy
  | cons a as ih =>
    unfold insertSorted
    split
    · simp only [List.mem_cons] at hy ⊢; exact Or.inr hy
    · rename_i h1
      split
      · rcases List.mem_cons.1 hy with h | h
        · simp [h]
        · simp [ih h]
      · rename_i h2
        have : a = x := ltPair_tri (by simpa using h1) (by simpa using h2)
        rcases List.mem_cons.1 hy with h | h
        · simp [h, this]
        · simp [h]

theorem insertSorted_nodup_snd (x : Nat × Nat) (l : List (Nat × Nat)) (hn : (l.map (·.2)).Nodup)
    (hx : ∀ y ∈ l, y.2 ≠ x.2) : ((insertSorted ltPair x l).map (·.2)).Nodup := by
  induction l with
  | nil => simp [insertSorted]
  | cons a as ih =>
    have hp := List.nodup_cons.1 (by simpa using hn : (a.2 :: as.map (·.2)).Nodup)
    have hxa : a.2 ≠ x.2 := hx a (by simp)
    have hxs : ∀ y ∈ as, y.2 ≠ x.2 := fun y hy => hx y (by simp [hy])
    unfold insertSorted
    split
    · simp only [List.map_cons]
      apply List.nodup_cons.2
      refine ⟨?_, by simpa using hn⟩
      intro hm
      rcases List.mem_cons.1 hm with h | h
      · exact hxa h.symm
      · obtain ⟨y, hy, e⟩ := List.mem_map.1 h
        exact hxs y hy e
    · split
      · simp only [List.map_cons]
        apply List.nodup_cons.2
        refine ⟨?_, ih hp.2 hxs⟩
        intro hm
        obtain ⟨y, hy, e⟩ := List.mem_map.1 hm
        rcases insertSorted_mem' _ _ _ _ hy with h | h
        · subst h; exact hxa e.symm
        · exact hp.1 (List.mem_map.2 ⟨y, h, e⟩)
      · simp only [List.map_cons]
        apply List.nodup_cons.2
        refine ⟨?_, hp.2⟩
        intro hm
        obtain ⟨y, hy, e⟩ := List.mem_map.1 hm
        exact hxs y hy e

-- ---------------------------------------------------------------- the structural invariant

/-- events and rollapp records agree, and no rollapp has two events -/
structure Lev (s : St) : Prop where
  /-- every queued event belongs to an existing rollapp whose record carries that height -/
  ev_ra : ∀ e ∈ s.lev, ∃ r, getRa s e.2 = some r ∧ r.evH = e.1
  /-- at most one event per rollapp -/
  one : (s.lev.map (·.2)).Nodup
  /-- a rollapp record with a non-zero event height has exactly that event queued -/
  ra_ev : ∀ r ∈ s.ras, r.evH = 0 ∨ (r.evH, r.id) ∈ s.lev

theorem Lev.of_eq {s s' : St} (h : Lev s) (e1 : s'.ras = s.ras) (e2 : s'.lev = s.lev) : Lev s' := by
  constructor
  · intro e he; rw [e2] at he; rw [getRa_congr e1]; exact h.ev_ra e he
  · rw [e2]; exact h.one
  · intro r hr; rw [e1] at hr; rw [e2]; exact h.ra_ev r hr

/-- all queued events of rollapp `id` sit at the height its record carries -/
theorem Lev.ev_height {s : St} (h : Lev s) {id : Nat} {r : Rollapp} (hg : getRa s id = some r)
    {e : Nat × Nat} (he : e ∈ s.lev) (h2 : e.2 = id) : e.1 = r.evH := by
  obtain ⟨r0, hr0, h0⟩ := h.ev_ra e he
  rw [h2, hg] at hr0
  injection hr0 with hr0; subst hr0; exact h0.symm

/-- rewriting a record without touching its event height -/
theorem Lev.setRa_same {s : St} {id : Nat} {r r' : Rollapp} (h : Lev s) (hg : getRa s id = some r)
    (hid : r'.id = r.id) (he : r'.evH = r.evH) : Lev (setRa s r') := by
  have hid' : r'.id = id := hid.trans (getRa_id hg)
  constructor
  · intro e hel
    rw [setRa_lev] at hel
    obtain ⟨r0, hr0, h0⟩ := h.ev_ra e hel
    by_cases hc : r'.id = e.2
    · rw [← hc, hid', hg] at hr0
      injection hr0 with hr0; subst hr0
      refine ⟨r', ?_, he.trans h0⟩
      rw [← hc]; exact getRa_setRa_same (r := r) (by rw [hid']; exact hg)
    · exact ⟨r0, by rw [getRa_setRa_other hc]; exact hr0, h0⟩
  · exact h.one
  · intro x hx
    rw [setRa_lev]
    rcases mem_setRa_ne hx with h1 | ⟨h1, _⟩
    · subst h1
      rw [he, hid]
      exact h.ra_ev r (getRa_mem hg)
    · exact h.ra_ev x h1

/-- the clock of a rollapp is reset: its event is deleted, the record carries height 0 -/
theorem Lev.reset_gen {s s' : St} {id : Nat} {r r' : Rollapp} (h : Lev s) (hg : getRa s id = some r)
    (hid : r'.id = r.id) (he : r'.evH = 0) (hras : s'.ras = (setRa s r').ras)
    (hlev : s'.lev = delEvent s.lev r.evH id) : Lev s' := by
  have hid' : r'.id = id := hid.trans (getRa_id hg)
  constructor
  · intro e hel
    rw [hlev] at hel
    obtain ⟨hel1, hel2⟩ := mem_delEvent.1 hel
    obtain ⟨r0, hr0, h0⟩ := h.ev_ra e hel1
    have hc : r'.id ≠ e.2 := by
      intro hc
      exact hel2 ⟨h.ev_height hg hel1 (hc.symm.trans hid'), hc.symm.trans hid'⟩
    exact ⟨r0, by rw [getRa_congr hras, getRa_setRa_other hc]; exact hr0, h0⟩
  · rw [hlev]; exact delEvent_nodup _ _ h.one
  · intro x hx
    rw [hras] at hx
    rw [hlev]
    rcases mem_setRa_ne hx with h1 | ⟨h1, h2⟩
    · subst h1; exact Or.inl he
    · rcases h.ra_ev x h1 with h3 | h3
      · exact Or.inl h3
      · exact Or.inr (mem_delEvent.2 ⟨h3, fun hc => h2 (hc.2.trans hid'.symm)⟩)

/-- the event of a rollapp is replaced by a new one at the height its record now carries -/
theorem Lev.sched_gen {s s' : St} {id : Nat} {r r' : Rollapp} (h : Lev s) (hg : getRa s id = some r)
    (hid : r'.id = r.id) (hras : s'.ras = (setRa s r').ras)
    (hlev : s'.lev = insertSorted ltPair (r'.evH, id) (delEvent s.lev r.evH id)) : Lev s' := by
  have hid' : r'.id = id := hid.trans (getRa_id hg)
  have hclean : ∀ y ∈ delEvent s.lev r.evH id, y.2 ≠ id := by
    intro y hy hc
    obtain ⟨hy1, hy2⟩ := mem_delEvent.1 hy
    exact hy2 ⟨h.ev_height hg hy1 hc, hc⟩
  constructor
  · intro e hel
    rw [hlev] at hel
    rcases insertSorted_mem' _ _ _ _ hel with h1 | h1
    · subst h1
      refine ⟨r', ?_, rfl⟩
      rw [getRa_congr hras]
      show getRa (setRa s r') id = some r'
      rw [← hid']; exact getRa_setRa_same (r := r) (by rw [hid']; exact hg)
    · obtain ⟨hel1, _⟩ := mem_delEvent.1 h1
      obtain ⟨r0, hr0, h0⟩ := h.ev_ra e hel1
      have hc : r'.id ≠ e.2 := fun hc => hclean e h1 (hc.symm.trans hid')
      exact ⟨r0, by rw [getRa_congr hras, getRa_setRa_other hc]; exact hr0, h0⟩
  · rw [hlev]
    exact insertSorted_nodup_snd _ _ (delEvent_nodup _ _ h.one) hclean
  · intro x hx
    rw [hras] at hx
    rw [hlev]
    rcases mem_setRa_ne hx with h1 | ⟨h1, h2⟩
    · subst h1; rw [hid']; exact Or.inr (mem_insertSorted_self _ _)
    · rcases h.ra_ev x h1 with h3 | h3
      · exact Or.inl h3
      · exact Or.inr (mem_insertSorted_of_mem _ _ _ (mem_delEvent.2 ⟨h3, fun hc => h2 (hc.2.trans hid'.symm)⟩))

-- ---------------------------------------------------------------- the model's primitives

theorem indicateLiveness_ras (s : St) (r : Rollapp) :
    (indicateLiveness s r).ras =
      (setRa s { r with evH := nextSlashHeight s.p.lsBlocks s.p.lsInterval s.h s.h, cdStart := s.h }).ras := rfl

theorem indicateLiveness_lev (s : St) (r : Rollapp) :
    (indicateLiveness s r).lev =
      insertSorted ltPair (nextSlashHeight s.p.lsBlocks s.p.lsInterval s.h s.h, r.id) (delEvent s.lev r.evH r.id) := rfl

theorem indicateLiveness_h (s : St) (r : Rollapp) : (indicateLiveness s r).h = s.h := rfl
theorem indicateLiveness_p (s : St) (r : Rollapp) : (indicateLiveness s r).p = s.p := rfl

theorem Lev.indicate {s : St} {id : Nat} {r : Rollapp} (h : Lev s) (hg : getRa s id = some r) :
    Lev (indicateLiveness s r) := by
  have hid := getRa_id hg
  refine Lev.sched_gen (r' := { r with evH := nextSlashHeight s.p.lsBlocks s.p.lsInterval s.h s.h, cdStart := s.h })
    h hg rfl (indicateLiveness_ras s r) ?_
  rw [indicateLiveness_lev, hid]

theorem Lev.reset {s : St} {id : Nat} {r r' : Rollapp} (h : Lev s) (hg : getRa s id = some r)
    (hid : r'.id = r.id) (he : r'.evH = r.evH) :
    Lev (setRa (resetClock s r').1 (resetClock s r').2) := by
  have hid' : r'.id = id := hid.trans (getRa_id hg)
  refine Lev.reset_gen (r' := { r' with evH := 0, cdStart := s.h }) h hg hid rfl rfl ?_
  show delEvent s.lev r'.evH r'.id = _
  rw [he, hid']

end DymVerif.Core.LevNs
