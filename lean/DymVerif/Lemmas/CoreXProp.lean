/-
  Lemmas/CoreXProp — "a real proposer has a liveness event": the per-record invariant `PE` is
  `QClosed`, hence holds for every rollapp of every reachable state (`run_pe`).
-/
import DymVerif.Lemmas.CoreXWalk2
namespace DymVerif.Core.XW
open DymVerif.Core.LevNs

/-- a rollapp whose liveness clock was never started (`cdStart = 0`: fresh record) or whose event
    height is "none" (`evH = 0`: fresh record, or forked and not yet recovered) has the sentinel
    proposer -/
def PE (r : Rollapp) : Prop := (r.cdStart = 0 → r.proposer = none) ∧ (r.evH = 0 → r.proposer = none)

theorem xv_fields {a b : Rollapp} (h : xv a = xv b) :
    a.id = b.id ∧ a.revs = b.revs ∧ a.states.map xKey = b.states.map xKey ∧ a.evH = b.evH ∧ a.cdStart = b.cdStart := by
  unfold xv at h
  simp only [Prod.mk.injEq] at h
  exact h

theorem pe_closed : QClosed PE where
  fresh := fun _ _ _ => ⟨fun _ => rfl, fun _ => rfl⟩
  view := by
    intro r r' h hv hp
    obtain ⟨_, _, _, he, hc⟩ := xv_fields hv
    rcases hp with hp | hp
    · exact ⟨fun h0 => by rw [hp]; exact h.1 (by rw [← hc]; exact h0), fun h0 => by rw [hp]; exact h.2 (by rw [← he]; exact h0)⟩
    · exact ⟨fun _ => hp, fun _ => hp⟩
  clock := by
    intro r r' N I h _ hp _ _ _ hcd hev
    have := nextSlashHeight_ge N I h h
    exact ⟨fun h0 => by omega, fun h0 => by omega⟩
  resched := by
    intro r N I h hq
    have := nextSlashHeight_ge N I h r.cdStart
    refine ⟨hq.1, ?_⟩
    intro h0
    have h0' : nextSlashHeight N I h r.cdStart = 0 := h0
    exact hq.1 (by omega)
  append := fun _ _ _ hq _ _ _ _ => hq
  fork := fun _ _ _ _ _ _ _ _ => ⟨fun _ => rfl, fun _ => rfl⟩

/-- **every rollapp with a real proposer has its clock started and a liveness event recorded** -/
theorem run_pe (p : Params) (ops : List Op) (r : Rollapp) (hr : r ∈ (run p ops).ras) : PE r :=
  run_q pe_closed p ops r hr

end DymVerif.Core.XW
