/-
  Lemmas/PacketsFork — what delayedack's `OnHardFork` (M-Packets `onHardFork`) does to the packet
  store, the receipts, the commitments and the demand orders, as closed forms of the fold.
-/
import DymVerif.Lemmas.PacketsIndex
namespace DymVerif.Packets
open DymVerif DymVerif.Keys

/-- the packets the hook reverts: those whose key lies in the fork range -/
def forkVictims (s : St) (rid : Bytes) (lv : Nat) : List Packet := s.packets.filter (fun p => forkRange rid lv (pkey p))

theorem onHardFork_eq (s : St) (rid : Bytes) (lv : Nat) : onHardFork s rid lv = (forkVictims s rid lv).foldl revertPacket s := rfl

theorem foldl_revert_packets : ∀ (l : List Packet) (s : St),
    (l.foldl revertPacket s).packets = s.packets.filter (fun q => l.all (fun p => pkey q != pkey p))
  | [], s => by
    simp only [List.foldl_nil, List.all_nil]
    exact (List.filter_eq_self.mpr (fun _ _ => rfl)).symm
  | p :: rest, s => by
    rw [List.foldl_cons, foldl_revert_packets rest, revertPacket_packets, List.filter_filter]
    congr 1
    funext q
    simp only [List.all_cons, Bool.and_comm]

theorem revertPacket_receipts (s : St) (p : Packet) :
    (revertPacket s p).receipts = if p.ptype == .onRecv then s.receipts.filter (· != (p.chan, p.seq)) else s.receipts := by
  unfold revertPacket deletePacket revertIbc
  split <;> rfl

theorem foldl_revert_receipts : ∀ (l : List Packet) (s : St),
    (l.foldl revertPacket s).receipts =
      s.receipts.filter (fun x => l.all (fun p => !(p.ptype == .onRecv) || x != (p.chan, p.seq)))
  | [], s => by
    simp only [List.foldl_nil, List.all_nil]
    exact (List.filter_eq_self.mpr (fun _ _ => rfl)).symm
  | p :: rest, s => by
    rw [List.foldl_cons, foldl_revert_receipts rest, revertPacket_receipts]
    cases hr : (p.ptype == PType.onRecv)
    · simp only [Bool.false_eq_true, if_false, List.all_cons, hr, Bool.not_false, Bool.true_or, Bool.true_and]
    · simp only [if_true, List.filter_filter, List.all_cons, hr, Bool.not_true, Bool.false_or]
      congr 1
      funext x
      exact Bool.and_comm _ _

theorem revertPacket_commits_mono (s : St) (p : Packet) : ∀ x ∈ s.commits, x ∈ (revertPacket s p).commits := by
  intro x hx
  unfold revertPacket deletePacket revertIbc
  split
  · exact hx
  · show x ∈ (if s.commits.contains (p.chan, p.seq) then s.commits else s.commits ++ [(p.chan, p.seq)])
    split
    · exact hx
    · exact List.mem_append_left _ hx

theorem revertPacket_restored_mono (s : St) (p : Packet) : ∀ x ∈ s.restored, x ∈ (revertPacket s p).restored := by
  intro x hx
  unfold revertPacket deletePacket revertIbc
  split
  · exact hx
  · exact List.mem_append_left _ hx

theorem revertPacket_restores (s : St) (p : Packet) (hr : (p.ptype == .onRecv) = false) :
    (p.chan, p.seq) ∈ (revertPacket s p).commits ∧ ((p.chan, p.seq), (restoreTarget p).target) ∈ (revertPacket s p).restored := by
  unfold revertPacket deletePacket revertIbc
  simp only [hr, Bool.false_eq_true, if_false]
  constructor
  · show (p.chan, p.seq) ∈ (if s.commits.contains (p.chan, p.seq) then s.commits else s.commits ++ [(p.chan, p.seq)])
    split
    · rename_i h; simpa using h
    · simp
  · show ((p.chan, p.seq), (restoreTarget p).target) ∈ s.restored ++ [((p.chan, p.seq), (restoreTarget p).target)]
    simp

theorem foldl_revert_commits_mono : ∀ (l : List Packet) (s : St), ∀ x ∈ s.commits, x ∈ (l.foldl revertPacket s).commits
  | [], _, x, hx => hx
  | p :: rest, s, x, hx => foldl_revert_commits_mono rest _ x (revertPacket_commits_mono s p x hx)

theorem foldl_revert_restored_mono : ∀ (l : List Packet) (s : St), ∀ x ∈ s.restored, x ∈ (l.foldl revertPacket s).restored
  | [], _, x, hx => hx
  | p :: rest, s, x, hx => foldl_revert_restored_mono rest _ x (revertPacket_restored_mono s p x hx)

theorem foldl_revert_restores : ∀ (l : List Packet) (s : St) (p : Packet), p ∈ l → (p.ptype == .onRecv) = false →
    (p.chan, p.seq) ∈ (l.foldl revertPacket s).commits ∧ ((p.chan, p.seq), (restoreTarget p).target) ∈ (l.foldl revertPacket s).restored
  | [], _, _, hp, _ => by cases hp
  | q :: rest, s, p, hp, hr => by
    rw [List.foldl_cons]
    rcases List.mem_cons.mp hp with rfl | hp'
    · obtain ⟨h1, h2⟩ := revertPacket_restores s p hr
      exact ⟨foldl_revert_commits_mono rest _ _ h1, foldl_revert_restored_mono rest _ _ h2⟩
    · exact foldl_revert_restores rest _ p hp' hr

theorem revertPacket_orders (s : St) (p : Packet) :
    (revertPacket s p).orders = (s.orders.filter (fun o => !(o.status == .pending && o.id == pendKeyOf p))).filter
      (fun o => !(o.status == .finalized && o.id == pendKeyOf p)) := by
  unfold revertPacket deletePacket revertIbc
  split <;> rfl

theorem foldl_revert_orders_sub : ∀ (l : List Packet) (s : St), ∀ o ∈ (l.foldl revertPacket s).orders, o ∈ s.orders
  | [], _, o, ho => ho
  | p :: rest, s, o, ho => by
    have := foldl_revert_orders_sub rest _ o ho
    rw [revertPacket_orders] at this
    exact (List.mem_filter.mp (List.mem_filter.mp this).1).1

theorem foldl_revert_orders_gone : ∀ (l : List Packet) (s : St) (p : Packet), p ∈ l →
    ∀ o ∈ (l.foldl revertPacket s).orders, o.id ≠ pendKeyOf p
  | [], _, _, hp, _, _ => by cases hp
  | q :: rest, s, p, hp, o, ho => by
    rw [List.foldl_cons] at ho
    rcases List.mem_cons.mp hp with rfl | hp'
    · have h1 := foldl_revert_orders_sub rest _ o ho
      rw [revertPacket_orders] at h1
      obtain ⟨h2, h3⟩ := List.mem_filter.mp h1
      obtain ⟨_, h4⟩ := List.mem_filter.mp h2
      intro hid
      cases hs : o.status with
      | pending => simp [hs, hid] at h4
      | finalized => simp [hs, hid] at h3
    · exact foldl_revert_orders_gone rest _ p hp' o ho

theorem foldl_revert_orders_keep : ∀ (l : List Packet) (s : St) (o : Order), o ∈ s.orders → (∀ p ∈ l, o.id ≠ pendKeyOf p) →
    o ∈ (l.foldl revertPacket s).orders
  | [], _, _, ho, _ => ho
  | q :: rest, s, o, ho, hn => by
    rw [List.foldl_cons]
    apply foldl_revert_orders_keep rest _ o _ (fun p hp => hn p (List.mem_cons_of_mem _ hp))
    rw [revertPacket_orders]
    have hq : (o.id == pendKeyOf q) = false := by simpa using hn q List.mem_cons_self
    refine List.mem_filter.mpr ⟨List.mem_filter.mpr ⟨ho, ?_⟩, ?_⟩ <;> simp [hq]

end DymVerif.Packets
