/-
  Lemmas/CoreCustody4 — which operations can lower a recorded bond, and where the money goes
  (helpers of Props/C06 `bond_decreases_only_by`).
-/
import DymVerif.Lemmas.CoreCustody3
namespace DymVerif.Core

-- ---------------------------------------------------------------- frames

/-- bank balances, module account and burn counter are the same in both states -/
structure MoneyEq (s s' : St) : Prop where
  bal : s'.bal = s.bal
  modBal : s'.modBal = s.modBal
  burned : s'.burned = s.burned

theorem MoneyEq.refl (s : St) : MoneyEq s s := ⟨rfl, rfl, rfl⟩
theorem MoneyEq.trans {a b c : St} (h1 : MoneyEq a b) (h2 : MoneyEq b c) : MoneyEq a c :=
  ⟨h2.bal.trans h1.bal, h2.modBal.trans h1.modBal, h2.burned.trans h1.burned⟩

/-- every recorded sequencer is still recorded, with at least the bond it had -/
def NoDec (s s' : St) : Prop := ∀ a q, getSeq s a = some q → ∃ q', getSeq s' a = some q' ∧ q.tokens ≤ q'.tokens

theorem NoDec.refl (s : St) : NoDec s s := fun _ q h => ⟨q, h, Nat.le_refl _⟩
theorem NoDec.trans {a b c : St} (h1 : NoDec a b) (h2 : NoDec b c) : NoDec a c := by
  intro x q hq
  obtain ⟨q1, hq1, l1⟩ := h1 x q hq
  obtain ⟨q2, hq2, l2⟩ := h2 x q1 hq1
  exact ⟨q2, hq2, Nat.le_trans l1 l2⟩

theorem TokFrame.noDec {s s' : St} (h : TokFrame s s') : NoDec s s' := by
  intro a q hq
  have := h a
  rw [hq] at this
  cases hq' : getSeq s' a with
  | none => rw [hq'] at this; cases this
  | some q' =>
    rw [hq'] at this
    refine ⟨q', rfl, ?_⟩
    have e : q'.tokens = q.tokens := by simpa using this
    omega

theorem NoDec.not_lt {s s' : St} (h : NoDec s s') {a : Addr} {q q' : Seq} (hq : getSeq s a = some q)
    (hq' : getSeq s' a = some q') : ¬ q'.tokens < q.tokens := by
  obtain ⟨q1, h1, l⟩ := h a q hq
  rw [hq'] at h1; cases h1; omega

theorem getSeq_setSeq_self {s : St} {q q0 : Seq} (hg : getSeq s q.addr = some q0) : getSeq (setSeq s q) q.addr = some q := by
  have hf : ∀ x : Seq, (if x.addr == q.addr then q else x).addr = x.addr := by
    intro x
    by_cases h : (x.addr == q.addr) = true
    · simp only [h, if_true]; exact (by simpa using h : x.addr = q.addr).symm
    · simp [h]
  unfold getSeq at hg
  unfold getSeq setSeq
  dsimp only
  rw [find_map_addr _ _ hf, hg]
  have : q0.addr = q.addr := by
    have := List.find?_some hg
    simpa using this
  simp [this]

theorem getBal_setBal_other (b : List (Addr × Nat)) (a c : Addr) (v : Nat) (hne : c ≠ a) : getBal (setBal b a v) c = getBal b c := by
  unfold getBal setBal
  by_cases h : b.any (·.1 == a) = true
  · rw [if_pos h]
    clear h
    induction b with
    | nil => rfl
    | cons x xs ih =>
      simp only [List.map_cons, List.find?_cons]
      by_cases hx : (x.1 == a) = true
      · have hxa : x.1 = a := by simpa using hx
        have h1 : (a == c) = false := by simp [Ne.symm hne]
        have h2 : (x.1 == c) = false := by simp [hxa, Ne.symm hne]
        simp only [hx, if_true, h1, h2]
        exact ih
      · simp only [hx, Bool.false_eq_true, if_false]
        cases hc : (x.1 == c) with
        | true => rfl
        | false => exact ih
  · rw [if_neg h]
    rw [List.find?_append]
    cases hf : b.find? (·.1 == c) with
    | some y => rfl
    | none =>
      have h1 : (a == c) = false := by simp [Ne.symm hne]
      simp [h1]

-- ---------------------------------------------------------------- the fork path moves no money

theorem removeFromNoticeQueue_money (s : St) (q : Seq) : MoneyEq s (removeFromNoticeQueue s q) := by
  unfold removeFromNoticeQueue; split <;> exact ⟨rfl, rfl, rfl⟩
theorem setProposer_money (s : St) (ra : Nat) (a : Option Addr) : MoneyEq s (setProposer s ra a) := by
  unfold setProposer; split <;> exact ⟨rfl, rfl, rfl⟩
theorem setSuccessor_money (s : St) (ra : Nat) (a : Option Addr) : MoneyEq s (setSuccessor s ra a) := by
  unfold setSuccessor; split <;> exact ⟨rfl, rfl, rfl⟩
theorem setSeq_money (s : St) (q : Seq) : MoneyEq s (setSeq s q) := ⟨rfl, rfl, rfl⟩
theorem setRa_money (s : St) (r : Rollapp) : MoneyEq s (setRa s r) := ⟨rfl, rfl, rfl⟩

theorem abruptRemoveProposer_money (s : St) (ra : Nat) : MoneyEq s (abruptRemoveProposer s ra) := by
  unfold abruptRemoveProposer
  split
  · exact MoneyEq.refl s
  · split
    · exact MoneyEq.refl s
    · split
      · exact MoneyEq.refl s
      · exact ((removeFromNoticeQueue_money s _).trans (setSeq_money _ _)).trans (setProposer_money _ _ _)

theorem seqOnHardFork_money (s : St) (ra : Nat) : MoneyEq s (seqOnHardFork s ra) := by
  unfold seqOnHardFork
  have f1 : MoneyEq s (optOutAll s ra) := ⟨rfl, rfl, rfl⟩
  exact (f1.trans (abruptRemoveProposer_money _ _)).trans (setSuccessor_money _ _ _)

theorem hardFork_money {s s' : St} {ra lv : Nat} (e : hardFork s ra lv = .ok s') : MoneyEq s s' := by
  unfold hardFork at e
  split at e
  · cases e
  · split at e
    · cases e
    · split at e
      · cases e
      · split at e
        · cases e
        · dsimp only at e
          injection e with e; subst e
          unfold resetClock
          refine MoneyEq.trans ?_ (seqOnHardFork_money _ _)
          exact ⟨rfl, rfl, rfl⟩

theorem hardForkToLatest_money {s s' : St} {ra : Nat} (e : hardForkToLatest s ra = .ok s') : MoneyEq s s' := by
  unfold hardForkToLatest at e
  split at e
  · cases e
  · split at e
    · cases e
    · exact hardFork_money e

-- ---------------------------------------------------------------- token frames of the remaining handlers

theorem recoverFromSentinel_tok {s s' : St} {ra : Nat} (e : recoverFromSentinel s ra = .ok s') : TokFrame s s' :=
  TokFrame.of_seqs (recoverFromSentinel_seqs e).1

theorem onProposerLastBlock_tok {s s' : St} {q : Seq} (e : onProposerLastBlock s q = .ok s') : TokFrame s s' := by
  unfold onProposerLastBlock at e
  split at e
  · cases e
  · split at e
    · cases e
    · dsimp only at e
      split at e
      · exact (TokFrame.of_seqs (s := s) (s' := setRa s _) rfl).trans (hardForkToLatest_tok e)
      · injection e with e; subst e
        exact TokFrame.of_seqs ((afterSetRealProposer_seqs (setRa s _) _ _).1)

theorem seqAfterUpdate_tok {s s' : St} {m : UpdMsg} {b : Bool} (e : seqAfterUpdate s m b = .ok s') : TokFrame s s' := by
  unfold seqAfterUpdate at e
  split at e
  · cases e
  · rename_i prop hg
    dsimp only at e
    have hpa : prop.addr = m.sender := getSeq_addr hg
    have f1 : TokFrame s (setSeq s { prop with dishonor := prop.dishonor - min s.sqp.dishonorSU prop.dishonor }) :=
      TokFrame.setSeq (q0 := prop) (by show getSeq s prop.addr = some prop; rw [hpa]; exact hg) rfl
    split at e
    · exact f1.trans (onProposerLastBlock_tok e)
    · injection e with e; subst e; exact f1

theorem updateState_tok {s s' : St} {m : UpdMsg} (e : updateState s m = .ok s') : TokFrame s s' := by
  unfold updateState at e
  repeat' split at e
  all_goals first
    | (cases e; done)
    | skip
  rename_i _ s3 h3
  dsimp only at e
  split at e
  · cases e
  injection e with e; subst e
  have h3' := (TokFrame.of_seqs (s := s) (s' := setRa s _) rfl).trans (seqAfterUpdate_tok h3)
  exact h3'.trans (TokFrame.of_seqs (s := s3) ((indicateLiveness_seqs _ _).1))

theorem optIn_tok {s s' : St} {a : Addr} {v : Bool} (e : optIn s a v = .ok s') : TokFrame s s' := by
  unfold optIn at e
  split at e
  · cases e
  · rename_i q hg
    split at e
    · cases e
    · dsimp only at e
      have hqa : q.addr = a := getSeq_addr hg
      have f1 : TokFrame s (setSeq s { q with optedIn := v }) :=
        TokFrame.setSeq (q0 := q) (by show getSeq s q.addr = some q; rw [hqa]; exact hg) rfl
      split at e
      · cases e
      · split at e
        · exact f1.trans (recoverFromSentinel_tok e)
        · injection e with e; subst e; exact f1

theorem kick_tok {s s' : St} {a : Addr} (e : kick s a = .ok s') : TokFrame s s' := by
  unfold kick at e
  split at e
  · cases e
  · rename_i kicker hgk
    split at e
    · cases e
    · split at e
      · cases e
      · rename_i r hgr
        split at e
        · cases e
        · split at e
          · cases e
          · split at e
            · cases e
            · split at e
              · cases e
              · dsimp only at e
                split at e
                · cases e
                · rename_i s3 h3
                  have f3 : TokFrame s s3 := (abruptRemoveProposer_tok s r.id).trans (hardForkToLatest_tok h3)
                  have hka : kicker.addr = a := getSeq_addr hgk
                  have tf := f3 a
                  rw [hgk] at tf
                  cases hq : getSeq s3 a with
                  | none => rw [hq] at tf; cases tf
                  | some q3 =>
                    rw [hq] at tf
                    have ht : kicker.tokens = q3.tokens := by
                      have : q3.tokens = kicker.tokens := by simpa using tf
                      omega
                    have f4 : TokFrame s3 (setSeq s3 { kicker with optedIn := true }) :=
                      TokFrame.setSeq (q0 := q3) (by show getSeq s3 kicker.addr = some q3; rw [hka]; exact hq) ht
                    exact (f3.trans f4).trans (recoverFromSentinel_tok e)

theorem markObsolete_tok {s s' : St} {au : Bool} {vs : List Nat} (e : markObsolete s au vs = .ok s') : TokFrame s s' := by
  unfold markObsolete at e
  split at e
  · cases e
  · split at e
    · cases e
    · dsimp only at e
      injection e with e; subst e
      apply foldl_inv (TokFrame s)
      · exact TokFrame.of_seqs rfl
      · intro b r0 hb
        split
        · exact hb
        · split
          · exact hb
          · split
            · split
              · rename_i a ha; exact hb.trans (hardForkToLatest_tok ha)
              · exact hb
            · exact hb

theorem beginBlock_seqs' (s : St) (dt : Nat) : (beginBlock s dt).seqs = s.seqs := by
  unfold beginBlock
  dsimp only
  apply foldl_inv (fun x : St => x.seqs = s.seqs)
  · rfl
  · intro b e hb
    split
    · exact hb
    · split
      · exact hb
      · exact hb

theorem getSeq_insert_fresh {s1 : St} {q1 : Seq} {a : Addr} (hne : q1.addr ≠ a) :
    getSeq { s1 with seqs := insertSorted (fun x y => decide (x.addr < y.addr)) q1 s1.seqs } a = getSeq s1 a := by
  unfold getSeq
  dsimp only
  induction s1.seqs with
  | nil =>
    have h0 : (q1.addr == a) = false := by simp [hne]
    simp [insertSorted, h0]
  | cons x xs ih =>
    unfold insertSorted
    have h0 : (q1.addr == a) = false := by simp [hne]
    split
    · simp only [List.find?_cons, h0]
    · split
      · simp only [List.find?_cons]
        cases (x.addr == a) with
        | true => rfl
        | false => exact ih
      · rename_i h1 h2
        have hxa : x.addr = q1.addr := by
          have a1 : ¬ q1.addr < x.addr := by simpa using h1
          have a2 : ¬ x.addr < q1.addr := by simpa using h2
          exact Nat.le_antisymm (Nat.le_of_not_lt a1) (Nat.le_of_not_lt a2)
        simp only [List.find?_cons, h0]
        have : (x.addr == a) = false := by simp [hxa, hne]
        simp only [this]

theorem createSeq_noDec {s s' : St} {a : Addr} {ra bond : Nat} {d : Bool} (e : createSeq s a ra bond d = .ok s') : NoDec s s' := by
  unfold createSeq at e
  split at e
  · cases e
  · rename_i r hg
    split at e
    · cases e
    · rename_i hex
      have hnone : getSeq s a = none := by
        cases hx : getSeq s a with
        | none => rfl
        | some _ => simp [hx] at hex
      split at e
      · cases e
      · split at e
        · cases e
        · split at e
          · cases e
          · dsimp only at e
            have hs0 : (if r.launched = true then s else setRa s { r with launched := true }).seqs = s.seqs := by
              split <;> rfl
            split at e
            · cases e
            · rename_i s1 q1 hs
              have sp := sendToModule_spec hs
              have hq1a : q1.addr = a := sp.2.2.2
              have f2 : NoDec s { s1 with seqs := insertSorted (fun x y => decide (x.addr < y.addr)) q1 s1.seqs } := by
                intro b q hq
                have hb : q1.addr ≠ b := by
                  intro hh; rw [hq1a] at hh; subst hh; rw [hnone] at hq; cases hq
                refine ⟨q, ?_, Nat.le_refl _⟩
                rw [getSeq_insert_fresh hb, getSeq_congr (sp.1.trans hs0)]; exact hq
              split at e
              · cases e
              · split at e
                · exact f2.trans (recoverFromSentinel_tok e).noDec
                · injection e with e; subst e; exact f2

theorem increaseBond_noDec {s s' : St} {a : Addr} {amt : Nat} {d : Bool} (e : increaseBond s a amt d = .ok s') : NoDec s s' := by
  unfold increaseBond at e
  split at e
  · cases e
  · rename_i q hg
    split at e
    · cases e
    · split at e
      · cases e
      · split at e
        · cases e
        · rename_i s1 q1 hs
          have sp := sendToModule_spec hs
          injection e with e; subst e
          have hqa : q.addr = a := getSeq_addr hg
          intro b qb hb
          by_cases hba : q1.addr = b
          · subst hba
            have hq1 : getSeq s1 q1.addr = some q := by
              rw [getSeq_congr sp.1, sp.2.2.2, hqa]; exact hg
            have : qb = q := by
              rw [sp.2.2.2, hqa, hg] at hb; cases hb; rfl
            subst this
            exact ⟨q1, getSeq_setSeq_self hq1, by rw [sp.2.2.1]; omega⟩
          · exact ⟨qb, by rw [getSeq_setSeq_other hba, getSeq_congr sp.1]; exact hb, Nat.le_refl _⟩

-- ---------------------------------------------------------------- withdrawals

/-- `a` withdrew: its bond went down by what its bank balance went up and the module account went down;
    nobody else's record or balance changed, nothing was burned -/
structure Withdrawn (s s' : St) (a : Addr) : Prop where
  others : ∀ b, b ≠ a → getSeq s' b = getSeq s b
  ex : ∃ q q', getSeq s a = some q ∧ getSeq s' a = some q' ∧ q'.tokens ≤ q.tokens ∧
      getBal s'.bal a = getBal s.bal a + (q.tokens - q'.tokens) ∧ s'.modBal + (q.tokens - q'.tokens) = s.modBal
  otherBal : ∀ b, b ≠ a → getBal s'.bal b = getBal s.bal b
  burned : s'.burned = s.burned

theorem tryUnbond_money {s s1 : St} {q q1 : Seq} {amt : Nat} (e : tryUnbond s q amt = .ok (s1, q1)) :
    s1.seqs = s.seqs ∧ q1.addr = q.addr ∧ q1.tokens + amt = q.tokens ∧ s1.modBal + amt = s.modBal ∧ s1.burned = s.burned ∧
    s1.bal = setBal s.bal q.addr (getBal s.bal q.addr + amt) := by
  unfold tryUnbond at e
  split at e
  · cases e
  · split at e
    · cases e
    · split at e
      · cases e
      · dsimp only at e
        split at e
        · cases e
        · split at e
          · cases e
          · rename_i s0 q0 h0
            have sp := sendFromModule_spec h0
            have hm : s0.burned = s.burned ∧ s0.bal = setBal s.bal q.addr (getBal s.bal q.addr + amt) := by
              unfold sendFromModule at h0
              split at h0
              · cases h0
              · split at h0
                · cases h0
                · split at h0
                  · cases h0
                  · injection h0 with h0; injection h0 with e1 _; subst e1; exact ⟨rfl, rfl⟩
            injection e with e; injection e with e1 e2; subst e1; subst e2
            have ht : (if q0.tokens = 0 then { q0 with bonded := false } else q0).tokens = q0.tokens := by split <;> rfl
            have ha : (if q0.tokens = 0 then { q0 with bonded := false } else q0).addr = q0.addr := by split <;> rfl
            exact ⟨sp.1, by rw [ha]; exact sp.2.2.2, by rw [ht]; exact sp.2.2.1, sp.2.1, hm.1, hm.2⟩

/-- writing back the record a successful `tryUnbond` returned -/
theorem withdrawn_of_tryUnbond {s s1 : St} {q0 q q1 : Seq} {a : Addr} {amt : Nat} (hg : getSeq s a = some q0)
    (hqa : q.addr = a) (hqt : q.tokens = q0.tokens) (e : tryUnbond s q amt = .ok (s1, q1)) : Withdrawn s (setSeq s1 q1) a := by
  have sp := tryUnbond_money e
  have hq1a : q1.addr = a := sp.2.1.trans hqa
  have hd : q0.tokens - q1.tokens = amt := by have := sp.2.2.1; omega
  refine ⟨?_, ⟨q0, q1, hg, ?_, by have := sp.2.2.1; omega, ?_, ?_⟩, ?_, ?_⟩
  · intro b hb
    rw [getSeq_setSeq_other (by rw [hq1a]; exact Ne.symm hb), getSeq_congr sp.1]
  · have : getSeq s1 q1.addr = some q0 := by rw [getSeq_congr sp.1, hq1a]; exact hg
    rw [← hq1a]; exact getSeq_setSeq_self this
  · show getBal s1.bal a = _
    rw [sp.2.2.2.2.2, hqa, getBal_setBal, hd]
  · show s1.modBal + _ = _
    rw [hd]; exact sp.2.2.2.1
  · intro b hb
    show getBal s1.bal b = _
    rw [sp.2.2.2.2.2, hqa, getBal_setBal_other _ _ _ _ hb]
  · exact sp.2.2.2.2.1

theorem decreaseBond_withdrawn {s s' : St} {a : Addr} {amt : Nat} (e : decreaseBond s a amt = .ok s') : Withdrawn s s' a := by
  unfold decreaseBond at e
  split at e
  · cases e
  · rename_i q hg
    split at e
    · cases e
    · split at e
      · cases e
      · rename_i s1 q1 hs
        injection e with e; subst e
        exact withdrawn_of_tryUnbond hg (getSeq_addr hg) rfl hs

theorem unbond_withdrawn {s s' : St} {a : Addr} (e : unbond s a = .ok s') : Withdrawn s s' a := by
  unfold unbond at e
  split at e
  · cases e
  · rename_i q hg
    have hqa : q.addr = a := getSeq_addr hg
    split at e
    · cases e
    · split at e
      · cases e
      · split at e
        · split at e
          · cases e
          · split at e
            · cases e
            · injection e with e; subst e
              -- the proposer starts its notice period: nothing is paid
              have hg0 : getSeq { s with nq := insertSorted ltPair (s.t + s.sqp.noticePeriod, a) s.nq } q.addr = some q := by
                rw [hqa]; exact hg
              refine ⟨?_, ⟨q, { q with optedIn := false, notice := some (s.t + s.sqp.noticePeriod) }, hg, ?_, Nat.le_refl _, ?_, ?_⟩, ?_, rfl⟩
              · intro b hb
                rw [getSeq_setSeq_other (show ({ q with optedIn := false, notice := some (s.t + s.sqp.noticePeriod) } : Seq).addr ≠ b by
                  show q.addr ≠ b; rw [hqa]; exact Ne.symm hb)]
                rfl
              · rw [← hqa]
                exact getSeq_setSeq_self (q := { q with optedIn := false, notice := some (s.t + s.sqp.noticePeriod) }) hg0
              · show getBal s.bal a = getBal s.bal a + (q.tokens - q.tokens); omega
              · show s.modBal + (q.tokens - q.tokens) = s.modBal; omega
              · intro b _; rfl
        · split at e
          · cases e
          · rename_i s1 q1 hs
            injection e with e; subst e
            exact withdrawn_of_tryUnbond (q := { q with optedIn := false }) hg hqa rfl hs

-- ---------------------------------------------------------------- punishment

/-- where the money of a slash goes: `paid` to the rewardee (only if one is named), the rest burned -/
theorem slash_money {s s1 : St} {q q1 : Seq} {amt : Nat} {mul : Dec} {rw : Option Addr}
    (e : slash s q amt mul rw = .ok (s1, q1)) :
    ∃ paid, (paid = 0 ∨ paid = ((mul.mulInt amt).truncateInt).toNat) ∧
      s1.seqs = s.seqs ∧ q1.addr = q.addr ∧
      q1.tokens + (paid + (amt - paid)) = q.tokens ∧ s1.modBal + (paid + (amt - paid)) = s.modBal ∧
      s1.burned = s.burned + (amt - paid) ∧
      ∀ b, getBal s1.bal b = getBal s.bal b + (if rw = some b then paid else 0) := by
  unfold slash at e
  dsimp only at e
  split at e
  · cases e
  · rename_i s0 q0 h0
    have hb := burn_spec e
    have hbm : s1.burned = s0.burned + (amt - ((mul.mulInt amt).truncateInt).toNat) ∧ s1.bal = s0.bal := by
      unfold burn at e
      split at e
      · cases e
      · split at e
        · cases e
        · injection e with e; injection e with e1 _; subst e1; exact ⟨rfl, rfl⟩
    split at h0
    · rename_i hz
      injection h0 with h0; injection h0 with h1 h2; subst h1; subst h2
      refine ⟨0, Or.inl rfl, hb.1, hb.2.2.2, ?_, ?_, ?_, ?_⟩
      · have := hb.2.2.1; rw [hz] at this; omega
      · have := hb.2.1; rw [hz] at this; omega
      · rw [hbm.1, hz]
      · intro b; rw [hbm.2]; split <;> rfl
    · split at h0
      · rename_i to
        have sp := sendFromModule_spec h0
        have hm : s0.burned = s.burned ∧ s0.bal = setBal s.bal to (getBal s.bal to + ((mul.mulInt amt).truncateInt).toNat) := by
          unfold sendFromModule at h0
          split at h0
          · cases h0
          · split at h0
            · cases h0
            · split at h0
              · cases h0
              · injection h0 with h0; injection h0 with e1 _; subst e1; exact ⟨rfl, rfl⟩
        refine ⟨((mul.mulInt amt).truncateInt).toNat, Or.inr rfl, hb.1.trans sp.1, hb.2.2.2.trans sp.2.2.2, ?_, ?_, ?_, ?_⟩
        · have := hb.2.2.1; have := sp.2.2.1; omega
        · have := hb.2.1; have := sp.2.1; omega
        · rw [hbm.1, hm.1]
        · intro b
          rw [hbm.2, hm.2]
          by_cases hbt : to = b
          · subst hbt; simp [getBal_setBal]
          · have : ¬ (some to = some b) := by intro h; injection h with h; exact hbt h
            rw [if_neg this, getBal_setBal_other _ _ _ _ (Ne.symm hbt)]; rfl
      · cases h0

/-- `a` was punished: its whole decrease left the module account; `paid` of it went to the rewardee, the
    rest was burned; other records keep their bonds -/
structure Punished (s s' : St) (a : Addr) (rw : Option Addr) (mulTrunc : Nat → Nat) : Prop where
  others : ∀ b, b ≠ a → (getSeq s' b).map (·.tokens) = (getSeq s b).map (·.tokens)
  ex : ∃ q q' paid, getSeq s a = some q ∧ getSeq s' a = some q' ∧ q'.tokens ≤ q.tokens ∧
      (paid = 0 ∨ paid = mulTrunc q.tokens) ∧ paid * 2 ≤ q.tokens - q'.tokens ∧
      s'.modBal + (q.tokens - q'.tokens) = s.modBal ∧ s'.burned = s.burned + (q.tokens - q'.tokens - paid) ∧
      ∀ b, getBal s'.bal b = getBal s.bal b + (if rw = some b then paid else 0)

/-- the reward share of `PunishSequencer`: half the bond, truncated, when a rewardee is named -/
def punishShare (rw : Option Addr) (tokens : Nat) : Nat :=
  ((Dec.mulInt (match rw with | some _ => ⟨500000000000000000⟩ | none => ⟨0⟩) (tokens : Int)).truncateInt).toNat

theorem half_le (tokens : Nat) :
    ((Dec.mulInt ⟨500000000000000000⟩ (tokens : Int)).truncateInt).toNat * 2 ≤ tokens := by
  unfold Dec.mulInt Dec.truncateInt chopTrunc decP
  simp only
  have h : ((500000000000000000 : Int) * (tokens : Int)).tdiv 1000000000000000000 = ((tokens : Int) / 2) := by
    rw [Int.tdiv_eq_ediv_of_nonneg (by omega)]
    omega
  rw [h]; omega

theorem punishShare_le (rw : Option Addr) (tokens : Nat) : punishShare rw tokens * 2 ≤ tokens := by
  unfold punishShare
  cases rw with
  | some _ => exact half_le tokens
  | none =>
    show ((Dec.mulInt ⟨0⟩ (tokens : Int)).truncateInt).toNat * 2 ≤ tokens
    unfold Dec.mulInt Dec.truncateInt chopTrunc decP
    simp

theorem punish_punished {s s' : St} {a : Addr} {rw : Option Addr} (e : punish s a rw = .ok s') :
    Punished s s' a rw (punishShare rw) := by
  unfold punish at e
  split at e
  · cases e
  · rename_i q hg
    dsimp only at e
    split at e
    · cases e
    · rename_i s1 q1 hs
      have hqa : q.addr = a := getSeq_addr hg
      obtain ⟨paid, hp, hseqs, hq1a, htok, hmod, hburn, hbal⟩ := slash_money hs
      injection e with e; subst e
      have hq1a' : q1.addr = a := hq1a.trans hqa
      have hple : paid * 2 ≤ q.tokens := by
        rcases hp with h | h
        · omega
        · rw [h]; exact punishShare_le rw q.tokens
      refine ⟨?_, ⟨q, q1, paid, hg, ?_, by omega, ?_, by omega, ?_, ?_, hbal⟩⟩
      · intro b hb
        rw [getSeq_setSeq_other (by rw [hq1a']; exact Ne.symm hb), getSeq_congr hseqs]
      · have : getSeq s1 q1.addr = some q := by rw [getSeq_congr hseqs, hq1a']; exact hg
        rw [← hq1a']; exact getSeq_setSeq_self this
      · rcases hp with h | h
        · exact Or.inl h
        · exact Or.inr h
      · show s1.modBal + _ = _; omega
      · show s1.burned = _; rw [hburn]; omega

theorem fraud_cases {s s' : St} {au : Bool} {ra hh rev : Nat} {p rw : Option Addr}
    (e : fraud s au ra hh rev p rw = .ok s') :
    (p = none ∧ TokFrame s s') ∨ (∃ a, p = some a ∧ Punished s s' a rw (punishShare rw)) := by
  unfold fraud at e
  split at e
  · cases e
  · split at e
    · cases e
    · split at e
      · cases e
      · split at e
        · cases e
        · dsimp only at e
          split at e
          · cases e
          · rename_i s1 h1
            have tf := hardFork_tok e
            have mo := hardFork_money e
            cases p with
            | none =>
              simp only at h1
              injection h1 with h1; subst h1
              exact Or.inl ⟨rfl, tf⟩
            | some a =>
              simp only at h1
              have pp := punish_punished h1
              refine Or.inr ⟨a, rfl, ?_, ?_⟩
              · intro b hb; rw [tf b, pp.others b hb]
              · obtain ⟨q, q1, paid, hq, hq1, hle, hp, hpl, hm, hbn, hbal⟩ := pp.ex
                have := tf a
                rw [hq1] at this
                cases hq' : getSeq s' a with
                | none => rw [hq'] at this; cases this
                | some q' =>
                  rw [hq'] at this
                  have et : q'.tokens = q1.tokens := by simpa using this
                  refine ⟨q, q', paid, hq, rfl, by omega, hp, by omega, ?_, ?_, ?_⟩
                  · rw [mo.modBal, et]; exact hm
                  · rw [mo.burned, et]; exact hbn
                  · intro b; rw [mo.bal]; exact hbal b

-- ---------------------------------------------------------------- block end

/-- what a block end may do to bonds: whatever leaves the module account is burned, no bank balance changes,
    no bond grows, and every single bond decrease is covered by the burn -/
structure Burnt (s s' : St) : Prop where
  bal : s'.bal = s.bal
  conserve : s'.modBal + s'.burned = s.modBal + s.burned
  mono : s.burned ≤ s'.burned
  tok : ∀ a q', getSeq s' a = some q' → ∃ q, getSeq s a = some q ∧ q'.tokens ≤ q.tokens ∧
      q.tokens + s.burned ≤ q'.tokens + s'.burned

theorem Burnt.refl (s : St) : Burnt s s := ⟨rfl, rfl, Nat.le_refl _, fun _ q' h => ⟨q', h, Nat.le_refl _, Nat.le_refl _⟩⟩

theorem Burnt.trans {a b c : St} (h1 : Burnt a b) (h2 : Burnt b c) : Burnt a c := by
  refine ⟨h2.bal.trans h1.bal, by have := h1.conserve; have := h2.conserve; omega, Nat.le_trans h1.mono h2.mono, ?_⟩
  intro x q2 hq2
  obtain ⟨q1, hq1, l1, m1⟩ := h2.tok x q2 hq2
  obtain ⟨q0, hq0, l0, m0⟩ := h1.tok x q1 hq1
  exact ⟨q0, hq0, by omega, by omega⟩

theorem Burnt.of_eq {s s' : St} (e1 : s'.seqs = s.seqs) (e2 : s'.bal = s.bal) (e3 : s'.modBal = s.modBal)
    (e4 : s'.burned = s.burned) : Burnt s s' :=
  ⟨e2, by rw [e3, e4], by rw [e4]; exact Nat.le_refl _, fun a q' h => ⟨q', by rw [← getSeq_congr e1]; exact h, Nat.le_refl _, by rw [e4]; exact Nat.le_refl _⟩⟩

theorem finalizeOne_frame {s s' : St} {fails : List (Nat × Nat)} {ra idx : Nat}
    (e : finalizeOne s fails ra idx = some s') : s'.seqs = s.seqs ∧ MoneyEq s s' := by
  unfold finalizeOne at e
  split at e
  · cases e
  · split at e
    · cases e
    · split at e
      · cases e
      · split at e
        · cases e
        · dsimp only at e
          injection e with e; subst e
          exact ⟨rfl, rfl, rfl, rfl⟩

theorem finalizeEntry_go_frame (fails : List (Nat × Nat)) (e : QEntry) (l : List Nat) (s : St) :
    (finalizeEntry.go fails e s l).1.seqs = s.seqs ∧ MoneyEq s (finalizeEntry.go fails e s l).1 := by
  induction l generalizing s with
  | nil => unfold finalizeEntry.go; exact ⟨rfl, rfl, rfl, rfl⟩
  | cons i rest ih =>
    unfold finalizeEntry.go
    split
    · rename_i s1 h1
      have a := finalizeOne_frame h1
      have b := ih s1
      exact ⟨b.1.trans a.1, a.2.trans b.2⟩
    · exact ⟨rfl, rfl, rfl, rfl⟩

theorem finalizeAll_frame (fails : List (Nat × Nat)) (es : List QEntry) (failed : List Nat) (s : St) :
    (finalizeAll s fails es failed).seqs = s.seqs ∧ MoneyEq s (finalizeAll s fails es failed) := by
  induction es generalizing s failed with
  | nil => unfold finalizeAll; exact ⟨rfl, rfl, rfl, rfl⟩
  | cons e es ih =>
    unfold finalizeAll
    split
    · exact ih _ _
    · have a := finalizeEntry_go_frame fails e e.idx s
      unfold finalizeEntry
      have b := ih (if (finalizeEntry.go fails e s e.idx).2 = true then failed else e.ra :: failed) (finalizeEntry.go fails e s e.idx).1
      exact ⟨b.1.trans a.1, a.2.trans b.2⟩

theorem finalizeRollappStates_burnt (s : St) (fails : List (Nat × Nat)) : Burnt s (finalizeRollappStates s fails) := by
  unfold finalizeRollappStates
  split
  · exact Burnt.refl s
  · have := finalizeAll_frame fails (s.queue.filter (fun e => e.ch ≤ s.h - s.p.dispute)) [] s
    exact Burnt.of_eq this.1 this.2.bal this.2.modBal this.2.burned

/-- a slash without rewardee: everything it takes is burned -/
theorem slash_none {s s1 : St} {q q1 : Seq} {amt : Nat} {mul : Dec} (e : slash s q amt mul none = .ok (s1, q1)) :
    s1.seqs = s.seqs ∧ q1.addr = q.addr ∧ q1.tokens ≤ q.tokens ∧ s1.bal = s.bal ∧
    s1.modBal + (q.tokens - q1.tokens) = s.modBal ∧ s1.burned = s.burned + (q.tokens - q1.tokens) := by
  unfold slash at e
  dsimp only at e
  split at e
  · cases e
  · rename_i s0 q0 h0
    have hb := burn_spec e
    have hbm : s1.burned = s0.burned + (amt - ((mul.mulInt amt).truncateInt).toNat) ∧ s1.bal = s0.bal := by
      unfold burn at e
      split at e
      · cases e
      · split at e
        · cases e
        · injection e with e; injection e with e1 _; subst e1; exact ⟨rfl, rfl⟩
    split at h0
    · injection h0 with h0; injection h0 with h1 h2; subst h1; subst h2
      refine ⟨hb.1, hb.2.2.2, by have := hb.2.2.1; omega, hbm.2, ?_, ?_⟩
      · have := hb.2.2.1; have := hb.2.1; omega
      · rw [hbm.1]; have := hb.2.2.1; omega
    · cases h0

theorem slashLiveness_burnt {s s1 : St} {r : Rollapp} (e : slashLiveness s r = .ok s1) : Burnt s s1 := by
  unfold slashLiveness at e
  split at e
  · injection e with e; subst e; exact Burnt.refl s
  · split at e
    · injection e with e; subst e; exact Burnt.refl s
    · rename_i _ a _ _ q hg
      split at e
      · cases e
      · rename_i s2 q2 hsl
        obtain ⟨hseqs, hq2a, hle, hbal, hmod, hburn⟩ := slash_none hsl
        injection e with e; subst e
        have hqa : q.addr = a := getSeq_addr hg
        refine ⟨hbal, ?_, ?_, ?_⟩
        · show s2.modBal + s2.burned = _; rw [hburn]; omega
        · show s.burned ≤ s2.burned; rw [hburn]; omega
        · intro b qb hb
          by_cases hba : q2.addr = b
          · subst hba
            have hg2 : getSeq s2 q2.addr = some q := by rw [getSeq_congr hseqs, hq2a, hqa]; exact hg
            rw [getSeq_setSeq_self (q := { q2 with dishonor := q2.dishonor + s2.sqp.dishonorL }) (q0 := q) hg2] at hb
            cases hb
            refine ⟨q, by rw [hq2a, hqa]; exact hg, ?_, ?_⟩
            · show q2.tokens ≤ q.tokens; exact hle
            · show q.tokens + s.burned ≤ q2.tokens + s2.burned
              rw [hburn]; omega
          · have : ({ q2 with dishonor := q2.dishonor + s2.sqp.dishonorL } : Seq).addr ≠ b := hba
            rw [getSeq_setSeq_other this, getSeq_congr hseqs] at hb
            exact ⟨qb, hb, Nat.le_refl _, by show qb.tokens + s.burned ≤ qb.tokens + s2.burned; rw [hburn]; omega⟩

theorem handleLivenessEvent_burnt (s : St) (ra : Nat) : Burnt s (handleLivenessEvent s ra) := by
  unfold handleLivenessEvent
  split
  · exact Burnt.refl s
  · split
    · exact Burnt.refl s
    · rename_i s1 hs1
      have h1 := slashLiveness_burnt hs1
      split
      · exact Burnt.refl s
      · unfold scheduleEvent
        exact h1.trans (Burnt.of_eq rfl rfl rfl rfl)

theorem endBlock_burnt (s : St) (fails : List (Nat × Nat)) : Burnt s (endBlock s fails) := by
  unfold endBlock checkLiveness
  apply foldl_inv (Burnt s)
  · exact finalizeRollappStates_burnt s fails
  · intro b e hb; exact hb.trans (handleLivenessEvent_burnt b e.2)

-- ---------------------------------------------------------------- the classification, one step

/-- every op other than a withdrawal, a fraud punishment, a punish proposal or a block end lowers no bond -/
theorem apply_noDec {s s' : St} {o : Op} (e : apply s o = .ok s')
    (h1 : ∀ a amt, o ≠ .bondDec a amt) (h2 : ∀ a, o ≠ .unbond a)
    (h3 : ∀ au ra hh rev a rw, o ≠ .fraud au ra hh rev (some a) rw) (h4 : ∀ f, o ≠ .end_ f)
    (h5 : ∀ au a rw, o ≠ .punish au a rw) : NoDec s s' := by
  cases o with
  | createRollapp id owner mb =>
    simp only [apply] at e
    split at e
    · cases e
    · injection e with e; subst e; exact (TokFrame.of_seqs rfl).noDec
  | bridge ra hh =>
    simp only [apply] at e
    split at e
    · cases e
    · split at e
      · cases e
      · split at e
        · cases e
        · injection e with e; subst e; exact (TokFrame.of_seqs rfl).noDec
  | fund a amt => simp only [apply] at e; injection e with e; subst e; exact (TokFrame.of_seqs rfl).noDec
  | createSeq a ra b d => exact createSeq_noDec e
  | bondInc a amt d => exact increaseBond_noDec e
  | bondDec a amt => exact absurd rfl (h1 a amt)
  | unbond a => exact absurd rfl (h2 a)
  | optIn a v => exact (optIn_tok e).noDec
  | kick a => exact (kick_tok e).noDec
  | update m => exact (updateState_tok e).noDec
  | fraud au ra hh rev p rw =>
    rcases fraud_cases e with ⟨_, tf⟩ | ⟨a, hp, _⟩
    · exact tf.noDec
    · subst hp; exact absurd rfl (h3 au ra hh rev a rw)
  | obsolete au vs => exact (markObsolete_tok e).noDec
  | punish au a rw => exact absurd rfl (h5 au a rw)
  | transferOwner sg ra' no =>
    obtain ⟨r, hg, _, _, _, rfl⟩ := transferOwner_ok e
    exact (TokFrame.of_seqs rfl).noDec
  | setSeqParams au sp =>
    obtain ⟨_, hnp, _, rfl⟩ := setSeqParams_ok e
    exact (TokFrame.of_seqs rfl).noDec
  | begin_ dt => simp only [apply] at e; injection e with e; subst e; exact (TokFrame.of_seqs (beginBlock_seqs' s dt)).noDec
  | end_ f => exact absurd rfl (h4 f)

end DymVerif.Core
