/-
  Lemmas/GenEqIro — the regenerated translation of the x/iro pure functions (`Gen/Iro.lean`,
  rewritten from /repo's working tree by every check) equals the hand-written model the C13
  theorems are about.  A semantic change to one of these Go functions changes the generated term
  and breaks the corresponding lemma here (this is how the repairs of F5 — exact-spend result scaled by
  the supply decimals — and F16 — truncated vesting ratio — showed up: `iro_tokensForExactIn_eq` and
  `iro_vestedAmt_eq` stopped checking until the model followed).
-/
import DymVerif.Gen.Iro
import DymVerif.Lemmas.IroArith
namespace DymVerif.GenEq
open DymVerif DymVerif.Iro

theorem iro_scaleFromBase_eq : Gen.Iro.scaleFromBase = Iro.scaleFromBase := rfl

theorem iro_scaleToBase_eq : Gen.Iro.scaleToBase = Iro.scaleToBase := rfl

/-- `BondingCurve.Cost` with 18 supply decimals, the integral being the oracle `I` on raw values -/
theorem iro_cost_eq (I : Int → Int) (L : Nat) (x x1 : Int) :
    Gen.Iro.cost (fun d => ⟨I d.raw⟩) 18 L x x1 = Iro.cost I L x x1 := by
  have e0 : pow10 (18 - 18) = 1 := by decide
  simp [Gen.Iro.cost, Iro.cost, Gen.Iro.scaleFromBase, Gen.Iro.scaleToBase, Iro.scaleToBase, e0]

/-- `BondingCurve.TokensForExactInAmount` with 18 supply decimals — including which decimals the
    Newton result is converted with (the supply's) -/
theorem iro_tokensForExactIn_eq (T : Int → Int → Option Int) (L : Nat) (currX spendAmt : Int) :
    Gen.Iro.tokensForExactInAmount T 18 L currX spendAmt = Iro.tokensForExactIn T L currX spendAmt := by
  unfold Gen.Iro.tokensForExactInAmount Iro.tokensForExactIn
  simp only [iro_scaleFromBase_eq, iro_scaleToBase_eq, Dec.one, Int.not_lt]
  by_cases h1 : (Iro.scaleFromBase currX 18).raw < decP
  · simp [h1]
  · by_cases h2 : spendAmt ≤ 0
    · simp [h1, h2]
    · simp only [h1, h2, if_false]
      cases hT : T (Iro.scaleFromBase currX 18).raw (Iro.scaleFromBase spendAmt L).raw <;> rfl

theorem iro_findEquilibrium_eq (m n alloc : Int) (r : Dec) :
    Gen.Iro.findEquilibrium ⟨m⟩ ⟨n⟩ alloc r = Iro.findEquilibrium m n alloc r := by
  unfold Gen.Iro.findEquilibrium Iro.findEquilibrium
  rfl

theorem iro_applyTakerFee_eq : Gen.Iro.applyTakerFee = Iro.applyTakerFee := by
  funext amount fee isAdd
  unfold Gen.Iro.applyTakerFee Iro.applyTakerFee
  simp only [Int.not_lt]

/-- `checkPrecision(N)`: at most `MaxNPrecision` = 3 decimals ⇔ raw value divisible by 10^15 -/
theorem iro_checkPrecision_eq (n : Int) :
    Gen.Iro.checkPrecision ⟨n⟩ = decide (n % 1000000000000000 = 0) := by
  have e : n * (((10 : Int) ^ Gen.Iro.maxNPrecision.toNat) * decP) = (n * 1000) * decP := by
    have : ((10 : Int) ^ Gen.Iro.maxNPrecision.toNat) = 1000 := by decide
    rw [this, Int.mul_assoc]
  simp only [Gen.Iro.checkPrecision, Dec.mul, Dec.ofInt, e, chopRound_mul_decP]
  unfold decP
  by_cases h : n % 1000000000000000 = 0
  · simp [h]; omega
  · simp [h]; omega

/-- `BondingCurve.ValidateBasic` (with non-zero decimals) is the model's `curveValid` -/
theorem iro_validateBasic_eq (m n c : Int) (S L : Nat) (hS : S ≠ 0) (hL : L ≠ 0) :
    Gen.Iro.validateBasic ⟨m⟩ ⟨n⟩ ⟨c⟩ S L = Iro.curveValid m n c := by
  have e2 : (Dec.ofInt Gen.Iro.maxNValue).raw = 2000000000000000000 := by decide
  rw [Bool.eq_iff_iff]
  simp only [Iro.curveValid, Bool.and_eq_true, decide_eq_true_eq, Bool.or_eq_true, beq_iff_eq]
  unfold Gen.Iro.validateBasic
  simp only [iro_checkPrecision_eq, e2, decide_eq_true_eq]
  repeat' split
  all_goals simp only [Bool.false_eq_true, false_iff, true_iff]
  all_goals unfold decP
  all_goals omega

/-- `IROVestingPlan.VestedAmt`: the model returns `none` exactly where the Go code divides by zero
    (vesting window of length 0 at its single instant), and otherwise the translated value -/
theorem iro_vestedAmt_eq (v : Vest) (now : Int) :
    Iro.vestedAmt v now =
      if 0 < v.amount - v.claimed ∧ v.start ≤ now ∧ now ≤ v.stop ∧ v.stop - v.start = 0 then none
      else some (Gen.Iro.vestedAmt v now) := by
  unfold Iro.vestedAmt Gen.Iro.vestedAmt Iro.vestedTotal
  simp only []
  by_cases h1 : v.amount - v.claimed ≤ 0
  · rw [if_pos h1, if_neg (by omega), if_pos (by omega)]
  · rw [if_neg h1]
    by_cases h2 : now < v.start
    · rw [if_pos h2, if_neg (by omega), if_neg (by omega), if_pos h2]
    · rw [if_neg h2]
      by_cases h3 : v.stop < now
      · rw [if_pos h3, if_neg (by omega), if_neg (by omega), if_neg h2, if_pos h3]
      · rw [if_neg h3]
        by_cases h4 : v.stop - v.start = 0
        · rw [if_pos h4, if_pos (by omega)]
        · rw [if_neg h4, if_neg (by omega), if_neg (by omega), if_neg h2, if_neg h3]

theorem iro_minTokenAllocation_eq : Gen.Iro.minTokenAllocation.raw = 10 * Iro.oneToken := by decide

end DymVerif.GenEq
