/-
  Lemmas/GenEqSkCoreX — tie 1 for C01 C02 C06 C07 C08 (M-Core, Model/Core.lean): the normalised statement listing (translate/skel.go `listing`:
  every `if` / `for` / `switch` header, call, assignment and `return` in source order; comments, logging,
  events and error-message texts dropped) of EVERY function with a body in the files the property is
  anchored in, regenerated from /repo's working tree on every run (Gen/SkCoreX.lean), equals the listing
  the model was written and validated against.  A dropped or weakened guard, a reordered effect, a
  changed operand, a new early return, a new or vanished function breaks the corresponding lemma; the
  check then searches for a failing input with the harness' monitors (DESIGN.md §12.2).
-/
import DymVerif.Gen.SkCoreX
namespace DymVerif.GenEqSk.CoreX

/-- `AllInvariants` -/
theorem ra_AllInvariants_listing : Gen.SkCoreX.ra_AllInvariants =
  ["func AllInvariants(k Keeper) sdk.Invariant",
   "  return func#1",
   "    func#1 (ctx sdk.Context) (string, bool)",
   "      res, stop := RollappCountInvariant(k)(ctx)",
   "      if stop",
   "        return res, stop",
   "      res, stop = BlockHeightToFinalizationQueueInvariant(k)(ctx)",
   "      if stop",
   "        return res, stop",
   "      res, stop = RollappByEIP155KeyInvariant(k)(ctx)",
   "      if stop",
   "        return res, stop",
   "      res, stop = RollappFinalizedStateInvariant(k)(ctx)",
   "      if stop",
   "        return res, stop",
   "      res, stop = LivenessEventInvariant(k)(ctx)",
   "      if stop",
   "        return res, stop",
   "      return \"\", false"] := rfl

/-- `BlockHeightToFinalizationQueueInvariant` -/
theorem ra_BlockHeightToFinalizationQueueInvariant_listing : Gen.SkCoreX.ra_BlockHeightToFinalizationQueueInvariant =
  ["func BlockHeightToFinalizationQueueInvariant(k Keeper) sdk.Invariant",
   "  return func#1",
   "    func#1 (ctx sdk.Context) (string, bool)",
   "      var broken bool",
   "      var msg string",
   "      for _, rollapp := range k.GetAllRollapps(ctx)",
   "        if !k.IsRollappStarted(ctx, rollapp.RollappId)",
   "          continue",
   "        latestStateIdx, okLatest := k.GetLatestStateInfoIndex(ctx, rollapp.RollappId)",
   "        latestFinalizedStateIdx, okLatestFinalized := k.GetLatestFinalizedStateIndex(ctx, rollapp.RollappId)",
   "        if !okLatest && okLatestFinalized",
   "          msg += fmt.Sprintf(\"rollapp (%s) has latest finalized ix but not lastest ix\\n\", rollapp.RollappId)",
   "          broken = true",
   "          continue",
   "        if okLatest && okLatestFinalized",
   "          if latestStateIdx.Index < latestFinalizedStateIdx.Index",
   "            msg += fmt.Sprintf(\"rollapp has latest ix < latest finalized ix: latest: %d: latest finalized: %d: rollapp: %s\\n\", latestStateIdx.Index, latestFinalizedStateIdx.Index, rollapp.RollappId)",
   "            broken = true",
   "            continue",
   "        firstUnfinalizedStateIdx := latestFinalizedStateIdx.Index + 1",
   "        for i := firstUnfinalizedStateIdx; i <= latestStateIdx.Index; i++",
   "          stateInfo, found := k.GetStateInfo(ctx, rollapp.RollappId, i)",
   "          if !found",
   "            msg += fmt.Sprintf(\"rollapp (%s) have no stateInfo at index %d\\n\", rollapp.RollappId, i)",
   "            broken = true",
   "            continue",
   "          creationHeight := stateInfo.CreationHeight",
   "          val, found := k.GetFinalizationQueue(ctx, creationHeight, rollapp.RollappId)",
   "          if !found",
   "            msg += fmt.Sprintf(\"finalizationQueue (%d) have no block height\\n\", creationHeight)",
   "            broken = true",
   "            continue",
   "          found = slices.ContainsFunc(val.FinalizationQueue, func#2)",
   "            func#2 (idx types.StateInfoIndex) bool",
   "              return idx.Index == i",
   "          if !found",
   "            msg += fmt.Sprintf(\"rollapp (%s) have stateInfo at index %d not in the queue\\n\", rollapp.RollappId, i)",
   "            broken = true",
   "          found = slices.ContainsFunc(val.FinalizationQueue, func#3)",
   "            func#3 (idx types.StateInfoIndex) bool",
   "              return idx.RollappId != rollapp.RollappId",
   "          if found",
   "            msg += fmt.Sprintf(\"rollapp (%s) has stateInfo that doesn't not correspond to it\\n\", rollapp.RollappId)",
   "            broken = true",
   "        err := k.finalizationQueue.Walk(ctx, nil, func#4)",
   "          func#4 (key collections.Pair[uint64, string], value types.BlockHeightToFinalizationQueue) (stop bool, err error)",
   "            if key.K2() != rollapp.RollappId",
   "              return false, nil",
   "            if key.K2() != value.RollappId",
   "              return false, fmt.Errorf(rollapp.RollappId)",
   "            for _, idx := range value.FinalizationQueue",
   "              if idx.Index <= latestFinalizedStateIdx.Index",
   "                msg += fmt.Sprintf(`rollapp has index in queue which is already finalized: latest ix: %d, latest finalized index : %d, queue ix: %d, rollapp: %s`, latestStateIdx.Index, latestFinalizedStateIdx.Index, idx.Index, rollapp.RollappId)",
   "                broken = true",
   "            return false, nil",
   "        if err != nil",
   "          msg += fmt.Sprintf(\"error walking finalization queue: %s\\n\", err)",
   "          broken = true",
   "      return sdk.FormatInvariant(types.ModuleName, \"block-height-to-finalization-queue\", msg), broken"] := rfl

/-- `Keeper.AllSequencerHeightPairs` -/
theorem ra_Keeper_AllSequencerHeightPairs_listing : Gen.SkCoreX.ra_Keeper_AllSequencerHeightPairs =
  ["func (k Keeper) AllSequencerHeightPairs(ctx sdk.Context) ([]types.SequencerHeightPair, error)",
   "  ret := make([]types.SequencerHeightPair, 0)",
   "  err := k.seqToUnfinalizedHeight.Walk(ctx, nil, func#1)",
   "    func#1 (key collections.Pair[string, uint64]) (stop bool, err error)",
   "      ret = append(ret, types.SequencerHeightPair{Sequencer: key.K1(), Height: key.K2()})",
   "      return false, nil",
   "  return ret, err"] := rfl

/-- `Keeper.CanUnbond` -/
theorem ra_Keeper_CanUnbond_listing : Gen.SkCoreX.ra_Keeper_CanUnbond =
  ["func (k Keeper) CanUnbond(ctx sdk.Context, seq sequencertypes.Sequencer) error",
   "  rng := collections.NewPrefixedPairRange[string, uint64](seq.Address)",
   "  return k.seqToUnfinalizedHeight.Walk(ctx, rng, func#1)",
   "    func#1 (key collections.Pair[string, uint64]) (stop bool, err error)",
   "      return true, sequencertypes.ErrUnbondNotAllowed"] := rfl

/-- `Keeper.CheckLiveness` -/
theorem ra_Keeper_CheckLiveness_listing : Gen.SkCoreX.ra_Keeper_CheckLiveness =
  ["func (k Keeper) CheckLiveness(ctx sdk.Context)",
   "  h := ctx.BlockHeight()",
   "  events := k.GetLivenessEvents(ctx, &h)",
   "  for _, e := range events",
   "    err := osmoutils.ApplyFuncIfNoError(ctx, func#1)",
   "      func#1 (ctx sdk.Context) error",
   "        return k.HandleLivenessEvent(ctx, e)",
   "    if err != nil"] := rfl

/-- `Keeper.DelLivenessEvents` -/
theorem ra_Keeper_DelLivenessEvents_listing : Gen.SkCoreX.ra_Keeper_DelLivenessEvents =
  ["func (k Keeper) DelLivenessEvents(ctx sdk.Context, height int64, rollappID string)",
   "  store := ctx.KVStore(k.storeKey)",
   "  key := types.LivenessEventQueueKey(types.LivenessEvent{RollappId: rollappID, HubHeight: height})",
   "  store.Delete(key)"] := rfl

/-- `Keeper.DelSequencerHeight` -/
theorem ra_Keeper_DelSequencerHeight_listing : Gen.SkCoreX.ra_Keeper_DelSequencerHeight =
  ["func (k Keeper) DelSequencerHeight(ctx sdk.Context, seqAddr string, height uint64) error",
   "  return k.seqToUnfinalizedHeight.Remove(ctx, collections.Join(seqAddr, height))"] := rfl

/-- `Keeper.FinalizeAllPending` -/
theorem ra_Keeper_FinalizeAllPending_listing : Gen.SkCoreX.ra_Keeper_FinalizeAllPending =
  ["func (k Keeper) FinalizeAllPending(ctx sdk.Context, pendingQueues []types.BlockHeightToFinalizationQueue)",
   "  failedRollapps := make(map[string]struct{})",
   "  for _, queue := range pendingQueues",
   "    _, failed := failedRollapps[queue.RollappId]",
   "    if failed",
   "      continue",
   "    finalized := k.FinalizeStates(ctx, queue)",
   "    if !finalized",
   "      failedRollapps[queue.RollappId] = struct{}{}"] := rfl

/-- `Keeper.FinalizeRollappStates` -/
theorem ra_Keeper_FinalizeRollappStates_listing : Gen.SkCoreX.ra_Keeper_FinalizeRollappStates =
  ["func (k Keeper) FinalizeRollappStates(ctx sdk.Context)",
   "  if uint64(ctx.BlockHeight()) < k.DisputePeriodInBlocks(ctx)",
   "    return",
   "  finalizationHeight := uint64(ctx.BlockHeight() - int64(k.DisputePeriodInBlocks(ctx)))",
   "  queue, err := k.GetFinalizationQueueUntilHeightInclusive(ctx, finalizationHeight)",
   "  if err != nil",
   "    return",
   "  k.FinalizeAllPending(ctx, queue)"] := rfl

/-- `Keeper.FinalizeStates` -/
theorem ra_Keeper_FinalizeStates_listing : Gen.SkCoreX.ra_Keeper_FinalizeStates =
  ["func (k Keeper) FinalizeStates(ctx sdk.Context, queue types.BlockHeightToFinalizationQueue) bool",
   "  for i, stateInfoIndex := range queue.FinalizationQueue",
   "    err := osmoutils.ApplyFuncIfNoError(ctx, func#1)",
   "      func#1 (ctx sdk.Context) error",
   "        return k.finalizePending(ctx, stateInfoIndex)",
   "    if err != nil",
   "      queue.FinalizationQueue = slices.Delete(queue.FinalizationQueue, 0, i)",
   "      k.MustSetFinalizationQueue(ctx, queue)",
   "      return false",
   "  k.MustRemoveFinalizationQueue(ctx, queue.CreationHeight, queue.RollappId)",
   "  return true"] := rfl

/-- `Keeper.FindStateInfoByHeight` -/
theorem ra_Keeper_FindStateInfoByHeight_listing : Gen.SkCoreX.ra_Keeper_FindStateInfoByHeight =
  ["func (k Keeper) FindStateInfoByHeight(ctx sdk.Context, rollappId string, height uint64) (*types.StateInfo, error)",
   "  if height == 0",
   "    return nil, types.ErrInvalidHeight",
   "  _, found := k.GetRollapp(ctx, rollappId)",
   "  if !found",
   "    return nil, types.ErrUnknownRollappID",
   "  ss, found := k.GetLatestStateInfo(ctx, rollappId)",
   "  if !found || height > ss.GetLatestHeight()",
   "    return nil, gerrc.ErrNotFound",
   "  startInfoIndex := uint64(1)",
   "  endInfoIndex := ss.StateInfoIndex.Index",
   "  for startInfoIndex <= endInfoIndex",
   "    midIndex := startInfoIndex + (endInfoIndex-startInfoIndex)/2",
   "    state, ok := k.GetStateInfo(ctx, rollappId, midIndex)",
   "    if !ok",
   "      return nil, types.ErrStateNotExists",
   "    if state.ContainsHeight(height)",
   "      return &state, nil",
   "    if height < state.GetStartHeight()",
   "      endInfoIndex = midIndex - 1",
   "    else",
   "      startInfoIndex = midIndex + 1",
   "  return nil, gerrc.ErrNotFound"] := rfl

/-- `Keeper.GetAllBlockHeightToFinalizationQueue` -/
theorem ra_Keeper_GetAllBlockHeightToFinalizationQueue_listing : Gen.SkCoreX.ra_Keeper_GetAllBlockHeightToFinalizationQueue =
  ["func (k Keeper) GetAllBlockHeightToFinalizationQueue(ctx sdk.Context) (list []types.BlockHeightToFinalizationQueue)",
   "  return k.getFinalizationQueue(ctx, nil)"] := rfl

/-- `Keeper.GetAllLatestFinalizedStateIndex` -/
theorem ra_Keeper_GetAllLatestFinalizedStateIndex_listing : Gen.SkCoreX.ra_Keeper_GetAllLatestFinalizedStateIndex =
  ["func (k Keeper) GetAllLatestFinalizedStateIndex(ctx sdk.Context) (list []types.StateInfoIndex)",
   "  store := prefix.NewStore(ctx.KVStore(k.storeKey), types.KeyPrefix(types.LatestFinalizedStateIndexKeyPrefix))",
   "  iterator := storetypes.KVStorePrefixIterator(store, []byte{})",
   "  defer iterator.Close()",
   "  for ; iterator.Valid(); iterator.Next()",
   "    var val types.StateInfoIndex",
   "    k.cdc.MustUnmarshal(iterator.Value(), &val)",
   "    list = append(list, val)",
   "  return"] := rfl

/-- `Keeper.GetAllLatestStateInfoIndex` -/
theorem ra_Keeper_GetAllLatestStateInfoIndex_listing : Gen.SkCoreX.ra_Keeper_GetAllLatestStateInfoIndex =
  ["func (k Keeper) GetAllLatestStateInfoIndex(ctx sdk.Context) (list []types.StateInfoIndex)",
   "  store := prefix.NewStore(ctx.KVStore(k.storeKey), types.KeyPrefix(types.LatestStateInfoIndexKeyPrefix))",
   "  iterator := storetypes.KVStorePrefixIterator(store, []byte{})",
   "  defer iterator.Close()",
   "  for ; iterator.Valid(); iterator.Next()",
   "    var val types.StateInfoIndex",
   "    k.cdc.MustUnmarshal(iterator.Value(), &val)",
   "    list = append(list, val)",
   "  return"] := rfl

/-- `Keeper.GetEntireFinalizationQueue` -/
theorem ra_Keeper_GetEntireFinalizationQueue_listing : Gen.SkCoreX.ra_Keeper_GetEntireFinalizationQueue =
  ["func (k Keeper) GetEntireFinalizationQueue(ctx sdk.Context) ([]types.BlockHeightToFinalizationQueue, error)",
   "  iter, err := k.finalizationQueue.Iterate(ctx, nil)",
   "  if err != nil",
   "    return nil, err",
   "  defer iter.Close()",
   "  return iter.Values()"] := rfl

/-- `Keeper.GetFinalizationQueue` -/
theorem ra_Keeper_GetFinalizationQueue_listing : Gen.SkCoreX.ra_Keeper_GetFinalizationQueue =
  ["func (k Keeper) GetFinalizationQueue(ctx sdk.Context, height uint64, rollappID string) (types.BlockHeightToFinalizationQueue, bool)",
   "  queue, err := k.finalizationQueue.Get(ctx, collections.Join(height, rollappID))",
   "  if err != nil && !errors.Is(err, collections.ErrNotFound)",
   "    panic(err)",
   "  found := err == nil",
   "  return queue, found"] := rfl

/-- `Keeper.GetFinalizationQueueByRollapp` -/
theorem ra_Keeper_GetFinalizationQueueByRollapp_listing : Gen.SkCoreX.ra_Keeper_GetFinalizationQueueByRollapp =
  ["func (k Keeper) GetFinalizationQueueByRollapp(ctx sdk.Context, rollapp string) ([]types.BlockHeightToFinalizationQueue, error)",
   "  iter, err := k.finalizationQueue.Indexes.RollappIDReverseLookup.MatchExact(ctx, rollapp)",
   "  if err != nil",
   "    return nil, err",
   "  defer iter.Close()",
   "  var res []types.BlockHeightToFinalizationQueue",
   "  for ; iter.Valid(); iter.Next()",
   "    key, err := iter.PrimaryKey()",
   "    if err != nil",
   "      return nil, err",
   "    queue, err := k.finalizationQueue.Get(ctx, key)",
   "    if err != nil",
   "      return nil, err",
   "    res = append(res, queue)",
   "  return res, nil"] := rfl

/-- `Keeper.GetFinalizationQueueUntilHeightInclusive` -/
theorem ra_Keeper_GetFinalizationQueueUntilHeightInclusive_listing : Gen.SkCoreX.ra_Keeper_GetFinalizationQueueUntilHeightInclusive =
  ["func (k Keeper) GetFinalizationQueueUntilHeightInclusive(ctx sdk.Context, height uint64) ([]types.BlockHeightToFinalizationQueue, error)",
   "  rng := collections.NewPrefixUntilPairRange[uint64, string](height)",
   "  iter, err := k.finalizationQueue.Iterate(ctx, rng)",
   "  if err != nil",
   "    return nil, err",
   "  defer iter.Close()",
   "  return iter.Values()"] := rfl

/-- `Keeper.GetLatestFinalizedStateIndex` -/
theorem ra_Keeper_GetLatestFinalizedStateIndex_listing : Gen.SkCoreX.ra_Keeper_GetLatestFinalizedStateIndex =
  ["func (k Keeper) GetLatestFinalizedStateIndex(ctx sdk.Context, rollappId string) (val types.StateInfoIndex, found bool)",
   "  store := prefix.NewStore(ctx.KVStore(k.storeKey), types.KeyPrefix(types.LatestFinalizedStateIndexKeyPrefix))",
   "  b := store.Get(types.LatestFinalizedStateIndexKey(rollappId))",
   "  if b == nil",
   "    return val, false",
   "  k.cdc.MustUnmarshal(b, &val)",
   "  return val, true"] := rfl

/-- `Keeper.GetLatestHeight` -/
theorem ra_Keeper_GetLatestHeight_listing : Gen.SkCoreX.ra_Keeper_GetLatestHeight =
  ["func (k Keeper) GetLatestHeight(ctx sdk.Context, rollappId string) (uint64, bool)",
   "  info, ok := k.GetLatestStateInfo(ctx, rollappId)",
   "  if !ok",
   "    return 0, false",
   "  return info.GetLatestHeight(), true"] := rfl

/-- `Keeper.GetLatestStateInfoIndex` -/
theorem ra_Keeper_GetLatestStateInfoIndex_listing : Gen.SkCoreX.ra_Keeper_GetLatestStateInfoIndex =
  ["func (k Keeper) GetLatestStateInfoIndex(ctx sdk.Context, rollappId string) (val types.StateInfoIndex, found bool)",
   "  store := prefix.NewStore(ctx.KVStore(k.storeKey), types.KeyPrefix(types.LatestStateInfoIndexKeyPrefix))",
   "  b := store.Get(types.LatestStateInfoIndexKey(rollappId))",
   "  if b == nil",
   "    return val, false",
   "  k.cdc.MustUnmarshal(b, &val)",
   "  return val, true"] := rfl

/-- `Keeper.GetLivenessEvents` -/
theorem ra_Keeper_GetLivenessEvents_listing : Gen.SkCoreX.ra_Keeper_GetLivenessEvents =
  ["func (k Keeper) GetLivenessEvents(ctx sdk.Context, height *int64) []types.LivenessEvent",
   "  store := ctx.KVStore(k.storeKey)",
   "  key := types.LivenessEventQueueKeyPrefix",
   "  if height != nil",
   "    key = types.LivenessEventQueueIterHeightKey(*height)",
   "  iterator := storetypes.KVStorePrefixIterator(store, key)",
   "  defer iterator.Close()",
   "  ret := []types.LivenessEvent{}",
   "  for ; iterator.Valid(); iterator.Next()",
   "    e := types.LivenessEventQueueKeyToEvent(iterator.Key())",
   "    if height != nil && *height < e.HubHeight",
   "      break",
   "    ret = append(ret, e)",
   "  return ret"] := rfl

/-- `Keeper.HandleLivenessEvent` -/
theorem ra_Keeper_HandleLivenessEvent_listing : Gen.SkCoreX.ra_Keeper_HandleLivenessEvent =
  ["func (k Keeper) HandleLivenessEvent(ctx sdk.Context, e types.LivenessEvent) error",
   "  err := k.SequencerK.SlashLiveness(ctx, e.RollappId)",
   "  if err != nil",
   "    return err",
   "  ra := k.MustGetRollapp(ctx, e.RollappId)",
   "  k.DelLivenessEvents(ctx, e.HubHeight, e.RollappId)",
   "  k.ScheduleLivenessEvent(ctx, &ra)",
   "  k.SetRollapp(ctx, ra)",
   "  return nil"] := rfl

/-- `Keeper.IndicateLiveness` -/
theorem ra_Keeper_IndicateLiveness_listing : Gen.SkCoreX.ra_Keeper_IndicateLiveness =
  ["func (k Keeper) IndicateLiveness(ctx sdk.Context, ra *types.Rollapp)",
   "  k.ResetLivenessClock(ctx, ra)",
   "  k.ScheduleLivenessEvent(ctx, ra)"] := rfl

/-- `Keeper.MustRemoveFinalizationQueue` -/
theorem ra_Keeper_MustRemoveFinalizationQueue_listing : Gen.SkCoreX.ra_Keeper_MustRemoveFinalizationQueue =
  ["func (k Keeper) MustRemoveFinalizationQueue(ctx sdk.Context, height uint64, rollappID string)",
   "  err := k.RemoveFinalizationQueue(ctx, height, rollappID)",
   "  if err != nil",
   "    panic(err)"] := rfl

/-- `Keeper.MustSetFinalizationQueue` -/
theorem ra_Keeper_MustSetFinalizationQueue_listing : Gen.SkCoreX.ra_Keeper_MustSetFinalizationQueue =
  ["func (k Keeper) MustSetFinalizationQueue(ctx sdk.Context, queue types.BlockHeightToFinalizationQueue)",
   "  err := k.SetFinalizationQueue(ctx, queue)",
   "  if err != nil",
   "    panic(err)"] := rfl

/-- `Keeper.PruneSequencerHeights` -/
theorem ra_Keeper_PruneSequencerHeights_listing : Gen.SkCoreX.ra_Keeper_PruneSequencerHeights =
  ["func (k Keeper) PruneSequencerHeights(ctx sdk.Context, sequencers []string, h uint64) error",
   "  for _, seqAddr := range sequencers",
   "    rng := collections.NewPrefixedPairRange[string, uint64](seqAddr).StartExclusive(h)",
   "    err := k.seqToUnfinalizedHeight.Clear(ctx, rng)",
   "    if err != nil",
   "      return err",
   "  return nil"] := rfl

/-- `Keeper.PutLivenessEvent` -/
theorem ra_Keeper_PutLivenessEvent_listing : Gen.SkCoreX.ra_Keeper_PutLivenessEvent =
  ["func (k Keeper) PutLivenessEvent(ctx sdk.Context, e types.LivenessEvent)",
   "  store := ctx.KVStore(k.storeKey)",
   "  key := types.LivenessEventQueueKey(e)",
   "  store.Set(key, []byte{})"] := rfl

/-- `Keeper.RemoveBlockHeightToFinalizationQueue` -/
theorem ra_Keeper_RemoveBlockHeightToFinalizationQueue_listing : Gen.SkCoreX.ra_Keeper_RemoveBlockHeightToFinalizationQueue =
  ["func (k Keeper) RemoveBlockHeightToFinalizationQueue(ctx sdk.Context, creationHeight uint64)",
   "  store := prefix.NewStore(ctx.KVStore(k.storeKey), types.KeyPrefix(types.BlockHeightToFinalizationQueueKeyPrefix))",
   "  store.Delete(types.BlockHeightToFinalizationQueueKey(creationHeight))"] := rfl

/-- `Keeper.RemoveFinalizationQueue` -/
theorem ra_Keeper_RemoveFinalizationQueue_listing : Gen.SkCoreX.ra_Keeper_RemoveFinalizationQueue =
  ["func (k Keeper) RemoveFinalizationQueue(ctx sdk.Context, height uint64, rollappID string) error",
   "  return k.finalizationQueue.Remove(ctx, collections.Join(height, rollappID))"] := rfl

/-- `Keeper.RemoveLatestFinalizedStateIndex` -/
theorem ra_Keeper_RemoveLatestFinalizedStateIndex_listing : Gen.SkCoreX.ra_Keeper_RemoveLatestFinalizedStateIndex =
  ["func (k Keeper) RemoveLatestFinalizedStateIndex(ctx sdk.Context, rollappId string)",
   "  store := prefix.NewStore(ctx.KVStore(k.storeKey), types.KeyPrefix(types.LatestFinalizedStateIndexKeyPrefix))",
   "  store.Delete(types.LatestFinalizedStateIndexKey(rollappId))"] := rfl

/-- `Keeper.RemoveLatestStateInfoIndex` -/
theorem ra_Keeper_RemoveLatestStateInfoIndex_listing : Gen.SkCoreX.ra_Keeper_RemoveLatestStateInfoIndex =
  ["func (k Keeper) RemoveLatestStateInfoIndex(ctx sdk.Context, rollappId string)",
   "  store := prefix.NewStore(ctx.KVStore(k.storeKey), types.KeyPrefix(types.LatestStateInfoIndexKeyPrefix))",
   "  store.Delete(types.LatestStateInfoIndexKey(rollappId))"] := rfl

/-- `Keeper.ResetLivenessClock` -/
theorem ra_Keeper_ResetLivenessClock_listing : Gen.SkCoreX.ra_Keeper_ResetLivenessClock =
  ["func (k Keeper) ResetLivenessClock(ctx sdk.Context, ra *types.Rollapp)",
   "  k.DelLivenessEvents(ctx, ra.LivenessEventHeight, ra.RollappId)",
   "  ra.LivenessEventHeight = 0",
   "  ra.LivenessCountdownStartHeight = ctx.BlockHeight()"] := rfl

/-- `Keeper.SaveSequencerHeight` -/
theorem ra_Keeper_SaveSequencerHeight_listing : Gen.SkCoreX.ra_Keeper_SaveSequencerHeight =
  ["func (k Keeper) SaveSequencerHeight(ctx sdk.Context, seqAddr string, height uint64) error",
   "  return k.seqToUnfinalizedHeight.Set(ctx, collections.Join(seqAddr, height))"] := rfl

/-- `Keeper.ScheduleLivenessEvent` -/
theorem ra_Keeper_ScheduleLivenessEvent_listing : Gen.SkCoreX.ra_Keeper_ScheduleLivenessEvent =
  ["func (k Keeper) ScheduleLivenessEvent(ctx sdk.Context, ra *types.Rollapp)",
   "  params := k.GetParams(ctx)",
   "  nextH := NextSlashHeight(params.LivenessSlashBlocks, params.LivenessSlashInterval, ctx.BlockHeight(), ra.LivenessCountdownStartHeight)",
   "  ra.LivenessEventHeight = nextH",
   "  k.PutLivenessEvent(ctx, types.LivenessEvent{RollappId: ra.RollappId, HubHeight: nextH})"] := rfl

/-- `Keeper.SetBlockHeightToFinalizationQueue` -/
theorem ra_Keeper_SetBlockHeightToFinalizationQueue_listing : Gen.SkCoreX.ra_Keeper_SetBlockHeightToFinalizationQueue =
  ["func (k Keeper) SetBlockHeightToFinalizationQueue(ctx sdk.Context, blockHeightToFinalizationQueue types.BlockHeightToFinalizationQueue)",
   "  store := prefix.NewStore(ctx.KVStore(k.storeKey), types.KeyPrefix(types.BlockHeightToFinalizationQueueKeyPrefix))",
   "  b := k.cdc.MustMarshal(&blockHeightToFinalizationQueue)",
   "  store.Set(types.BlockHeightToFinalizationQueueKey(blockHeightToFinalizationQueue.CreationHeight), b)"] := rfl

/-- `Keeper.SetFinalizationQueue` -/
theorem ra_Keeper_SetFinalizationQueue_listing : Gen.SkCoreX.ra_Keeper_SetFinalizationQueue =
  ["func (k Keeper) SetFinalizationQueue(ctx sdk.Context, queue types.BlockHeightToFinalizationQueue) error",
   "  return k.finalizationQueue.Set(ctx, collections.Join(queue.CreationHeight, queue.RollappId), queue)"] := rfl

/-- `Keeper.SetLatestFinalizedStateIndex` -/
theorem ra_Keeper_SetLatestFinalizedStateIndex_listing : Gen.SkCoreX.ra_Keeper_SetLatestFinalizedStateIndex =
  ["func (k Keeper) SetLatestFinalizedStateIndex(ctx sdk.Context, latestFinalizedStateIndex types.StateInfoIndex)",
   "  store := prefix.NewStore(ctx.KVStore(k.storeKey), types.KeyPrefix(types.LatestFinalizedStateIndexKeyPrefix))",
   "  b := k.cdc.MustMarshal(&latestFinalizedStateIndex)",
   "  store.Set(types.LatestFinalizedStateIndexKey(latestFinalizedStateIndex.RollappId), b)"] := rfl

/-- `Keeper.SetLatestStateInfoIndex` -/
theorem ra_Keeper_SetLatestStateInfoIndex_listing : Gen.SkCoreX.ra_Keeper_SetLatestStateInfoIndex =
  ["func (k Keeper) SetLatestStateInfoIndex(ctx sdk.Context, latestStateInfoIndex types.StateInfoIndex)",
   "  store := prefix.NewStore(ctx.KVStore(k.storeKey), types.KeyPrefix(types.LatestStateInfoIndexKeyPrefix))",
   "  b := k.cdc.MustMarshal(&latestStateInfoIndex)",
   "  store.Set(types.LatestStateInfoIndexKey(latestStateInfoIndex.RollappId), b)"] := rfl

/-- `Keeper.StateInfo` -/
theorem ra_Keeper_StateInfo_listing : Gen.SkCoreX.ra_Keeper_StateInfo =
  ["func (k Keeper) StateInfo(c context.Context, req *types.QueryGetStateInfoRequest) (*types.QueryGetStateInfoResponse, error)",
   "  if req == nil",
   "    return nil, status.Error(codes.InvalidArgument, \"invalid request\")",
   "  if req.Height == 0 && req.Index == 0",
   "    if req.Finalized",
   "      latestFinalizedStateIndex, found := k.GetLatestFinalizedStateIndex(ctx, req.RollappId)",
   "      if !found",
   "        return nil, types.ErrNoFinalizedStateYetForRollapp",
   "      req.Index = latestFinalizedStateIndex.Index",
   "    else",
   "      latestStateIndex, found := k.GetLatestStateInfoIndex(ctx, req.RollappId)",
   "      if !found",
   "        _, exists := k.GetRollapp(ctx, req.RollappId)",
   "        if !exists",
   "          return nil, types.ErrRollappNotRegistered",
   "        return nil, status.Error(codes.NotFound, \"not found\")",
   "      req.Index = latestStateIndex.Index",
   "  var stateInfo types.StateInfo",
   "  if req.Index != 0",
   "    val, found := k.GetStateInfo(ctx, req.RollappId, req.Index)",
   "    if !found",
   "      return nil, status.Error(codes.NotFound, \"not found\")",
   "    stateInfo = val",
   "  else",
   "    if req.Height != 0",
   "      val, err := k.FindStateInfoByHeight(ctx, req.RollappId, req.Height)",
   "      if err != nil",
   "        return nil, err",
   "      stateInfo = *val",
   "  return &types.QueryGetStateInfoResponse{StateInfo: stateInfo}, nil"] := rfl

/-- `Keeper.finalizePendingState` -/
theorem ra_Keeper_finalizePendingState_listing : Gen.SkCoreX.ra_Keeper_finalizePendingState =
  ["func (k *Keeper) finalizePendingState(ctx sdk.Context, stateInfoIndex types.StateInfoIndex) error",
   "  stateInfo := k.MustGetStateInfo(ctx, stateInfoIndex.RollappId, stateInfoIndex.Index)",
   "  if stateInfo.Status != common.Status_PENDING",
   "    panic()",
   "  stateInfo.Finalize()",
   "  k.SetStateInfo(ctx, stateInfo)",
   "  k.SetLatestFinalizedStateIndex(ctx, stateInfoIndex)",
   "  for _, bd := range stateInfo.BDs.BD",
   "    err := k.DelSequencerHeight(ctx, stateInfo.Sequencer, bd.Height)",
   "    if err != nil",
   "      return err",
   "  err := k.GetHooks().AfterStateFinalized(ctx, stateInfoIndex.RollappId, &stateInfo)",
   "  if err != nil",
   "    return fmt.Errorf(err)",
   "  return nil"] := rfl

/-- `Keeper.getFinalizationQueue` -/
theorem ra_Keeper_getFinalizationQueue_listing : Gen.SkCoreX.ra_Keeper_getFinalizationQueue =
  ["func (k Keeper) getFinalizationQueue(ctx sdk.Context, endHeightNonInclusive *uint64) (list []types.BlockHeightToFinalizationQueue)",
   "  store := prefix.NewStore(ctx.KVStore(k.storeKey), types.KeyPrefix(types.BlockHeightToFinalizationQueueKeyPrefix))",
   "  iterator := storetypes.KVStorePrefixIterator(store, []byte{})",
   "  defer iterator.Close()",
   "  for ; iterator.Valid(); iterator.Next()",
   "    var val types.BlockHeightToFinalizationQueue",
   "    k.cdc.MustUnmarshal(iterator.Value(), &val)",
   "    if endHeightNonInclusive != nil && *endHeightNonInclusive <= val.CreationHeight",
   "      break",
   "    list = append(list, val)",
   "  return"] := rfl

/-- `LivenessEventInvariant` -/
theorem ra_LivenessEventInvariant_listing : Gen.SkCoreX.ra_LivenessEventInvariant =
  ["func LivenessEventInvariant(k Keeper) sdk.Invariant",
   "  return func#1",
   "    func#1 (ctx sdk.Context) (string, bool)",
   "      var broken bool",
   "      var msg string",
   "      rollapps := k.GetAllRollapps(ctx)",
   "      for _, ra := range rollapps",
   "        if ra.LivenessEventHeight == 0",
   "          continue",
   "        events := k.GetLivenessEvents(ctx, &ra.LivenessEventHeight)",
   "        cnt := 0",
   "        for _, event := range events",
   "          if event.RollappId == ra.RollappId",
   "            cnt++",
   "        if cnt != 1",
   "          broken = true",
   "          msg += fmt.Sprintf(\"| rollapp stored event but wrong number found in queue: rollapp: %s: event height: %d: found: %d\", ra.RollappId, ra.LivenessEventHeight, cnt)",
   "      evts := k.GetLivenessEvents(ctx, nil)",
   "      seen := make(map[string]struct{})",
   "      for i, e := range evts",
   "        if 0 < i && e.HubHeight < evts[i-1].HubHeight",
   "          broken = true",
   "          msg += fmt.Sprintf(\"| events not sorted by height: event: %v\\n\", e)",
   "        _, ok := seen[e.RollappId]",
   "        if ok",
   "          broken = true",
   "          msg += fmt.Sprintf(\"| more than one rollapp event: %v\\n\", e)",
   "        seen[e.RollappId] = struct{}{}",
   "        ra, ok := k.GetRollapp(ctx, e.RollappId)",
   "        if !ok",
   "          broken = true",
   "          msg += fmt.Sprintf(\"| event stored but rollapp not found: rollapp id: %s\\n\", e.RollappId)",
   "          continue",
   "        if ra.LivenessEventHeight != e.HubHeight",
   "          broken = true",
   "          msg += fmt.Sprintf(\"| event stored but rollapp has a different liveness event height: rollapp: %s\"+ \", height stored on rollapp: %d: height on event: %d\\n\", e.RollappId, ra.LivenessEventHeight, e.HubHeight)",
   "      return sdk.FormatInvariant(types.ModuleName, \"liveness-event\", msg), broken"] := rfl

/-- `NextSlashHeight` -/
theorem ra_NextSlashHeight_listing : Gen.SkCoreX.ra_NextSlashHeight =
  ["func NextSlashHeight(blocksSlashNoUpdate uint64, blocksSlashInterval uint64, heightHub int64, heightLastRollappUpdate int64) (heightEvent int64)",
   "  down := uint64(heightHub - heightLastRollappUpdate)",
   "  interval := blocksSlashNoUpdate",
   "  if blocksSlashNoUpdate <= down",
   "    interval += ((down-blocksSlashNoUpdate)/blocksSlashInterval + 1) * blocksSlashInterval",
   "  heightEvent = heightLastRollappUpdate + int64(interval)",
   "  return"] := rfl

/-- `RegisterInvariants` -/
theorem ra_RegisterInvariants_listing : Gen.SkCoreX.ra_RegisterInvariants =
  ["func RegisterInvariants(ir sdk.InvariantRegistry, k Keeper)",
   "  ir.RegisterRoute(types.ModuleName, \"rollapp-count\", RollappCountInvariant(k))",
   "  ir.RegisterRoute(types.ModuleName, \"block-height-to-finalization-queue\", BlockHeightToFinalizationQueueInvariant(k))",
   "  ir.RegisterRoute(types.ModuleName, \"rollapp-by-eip155-key\", RollappByEIP155KeyInvariant(k))",
   "  ir.RegisterRoute(types.ModuleName, \"rollapp-finalized-state\", RollappFinalizedStateInvariant(k))",
   "  ir.RegisterRoute(types.ModuleName, \"liveness-event\", LivenessEventInvariant(k))"] := rfl

/-- `RollappByEIP155KeyInvariant` -/
theorem ra_RollappByEIP155KeyInvariant_listing : Gen.SkCoreX.ra_RollappByEIP155KeyInvariant =
  ["func RollappByEIP155KeyInvariant(k Keeper) sdk.Invariant",
   "  return func#1",
   "    func#1 (ctx sdk.Context) (string, bool)",
   "      var broken bool",
   "      var msg string",
   "      rollapps := k.GetAllRollapps(ctx)",
   "      for _, rollapp := range rollapps",
   "        rollappID, err := types.NewChainID(rollapp.RollappId)",
   "        if err != nil",
   "          msg += fmt.Sprintf(\"rollapp (%s) have invalid rollappId\\n\", rollapp.RollappId)",
   "          broken = true",
   "          continue",
   "        got, found := k.GetRollappByEIP155(ctx, rollappID.GetEIP155ID())",
   "        if !found",
   "          msg += fmt.Sprintf(\"rollapp (%s) have no eip155 key\\n\", rollapp.RollappId)",
   "          broken = true",
   "          continue",
   "        if got.RollappId != rollapp.RollappId",
   "          msg += fmt.Sprintf(\"rollapp (%s) have different rollappId\\n\", rollapp.RollappId)",
   "          broken = true",
   "      return sdk.FormatInvariant(types.ModuleName, \"rollapp-by-eip155-key\", msg), broken"] := rfl

/-- `RollappCountInvariant` -/
theorem ra_RollappCountInvariant_listing : Gen.SkCoreX.ra_RollappCountInvariant =
  ["func RollappCountInvariant(k Keeper) sdk.Invariant",
   "  return func#1",
   "    func#1 (ctx sdk.Context) (string, bool)",
   "      var broken bool",
   "      var msg string",
   "      rollapps := k.GetAllRollapps(ctx)",
   "      rollappCount := len(rollapps)",
   "      rollappCountFromIndex := len(k.GetAllLatestStateInfoIndex(ctx))",
   "      if rollappCount == rollappCountFromIndex",
   "        return \"\", false",
   "      var noStateRollappCount int",
   "      for _, rollapp := range rollapps",
   "        if !k.IsRollappStarted(ctx, rollapp.RollappId)",
   "          noStateRollappCount++",
   "      broken = rollappCount != (rollappCountFromIndex + noStateRollappCount)",
   "      if broken",
   "        msg = fmt.Sprintf(\"rollapp count (%d) != latestStateInfoIndex count (%d) + noStateRollapp count (%d)\\n\", rollappCount, rollappCountFromIndex, noStateRollappCount)",
   "      return sdk.FormatInvariant(types.ModuleName, \"rollapp-count\", msg), broken"] := rfl

/-- `RollappFinalizedStateInvariant` -/
theorem ra_RollappFinalizedStateInvariant_listing : Gen.SkCoreX.ra_RollappFinalizedStateInvariant =
  ["func RollappFinalizedStateInvariant(k Keeper) sdk.Invariant",
   "  return func#1",
   "    func#1 (ctx sdk.Context) (string, bool)",
   "      var broken bool",
   "      var msg string",
   "      rollapps := k.GetAllRollapps(ctx)",
   "      for _, rollapp := range rollapps",
   "        if !k.IsRollappStarted(ctx, rollapp.RollappId)",
   "          continue",
   "        latestFinalizedStateIdx, found := k.GetLatestFinalizedStateIndex(ctx, rollapp.RollappId)",
   "        if !found",
   "          continue",
   "        for i := uint64(1); i <= latestFinalizedStateIdx.Index; i++",
   "          stateInfo, found := k.GetStateInfo(ctx, rollapp.RollappId, i)",
   "          if !found",
   "            msg += fmt.Sprintf(\"rollapp (%s) have no stateInfo at index %d\\n\", rollapp.RollappId, i)",
   "            broken = true",
   "          if stateInfo.Status != commontypes.Status_FINALIZED",
   "            msg += fmt.Sprintf(\"rollapp (%s) have stateInfo at index %d not finalized\\n\", rollapp.RollappId, i)",
   "            broken = true",
   "      return sdk.FormatInvariant(types.ModuleName, \"rollapp-finalized-state\", msg), broken"] := rfl

/-- `LivenessEventQueueIterHeightKey` -/
theorem rat_LivenessEventQueueIterHeightKey_listing : Gen.SkCoreX.rat_LivenessEventQueueIterHeightKey =
  ["func LivenessEventQueueIterHeightKey(height int64) []byte",
   "  ret := LivenessEventQueueKeyPrefix",
   "  ret = append(ret, []byte(\"/\")...)",
   "  hBz := make([]byte, 8)",
   "  binary.BigEndian.PutUint64(hBz, uint64(height))",
   "  ret = append(ret, hBz...)",
   "  return ret"] := rfl

/-- `LivenessEventQueueKey` -/
theorem rat_LivenessEventQueueKey_listing : Gen.SkCoreX.rat_LivenessEventQueueKey =
  ["func LivenessEventQueueKey(e LivenessEvent) []byte",
   "  v := LivenessEventQueueSlash",
   "  ret := LivenessEventQueueIterHeightKey(e.HubHeight)",
   "  ret = append(ret, []byte(\"/\")...)",
   "  ret = append(ret, v...)",
   "  ret = append(ret, []byte(\"/\")...)",
   "  ret = append(ret, e.RollappId...)",
   "  return ret"] := rfl

/-- `LivenessEventQueueKeyToEvent` -/
theorem rat_LivenessEventQueueKeyToEvent_listing : Gen.SkCoreX.rat_LivenessEventQueueKeyToEvent =
  ["func LivenessEventQueueKeyToEvent(k []byte) LivenessEvent",
   "  ret := LivenessEvent{}",
   "  i := len(LivenessEventQueueKeyPrefix) + 1",
   "  j := i + 8 + 1",
   "  l := j + 1 + 1",
   "  ret.HubHeight = int64(binary.BigEndian.Uint64(k[i : i+8]))",
   "  ret.RollappId = string(k[l:])",
   "  return ret"] := rfl

/-- `NewStateInfo` -/
theorem rat_NewStateInfo_listing : Gen.SkCoreX.rat_NewStateInfo =
  ["func NewStateInfo(rollappId string, newIndex uint64, creator string, startHeight uint64, numBlocks uint64, daPath string, height uint64, BDs BlockDescriptors, createdAt time.Time, nextProposer string) *StateInfo",
   "  stateInfoIndex := StateInfoIndex{RollappId: rollappId, Index: newIndex}",
   "  status := common.Status_PENDING",
   "  return &StateInfo{StateInfoIndex: stateInfoIndex, Sequencer: creator, StartHeight: startHeight, NumBlocks: numBlocks, DAPath: daPath, CreationHeight: height, Status: status, BDs: BDs, CreatedAt: createdAt, NextProposer: nextProposer}"] := rfl

/-- `StateInfo.ContainsHeight` -/
theorem rat_StateInfo_ContainsHeight_listing : Gen.SkCoreX.rat_StateInfo_ContainsHeight =
  ["func (s *StateInfo) ContainsHeight(height uint64) bool",
   "  return s.StartHeight <= height && height <= s.GetLatestHeight()"] := rfl

/-- `StateInfo.Finalize` -/
theorem rat_StateInfo_Finalize_listing : Gen.SkCoreX.rat_StateInfo_Finalize =
  ["func (s *StateInfo) Finalize()",
   "  s.Status = common.Status_FINALIZED"] := rfl

/-- `StateInfo.GetBlockDescriptor` -/
theorem rat_StateInfo_GetBlockDescriptor_listing : Gen.SkCoreX.rat_StateInfo_GetBlockDescriptor =
  ["func (s *StateInfo) GetBlockDescriptor(height uint64) (BlockDescriptor, bool)",
   "  if !s.ContainsHeight(height)",
   "    return BlockDescriptor{}, false",
   "  return s.BDs.BD[height-s.StartHeight], true"] := rfl

/-- `StateInfo.GetEvents` -/
theorem rat_StateInfo_GetEvents_listing : Gen.SkCoreX.rat_StateInfo_GetEvents =
  ["func (s *StateInfo) GetEvents() []sdk.Attribute",
   "  eventAttributes := []sdk.Attribute{sdk.NewAttribute(AttributeKeyRollappId, s.GetRollappId()), sdk.NewAttribute(AttributeKeyStateInfoIndex, strconv.FormatUint(s.StateInfoIndex.Index, 10)), sdk.NewAttribute(AttributeKeyStartHeight, strconv.FormatUint(s.StartHeight, 10)), sdk.NewAttribute(AttributeKeyNumBlocks, strconv.FormatUint(s.NumBlocks, 10)), sdk.NewAttribute(AttributeKeyDAPath, s.DAPath), sdk.NewAttribute(AttributeKeyStatus, s.Status.String())}",
   "  return eventAttributes"] := rfl

/-- `StateInfo.GetIndex` -/
theorem rat_StateInfo_GetIndex_listing : Gen.SkCoreX.rat_StateInfo_GetIndex =
  ["func (s *StateInfo) GetIndex() StateInfoIndex",
   "  return s.StateInfoIndex"] := rfl

/-- `StateInfo.GetLatestBlockDescriptor` -/
theorem rat_StateInfo_GetLatestBlockDescriptor_listing : Gen.SkCoreX.rat_StateInfo_GetLatestBlockDescriptor =
  ["func (s *StateInfo) GetLatestBlockDescriptor() BlockDescriptor",
   "  return s.BDs.BD[len(s.BDs.BD)-1]"] := rfl

/-- `StateInfo.GetLatestHeight` -/
theorem rat_StateInfo_GetLatestHeight_listing : Gen.SkCoreX.rat_StateInfo_GetLatestHeight =
  ["func (s *StateInfo) GetLatestHeight() uint64",
   "  if s.StartHeight+s.NumBlocks > 0",
   "    return s.StartHeight + s.NumBlocks - 1",
   "  return 0"] := rfl

/-- `StateInfo.GetRollappId` -/
theorem rat_StateInfo_GetRollappId_listing : Gen.SkCoreX.rat_StateInfo_GetRollappId =
  ["func (s *StateInfo) GetRollappId() string",
   "  return s.StateInfoIndex.RollappId"] := rfl

/-- `StateInfo.NextSequencerForHeight` -/
theorem rat_StateInfo_NextSequencerForHeight_listing : Gen.SkCoreX.rat_StateInfo_NextSequencerForHeight =
  ["func (s *StateInfo) NextSequencerForHeight(height uint64) string",
   "  if height != s.GetLatestHeight()",
   "    return s.Sequencer",
   "  return s.NextProposer"] := rfl

/-- `AllInvariants` -/
theorem sq_AllInvariants_listing : Gen.SkCoreX.sq_AllInvariants =
  ["func AllInvariants(k Keeper) sdk.Invariant",
   "  return invs.All(types.ModuleName, k)"] := rfl

/-- `InvariantDoNotExposeSentinel` -/
theorem sq_InvariantDoNotExposeSentinel_listing : Gen.SkCoreX.sq_InvariantDoNotExposeSentinel =
  ["func InvariantDoNotExposeSentinel(k Keeper) uinv.Func",
   "  return uinv.AnyErrorIsBreaking(func#1)",
   "    func#1 (ctx sdk.Context) error",
   "      var errs []error",
   "      for _, s := range k.AllSequencers(ctx)",
   "        if s.Sentinel()",
   "          errs = append(errs, fmt.Errorf(s.Address))",
   "      rollapps := k.rollappKeeper.GetAllRollapps(ctx)",
   "      for _, ra := range rollapps",
   "        for _, s := range k.RollappSequencers(ctx, ra.RollappId)",
   "          if s.Sentinel()",
   "            errs = append(errs, fmt.Errorf(ra.RollappId))",
   "      return errors.Join(errs...)"] := rfl

/-- `InvariantNotice` -/
theorem sq_InvariantNotice_listing : Gen.SkCoreX.sq_InvariantNotice =
  ["func InvariantNotice(k Keeper) uinv.Func",
   "  return uinv.AnyErrorIsBreaking(func#1)",
   "    func#1 (ctx sdk.Context) error",
   "      seqs, err := k.NoticeQueue(ctx, nil)",
   "      if err != nil",
   "        return err",
   "      var errs []error",
   "      for _, seq := range seqs",
   "        if !seq.NoticeStarted()",
   "          errs = append(errs, fmt.Errorf(seq.Address))",
   "        if !k.IsProposer(ctx, seq)",
   "          errs = append(errs, fmt.Errorf(seq.Address))",
   "      return errors.Join(errs...)"] := rfl

/-- `InvariantProposerAddrIndex` -/
theorem sq_InvariantProposerAddrIndex_listing : Gen.SkCoreX.sq_InvariantProposerAddrIndex =
  ["func InvariantProposerAddrIndex(k Keeper) uinv.Func",
   "  return uinv.AnyErrorIsBreaking(func#1)",
   "    func#1 (ctx sdk.Context) error",
   "      var errs []error",
   "      for _, seq := range k.AllSequencers(ctx)",
   "        err := checkProposerAddrIndex(ctx, k, seq)",
   "        errs = append(errs, err)",
   "      return errors.Join(errs...)"] := rfl

/-- `InvariantStatus` -/
theorem sq_InvariantStatus_listing : Gen.SkCoreX.sq_InvariantStatus =
  ["func InvariantStatus(k Keeper) uinv.Func",
   "  return uinv.AnyErrorIsBreaking(func#1)",
   "    func#1 (ctx sdk.Context) error",
   "      var errs []error",
   "      rollapps := k.rollappKeeper.GetAllRollapps(ctx)",
   "      for _, ra := range rollapps",
   "        err := checkRollappStatus(ctx, k, ra.RollappId)",
   "        errs = append(errs, err)",
   "      for _, seq := range k.AllProposers(ctx)",
   "        if !k.IsProposer(ctx, seq)",
   "          errs = append(errs, fmt.Errorf(seq.Address))",
   "      for _, seq := range k.AllSuccessors(ctx)",
   "        if !k.IsSuccessor(ctx, seq)",
   "          errs = append(errs, fmt.Errorf(seq.Address))",
   "      return errors.Join(errs...)"] := rfl

/-- `InvariantTokens` -/
theorem sq_InvariantTokens_listing : Gen.SkCoreX.sq_InvariantTokens =
  ["func InvariantTokens(k Keeper) uinv.Func",
   "  return uinv.AnyErrorIsBreaking(func#1)",
   "    func#1 (ctx sdk.Context) error",
   "      var errs []error",
   "      for _, seq := range k.AllSequencers(ctx)",
   "        err := checkSeqTokens(seq)",
   "        errs = append(errs, err)",
   "      err := errors.Join(errs...)",
   "      if err != nil",
   "        return err",
   "      total := sdk.NewCoin(commontypes.DYMCoin.Denom, math.ZeroInt())",
   "      for _, seq := range k.AllSequencers(ctx)",
   "        total = total.Add(seq.TokensCoin())",
   "      moduleAcc := k.accountK.GetModuleAccount(ctx, types.ModuleName)",
   "      balances := k.bankKeeper.GetAllBalances(ctx, moduleAcc.GetAddress())",
   "      if 1 < len(balances)",
   "        return errors.New(\"module account has more than one coin\")",
   "      if !total.IsZero() && len(balances) == 0",
   "        return errors.New(\"module account has no balance\")",
   "      if !total.IsZero() && !balances[0].IsEqual(total)",
   "        return errors.New(\"module account balance not equal to sum of sequencer tokens\")",
   "      return nil"] := rfl

/-- `Keeper.AddToNoticeQueue` -/
theorem sq_Keeper_AddToNoticeQueue_listing : Gen.SkCoreX.sq_Keeper_AddToNoticeQueue =
  ["func (k Keeper) AddToNoticeQueue(ctx sdk.Context, seq types.Sequencer)",
   "  store := ctx.KVStore(k.storeKey)",
   "  noticePeriodKey := types.NoticeQueueBySeqTimeKey(seq.Address, seq.NoticePeriodTime)",
   "  store.Set(noticePeriodKey, []byte(seq.Address))"] := rfl

/-- `Keeper.AllProposers` -/
theorem sq_Keeper_AllProposers_listing : Gen.SkCoreX.sq_Keeper_AllProposers =
  ["func (k Keeper) AllProposers(ctx sdk.Context) (list []types.Sequencer)",
   "  return k.prefixSequencerAddrs(ctx, types.ProposerByRollappKey(\"\"))"] := rfl

/-- `Keeper.AllSequencers` -/
theorem sq_Keeper_AllSequencers_listing : Gen.SkCoreX.sq_Keeper_AllSequencers =
  ["func (k Keeper) AllSequencers(ctx sdk.Context) []types.Sequencer",
   "  return k.prefixSequencers(ctx, types.SequencersKeyPrefix)"] := rfl

/-- `Keeper.AllSuccessors` -/
theorem sq_Keeper_AllSuccessors_listing : Gen.SkCoreX.sq_Keeper_AllSuccessors =
  ["func (k Keeper) AllSuccessors(ctx sdk.Context) []types.Sequencer",
   "  return k.prefixSequencerAddrs(ctx, types.SuccessorByRollappKey(\"\"))"] := rfl

/-- `Keeper.GetProposer` -/
theorem sq_Keeper_GetProposer_listing : Gen.SkCoreX.sq_Keeper_GetProposer =
  ["func (k Keeper) GetProposer(ctx sdk.Context, rollapp string) types.Sequencer",
   "  store := ctx.KVStore(k.storeKey)",
   "  bz := store.Get(types.ProposerByRollappKey(rollapp))",
   "  if bz == nil",
   "    return k.SentinelSequencer(ctx)",
   "  return k.GetSequencer(ctx, string(bz))"] := rfl

/-- `Keeper.GetSequencer` -/
theorem sq_Keeper_GetSequencer_listing : Gen.SkCoreX.sq_Keeper_GetSequencer =
  ["func (k Keeper) GetSequencer(ctx sdk.Context, addr string) types.Sequencer",
   "  seq, err := k.RealSequencer(ctx, addr)",
   "  if err != nil",
   "    return k.SentinelSequencer(ctx)",
   "  return seq"] := rfl

/-- `Keeper.GetSuccessor` -/
theorem sq_Keeper_GetSuccessor_listing : Gen.SkCoreX.sq_Keeper_GetSuccessor =
  ["func (k Keeper) GetSuccessor(ctx sdk.Context, rollapp string) types.Sequencer",
   "  store := ctx.KVStore(k.storeKey)",
   "  bz := store.Get(types.SuccessorByRollappKey(rollapp))",
   "  if bz == nil",
   "    return k.SentinelSequencer(ctx)",
   "  return k.GetSequencer(ctx, string(bz))"] := rfl

/-- `Keeper.NoticeQueue` -/
theorem sq_Keeper_NoticeQueue_listing : Gen.SkCoreX.sq_Keeper_NoticeQueue =
  ["func (k Keeper) NoticeQueue(ctx sdk.Context, endTime *time.Time) ([]types.Sequencer, error)",
   "  ret := []types.Sequencer{}",
   "  store := ctx.KVStore(k.storeKey)",
   "  prefix := types.NoticePeriodQueueKey",
   "  if endTime != nil",
   "    prefix = types.NoticeQueueByTimeKey(*endTime)",
   "  iterator := store.Iterator(types.NoticePeriodQueueKey, storetypes.PrefixEndBytes(prefix))",
   "  defer iterator.Close()",
   "  for ; iterator.Valid(); iterator.Next()",
   "    addr := string(iterator.Value())",
   "    seq, err := k.RealSequencer(ctx, string(iterator.Value()))",
   "    if err != nil",
   "      return nil, gerrc.ErrInternal",
   "    ret = append(ret, seq)",
   "  return ret, nil"] := rfl

/-- `Keeper.RealSequencer` -/
theorem sq_Keeper_RealSequencer_listing : Gen.SkCoreX.sq_Keeper_RealSequencer =
  ["func (k Keeper) RealSequencer(ctx sdk.Context, addr string) (types.Sequencer, error)",
   "  store := ctx.KVStore(k.storeKey)",
   "  b := store.Get(types.SequencerKey(addr))",
   "  if b == nil",
   "    return types.Sequencer{}, types.ErrSequencerNotFound",
   "  ret := types.Sequencer{}",
   "  k.cdc.MustUnmarshal(b, &ret)",
   "  return ret, nil"] := rfl

/-- `Keeper.RollappBondedSequencers` -/
theorem sq_Keeper_RollappBondedSequencers_listing : Gen.SkCoreX.sq_Keeper_RollappBondedSequencers =
  ["func (k Keeper) RollappBondedSequencers(ctx sdk.Context, rollappId string) []types.Sequencer",
   "  return k.RollappSequencersByStatus(ctx, rollappId, types.Bonded)"] := rfl

/-- `Keeper.RollappSequencers` -/
theorem sq_Keeper_RollappSequencers_listing : Gen.SkCoreX.sq_Keeper_RollappSequencers =
  ["func (k Keeper) RollappSequencers(ctx sdk.Context, rollappId string) []types.Sequencer",
   "  return k.prefixSequencers(ctx, types.SequencersByRollappKey(rollappId))"] := rfl

/-- `Keeper.RollappSequencersByStatus` -/
theorem sq_Keeper_RollappSequencersByStatus_listing : Gen.SkCoreX.sq_Keeper_RollappSequencersByStatus =
  ["func (k Keeper) RollappSequencersByStatus(ctx sdk.Context, rollappId string, status types.OperatingStatus) []types.Sequencer",
   "  return k.prefixSequencers(ctx, types.SequencersByRollappByStatusKey(rollappId, status))"] := rfl

/-- `Keeper.RollappSequencersByStatusPaginated` -/
theorem sq_Keeper_RollappSequencersByStatusPaginated_listing : Gen.SkCoreX.sq_Keeper_RollappSequencersByStatusPaginated =
  ["func (k Keeper) RollappSequencersByStatusPaginated(ctx sdk.Context, rollappId string, status types.OperatingStatus, pageReq *query.PageRequest) ([]types.Sequencer, *query.PageResponse, error)",
   "  return k.prefixSequencersPaginated(ctx, types.SequencersByRollappByStatusKey(rollappId, status), pageReq)"] := rfl

/-- `Keeper.RollappSequencersPaginated` -/
theorem sq_Keeper_RollappSequencersPaginated_listing : Gen.SkCoreX.sq_Keeper_RollappSequencersPaginated =
  ["func (k Keeper) RollappSequencersPaginated(ctx sdk.Context, rollappId string, pageReq *query.PageRequest) ([]types.Sequencer, *query.PageResponse, error)",
   "  return k.prefixSequencersPaginated(ctx, types.SequencersByRollappKey(rollappId), pageReq)"] := rfl

/-- `Keeper.SequencerByDymintAddr` -/
theorem sq_Keeper_SequencerByDymintAddr_listing : Gen.SkCoreX.sq_Keeper_SequencerByDymintAddr =
  ["func (k Keeper) SequencerByDymintAddr(ctx sdk.Context, addr cryptotypes.Address) (types.Sequencer, error)",
   "  accAddr, err := k.dymintProposerAddrToAccAddr.Get(ctx, addr)",
   "  if err != nil",
   "    if errorsmod.IsOf(err, collections.ErrNotFound)",
   "      return types.Sequencer{}, gerrc.ErrNotFound",
   "    return types.Sequencer{}, err",
   "  return k.RealSequencer(ctx, accAddr)"] := rfl

/-- `Keeper.SetProposer` -/
theorem sq_Keeper_SetProposer_listing : Gen.SkCoreX.sq_Keeper_SetProposer =
  ["func (k Keeper) SetProposer(ctx sdk.Context, rollapp, seqAddr string)",
   "  store := ctx.KVStore(k.storeKey)",
   "  addressBytes := []byte(seqAddr)",
   "  activeKey := types.ProposerByRollappKey(rollapp)",
   "  store.Set(activeKey, addressBytes)"] := rfl

/-- `Keeper.SetSequencer` -/
theorem sq_Keeper_SetSequencer_listing : Gen.SkCoreX.sq_Keeper_SetSequencer =
  ["func (k Keeper) SetSequencer(ctx sdk.Context, seq types.Sequencer)",
   "  store := ctx.KVStore(k.storeKey)",
   "  b := k.cdc.MustMarshal(&seq)",
   "  store.Set(types.SequencerKey(seq.Address), b)",
   "  for _, status := range types.AllStatus",
   "    oldKey := types.SequencerByRollappByStatusKey(seq.RollappId, seq.Address, status)",
   "    ctx.KVStore(k.storeKey).Delete(oldKey)",
   "  seqByRollappKey := types.SequencerByRollappByStatusKey(seq.RollappId, seq.Address, seq.Status)",
   "  store.Set(seqByRollappKey, b)"] := rfl

/-- `Keeper.SetSequencerByDymintAddr` -/
theorem sq_Keeper_SetSequencerByDymintAddr_listing : Gen.SkCoreX.sq_Keeper_SetSequencerByDymintAddr =
  ["func (k Keeper) SetSequencerByDymintAddr(ctx sdk.Context, dymint cryptotypes.Address, addr string) error",
   "  return k.dymintProposerAddrToAccAddr.Set(ctx, dymint, addr)"] := rfl

/-- `Keeper.SetSuccessor` -/
theorem sq_Keeper_SetSuccessor_listing : Gen.SkCoreX.sq_Keeper_SetSuccessor =
  ["func (k Keeper) SetSuccessor(ctx sdk.Context, rollapp, seqAddr string)",
   "  store := ctx.KVStore(k.storeKey)",
   "  addressBytes := []byte(seqAddr)",
   "  nextProposerKey := types.SuccessorByRollappKey(rollapp)",
   "  store.Set(nextProposerKey, addressBytes)"] := rfl

/-- `Keeper.prefixSequencerAddrs` -/
theorem sq_Keeper_prefixSequencerAddrs_listing : Gen.SkCoreX.sq_Keeper_prefixSequencerAddrs =
  ["func (k Keeper) prefixSequencerAddrs(ctx sdk.Context, pref []byte) []types.Sequencer",
   "  store := prefix.NewStore(ctx.KVStore(k.storeKey), pref)",
   "  iterator := storetypes.KVStorePrefixIterator(store, []byte{})",
   "  defer iterator.Close()",
   "  ret := []types.Sequencer{}",
   "  for ; iterator.Valid(); iterator.Next()",
   "    address := string(iterator.Value())",
   "    seq := k.GetSequencer(ctx, address)",
   "    ret = append(ret, seq)",
   "  return ret"] := rfl

/-- `Keeper.prefixSequencers` -/
theorem sq_Keeper_prefixSequencers_listing : Gen.SkCoreX.sq_Keeper_prefixSequencers =
  ["func (k Keeper) prefixSequencers(ctx sdk.Context, prefixKey []byte) []types.Sequencer",
   "  store := prefix.NewStore(ctx.KVStore(k.storeKey), prefixKey)",
   "  it := storetypes.KVStorePrefixIterator(store, []byte{})",
   "  defer it.Close()",
   "  var ret []types.Sequencer",
   "  for ; it.Valid(); it.Next()",
   "    var val types.Sequencer",
   "    k.cdc.MustUnmarshal(it.Value(), &val)",
   "    ret = append(ret, val)",
   "  return ret"] := rfl

/-- `Keeper.prefixSequencersPaginated` -/
theorem sq_Keeper_prefixSequencersPaginated_listing : Gen.SkCoreX.sq_Keeper_prefixSequencersPaginated =
  ["func (k Keeper) prefixSequencersPaginated(ctx sdk.Context, prefixKey []byte, pageReq *query.PageRequest) ([]types.Sequencer, *query.PageResponse, error)",
   "  store := prefix.NewStore(ctx.KVStore(k.storeKey), prefixKey)",
   "  var sequencers []types.Sequencer",
   "  pageRes, err := query.Paginate(store, pageReq, func#1)",
   "    func#1 (key []byte, value []byte) error",
   "      var val types.Sequencer",
   "      err := k.cdc.Unmarshal(value, &val)",
   "      if err != nil",
   "        return err",
   "      sequencers = append(sequencers, val)",
   "      return nil",
   "  if err != nil",
   "    return nil, nil, err",
   "  return sequencers, pageRes, nil"] := rfl

/-- `Keeper.removeFromNoticeQueue` -/
theorem sq_Keeper_removeFromNoticeQueue_listing : Gen.SkCoreX.sq_Keeper_removeFromNoticeQueue =
  ["func (k Keeper) removeFromNoticeQueue(ctx sdk.Context, seq types.Sequencer)",
   "  store := ctx.KVStore(k.storeKey)",
   "  noticePeriodKey := types.NoticeQueueBySeqTimeKey(seq.Address, seq.NoticePeriodTime)",
   "  store.Delete(noticePeriodKey)"] := rfl

/-- `RegisterInvariants` -/
theorem sq_RegisterInvariants_listing : Gen.SkCoreX.sq_RegisterInvariants =
  ["func RegisterInvariants(ir sdk.InvariantRegistry, k Keeper)",
   "  invs.RegisterInvariants(types.ModuleName, ir, k)"] := rfl

/-- `checkProposerAddrIndex` -/
theorem sq_checkProposerAddrIndex_listing : Gen.SkCoreX.sq_checkProposerAddrIndex =
  ["func checkProposerAddrIndex(ctx sdk.Context, k Keeper, exp types.Sequencer) error",
   "  hash := exp.MustProposerAddr()",
   "  got, err := k.SequencerByDymintAddr(ctx, hash)",
   "  if err != nil",
   "    return err",
   "  if got.Address != exp.Address",
   "    return fmt.Errorf(got.Address, exp.Address)",
   "  return nil"] := rfl

/-- `checkRollappStatus` -/
theorem sq_checkRollappStatus_listing : Gen.SkCoreX.sq_checkRollappStatus =
  ["func checkRollappStatus(ctx sdk.Context, k Keeper, ra string) error",
   "  proposer := k.GetProposer(ctx, ra)",
   "  if !proposer.Bonded()",
   "    return errors.New(\"proposer not bonded\")",
   "  successor := k.GetSuccessor(ctx, ra)",
   "  if !successor.Bonded()",
   "    return errors.New(\"successor not bonded\")",
   "  if !proposer.Sentinel() && proposer.Address == successor.Address",
   "    return errors.New(\"proposer and successor are the same\")",
   "  if !successor.Sentinel() && proposer.Sentinel()",
   "    return errors.New(\"proposer is sentinel but successor is not\")",
   "  all := k.RollappSequencers(ctx, ra)",
   "  bonded := k.RollappSequencersByStatus(ctx, ra, types.Bonded)",
   "  unbonded := k.RollappSequencersByStatus(ctx, ra, types.Unbonded)",
   "  if len(all) != len(bonded)+len(unbonded)",
   "    return errors.New(\"sequencer by rollapp length is not equal to sum of bonded, and unbonded\")",
   "  return nil"] := rfl

/-- `checkSeqTokens` -/
theorem sq_checkSeqTokens_listing : Gen.SkCoreX.sq_checkSeqTokens =
  ["func checkSeqTokens(seq types.Sequencer) error",
   "  err := seq.ValidateBasic()",
   "  if err != nil",
   "    return err",
   "  err := validBondDenom(seq.TokensCoin())",
   "  if err != nil",
   "    return err",
   "  if seq.TokensCoin().Amount.IsNegative()",
   "    return errors.New(\"negative seq tokens\")",
   "  return nil"] := rfl

/-- `msgServer.UpdateOptInStatus` -/
theorem sq_msgServer_UpdateOptInStatus_listing : Gen.SkCoreX.sq_msgServer_UpdateOptInStatus =
  ["func (k msgServer) UpdateOptInStatus(goCtx context.Context, msg *types.MsgUpdateOptInStatus) (*types.MsgUpdateOptInStatus, error)",
   "  seq, err := k.RealSequencer(ctx, msg.Creator)",
   "  if err != nil",
   "    return nil, err",
   "  if seq.NoticeStarted()",
   "    return nil, gerrc.ErrFailedPrecondition",
   "  err := seq.SetOptedIn(ctx, msg.OptedIn)",
   "  if err != nil",
   "    return nil, err",
   "  k.SetSequencer(ctx, seq)",
   "  proposer := k.GetProposer(ctx, seq.RollappId)",
   "  if proposer.Sentinel()",
   "    err := k.RecoverFromSentinel(ctx, seq.RollappId)",
   "    if err != nil",
   "      return nil, err",
   "  return &types.MsgUpdateOptInStatus{}, nil"] := rfl

/-- `msgServer.UpdateRewardAddress` -/
theorem sq_msgServer_UpdateRewardAddress_listing : Gen.SkCoreX.sq_msgServer_UpdateRewardAddress =
  ["func (k msgServer) UpdateRewardAddress(goCtx context.Context, msg *types.MsgUpdateRewardAddress) (*types.MsgUpdateRewardAddressResponse, error)",
   "  seq, err := k.RealSequencer(ctx, msg.Creator)",
   "  if err != nil",
   "    return nil, err",
   "  defer func#1()",
   "    func#1 ()",
   "      k.SetSequencer(ctx, seq)",
   "  seq.RewardAddr = msg.RewardAddr",
   "  return &types.MsgUpdateRewardAddressResponse{}, nil"] := rfl

/-- `msgServer.UpdateSequencerInformation` -/
theorem sq_msgServer_UpdateSequencerInformation_listing : Gen.SkCoreX.sq_msgServer_UpdateSequencerInformation =
  ["func (k msgServer) UpdateSequencerInformation(goCtx context.Context, msg *types.MsgUpdateSequencerInformation) (*types.MsgUpdateSequencerInformationResponse, error)",
   "  seq, err := k.RealSequencer(ctx, msg.Creator)",
   "  if err != nil",
   "    return nil, err",
   "  defer func#1()",
   "    func#1 ()",
   "      k.SetSequencer(ctx, seq)",
   "  rollapp := k.rollappKeeper.MustGetRollapp(ctx, seq.RollappId)",
   "  err := msg.VMSpecificValidate(rollapp.VmType)",
   "  if err != nil",
   "    return nil, err",
   "  seq.Metadata = msg.Metadata",
   "  return &types.MsgUpdateSequencerInformationResponse{}, nil"] := rfl

/-- `msgServer.UpdateWhitelistedRelayers` -/
theorem sq_msgServer_UpdateWhitelistedRelayers_listing : Gen.SkCoreX.sq_msgServer_UpdateWhitelistedRelayers =
  ["func (k msgServer) UpdateWhitelistedRelayers(goCtx context.Context, msg *types.MsgUpdateWhitelistedRelayers) (*types.MsgUpdateWhitelistedRelayersResponse, error)",
   "  seq, err := k.RealSequencer(ctx, msg.Creator)",
   "  if err != nil",
   "    return nil, err",
   "  defer func#1()",
   "    func#1 ()",
   "      k.SetSequencer(ctx, seq)",
   "  seq.SetWhitelistedRelayers(msg.Relayers)",
   "  return &types.MsgUpdateWhitelistedRelayersResponse{}, nil"] := rfl

/-- `every function with a body in the listed files, sorted per package` -/
theorem inventory_listing : Gen.SkCoreX.inventory =
  ["ra_AllInvariants",
   "ra_BlockHeightToFinalizationQueueInvariant",
   "ra_Keeper_AllSequencerHeightPairs",
   "ra_Keeper_CanUnbond",
   "ra_Keeper_CheckLiveness",
   "ra_Keeper_DelLivenessEvents",
   "ra_Keeper_DelSequencerHeight",
   "ra_Keeper_FinalizeAllPending",
   "ra_Keeper_FinalizeRollappStates",
   "ra_Keeper_FinalizeStates",
   "ra_Keeper_FindStateInfoByHeight",
   "ra_Keeper_GetAllBlockHeightToFinalizationQueue",
   "ra_Keeper_GetAllLatestFinalizedStateIndex",
   "ra_Keeper_GetAllLatestStateInfoIndex",
   "ra_Keeper_GetEntireFinalizationQueue",
   "ra_Keeper_GetFinalizationQueue",
   "ra_Keeper_GetFinalizationQueueByRollapp",
   "ra_Keeper_GetFinalizationQueueUntilHeightInclusive",
   "ra_Keeper_GetLatestFinalizedStateIndex",
   "ra_Keeper_GetLatestHeight",
   "ra_Keeper_GetLatestStateInfoIndex",
   "ra_Keeper_GetLivenessEvents",
   "ra_Keeper_HandleLivenessEvent",
   "ra_Keeper_IndicateLiveness",
   "ra_Keeper_MustRemoveFinalizationQueue",
   "ra_Keeper_MustSetFinalizationQueue",
   "ra_Keeper_PruneSequencerHeights",
   "ra_Keeper_PutLivenessEvent",
   "ra_Keeper_RemoveBlockHeightToFinalizationQueue",
   "ra_Keeper_RemoveFinalizationQueue",
   "ra_Keeper_RemoveLatestFinalizedStateIndex",
   "ra_Keeper_RemoveLatestStateInfoIndex",
   "ra_Keeper_ResetLivenessClock",
   "ra_Keeper_SaveSequencerHeight",
   "ra_Keeper_ScheduleLivenessEvent",
   "ra_Keeper_SetBlockHeightToFinalizationQueue",
   "ra_Keeper_SetFinalizationQueue",
   "ra_Keeper_SetLatestFinalizedStateIndex",
   "ra_Keeper_SetLatestStateInfoIndex",
   "ra_Keeper_StateInfo",
   "ra_Keeper_finalizePendingState",
   "ra_Keeper_getFinalizationQueue",
   "ra_LivenessEventInvariant",
   "ra_NextSlashHeight",
   "ra_RegisterInvariants",
   "ra_RollappByEIP155KeyInvariant",
   "ra_RollappCountInvariant",
   "ra_RollappFinalizedStateInvariant",
   "rat_LivenessEventQueueIterHeightKey",
   "rat_LivenessEventQueueKey",
   "rat_LivenessEventQueueKeyToEvent",
   "rat_NewStateInfo",
   "rat_StateInfo_ContainsHeight",
   "rat_StateInfo_Finalize",
   "rat_StateInfo_GetBlockDescriptor",
   "rat_StateInfo_GetEvents",
   "rat_StateInfo_GetIndex",
   "rat_StateInfo_GetLatestBlockDescriptor",
   "rat_StateInfo_GetLatestHeight",
   "rat_StateInfo_GetRollappId",
   "rat_StateInfo_NextSequencerForHeight",
   "sq_AllInvariants",
   "sq_InvariantDoNotExposeSentinel",
   "sq_InvariantNotice",
   "sq_InvariantProposerAddrIndex",
   "sq_InvariantStatus",
   "sq_InvariantTokens",
   "sq_Keeper_AddToNoticeQueue",
   "sq_Keeper_AllProposers",
   "sq_Keeper_AllSequencers",
   "sq_Keeper_AllSuccessors",
   "sq_Keeper_GetProposer",
   "sq_Keeper_GetSequencer",
   "sq_Keeper_GetSuccessor",
   "sq_Keeper_NoticeQueue",
   "sq_Keeper_RealSequencer",
   "sq_Keeper_RollappBondedSequencers",
   "sq_Keeper_RollappSequencers",
   "sq_Keeper_RollappSequencersByStatus",
   "sq_Keeper_RollappSequencersByStatusPaginated",
   "sq_Keeper_RollappSequencersPaginated",
   "sq_Keeper_SequencerByDymintAddr",
   "sq_Keeper_SetProposer",
   "sq_Keeper_SetSequencer",
   "sq_Keeper_SetSequencerByDymintAddr",
   "sq_Keeper_SetSuccessor",
   "sq_Keeper_prefixSequencerAddrs",
   "sq_Keeper_prefixSequencers",
   "sq_Keeper_prefixSequencersPaginated",
   "sq_Keeper_removeFromNoticeQueue",
   "sq_RegisterInvariants",
   "sq_checkProposerAddrIndex",
   "sq_checkRollappStatus",
   "sq_checkSeqTokens",
   "sq_msgServer_UpdateOptInStatus",
   "sq_msgServer_UpdateRewardAddress",
   "sq_msgServer_UpdateSequencerInformation",
   "sq_msgServer_UpdateWhitelistedRelayers"] := rfl

end DymVerif.GenEqSk.CoreX
