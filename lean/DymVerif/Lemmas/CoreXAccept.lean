/-
  Lemmas/CoreXAccept — the timestamp rule of `MsgUpdateState` (`updPre`): what acceptance implies,
  and the exact rejection (`Err.noTimestamp`) under the guard order of the handler.
-/
import DymVerif.Lemmas.CoreChainInv2
namespace DymVerif.Core.XUpd
open DymVerif.Core

/-- "the previous state's last block descriptor carries a timestamp, or there is no previous state":
    the situation in which every descriptor of an update must carry a timestamp -/
def TsRequired (r : Rollapp) : Prop :=
  r.states = [] ∨ ∃ l b, r.states.getLast? = some l ∧ l.bds.getLast? = some b ∧ b.hasTs = true

/-- the timestamp rule as implied by an accepted `updPre` -/
theorem updPre_ts {r : Rollapp} {m : UpdMsg} (h : updPre r m = .ok ()) (hreq : TsRequired r) :
    ∀ b ∈ m.bds, b.hasTs = true := by
  have key : m.bds.all (·.hasTs) = true := by
    unfold updPre at h
    rcases hreq with h0 | ⟨l, b, hl, hb, ht⟩
    · rw [h0] at h
      simp only [List.getLast?_nil] at h
      split at h
      · cases h
      · rename_i hc; simpa using hc
    · rw [hl] at h
      dsimp only at h
      rw [hb] at h
      simp only [Option.map_some, Option.getD_some, ht, Bool.true_and] at h
      split at h
      · cases h
      · rename_i hc; simpa using hc
  intro b hb
  exact List.all_eq_true.1 key b hb

/-- the timestamp rule violated: `updPre` answers `noTimestamp` (before it looks at the start height) -/
theorem updPre_noTimestamp {r : Rollapp} {m : UpdMsg} (hreq : TsRequired r) (hmiss : ∃ b ∈ m.bds, b.hasTs = false) :
    updPre r m = .error .noTimestamp := by
  have hall : m.bds.all (·.hasTs) = false := by
    obtain ⟨b, hb, hf⟩ := hmiss
    cases hx : m.bds.all (·.hasTs) with
    | false => rfl
    | true =>
      have := List.all_eq_true.1 hx b hb
      rw [hf] at this; cases this
  unfold updPre
  rcases hreq with h0 | ⟨l, b, hl, hb, ht⟩
  · rw [h0]
    simp [hall]
  · rw [hl]
    simp [hb, ht, hall]

/-- the handler's answer when every guard before the timestamp rule passes and the rule is violated -/
theorem updateState_noTimestamp {s : St} {m : UpdMsg} {r : Rollapp}
    (hvb : updValidateBasic m = .ok ()) (hg : getRa s m.ra = some r) (hprop : r.proposer = some m.sender)
    (hlast : m.last = true → awaitingLast s r = true) (hrev : latestRev r = m.rev)
    (hreq : TsRequired r) (hmiss : ∃ b ∈ m.bds, b.hasTs = false) :
    updateState s m = .error .noTimestamp := by
  have hpre := updPre_noTimestamp hreq hmiss
  have hl : (m.last && !awaitingLast s r) = false := by
    cases hm : m.last with
    | false => rfl
    | true => rw [hlast hm]; rfl
  unfold updateState
  rw [hvb]
  dsimp only
  rw [hg]
  dsimp only
  rw [hprop, hl, hrev, hpre]
  simp

end DymVerif.Core.XUpd
