/-
  Lemmas/PacketsTgtX — a redirected pending packet is frozen: one step of M-Packets writes a pending
  packet only under a key that held no packet, or a packet that had not been redirected
  (`orig = none`); every other pending packet of the new state is a packet of the old one.
-/
import DymVerif.Lemmas.PacketsFulX
namespace DymVerif.Packets
open DymVerif DymVerif.Keys

def PktStep (s s' : St) : Prop :=
  ∀ p' ∈ s'.packets, p'.status = .pending →
    p' ∈ s.packets ∨ (∀ p ∈ s.packets, pkey p = pkey p' → p.orig = none)

theorem PktStep.of_eq {s s' : St} (h : s'.packets = s.packets) : PktStep s s' := fun _ hp' _ => Or.inl (h ▸ hp')

theorem PktStep.of_sub {s s' : St} (h : ∀ p ∈ s'.packets, p.status = .pending → p ∈ s.packets) : PktStep s s' :=
  fun p hp hs => Or.inl (h p hp hs)

theorem PktStep.congr {s0 s s' s1 : St} (hl : s.packets = s0.packets) (hr : s1.packets = s'.packets) (f : PktStep s s') :
    PktStep s0 s1 := by
  unfold PktStep at *
  rw [hr, ← hl]; exact f

theorem pktStep_setPacket_fresh {s : St} (p : Packet) (a : Addr) (k : Bytes) (fresh : ∀ q ∈ s.packets, pkey q ≠ pkey p) :
    PktStep s (setPacket (addByAddr s a k) p) := by
  intro p' hp' _
  rcases mem_setPacket.mp hp' with rfl | ⟨h1, _⟩
  · exact Or.inr (fun q hq hk => absurd hk (fresh q hq))
  · exact Or.inl h1

theorem pktStep_recvAuth {s0 : St} (c seq ph : Nat) (d : RecvData) (i0 : IdxInv s0)
    (hnp : ¬ pendL s0.packets (true, c, seq)) (hph : ph < 2 ^ 64) (hseq : seq < 2 ^ 64) :
    PktStep s0 (recvAuth s0 c seq ph d).1 := by
  have hfail : PktStep s0 (recvFail s0 c seq).1 := PktStep.of_eq rfl
  unfold recvAuth
  split
  · exact hfail
  · rename_i ra hra
    split
    · exact hfail
    · split
      · exact hfail
      · rename_i tgt htgt
        split
        · unfold recvPass
          split
          · exact hfail
          · rename_i s1 hi
            exact PktStep.of_eq (oframe_icsRecv hi).packets
        · rename_i hdel
          unfold recvDelay
          split
          · exact hfail
          · split
            · exact hfail
            · rename_i s2 he
              obtain ⟨rid, hrid⟩ : ∃ rid, ra = some rid := by
                cases ra with
                | none => simp at hdel
                | some r => exact ⟨r, rfl⟩
              subst hrid
              have hP : PktOk s0 (mkRecvPacket s0 c seq ph ((some rid).getD []) d tgt) := by
                refine ⟨hra, ?_, hph, hseq, by simp [mkRecvPacket]⟩
                simp [mkRecvPacket]
              have fresh : ∀ q ∈ s0.packets, pkey q ≠ pkey (mkRecvPacket s0 c seq ph ((some rid).getD []) d tgt) := by
                intro q hq hk
                obtain ⟨hu, hst⟩ := key_determines_uid i0.cfg hP (i0.pk q hq) hk
                exact hnp ⟨q, hq, hst, hu⟩
              exact PktStep.congr (s := s0) rfl (frame_eibcOnRecv he).packets (pktStep_setPacket_fresh _ _ _ fresh)

theorem pktStep_recvForward {s0 : St} (c seq ph : Nat) (d : RecvData) (k : Nat) (i0 : IdxInv s0)
    (hnp : ¬ pendL s0.packets (true, c, seq)) (hph : ph < 2 ^ 64) (hseq : seq < 2 ^ 64) :
    PktStep s0 (recvForward s0 c seq ph d k).1 := by
  have hfail : PktStep s0 (recvFail s0 c seq).1 := PktStep.of_eq rfl
  unfold recvForward
  have ha := pktStep_recvAuth c seq ph { d with target := some (pfmAddr c), memo := .none } i0 hnp hph hseq
  split
  · rename_i s1 hr
    rw [hr] at ha
    split
    · rename_i s2 hs
      have e : s2.packets = s1.packets := (oframe_sendOpen (sendTransfer_ok hs)).packets
      exact PktStep.congr (s := s0) (s' := s1) rfl e ha
    · exact hfail
  · exact hfail

theorem pktStep_recvOpen {s : St} (c seq ph : Nat) (d : RecvData) (h4 : Inv04 s) (hi : IdxInv s)
    (hph : ph < 2 ^ 64) (hseq : seq < 2 ^ 64) : PktStep s (recvOpen s c seq ph d).1 := by
  unfold recvOpen
  split
  · exact PktStep.of_eq rfl
  · rename_i hc
    have hnr : (c, seq) ∉ s.receipts := by simpa using hc
    have hnp : ¬ pendL s.packets (true, c, seq) := fun hp => hnr (InvF.rcv h4 c seq (Or.inr hp))
    have i0 : IdxInv { s with receipts := s.receipts ++ [(c, seq)] } := IdxInv.of_frame (iframe_receipts s (c, seq)) hi
    split
    · exact PktStep.congr (s0 := s) rfl rfl (pktStep_recvForward c seq ph d _ i0 hnp hph hseq)
    · exact PktStep.congr (s0 := s) rfl rfl (pktStep_recvAuth c seq ph d i0 hnp hph hseq)

theorem pktStep_ackOpen {s s' : St} {c seq ph : Nat} {isTimeout isErr : Bool} (h4 : Inv04 s) (hi : IdxInv s)
    (hph : ph < 2 ^ 64) (hseq : seq < 2 ^ 64) (ha : ackOpen s c seq ph isTimeout isErr = .ok (some s')) : PktStep s s' := by
  unfold ackOpen at ha
  split at ha
  · cases ha
  · rename_i hc
    have hmem : (c, seq) ∈ s.commits := by simpa using hc
    have hnp : ¬ pendL s.packets (false, c, seq) := fun hp => (InvF.snt h4 c seq (Or.inr hp)).1 hmem
    split at ha
    · cases ha
    · rename_i x hx
      obtain ⟨rfl, rfl⟩ := getSent_some hx
      generalize hs0 : ({ s with commits := s.commits.filter (· != (x.chan, x.seq)) } : St) = s0 at ha
      have f0 : IFrame s s0 := by subst hs0; exact ⟨rfl, rfl, rfl, rfl⟩
      have i0 : IdxInv s0 := IdxInv.of_frame f0 hi
      refine PktStep.congr (s := s0) (s' := s') f0.packets rfl ?_
      unfold ackAuth at ha
      split at ha
      · cases ha
      · rename_i ra hra
        split at ha
        · unfold ackPass at ha
          split at ha
          · split at ha
            · cases ha
            · rename_i s1 hi1
              cases ha
              exact PktStep.of_eq (oframe_icsRefund hi1).packets
          · cases ha; exact PktStep.of_eq rfl
        · rename_i hdel
          obtain ⟨rid, hrid⟩ : ∃ rid, ra = some rid := by
            cases ra with
            | none => simp at hdel
            | some r => exact ⟨r, rfl⟩
          subst hrid
          have hP : PktOk s0 (mkSentPacket s0 x (sentType isTimeout) ph ((some rid).getD []) (!isTimeout && isErr)) := by
            refine ⟨hra, ?_, hph, hseq, by cases isTimeout <;> simp [mkSentPacket, sentType]⟩
            simp [mkSentPacket, sentType_ne_recv]
          have fresh : ∀ q ∈ s0.packets,
              pkey q ≠ pkey (mkSentPacket s0 x (sentType isTimeout) ph ((some rid).getD []) (!isTimeout && isErr)) := by
            intro q hq hk
            obtain ⟨hu, hst⟩ := key_determines_uid i0.cfg hP (i0.pk q hq) hk
            rw [f0.packets] at hq
            rw [mkSentPacket_uid] at hu
            exact hnp ⟨q, hq, hst, hu⟩
          unfold ackDelay at ha
          split at ha
          · cases ha
          · split at ha
            · split at ha
              · cases ha
              · rename_i s2 he
                cases ha
                exact PktStep.congr (s := s0) rfl (frame_eibcOnRefund (eibcRefundHandler_ok he)).packets
                  (pktStep_setPacket_fresh _ _ _ fresh)
            · cases ha
              exact pktStep_setPacket_fresh _ _ _ fresh

theorem afterPacketStatusUpdated_packets (s : St) (a b : Bytes) (st : Status) :
    (afterPacketStatusUpdated s a b st).packets = s.packets := by
  unfold afterPacketStatusUpdated
  split <;> rfl

theorem pktStep_finalizePacket {s s' : St} {k : Bytes} (hf : finalizePacket s k = .ok s') : PktStep s s' := by
  unfold finalizePacket at hf
  split at hf
  · cases hf
  · rename_i p hp
    split at hf
    · cases hf
    · unfold updateAfterFinalization at hf
      split at hf
      · cases hf
      · cases hf
        apply PktStep.of_sub
        intro q hq hs
        rw [afterPacketStatusUpdated_packets] at hq
        rcases mem_setPacket.mp hq with rfl | ⟨h1, _⟩
        · simp [flipped] at hs
        · have h2 := (mem_delPacket.mp h1).1
          have e : (releaseEffect s p).1.packets = s.packets := (oframe_releaseEffect s p).packets
          rw [← e]
          exact h2

theorem pktStep_setOrderFulfilled {s s' : St} {o : Order} {f : Addr} {c : Option Addr} (h : InvX s) (hk : KeysNodup s.packets)
    (ho : o ∈ s.orders) (hs : o.status = .pending) (hf : o.fulfiller = none)
    (hu : setOrderFulfilled s o f c = .ok s') : PktStep s s' := by
  unfold setOrderFulfilled at hu
  obtain ⟨p, hp, _, rfl⟩ := updateTransferAddress_ok hu
  obtain ⟨hpm, hpk⟩ := getPacket_some hp
  have hpm' : p ∈ s.packets := hpm
  obtain ⟨p0, hp0, hl0⟩ := h o ho hs
  have e0 : p0 = p := keysNodup_eq hk hpm' hp0 (hl0.key.trans hpk.symm)
  have hl : LinkP p o := e0 ▸ hl0
  have horig : p.orig = none := by
    have := hl.fulfiller
    rw [hf] at this
    cases hh : p.orig with
    | none => rfl
    | some x => rw [hh] at this; simp at this
  intro p' hp' _
  rcases mem_setPacket.mp hp' with rfl | ⟨h1, _⟩
  · right
    intro q hq hkq
    have : q = p := keysNodup_eq hk hpm' hq hkq
    rw [this]; exact horig
  · exact Or.inl h1

theorem pktStep_fulfillCore {s s' : St} {o : Order} {f : Addr} (h : InvX s) (hk : KeysNodup s.packets)
    (ho : o ∈ s.orders) (hs : o.status = .pending) (hf : o.fulfiller = none)
    (hu : fulfillCore s o f = .ok s') : PktStep s s' := by
  unfold fulfillCore at hu
  split at hu
  · cases hu
  · split at hu
    · cases hu
    · rename_i s1 hsc
      have f1 := oframe_sendCoins hsc
      exact PktStep.congr (s := s1) (s' := s') f1.packets rfl
        (pktStep_setOrderFulfilled (invX_oframe f1 h) (by rw [f1.packets]; exact hk) (by rw [f1.orders]; exact ho) hs hf hu)

theorem pktStep_fulfillAuthorizedCore {s s' : St} {m : AuthMsg} (h : InvX s) (hk : KeysNodup s.packets)
    (hu : fulfillAuthorizedCore s m = .ok s') : PktStep s s' := by
  obtain ⟨o, ho, _, s1, s2, hs1, hs2, hfu⟩ := fulfillAuthorizedCore_ok hu
  obtain ⟨hm, hs, hf⟩ := outstanding_pending ho
  have f := (oframe_sendCoins hs1).trans (oframe_payOperator hs2)
  exact PktStep.congr (s := s2) (s' := s') f.packets rfl
    (pktStep_setOrderFulfilled (invX_oframe f h) (by rw [f.packets]; exact hk) (by rw [f.orders]; exact hm) hs hf hfu)

theorem msgDeleteLps_packets {owner : Addr} : ∀ (ids : List Nat) {s s' : St}, msgDeleteLps s owner ids = .ok s' → s'.packets = s.packets
  | [], s, s', hu => by unfold msgDeleteLps at hu; cases hu; rfl
  | id :: rest, s, s', hu => by
    unfold msgDeleteLps at hu
    split at hu
    · exact msgDeleteLps_packets rest hu
    · split at hu
      · cases hu
      · exact msgDeleteLps_packets rest (s := delLp s id) hu

theorem deletePacket_packets_sub (s : St) (p : Packet) : ∀ q ∈ (deletePacket s p).packets, q ∈ s.packets := by
  intro q hq
  unfold deletePacket at hq
  have hq' : q ∈ (delPacket s (pkey p)).packets := hq
  exact (mem_delPacket.mp hq').1

theorem foldl_deletePacket_packets_sub : ∀ (l : List Packet) (s : St), ∀ q ∈ (l.foldl deletePacket s).packets, q ∈ s.packets
  | [], _, _, hq => hq
  | p :: rest, s, q, hq => deletePacket_packets_sub s p q (foldl_deletePacket_packets_sub rest (deletePacket s p) q hq)

theorem revertPacket_packets_sub (s : St) (p : Packet) : ∀ q ∈ (revertPacket s p).packets, q ∈ s.packets := by
  intro q hq
  unfold revertPacket at hq
  have := deletePacket_packets_sub _ p q hq
  unfold revertIbc at this
  split at this <;> exact this

theorem foldl_revertPacket_packets_sub : ∀ (l : List Packet) (s : St), ∀ q ∈ (l.foldl revertPacket s).packets, q ∈ s.packets
  | [], _, _, hq => hq
  | p :: rest, s, q, hq => revertPacket_packets_sub s p q (foldl_revertPacket_packets_sub rest (revertPacket s p) q hq)

theorem pktStep_ofM {s : St} {m : M St} (hm : ∀ s', m = .ok s' → PktStep s s') : PktStep s (ofM s m).1 := by
  cases m with
  | ok s' => exact hm s' rfl
  | error e => exact PktStep.of_eq rfl

theorem pktStep_step {s : St} (o : Op) (hb : BoundedOp o) (h : InvAll s) : PktStep s (step s o).1 := by
  have hk : KeysNodup s.packets := InvF.keys h.i4
  cases o with
  | recv c seq ph d =>
    show PktStep s (recvPacket s c seq ph d).1
    rcases recvPacket_cases s c seq ph d with e | e <;> rw [e]
    · exact PktStep.of_eq rfl
    · exact pktStep_recvOpen c seq ph d h.i4 h.idx hb.1 hb.2
  | send a c d amt => exact pktStep_ofM (fun _ e => PktStep.of_eq (oframe_sendOpen (sendTransfer_ok e)).packets)
  | ack c seq ph isErr =>
    simp only [step]
    split
    · exact PktStep.of_eq rfl
    · rename_i s' e; exact pktStep_ackOpen h.i4 h.idx hb.1 hb.2 (ackPacket_ok e)
    · exact PktStep.of_eq rfl
  | timeout c seq ph =>
    simp only [step]
    split
    · exact PktStep.of_eq rfl
    · rename_i s' e; exact pktStep_ackOpen h.i4 h.idx hb.1 hb.2 (ackPacket_ok e)
    · exact PktStep.of_eq rfl
  | chanClose c => exact pktStep_ofM (fun _ e => PktStep.of_eq (oframe_setChanClosed e).packets)
  | chanOpen c => exact pktStep_ofM (fun _ e => PktStep.of_eq (oframe_setChanClosed e).packets)
  | timeoutOnClose c seq =>
    exact pktStep_ofM (fun _ e => by unfold timeoutOnClose at e; split at e <;> cases e; exact PktStep.of_eq rfl)
  | sendBlk a c d amt =>
    exact pktStep_ofM (fun _ e => by
      obtain ⟨s1, hs, rfl⟩ := sendBlk_ok e
      exact PktStep.of_eq (oframe_sendOpen hs).packets)
  | finalize a rid ph t src seq =>
    apply pktStep_ofM
    intro s' e
    unfold msgFinalize at e
    split at e
    · cases e
    · exact pktStep_finalizePacket e
  | finalizeByKey a b =>
    apply pktStep_ofM
    intro s' e
    unfold msgFinalizeByKey at e
    split at e
    · cases e
    · split at e
      · cases e
      · exact pktStep_finalizePacket e
  | fulfill a id fee =>
    apply pktStep_ofM
    intro s' e
    obtain ⟨o, ho, _, hc⟩ := msgFulfill_ok e
    obtain ⟨hm, hs, hf⟩ := outstanding_pending ho
    exact pktStep_fulfillCore h.x hk hm hs hf hc
  | fulfillAuth g m =>
    apply pktStep_ofM
    intro s' e
    obtain ⟨_, hcase⟩ := msgFulfillAuthorized_ok e
    rcases hcase with ⟨_, hc⟩ | ⟨_, gr, r, _, _, hc⟩
    · exact pktStep_fulfillAuthorizedCore h.x hk hc
    · cases r with
      | none => exact pktStep_fulfillAuthorizedCore (s := delGrant s m.lp g) h.x hk hc
      | some g' => exact pktStep_fulfillAuthorizedCore (s := setGrant s g') h.x hk hc
  | onDemand a id perm =>
    apply pktStep_ofM
    intro s' e
    obtain ⟨o, ho, l0, _, s1, s2, hd, hc, rfl⟩ := msgOnDemand_ok e
    obtain ⟨hm, hs, hf⟩ := outstanding_pending ho
    have e1 : s1.packets = s.packets := by rw [hd.eq]
    have e2 : s1.orders = s.orders := by rw [hd.eq]
    have h1 : InvX s1 := invX_congr e2 e1 h.x
    exact PktStep.congr (s := s1) (s' := s2) e1 rfl
      (pktStep_fulfillCore h1 (by rw [e1]; exact hk) (by rw [e2]; exact hm) hs hf hc)
  | updateFee a id fee =>
    apply pktStep_ofM
    intro s' e
    obtain ⟨_, o, p, price, _, _, _, _, rfl⟩ := msgUpdateFee_ok e
    exact PktStep.of_eq rfl
  | createLp l ok =>
    apply pktStep_ofM
    intro s' e
    unfold msgCreateLp at e
    split at e
    · cases e
    · split at e
      · cases e
      · cases e; exact PktStep.of_eq rfl
  | deleteLps a ids => exact pktStep_ofM (fun _ e => PktStep.of_eq (msgDeleteLps_packets ids e))
  | grant g =>
    apply pktStep_ofM
    intro s' e
    unfold msgGrant at e
    split at e
    · cases e
    · split at e
      · cases e
      · split at e
        · cases e
        · cases e; exact PktStep.of_eq rfl
  | addState rid n =>
    apply pktStep_ofM
    intro s' e
    unfold addState at e
    split at e
    · cases e
    · split at e
      · cases e
      · cases e; exact PktStep.of_eq rfl
  | finalizeState rid =>
    apply pktStep_ofM
    intro s' e
    unfold finalizeState at e
    split at e
    · cases e
    · split at e
      · cases e; exact PktStep.of_eq rfl
      · cases e
  | fork rid lv =>
    apply pktStep_ofM
    intro s' e
    unfold forkRollapp at e
    split at e
    · cases e
    · split at e
      · cases e
      · split at e
        · cases e
        · split at e
          · cases e
          · cases e
            exact PktStep.of_sub (fun q hq _ => foldl_revertPacket_packets_sub _ (setRa s _) q hq)
  | epoch => exact PktStep.of_sub (fun q hq _ => foldl_deletePacket_packets_sub _ _ q hq)
  | block => exact PktStep.of_eq rfl

/-- a redirected pending packet that is still pending (under its key) after a step is unchanged -/
theorem redirected_frozen_step {s : St} (op : Op) (hb : BoundedOp op) (h : InvAll s) {p p' : Packet}
    (hp : p ∈ s.packets) (ho : p.orig.isSome = true)
    (hp' : p' ∈ (step s op).1.packets) (hs' : p'.status = .pending) (hk : pkey p' = pkey p) : p' = p := by
  rcases pktStep_step op hb h p' hp' hs' with h1 | h2
  · exact keysNodup_eq (InvF.keys h.i4) hp h1 hk
  · have := h2 p hp hk.symm
    rw [this] at ho; cases ho

end DymVerif.Packets
