/-
  Lemmas/IncentStreams — the stream side of M-Incent: the streamer's stream cache is a faithful copy of
  the store whose extra `distributed` coins equal what is transferred; streams only ever grow in
  `distributed`; the streamer account covers the open streams as long as no stream over-distributes.
-/
import DymVerif.Lemmas.IncentInv
namespace DymVerif.Incent
open DymVerif Coins

/-! ### the stream store -/

def getS (ss : List Stream) (id : Nat) : Option Stream := if id = 0 then none else ss[id - 1]?
theorem getStream_eq (s : State) (id : Nat) : getStream s id = getS s.streams id := rfl

def SidOK (ss : List Stream) : Prop := ∀ k (h : k < ss.length), ss[k].id = k + 1

theorem getS_some {ss : List Stream} (hid : SidOK ss) {id : Nat} {st : Stream} (h : getS ss id = some st) :
    1 ≤ id ∧ ∃ hk : id - 1 < ss.length, ss[id - 1] = st ∧ st.id = id ∧ st ∈ ss := by
  unfold getS at h
  by_cases h0 : id = 0
  · simp [h0] at h
  · rw [if_neg h0] at h
    obtain ⟨hk, he⟩ := List.getElem?_eq_some_iff.1 h
    refine ⟨by omega, hk, he, ?_, ?_⟩
    · rw [← he, hid _ hk]; omega
    · rw [← he]; exact List.getElem_mem hk

theorem getS_set_ne (ss : List Stream) (k : Nat) (v : Stream) (id : Nat) (h : id ≠ k + 1) :
    getS (ss.set k v) id = getS ss id := by
  unfold getS
  by_cases h0 : id = 0
  · simp [h0]
  · simp only [h0, if_false]
    rw [List.getElem?_set_ne (by omega)]

theorem getS_set_eq (ss : List Stream) (k : Nat) (v : Stream) (hk : k < ss.length) :
    getS (ss.set k v) (k + 1) = some v := by
  unfold getS
  simp [hk]

theorem sidOK_set {ss : List Stream} (hid : SidOK ss) (k : Nat) (v : Stream) (hv : v.id = k + 1) : SidOK (ss.set k v) := by
  intro j hj
  rw [List.getElem_set]
  split
  · next h => rw [← h]; exact hv
  · exact hid j (by simpa using hj)

/-! ### streams only grow in `distributed`; coins and ids never change -/

def StreamsMono (ss ss' : List Stream) : Prop :=
  ss.length ≤ ss'.length ∧
  ∀ k (h : k < ss.length) (h' : k < ss'.length), ss'[k].coins = ss[k].coins ∧ ss'[k].id = ss[k].id ∧
    ∀ i, amt ss[k].distributed i ≤ amt ss'[k].distributed i

theorem StreamsMono.refl (ss : List Stream) : StreamsMono ss ss :=
  ⟨Nat.le_refl _, fun _ _ _ => ⟨rfl, rfl, fun _ => Nat.le_refl _⟩⟩

theorem StreamsMono.trans {a b c : List Stream} (h1 : StreamsMono a b) (h2 : StreamsMono b c) : StreamsMono a c := by
  refine ⟨Nat.le_trans h1.1 h2.1, ?_⟩
  intro k h h'
  have hb : k < b.length := Nat.lt_of_lt_of_le h h1.1
  obtain ⟨a1, a2, a3⟩ := h1.2 k h hb
  obtain ⟨b1, b2, b3⟩ := h2.2 k hb h'
  exact ⟨b1.trans a1, b2.trans a2, fun i => Nat.le_trans (a3 i) (b3 i)⟩

/-- no stream has distributed more than its coins -/
def NoOver (ss : List Stream) : Prop := ∀ st ∈ ss, ∀ i, amt st.distributed i ≤ amt st.coins i

theorem NoOver_of_mono {ss ss' : List Stream} (hm : StreamsMono ss ss') (h : NoOver ss') : NoOver ss := by
  intro st hst i
  obtain ⟨k, hk, he⟩ := List.getElem_of_mem hst
  have hk' : k < ss'.length := Nat.lt_of_lt_of_le hk hm.1
  obtain ⟨a1, _, a3⟩ := hm.2 k hk hk'
  have := h ss'[k] (List.getElem_mem hk') i
  rw [← he, ← a1]
  exact Nat.le_trans (a3 i) this

theorem StreamsMono_set (ss : List Stream) (k : Nat) (v : Stream) (hk : k < ss.length)
    (hc : v.coins = ss[k].coins) (hi : v.id = ss[k].id) (hd : ∀ i, amt ss[k].distributed i ≤ amt v.distributed i) :
    StreamsMono ss (ss.set k v) := by
  refine ⟨by simp, ?_⟩
  intro j h h'
  rw [List.getElem_set]
  split
  · next he => subst he; exact ⟨hc, hi, hd⟩
  · exact ⟨rfl, rfl, fun _ => Nat.le_refl _⟩

theorem StreamsMono_append (ss : List Stream) (v : Stream) : StreamsMono ss (ss ++ [v]) := by
  refine ⟨by simp, ?_⟩
  intro k h h'
  rw [List.getElem_append_left h]
  exact ⟨rfl, rfl, fun _ => Nat.le_refl _⟩

/-! ### the streamer's stream cache -/

theorem upsertStream_present (f : Stream → Nat) : ∀ (l : List Stream) (g x : Stream), (l.map (·.id)).Nodup → x ∈ l → x.id = g.id →
    (upsertStream l g).map (·.id) = l.map (·.id) ∧
    (∀ y ∈ upsertStream l g, y = g ∨ (y ∈ l ∧ y.id ≠ g.id)) ∧
    ((upsertStream l g).map f).sum + f x = (l.map f).sum + f g := by
  intro l
  induction l with
  | nil => intro g x _ hx; simp at hx
  | cons a as ih =>
    intro g x hnd hx hid
    have hnd0 : (a.id :: as.map (·.id)).Nodup := hnd
    obtain ⟨hna, hnd'⟩ := List.nodup_cons.1 hnd0
    unfold upsertStream
    by_cases ha : a.id = g.id
    · rw [if_pos ha]
      have hxa : x = a := by
        rcases List.mem_cons.1 hx with h | h
        · exact h
        · exfalso; apply hna; rw [ha, ← hid]; exact List.mem_map_of_mem (f := (·.id)) h
      subst hxa
      refine ⟨by simp [ha], ?_, by simp only [List.map_cons, List.sum_cons]; omega⟩
      intro y hy
      rcases List.mem_cons.1 hy with h | h
      · exact Or.inl h
      · right
        refine ⟨List.mem_cons_of_mem _ h, ?_⟩
        intro he
        apply hna; rw [ha, ← he]; exact List.mem_map_of_mem (f := (·.id)) h
    · rw [if_neg ha]
      have hxas : x ∈ as := by
        rcases List.mem_cons.1 hx with h | h
        · exfalso; rw [h] at hid; exact ha hid
        · exact h
      obtain ⟨i1, i2, i3⟩ := ih g x hnd' hxas hid
      refine ⟨by simp only [List.map_cons, i1], ?_, by simp only [List.map_cons, List.sum_cons]; omega⟩
      intro y hy
      rcases List.mem_cons.1 hy with h | h
      · right; rw [h]; exact ⟨List.mem_cons_self, ha⟩
      · rcases i2 y h with h2 | ⟨h2, h3⟩
        · exact Or.inl h2
        · exact Or.inr ⟨List.mem_cons_of_mem _ h2, h3⟩

theorem cacheGetStream_some {c : Caches} {id : Nat} {st : Stream} (h : c.getStream id = some st) : st ∈ c.streams ∧ st.id = id := by
  unfold Caches.getStream at h
  exact ⟨List.mem_of_find?_eq_some h, by simpa using List.find?_some h⟩

/-- a cached stream is the stored stream with possibly more `distributed` coins -/
def SCoh (ss : List Stream) (st : Stream) : Prop :=
  ∃ st0, getS ss st.id = some st0 ∧ st = { st0 with distributed := st.distributed } ∧
    ∀ i, amt st0.distributed i ≤ amt st.distributed i

def storedDist (ss : List Stream) (id : Nat) (i : Nat) : Nat :=
  match getS ss id with
  | some st0 => amt st0.distributed i
  | none => 0

def sExtra (ss : List Stream) (st : Stream) (i : Nat) : Nat := amt st.distributed i - storedDist ss st.id i
def sExtras (ss : List Stream) (l : List Stream) (i : Nat) : Nat := (l.map (sExtra ss · i)).sum

/-- stream-cache invariant -/
def SCI (ss : List Stream) (c : Caches) : Prop :=
  (c.streams.map (·.id)).Nodup ∧ (∀ st ∈ c.streams, SCoh ss st) ∧ ∀ i, sExtras ss c.streams i = amt c.distributed i

theorem SCI_bump (ss : List Stream) (c : Caches) (h : SCI ss c) (st : Stream) (hst : st ∈ c.streams) (rw_ : Coins) (gs : List Gauge) :
    SCI ss { streams := upsertStream c.streams { st with distributed := Coins.add st.distributed rw_ }, gauges := gs,
             distributed := Coins.add c.distributed rw_ } := by
  obtain ⟨h1, h2, h3⟩ := h
  unfold SCI
  simp only
  refine ⟨?_, ?_, ?_⟩
  · have := (upsertStream_present (fun _ => 0) c.streams { st with distributed := Coins.add st.distributed rw_ } st h1 hst rfl).1
    rw [this]; exact h1
  · intro y hy
    rcases (upsertStream_present (fun _ => 0) c.streams { st with distributed := Coins.add st.distributed rw_ } st h1 hst rfl).2.1 y hy with h | ⟨h, _⟩
    · subst h
      obtain ⟨st0, a, b, d⟩ := h2 st hst
      refine ⟨st0, a, ?_, fun i => by simp only [amt_add]; have := d i; omega⟩
      simp only
      rw [b]
    · exact h2 y h
  · intro i
    have hs := (upsertStream_present (sExtra ss · i) c.streams { st with distributed := Coins.add st.distributed rw_ } st h1 hst rfl).2.2
    obtain ⟨st0, a, b, d⟩ := h2 st hst
    have e1 : sExtra ss { st with distributed := Coins.add st.distributed rw_ } i = sExtra ss st i + amt rw_ i := by
      unfold sExtra storedDist
      simp only [a, amt_add]
      have := d i; omega
    unfold sExtras at *
    rw [amt_add, ← h3 i]
    omega

theorem rewardsCb_SCI (s : State) (ss : List Stream) (c : Caches) (v : SView) (r : Rec) (h : SCI ss c) :
    SCI ss (rewardsCb s c v r).1 := by
  unfold rewardsCb
  cases hs : c.getStream v.id with
  | none => exact h
  | some stream =>
    simp only
    obtain ⟨hm, _⟩ := cacheGetStream_some hs
    cases hg : c.getGauge r.gauge with
    | some g =>
      simp only
      split
      · exact h
      · exact SCI_bump ss c h stream hm _ _
    | none =>
      simp only
      cases hst : getGauge s r.gauge with
      | none => exact h
      | some g =>
        simp only
        by_cases hf : g.isFinished s.now = true
        · simp only [hf, if_true]; exact h
        · rw [if_neg hf]
          simp only
          have h' : SCI ss { c with gauges := upsertGauge c.gauges g } := h
          split
          · exact h'
          · exact SCI_bump ss _ h' stream hm _ _

theorem ptrLoop_SCI (s : State) (ss : List Stream) (maxOps : Nat) :
    ∀ (es : List Nat) (total : Nat) (c : Caches) (ps : List Pointer), SCI ss c →
      SCI ss (ptrLoop s maxOps es total c ps).2.1 := by
  intro es
  induction es with
  | nil => intro total c ps h; exact h
  | cons e rest ih =>
    intro total c ps h
    unfold ptrLoop
    split
    · exact h
    · exact ih _ _ _ (iterate_inv (SCI ss) _ e _ _ (rewardsCb s) c (fun acc v r hp => rewardsCb_SCI s ss acc v r hp) h)


/-! ### reference lists -/

/-- structural form of `removeValue` (swap the found slot with the last element, drop the last) -/
def swapRemoveS : List Nat → Nat → Option (List Nat)
  | [], _ => none
  | x :: xs, id =>
    if x = id then
      match xs.getLast? with
      | none => some []
      | some last => some (last :: xs.dropLast)
    else
      match swapRemoveS xs id with
      | none => none
      | some r => some (x :: r)

theorem getLastD_cons_ne (x : Nat) (xs : List Nat) (h : xs ≠ []) : (x :: xs).getLastD 0 = xs.getLastD 0 := by
  cases xs with
  | nil => exact absurd rfl h
  | cons y ys => simp [List.getLastD]

theorem swapRemove_eq (l : List Nat) (id : Nat) : Refs.swapRemove l id = swapRemoveS l id := by
  induction l with
  | nil => simp [Refs.swapRemove, swapRemoveS]
  | cons x xs ih =>
    unfold Refs.swapRemove swapRemoveS
    rw [List.idxOf?_cons]
    by_cases hx : x = id
    · subst hx
      simp only [beq_self_eq_true, if_true]
      cases hl : xs.getLast? with
      | none =>
        have : xs = [] := List.getLast?_eq_none_iff.1 hl
        subst this; simp
      | some last =>
        obtain ⟨ys, hys⟩ := List.getLast?_eq_some_iff.1 hl
        subst hys
        have h1 : (x :: (ys ++ [last])).getLastD 0 = last := by
          rw [getLastD_cons_ne _ _ (by simp), List.getLastD_eq_getLast?]; simp
        have h2 : (last :: (ys ++ [last])) = (last :: ys) ++ [last] := by simp
        simp only [h1, List.set_cons_zero, h2, List.dropLast_concat]
    · have hb : (x == id) = false := by simp [hx]
      rw [if_neg hx]
      simp only [hb, Bool.false_eq_true, if_false]
      unfold Refs.swapRemove at ih
      cases hi : List.idxOf? id xs with
      | none =>
        rw [hi] at ih
        simp only [Option.map_none]
        rw [← ih]
      | some i =>
        rw [hi] at ih
        simp only [Option.map_some]
        rw [← ih]
        have hne : xs ≠ [] := by
          intro h0; subst h0; simp at hi
        rw [getLastD_cons_ne x xs hne]
        simp only [List.set_cons_succ]
        have hne2 : xs.set i (xs.getLastD 0) ≠ [] := by
          intro h0
          have := congrArg List.length h0
          simp at this
          exact hne this
        rw [List.dropLast_cons_of_ne_nil hne2]


theorem swapRemoveS_spec (f : Nat → Nat) : ∀ (l : List Nat) (id : Nat) (l' : List Nat), swapRemoveS l id = some l' →
    id ∈ l ∧ (l.map f).sum = (l'.map f).sum + f id ∧
    (l.Nodup → l'.Nodup ∧ ∀ x, x ∈ l' ↔ x ∈ l ∧ x ≠ id) := by
  intro l
  induction l with
  | nil => intro id l' h; simp [swapRemoveS] at h
  | cons x xs ih =>
    intro id l' h
    unfold swapRemoveS at h
    by_cases hx : x = id
    · subst hx
      simp only [if_true] at h
      cases hl : xs.getLast? with
      | none =>
        have : xs = [] := List.getLast?_eq_none_iff.1 hl
        subst this
        simp only [hl, Option.some.injEq] at h
        subst h
        refine ⟨List.mem_cons_self, by simp, ?_⟩
        intro _
        refine ⟨List.nodup_nil, ?_⟩
        intro y; simp
      | some last =>
        obtain ⟨ys, hys⟩ := List.getLast?_eq_some_iff.1 hl
        subst hys
        simp only [hl, Option.some.injEq, List.dropLast_concat] at h
        subst h
        refine ⟨List.mem_cons_self, ?_, ?_⟩
        · simp only [List.map_cons, List.sum_cons, List.map_append, List.sum_append, List.map_nil, List.sum_nil]; omega
        · intro hnd
          obtain ⟨hx1, hx2⟩ := List.nodup_cons.1 hnd
          obtain ⟨n1, _, n3⟩ := List.nodup_append.1 hx2
          have hlast : last ∉ ys := fun hm => n3 last hm last (by simp) rfl
          refine ⟨List.nodup_cons.2 ⟨hlast, n1⟩, ?_⟩
          intro y
          simp only [List.mem_cons, List.mem_append, List.mem_singleton, List.not_mem_nil, or_false]
          constructor
          · intro hy
            have hyin : y ∈ ys ++ [last] := by
              rcases hy with h1 | h1
              · simp [h1]
              · simp [h1]
            exact ⟨Or.inr (by simpa using hyin), fun he => hx1 (by rw [← he]; exact hyin)⟩
          · intro ⟨hy, hne⟩
            rcases hy with h1 | h1 | h1
            · exact absurd h1 hne
            · exact Or.inr h1
            · exact Or.inl h1
    · rw [if_neg hx] at h
      cases hr : swapRemoveS xs id with
      | none => simp [hr] at h
      | some r =>
        simp only [hr, Option.some.injEq] at h
        subst h
        obtain ⟨i1, i2, i3⟩ := ih id r hr
        refine ⟨List.mem_cons_of_mem _ i1, by simp only [List.map_cons, List.sum_cons]; omega, ?_⟩
        intro hnd
        obtain ⟨hx1, hx2⟩ := List.nodup_cons.1 hnd
        obtain ⟨j1, j2⟩ := i3 hx2
        refine ⟨List.nodup_cons.2 ⟨fun hm => hx1 ((j2 x).1 hm).1, j1⟩, ?_⟩
        intro y
        simp only [List.mem_cons]
        constructor
        · intro hy
          rcases hy with h1 | h1
          · exact ⟨Or.inl h1, by rw [h1]; exact hx⟩
          · exact ⟨Or.inr ((j2 y).1 h1).1, ((j2 y).1 h1).2⟩
        · intro ⟨hy, hne⟩
          rcases hy with h1 | h1
          · exact Or.inl h1
          · exact Or.inr ((j2 y).2 ⟨h1, hne⟩)

theorem Refs.ids_cons (t : Nat) (l : List Nat) (rest : Refs) : Refs.ids ((t, l) :: rest) = l ++ Refs.ids rest := by
  simp [Refs.ids]

/-- `addStreamRefByKey` inserts the id somewhere: `ids r = a ++ b`, `ids r' = a ++ [id] ++ b` -/
theorem Refs.add_spec : ∀ (r : Refs) (t id : Nat) (r' : Refs), Refs.add r t id = some r' →
    ∃ a b, Refs.ids r = a ++ b ∧ Refs.ids r' = a ++ [id] ++ b := by
  intro r
  induction r with
  | nil =>
    intro t id r' h
    simp only [Refs.add, Option.some.injEq] at h
    subst h
    exact ⟨[], [], by simp [Refs.ids], by simp [Refs.ids]⟩
  | cons p rest ih =>
    intro t id r' h
    obtain ⟨t', l⟩ := p
    unfold Refs.add at h
    by_cases h1 : t < t'
    · simp only [h1, if_true, Option.some.injEq] at h
      subst h
      exact ⟨[], Refs.ids ((t', l) :: rest), by simp, by simp [Refs.ids_cons]⟩
    · rw [if_neg h1] at h
      by_cases h2 : t = t'
      · rw [if_pos h2] at h
        split at h
        · simp at h
        · simp only [Option.some.injEq] at h
          subst h
          exact ⟨l, Refs.ids rest, by simp [Refs.ids_cons], by simp [Refs.ids_cons]⟩
      · rw [if_neg h2] at h
        cases hr : Refs.add rest t id with
        | none => simp [hr] at h
        | some r2 =>
          simp only [hr, Option.some.injEq] at h
          subst h
          obtain ⟨a, b, e1, e2⟩ := ih t id r2 hr
          exact ⟨l ++ a, b, by simp [Refs.ids_cons, e1], by simp [Refs.ids_cons, e2]⟩

theorem Refs.add_mem {r : Refs} {t id : Nat} {r' : Refs} (h : Refs.add r t id = some r') (x : Nat) :
    x ∈ Refs.ids r' ↔ x ∈ Refs.ids r ∨ x = id := by
  obtain ⟨a, b, e1, e2⟩ := Refs.add_spec r t id r' h
  rw [e1, e2]; simp only [List.mem_append, List.mem_singleton]
  constructor
  · intro hh; rcases hh with (h1 | h1) | h1
    · exact Or.inl (Or.inl h1)
    · exact Or.inr h1
    · exact Or.inl (Or.inr h1)
  · intro hh; rcases hh with (h1 | h1) | h1
    · exact Or.inl (Or.inl h1)
    · exact Or.inr h1
    · exact Or.inl (Or.inr h1)

theorem Refs.add_sum {r : Refs} {t id : Nat} {r' : Refs} (h : Refs.add r t id = some r') (f : Nat → Nat) :
    ((Refs.ids r').map f).sum = ((Refs.ids r).map f).sum + f id := by
  obtain ⟨a, b, e1, e2⟩ := Refs.add_spec r t id r' h
  rw [e1, e2]; simp only [List.map_append, List.sum_append, List.map_cons, List.sum_cons, List.map_nil, List.sum_nil]; omega

theorem Refs.add_nodup {r : Refs} {t id : Nat} {r' : Refs} (h : Refs.add r t id = some r')
    (hn : (Refs.ids r).Nodup) (hid : id ∉ Refs.ids r) : (Refs.ids r').Nodup := by
  obtain ⟨a, b, e1, e2⟩ := Refs.add_spec r t id r' h
  rw [e1] at hn hid
  rw [e2]
  obtain ⟨n1, n2, n3⟩ := List.nodup_append.1 hn
  rw [List.append_assoc, List.nodup_append]
  refine ⟨n1, ?_, ?_⟩
  · rw [List.singleton_append, List.nodup_cons]
    exact ⟨fun hm => hid (List.mem_append_right _ hm), n2⟩
  · intro x hx y hy
    rcases List.mem_append.1 hy with h1 | h1
    · simp at h1; subst h1
      intro he; exact hid (List.mem_append_left _ (by rw [← he]; exact hx))
    · exact n3 x hx y h1

/-- `deleteStreamRefByKey` removes the id (sum form; membership form for duplicate-free lists) -/
theorem Refs.del_spec (f : Nat → Nat) : ∀ (r : Refs) (t id : Nat) (r' : Refs), Refs.del r t id = some r' →
    id ∈ Refs.ids r ∧ ((Refs.ids r).map f).sum = ((Refs.ids r').map f).sum + f id ∧
    ((Refs.ids r).Nodup → (Refs.ids r').Nodup ∧ ∀ x, x ∈ Refs.ids r' ↔ x ∈ Refs.ids r ∧ x ≠ id) := by
  intro r
  induction r with
  | nil => intro t id r' h; simp [Refs.del] at h
  | cons p rest ih =>
    intro t id r' h
    obtain ⟨t', l⟩ := p
    unfold Refs.del at h
    by_cases h1 : t = t'
    · rw [if_pos h1] at h
      rw [swapRemove_eq] at h
      cases hs : swapRemoveS l id with
      | none => simp [hs] at h
      | some l' =>
        simp only [hs] at h
        obtain ⟨s1, s2, s3⟩ := swapRemoveS_spec f l id l' hs
        have hids : Refs.ids r' = l' ++ Refs.ids rest := by
          split at h
          · next he =>
            simp only [Option.some.injEq] at h; subst h
            have : l' = [] := by simpa using he
            simp [this]
          · simp only [Option.some.injEq] at h; subst h
            exact Refs.ids_cons _ _ _
        rw [Refs.ids_cons, hids]
        refine ⟨List.mem_append_left _ s1, ?_, ?_⟩
        · simp only [List.map_append, List.sum_append]; omega
        · intro hnd
          obtain ⟨n1, n2, n3⟩ := List.nodup_append.1 hnd
          obtain ⟨j1, j2⟩ := s3 n1
          refine ⟨List.nodup_append.2 ⟨j1, n2, fun x hx y hy => n3 x ((j2 x).1 hx).1 y hy⟩, ?_⟩
          intro x
          simp only [List.mem_append]
          constructor
          · intro hh
            rcases hh with h2 | h2
            · exact ⟨Or.inl ((j2 x).1 h2).1, ((j2 x).1 h2).2⟩
            · exact ⟨Or.inr h2, fun he => n3 id s1 x h2 he.symm⟩
          · intro ⟨hh, hne⟩
            rcases hh with h2 | h2
            · exact Or.inl ((j2 x).2 ⟨h2, hne⟩)
            · exact Or.inr h2
    · rw [if_neg h1] at h
      cases hr : Refs.del rest t id with
      | none => simp [hr] at h
      | some r2 =>
        simp only [hr, Option.some.injEq] at h
        subst h
        obtain ⟨i1, i2, i3⟩ := ih t id r2 hr
        rw [Refs.ids_cons, Refs.ids_cons]
        refine ⟨List.mem_append_right _ i1, ?_, ?_⟩
        · simp only [List.map_append, List.sum_append]; omega
        · intro hnd
          obtain ⟨n1, n2, n3⟩ := List.nodup_append.1 hnd
          obtain ⟨j1, j2⟩ := i3 n2
          refine ⟨List.nodup_append.2 ⟨n1, j1, fun x hx y hy => n3 x hx y ((j2 y).1 hy).1⟩, ?_⟩
          intro x
          simp only [List.mem_append]
          constructor
          · intro hh
            rcases hh with h2 | h2
            · exact ⟨Or.inl h2, fun he => n3 x h2 id i1 he⟩
            · exact ⟨Or.inr ((j2 x).1 h2).1, ((j2 x).1 h2).2⟩
          · intro ⟨hh, hne⟩
            rcases hh with h2 | h2
            · exact Or.inl h2
            · exact Or.inr ((j2 x).2 ⟨h2, hne⟩)


theorem swapRemoveS_subset : ∀ (l : List Nat) (id : Nat) (l' : List Nat), swapRemoveS l id = some l' → ∀ x, x ∈ l' → x ∈ l := by
  intro l
  induction l with
  | nil => intro id l' h; simp [swapRemoveS] at h
  | cons y ys ih =>
    intro id l' h x hx
    unfold swapRemoveS at h
    by_cases hy : y = id
    · rw [if_pos hy] at h
      cases hl : ys.getLast? with
      | none => simp only [hl, Option.some.injEq] at h; subst h; simp at hx
      | some last =>
        obtain ⟨zs, hzs⟩ := List.getLast?_eq_some_iff.1 hl
        simp only [hl, Option.some.injEq] at h
        subst h
        rw [hzs, List.dropLast_concat] at hx
        rw [hzs]
        rcases List.mem_cons.1 hx with h1 | h1
        · rw [h1]; simp
        · exact List.mem_cons_of_mem _ (List.mem_append_left _ h1)
    · rw [if_neg hy] at h
      cases hr : swapRemoveS ys id with
      | none => simp [hr] at h
      | some r =>
        simp only [hr, Option.some.injEq] at h
        subst h
        rcases List.mem_cons.1 hx with h1 | h1
        · rw [h1]; exact List.mem_cons_self
        · exact List.mem_cons_of_mem _ (ih id r hr x h1)

/-- deletion only removes ids (no duplicate-freeness needed) -/
theorem Refs.del_subset : ∀ {r : Refs} {t id : Nat} {r' : Refs}, Refs.del r t id = some r' → ∀ x, x ∈ Refs.ids r' → x ∈ Refs.ids r := by
  intro r
  induction r with
  | nil => intro t id r' h; simp [Refs.del] at h
  | cons p rest ih =>
    intro t id r' h x hx
    obtain ⟨t', l⟩ := p
    unfold Refs.del at h
    by_cases h1 : t = t'
    · rw [if_pos h1, swapRemove_eq] at h
      cases hs : swapRemoveS l id with
      | none => simp [hs] at h
      | some l' =>
        simp only [hs] at h
        have hsub := swapRemoveS_subset l id l' hs
        rw [Refs.ids_cons]
        split at h
        · simp only [Option.some.injEq] at h; subst h
          exact List.mem_append_right _ hx
        · simp only [Option.some.injEq] at h; subst h
          rw [Refs.ids_cons] at hx
          rcases List.mem_append.1 hx with h2 | h2
          · exact List.mem_append_left _ (hsub x h2)
          · exact List.mem_append_right _ h2
    · rw [if_neg h1] at h
      cases hr : Refs.del rest t id with
      | none => simp [hr] at h
      | some r2 =>
        simp only [hr, Option.some.injEq] at h
        subst h
        rw [Refs.ids_cons] at hx ⊢
        rcases List.mem_append.1 hx with h2 | h2
        · exact List.mem_append_left _ h2
        · exact List.mem_append_right _ (ih hr x h2)

/-! ### what the streamer still owes to its open (upcoming or active) streams -/

def termS (ss : List Stream) (id : Nat) (i : Nat) : Nat :=
  match getS ss id with
  | some st => amt st.coins i - amt st.distributed i
  | none => 0

def openIds (s : State) : List Nat := s.active.ids ++ s.upcoming.ids

def owedL (s : State) (i : Nat) : Nat := ((openIds s).map (termS s.streams · i)).sum

structure SStruct (s : State) : Prop where
  sid : SidOK s.streams
  valid : ∀ id ∈ openIds s, 1 ≤ id ∧ id ≤ s.streams.length
  nodup : (openIds s).Nodup

/-- if `F'` differs from `F` only at `id`, which occurs exactly once in `L` -/
theorem sum_update_one (L : List Nat) (F F' : Nat → Nat) (id : Nat) (hn : L.Nodup) (hm : id ∈ L)
    (hF : ∀ x, x ≠ id → F' x = F x) : (L.map F').sum + F id = (L.map F).sum + F' id := by
  induction L with
  | nil => simp at hm
  | cons y ys ih =>
    obtain ⟨h1, h2⟩ := List.nodup_cons.1 hn
    simp only [List.map_cons, List.sum_cons]
    rcases List.mem_cons.1 hm with h | h
    · subst h
      have : (ys.map F') = (ys.map F) := by
        apply List.map_congr_left
        intro x hx
        exact hF x (fun he => h1 (by rw [← he]; exact hx))
      rw [this]; omega
    · have hy : y ≠ id := fun he => h1 (by rw [he]; exact h)
      have := ih h2 h
      rw [hF y hy]; omega

theorem sum_congr_notin (L : List Nat) (F F' : Nat → Nat) (id : Nat) (hm : id ∉ L)
    (hF : ∀ x, x ≠ id → F' x = F x) : (L.map F').sum = (L.map F).sum := by
  apply congrArg
  apply List.map_congr_left
  intro x hx
  exact hF x (fun he => hm (by rw [← he]; exact hx))

theorem termS_set_ne (ss : List Stream) (k : Nat) (v : Stream) (id i : Nat) (h : id ≠ k + 1) :
    termS (ss.set k v) id i = termS ss id i := by
  unfold termS; rw [getS_set_ne _ _ _ _ h]

/-- writing a stream value `v` back to its slot, keeping the reference lists -/
theorem write_keep (s : State) (hs : SStruct s) (st0 v : Stream) (hget : getS s.streams v.id = some st0)
    (hc : v.coins = st0.coins) (hd : ∀ i, amt st0.distributed i ≤ amt v.distributed i) :
    SStruct (setStream s v) ∧ StreamsMono s.streams (setStream s v).streams ∧
    (∀ i, v.id ∈ openIds s → amt v.distributed i ≤ amt v.coins i →
      owedL (setStream s v) i + (amt v.distributed i - amt st0.distributed i) = owedL s i) ∧
    (∀ i, v.id ∉ openIds s → owedL (setStream s v) i = owedL s i) := by
  obtain ⟨h1, hk, hgetk, hid0, _⟩ := getS_some hs.sid hget
  have hs1 : setStream s v = { s with streams := s.streams.set (v.id - 1) v } := rfl
  have hidv : v.id = v.id - 1 + 1 := by omega
  refine ⟨?_, ?_, ?_, ?_⟩
  · rw [hs1]
    exact ⟨sidOK_set hs.sid _ _ hidv, by intro id hid; have := hs.valid id hid; simpa using this, hs.nodup⟩
  · rw [hs1]
    exact StreamsMono_set _ _ _ hk (by rw [hgetk]; exact hc) (by rw [hgetk, hid0]) (by rw [hgetk]; exact hd)
  · intro i hopen hno
    rw [hs1]
    have hF : ∀ x, x ≠ v.id → termS (s.streams.set (v.id - 1) v) x i = termS s.streams x i :=
      fun x hx => termS_set_ne _ _ _ _ _ (by omega)
    have := sum_update_one (openIds s) (termS s.streams · i) (termS (s.streams.set (v.id - 1) v) · i) v.id hs.nodup hopen hF
    have e1 : termS s.streams v.id i = amt st0.coins i - amt st0.distributed i := by unfold termS; rw [hget]
    have e2 : termS (s.streams.set (v.id - 1) v) v.id i = amt v.coins i - amt v.distributed i := by
      unfold termS
      have := getS_set_eq s.streams (v.id - 1) v hk
      rw [← hidv] at this
      rw [this]
    have := hd i
    rw [hc] at hno e2
    show (List.map (fun x => termS (s.streams.set (v.id - 1) v) x i) (openIds s)).sum + _ = (List.map (fun x => termS s.streams x i) (openIds s)).sum
    omega
  · intro i hnot
    rw [hs1]
    exact sum_congr_notin (openIds s) (termS s.streams · i) (termS (s.streams.set (v.id - 1) v) · i) v.id hnot
      (fun x hx => termS_set_ne _ _ _ _ _ (by omega))


/-- taking an id out of the active list -/
theorem remove_active (s : State) (hs : SStruct s) (t id : Nat) (a : Refs) (f : Refs) (hd : Refs.del s.active t id = some a) :
    SStruct { s with active := a, finished := f } ∧
    (∀ i, owedL { s with active := a, finished := f } i + termS s.streams id i = owedL s i) ∧
    id ∉ openIds { s with active := a, finished := f } ∧ id ∈ s.active.ids ∧
    (∀ y, y ≠ id → y ∈ s.active.ids → y ∈ a.ids) := by
  obtain ⟨n1, n2, n3⟩ := List.nodup_append.1 hs.nodup
  have hopen : openIds { s with active := a, finished := f } = a.ids ++ s.upcoming.ids := rfl
  obtain ⟨d1, _, d3⟩ := Refs.del_spec (fun _ => 0) s.active t id a hd
  obtain ⟨j1, j2⟩ := d3 n1
  refine ⟨⟨hs.sid, ?_, ?_⟩, ?_, ?_, d1, ?_⟩
  · intro x hx
    rw [hopen] at hx
    apply hs.valid
    rcases List.mem_append.1 hx with h | h
    · exact List.mem_append_left _ ((j2 x).1 h).1
    · exact List.mem_append_right _ h
  · rw [hopen]
    exact List.nodup_append.2 ⟨j1, n2, fun x hx y hy => n3 x ((j2 x).1 hx).1 y hy⟩
  · intro i
    have := (Refs.del_spec (termS s.streams · i) s.active t id a hd).2.1
    unfold owedL
    rw [hopen]
    show ((a.ids ++ s.upcoming.ids).map (termS s.streams · i)).sum + _ = ((s.active.ids ++ s.upcoming.ids).map (termS s.streams · i)).sum
    simp only [List.map_append, List.sum_append]
    omega
  · rw [hopen]
    intro hm
    rcases List.mem_append.1 hm with h | h
    · exact ((j2 id).1 h).2 rfl
    · exact n3 id d1 id h rfl
  · intro y hy hm
    exact (j2 y).2 ⟨hm, hy⟩

/-- taking an id out of the upcoming list -/
theorem remove_upcoming (s : State) (hs : SStruct s) (t id : Nat) (u : Refs) (hd : Refs.del s.upcoming t id = some u) :
    SStruct { s with upcoming := u } ∧
    (∀ i, owedL { s with upcoming := u } i + termS s.streams id i = owedL s i) ∧
    id ∉ openIds { s with upcoming := u } ∧ id ∈ s.upcoming.ids := by
  obtain ⟨n1, n2, n3⟩ := List.nodup_append.1 hs.nodup
  have hopen : openIds { s with upcoming := u } = s.active.ids ++ u.ids := rfl
  obtain ⟨d1, _, d3⟩ := Refs.del_spec (fun _ => 0) s.upcoming t id u hd
  obtain ⟨j1, j2⟩ := d3 n2
  refine ⟨⟨hs.sid, ?_, ?_⟩, ?_, ?_, d1⟩
  · intro x hx
    rw [hopen] at hx
    apply hs.valid
    rcases List.mem_append.1 hx with h | h
    · exact List.mem_append_left _ h
    · exact List.mem_append_right _ ((j2 x).1 h).1
  · rw [hopen]
    exact List.nodup_append.2 ⟨n1, j1, fun x hx y hy => n3 x hx y ((j2 y).1 hy).1⟩
  · intro i
    have := (Refs.del_spec (termS s.streams · i) s.upcoming t id u hd).2.1
    unfold owedL
    rw [hopen]
    show ((s.active.ids ++ u.ids).map (termS s.streams · i)).sum + _ = ((s.active.ids ++ s.upcoming.ids).map (termS s.streams · i)).sum
    simp only [List.map_append, List.sum_append]
    omega
  · rw [hopen]
    intro hm
    rcases List.mem_append.1 hm with h | h
    · exact n3 id h id d1 rfl
    · exact ((j2 id).1 h).2 rfl

/-- the parts of the state only the gauge side touches stay put -/
def SFrame (s s' : State) : Prop := s'.bank = s.bank ∧ s'.gauges = s.gauges ∧ s'.locks = s.locks ∧ s'.rollapps = s.rollapps

/-- one cached stream is saved (both the epoch-end and the plain variant) -/
theorem saveOne (s : State) (hs : SStruct s) (st : Stream) (hcoh : SCoh s.streams st) (hact : st.id ∈ s.active.ids)
    (v : Stream) (hv : v = st ∨ v = st.atEpochEnd) (s1 : State)
    (h : setStream s v = s1 ∨ saveStreamEnd v s = .ok s1) :
    SStruct s1 ∧ StreamsMono s.streams s1.streams ∧ s1.bank = s.bank ∧ s1.upcoming = s.upcoming ∧
    (∀ i, amt st.distributed i ≤ amt st.coins i → owedL s1 i + sExtra s.streams st i ≤ owedL s i) ∧
    (∀ y, y ≠ st.id → getS s1.streams y = getS s.streams y ∧ (y ∈ s.active.ids → y ∈ s1.active.ids)) ∧
    (∃ v', getS s1.streams st.id = some v' ∧ v'.distributed = st.distributed ∧ v'.coins = st.coins) := by
  obtain ⟨st0, hget, heq, hdle⟩ := hcoh
  have hvid : v.id = st.id := by
    rcases hv with h1 | h1
    · rw [h1]
    · rw [h1]; unfold Stream.atEpochEnd; split <;> rfl
  have hvc : v.coins = st.coins := by
    rcases hv with h1 | h1
    · rw [h1]
    · rw [h1]; unfold Stream.atEpochEnd; split <;> rfl
  have hvd : v.distributed = st.distributed := by
    rcases hv with h1 | h1
    · rw [h1]
    · rw [h1]; unfold Stream.atEpochEnd; split <;> rfl
  have hstc : st.coins = st0.coins := by rw [heq]
  have hex : ∀ i, sExtra s.streams st i = amt st.distributed i - amt st0.distributed i := by
    intro i; unfold sExtra storedDist; rw [hget]
  have hother : ∀ (sx : State) (y : Nat), y ≠ st.id → getS (setStream sx v).streams y = getS sx.streams y := by
    intro sx y hy
    show getS (sx.streams.set (v.id - 1) v) y = _
    obtain ⟨h1, _⟩ := getS_some hs.sid hget
    exact getS_set_ne _ _ _ _ (by rw [hvid]; omega)
  -- the plain write
  have plain : ∀ sx : State, SStruct sx → sx.streams = s.streams → setStream sx v = s1 →
      SStruct s1 ∧ StreamsMono s.streams s1.streams ∧ s1.bank = sx.bank ∧ s1.upcoming = sx.upcoming ∧ s1.active = sx.active ∧
      (∀ i, v.id ∈ openIds sx → amt st.distributed i ≤ amt st.coins i → owedL s1 i + sExtra s.streams st i = owedL sx i) ∧
      (∀ i, v.id ∉ openIds sx → owedL s1 i = owedL sx i) ∧
      (∃ v', getS s1.streams st.id = some v' ∧ v'.distributed = st.distributed ∧ v'.coins = st.coins) := by
    intro sx hsx hss hw
    have hgetx : getS sx.streams v.id = some st0 := by rw [hss, hvid]; exact hget
    obtain ⟨w1, w2, w3, w4⟩ := write_keep sx hsx st0 v hgetx (by rw [hvc, hstc]) (by intro i; rw [hvd]; exact hdle i)
    rw [hw] at w1 w2 w3 w4
    rw [hss] at w2
    have hgv : getS s1.streams st.id = some v := by
      rw [← hw]
      show getS (sx.streams.set (v.id - 1) v) st.id = some v
      obtain ⟨g1, gk, _⟩ := getS_some hsx.sid hgetx
      have := getS_set_eq sx.streams (v.id - 1) v gk
      have e : v.id - 1 + 1 = st.id := by rw [← hvid]; omega
      rw [e] at this; exact this
    refine ⟨w1, w2, by rw [← hw]; rfl, by rw [← hw]; rfl, by rw [← hw]; rfl, ?_, w4, ⟨v, hgv, hvd, hvc⟩⟩
    intro i ho hno
    have := w3 i ho (by rw [hvd, hvc]; exact hno)
    rw [hex i, ← hvd]; exact this
  have hopenS : v.id ∈ openIds s := by rw [hvid]; exact List.mem_append_left _ hact
  rcases h with h | h
  · obtain ⟨p1, p2, p3, p4, p5, p6, _, p8⟩ := plain s hs rfl h
    refine ⟨p1, p2, p3, p4, fun i hno => Nat.le_of_eq (p6 i hopenS hno), ?_, p8⟩
    intro y hy
    exact ⟨by rw [← h]; exact hother s y hy, fun hm => by rw [p5]; exact hm⟩
  · unfold saveStreamEnd at h
    split at h
    · cases hd : Refs.del s.active v.start v.id with
      | none => simp [hd] at h
      | some a =>
        simp only [hd] at h
        cases hf : Refs.add s.finished v.start v.id with
        | none => simp [hf] at h
        | some f =>
          simp only [hf, Except.ok.injEq] at h
          obtain ⟨r1, r2, r3, _, r5⟩ := remove_active s hs v.start v.id a f hd
          obtain ⟨p1, p2, p3, p4, p5, _, p7, p8⟩ := plain { s with active := a, finished := f } r1 rfl h
          refine ⟨p1, p2, p3, p4, ?_, ?_, p8⟩
          · intro i hno
            have e1 := p7 i r3
            have e2 := r2 i
            have e3 : termS s.streams v.id i = amt st0.coins i - amt st0.distributed i := by
              unfold termS; rw [hvid, hget]
            have := hdle i
            rw [hex i, e1]
            rw [hstc] at hno
            omega
          · intro y hy
            refine ⟨by rw [← h]; exact hother _ y hy, fun hm => ?_⟩
            rw [p5]; exact r5 y (by rw [hvid]; exact hy) hm
    · simp only [Except.ok.injEq] at h
      obtain ⟨p1, p2, p3, p4, p5, p6, _, p8⟩ := plain s hs rfl h
      refine ⟨p1, p2, p3, p4, fun i hno => Nat.le_of_eq (p6 i hopenS hno), ?_, p8⟩
      intro y hy
      exact ⟨by rw [← h]; exact hother s y hy, fun hm => by rw [p5]; exact hm⟩


theorem SCoh_congr {ss ss' : List Stream} {st : Stream} (h : getS ss' st.id = getS ss st.id) (hc : SCoh ss st) : SCoh ss' st := by
  obtain ⟨st0, a, b, c⟩ := hc
  exact ⟨st0, by rw [h]; exact a, b, c⟩

/-- all cached streams are saved -/
theorem saveStreams_spec (ee : Bool) : ∀ (l : List Stream) (s s' : State), SStruct s → (l.map (·.id)).Nodup →
    (∀ st ∈ l, SCoh s.streams st ∧ st.id ∈ s.active.ids) → saveStreams ee l s = .ok s' →
    SStruct s' ∧ StreamsMono s.streams s'.streams ∧ s'.bank = s.bank ∧ s'.upcoming = s.upcoming ∧
    (NoOver s'.streams → ∀ i, owedL s' i + sExtras s.streams l i ≤ owedL s i) := by
  intro l
  induction l with
  | nil =>
    intro s s' hs _ _ h
    simp only [saveStreams, Except.ok.injEq] at h
    subst h
    exact ⟨hs, StreamsMono.refl _, rfl, rfl, fun _ i => by simp [sExtras]⟩
  | cons st rest ih =>
    intro s s' hs hnd hall h
    have hnd0 : (st.id :: rest.map (·.id)).Nodup := hnd
    obtain ⟨hn1, hn2⟩ := List.nodup_cons.1 hnd0
    have hne : ∀ y ∈ rest, y.id ≠ st.id := fun y hy he => hn1 (by rw [← he]; exact List.mem_map_of_mem (f := (·.id)) hy)
    obtain ⟨hcoh, hact⟩ := hall st List.mem_cons_self
    -- the first step, in both variants
    have step : ∃ s1 v, (v = st ∨ v = st.atEpochEnd) ∧ (setStream s v = s1 ∨ saveStreamEnd v s = .ok s1) ∧ saveStreams ee rest s1 = .ok s' := by
      unfold saveStreams at h
      by_cases he : ee = true
      · simp only [he, if_true] at h
        cases hs1 : saveStreamEnd st.atEpochEnd s with
        | error e => simp [hs1] at h
        | ok s1 =>
          simp only [hs1] at h
          exact ⟨s1, st.atEpochEnd, Or.inr rfl, Or.inr hs1, by rw [he]; exact h⟩
      · have he' : ee = false := by simpa using he
        simp only [he', Bool.false_eq_true, if_false] at h
        exact ⟨setStream s st, st, Or.inl rfl, Or.inl rfl, by rw [he']; exact h⟩
    obtain ⟨s1, v, hv, hw, hrest⟩ := step
    obtain ⟨a1, a2, a3, a4, a5, a6, a7⟩ := saveOne s hs st hcoh hact v hv s1 hw
    have hall' : ∀ y ∈ rest, SCoh s1.streams y ∧ y.id ∈ s1.active.ids := by
      intro y hy
      obtain ⟨c1, c2⟩ := hall y (List.mem_cons_of_mem _ hy)
      obtain ⟨e1, e2⟩ := a6 y.id (hne y hy)
      exact ⟨SCoh_congr e1 c1, e2 c2⟩
    obtain ⟨b1, b2, b3, b4, b5⟩ := ih s1 s' a1 hn2 hall' hrest
    refine ⟨b1, StreamsMono.trans a2 b2, b3.trans a3, b4.trans a4, ?_⟩
    intro hno i
    have h5 := b5 hno i
    -- the head stream did not over-distribute, because it only grew afterwards
    obtain ⟨v', g1, g2, g3⟩ := a7
    obtain ⟨_, gk, gget, _, _⟩ := getS_some a1.sid g1
    have gk' : st.id - 1 < s'.streams.length := Nat.lt_of_lt_of_le gk b2.1
    obtain ⟨m1, _, m3⟩ := b2.2 (st.id - 1) gk gk'
    have hfin := hno _ (List.getElem_mem gk') i
    have hhead : amt st.distributed i ≤ amt st.coins i := by
      have := m3 i
      rw [gget] at this m1
      rw [m1, g3] at hfin
      rw [g2] at this
      omega
    have h6 := a5 i hhead
    have hex : sExtras s1.streams rest i = sExtras s.streams rest i := by
      unfold sExtras
      apply congrArg
      apply List.map_congr_left
      intro y hy
      unfold sExtra storedDist
      rw [(a6 y.id (hne y hy)).1]
    rw [hex] at h5
    simp only [sExtras, List.map_cons, List.sum_cons] at *
    omega


/-! ### the stream lists handed to `Distribute` -/

theorem streamsOf_spec (ss : List Stream) (hid : SidOK ss) : ∀ (ids : List Nat), ids.Nodup →
    ((ids.filterMap (getS ss)).map (·.id)).Nodup ∧
    ∀ st ∈ ids.filterMap (getS ss), getS ss st.id = some st ∧ st.id ∈ ids := by
  intro ids
  induction ids with
  | nil => intro _; simp
  | cons x xs ih =>
    intro hnd
    obtain ⟨h1, h2⟩ := List.nodup_cons.1 hnd
    obtain ⟨i1, i2⟩ := ih h2
    cases hg : getS ss x with
    | none =>
      simp only [List.filterMap_cons, hg]
      exact ⟨i1, fun st hst => ⟨(i2 st hst).1, List.mem_cons_of_mem _ (i2 st hst).2⟩⟩
    | some st0 =>
      simp only [List.filterMap_cons, hg]
      obtain ⟨_, _, _, hid0, _⟩ := getS_some hid hg
      refine ⟨?_, ?_⟩
      · simp only [List.map_cons]
        refine List.nodup_cons.2 ⟨?_, i1⟩
        intro hm
        obtain ⟨y, hy, he⟩ := List.mem_map.1 hm
        have := (i2 y hy).2
        rw [he, hid0] at this
        exact h1 this
      · intro st hst
        rcases List.mem_cons.1 hst with h | h
        · subst h; exact ⟨by rw [hid0]; exact hg, by rw [hid0]; exact List.mem_cons_self⟩
        · exact ⟨(i2 st h).1, List.mem_cons_of_mem _ (i2 st h).2⟩

/-! ### sorting the stream list by id (fix D2) -/

theorem insertById_spec (st : Stream) : ∀ (l : List Stream), ∃ a b, l = a ++ b ∧ insertById st l = a ++ [st] ++ b ∧
    (∀ x ∈ a, x.id < st.id) ∧ (∀ x, b.head? = some x → st.id ≤ x.id) := by
  intro l
  induction l with
  | nil => exact ⟨[], [], rfl, rfl, by simp, by simp⟩
  | cons x xs ih =>
    unfold insertById
    by_cases h : st.id ≤ x.id
    · rw [if_pos h]
      exact ⟨[], x :: xs, rfl, rfl, by simp, by intro y hy; simp at hy; rw [← hy]; exact h⟩
    · rw [if_neg h]
      obtain ⟨a, b, e1, e2, e3, e4⟩ := ih
      refine ⟨x :: a, b, by rw [e1]; rfl, by rw [e2]; rfl, ?_, e4⟩
      intro y hy
      rcases List.mem_cons.1 hy with h1 | h1
      · rw [h1]; omega
      · exact e3 y h1

theorem mem_insertById (st : Stream) (l : List Stream) (y : Stream) : y ∈ insertById st l ↔ y = st ∨ y ∈ l := by
  obtain ⟨a, b, e1, e2, _, _⟩ := insertById_spec st l
  rw [e2, e1]; simp only [List.mem_append, List.mem_singleton]
  constructor
  · intro h; rcases h with (h | h) | h
    · exact Or.inr (Or.inl h)
    · exact Or.inl h
    · exact Or.inr (Or.inr h)
  · intro h; rcases h with h | h | h
    · exact Or.inl (Or.inr h)
    · exact Or.inl (Or.inl h)
    · exact Or.inr h

theorem mem_sortById (l : List Stream) (y : Stream) : y ∈ sortById l ↔ y ∈ l := by
  induction l with
  | nil => simp [sortById]
  | cons x xs ih =>
    unfold sortById
    rw [mem_insertById, ih]; simp only [List.mem_cons]

theorem nodup_insertById (st : Stream) (l : List Stream) (hn : (l.map (·.id)).Nodup) (hid : st.id ∉ l.map (·.id)) :
    ((insertById st l).map (·.id)).Nodup := by
  obtain ⟨a, b, e1, e2, _, _⟩ := insertById_spec st l
  rw [e2]
  rw [e1] at hn hid
  simp only [List.map_append, List.map_cons, List.map_nil] at hn hid ⊢
  obtain ⟨n1, n2, n3⟩ := List.nodup_append.1 hn
  rw [List.append_assoc, List.nodup_append]
  refine ⟨n1, ?_, ?_⟩
  · rw [List.singleton_append, List.nodup_cons]
    exact ⟨fun hm => hid (List.mem_append_right _ hm), n2⟩
  · intro x hx y hy
    rcases List.mem_append.1 hy with h1 | h1
    · simp at h1; subst h1
      intro he; exact hid (List.mem_append_left _ (by rw [← he]; exact hx))
    · exact n3 x hx y h1

theorem nodup_sortById (l : List Stream) (hn : (l.map (·.id)).Nodup) : ((sortById l).map (·.id)).Nodup := by
  induction l with
  | nil => simp [sortById]
  | cons x xs ih =>
    have hn0 : (x.id :: xs.map (·.id)).Nodup := hn
    obtain ⟨h1, h2⟩ := List.nodup_cons.1 hn0
    unfold sortById
    apply nodup_insertById _ _ (ih h2)
    intro hm
    obtain ⟨y, hy, he⟩ := List.mem_map.1 hm
    exact h1 (by rw [← he]; exact List.mem_map_of_mem (f := (·.id)) ((mem_sortById xs y).1 hy))

/-- the ids of the sorted list are non-decreasing -/
theorem sorted_insertById (st : Stream) (l : List Stream) (hs : (l.map (·.id)).Pairwise (· ≤ ·)) :
    ((insertById st l).map (·.id)).Pairwise (· ≤ ·) := by
  induction l with
  | nil => simp [insertById]
  | cons x xs ih =>
    have hs0 : (x.id :: xs.map (·.id)).Pairwise (· ≤ ·) := hs
    obtain ⟨p1, p2⟩ := List.pairwise_cons.1 hs0
    unfold insertById
    by_cases h : st.id ≤ x.id
    · rw [if_pos h]
      simp only [List.map_cons]
      refine List.pairwise_cons.2 ⟨?_, hs0⟩
      intro y hy
      rcases List.mem_cons.1 hy with h1 | h1
      · rw [h1]; exact h
      · exact Nat.le_trans h (p1 y h1)
    · rw [if_neg h]
      simp only [List.map_cons]
      refine List.pairwise_cons.2 ⟨?_, ih p2⟩
      intro y hy
      obtain ⟨z, hz, he⟩ := List.mem_map.1 hy
      rcases (mem_insertById st xs z).1 hz with h1 | h1
      · rw [← he, h1]; omega
      · exact p1 y (by rw [← he]; exact List.mem_map_of_mem (f := (·.id)) h1)

theorem sorted_sortById (l : List Stream) : ((sortById l).map (·.id)).Pairwise (· ≤ ·) := by
  induction l with
  | nil => simp [sortById]
  | cons x xs ih => unfold sortById; exact sorted_insertById x _ ih

/-- input condition of `Distribute`: distinct exact copies of stored streams that are in the active list -/
def GoodInput (s : State) (l : List Stream) : Prop :=
  (l.map (·.id)).Nodup ∧ ∀ st ∈ l, getS s.streams st.id = some st ∧ st.id ∈ s.active.ids

theorem activeStreams_good (s : State) (hs : SStruct s) : GoodInput s (activeStreams s) := by
  obtain ⟨n1, _, _⟩ := List.nodup_append.1 hs.nodup
  exact streamsOf_spec s.streams hs.sid s.active.ids n1

theorem activeStreamsFor_good (s : State) (hs : SStruct s) (e : Nat) : GoodInput s (activeStreamsFor s e) := by
  obtain ⟨a, b⟩ := activeStreams_good s hs
  unfold activeStreamsFor
  exact ⟨a.sublist ((List.filter_sublist).map _), fun st hst => b st (List.mem_filter.1 hst).1⟩

theorem sortById_good (s : State) (l : List Stream) (h : GoodInput s l) : GoodInput s (sortById l) :=
  ⟨nodup_sortById l h.1, fun st hst => h.2 st ((mem_sortById l st).1 hst)⟩

/-- stream-cache invariant together with "the cache holds the same ids as the input" -/
def SCI2 (ss : List Stream) (ids : List Nat) (c : Caches) : Prop := SCI ss c ∧ c.streams.map (·.id) = ids

theorem rewardsCb_SCI2 (s : State) (ss : List Stream) (ids : List Nat) (c : Caches) (v : SView) (r : Rec) (h : SCI2 ss ids c) :
    SCI2 ss ids (rewardsCb s c v r).1 := by
  refine ⟨rewardsCb_SCI s ss c v r h.1, ?_⟩
  obtain ⟨⟨hn, _, _⟩, hi⟩ := h
  unfold rewardsCb
  cases hs : c.getStream v.id with
  | none => exact hi
  | some stream =>
    simp only
    obtain ⟨hm, _⟩ := cacheGetStream_some hs
    cases hg : c.getGauge r.gauge with
    | some g =>
      simp only
      split
      · exact hi
      · simp only
        exact ((upsertStream_present (fun _ => 0) c.streams { stream with distributed := Coins.add stream.distributed (gaugeRewards stream.epochCoins r.weight stream.totalWeight) } stream hn hm rfl).1).trans hi
    | none =>
      simp only
      cases hst : getGauge s r.gauge with
      | none => exact hi
      | some g =>
        simp only
        by_cases hf : g.isFinished s.now = true
        · simp only [hf, if_true]; exact hi
        · rw [if_neg hf]
          simp only
          split
          · exact hi
          · simp only
            exact ((upsertStream_present (fun _ => 0) c.streams { stream with distributed := Coins.add stream.distributed (gaugeRewards stream.epochCoins r.weight stream.totalWeight) } stream hn hm rfl).1).trans hi

theorem ptrLoop_SCI2 (s : State) (ss : List Stream) (ids : List Nat) (maxOps : Nat) :
    ∀ (es : List Nat) (total : Nat) (c : Caches) (ps : List Pointer), SCI2 ss ids c →
      SCI2 ss ids (ptrLoop s maxOps es total c ps).2.1 := by
  intro es
  induction es with
  | nil => intro total c ps h; exact h
  | cons e rest ih =>
    intro total c ps h
    unfold ptrLoop
    split
    · exact h
    · exact ih _ _ _ (iterate_inv (SCI2 ss ids) _ e _ _ (rewardsCb s) c (fun acc v r hp => rewardsCb_SCI2 s ss ids acc v r hp) h)

theorem SStruct_congr {s s' : State} (h1 : s'.streams = s.streams) (h2 : s'.active = s.active) (h3 : s'.upcoming = s.upcoming)
    (hs : SStruct s) : SStruct s' := by
  have ho : openIds s' = openIds s := by unfold openIds; rw [h2, h3]
  exact ⟨by rw [h1]; exact hs.sid, by rw [ho, h1]; exact hs.valid, by rw [ho]; exact hs.nodup⟩

theorem owedL_congr {s s' : State} (h1 : s'.streams = s.streams) (h2 : s'.active = s.active) (h3 : s'.upcoming = s.upcoming) (i : Nat) :
    owedL s' i = owedL s i := by
  unfold owedL openIds; rw [h1, h2, h3]

/-- x/streamer `Keeper.Distribute`, stream side: streams only grow, and if afterwards no stream has
    over-distributed, the streamer account still covers its open streams -/
theorem strDistribute_streams (s : State) (es : List Nat) (streams : List Stream) (maxOps : Nat) (ee : Bool) (s' : State)
    (hg : GInv s) (hs : SStruct s) (hin : GoodInput s streams)
    (h : strDistribute s es streams maxOps ee = .ok s') :
    SStruct s' ∧ StreamsMono s.streams s'.streams ∧
    ((∀ i, owedL s i ≤ amt (s.bank.get streamerAddr) i) → NoOver s'.streams →
      ∀ i, owedL s' i ≤ amt (s'.bank.get streamerAddr) i) := by
  have hin := sortById_good s streams hin
  unfold strDistribute at h
  have hci := ptrLoop_CI s hg.ids maxOps (sortByDuration es) 0 ⟨sortById streams, [], []⟩ s.ptrs
    ⟨by simp, by simp, by intro i; simp [extras]⟩
  have hsci := ptrLoop_SCI2 s s.streams ((sortById streams).map (·.id)) maxOps (sortByDuration es) 0 ⟨sortById streams, [], []⟩ s.ptrs
    ⟨⟨hin.1, fun st hst => ⟨st, (hin.2 st hst).1, rfl, fun _ => Nat.le_refl _⟩, by
        intro i
        unfold sExtras
        apply sum_zero_of_all_zero
        intro x hx
        obtain ⟨st, hst, he⟩ := List.mem_map.1 hx
        rw [← he]; unfold sExtra storedDist; rw [(hin.2 st hst).1]; simp⟩, rfl⟩
  generalize ptrLoop s maxOps (sortByDuration es) 0 ⟨sortById streams, [], []⟩ s.ptrs = res at h hci hsci
  obtain ⟨tot, c, ps⟩ := res
  dsimp only at h hci hsci
  obtain ⟨ci1, ci2, ci3⟩ := hci
  obtain ⟨⟨sc1, sc2, sc3⟩, sc4⟩ := hsci
  have hne : streamerAddr ≠ incAddr := by decide
  have key : ∀ b : Bank, (∀ i, amt (b.get incAddr) i = amt (s.bank.get incAddr) i + amt c.distributed i) →
      (∀ i, amt c.distributed i ≤ amt (s.bank.get streamerAddr) i ∧
        amt (b.get streamerAddr) i = amt (s.bank.get streamerAddr) i - amt c.distributed i) →
      ∀ s2, incDistribute { s with ptrs := ps, bank := b } c.gauges ee = .ok s2 → saveStreams ee c.streams s2 = .ok s' →
      SStruct s' ∧ StreamsMono s.streams s'.streams ∧
      ((∀ i, owedL s i ≤ amt (s.bank.get streamerAddr) i) → NoOver s'.streams →
        ∀ i, owedL s' i ≤ amt (s'.bank.get streamerAddr) i) := by
    intro b hb1 hb2 s2 hinc hsave
    obtain ⟨_, _, r3, _, _, r6, _⟩ := incDistribute_spec { s with ptrs := ps, bank := b } c.gauges ee s2
      hg.ids hg.bounded ci1 ci2
      (by intro i; simp only; rw [ci3 i, hb1 i]; have := hg.solvent i; omega) hinc
    have e1 : s2.streams = s.streams := by rw [r3]
    have e2 : s2.active = s.active := by rw [r3]
    have e3 : s2.upcoming = s.upcoming := by rw [r3]
    have hs2 : SStruct s2 := SStruct_congr e1 e2 e3 hs
    have hall : ∀ st ∈ c.streams, SCoh s2.streams st ∧ st.id ∈ s2.active.ids := by
      intro st hst
      refine ⟨by rw [e1]; exact sc2 st hst, ?_⟩
      have : st.id ∈ (sortById streams).map (·.id) := by rw [← sc4]; exact List.mem_map_of_mem (f := (·.id)) hst
      obtain ⟨y, hy, he⟩ := List.mem_map.1 this
      rw [e2, ← he]; exact (hin.2 y hy).2
    obtain ⟨q1, q2, q3, _, q5⟩ := saveStreams_spec ee c.streams s2 s' hs2 sc1 hall hsave
    refine ⟨q1, by rw [e1] at q2; exact q2, ?_⟩
    intro hsol hno i
    have h5 := q5 hno i
    rw [e1, sc3 i, owedL_congr e1 e2 e3 i] at h5
    have h6 := r6 streamerAddr hne i
    simp only at h6
    have := hsol i
    have := hb2 i
    rw [q3]
    omega
  by_cases hz : c.distributed.isZero = true
  · simp only [hz, if_true] at h
    cases hinc : incDistribute { s with ptrs := ps, bank := s.bank } c.gauges ee with
    | error e => simp [hinc] at h
    | ok s2 =>
      simp only [hinc] at h
      exact key s.bank (by intro i; have := (isZero_iff _).1 hz i; omega)
        (by intro i; have := (isZero_iff _).1 hz i; omega) s2 hinc h
  · rw [if_neg hz] at h
    cases hsend : s.bank.send streamerAddr incAddr c.distributed with
    | none => simp [hsend] at h
    | some b =>
      simp only [hsend] at h
      obtain ⟨sa, sb⟩ := Bank.send_some hsend hne
      cases hinc : incDistribute { s with ptrs := ps, bank := b } c.gauges ee with
      | error e => simp [hinc] at h
      | ok s2 =>
        simp only [hinc] at h
        refine key b ?_ ?_ s2 hinc h
        · intro i
          have := sb incAddr i
          rw [if_neg (fun x => hne x.symm), if_pos rfl] at this
          exact this
        · intro i
          have := sb streamerAddr i
          rw [if_pos rfl] at this
          exact ⟨sa i, this⟩


/-! ### the stream-side step relation -/

def Solv (s : State) : Prop := ∀ i, owedL s i ≤ amt (s.bank.get streamerAddr) i

structure SStep (s s' : State) : Prop where
  struct : SStruct s'
  mono : StreamsMono s.streams s'.streams
  solv : Solv s → NoOver s'.streams → Solv s'

theorem SStep.refl {s : State} (hs : SStruct s) : SStep s s := ⟨hs, StreamsMono.refl _, fun h _ => h⟩

theorem SStep.trans {a b c : State} (h1 : SStep a b) (h2 : SStep b c) : SStep a c :=
  ⟨h2.struct, StreamsMono.trans h1.mono h2.mono,
   fun hs hno => h2.solv (h1.solv hs (NoOver_of_mono h2.mono hno)) hno⟩

/-- a change that leaves streams, reference lists and the streamer balance alone (or raises the balance) -/
theorem SStep.of_frame {s s' : State} (hs : SStruct s) (h1 : s'.streams = s.streams) (h2 : s'.active = s.active)
    (h3 : s'.upcoming = s.upcoming) (hb : ∀ i, amt (s.bank.get streamerAddr) i ≤ amt (s'.bank.get streamerAddr) i) : SStep s s' :=
  ⟨SStruct_congr h1 h2 h3 hs, by rw [h1]; exact StreamsMono.refl _,
   fun hsol _ i => by rw [owedL_congr h1 h2 h3 i]; exact Nat.le_trans (hsol i) (hb i)⟩

/-- rewriting a stream without touching its coins or distributed coins -/
theorem write_same (s : State) (hs : SStruct s) (st0 v : Stream) (hget : getS s.streams v.id = some st0)
    (hc : v.coins = st0.coins) (hd : v.distributed = st0.distributed) :
    SStruct (setStream s v) ∧ StreamsMono s.streams (setStream s v).streams ∧ ∀ i, owedL (setStream s v) i = owedL s i := by
  obtain ⟨w1, w2, _, _⟩ := write_keep s hs st0 v hget hc (by intro i; rw [hd]; exact Nat.le_refl _)
  refine ⟨w1, w2, ?_⟩
  intro i
  obtain ⟨h1, hk, hgetk, hid0, _⟩ := getS_some hs.sid hget
  show ((openIds s).map (termS (s.streams.set (v.id - 1) v) · i)).sum = ((openIds s).map (termS s.streams · i)).sum
  apply congrArg
  apply List.map_congr_left
  intro x _
  by_cases hx : x = v.id
  · subst hx
    unfold termS
    have := getS_set_eq s.streams (v.id - 1) v hk
    have e : v.id - 1 + 1 = v.id := by omega
    rw [e] at this
    rw [this, hget]
    simp only [hc, hd]
  · exact termS_set_ne _ _ _ _ _ (by omega)

theorem move_to_active (s : State) (hs : SStruct s) (t id : Nat) (u a : Refs)
    (hd : Refs.del s.upcoming t id = some u) (ha : Refs.add s.active t id = some a) :
    SStruct { s with upcoming := u, active := a } ∧ ∀ i, owedL { s with upcoming := u, active := a } i = owedL s i := by
  obtain ⟨n1, n2, n3⟩ := List.nodup_append.1 hs.nodup
  obtain ⟨d1, _, d3⟩ := Refs.del_spec (fun _ => 0) s.upcoming t id u hd
  obtain ⟨j1, j2⟩ := d3 n2
  have hidA : id ∉ s.active.ids := fun hm => n3 id hm id d1 rfl
  have hopen : openIds { s with upcoming := u, active := a } = a.ids ++ u.ids := rfl
  refine ⟨⟨hs.sid, ?_, ?_⟩, ?_⟩
  · intro x hx
    rw [hopen] at hx
    apply hs.valid
    rcases List.mem_append.1 hx with h | h
    · rcases (Refs.add_mem ha x).1 h with h2 | h2
      · exact List.mem_append_left _ h2
      · rw [h2]; exact List.mem_append_right _ d1
    · exact List.mem_append_right _ ((j2 x).1 h).1
  · rw [hopen]
    refine List.nodup_append.2 ⟨Refs.add_nodup ha n1 hidA, j1, ?_⟩
    intro x hx y hy
    rcases (Refs.add_mem ha x).1 hx with h2 | h2
    · exact n3 x h2 y ((j2 y).1 hy).1
    · rw [h2]; exact fun he => ((j2 y).1 hy).2 he.symm
  · intro i
    have e1 := (Refs.del_spec (termS s.streams · i) s.upcoming t id u hd).2.1
    have e2 := Refs.add_sum ha (termS s.streams · i)
    unfold owedL
    rw [hopen]
    show ((a.ids ++ u.ids).map (termS s.streams · i)).sum = ((s.active.ids ++ s.upcoming.ids).map (termS s.streams · i)).sum
    simp only [List.map_append, List.sum_append]
    omega

theorem activateDue_spec : ∀ (l : List Stream) (s s' : State), SStruct s → activateDue l s = .ok s' →
    SStruct s' ∧ s'.streams = s.streams ∧ s'.bank = s.bank ∧ ∀ i, owedL s' i = owedL s i := by
  intro l
  induction l with
  | nil => intro s s' hs h; simp only [activateDue, Except.ok.injEq] at h; subst h; exact ⟨hs, rfl, rfl, fun _ => rfl⟩
  | cons st rest ih =>
    intro s s' hs h
    unfold activateDue at h
    split at h
    · cases hd : Refs.del s.upcoming st.start st.id with
      | none => simp [hd] at h
      | some u =>
        simp only [hd] at h
        cases hf : Refs.add s.active st.start st.id with
        | none => simp [hf] at h
        | some a =>
          simp only [hf] at h
          obtain ⟨m1, m2⟩ := move_to_active s hs _ _ u a hd hf
          obtain ⟨r1, r2, r3, r4⟩ := ih _ _ m1 h
          exact ⟨r1, r2, r3, fun i => (r4 i).trans (m2 i)⟩
    · exact ih _ _ hs h

/-- re-reading the sponsorship distribution changes only the records and the total weight -/
theorem retarget_static (st : Stream) (d : List Rec) :
    (st.retarget d).id = st.id ∧ (st.retarget d).coins = st.coins ∧ (st.retarget d).distributed = st.distributed ∧
    (st.retarget d).start = st.start ∧ (st.retarget d).epochId = st.epochId ∧ (st.retarget d).numEpochs = st.numEpochs ∧
    (st.retarget d).filled = st.filled ∧ (st.retarget d).sponsored = st.sponsored := by
  unfold Stream.retarget; split <;> exact ⟨rfl, rfl, rfl, rfl, rfl, rfl, rfl, rfl⟩

theorem startStreams_spec : ∀ (l : List Stream) (s s' : State), SStruct s → (l.map (·.id)).Nodup →
    (∀ st ∈ l, getS s.streams st.id = some st) → startStreams l s = .ok s' →
    SStruct s' ∧ StreamsMono s.streams s'.streams ∧ s'.bank = s.bank ∧ ∀ i, owedL s' i = owedL s i := by
  intro l
  induction l with
  | nil => intro s s' hs _ _ h; simp only [startStreams, Except.ok.injEq] at h; subst h; exact ⟨hs, StreamsMono.refl _, rfl, fun _ => rfl⟩
  | cons st rest ih =>
    intro s s' hs hnd hall h
    have hnd0 : (st.id :: rest.map (·.id)).Nodup := hnd
    obtain ⟨hn1, hn2⟩ := List.nodup_cons.1 hnd0
    unfold startStreams at h
    cases hsub : Coins.sub? st.coins st.distributed with
    | none => simp [hsub] at h
    | some remain =>
      simp only [hsub] at h
      split at h
      · simp at h
      · have hget := hall st List.mem_cons_self
        obtain ⟨q1, q2, q3, _⟩ := retarget_static st s.distr
        obtain ⟨w1, w2, w3⟩ := write_same s hs st
          { st.retarget s.distr with epochCoins := Coins.quo remain (st.numEpochs - st.filled), ecEmpty := remain.isZero }
          (by show getS s.streams (st.retarget s.distr).id = some st; rw [q1]; exact hget) q2 q3
        have hall' : ∀ y ∈ rest, getS (setStream s { st.retarget s.distr with epochCoins := Coins.quo remain (st.numEpochs - st.filled), ecEmpty := remain.isZero }).streams y.id = some y := by
          intro y hy
          have hne : y.id ≠ st.id := fun he => hn1 (by rw [← he]; exact List.mem_map_of_mem (f := (·.id)) hy)
          obtain ⟨g1, _⟩ := getS_some hs.sid hget
          show getS (s.streams.set ((st.retarget s.distr).id - 1) _) y.id = some y
          rw [q1, getS_set_ne _ _ _ _ (by omega)]
          exact hall y (List.mem_cons_of_mem _ hy)
        obtain ⟨r1, r2, r3, r4⟩ := ih _ _ w1 hn2 hall' h
        exact ⟨r1, StreamsMono.trans w2 r2, r3, fun i => (r4 i).trans (w3 i)⟩

theorem streamerBeforeEpochStart_sstep (s : State) (e : Nat) (s' : State) (hs : SStruct s)
    (h : streamerBeforeEpochStart s e = .ok s') : SStep s s' := by
  unfold streamerBeforeEpochStart at h
  cases ha : activateDue (upcomingStreams s) s with
  | error x => simp [ha] at h
  | ok s1 =>
    simp only [ha] at h
    obtain ⟨a1, a2, a3, a4⟩ := activateDue_spec _ _ _ hs ha
    obtain ⟨gi1, gi2⟩ := activeStreamsFor_good s1 a1 e
    obtain ⟨b1, b2, b3, b4⟩ := startStreams_spec _ _ _ a1 gi1 (fun st hst => (gi2 st hst).1) h
    refine ⟨b1, by rw [a2] at b2; exact b2, ?_⟩
    intro hsol _ i
    rw [b4 i, a4 i, b3, a3]; exact hsol i

theorem streamerAfterEpochEnd_sstep (s : State) (e : Nat) (s' : State) (hg : GInv s) (hs : SStruct s)
    (h : streamerAfterEpochEnd s e = .ok s') : SStep s s' := by
  unfold streamerAfterEpochEnd at h
  split at h
  · simp only [Except.ok.injEq] at h; subst h; exact SStep.refl hs
  · cases hd : strDistribute s [e] (activeStreamsFor s e) maxU64 true with
    | error x => simp [hd] at h
    | ok s1 =>
      simp only [hd, Except.ok.injEq] at h
      subst h
      obtain ⟨a, b, c⟩ := strDistribute_streams _ _ _ _ _ _ hg hs (activeStreamsFor_good s hs e) hd
      exact SStep.trans ⟨a, b, c⟩ (SStep.of_frame a rfl rfl rfl (fun _ => Nat.le_refl _))

theorem checkFinished_frame : ∀ (l : List Gauge) (s : State),
    (checkFinished l s).streams = s.streams ∧ (checkFinished l s).active = s.active ∧
    (checkFinished l s).upcoming = s.upcoming ∧ (checkFinished l s).bank = s.bank := by
  intro l
  induction l with
  | nil => intro s; exact ⟨rfl, rfl, rfl, rfl⟩
  | cons g rest ih =>
    intro s
    unfold checkFinished
    split
    · cases hc : getGauge s g.id with
      | none => simp only; exact ih s
      | some cur =>
        simp only
        obtain ⟨a, b, c, d⟩ := ih (setGauge s { cur with status := .finished })
        exact ⟨a, b, c, d⟩
    · exact ih s

theorem incAfterEpochEnd_sstep (s : State) (e : Nat) (s' : State) (hg : GInv s) (hs : SStruct s)
    (h : incAfterEpochEnd s e = .ok s') : SStep s s' := by
  unfold incAfterEpochEnd at h
  split at h
  · simp only [Except.ok.injEq] at h; subst h; exact SStep.refl hs
  · simp only at h
    generalize hf : (fun g : Gauge => if (g.status == GStatus.upcoming && decide (g.start ≤ s.now)) = true then { g with status := GStatus.active } else g) = f at h
    have hfp : ∀ g, (f g).id = g.id ∧ (f g).coins = g.coins ∧ (f g).distributed = g.distributed ∧ (f g).kind = g.kind := by
      intro g; rw [← hf]; simp only; split <;> exact ⟨rfl, rfl, rfl, rfl⟩
    have g1 : GInv { s with gauges := s.gauges.map f } := by
      refine ⟨?_, ?_, ?_⟩
      · intro k hk
        simp only [List.getElem_map]
        rw [(hfp _).1]; exact hg.ids k (by simpa using hk)
      · intro g hgm i
        obtain ⟨g0, hg0, he⟩ := List.mem_map.1 hgm
        rw [← he, (hfp g0).2.1, (hfp g0).2.2.1]; exact hg.bounded g0 hg0 i
      · intro i
        have : owed (s.gauges.map f) i = owed s.gauges i := by
          unfold owed
          rw [List.map_map]
          apply congrArg
          apply List.map_congr_left
          intro g _
          simp only [Function.comp, owedG, (hfp g).2.1, (hfp g).2.2.1]
        simp only; rw [this]; exact hg.solvent i
    cases hd : incDistribute { s with gauges := s.gauges.map f } (List.filter (fun x => x.status == GStatus.active) (s.gauges.map f)) true with
    | error x => simp [hd] at h
    | ok s2 =>
      simp only [hd, Except.ok.injEq] at h
      have hsub : ∀ g ∈ List.filter (fun x => x.status == GStatus.active) (s.gauges.map f), g ∈ s.gauges.map f :=
        fun g hgm => (List.mem_filter.1 hgm).1
      obtain ⟨_, _, r3, _, _, r6, _⟩ := incDistribute_spec _ _ true s2 g1.ids g1.bounded
        ((idsOK_nodup _ g1.ids).sublist ((List.filter_sublist).map _))
        (fun g hgm => ⟨g, getG_of_mem g1.ids (hsub g hgm), rfl, rfl, fun _ => Nat.le_refl _⟩)
        (by
          intro i
          have : extras (s.gauges.map f) (List.filter (fun x => x.status == GStatus.active) (s.gauges.map f)) i = 0 := by
            unfold extras
            apply sum_zero_of_all_zero
            intro x hx
            obtain ⟨g, hgm, he⟩ := List.mem_map.1 hx
            rw [← he]; exact extra_self g1.ids (hsub g hgm) i
          simp only; rw [this]; exact g1.solvent i)
        hd
      obtain ⟨c1, c2, c3, c4⟩ := checkFinished_frame (List.filter (fun x => x.status == GStatus.active) (s.gauges.map f)) s2
      subst h
      have hne : streamerAddr ≠ incAddr := by decide
      refine SStep.of_frame hs (by rw [c1, r3]) (by rw [c2, r3]) (by rw [c3, r3]) ?_
      intro i
      rw [c4]
      have := r6 streamerAddr hne i
      simpa using this


/-! ### blocks -/

theorem applyHook_sstep (f : State → Res) (s : State) (hs : SStruct s)
    (hf : ∀ s', f s = .ok s' → SStep s s') : SStep s (applyHook f s) := by
  unfold applyHook
  cases h : f s with
  | ok s' => exact hf s' h
  | error e => exact SStep.refl hs

theorem epochTick_sstep (s : State) (e : Nat) (hg : GInv s) (hs : SStruct s) : SStep s (epochTick s e) := by
  unfold epochTick
  cases he : s.epochs[e]? with
  | none => exact SStep.refl hs
  | some ep =>
    simp only
    split
    · exact SStep.refl hs
    · split
      · exact SStep.refl hs
      · split
        · have f1 : SStep s { s with epochs := s.epochs.set e { ep with started := true, curStart := ep.startTime } } :=
            SStep.of_frame hs rfl rfl rfl (fun _ => Nat.le_refl _)
          exact SStep.trans f1 (applyHook_sstep _ _ f1.struct (fun s' h => streamerBeforeEpochStart_sstep _ _ _ f1.struct h))
        · have a1 := applyHook_sstep (fun x => streamerAfterEpochEnd x e) s hs
            (fun s' h => streamerAfterEpochEnd_sstep _ _ _ hg hs h)
          have g1 := (applyHook_spec (fun x => streamerAfterEpochEnd x e) s hg
            (fun s' h => streamerAfterEpochEnd_spec _ _ _ hg h)).1
          have a2 := applyHook_sstep (fun x => incAfterEpochEnd x e) _ a1.struct
            (fun s' h => incAfterEpochEnd_sstep _ _ _ g1 a1.struct h)
          generalize applyHook (fun x => incAfterEpochEnd x e) (applyHook (fun x => streamerAfterEpochEnd x e) s) = s2 at a2 ⊢
          have f1 : SStep s2 { s2 with epochs := s2.epochs.set e { ep with curStart := ep.curStart + ep.dur } } :=
            SStep.of_frame a2.struct rfl rfl rfl (fun _ => Nat.le_refl _)
          exact SStep.trans a1 (SStep.trans a2 (SStep.trans f1
            (applyHook_sstep _ _ f1.struct (fun s' h => streamerBeforeEpochStart_sstep _ _ _ f1.struct h))))

theorem beginBlock_sstep (s : State) (dt : Nat) (hg : GInv s) (hs : SStruct s) : SStep s (beginBlock s dt) := by
  unfold beginBlock
  have f0 : SStep s { s with now := s.now + dt } := SStep.of_frame hs rfl rfl rfl (fun _ => Nat.le_refl _)
  have hs0 : Same s { s with now := s.now + dt } := ⟨rfl, rfl, rfl, rfl⟩
  have g0 := hs0.ginv hg
  have t0 := epochTick_sstep _ 0 g0 f0.struct
  have g1 := (epochTick_spec _ 0 g0).1
  have t1 := epochTick_sstep _ 1 g1 t0.struct
  have g2 := (epochTick_spec _ 1 g1).1
  have t2 := epochTick_sstep _ 2 g2 t1.struct
  exact SStep.trans f0 (SStep.trans t0 (SStep.trans t1 t2))

/-! ### proposals -/

theorem amt_sumList_map {α : Type} (f : α → Coins) (l : List α) (i : Nat) :
    amt (Coins.sumList (l.map f)) i = (l.map (fun x => amt (f x) i)).sum := by
  induction l with
  | nil => simp [Coins.sumList]
  | cons x xs ih => simp only [List.map_cons, Coins.sumList, amt_add, List.sum_cons, ih]

theorem sum_sub_pointwise {α : Type} (c d : α → Nat) (l : List α) (h : ∀ x ∈ l, d x ≤ c x) :
    (l.map (fun x => c x - d x)).sum = (l.map c).sum - (l.map d).sum ∧ (l.map d).sum ≤ (l.map c).sum := by
  induction l with
  | nil => simp
  | cons x xs ih =>
    obtain ⟨i1, i2⟩ := ih (fun y hy => h y (List.mem_cons_of_mem _ hy))
    have := h x List.mem_cons_self
    simp only [List.map_cons, List.sum_cons]
    omega

/-- `getToDistributeCoinsFromStreams` when no stream of the list has over-distributed -/
theorem toDistribute_amt (l : List Stream) (r : Coins) (h : toDistribute l = some r)
    (hno : ∀ st ∈ l, ∀ i, amt st.distributed i ≤ amt st.coins i) (i : Nat) :
    amt r i = (l.map (fun st => amt st.coins i - amt st.distributed i)).sum := by
  unfold toDistribute at h
  obtain ⟨hr, _⟩ := sub?_some h
  rw [hr, amt_sub, amt_sumList_map, amt_sumList_map]
  exact ((sum_sub_pointwise (fun st => amt st.coins i) (fun st => amt st.distributed i) l (fun st hst => hno st hst i)).1).symm

theorem filterMap_sum (ss : List Stream) (g : Stream → Nat) (ids : List Nat) :
    ((ids.filterMap (getS ss)).map g).sum =
      (ids.map (fun id => match getS ss id with | some st => g st | none => 0)).sum := by
  induction ids with
  | nil => simp
  | cons x xs ih =>
    cases hg : getS ss x with
    | none => simp only [List.filterMap_cons, hg, List.map_cons, List.sum_cons, ih]; omega
    | some st => simp only [List.filterMap_cons, hg, List.map_cons, List.sum_cons, ih]

theorem mem_streamsOf {ss : List Stream} {ids : List Nat} {st : Stream} (h : st ∈ ids.filterMap (getS ss)) : st ∈ ss := by
  obtain ⟨id, _, hg⟩ := List.mem_filterMap.1 h
  unfold getS at hg
  split at hg
  · simp at hg
  · exact List.mem_of_getElem? hg

/-- the allocation computed by `GetModuleToDistributeCoins` is exactly what is owed to open streams -/
theorem moduleToDistribute_amt (s : State) (alloc : Coins) (h : moduleToDistribute s = some alloc) (hno : NoOver s.streams) (i : Nat) :
    amt alloc i = owedL s i := by
  unfold moduleToDistribute at h
  cases ha : toDistribute (activeStreams s) with
  | none => simp [ha] at h
  | some a =>
    cases hu : toDistribute (upcomingStreams s) with
    | none => simp [ha, hu] at h
    | some u =>
      simp only [ha, hu, Option.some.injEq] at h
      subst h
      have e1 := toDistribute_amt _ _ ha (fun st hst => hno st (mem_streamsOf hst)) i
      have e2 := toDistribute_amt _ _ hu (fun st hst => hno st (mem_streamsOf hst)) i
      rw [amt_add, e1, e2]
      unfold owedL openIds activeStreams upcomingStreams streamsOf
      simp only [List.map_append, List.sum_append]
      have f1 := filterMap_sum s.streams (fun st => amt st.coins i - amt st.distributed i) s.active.ids
      have f2 := filterMap_sum s.streams (fun st => amt st.coins i - amt st.distributed i) s.upcoming.ids
      have hg : getStream s = getS s.streams := rfl
      rw [hg, f1, f2]
      rfl

theorem getS_append_old (ss : List Stream) (v : Stream) (id : Nat) (h : id ≤ ss.length) : getS (ss ++ [v]) id = getS ss id := by
  unfold getS
  by_cases h0 : id = 0
  · simp [h0]
  · simp only [h0, if_false]
    rw [List.getElem?_append_left (by omega)]

theorem getS_append_new (ss : List Stream) (v : Stream) : getS (ss ++ [v]) (ss.length + 1) = some v := by
  unfold getS
  simp

theorem createStream_sstep (s : State) (hs : SStruct s) (sp : Bool) (c : Coins) (rs0 : List Rec) (st e n : Nat) :
    SStep s (createStream s sp c rs0 st e n).2 := by
  unfold createStream
  split
  · exact SStep.refl hs
  · split
    · exact SStep.refl hs
    · split
      · exact SStep.refl hs
      · cases hm : moduleToDistribute s with
        | none => exact SStep.refl hs
        | some alloc =>
          simp only
          cases hf : Coins.sub? (s.bank.get streamerAddr) alloc with
          | none => exact SStep.refl hs
          | some free =>
            simp only
            split
            · exact SStep.refl hs
            · next hle =>
              split
              · exact SStep.refl hs
              · cases hadd : Refs.add s.upcoming (if st < s.now then s.now else st) (s.streams.length + 1) with
                | none => exact SStep.refl hs
                | some u =>
                  simp only
                  obtain ⟨n1, n2, n3⟩ := List.nodup_append.1 hs.nodup
                  have hnew : ∀ x ∈ openIds s, x ≠ s.streams.length + 1 := fun x hx he => by have := (hs.valid x hx).2; omega
                  let v : Stream := { id := s.streams.length + 1, recs := (if sp then s.distr else rs0), totalWeight := totalWeightOf (if sp then s.distr else rs0), coins := c, distributed := [], start := (if st < s.now then s.now else st), epochId := e, numEpochs := n, filled := 0, epochCoins := Coins.quo c n, ecEmpty := false, sponsored := sp }
                  have hopen : openIds { s with streams := s.streams ++ [v], upcoming := u } = s.active.ids ++ u.ids := rfl
                  refine ⟨⟨?_, ?_, ?_⟩, StreamsMono_append _ _, ?_⟩
                  · intro k hk
                    simp only [List.length_append, List.length_singleton] at hk
                    by_cases h : k < s.streams.length
                    · simp only [List.getElem_append_left h]; exact hs.sid k h
                    · have : k = s.streams.length := by omega
                      subst this; simp [v]
                  · intro x hx
                    rw [hopen] at hx
                    simp only [List.length_append, List.length_singleton]
                    rcases List.mem_append.1 hx with h | h
                    · have := hs.valid x (List.mem_append_left _ h); omega
                    · rcases (Refs.add_mem hadd x).1 h with h2 | h2
                      · have := hs.valid x (List.mem_append_right _ h2); omega
                      · omega
                  · rw [hopen]
                    refine List.nodup_append.2 ⟨n1, Refs.add_nodup hadd n2 (fun hm => hnew _ (List.mem_append_right _ hm) rfl), ?_⟩
                    intro x hx y hy
                    rcases (Refs.add_mem hadd y).1 hy with h2 | h2
                    · exact n3 x hx y h2
                    · rw [h2]; exact hnew x (List.mem_append_left _ hx)
                  · intro hsol hno i
                    have hno0 : NoOver s.streams := NoOver_of_mono (StreamsMono_append s.streams v) hno
                    have ha := moduleToDistribute_amt s alloc hm hno0 i
                    obtain ⟨hfr, hale⟩ := sub?_some hf
                    have hle' : Coins.le c free = true := by simpa using hle
                    have hci := (le_iff c free).1 hle' i
                    rw [hfr, amt_sub] at hci
                    have hold : ∀ x ∈ openIds s, termS (s.streams ++ [v]) x i = termS s.streams x i := by
                      intro x hx
                      unfold termS
                      rw [getS_append_old _ _ _ (hs.valid x hx).2]
                    have hnewt : termS (s.streams ++ [v]) (s.streams.length + 1) i = amt c i := by
                      unfold termS; rw [getS_append_new]; simp [v]
                    have hsum := Refs.add_sum hadd (termS (s.streams ++ [v]) · i)
                    show ((s.active.ids ++ u.ids).map (termS (s.streams ++ [v]) · i)).sum ≤ _
                    have hA : (s.active.ids.map (termS (s.streams ++ [v]) · i)).sum = (s.active.ids.map (termS s.streams · i)).sum :=
                      congrArg List.sum (List.map_congr_left (fun x hx => hold x (List.mem_append_left _ hx)))
                    have hU : (s.upcoming.ids.map (termS (s.streams ++ [v]) · i)).sum = (s.upcoming.ids.map (termS s.streams · i)).sum :=
                      congrArg List.sum (List.map_congr_left (fun x hx => hold x (List.mem_append_right _ hx)))
                    have hO : owedL s i = (s.active.ids.map (termS s.streams · i)).sum + (s.upcoming.ids.map (termS s.streams · i)).sum := by
                      unfold owedL openIds; simp only [List.map_append, List.sum_append]
                    have := hale i
                    simp only [List.map_append, List.sum_append]
                    rw [hsum, hA, hU, hnewt]
                    show _ ≤ amt (s.bank.get streamerAddr) i
                    omega


theorem moveToFinished_sstep (s : State) (hs : SStruct s) (b : Bool) (st : Stream) (s' : State)
    (h : moveToFinished s b st = some s') : SStep s s' := by
  unfold moveToFinished at h
  cases b with
  | true =>
    simp only [if_true] at h
    cases hd : Refs.del s.active st.start st.id with
    | none => simp [hd] at h
    | some r =>
      simp only [hd] at h
      cases hf : Refs.add s.finished st.start st.id with
      | none => simp [hf] at h
      | some f =>
        simp only [hf, Option.some.injEq] at h
        subst h
        obtain ⟨r1, r2, _⟩ := remove_active s hs _ _ r f hd
        exact ⟨r1, StreamsMono.refl _, fun hsol _ i => by have := r2 i; have := hsol i; show owedL _ i ≤ amt (s.bank.get streamerAddr) i; omega⟩
  | false =>
    simp only [Bool.false_eq_true, if_false] at h
    cases hd : Refs.del s.upcoming st.start st.id with
    | none => simp [hd] at h
    | some r =>
      simp only [hd] at h
      cases hf : Refs.add s.finished st.start st.id with
      | none => simp [hf] at h
      | some f =>
        simp only [hf, Option.some.injEq] at h
        subst h
        obtain ⟨r1, r2, _⟩ := remove_upcoming s hs _ _ r hd
        have hfr : SStep { s with upcoming := r } { s with upcoming := r, finished := f } :=
          SStep.of_frame r1 rfl rfl rfl (fun _ => Nat.le_refl _)
        exact SStep.trans ⟨r1, StreamsMono.refl _, fun hsol _ i => by have := r2 i; have := hsol i; show owedL _ i ≤ amt (s.bank.get streamerAddr) i; omega⟩ hfr

theorem terminateStream_sstep (s : State) (hs : SStruct s) (id : Nat) : SStep s (terminateStream s id).2 := by
  unfold terminateStream
  repeat' (first | split | dsimp only)
  all_goals first | exact SStep.refl hs | (exact moveToFinished_sstep _ hs _ _ _ (by assumption))

theorem replaceDistr_sstep (s : State) (hs : SStruct s) (id : Nat) (rs : List Rec) : SStep s (replaceDistr s id rs).2 := by
  unfold replaceDistr
  cases hg : getStream s id with
  | none => exact SStep.refl hs
  | some st =>
    simp only
    split
    · exact SStep.refl hs
    · split
      · exact SStep.refl hs
      · split
        · exact SStep.refl hs
        · rw [getStream_eq] at hg
          obtain ⟨_, _, _, hid, _⟩ := getS_some hs.sid hg
          obtain ⟨w1, w2, w3⟩ := write_same s hs st { st with recs := rs, totalWeight := totalWeightOf rs } (by rw [hid]; exact hg) rfl rfl
          exact ⟨w1, w2, fun hsol _ i => by rw [w3 i]; exact hsol i⟩

theorem updateDistr_sstep (s : State) (hs : SStruct s) (id : Nat) (rs : List Rec) : SStep s (updateDistr s id rs).2 := by
  unfold updateDistr
  cases hg : getStream s id with
  | none => exact SStep.refl hs
  | some st =>
    simp only
    split
    · exact SStep.refl hs
    · split
      · exact SStep.refl hs
      · split
        · exact SStep.refl hs
        · split
          · exact SStep.refl hs
          · rw [getStream_eq] at hg
            obtain ⟨_, _, _, hid, _⟩ := getS_some hs.sid hg
            obtain ⟨w1, w2, w3⟩ := write_same s hs st { st with recs := mergeRecs st.recs rs, totalWeight := totalWeightOf (mergeRecs st.recs rs) }
              (by rw [hid]; exact hg) rfl rfl
            exact ⟨w1, w2, fun hsol _ i => by rw [w3 i]; exact hsol i⟩

/-- module accounts do not sign messages (streamer side); the sponsorship distribution handed in lists its
    gauges in strictly ascending id order (x/sponsorship keeps it so: `Distribution.Merge`) -/
def Op.wfS : Op → Prop
  | .createGauge o _ _ _ _ _ _ _ => o ≠ streamerAddr
  | .addToGauge o _ _ => o ≠ streamerAddr
  | .distribution rs => (rs.map (·.gauge)).Pairwise (· < ·)
  | _ => True

instance (op : Op) : Decidable op.wfS := by
  cases op <;> (unfold Op.wfS; infer_instance)

theorem send_keeps_streamer {b b' : Bank} {o : Nat} {c : Coins} (h : b.send o incAddr c = some b') (h1 : o ≠ incAddr) (h2 : o ≠ streamerAddr)
    (i : Nat) : amt (b'.get streamerAddr) i = amt (b.get streamerAddr) i := by
  obtain ⟨_, sb⟩ := Bank.send_some h h1
  have := sb streamerAddr i
  rw [if_neg (fun x => h2 x.symm), if_neg (by decide)] at this
  exact this

/-- a transfer of no coins moves nothing -/
theorem send_nil_keeps {b b' : Bank} {o : Nat} (h : b.send o incAddr [] = some b') (h1 : o ≠ incAddr)
    (a i : Nat) : amt (b'.get a) i = amt (b.get a) i := by
  obtain ⟨_, sb⟩ := Bank.send_some h h1
  have := sb a i
  simp only [amt_nil, Nat.sub_zero, Nat.add_zero] at this
  split at this
  · next h => rw [this, h]
  · split at this
    · next h => rw [this, h]
    · exact this

/-- `CreateAssetGauge` with empty coins (any creator but the incentives module account) is a frame step -/
theorem createGauge_nil_sstep (s : State) (hs : SStruct s) (o : Nat) (hw : o ≠ incAddr) (p : Bool) (d du : Nat) (hsup : Bool) (st n : Nat) :
    SStep s (createGauge s o p d du hsup [] st n).2 := by
  unfold createGauge
  split
  · exact SStep.refl hs
  · split
    · exact SStep.refl hs
    · split
      · exact SStep.refl hs
      · cases hsend : s.bank.send o incAddr [] with
        | none => exact SStep.refl hs
        | some b =>
          simp only
          refine SStep.of_frame hs rfl rfl rfl ?_
          intro i
          have := send_nil_keeps hsend hw streamerAddr i
          simp only; omega

theorem poolGaugesLoop_sstep (denom : Nat) (hsup : Bool) : ∀ (ds : List Nat) (s : State), SStruct s → SStep s (poolGaugesLoop denom hsup ds s).2 := by
  intro ds
  induction ds with
  | nil => intro s hs; exact SStep.refl hs
  | cons d rest ih =>
    intro s hs
    unfold poolGaugesLoop
    have h1 := createGauge_nil_sstep s hs streamerAddr (by decide) true denom d hsup s.now 1
    generalize createGauge s streamerAddr true denom d hsup [] s.now 1 = res at h1
    obtain ⟨o, s'⟩ := res
    cases o <;> first | exact SStep.trans h1 (ih s' h1.struct) | exact h1

theorem step_sstep (s : State) (op : Op) (hg : GInv s) (hs : SStruct s) (hw : op.wf) (hw2 : op.wfS) : SStep s (step s op).2 := by
  unfold step
  split
  · exact SStep.refl hs
  · cases op with
    | begin dt => exact beginBlock_sstep s dt hg hs
    | end_ =>
      simp only
      cases h : streamerEndBlock s with
      | ok s' =>
        obtain ⟨a, b, c⟩ := strDistribute_streams _ _ _ _ _ _ hg hs (activeStreams_good s hs) h
        exact ⟨a, b, c⟩
      | error e => exact SStep.of_frame (s' := { s with halted := true }) hs rfl rfl rfl (fun _ => Nat.le_refl _)
    | setMaxIter n => exact SStep.of_frame (s' := { s with maxIter := n }) hs rfl rfl rfl (fun _ => Nat.le_refl _)
    | fund a c =>
      refine SStep.of_frame (s' := { s with bank := s.bank.credit a c }) hs rfl rfl rfl ?_
      intro i
      show _ ≤ amt ((s.bank.credit a c).get streamerAddr) i
      rw [Bank.get_credit]
      by_cases hh : streamerAddr = a
      · rw [if_pos hh, ← hh]; omega
      · rw [if_neg hh]; omega
    | locks ls => exact SStep.of_frame (s' := { s with locks := ls }) hs rfl rfl rfl (fun _ => Nat.le_refl _)
    | rollapp r o l => exact SStep.of_frame (s' := { s with rollapps := setRollapp s.rollapps r ⟨true, o, l⟩ }) hs rfl rfl rfl (fun _ => Nat.le_refl _)
    | rollappGauge r =>
      simp only
      unfold createRollappGauge
      cases hr : s.rollapps[r]? with
      | none => exact SStep.refl hs
      | some ra =>
        simp only
        split
        · exact SStep.refl hs
        · exact SStep.of_frame hs rfl rfl rfl (fun _ => Nat.le_refl _)
    | createGauge o p d du hsup c st n =>
      simp only
      unfold createGauge
      split
      · exact SStep.refl hs
      · split
        · exact SStep.refl hs
        · split
          · exact SStep.refl hs
          · cases hsend : s.bank.send o incAddr c with
            | none => exact SStep.refl hs
            | some b =>
              simp only
              refine SStep.of_frame hs rfl rfl rfl ?_
              intro i
              have := send_keeps_streamer hsend hw hw2 i
              simp only; omega
    | addToGauge o gid c =>
      simp only
      unfold addToGauge
      split
      · exact SStep.refl hs
      · cases hgg : getGauge s gid with
        | none => exact SStep.refl hs
        | some g =>
          simp only
          split
          · exact SStep.refl hs
          · cases hsend : s.bank.send o incAddr c with
            | none => exact SStep.refl hs
            | some b =>
              simp only
              refine SStep.of_frame (s' := setGauge { s with bank := b } { g with coins := Coins.add g.coins c }) hs rfl rfl rfl ?_
              intro i
              have := send_keeps_streamer hsend hw hw2 i
              show _ ≤ amt (b.get streamerAddr) i
              omega
    | createStream sp c rs st e n => exact createStream_sstep s hs sp c rs st e n
    | terminateStream id => exact terminateStream_sstep s hs id
    | replaceDistr id rs => exact replaceDistr_sstep s hs id rs
    | updateDistr id rs => exact updateDistr_sstep s hs id rs
    | distribution rs => exact SStep.of_frame (s' := { s with distr := rs }) hs rfl rfl rfl (fun _ => Nat.le_refl _)
    | poolGauges d hsup => exact poolGaugesLoop_sstep d hsup lockableDurations s hs

/-- along every history: the structural invariant holds and streams only grow -/
theorem run_struct_mono : ∀ (ops : List Op) (s : State), GInv s → SStruct s → (∀ op ∈ ops, op.wf ∧ op.wfS) →
    SStruct (run s ops) ∧ StreamsMono s.streams (run s ops).streams := by
  intro ops
  induction ops with
  | nil => intro s _ hs _; exact ⟨hs, StreamsMono.refl _⟩
  | cons op rest ih =>
    intro s hg hs hw
    unfold run
    obtain ⟨w1, w2⟩ := hw op List.mem_cons_self
    have st := step_sstep s op hg hs w1 w2
    obtain ⟨a, b⟩ := ih _ (step_ginv s op hg w1) st.struct (fun o ho => hw o (List.mem_cons_of_mem _ ho))
    exact ⟨a, StreamsMono.trans st.mono b⟩

/-- **if at the end no stream has handed out more than its coins, the streamer account covers all open streams** -/
theorem run_solvent : ∀ (ops : List Op) (s : State), GInv s → SStruct s → Solv s → (∀ op ∈ ops, op.wf ∧ op.wfS) →
    NoOver (run s ops).streams → Solv (run s ops) := by
  intro ops
  induction ops with
  | nil => intro s _ _ h _ _; exact h
  | cons op rest ih =>
    intro s hg hs hsol hw hno
    unfold run at hno ⊢
    obtain ⟨w1, w2⟩ := hw op List.mem_cons_self
    have st := step_sstep s op hg hs w1 w2
    have hg1 := step_ginv s op hg w1
    have hw' : ∀ o ∈ rest, o.wf ∧ o.wfS := fun o ho => hw o (List.mem_cons_of_mem _ ho)
    obtain ⟨_, m⟩ := run_struct_mono rest _ hg1 st.struct hw'
    exact ih _ hg1 st.struct (st.solv hsol (NoOver_of_mono m hno)) hw' hno

theorem init_sstruct (now mi : Nat) : SStruct (init now mi) :=
  ⟨by intro k hk; simp [init] at hk, by intro id hid; simp [init, openIds, Refs.ids] at hid, by simp [init, openIds, Refs.ids]⟩

theorem init_solv (now mi : Nat) : Solv (init now mi) := by
  intro i; simp [init, owedL, openIds, Refs.ids]

end DymVerif.Incent
