/-
  Lemmas/CoreSearch — `FindStateInfoByHeight` (binary search over state indices) returns exactly the
  state containing the height, under the chain invariant.
-/
import DymVerif.Lemmas.CoreChainInv
namespace DymVerif.Core

theorem Chain.mono {l : List SInfo} (h : Chain l) : ∀ (d i : Nat) (a b : SInfo),
    l[i]? = some a → l[i + d + 1]? = some b → a.start + a.num ≤ b.start := by
  intro d
  induction d with
  | zero => intro i a b ha hb; rw [h.link i a b ha hb]; exact Nat.le_refl _
  | succ d ih =>
    intro i a b ha hb
    have hlt : i + d + 1 < l.length := by
      rcases Nat.lt_or_ge (i + (d + 1) + 1) l.length with h1 | h1
      · omega
      · rw [List.getElem?_eq_none h1] at hb; cases hb
    have hc : l[i + d + 1]? = some l[i + d + 1] := by simp [hlt]
    have h1 := ih i a _ ha hc
    have h2 := h.link (i + d + 1) _ b hc (by rw [show i + d + 1 + 1 = i + (d + 1) + 1 by omega]; exact hb)
    have hw := h.wf _ (List.mem_of_getElem? hc)
    have := hw.num_pos
    omega

theorem Chain.mono' {l : List SInfo} (h : Chain l) (i j : Nat) (a b : SInfo) (hij : i < j)
    (ha : l[i]? = some a) (hb : l[j]? = some b) : a.start + a.num ≤ b.start := by
  have : j = i + (j - i - 1) + 1 := by omega
  rw [this] at hb
  exact h.mono _ i a b ha hb

/-- completeness of the search window: if the container has 1-based index k in [lo, hi], it is found -/
theorem findByHeightAux_complete (l : List SInfo) (hc : Chain l) (h : Nat) :
    ∀ (fuel lo hi k : Nat) (st : SInfo), l[k - 1]? = some st → st.contains h = true → 1 ≤ lo → lo ≤ k → k ≤ hi →
      hi ≤ l.length → hi + 1 - lo ≤ fuel → findByHeightAux l h fuel lo hi = some k := by
  intro fuel
  induction fuel with
  | zero => intro lo hi k st _ _ _ _ _ _ hf; omega
  | succ f ih =>
    intro lo hi k st hk hcont hlo hlk hkh hhi hf
    have hwst := hc.wf st (List.mem_of_getElem? hk)
    rw [contains_iff st h hwst] at hcont
    unfold findByHeightAux
    rw [if_pos (by omega)]
    dsimp only
    have hmid : lo + (hi - lo) / 2 - 1 < l.length := by omega
    have hm : l[lo + (hi - lo) / 2 - 1]? = some l[lo + (hi - lo) / 2 - 1] := by simp [hmid]
    rw [hm]
    dsimp only
    have hwm := hc.wf _ (List.mem_of_getElem? hm)
    have hcm := contains_iff l[lo + (hi - lo) / 2 - 1] h hwm
    by_cases hcontm : (l[lo + (hi - lo) / 2 - 1]).contains h = true
    · rw [if_pos hcontm]
      -- two containers of the same height coincide
      have := hcm.1 hcontm
      rcases Nat.lt_trichotomy (lo + (hi - lo) / 2) k with hlt | heq | hgt
      · have := hc.mono' (lo + (hi - lo) / 2 - 1) (k - 1) _ st (by omega) hm hk
        have := hwm.num_pos; omega
      · rw [heq]
      · have := hc.mono' (k - 1) (lo + (hi - lo) / 2 - 1) st _ (by omega) hk hm
        have := hwst.num_pos; omega
    · rw [if_neg hcontm]
      have hnc : ¬ (l[lo + (hi - lo) / 2 - 1].start ≤ h ∧ h ≤ l[lo + (hi - lo) / 2 - 1].start + l[lo + (hi - lo) / 2 - 1].num - 1) :=
        fun hx => hcontm (hcm.2 hx)
      by_cases hlt : h < l[lo + (hi - lo) / 2 - 1].start
      · rw [if_pos hlt]
        -- the container lies strictly left of mid
        have hk_lt : k < lo + (hi - lo) / 2 := by
          rcases Nat.lt_trichotomy k (lo + (hi - lo) / 2) with h1 | h1 | h1
          · exact h1
          · exfalso; subst h1; rw [hm] at hk; injection hk with hk; subst hk; omega
          · exfalso
            have := hc.mono' (lo + (hi - lo) / 2 - 1) (k - 1) _ st (by omega) hm hk
            have := hwm.num_pos; omega
        exact ih lo _ k st hk (by rw [contains_iff st h hwst]; exact hcont) hlo hlk (by omega) (by omega) (by omega)
      · rw [if_neg hlt]
        have hk_gt : lo + (hi - lo) / 2 < k := by
          rcases Nat.lt_trichotomy k (lo + (hi - lo) / 2) with h1 | h1 | h1
          · exfalso
            have := hc.mono' (k - 1) (lo + (hi - lo) / 2 - 1) st _ (by omega) hk hm
            have := hwst.num_pos; omega
          · exfalso; subst h1; rw [hm] at hk; injection hk with hk; subst hk; omega
          · exact h1
        exact ih _ hi k st hk (by rw [contains_iff st h hwst]; exact hcont) (by omega) (by omega) hkh hhi (by omega)

/-- every height from the first state's start up to the end of state j has a container at index ≤ j -/
theorem Chain.container {l : List SInfo} (hc : Chain l) (first : SInfo) (hf : l[0]? = some first) (h : Nat)
    (h1 : first.start ≤ h) : ∀ (j : Nat) (b : SInfo), l[j]? = some b → h ≤ b.start + b.num - 1 →
      ∃ (k : Nat) (st : SInfo), k ≤ j ∧ l[k]? = some st ∧ st.start ≤ h ∧ h ≤ st.start + st.num - 1 := by
  intro j
  induction j with
  | zero =>
    intro b hb h2
    rw [hf] at hb; injection hb with hb; subst hb
    exact ⟨0, first, Nat.le_refl _, hf, h1, h2⟩
  | succ j ih =>
    intro b hb h2
    by_cases hx : b.start ≤ h
    · exact ⟨j + 1, b, Nat.le_refl _, hb, hx, h2⟩
    · have hlt : j < l.length := by
        rcases Nat.lt_or_ge (j + 1) l.length with h3 | h3
        · omega
        · rw [List.getElem?_eq_none h3] at hb; cases hb
      have ha : l[j]? = some l[j] := by simp [hlt]
      have hlink := hc.link j _ b ha hb
      have hwa := hc.wf _ (List.mem_of_getElem? ha)
      obtain ⟨k, st, hk, hst, hs1, hs2⟩ := ih l[j] ha (by have := hwa.num_pos; omega)
      exact ⟨k, st, by omega, hst, hs1, hs2⟩

end DymVerif.Core
