/-
  Lemmas/CoreForkInv3 — the invariants `PropRa` / `Liab` through every message handler and block
  processing, hence in every reachable state (`run_inv`).
-/
import DymVerif.Lemmas.CoreForkInv2
namespace DymVerif.Core.Fork

-- ---------------------------------------------------------------- money movers leave records alone

structure MoneyFrame (s s1 : St) (q q1 : Seq) : Prop where
  ras : s1.ras = s.ras
  seqs : s1.seqs = s.seqs
  seqH : s1.seqH = s.seqH
  addr : q1.addr = q.addr
  rollapp : q1.rollapp = q.rollapp

theorem MoneyFrame.trans {s s1 s2 : St} {q q1 q2 : Seq} (a : MoneyFrame s s1 q q1) (b : MoneyFrame s1 s2 q1 q2) :
    MoneyFrame s s2 q q2 :=
  ⟨b.ras.trans a.ras, b.seqs.trans a.seqs, b.seqH.trans a.seqH, b.addr.trans a.addr, b.rollapp.trans a.rollapp⟩

theorem sendToModule_mf {s s1 : St} {q q1 : Seq} {amt : Nat} (e : sendToModule s q amt = .ok (s1, q1)) :
    MoneyFrame s s1 q q1 := by
  unfold sendToModule at e; split at e
  · cases e
  · injection e with e; injection e with e1 e2; subst e1; subst e2; exact ⟨rfl, rfl, rfl, rfl, rfl⟩

theorem sendFromModule_mf {s s1 : St} {q q1 : Seq} {amt : Nat} {to : Addr}
    (e : sendFromModule s q amt to = .ok (s1, q1)) : MoneyFrame s s1 q q1 := by
  unfold sendFromModule at e; split at e
  · cases e
  · split at e
    · cases e
    · split at e
      · cases e
      · injection e with e; injection e with e1 e2; subst e1; subst e2; exact ⟨rfl, rfl, rfl, rfl, rfl⟩

theorem burn_mf {s s1 : St} {q q1 : Seq} {amt : Nat} (e : burn s q amt = .ok (s1, q1)) : MoneyFrame s s1 q q1 := by
  unfold burn at e; split at e
  · cases e
  · split at e
    · cases e
    · injection e with e; injection e with e1 e2; subst e1; subst e2; exact ⟨rfl, rfl, rfl, rfl, rfl⟩

theorem slash_mf {s s1 : St} {q q1 : Seq} {amt : Nat} {mul : Dec} {rw : Option Addr}
    (e : slash s q amt mul rw = .ok (s1, q1)) : MoneyFrame s s1 q q1 := by
  unfold slash at e
  dsimp only at e
  split at e
  · cases e
  · rename_i s0 q0 h0
    have h0' : MoneyFrame s s0 q q0 := by
      split at h0
      · injection h0 with h0; injection h0 with h1 h2; subst h1; subst h2; exact ⟨rfl, rfl, rfl, rfl, rfl⟩
      · split at h0
        · exact sendFromModule_mf h0
        · cases h0
    exact h0'.trans (burn_mf e)

theorem tryUnbond_mf {s s1 : St} {q q1 : Seq} {amt : Nat} (e : tryUnbond s q amt = .ok (s1, q1)) :
    MoneyFrame s s1 q q1 := by
  unfold tryUnbond at e
  split at e
  · cases e
  · split at e
    · cases e
    · split at e
      · cases e
      · dsimp only at e
        split at e
        · cases e
        · split at e
          · cases e
          · rename_i s0 q0 h0
            have mf := sendFromModule_mf h0
            injection e with e; injection e with e1 e2; subst e1; subst e2
            refine ⟨mf.ras, mf.seqs, mf.seqH, ?_, ?_⟩
            · split
              · exact mf.addr
              · exact mf.addr
            · split
              · exact mf.rollapp
              · exact mf.rollapp

theorem Good.money {s s1 : St} {q q1 q0 : Seq} (mf : MoneyFrame s s1 q q1) (hg : getSeq s q.addr = some q0)
    (hr : q.rollapp = q0.rollapp) : Good s (Core.setSeq s1 q1) :=
  (Good.of_eq mf.ras mf.seqs mf.seqH).trans
    (Good.setSeq (q0 := q0) (by rw [getSeq_congr mf.seqs, mf.addr]; exact hg) (by rw [mf.rollapp, hr]))

theorem J.of_eq {s s' : St} (h : J s) (e1 : s'.ras = s.ras) (e2 : s'.seqs = s.seqs) (e3 : s'.seqH = s.seqH) : J s' :=
  (Good.of_eq e1 e2 e3).J h

theorem nodup_setSeq {s : St} (hn : AddrNodup s.seqs) (q : Seq) : AddrNodup (setSeq s q).seqs :=
  hn.of_addrs_eq (addrs_replace s.seqs q)

-- ---------------------------------------------------------------- Good handlers

theorem find_insertSorted_id (l : List Rollapp) (x : Rollapp) (id : Nat) (hx : x.id ≠ id) (hfresh : ∀ y ∈ l, y.id ≠ x.id) :
    (insertSorted (fun u v => decide (u.id < v.id)) x l).find? (·.id == id) = l.find? (·.id == id) := by
  induction l with
  | nil => simp [insertSorted, hx]
  | cons y ys ih =>
    have hy := hfresh y (by simp)
    have hxa : (x.id == id) = false := by simp [hx]
    unfold insertSorted
    by_cases h1 : x.id < y.id
    · simp only [h1, decide_true, if_true]
      rw [List.find?_cons, hxa]
    · have h2 : y.id < x.id := Nat.lt_of_le_of_ne (Nat.le_of_not_lt h1) hy
      simp only [h1, h2, decide_false, decide_true, Bool.false_eq_true, if_false, if_true]
      rw [List.find?_cons, List.find?_cons, ih (fun z hz => hfresh z (by simp [hz]))]

theorem find_insertSorted_same (l : List Rollapp) (x : Rollapp) (hfresh : ∀ y ∈ l, y.id ≠ x.id) :
    (insertSorted (fun u v => decide (u.id < v.id)) x l).find? (·.id == x.id) = some x := by
  induction l with
  | nil => simp [insertSorted]
  | cons y ys ih =>
    have hy := hfresh y (by simp)
    have hya : (y.id == x.id) = false := by simp [hy]
    unfold insertSorted
    by_cases h1 : x.id < y.id
    · simp only [h1, decide_true, if_true]
      rw [List.find?_cons]; simp
    · have h2 : y.id < x.id := Nat.lt_of_le_of_ne (Nat.le_of_not_lt h1) hy
      simp only [h1, h2, decide_false, decide_true, Bool.false_eq_true, if_false, if_true]
      rw [List.find?_cons, hya, ih (fun z hz => hfresh z (by simp [hz]))]

theorem getRa_none {s : St} {id : Nat} (h : getRa s id = none) : ∀ y ∈ s.ras, y.id ≠ id := by
  unfold getRa at h
  intro y hy e
  have := List.find?_eq_none.1 h y hy
  simp [e] at this

theorem createRollapp_good {s : St} {id : Nat} (owner : Addr) (mb : Nat) (hn : getRa s id = none) :
    Good s { s with ras := insertSorted (fun x y => decide (x.id < y.id)) (newRollapp id owner mb) s.ras } := by
  have hfresh : ∀ y ∈ s.ras, y.id ≠ (newRollapp id owner mb).id := getRa_none hn
  have hoth : ∀ x, x ≠ id → getRa { s with ras := insertSorted (fun x y => decide (x.id < y.id)) (newRollapp id owner mb) s.ras } x = getRa s x := by
    intro x hx
    unfold getRa
    exact find_insertSorted_id _ _ _ (fun hc => hx hc.symm) hfresh
  refine ⟨SeqMono.of_seqs rfl, fun _ h => h, ?_, ?_⟩
  · intro x r hg
    have hx : x ≠ id := by intro hc; rw [hc, hn] at hg; cases hg
    exact ⟨r, by rw [hoth x hx]; exact hg, rfl, fun h => h.congr rfl⟩
  · intro x r' hg hnx
    by_cases hx : x = id
    · subst hx
      have : getRa { s with ras := insertSorted (fun x y => decide (x.id < y.id)) (newRollapp x owner mb) s.ras } x = some (newRollapp x owner mb) := by
        unfold getRa
        exact find_insertSorted_same _ _ hfresh
      rw [this] at hg; injection hg with hg; subst hg
      exact ⟨⟨fun a ha => (by cases ha), fun a ha => (by cases ha)⟩, rfl⟩
    · rw [hoth x hx, hnx] at hg; cases hg

theorem createSeq_good {s s' : St} {a : Addr} {ra bond : Nat} {d : Bool} (hn : AddrNodup s.seqs)
    (e : createSeq s a ra bond d = .ok s') : Good s s' := by
  unfold createSeq at e
  split at e
  · cases e
  · rename_i r hg
    split at e
    · cases e
    · rename_i hex
      have hnone : getSeq s a = none := by
        cases hx : getSeq s a with
        | none => rfl
        | some _ => simp [hx] at hex
      split at e
      · cases e
      · split at e
        · cases e
        · split at e
          · cases e
          · dsimp only at e
            have g0 : Good s (if r.launched = true then s else setRa s { r with launched := true }) := by
              split
              · exact Good.refl s
              · exact Good.setRa rfl rfl rfl (r0 := r) (by show getRa s r.id = some r; rw [getRa_id hg]; exact hg) rfl
                  (fun x => x.of_fields rfl rfl rfl)
            have hs0 : (if r.launched = true then s else setRa s { r with launched := true }).seqs = s.seqs := by
              split <;> rfl
            split at e
            · cases e
            · rename_i s1 q1 hs
              have mf := sendToModule_mf hs
              have hq1a : q1.addr = a := mf.addr
              have hnone1 : getSeq s1 q1.addr = none := by
                rw [getSeq_congr (mf.seqs.trans hs0), hq1a]; exact hnone
              have g2 : Good s { s1 with seqs := insertSorted (fun x y => decide (x.addr < y.addr)) q1 s1.seqs } :=
                (g0.trans (Good.of_eq mf.ras mf.seqs mf.seqH)).trans
                  (Good.of_ras rfl (SeqMono.insert hnone1) (fun _ h => h))
              have hn2 : AddrNodup (insertSorted (fun x y => decide (x.addr < y.addr)) q1 s1.seqs) :=
                nodup_insert s1.seqs q1 (by rw [mf.seqs, hs0]; exact hn) (getSeq_none hnone1)
              split at e
              · cases e
              · split at e
                · exact g2.trans (recoverFromSentinel_good hn2 e)
                · injection e with e; subst e; exact g2

theorem increaseBond_good {s s' : St} {a : Addr} {amt : Nat} {d : Bool} (e : increaseBond s a amt d = .ok s') : Good s s' := by
  unfold increaseBond at e
  split at e
  · cases e
  · rename_i q hg
    split at e
    · cases e
    · split at e
      · cases e
      · split at e
        · cases e
        · rename_i s1 q1 hs
          injection e with e; subst e
          exact Good.money (sendToModule_mf hs) (q0 := q) (by rw [getSeq_addr hg]; exact hg) rfl

theorem decreaseBond_good {s s' : St} {a : Addr} {amt : Nat} (e : decreaseBond s a amt = .ok s') : Good s s' := by
  unfold decreaseBond at e
  split at e
  · cases e
  · rename_i q hg
    split at e
    · cases e
    · split at e
      · cases e
      · rename_i s1 q1 hs
        injection e with e; subst e
        exact Good.money (tryUnbond_mf hs) (q0 := q) (by rw [getSeq_addr hg]; exact hg) rfl

theorem unbond_good {s s' : St} {a : Addr} (e : unbond s a = .ok s') : Good s s' := by
  unfold unbond at e
  split at e
  · cases e
  · rename_i q hg
    have hqa := getSeq_addr hg
    split at e
    · cases e
    · split at e
      · cases e
      · split at e
        · split at e
          · cases e
          · split at e
            · cases e
            · injection e with e; subst e
              exact (Good.of_eq (s := s) (s' := { s with nq := insertSorted ltPair (s.t + s.sqp.noticePeriod, a) s.nq }) rfl rfl rfl).trans
                (Good.setSeq (q := { q with optedIn := false, notice := some (s.t + s.sqp.noticePeriod) }) (q0 := q)
                  (by show getSeq s q.addr = some q; rw [hqa]; exact hg) rfl)
        · split at e
          · cases e
          · rename_i s1 q1 hs
            injection e with e; subst e
            exact Good.money (tryUnbond_mf hs) (q0 := q) (by show getSeq s q.addr = some q; rw [hqa]; exact hg) rfl

theorem optIn_good {s s' : St} {a : Addr} {v : Bool} (hn : AddrNodup s.seqs) (e : optIn s a v = .ok s') : Good s s' := by
  unfold optIn at e
  split at e
  · cases e
  · rename_i q hg
    have hqa := getSeq_addr hg
    split at e
    · cases e
    · dsimp only at e
      have g1 : Good s (setSeq s { q with optedIn := v }) :=
        Good.setSeq (q := { q with optedIn := v }) (q0 := q) (by show getSeq s q.addr = some q; rw [hqa]; exact hg) rfl
      split at e
      · cases e
      · split at e
        · exact g1.trans (recoverFromSentinel_good (nodup_setSeq hn _) e)
        · injection e with e; subst e; exact g1

theorem punish_good {s s' : St} {a : Addr} {rw : Option Addr} (e : punish s a rw = .ok s') : Good s s' := by
  unfold punish at e
  split at e
  · cases e
  · rename_i q hg
    dsimp only at e
    split at e
    · cases e
    · rename_i s1 q1 hs
      injection e with e; subst e
      exact Good.money (slash_mf hs) (q0 := q) (by rw [getSeq_addr hg]; exact hg) rfl

theorem beginBlock_good {s : St} {dt : Nat} (hn : AddrNodup s.seqs) : Good s (beginBlock s dt) := by
  unfold beginBlock
  dsimp only
  have key := foldl_inv (fun b : St => Good s b ∧ b.seqs = s.seqs)
    (fun acc (e : Nat × Addr) =>
      match getSeq { acc with nq := acc.nq.filter (fun x => !(x.1 == e.1 && x.2 == e.2)) } e.2 with
      | none => { acc with nq := acc.nq.filter (fun x => !(x.1 == e.1 && x.2 == e.2)) }
      | some q =>
        match getRa { acc with nq := acc.nq.filter (fun x => !(x.1 == e.1 && x.2 == e.2)) } q.rollapp with
        | none => { acc with nq := acc.nq.filter (fun x => !(x.1 == e.1 && x.2 == e.2)) }
        | some r => setRa { acc with nq := acc.nq.filter (fun x => !(x.1 == e.1 && x.2 == e.2)) }
            { r with successor := choose { acc with nq := acc.nq.filter (fun x => !(x.1 == e.1 && x.2 == e.2)) } q.rollapp })
    (List.filter (fun e => decide (e.1 ≤ s.t + dt)) s.nq) { s with h := s.h + 1, t := s.t + dt }
    ⟨Good.of_eq rfl rfl rfl, rfl⟩
    (by
      intro b e ⟨hb, hbs⟩
      have g1 : Good b { b with nq := b.nq.filter (fun x => !(x.1 == e.1 && x.2 == e.2)) } := Good.of_eq rfl rfl rfl
      split
      · exact ⟨hb.trans g1, hbs⟩
      · rename_i q _
        split
        · exact ⟨hb.trans g1, hbs⟩
        · rename_i r hg
          refine ⟨hb.trans (g1.trans (Good.setRa rfl rfl rfl (r0 := r) ?_ rfl ?_)), hbs⟩
          · show getRa { b with nq := b.nq.filter (fun x => !(x.1 == e.1 && x.2 == e.2)) } r.id = some r
            rw [getRa_id hg]; exact hg
          · intro x
            refine ⟨x.1, ?_⟩
            intro a ha
            have hn' : AddrNodup ({ b with nq := b.nq.filter (fun x => !(x.1 == e.1 && x.2 == e.2)) } : St).seqs := by
              show AddrNodup b.seqs; rw [hbs]; exact hn
            have := choose_seqOf hn' ha
            show SeqOf _ a r.id
            rw [getRa_id hg]; exact this)
  exact key.1

theorem slashLiveness_good {s s1 : St} {r : Rollapp} (e : slashLiveness s r = .ok s1) : Good s s1 := by
  unfold slashLiveness at e
  split at e
  · injection e with e; subst e; exact Good.refl s
  · split at e
    · injection e with e; subst e; exact Good.refl s
    · rename_i a _ _ q hg
      split at e
      · cases e
      · rename_i s2 q2 hsl
        injection e with e; subst e
        have mf := slash_mf hsl
        exact Good.money (q1 := { q2 with dishonor := q2.dishonor + s2.sqp.dishonorL })
          ⟨mf.ras, mf.seqs, mf.seqH, mf.addr, mf.rollapp⟩ (q0 := q) (by rw [getSeq_addr hg]; exact hg) rfl

theorem handleLivenessEvent_good (s : St) (ra : Nat) : Good s (handleLivenessEvent s ra) := by
  unfold handleLivenessEvent
  split
  · exact Good.refl s
  · split
    · exact Good.refl s
    · rename_i s1 hs1
      have g1 := slashLiveness_good hs1
      split
      · exact Good.refl s
      · rename_i r1 hg1
        unfold scheduleEvent
        dsimp only
        exact g1.trans (Good.setRa rfl rfl rfl (r0 := r1) (by show getRa s1 r1.id = some r1; rw [getRa_id hg1]; exact hg1) rfl
          (fun x => x.of_fields rfl rfl rfl))

theorem checkLiveness_good (s : St) : Good s (checkLiveness s) := by
  unfold checkLiveness
  apply foldl_inv (Good s)
  · exact Good.refl s
  · intro b e hb; exact hb.trans (handleLivenessEvent_good b e.2)

-- ---------------------------------------------------------------- rotation hand-over inside UpdateState

theorem onProposerLastBlock_facts {s s' : St} {q : Seq} (hc : ChainAll s) (h : J s)
    (e : onProposerLastBlock s q = .ok s') : J s' ∧ Weak s s' := by
  unfold onProposerLastBlock at e
  split at e
  · cases e
  · split at e
    · cases e
    · rename_i r hg
      dsimp only at e
      have g : Good s (setRa s { r with successor := none, proposer := r.successor }) :=
        Good.setRa rfl rfl rfl (r0 := r) (by show getRa s r.id = some r; rw [getRa_id hg]; exact hg) rfl
          (fun x => ⟨fun a ha => x.2 a ha, fun a ha => (by cases ha)⟩)
      have hc1 : ChainAll (setRa s { r with successor := none, proposer := r.successor }) :=
        RaAll.setRa hc ((hc.get hg).of_states rfl)
      split at e
      · exact ⟨hardForkToLatest_J hc1 (g.J h) e, g.weak.trans (hardForkToLatest_weak hc1 e)⟩
      · have g2 : Good s s' := by
          injection e with e; rw [← e]
          exact g.trans (afterSetRealProposer_good _ _ _)
        exact ⟨g2.J h, g2.weak⟩

theorem seqAfterUpdate_facts {s s' : St} {m : UpdMsg} {b : Bool} (hc : ChainAll s) (h : J s)
    (e : seqAfterUpdate s m b = .ok s') : J s' ∧ Weak s s' := by
  unfold seqAfterUpdate at e
  split at e
  · cases e
  · rename_i prop hg
    dsimp only at e
    have g : Good s (setSeq s { prop with dishonor := prop.dishonor - min s.sqp.dishonorSU prop.dishonor }) :=
      Good.setSeq (q := { prop with dishonor := prop.dishonor - min s.sqp.dishonorSU prop.dishonor }) (q0 := prop)
        (by show getSeq s prop.addr = some prop; rw [getSeq_addr hg]; exact hg) rfl
    split at e
    · have := onProposerLastBlock_facts (show ChainAll (setSeq s _) from hc.ras_eq rfl) (g.J h) e
      exact ⟨this.1, g.weak.trans this.2⟩
    · injection e with e; subst e; exact ⟨g.J h, g.weak⟩

-- ---------------------------------------------------------------- UpdateState

theorem updateState_j {s s' : St} {m : UpdMsg} (hi : Inv s) (e : updateState s m = .ok s') : J s' := by
  unfold updateState at e
  split at e
  · cases e
  · rename_i hvb
    split at e
    · cases e
    · rename_i r hg
      split at e
      · cases e
      · rename_i hprop
        split at e
        · cases e
        · split at e
          · cases e
          · split at e
            · cases e
            · rename_i hpre
              split at e
              · cases e
              · split at e
                · cases e
                · rename_i s3 h3
                  dsimp only at e
                  split at e
                  · cases e
                  · rename_i r4 hg4
                    injection e with e; subst e
                    have hid := getRa_id hg
                    have hpr : r.proposer = some m.sender := by simpa using hprop
                    -- the state with the new update appended
                    have hwf := updValidateBasic_wf hvb s (updSucc r m)
                    have hca : ChainAll (setRa s { r with states := r.states ++ [newSInfo s m (updSucc r m)] }) :=
                      RaAll.setRa hi.chain ((hi.chain.get hg).append hwf (by
                        intro a ha
                        show m.start = a.start + a.num
                        exact updPre_start hpre a ha))
                    have hsend : SeqOf s m.sender m.ra := by
                      have h0 := (hi.j.prop m.ra r hg).1 m.sender hpr
                      rw [hid] at h0; exact h0
                    have hja := appendState_J (new := newSInfo s m (updSucc r m)) hg hi.j hsend
                    obtain ⟨hj3, hw3⟩ := seqAfterUpdate_facts hca hja h3
                    -- the sender is a sequencer of the rollapp, still so in s3
                    have hso : SeqOf s3 m.sender m.ra := by
                      have h0 := (hi.j.prop m.ra r hg).1 m.sender hpr
                      rw [hid] at h0
                      exact hw3.seqMono _ _ (h0.congr rfl)
                    -- the appended state is still there (up to NextProposer) in s3
                    have hga : getRa (setRa s { r with states := r.states ++ [newSInfo s m (updSucc r m)] }) m.ra =
                        some { r with states := r.states ++ [newSInfo s m (updSucc r m)] } := by
                      rw [← hid]
                      exact getRa_setRa_same (r0 := r) (show getRa s r.id = some r by rw [hid]; exact hg)
                    obtain ⟨r3, hg3, hst3⟩ := hw3.statesKeep m.ra _ hga
                    have hg4' : getRa s3 m.ra = some r4 := hg4
                    rw [hg3] at hg4'; injection hg4' with hg4'; subst hg4'
                    have hnew : (r.states ++ [newSInfo s m (updSucc r m)])[r.states.length]? = some (newSInfo s m (updSucc r m)) := by
                      simp
                    obtain ⟨st', hk1, hk2⟩ := getElem?_of_map_eraseNext
                      (l := r.states ++ [newSInfo s m (updSucc r m)]) (l' := r3.states) hst3 hnew
                    have hf := eraseNext_fields hk2
                    -- J of the state with the queue entry and the liabilities added
                    have hj4 : J { s3 with queue := queueAppend s3.queue s3.h m.ra (r.states.length + 1),
                                           seqH := addSeqHeights s3.seqH m.sender m.bds } := by
                      constructor
                      · exact hj3.prop.congr rfl rfl
                      · intro p hp
                        rcases mem_addSeqHeights _ _ _ _ hp with h1 | ⟨b, hb, hpb⟩
                        · obtain ⟨ra0, r0, i, st0, k1, k2, k3, k4, k5, k6, k7⟩ := hj3.liab p h1
                          exact ⟨ra0, r0, i, st0, k1.congr rfl, k2, k3, k4, k5, k6, k7⟩
                        · subst hpb
                          have hbr := hwf.bd_range (show b ∈ (newSInfo s m (updSucc r m)).bds from hb)
                          refine ⟨m.ra, r3, r.states.length, st', hso.congr rfl, hg3, hk1, hf.1, hf.2.2.2.1, ?_, ?_⟩
                          · show st'.start ≤ b.height; rw [hf.2.1]; exact hbr.1
                          · show b.height ≤ st'.last; rw [eraseNext_last hk2]; exact hbr.2
                      · intro id r' hg' x hx
                        exact (hj3.creators id r' hg' x hx).congr rfl
                    refine Good.J ?_ hj4
                    exact indicateLiveness_good (id := m.ra) hg3

-- ---------------------------------------------------------------- kick, fraud, obsolete marking

theorem kick_j {s s' : St} {a : Addr} (hi : Inv s) (e : kick s a = .ok s') : J s' := by
  obtain ⟨kicker, r, pa, s3, hk, hg, hpa, hne, h3, e'⟩ := kick_ok_elim e
  have g2 := abruptRemoveProposer_good s r.id
  have hc2 : ChainAll (abruptRemoveProposer s r.id) := abruptRemoveProposer_chain hi.chain
  have hcu2 : Cust (abruptRemoveProposer s r.id) := abruptRemoveProposer_cust hi.cust
  have hj3 := hardForkToLatest_J hc2 (g2.J hi.j) h3
  have hcu3 := hardForkToLatest_cust hcu2 h3
  have hw3 := g2.weak.trans (hardForkToLatest_weak hc2 h3)
  obtain ⟨q3, hq3, hr3⟩ := hw3.seqMono a kicker.rollapp ⟨kicker, hk, rfl⟩
  have hka := getSeq_addr hk
  have g4 : Good s3 (setSeq s3 { kicker with optedIn := true }) :=
    Good.setSeq (q := { kicker with optedIn := true }) (q0 := q3)
      (by show getSeq s3 kicker.addr = some q3; rw [hka]; exact hq3) (by show kicker.rollapp = q3.rollapp; exact hr3.symm)
  exact (g4.trans (recoverFromSentinel_good (nodup_setSeq hcu3.nodup _) e')).J hj3

theorem fraud_j {s s' : St} {au : Bool} {ra hh rev : Nat} {p rw : Option Addr} (hi : Inv s)
    (e : fraud s au ra hh rev p rw = .ok s') : J s' := by
  obtain ⟨_, _, r, s1, _, _, h5, h6⟩ := fraud_ok_elim e
  cases p with
  | none =>
    have : s1 = s := h5
    subst this
    exact hardFork_J hi.chain hi.j h6
  | some a =>
    have h5 : punish s a rw = .ok s1 := h5
    exact hardFork_J (punish_chain hi.chain h5) ((punish_good h5).J hi.j) h6

theorem forkSeq_inv {a b : St} (f : ForkSeq a b) (hc : ChainAll a) (hj : J a) : ChainAll b ∧ J b := by
  induction f with
  | refl => exact ⟨hc, hj⟩
  | step ra _ hstep ih =>
    obtain ⟨h1, h2⟩ := ih
    exact ⟨hardForkToLatest_chain h1 hstep, hardForkToLatest_J h1 h2 hstep⟩

theorem markObsolete_j {s s' : St} {au : Bool} {vs : List Nat} (hi : Inv s) (e : markObsolete s au vs = .ok s') : J s' := by
  obtain ⟨_, _, f⟩ := markObsolete_ok_elim e
  exact (forkSeq_inv f (hi.chain.ras_eq rfl) (hi.j.of_eq rfl rfl rfl)).2

-- ---------------------------------------------------------------- end block

theorem finalizeEntry_go_j (fails : List (Nat × Nat)) (e : QEntry) (l : List Nat) (s : St) (hc : ChainAll s) (h : J s) :
    J (finalizeEntry.go fails e s l).1 := by
  induction l generalizing s with
  | nil => unfold finalizeEntry.go; exact h.of_eq rfl rfl rfl
  | cons i rest ih =>
    unfold finalizeEntry.go
    split
    · rename_i s1 h1; exact ih s1 (finalizeOne_chain hc h1) (finalizeOne_J hc h h1)
    · exact h.of_eq rfl rfl rfl

theorem finalizeAll_j (fails : List (Nat × Nat)) (es : List QEntry) (failed : List Nat) (s : St) (hc : ChainAll s) (h : J s) :
    J (finalizeAll s fails es failed) := by
  induction es generalizing s failed with
  | nil => unfold finalizeAll; exact h
  | cons e es ih =>
    unfold finalizeAll
    split
    · exact ih _ _ hc h
    · have h1 := finalizeEntry_go_chain fails e e.idx s hc
      have h2 := finalizeEntry_go_j fails e e.idx s hc h
      unfold finalizeEntry
      exact ih _ _ h1 h2

theorem endBlock_j {s : St} {fails : List (Nat × Nat)} (hc : ChainAll s) (h : J s) : J (endBlock s fails) := by
  unfold endBlock
  apply (checkLiveness_good _).J
  unfold finalizeRollappStates
  split
  · exact h
  · exact finalizeAll_j _ _ _ _ hc h

-- ---------------------------------------------------------------- every transition, every run

theorem apply_j {s s' : St} {o : Op} (hi : Inv s) (e : apply s o = .ok s') : J s' := by
  cases o with
  | createRollapp id owner mb =>
    simp only [apply] at e
    split at e
    · cases e
    · rename_i hn
      injection e with e; subst e
      have hnone : getRa s id = none := by
        cases hx : getRa s id with
        | none => rfl
        | some _ => simp [hx] at hn
      exact (createRollapp_good owner mb hnone).J hi.j
  | bridge ra hh =>
    simp only [apply] at e
    split at e
    · cases e
    · rename_i r hg
      split at e
      · cases e
      · split at e
        · cases e
        · injection e with e; subst e
          exact (Good.setRa rfl rfl rfl (r0 := r) (r1 := { r with tph := hh })
            (by show getRa s r.id = some r; rw [getRa_id hg]; exact hg) rfl (fun x => x.of_fields rfl rfl rfl)).J hi.j
  | fund a amt =>
    simp only [apply] at e; injection e with e; subst e
    exact hi.j.of_eq rfl rfl rfl
  | createSeq a ra b d => exact (createSeq_good hi.cust.nodup e).J hi.j
  | bondInc a amt d => exact (increaseBond_good e).J hi.j
  | bondDec a amt => exact (decreaseBond_good e).J hi.j
  | unbond a => exact (unbond_good e).J hi.j
  | optIn a v => exact (optIn_good hi.cust.nodup e).J hi.j
  | kick a => exact kick_j hi e
  | update m => exact updateState_j hi e
  | fraud au ra hh rev p rw => exact fraud_j hi e
  | obsolete au vs => exact markObsolete_j hi e
  | punish au a rw => exact (punish_good (punishProposal_ok e).2).J hi.j
  | transferOwner sg ra' no =>
    obtain ⟨r, hg, _, _, _, rfl⟩ := transferOwner_ok e
    exact (Good.setRa rfl rfl rfl (r0 := r) (r1 := { r with owner := no })
      (by show getRa s r.id = some r; rw [getRa_id hg]; exact hg) rfl (fun x => x.of_fields rfl rfl rfl)).J hi.j
  | setSeqParams au sp =>
    obtain ⟨_, hnp, _, rfl⟩ := setSeqParams_ok e
    exact hi.j.of_eq rfl rfl rfl
  | begin_ dt =>
    simp only [apply] at e; injection e with e; subst e
    exact (beginBlock_good hi.cust.nodup).J hi.j
  | end_ f =>
    simp only [apply] at e; injection e with e; subst e
    exact endBlock_j hi.chain hi.j

theorem apply_inv {s s' : St} {o : Op} (hi : Inv s) (e : apply s o = .ok s') : Inv s' :=
  ⟨apply_chain hi.chain e, apply_cust hi.cust e, apply_j hi e⟩

theorem step_inv {s : St} {o : Op} (hi : Inv s) : Inv (step s o).1 := by
  unfold step
  split
  · rename_i s' e; exact apply_inv hi e
  · exact hi

theorem run_inv (p : Params) (ops : List Op) : Inv (run p ops) := by
  unfold run
  apply foldl_inv Inv
  · refine ⟨?_, ⟨List.Pairwise.nil, rfl⟩, ⟨?_, ?_, ?_⟩⟩
    · intro r hr; simp [init] at hr
    · intro id r hg; simp [getRa, init] at hg
    · intro p hp; simp [init] at hp
    · intro id r hg; simp [getRa, init] at hg
  · intro b o hb; exact step_inv hb

end DymVerif.Core.Fork
